/-
Admission on the closed system: a full flush of a sender whose send buffer is empty, whose queue is
not, and whose effective window is open (congestion window off) numbers at least one segment; and the
generic tool that turns "in every long enough run some state satisfies Q" into "… by time X + 1".
-/
import KcpVerif.Lemmas.SysDrainProbe4

namespace KcpVerif.SysC
open KcpVerif KcpVerif.Gen KcpVerif.Kcp KcpVerif.Live KcpVerif.Wire KcpVerif.SysW KcpVerif.Sys

theorem now_mono_run : ∀ (evs : List Ev) (s : State), s.now ≤ (Sys.run s evs).now := by
  intro evs
  induction evs with
  | nil => intro s; exact Nat.le_refl _
  | cons ev rest ih =>
    intro s
    have h1 := ih (Sys.step s ev)
    have : Sys.run s (ev :: rest) = Sys.run (Sys.step s ev) rest := rfl
    rw [this]
    rcases step_now s ev with e | e <;> omega

/-- an eventuality of every long enough prefix of a run happens by the time the bound is passed -/
theorem ev_bound {P : State → Prop} {Q : State → Prop} (s : State) (X : Nat) (evs : List Ev)
    (hev : ∀ c d, evs = c ++ d → RunP P s c → X < (Sys.run s c).now → ∃ a b, c = a ++ b ∧ Q (Sys.run s a))
    (hr : RunP P s evs) (hnow : X < (Sys.run s evs).now) :
    ∃ a b, evs = a ++ b ∧ Q (Sys.run s a) ∧ (Sys.run s a).now ≤ max s.now (X + 1) := by
  by_cases hs : s.now ≤ X + 1
  · obtain ⟨c, d, e1, e2⟩ := run_reaches (X + 1) evs s hs (by omega)
    obtain ⟨hrc, _⟩ := RunP.split c d s (by rw [← e1]; exact hr)
    obtain ⟨a, b', e3, hq⟩ := hev c d e1 hrc (by omega)
    refine ⟨a, b' ++ d, by rw [e1, e3, List.append_assoc], hq, ?_⟩
    have := now_mono_run b' (Sys.run s a)
    rw [← run_append, ← e3, e2] at this
    omega
  · obtain ⟨a, b, e1, hq⟩ := hev [] evs rfl (RunP.head hr) (by show X < s.now; omega)
    have ha : a = [] := by
      cases a with
      | nil => rfl
      | cons x r => simp at e1
    subst ha
    exact ⟨[], evs, rfl, hq, by show s.now ≤ _; omega⟩

theorem itd_open (u c : U32) (h1 : c ≠ 0) (h2 : c.toNat < 2 ^ 31) : ¬ itimediff u (u + c) ≥ 0 := by
  unfold itimediff
  have e : u - (u + c) = -c := by bv_omega
  rw [e, BitVec.toInt_eq_toNat_cond]
  have hc : c.toNat ≠ 0 := fun h => h1 (BitVec.eq_of_toNat_eq (by simpa using h))
  have : (-c).toNat = 2 ^ 32 - c.toNat := by
    rw [BitVec.toNat_neg]
    have := c.isLt
    omega
  rw [this]
  split <;> omega

/-- the effective window is open: congestion window off or non-zero, remote and send window non-zero -/
theorem effWnd_open (k : Kcp) (h1 : k.nocwnd ≠ 0 ∨ k.cwnd ≠ 0) (h2 : k.rmt_wnd ≠ 0) (h3 : k.snd_wnd ≠ 0)
    (h4 : k.snd_wnd.toNat < 2 ^ 31) : effWnd k ≠ 0 ∧ (effWnd k).toNat < 2 ^ 31 := by
  have hm : (if k.snd_wnd ≤ k.rmt_wnd then k.snd_wnd else k.rmt_wnd) ≠ 0 ∧
      (if k.snd_wnd ≤ k.rmt_wnd then k.snd_wnd else k.rmt_wnd).toNat < 2 ^ 31 := by
    split
    · exact ⟨h3, h4⟩
    · rename_i h
      simp only [BitVec.le_def] at h
      exact ⟨h2, by omega⟩
  unfold effWnd
  by_cases hn : k.nocwnd = 0
  · rw [if_pos hn]
    rcases h1 with h1 | h1
    · exact absurd hn h1
    · generalize (if k.snd_wnd ≤ k.rmt_wnd then k.snd_wnd else k.rmt_wnd) = m at hm
      split
      · rename_i h
        simp only [BitVec.le_def] at h
        exact ⟨h1, by omega⟩
      · exact hm
  · rw [if_neg hn]; exact hm

theorem cwnd_floor (k8 : Kcp) : (if k8.cwnd < 1 then { k8 with cwnd := 1, incr := k8.mss } else k8).cwnd ≠ 0 := by
  by_cases h : k8.cwnd < 1
  · rw [if_pos h]; show (1 : U32) ≠ 0; decide
  · rw [if_neg h]; intro e; apply h; rw [e]; decide

/-- with congestion control on, every flush leaves a congestion window of at least one segment -/
theorem flush_cwnd_pos (K : Kcp) (full : Bool) (now : U32) :
    (flush K full now).k.nocwnd ≠ 0 ∨ (flush K full now).k.cwnd ≠ 0 := by
  by_cases hn : K.nocwnd = 0
  · right
    have hnc : (flush K full now).k.nocwnd = K.nocwnd := by
      obtain ⟨pw, tp, st, ss, cw, inc, hk⟩ := flush_frame K full now
      rw [hk]
    rw [flush_eq] at hnc ⊢
    simp only [] at hnc ⊢
    generalize (flF5 K full now).k = k5 at hnc ⊢
    generalize (flX K full now).change = ch at hnc ⊢
    generalize (flX K full now).lost = lo at hnc ⊢
    generalize effWnd (flF3 K now).k = cw at hnc ⊢
    generalize resentOf (flF4 K now).k = rs at hnc ⊢
    have h5 : k5.nocwnd = 0 := by
      obtain ⟨ss, c, inc, h6⟩ := phase6_frame k5 ch lo cw rs
      rw [h6] at hnc
      exact hnc.trans hn
    unfold phase6
    rw [if_pos h5]
    exact cwnd_floor _
  · left
    obtain ⟨pw, tp, st, ss, cw, inc, hk⟩ := flush_frame K full now
    rw [hk]; exact hn

/-- **admission**: nothing outstanding, something queued, the window open ⇒ a full flush numbers a segment -/
theorem flush_admits (K : Kcp) (now : U32) (hb : K.snd_buf = []) (hq : K.snd_queue ≠ []) (hun : K.snd_nxt = K.snd_una)
    (h1 : K.nocwnd ≠ 0 ∨ K.cwnd ≠ 0) (h2 : K.rmt_wnd ≠ 0) (h3 : K.snd_wnd ≠ 0) (h4 : K.snd_wnd.toNat < 2 ^ 31) :
    (flush K true now).k.snd_buf ≠ [] := by
  obtain ⟨pw3, tp3, h3f⟩ := flF3_frame K now
  have e1 : (flF3 K now).k.snd_queue = K.snd_queue := by rw [h3f]
  have e2 : (flF3 K now).k.snd_buf = [] := by rw [h3f]; exact hb
  have e3 : (flF3 K now).k.snd_nxt = K.snd_una := by rw [h3f]; exact hun
  have e4 : (flF3 K now).k.snd_una = K.snd_una := by rw [h3f]
  have e5 : effWnd (flF3 K now).k = effWnd K := by rw [h3f]; rfl
  obtain ⟨ho, hlt⟩ := effWnd_open K h1 h2 h3 h4
  have had : (flAd K now).buf ≠ [] := by
    unfold flAd
    rw [e1, e2, e3, e4, e5]
    cases hqq : K.snd_queue with
    | nil => exact absurd hqq hq
    | cons s rest =>
      unfold admitSegs
      rw [if_neg (itd_open _ _ ho hlt)]
      obtain ⟨m, _, _, hbuf, _, _⟩ := admitSegs_spec (flF3 K now).k.conv K.snd_una (effWnd K) now rest
        ([] ++ [{ s with conv := (flF3 K now).k.conv, cmd := BitVec.ofNat 8 IKCP_CMD_PUSH, sn := K.snd_una, ts := now, resendts := now }])
        (K.snd_una + 1) (0 + 1)
      rw [hbuf]
      simp
  obtain ⟨pw, tp, st, ss, cw, inc, hk⟩ := flush_frame K true now
  obtain ⟨pw4, tp4, hk4⟩ := flF4_frame K now
  have hdone := (flX_full K now).done
  have hbuf : (flF4 K now).k.snd_buf = (flAd K now).buf := by rw [hk4]
  rw [hbuf] at hdone
  rw [hk]
  show (flX K true now).done ≠ []
  rw [hdone]
  intro h
  apply had
  simp only [List.nil_append, List.map_eq_nil_iff] at h
  exact h

/-- a flush moves segments from the queue to the numbered ones: `|snd_queue| + snd_nxt` is unchanged -/
theorem flush_qn (base : U32) (K : Kcp) (now : U32) (hnw : o base K.snd_nxt + K.snd_queue.length < 2 ^ 31) :
    (flush K true now).k.snd_queue.length + o base (flush K true now).k.snd_nxt =
      K.snd_queue.length + o base K.snd_nxt := by
  obtain ⟨pw3, tp3, h3⟩ := flF3_frame K now
  obtain ⟨m, hm, a1, _, a3, _⟩ := admitSegs_spec (flF3 K now).k.conv (flF3 K now).k.snd_una (effWnd (flF3 K now).k) now
    (flF3 K now).k.snd_queue (flF3 K now).k.snd_buf (flF3 K now).k.snd_nxt 0
  have e2 : (flF3 K now).k.snd_queue = K.snd_queue := by rw [h3]
  have e4 : (flF3 K now).k.snd_nxt = K.snd_nxt := by rw [h3]
  obtain ⟨pw, tp, st, ss, cw, inc, hk⟩ := flush_frame K true now
  rw [hk]
  show (flAd K now).queue.length + o base (flAd K now).nxt = _
  unfold flAd
  rw [a1, a3, e2, e4]
  rw [e2] at hm
  rw [List.length_drop, o_add base K.snd_nxt m (by omega)]
  omega


end KcpVerif.SysC
