/-
`HeadLive` (the head of `snd_buf` is not flagged acked and `snd_una` is its `sn`) together with
"nothing in `snd_queue` is flagged" as an invariant over all operations.  Core Lean only.
-/
import KcpVerif.Lemmas.KcpTimer
import KcpVerif.Lemmas.KcpLive

namespace KcpVerif.Live
open KcpVerif KcpVerif.Gen KcpVerif.Kcp

/-- `HeadLive`, and no queued (never sent) segment carries the acked flag -/
def LiveInv (k : Kcp) : Prop := HeadLive k ∧ ∀ s ∈ k.snd_queue, s.acked = false

/-- the whole send side is untouched -/
def SndSame4 (a b : Kcp) : Prop :=
  a.snd_buf = b.snd_buf ∧ a.snd_queue = b.snd_queue ∧ a.snd_una = b.snd_una ∧ a.snd_nxt = b.snd_nxt

theorem LiveInv.of_same {a b : Kcp} (h : SndSame4 a b) (hb : LiveInv b) : LiveInv a := by
  unfold LiveInv
  rw [h.2.1]
  exact ⟨HeadLive.of_same h.1 h.2.2.1 h.2.2.2 hb.1, hb.2⟩

theorem SndSame4.trans {a b c : Kcp} (h1 : SndSame4 a b) (h2 : SndSame4 b c) : SndSame4 a c :=
  ⟨h1.1.trans h2.1, h1.2.1.trans h2.2.1, h1.2.2.1.trans h2.2.2.1, h1.2.2.2.trans h2.2.2.2⟩

theorem recv_snd4 (k : Kcp) (n : Nat) : SndSame4 (recv k n).k k := by
  unfold recv moveReady
  simp only []
  repeat' split
  all_goals exact ⟨rfl, rfl, rfl, rfl⟩

theorem setMtu_snd4 (k : Kcp) (m : Int) : SndSame4 (setMtu k m).1 k := by
  unfold setMtu
  simp only []
  repeat' split
  all_goals exact ⟨rfl, rfl, rfl, rfl⟩

theorem wndSize_snd4 (k : Kcp) (s r : Int) : SndSame4 (wndSize k s r) k := by
  unfold wndSize
  simp only []
  repeat' split
  all_goals exact ⟨rfl, rfl, rfl, rfl⟩

theorem noDelay_snd4 (k : Kcp) (nd iv rs nc : Int) : SndSame4 (noDelay k nd iv rs nc) k := by
  unfold noDelay
  simp only []
  repeat' split
  all_goals exact ⟨rfl, rfl, rfl, rfl⟩

theorem cwndOnAck_snd4 (k : Kcp) (old : U32) : SndSame4 (cwndOnAck k old) k := by
  unfold cwndOnAck
  simp only []
  repeat' split
  all_goals exact ⟨rfl, rfl, rfl, rfl⟩

theorem updateAck_snd4 (k : Kcp) (rtt : U32) : SndSame4 (updateAck k rtt) k := by
  unfold updateAck smoothRtt
  simp only []
  repeat' split
  all_goals exact ⟨rfl, rfl, rfl, rfl⟩

/-! ### admission -/

/-- what admission does: nothing, or the buffer gains the first queued segment numbered `nxt`
(followed by more) and `nxt` moves on; the queue only loses -/
theorem admitSegs_shape (conv una cwnd now : U32) (q buf : List Seg) (nxt : U32) (c : Nat) :
    (admitSegs conv una cwnd now q buf nxt c = ⟨q, buf, nxt, c⟩ ∨
      ∃ q0 t, q0 ∈ q ∧ (admitSegs conv una cwnd now q buf nxt c).buf =
        buf ++ { q0 with conv := conv, cmd := BitVec.ofNat 8 IKCP_CMD_PUSH, sn := nxt, ts := now, resendts := now } :: t) ∧
    (∀ s ∈ (admitSegs conv una cwnd now q buf nxt c).queue, s ∈ q) := by
  cases q with
  | nil => exact ⟨Or.inl rfl, fun s hs => hs⟩
  | cons a rest =>
    unfold admitSegs
    split
    · exact ⟨Or.inl rfl, fun s hs => hs⟩
    · constructor
      · right
        obtain ⟨t, ht⟩ := admitSegs_prefix conv una cwnd now rest
          (buf ++ [{ a with conv := conv, cmd := BitVec.ofNat 8 IKCP_CMD_PUSH, sn := nxt, ts := now, resendts := now }])
          (nxt + 1) (c + 1)
        exact ⟨a, t, List.mem_cons_self, by rw [ht]; simp⟩
      · intro s hs
        have : ∀ (q buf : List Seg) (nxt : U32) (c : Nat), ∀ s ∈ (admitSegs conv una cwnd now q buf nxt c).queue, s ∈ q := by
          intro q
          induction q with
          | nil => intro buf nxt c s hs; exact hs
          | cons b r ih =>
            intro buf nxt c s hs
            unfold admitSegs at hs
            split at hs
            · exact hs
            · exact List.mem_cons_of_mem _ (ih _ _ _ s hs)
        exact List.mem_cons_of_mem _ (this rest _ _ _ s hs)

theorem flush_live (k : Kcp) (full : Bool) (now : U32) (h : LiveInv k) : LiveInv (flush k full now).k := by
  obtain ⟨_, _, _, _, _, _, hk⟩ := flush_frame k full now
  obtain ⟨pw, tp, h3⟩ := flF3_frame k now
  obtain ⟨pw', tp', h4⟩ := flF4_frame k now
  have hsh := admitSegs_shape (flF3 k now).k.conv (flF3 k now).k.snd_una (effWnd (flF3 k now).k) now
    (flF3 k now).k.snd_queue (flF3 k now).k.snd_buf (flF3 k now).k.snd_nxt 0
  have hq3 : (flF3 k now).k.snd_queue = k.snd_queue := by rw [h3]
  have hb3 : (flF3 k now).k.snd_buf = k.snd_buf := by rw [h3]
  have hn3 : (flF3 k now).k.snd_nxt = k.snd_nxt := by rw [h3]
  rw [hq3, hb3, hn3] at hsh
  -- the buffer after admission satisfies HeadLive w.r.t. snd_una and the new snd_nxt
  have hAd : match (flAd k now).buf with
      | s :: _ => s.acked = false ∧ k.snd_una = s.sn
      | [] => k.snd_una = (flAd k now).nxt := by
    have hl := h.1
    unfold HeadLive at hl
    show match (admitSegs (flF3 k now).k.conv (flF3 k now).k.snd_una (effWnd (flF3 k now).k) now
      (flF3 k now).k.snd_queue (flF3 k now).k.snd_buf (flF3 k now).k.snd_nxt 0).buf with
      | s :: _ => s.acked = false ∧ k.snd_una = s.sn
      | [] => k.snd_una = (admitSegs (flF3 k now).k.conv (flF3 k now).k.snd_una (effWnd (flF3 k now).k) now
      (flF3 k now).k.snd_queue (flF3 k now).k.snd_buf (flF3 k now).k.snd_nxt 0).nxt
    rw [hq3, hb3, hn3]
    rcases hsh.1 with e | ⟨q0, t, hq0, e⟩
    · rw [e]; exact hl
    · rw [e]
      cases hb : k.snd_buf with
      | nil =>
        rw [hb] at hl
        simp only [List.nil_append]
        exact ⟨h.2 q0 hq0, hl⟩
      | cons s rest =>
        rw [hb] at hl
        simp only [List.cons_append]
        exact hl
  have hqe : (flAd k now).queue = (admitSegs (flF3 k now).k.conv (flF3 k now).k.snd_una (effWnd (flF3 k now).k) now
      k.snd_queue k.snd_buf k.snd_nxt 0).queue := by
    unfold flAd; rw [hq3, hb3, hn3]
  have hqueue : ∀ s ∈ (flAd k now).queue, s.acked = false := fun s hs => h.2 s (hsh.2 s (by rw [← hqe]; exact hs))
  unfold LiveInv HeadLive
  rw [hk]
  refine ⟨?_, hqueue⟩
  show match (flX k full now).done with
    | s :: _ => s.acked = false ∧ k.snd_una = s.sn
    | [] => k.snd_una = (flAd k now).nxt
  cases full
  · rw [flX_ackonly, h4]; exact hAd
  · have hd := (flX_full k now).done
    rw [hd, h4]
    simp only [List.nil_append]
    cases hb : (flAd k now).buf with
    | nil => rw [hb] at hAd; exact hAd
    | cons s rest =>
      rw [hb] at hAd
      simp only [List.map_cons]
      rw [segAfter_acked, (segAfter_id _ _ _ _ _ _ _ _).1]
      exact hAd

theorem update_live (k : Kcp) (now : U32) (h : LiveInv k) : LiveInv (update k now).k := by
  unfold update
  simp only []
  refine ite_pred (fun r : FlushRes => LiveInv r.k) _ (flush_live _ true now ?_) ?_
  · refine LiveInv.of_same ?_ h
    repeat' split
    all_goals exact ⟨rfl, rfl, rfl, rfl⟩
  · refine LiveInv.of_same ?_ h
    repeat' split
    all_goals exact ⟨rfl, rfl, rfl, rfl⟩

theorem input_live (k : Kcp) (data : Bytes) (regular ackNoDelay : Bool) (now : U32) (h : LiveInv k) :
    LiveInv (input k data regular ackNoDelay now).k := by
  have hstq : (inSt k data regular).k.snd_queue = k.snd_queue := by
    unfold inSt
    apply inputLoop_induct regular (fun x => x.k.snd_queue = k.snd_queue)
    · intro st r h'; exact h'
    · intro conv cmd frg wnd ts sn una payload st _ _ _ h'
      obtain ⟨_, _, _, _, _, _, _, hf⟩ := inStep_frame regular conv cmd frg wnd ts sn una payload st
      rw [hf]; exact h'
    · rfl
  have hst : LiveInv (inSt k data regular).k :=
    ⟨inputLoop_headLive regular _ data { k := k } h.1, by rw [hstq]; exact h.2⟩
  have h2 : LiveInv (inK2 k data regular now) := by
    unfold inK2
    refine LiveInv.of_same (cwndOnAck_snd4 _ _) ?_
    split
    · exact LiveInv.of_same (updateAck_snd4 _ _) hst
    · exact hst
  rw [input_eq]
  split
  · exact h
  · split
    · exact hst
    · split
      · exact hst
      · split
        · exact flush_live _ _ _ h2
        · split
          · exact flush_live _ _ _ h2
          · split
            · exact flush_live _ _ _ h2
            · exact h2

theorem mkSegs_acked (mss : Nat) (stream : Bool) (c : Nat) (buf : Bytes) : ∀ s ∈ mkSegs mss stream c buf, s.acked = false := by
  induction c generalizing buf with
  | zero => intro s hs; simp [mkSegs] at hs
  | succ n ih =>
    intro s hs
    unfold mkSegs at hs
    rcases List.mem_cons.mp hs with rfl | hs
    · rfl
    · exact ih _ s hs

theorem send_live (k : Kcp) (b : Bytes) (h : LiveInv k) : LiveInv (send k b).k := by
  have hq1 : ∀ (c : Prop) [Decidable c] (d : Seg → Bytes),
      ∀ s ∈ (if c then (match k.snd_queue.getLast? with
                        | some s => setLast k.snd_queue { s with data := d s }
                        | none => k.snd_queue) else k.snd_queue), s.acked = false := by
    intro c _ d
    split
    · split
      · rename_i s0 hs0
        intro s hs
        unfold setLast at hs
        rcases List.mem_append.mp hs with hm | hm
        · exact h.2 s (List.dropLast_subset _ hm)
        · simp only [List.mem_singleton] at hm; subst hm
          exact h.2 s0 (List.mem_of_getLast? hs0)
      · exact h.2
    · exact h.2
  unfold send
  simp only []
  refine ite_pred (fun r : SendRes => LiveInv r.k) _ h ?_
  refine ite_pred (fun r : SendRes => LiveInv r.k) _ h ?_
  refine ite_pred (fun r : SendRes => LiveInv r.k) _ h ?_
  refine ite_pred (fun r : SendRes => LiveInv r.k) _ ⟨h.1, hq1 _ _⟩ ?_
  refine ite_pred (fun r : SendRes => LiveInv r.k) _ ⟨h.1, hq1 _ _⟩ ?_
  refine ⟨h.1, ?_⟩
  intro s hs
  rcases List.mem_append.mp hs with hs | hs
  · exact hq1 _ _ s hs
  · exact mkSegs_acked _ _ _ _ s hs

theorem step_live (k : Kcp) (op : Op) (h : LiveInv k) : LiveInv (step k op) := by
  cases op with
  | send b => exact send_live k b h
  | recv n => exact LiveInv.of_same (recv_snd4 k n) h
  | input d r a now => exact input_live k d r a now h
  | flush full now => exact flush_live k full now h
  | update now => exact update_live k now h
  | setMtu m => exact LiveInv.of_same (setMtu_snd4 k m) h
  | noDelay nd iv rs nc => exact LiveInv.of_same (noDelay_snd4 k nd iv rs nc) h
  | wndSize s r => exact LiveInv.of_same (wndSize_snd4 k s r) h

theorem run_live (k : Kcp) (ops : List Op) (h : LiveInv k) : LiveInv (run k ops) := by
  induction ops generalizing k with
  | nil => exact h
  | cons op rest ih => rw [run_cons]; exact ih _ (step_live k op h)

theorem new_live (conv : U32) : LiveInv (Kcp.new conv) :=
  ⟨rfl, fun s hs => by simp [Kcp.new] at hs⟩

end KcpVerif.Live
