import KcpVerif.Model.Ring
/-!
Specification-level definitions (`WF`, `abs`, `mapUntil`, the op language) and helper lemmas for
the ring-buffer model `KcpVerif.Model.Ring`.  The property theorems are in `Props/C20.lean`.
-/
namespace KcpVerif
open KcpVerif.Gen

namespace Ring
variable {α β σ : Type}

/-! ### slice / blit / clearRange, pointwise -/

theorem length_slice (l : List β) (a b : Nat) : (slice l a b).length = min (b - a) (l.length - a) := by
  simp [slice]

theorem getElem?_slice (l : List β) (a b i : Nat) :
    (slice l a b)[i]? = if i < b - a then l[a + i]? else none := by
  simp [slice, List.getElem?_take]

theorem length_blit (dst : List β) (off : Nat) (src : List β) : (blit dst off src).length = dst.length := by
  simp [blit]; omega

theorem getElem?_blit (dst : List β) (off : Nat) (src : List β) (i : Nat) :
    (blit dst off src)[i]? =
      if i < off then dst[i]? else if i < off + src.length ∧ i < dst.length then src[i - off]? else dst[i]? := by
  simp only [blit]
  grind

theorem length_clearRange (l : List (Option α)) (a b : Nat) : (clearRange l a b).length = l.length := by
  simp [clearRange]; omega

theorem getElem?_clearRange (l : List (Option α)) (a b i : Nat) :
    (clearRange l a b)[i]? = if a ≤ i ∧ i < b ∧ i < l.length then some none else l[i]? := by
  simp only [clearRange, List.getElem?_append, List.length_append, List.length_take, List.getElem?_take,
    List.getElem?_drop, List.length_replicate, List.getElem?_replicate]
  by_cases hi : i < l.length
  · repeat' split
    all_goals first
      | rfl
      | omega
      | (congr 1; omega)
  · rw [List.getElem?_eq_none (i := i) (by omega)]
    repeat' split
    all_goals first
      | rfl
      | omega
      | (apply List.getElem?_eq_none; omega)

/-! ### the specification vocabulary -/

/-- physical index of the `k`-th element counted from the head -/
def idx (r : Ring α) (k : Nat) : Nat :=
  if r.head + k < r.size then r.head + k else r.head + k - r.size

/-- slot `i` lies in the live range `[head, tail)` read circularly -/
def Live (r : Ring α) (i : Nat) : Prop :=
  if r.head ≤ r.tail then r.head ≤ i ∧ i < r.tail else r.head ≤ i ∨ i < r.tail

/-- Well-formed ring: at least two slots (one is always kept empty), both indices inside the
slice, every slot outside the live range holds the zero value (`none`: nothing is retained
there) and every slot inside holds an element. -/
structure WF (r : Ring α) : Prop where
  size_ge : 2 ≤ r.size
  head_lt : r.head < r.size
  tail_lt : r.tail < r.size
  dead : ∀ i, i < r.size → ¬ r.Live i → r.elems[i]? = some none
  live : ∀ i, i < r.size → r.Live i → ∃ a, r.elems[i]? = some (some a)

/-- the slots of the live range, read circularly from `head` to `tail` -/
def liveSlots (r : Ring α) : List (Option α) :=
  if r.head ≤ r.tail then slice r.elems r.head r.tail else r.elems.drop r.head ++ r.elems.take r.tail

/-- the queue a ring represents: the contents of the live range, head first -/
def abs (r : Ring α) : List α := r.liveSlots.filterMap id

/-- `Rep r q`: `r` is well formed and represents the queue `q` (pointwise form used in proofs;
`rep_iff` shows it is `WF r ∧ abs r = q`). -/
structure Rep (r : Ring α) (q : List α) : Prop where
  size_ge : 2 ≤ r.size
  head_lt : r.head < r.size
  tail_lt : r.tail < r.size
  len_eq : r.len = q.length
  live : ∀ k, k < q.length → r.elems[r.idx k]? = some q[k]?
  dead : ∀ i, i < r.size → ¬ r.Live i → r.elems[i]? = some none

theorem succ_mod {t n : Nat} (h : t < n) : (t + 1) % n = if t + 1 = n then 0 else t + 1 := by
  split
  · next h1 => rw [h1, Nat.mod_self]
  · exact Nat.mod_eq_of_lt (by omega)

theorem length_liveSlots {r : Ring α} (hh : r.head < r.size) (ht : r.tail < r.size) :
    r.liveSlots.length = r.len := by
  unfold liveSlots len size at *
  split <;> simp [length_slice] <;> omega

theorem getElem?_liveSlots {r : Ring α} (hh : r.head < r.size) (ht : r.tail < r.size) {k : Nat}
    (hk : k < r.len) : r.liveSlots[k]? = r.elems[r.idx k]? := by
  unfold liveSlots len idx size at *
  split at hk
  · simp [*, getElem?_slice]; grind
  · simp [*, List.getElem?_append, List.getElem?_take]; grind

/-! ### omega-friendly characterisations -/

theorem lt_growSize {n : Nat} (h : 1 ≤ n) : n < growSize n := by
  unfold growSize
  split
  · assumption
  · split <;> omega

theorem size_grow (r : Ring α) : r.grow.size = growSize r.size := by
  simp only [grow, size]
  split <;> simp [length_blit]

theorem getElem?_grow (r : Ring α) (hh : r.head < r.size) (ht : r.tail < r.size) (i : Nat) :
    r.grow.elems[i]? =
      if r.head < r.tail then
        (if i < r.tail - r.head then r.elems[r.head + i]? else if i < growSize r.size then some none else none)
      else
        (if i < r.size - r.head then r.elems[r.head + i]?
         else if i < r.size - r.head + r.tail then r.elems[i - (r.size - r.head)]?
         else if i < growSize r.size then some none else none) := by
  have hg := lt_growSize (n := r.size) (by omega)
  obtain ⟨hd, tl, es⟩ := r
  simp only [Ring.grow, size] at *
  split
  · simp only [getElem?_blit, getElem?_slice, length_slice, List.length_replicate, List.getElem?_replicate]
    repeat' split
    all_goals try first
      | rfl
      | omega
    all_goals grind
  · have hm : min (es.length - hd) (growSize es.length) = es.length - hd := by omega
    simp only [getElem?_blit, length_blit, List.length_replicate, List.getElem?_replicate, List.length_drop,
      List.length_take, List.getElem?_take, List.getElem?_drop, hm]
    repeat' split
    all_goals try first
      | rfl
      | omega
      | (congr 1; omega)
    all_goals grind


theorem head_grow (r : Ring α) : r.grow.head = 0 := rfl
theorem tail_grow (r : Ring α) : r.grow.tail = r.len := rfl

theorem len_spec (r : Ring α) :
    (r.head ≤ r.tail ∧ r.len = r.tail - r.head) ∨ (r.tail < r.head ∧ r.len = r.size - r.head + r.tail) := by
  unfold len; split <;> omega

theorem idx_spec (r : Ring α) (k : Nat) :
    (r.head + k < r.size ∧ r.idx k = r.head + k) ∨ (r.size ≤ r.head + k ∧ r.idx k = r.head + k - r.size) := by
  unfold idx; split <;> omega

theorem live_iff (r : Ring α) (i : Nat) :
    r.Live i ↔ (r.head ≤ r.tail ∧ r.head ≤ i ∧ i < r.tail) ∨ (r.tail < r.head ∧ (r.head ≤ i ∨ i < r.tail)) := by
  unfold Live; split <;> omega

theorem Rep.grow {r : Ring α} {q : List α} (h : Rep r q) : Rep r.grow q := by
  obtain ⟨h1, h2, h3, h4, h5, h6⟩ := h
  have hg := lt_growSize (n := r.size) (by omega)
  have hs := size_grow r
  have he := getElem?_grow r h2 h3
  have hl := len_spec r
  have hl' := len_spec r.grow
  rw [head_grow, tail_grow] at hl'
  refine ⟨by omega, by rw [head_grow]; omega, by rw [tail_grow]; omega, by omega, ?_, ?_⟩
  · intro k hk
    have hi := idx_spec r.grow k
    have hi' := idx_spec r k
    rw [head_grow] at hi
    rw [← h5 k hk, he]
    repeat' split
    all_goals first
      | omega
      | (congr 1; omega)
  · intro i hi hl
    rw [live_iff, head_grow, tail_grow] at hl
    have h6a := h6 (r.head + i)
    have h6b := h6 (i - (r.size - r.head))
    rw [live_iff] at h6a h6b
    rw [he]
    repeat' split
    all_goals first
      | rfl
      | omega
      | (apply h6a <;> omega)
      | (apply h6b <;> omega)


/-! ### push -/

theorem isFull_iff {r : Ring α} (hs : 2 ≤ r.size) (hh : r.head < r.size) (ht : r.tail < r.size) :
    r.isFull = true ↔ r.len + 1 = r.size := by
  unfold isFull len
  rw [succ_mod ht]
  simp only [beq_iff_eq]
  split <;> split <;> omega

/-- the body of `Push` after the optional growth step -/
def pushRaw (r : Ring α) (v : α) : Ring α :=
  { r with elems := r.elems.set r.tail (some v), tail := (r.tail + 1) % r.size }

theorem push_eq (r : Ring α) (v : α) : r.push v = pushRaw (if r.isFull then r.grow else r) v := rfl

theorem Rep.pushRaw {r : Ring α} {q : List α} (h : Rep r q) (hf : r.len + 1 ≠ r.size) (v : α) :
    Rep (pushRaw r v) (q ++ [v]) := by
  obtain ⟨h1, h2, h3, h4, h5, h6⟩ := h
  have hm := succ_mod h3
  obtain ⟨hd, tl, es⟩ := r
  constructor
  all_goals simp only [Ring.pushRaw, size, len, idx, Live, List.length_set, List.length_append, List.length_singleton] at *
  all_goals try simp only [hm]
  · omega
  · omega
  · grind
  · grind
  · grind
  · grind


theorem Rep.isFull_iff {r : Ring α} {q : List α} (h : Rep r q) : r.isFull = true ↔ q.length + 1 = r.size := by
  rw [Ring.isFull_iff h.size_ge h.head_lt h.tail_lt, h.len_eq]

theorem Rep.push {r : Ring α} {q : List α} (h : Rep r q) (v : α) : Rep (r.push v) (q ++ [v]) := by
  rw [push_eq]
  split
  · next hf =>
    have hg := h.grow
    apply hg.pushRaw
    have := lt_growSize (n := r.size) (by have := h.size_ge; omega)
    have := size_grow r
    have := h.isFull_iff.1 hf
    have := hg.len_eq
    omega
  · next hf =>
    apply h.pushRaw
    have h1 := h.isFull_iff
    have h2 := h.len_eq
    intro hc; apply hf; apply h1.2; omega

/-- new capacity after a push: unchanged unless full -/
theorem size_push (r : Ring α) (v : α) : (r.push v).size = if r.isFull then growSize r.size else r.size := by
  rw [push_eq]; split
  · simpa [pushRaw, size] using size_grow r
  · simp [pushRaw, size]

theorem Rep.len_zero_iff {r : Ring α} {q : List α} (h : Rep r q) : r.len = 0 ↔ q = [] := by
  rw [h.len_eq]; exact List.length_eq_zero_iff

theorem Rep.pop_fst {r : Ring α} {q : List α} (h : Rep r q) : (r.pop).1 = q.head?.map some := by
  unfold Ring.pop
  split
  · next h0 => simp [h.len_zero_iff.1 h0]
  · next h0 =>
    have hl := h.live 0 (by have := h.len_eq; omega)
    have hi : r.idx 0 = r.head := by have := idx_spec r 0; have := h.head_lt; omega
    rw [hi] at hl
    cases q with
    | nil => exact absurd (h.len_zero_iff.2 rfl) h0
    | cons a q => simpa using hl


theorem succ_mod_spec {t n : Nat} (h : t < n) :
    (t + 1 = n ∧ (t + 1) % n = 0) ∨ (t + 1 < n ∧ (t + 1) % n = t + 1) := by
  rw [succ_mod h]; split <;> omega

theorem Rep.pop_snd {r : Ring α} {q : List α} (h : Rep r q) : Rep (r.pop).2 q.tail := by
  unfold Ring.pop
  split
  · next h0 => simpa [h.len_zero_iff.1 h0] using h
  · next h0 =>
    obtain ⟨h1, h2, h3, h4, h5, h6⟩ := h
    have hm := succ_mod_spec h2
    have hl := len_spec r
    generalize hr : ({ r with elems := r.elems.set r.head none, head := (r.head + 1) % r.size } : Ring α) = r'
    show Rep r' q.tail
    have eh : r'.head = (r.head + 1) % r.size := by rw [← hr]
    have et : r'.tail = r.tail := by rw [← hr]
    have es : r'.size = r.size := by rw [← hr]; simp [size]
    have ee : ∀ i, r'.elems[i]? = if r.head = i ∧ i < r.size then some none else r.elems[i]? := by
      intro i; rw [← hr]; simp only [List.getElem?_set, size]; grind
    have hl' := len_spec r'
    refine ⟨by omega, by omega, by omega, by simp only [List.length_tail]; omega, ?_, ?_⟩
    · intro k hk
      simp only [List.length_tail] at hk
      have hi := idx_spec r (k + 1)
      have hi' := idx_spec r' k
      rw [List.getElem?_tail, ← h5 (k + 1) (by omega), ee]
      rw [if_neg (by omega)]
      congr 1; omega
    · intro i hi hnl
      rw [live_iff] at hnl
      have h6i := h6 i
      rw [live_iff] at h6i
      rw [ee]
      split
      · rfl
      · apply h6i <;> omega


/-! ### clear, discard, peek -/

theorem getElem?_clear (r : Ring α) (i : Nat) :
    r.clear.elems[i]? =
      if (if r.head ≤ r.tail then r.head ≤ i ∧ i < r.tail else r.head ≤ i ∨ i < r.tail) ∧ i < r.size
      then some none else r.elems[i]? := by
  simp only [Ring.clear, size]
  split
  · simp only [getElem?_clearRange]
    repeat' split
    all_goals first
      | rfl
      | omega
  · simp only [getElem?_clearRange, length_clearRange]
    repeat' split
    all_goals first
      | rfl
      | omega

theorem size_clear (r : Ring α) : r.clear.size = r.size := by
  simp only [Ring.clear, size]; split <;> simp [length_clearRange]

theorem Rep.clear {r : Ring α} {q : List α} (h : Rep r q) : Rep r.clear [] := by
  obtain ⟨h1, h2, h3, h4, h5, h6⟩ := h
  have hs := size_clear r
  have eh : r.clear.head = 0 := rfl
  have et : r.clear.tail = 0 := rfl
  have hl := len_spec r.clear
  refine ⟨by omega, by omega, by omega, by simp only [List.length_nil]; omega, ?_, ?_⟩
  · intro k hk; simp at hk
  · intro i hi _
    by_cases hL : r.Live i
    · rw [getElem?_clear, if_pos ⟨hL, by omega⟩]
    · rw [getElem?_clear, if_neg (fun hc => hL hc.1)]
      exact h6 i (by omega) hL


theorem discard_fst (r : Ring α) (n : Nat) : (r.discard n).1 = min n r.len := by
  simp only [discard]
  split
  · rfl
  · split <;> rfl

/-- the non-`Clear` branches of `Discard`, `m < len` slots from the head -/
def discardRaw (r : Ring α) (m : Nat) : Ring α :=
  if r.head + m < r.size then { r with elems := clearRange r.elems r.head (r.head + m), head := r.head + m }
  else { r with elems := clearRange (clearRange r.elems r.head r.size) 0 (r.head + m - r.size), head := r.head + m - r.size }

theorem discard_snd (r : Ring α) (n : Nat) :
    (r.discard n).2 = if min n r.len = r.len then r.clear else discardRaw r (min n r.len) := by
  simp only [discard, discardRaw]
  split
  · rfl
  · split <;> rfl


theorem Rep.discardRaw {r : Ring α} {q : List α} (h : Rep r q) {m : Nat} (hm : m < q.length) :
    Rep (Ring.discardRaw r m) (q.drop m) := by
  obtain ⟨h1, h2, h3, h4, h5, h6⟩ := h
  have hl := len_spec r
  generalize hr : Ring.discardRaw r m = r'
  have eh : r'.head = r.idx m := by
    rw [← hr]; unfold Ring.discardRaw idx; split <;> rfl
  have et : r'.tail = r.tail := by rw [← hr]; unfold Ring.discardRaw; split <;> rfl
  have es : r'.size = r.size := by
    rw [← hr]; unfold Ring.discardRaw; split <;> simp [size, length_clearRange]
  have ee : ∀ i, r'.elems[i]? =
      if (if r.head + m < r.size then r.head ≤ i ∧ i < r.head + m else (r.head ≤ i ∧ i < r.size) ∨ i < r.head + m - r.size)
      then some none else r.elems[i]? := by
    intro i; rw [← hr]
    have hsz : r.size = r.elems.length := rfl
    unfold Ring.discardRaw size
    split
    · simp only [getElem?_clearRange]
      repeat' split
      all_goals first
        | rfl
        | omega
    · simp only [getElem?_clearRange, length_clearRange]
      repeat' split
      all_goals first
        | rfl
        | omega
        | (symm; apply List.getElem?_eq_none; omega)
  have hl' := len_spec r'
  have him := idx_spec r m
  refine ⟨by omega, by omega, by omega, by simp only [List.length_drop]; omega, ?_, ?_⟩
  · intro k hk
    simp only [List.length_drop] at hk
    have hi := idx_spec r (m + k)
    have hi' := idx_spec r' k
    have hii : r'.idx k = r.idx (m + k) := by omega
    rw [List.getElem?_drop, ← h5 (m + k) (by omega), ee, hii]
    rw [if_neg]
    split <;> omega
  · intro i hi hnl
    rw [live_iff] at hnl
    have h6i := h6 i
    rw [live_iff] at h6i
    rw [ee]
    by_cases hc : (if r.head + m < r.size then r.head ≤ i ∧ i < r.head + m
        else (r.head ≤ i ∧ i < r.size) ∨ i < r.head + m - r.size)
    · rw [if_pos hc]
    · rw [if_neg hc]
      apply h6i (by omega)
      split at hc <;> omega


theorem Rep.discard_fst {r : Ring α} {q : List α} (h : Rep r q) (n : Nat) :
    (r.discard n).1 = min n q.length := by
  rw [Ring.discard_fst, h.len_eq]

theorem Rep.discard_snd {r : Ring α} {q : List α} (h : Rep r q) (n : Nat) :
    Rep (r.discard n).2 (q.drop n) := by
  rw [Ring.discard_snd, h.len_eq]
  split
  · next hc =>
    rw [List.drop_eq_nil_of_le (by omega)]
    exact h.clear
  · next hc =>
    have : min n q.length = n := by omega
    rw [this]
    exact h.discardRaw (by omega)

theorem Rep.peek {r : Ring α} {q : List α} (h : Rep r q) : r.peek = q.head?.map some := by
  unfold Ring.peek
  split
  · next h0 => simp [h.len_zero_iff.1 h0]
  · next h0 =>
    have hl := h.live 0 (by have := h.len_eq; omega)
    have hi : r.idx 0 = r.head := by have := idx_spec r 0; have := h.head_lt; omega
    rw [hi] at hl
    cases q with
    | nil => exact absurd (h.len_zero_iff.2 rfl) h0
    | cons a q => simpa using hl


end Ring
end KcpVerif
