/-
C09 `wire_reassembles`, part 1: the two header encoders of the development are the same function.

* `Kcp.encodeHdr` (Model/Kcp.lean, over `KcpVerif.le32` of Model/Wrap.lean) is what the core model's
  `flush` writes; the C01 development describes every datagram as `Wire.encFrames frs` over it;
* `Wire.encodeSeg` (Model/Wire.lean, over `Wire.le32`) is what the independent specification decoder
  `Wire.Spec` was proved to invert (`Props/C09.lean`).

This file never opens the namespace `Wire` (both `le32`s would be in scope); every name of the wire
specification is written `Wire.…`.  Core Lean only.
-/
import KcpVerif.Lemmas.Wire
import KcpVerif.Lemmas.SysWire

namespace KcpVerif.C09W
open KcpVerif KcpVerif.Gen KcpVerif.Kcp

/-- a frame of the core (`Wire.Frm`, the fields `flush` encodes) as a segment of the wire specification -/
def toSeg (fr : Wire.Frm) : Wire.Seg :=
  { conv := fr.conv, cmd := UInt8.ofNat fr.cmd.toNat, frg := UInt8.ofNat fr.frg.toNat, wnd := fr.wnd, ts := fr.ts,
    sn := fr.sn, una := fr.una, data := fr.data }

/-- what the specification decoder must return for a frame: the 24-byte header and the payload -/
def specOf (fr : Wire.Frm) : Wire.SegHdr × Bytes := ((toSeg fr).hdr, fr.data)

theorem le32_agree (x : BitVec 32) : Wire.le32 x = KcpVerif.le32 x := rfl

theorem le16_agree (x : BitVec 16) : Wire.le16 x = KcpVerif.le16 x := rfl

/-- **the encoders agree**, byte for byte -/
theorem encoders_agree (conv : U32) (cmd frg : BitVec 8) (wnd : BitVec 16) (ts sn una : U32) (data : Bytes) :
    Wire.encodeSeg ⟨conv, UInt8.ofNat cmd.toNat, UInt8.ofNat frg.toNat, wnd, ts, sn, una, data⟩ =
      Kcp.encodeHdr conv cmd frg wnd ts sn una data.length := rfl

theorem u8_ofNat_toNat (c : UInt8) : UInt8.ofNat (BitVec.ofNat 8 c.toNat).toNat = c := by
  apply UInt8.toNat_inj.mp
  have := c.toNat_lt
  simp only [UInt8.toNat_ofNat', BitVec.toNat_ofNat]
  omega

/-- … and in the other direction, for every segment of the wire specification -/
theorem encoders_agree' (s : Wire.Seg) :
    Wire.encodeSeg s =
      Kcp.encodeHdr s.conv (BitVec.ofNat 8 s.cmd.toNat) (BitVec.ofNat 8 s.frg.toNat) s.wnd s.ts s.sn s.una
        s.data.length := by
  rw [← encoders_agree, u8_ofNat_toNat, u8_ofNat_toNat]

theorem encFrame_eq (fr : Wire.Frm) : Wire.encFrame fr = Wire.encodeSegFull (toSeg fr) := rfl

theorem encFrames_eq (frs : List Wire.Frm) : Wire.encFrames frs = Wire.encodeSegs (frs.map toSeg) := by
  induction frs with
  | nil => rfl
  | cons fr rest ih =>
    rw [SysW.encFrames_cons, ih, encFrame_eq]
    simp [Wire.encodeSegs]

theorem u8_toNat_of_bv8 (c : BitVec 8) : (UInt8.ofNat c.toNat).toNat = c.toNat := by
  have := c.isLt
  simp only [UInt8.toNat_ofNat']
  omega

/-- a frame the peer's `Input` accepts is a well-formed segment of the specification -/
theorem toSeg_wf (fr : Wire.Frm) (hc : Live.validCmd fr.cmd) (hl : fr.data.length < 4294967296) : (toSeg fr).WF := by
  refine ⟨?_, hl⟩
  rw [Wire.cmdKnown_iff]
  show ((UInt8.ofNat fr.cmd.toNat).toNat == 81 || (UInt8.ofNat fr.cmd.toNat).toNat == 82
    || (UInt8.ofNat fr.cmd.toNat).toNat == 83 || (UInt8.ofNat fr.cmd.toNat).toNat == 84) = true
  rw [u8_toNat_of_bv8]
  unfold Live.validCmd IKCP_CMD_PUSH IKCP_CMD_ACK IKCP_CMD_WASK IKCP_CMD_WINS at hc
  rcases hc with h | h | h | h <;> simp [h]

/-- **the specification decoder accepts a datagram of the core**: any non-empty list of frames with
known commands, laid out by the core's encoder, decodes to exactly those frames, every byte consumed -/
theorem decode_encFrames (frs : List Wire.Frm) (hne : frs ≠ [])
    (hv : ∀ fr ∈ frs, Live.validCmd fr.cmd ∧ fr.data.length < 4294967296) :
    Wire.Spec.decode (Wire.encFrames frs) = some (frs.map specOf) := by
  rw [encFrames_eq, Wire.decode_encodeSegs (frs.map toSeg) (by simpa using hne)]
  · rw [List.map_map]; rfl
  · intro s hs
    obtain ⟨fr, hfr, rfl⟩ := List.mem_map.mp hs
    exact toSeg_wf fr (hv fr hfr).1 (hv fr hfr).2

/-- total length of a decoded datagram: 24 header bytes and the payload per segment -/
def segsLen (l : List (Wire.SegHdr × Bytes)) : Nat := (l.map fun x => IKCP_OVERHEAD + x.2.length).sum

theorem encFrames_length (frs : List Wire.Frm) : (Wire.encFrames frs).length = segsLen (frs.map specOf) := by
  induction frs with
  | nil => rfl
  | cons fr rest ih =>
    rw [SysW.encFrames_cons, List.length_append, ih, SysW.encFrame_length]
    simp [segsLen, specOf]

end KcpVerif.C09W
