/-
Receive side of C04: the receive-window invariant (`WinOK`), pigeonhole bound, `moveLoop`/`heapInsert`/`popMsg` lemmas.
Core Lean only.
-/
import KcpVerif.Lemmas.KcpOps
namespace KcpVerif.Kcp
open KcpVerif KcpVerif.Gen

/-- `sn` lies in the receive window `[nxt, nxt + wnd)` (wrap-around order) -/
def InWin (nxt wnd sn : U32) : Prop := 0 ≤ itimediff sn nxt ∧ itimediff sn nxt < (wnd.toNat : Int)

instance (nxt wnd sn : U32) : Decidable (InWin nxt wnd sn) := by unfold InWin; exact inferInstance

theorem inWin_iff (nxt wnd sn : U32) (hw : wnd.toNat < 2^31) :
    InWin nxt wnd sn ↔ (sn - nxt).toNat < wnd.toNat := by
  unfold InWin itimediff
  simp only [BitVec.toInt_eq_toNat_cond]
  constructor
  · intro h; split at h <;> omega
  · intro h; split <;> omega

/-- the acceptance test of `parse_data` (and of `Input` before it) is exactly window membership -/
theorem accept_inWin (nxt wnd sn : U32) (hw : wnd.toNat < 2^31)
    (h : ¬ (itimediff sn (nxt + wnd) ≥ 0 ∨ itimediff sn nxt < 0)) : InWin nxt wnd sn := by
  unfold InWin
  unfold itimediff at *
  simp only [BitVec.toInt_eq_toNat_cond] at *
  split at h <;> split at h <;> constructor <;> bv_omega

/-- the receive-window invariant on `(rcv_nxt, rcv_wnd, rcv_buf)` -/
structure WinOK (nxt wnd : U32) (buf : List Seg) : Prop where
  small : wnd.toNat < 2^31
  inwin : ∀ s ∈ buf, InWin nxt wnd s.sn
  distinct : buf.Pairwise (fun a b => a.sn ≠ b.sn)

/-- pigeonhole: distinct sequence numbers inside a window of `wnd` consecutive values -/
theorem WinOK.length_le {nxt wnd : U32} {buf : List Seg} (h : WinOK nxt wnd buf) :
    buf.length ≤ wnd.toNat := by
  have hnd : (buf.map (fun s => (s.sn - nxt).toNat)).Nodup := by
    unfold List.Nodup
    rw [List.pairwise_map]
    refine h.distinct.imp_of_mem ?_
    intro a b _ _ hab heq
    apply hab
    bv_omega
  have hsub : buf.map (fun s => (s.sn - nxt).toNat) ⊆ List.range wnd.toNat := by
    intro x hx
    rw [List.mem_map] at hx
    obtain ⟨s, hs, rfl⟩ := hx
    rw [List.mem_range]
    exact (inWin_iff nxt wnd s.sn h.small).1 (h.inwin s hs)
  have := hnd.length_le_of_subset hsub
  simpa using this

theorem heapInsert_perm (s : Seg) (l : List Seg) : (heapInsert s l).Perm (s :: l) := by
  induction l with
  | nil => exact List.Perm.refl _
  | cons h t ih =>
    unfold heapInsert
    split
    · exact List.Perm.refl _
    · exact (List.Perm.cons h ih).trans (List.Perm.swap s h t)

theorem WinOK.insert {nxt wnd : U32} {buf : List Seg} (h : WinOK nxt wnd buf) (s : Seg)
    (hin : InWin nxt wnd s.sn) (hnew : buf.any (fun x => x.sn = s.sn) = false) :
    WinOK nxt wnd (heapInsert s buf) := by
  have hp := heapInsert_perm s buf
  refine ⟨h.small, ?_, ?_⟩
  · intro x hx
    rcases List.mem_cons.1 (hp.mem_iff.1 hx) with rfl | hx
    · exact hin
    · exact h.inwin x hx
  · rw [hp.pairwise_iff (fun hxy => Ne.symm hxy)]
    refine List.Pairwise.cons ?_ h.distinct
    intro x hx heq
    have : buf.any (fun x => x.sn = s.sn) = true := by
      rw [List.any_eq_true]; exact ⟨x, hx, by simpa using heq.symm⟩
    rw [hnew] at this; cases this

/-- the move loop keeps the window invariant (the window slides with `rcv_nxt`) and the
delivery-queue bound -/
theorem moveLoop_ok (w : Nat) (wnd : U32) (buf q : List Seg) (nxt : U32) (h : WinOK nxt wnd buf) :
    WinOK (moveLoop w buf q nxt).nxt wnd (moveLoop w buf q nxt).buf := by
  induction buf generalizing q nxt with
  | nil => exact h
  | cons s rest ih =>
    unfold moveLoop
    split
    · rename_i hc
      apply ih
      have hd := List.pairwise_cons.1 h.distinct
      refine ⟨h.small, ?_, hd.2⟩
      intro x hx
      have h1 := (inWin_iff nxt wnd x.sn h.small).1 (h.inwin x (List.mem_cons_of_mem _ hx))
      have h2 : s.sn ≠ x.sn := hd.1 x hx
      rw [inWin_iff _ _ _ h.small]
      have h3 := hc.1
      have := h.small
      bv_omega
    · exact h

theorem moveLoop_q_le (w : Nat) (buf q : List Seg) (nxt : U32) (h : q.length ≤ w) :
    (moveLoop w buf q nxt).q.length ≤ w := by
  induction buf generalizing q nxt with
  | nil => exact h
  | cons s rest ih =>
    unfold moveLoop
    split
    · rename_i hc
      apply ih
      simp only [List.length_append, List.length_cons, List.length_nil]
      omega
    · exact h

theorem popMsg_rest_le (l : List Seg) : (popMsg l).rest.length ≤ l.length := by
  induction l with
  | nil => exact Nat.le_refl _
  | cons s rest ih =>
    unfold popMsg
    split
    · simp only [List.length_cons]; omega
    · simp only [List.length_cons]; omega

end KcpVerif.Kcp
