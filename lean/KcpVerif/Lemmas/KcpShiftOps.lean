/-
C12 — shift simulation: the setters, the `Op` type covering every operation of the core, `step`,
`run`, and the simulation theorem for single steps and whole runs.
-/
import KcpVerif.Lemmas.KcpShiftInput2

namespace KcpVerif.Shift
open KcpVerif KcpVerif.Gen KcpVerif.Kcp

/-! ### setters -/

theorem any_data_shift {σ : Sigma} {l l' : List Seg} (h : All₂ (SndRel σ) l l') (p : Nat → Bool) :
    l'.any (fun s => p s.data.length) = l.any (fun s => p s.data.length) := by
  induction h with
  | nil => rfl
  | cons hr _ ih => simp only [List.any_cons, hr.data, ih]

theorem setMtu_sim {σ : Sigma} {k k' : Kcp} (h : Sim σ k k') (mtu : Int) :
    Sim σ (setMtu k mtu).1 (setMtu k' mtu).1 ∧ (setMtu k' mtu).2 = (setMtu k mtu).2 := by
  have e := any_data_shift h.snd_buf (fun n => decide ((n : Int) > mtu - (IKCP_OVERHEAD : Int)))
  have e' : k'.snd_queue.any (fun s => decide ((s.data.length : Int) > mtu - (IKCP_OVERHEAD : Int))) =
      k.snd_queue.any (fun s => decide ((s.data.length : Int) > mtu - (IKCP_OVERHEAD : Int))) := by rw [h.snd_queue]
  unfold setMtu
  simp only [e, e']
  by_cases c1 : mtu ≤ (IKCP_OVERHEAD : Int)
  · simp only [if_pos c1]; exact ⟨h, trivial⟩
  simp only [if_neg c1]
  by_cases c2 : mtu - (IKCP_OVERHEAD : Int) > (mtuLimit : Int)
  · simp only [if_pos c2]; exact ⟨h, trivial⟩
  simp only [if_neg c2]
  cases c3 : k.snd_queue.any (fun s => decide ((s.data.length : Int) > mtu - (IKCP_OVERHEAD : Int)))
  case true => simp only [if_true]; exact ⟨h, trivial⟩
  simp only [Bool.false_eq_true, if_false]
  cases c4 : k.snd_buf.any (fun s => decide ((s.data.length : Int) > mtu - (IKCP_OVERHEAD : Int)))
  case true => simp only [if_true]; exact ⟨h, trivial⟩
  simp only [Bool.false_eq_true, if_false]
  exact ⟨{ h with mtu := rfl, mss := rfl, bufLen := rfl }, trivial⟩

def nd1 (k : Kcp) (nodelay : Int) : Kcp :=
  if nodelay ≥ 0 then
    { k with nodelay := BitVec.ofInt 32 nodelay,
             rx_minrto := if nodelay ≠ 0 then u32 IKCP_RTO_NDL else u32 IKCP_RTO_MIN } else k
def nd2 (k : Kcp) (interval : Int) : Kcp :=
  if interval ≥ 0 then
    { k with interval := BitVec.ofInt 32 (if interval > 5000 then 5000 else if interval < 10 then 10 else interval) } else k
def nd3 (k : Kcp) (resend : Int) : Kcp :=
  if resend ≥ 0 then { k with fastresend := BitVec.ofInt 32 resend } else k
def nd4 (k : Kcp) (nc : Int) : Kcp :=
  if nc ≥ 0 then { k with nocwnd := BitVec.ofInt 32 nc } else k

theorem noDelay_eq (k : Kcp) (a b c d : Int) : noDelay k a b c d = nd4 (nd3 (nd2 (nd1 k a) b) c) d := rfl

theorem noDelay_sim {σ : Sigma} {k k' : Kcp} (h : Sim σ k k') (a b c d : Int) :
    Sim σ (noDelay k a b c d) (noDelay k' a b c d) := by
  rw [noDelay_eq, noDelay_eq]
  have h1 : Sim σ (nd1 k a) (nd1 k' a) := by
    unfold nd1
    by_cases c : a ≥ 0
    · simp only [if_pos c]; exact { h with nodelay := rfl, rx_minrto := rfl }
    · simp only [if_neg c]; exact h
  have h2 : Sim σ (nd2 (nd1 k a) b) (nd2 (nd1 k' a) b) := by
    unfold nd2
    by_cases c : b ≥ 0
    · simp only [if_pos c]; exact { h1 with interval := rfl }
    · simp only [if_neg c]; exact h1
  have h3 : Sim σ (nd3 (nd2 (nd1 k a) b) c) (nd3 (nd2 (nd1 k' a) b) c) := by
    unfold nd3
    by_cases cc : c ≥ 0
    · simp only [if_pos cc]; exact { h2 with fastresend := rfl }
    · simp only [if_neg cc]; exact h2
  unfold nd4
  by_cases c : d ≥ 0
  · simp only [if_pos c]; exact { h3 with nocwnd := rfl }
  · simp only [if_neg c]; exact h3

def ws1 (k : Kcp) (snd : Int) : Kcp := if snd > 0 then { k with snd_wnd := BitVec.ofInt 32 snd } else k
def ws2 (k : Kcp) (rcv : Int) : Kcp := if rcv > 0 then { k with rcv_wnd := BitVec.ofInt 32 rcv } else k

theorem wndSize_eq (k : Kcp) (a b : Int) : wndSize k a b = ws2 (ws1 k a) b := rfl

theorem wndSize_sim {σ : Sigma} {k k' : Kcp} (h : Sim σ k k') (a b : Int) :
    Sim σ (wndSize k a b) (wndSize k' a b) := by
  rw [wndSize_eq, wndSize_eq]
  have h1 : Sim σ (ws1 k a) (ws1 k' a) := by
    unfold ws1
    by_cases c : a > 0
    · simp only [if_pos c]; exact { h with snd_wnd := rfl }
    · simp only [if_neg c]; exact h
  unfold ws2
  by_cases c : b > 0
  · simp only [if_pos c]; exact { h1 with rcv_wnd := rfl }
  · simp only [if_neg c]; exact h1

theorem waitSnd_sim {σ : Sigma} {k k' : Kcp} (h : Sim σ k k') : waitSnd k' = waitSnd k := by
  unfold waitSnd
  rw [h.snd_queue, forall₂_length h.snd_buf]

/-! ### operations -/

/-- every operation of the protocol core; `now` is the clock reading of the operation -/
inductive Op
  | send (buf : Bytes)
  | recv (buflen : Nat)
  | peekSize
  | input (data : Bytes) (regular ackNoDelay : Bool) (now : U32)
  | flush (full : Bool) (now : U32)
  | update (now : U32)
  | check (now : U32)
  | setMtu (mtu : Int)
  | noDelay (nodelay interval resend nc : Int)
  | wndSize (snd rcv : Int)
  | waitSnd
deriving Repr, DecidableEq

/-- everything an operation lets its caller (and the network) observe -/
structure Obs where
  ret   : Int := 0                 -- return value (Send, Recv, PeekSize, Input, SetMtu, WaitSnd)
  data  : Bytes := []              -- the bytes delivered by Recv
  outs  : List Bytes := []         -- the datagrams handed to `output`, in order
  time  : Option U32 := none       -- Check: the absolute time of the next Update
  val   : U32 := 0                 -- flush: the returned interval (a duration)
  panic : Bool := false
deriving Repr, DecidableEq

def step (k : Kcp) : Op → Kcp × Obs
  | .send buf => ((send k buf).k, { ret := (send k buf).ret, panic := (send k buf).panic })
  | .recv n => ((recv k n).k, { ret := (recv k n).n, data := (recv k n).data })
  | .peekSize => (k, { ret := peekSize k })
  | .input data regular ackNoDelay now =>
    ((input k data regular ackNoDelay now).k,
     { ret := (input k data regular ackNoDelay now).ret, outs := (input k data regular ackNoDelay now).outs,
       panic := (input k data regular ackNoDelay now).panic })
  | .flush full now =>
    ((flush k full now).k, { outs := (flush k full now).outs, val := (flush k full now).interval,
                             panic := (flush k full now).panic })
  | .update now =>
    ((update k now).k, { outs := (update k now).outs, val := (update k now).interval,
                         panic := (update k now).panic })
  | .check now => (k, { time := some (check k now) })
  | .setMtu mtu => ((setMtu k mtu).1, { ret := (setMtu k mtu).2 })
  | .noDelay a b c d => (noDelay k a b c d, {})
  | .wndSize a b => (wndSize k a b, {})
  | .waitSnd => (k, { ret := (waitSnd k : Int) })

/-- the same operation in the shifted world: incoming datagrams are shifted on the wire,
the clock reading by `t`; nothing else changes (buffers, lengths, configuration values) -/
def shiftOp (σ : Sigma) : Op → Op
  | .input data regular ackNoDelay now => .input (shiftIn σ data) regular ackNoDelay (now + σ.t)
  | .flush full now => .flush full (now + σ.t)
  | .update now => .update (now + σ.t)
  | .check now => .check (now + σ.t)
  | op => op

/-- same return value, same delivered bytes, same panic flag, datagrams related by `OutRel σ`
(shifted header fields, dead WASK/WINS fields ignored), absolute times shifted by `t`,
durations equal -/
structure ObsRel (σ : Sigma) (o o' : Obs) : Prop where
  ret   : o'.ret = o.ret
  data  : o'.data = o.data
  outs  : All₂ (OutRel σ) o.outs o'.outs
  time  : o'.time = o.time.map (· + σ.t)
  val   : o'.val = o.val
  panic : o'.panic = o.panic

theorem step_sim {σ : Sigma} {k k' : Kcp} (h : Sim σ k k') (op : Op) :
    Sim σ (step k op).1 (step k' (shiftOp σ op)).1 ∧ ObsRel σ (step k op).2 (step k' (shiftOp σ op)).2 := by
  cases op with
  | send buf =>
    obtain ⟨a, b, c⟩ := send_sim h buf
    simp only [step, shiftOp]
    exact ⟨a, ⟨b, rfl, All₂.nil, rfl, rfl, c⟩⟩
  | recv n =>
    obtain ⟨a, b, c⟩ := recv_sim h n
    simp only [step, shiftOp]
    exact ⟨a, ⟨b, c, All₂.nil, rfl, rfl, rfl⟩⟩
  | peekSize =>
    simp only [step, shiftOp]
    exact ⟨h, ⟨peekSize_sim h, rfl, All₂.nil, rfl, rfl, rfl⟩⟩
  | input data regular ackNoDelay now =>
    have r := input_sim h data regular ackNoDelay now
    simp only [step, shiftOp]
    exact ⟨r.k, ⟨r.ret, rfl, r.outs, rfl, rfl, r.panic⟩⟩
  | flush full now =>
    have r := flush_sim h full now
    simp only [step, shiftOp]
    exact ⟨r.k, ⟨rfl, rfl, r.outs, rfl, r.interval, r.panic⟩⟩
  | update now =>
    have r := update_sim h now
    simp only [step, shiftOp]
    exact ⟨r.k, ⟨rfl, rfl, r.outs, rfl, r.interval, r.panic⟩⟩
  | check now =>
    simp only [step, shiftOp]
    refine ⟨h, ⟨rfl, rfl, All₂.nil, ?_, rfl, rfl⟩⟩
    show some (check k' (now + σ.t)) = some (check k now + σ.t)
    rw [check_sim h]
  | setMtu mtu =>
    obtain ⟨a, b⟩ := setMtu_sim h mtu
    simp only [step, shiftOp]
    exact ⟨a, ⟨b, rfl, All₂.nil, rfl, rfl, rfl⟩⟩
  | noDelay a b c d =>
    simp only [step, shiftOp]
    exact ⟨noDelay_sim h a b c d, ⟨rfl, rfl, All₂.nil, rfl, rfl, rfl⟩⟩
  | wndSize a b =>
    simp only [step, shiftOp]
    exact ⟨wndSize_sim h a b, ⟨rfl, rfl, All₂.nil, rfl, rfl, rfl⟩⟩
  | waitSnd =>
    simp only [step, shiftOp]
    refine ⟨h, ⟨?_, rfl, All₂.nil, rfl, rfl, rfl⟩⟩
    show ((waitSnd k' : Nat) : Int) = (waitSnd k : Int)
    rw [waitSnd_sim h]

/-! ### runs -/

def run (k : Kcp) : List Op → Kcp × List Obs
  | [] => (k, [])
  | op :: rest => ((run (step k op).1 rest).1, (step k op).2 :: (run (step k op).1 rest).2)

theorem run_sim {σ : Sigma} {k k' : Kcp} (h : Sim σ k k') (ops : List Op) :
    Sim σ (run k ops).1 (run k' (ops.map (shiftOp σ))).1 ∧
      All₂ (ObsRel σ) (run k ops).2 (run k' (ops.map (shiftOp σ))).2 := by
  induction ops generalizing k k' with
  | nil => exact ⟨h, All₂.nil⟩
  | cons op rest ih =>
    obtain ⟨s1, s2⟩ := step_sim h op
    obtain ⟨r1, r2⟩ := ih s1
    exact ⟨r1, All₂.cons s2 r2⟩

end KcpVerif.Shift
