/-
C07 over whole histories, part 4: the history-level completeness theorems (about `run` = the state
component of `FecDec.feed`).  Core Lean only.

* `hinv_run`: `HInv` along any history of genuine packets; the horizon is `curAfter` of the shard ids.
* `hist_any_k`: group `G` has an empty (or no) shard set after `h0`; then `seg` arrives, `G` within
  the horizon from its first packet on, fewer than `d` distinct packets of `G` in `seg`.  Then the
  decoder holds for `G` exactly the distinct packets of `G` in `seg` (the hypothesis of
  `C07_dec_any_k`), and the next call on a packet `j` of `G` returns exactly the absent data packets
  when `j` is the `d`-th distinct one, `[]` otherwise.
* `hist_before_k`: every call on a packet of `G` before the `d`-th distinct one returns `[]`.
* `hist_after_k`: after the completing call, as long as fewer than `d` packets of `G` (with
  multiplicity) follow, every call on a packet of `G` returns `[]` — whatever else arrives, horizon
  or not.  (With `d` or more the emptied shard set RE-FILLS and data is emitted again: see the
  `C07_refill_reemits_*` examples in Props/C07Hist.)
* `ghost_empty_absent`, `ghost_empty_completed`: two ways the premise "empty after `h0`" arises.
* `window_within`: a fresh decoder and a history inside a window of `maxShardSets + 1` consecutive
  shard ids: every prefix keeps every group of the window within the horizon.
-/
import KcpVerif.Lemmas.FecHistHorizon

namespace KcpVerif.Lemmas.FecHist
open KcpVerif.Fec KcpVerif.Gen KcpVerif.AutoTune KcpVerif.Lemmas.FecSpec KcpVerif.Lemmas.FecDec

section Main
variable {C : CodecNew}

/-- `HInv` holds along every history of genuine packets of the decoder's ratio -/
theorem hinv_run (grp : Family) :
    ∀ (hist : List Bytes) (dec : Decoder), HInv C grp dec →
      (∀ q ∈ hist, GenuinePkt C grp dec.d dec.p q) →
      HInv C grp (run C dec hist) ∧ (run C dec hist).d = dec.d ∧ (run C dec hist).p = dec.p ∧
      (run C dec hist).n = dec.n ∧
      horizonOf (run C dec hist) = curAfter dec.n (horizonOf dec) (hist.map (sidOf dec.n)) := by
  intro hist
  induction hist with
  | nil => intro dec hI _; exact ⟨hI, rfl, rfl, rfl, rfl⟩
  | cons q rest ih =>
    intro dec hI hgen
    obtain ⟨G', j', hgrp', hG', hd', hp', hj', rfl⟩ := hgen q (List.mem_cons_self ..)
    have hst := decode_fields hG' dec hI.steady hd' hp' j' hj'
    obtain ⟨hI', hhor⟩ := hinv_decode grp dec hI hG' hgrp' hd' hp' j' hj'
    have hn : G'.n = dec.n := (hI.steady.matches (G := G') hd' hp').n.symm
    have hsid := sidOf_packet (C := C) hG' j' hj'
    rw [hn] at hhor hsid
    obtain ⟨h1, h2, h3, h4, h5⟩ := ih (dec.decode C (G'.packet C j')).st hI'
      (by rw [hst.1, hst.2.1]; exact fun q hq => hgen q (List.mem_cons_of_mem _ hq))
    refine ⟨h1, h2.trans hst.1, h3.trans hst.2.1, h4.trans hst.2.2.1, ?_⟩
    rw [hst.2.2.1, hhor, ← hsid] at h5
    exact h5

variable {G : Group}

/-- **history-level `dec_any_k`.** -/
theorem hist_any_k (hC : Lawful C) (grp : Family) (hG : G.WF)
    (hgrp : grp (G.base / u32 G.n) = some G) (dec : Decoder) (hI : HInv C grp dec)
    (hd : G.d = dec.d) (hp : G.p = dec.p) (got0 : List Nat) (hgh0 : Ghost G got0)
    (hset0 : held (G.base / u32 G.n) dec = got0.map (G.packet C))
    (h0 seg : List Bytes) (hgen0 : ∀ q ∈ h0, GenuinePkt C grp G.d G.p q)
    (hgen : ∀ q ∈ seg, GenuinePkt C grp G.d G.p q)
    (hempty : track G.n G.d (G.base / u32 G.n) (horizonOf dec) got0 h0 = [])
    (hhor : within G.n (G.base / u32 G.n)
      (curAfter G.n (horizonOf dec) (h0.map (sidOf G.n))) false seg = true)
    (hlt : (gIdx G.n (G.base / u32 G.n) [] seg).length < G.d) :
    held (G.base / u32 G.n) (run C dec (h0 ++ seg))
      = (gIdx G.n (G.base / u32 G.n) [] seg).map (G.packet C) ∧
    ∀ j, j < G.n →
      ((run C dec (h0 ++ seg)).decode C (G.packet C j)).recovered
        = (if j ∉ gIdx G.n (G.base / u32 G.n) [] seg ∧
              (gIdx G.n (G.base / u32 G.n) [] seg).length + 1 = G.d
           then missing G (gIdx G.n (G.base / u32 G.n) [] seg ++ [j]) else []) ∧
      ((run C dec (h0 ++ seg)).decode C (G.packet C j)).panic = false := by
  have hall : ∀ q ∈ h0 ++ seg, GenuinePkt C grp G.d G.p q := by
    intro q hq
    rcases List.mem_append.1 hq with h | h
    · exact hgen0 q h
    · exact hgen q h
  have htr : track G.n G.d (G.base / u32 G.n) (horizonOf dec) got0 (h0 ++ seg)
      = gIdx G.n (G.base / u32 G.n) [] seg := by
    rw [track_append, hempty]
    exact track_within _ _ _ seg _ false [] hhor (fun h => absurd rfl h) hlt
  obtain ⟨_, _, _, _, hT, _⟩ := run_track grp hG hgrp (h0 ++ seg) dec got0 hI hd hp hgh0 hset0 hall
  rw [htr] at hT
  refine ⟨hT, ?_⟩
  intro j hj
  have := step_out hC grp hG hgrp dec got0 hI hd hp hgh0 hset0 (h0 ++ seg) hall j hj
  rw [htr] at this
  exact this

/-- every call on a packet of `G` BEFORE the `d`-th distinct one returns nothing -/
theorem hist_before_k (hC : Lawful C) (grp : Family) (hG : G.WF)
    (hgrp : grp (G.base / u32 G.n) = some G) (dec : Decoder) (hI : HInv C grp dec)
    (hd : G.d = dec.d) (hp : G.p = dec.p) (got0 : List Nat) (hgh0 : Ghost G got0)
    (hset0 : held (G.base / u32 G.n) dec = got0.map (G.packet C))
    (h0 s1 s2 : List Bytes) (i : Nat) (hi : i < G.n)
    (hgen0 : ∀ q ∈ h0, GenuinePkt C grp G.d G.p q)
    (hgen : ∀ q ∈ s1 ++ G.packet C i :: s2, GenuinePkt C grp G.d G.p q)
    (hempty : track G.n G.d (G.base / u32 G.n) (horizonOf dec) got0 h0 = [])
    (hhor : within G.n (G.base / u32 G.n)
      (curAfter G.n (horizonOf dec) (h0.map (sidOf G.n))) false (s1 ++ G.packet C i :: s2) = true)
    (hlt : (gIdx G.n (G.base / u32 G.n) [] (s1 ++ G.packet C i :: s2)).length < G.d) :
    ((run C dec (h0 ++ s1)).decode C (G.packet C i)).recovered = [] := by
  have hsid := sidOf_packet (C := C) hG i hi
  have hpos := posOf_packet (C := C) hG i hi
  have hlen : (gIdx G.n (G.base / u32 G.n) [] s1).length
      + (if i ∈ gIdx G.n (G.base / u32 G.n) [] s1 then 0 else 1) < G.d := by
    rw [gIdx_append] at hlt
    simp only [gIdx, hsid, hpos, true_and] at hlt
    split
    · have := gIdx_length_ge G.n (G.base / u32 G.n) s1 []
      rename_i hmem
      rw [if_neg (fun h => h hmem)] at hlt
      have := gIdx_length_ge G.n (G.base / u32 G.n) s2 (gIdx G.n (G.base / u32 G.n) [] s1)
      omega
    · rename_i hmem
      rw [if_pos hmem] at hlt
      have := gIdx_length_ge G.n (G.base / u32 G.n) s2 (gIdx G.n (G.base / u32 G.n) [] s1 ++ [i])
      simp only [List.length_append, List.length_singleton] at this
      omega
  have h1 := (hist_any_k hC grp hG hgrp dec hI hd hp got0 hgh0 hset0 h0 s1 hgen0
    (fun q hq => hgen q (List.mem_append_left _ hq)) hempty (within_append _ _ _ _ _ _ hhor)
    (by split at hlen <;> omega)).2 i hi
  rw [h1.1, if_neg]
  intro ⟨hnot, hl⟩
  rw [if_neg hnot] at hlen
  omega

/-- the premise "empty after `h0`", first way: no packet of `G` in `h0` and nothing held before -/
theorem ghost_empty_absent (n d : Nat) (g : BitVec 32) (cur : Option (BitVec 32)) (h0 : List Bytes)
    (h : ∀ q ∈ h0, sidOf n q ≠ g) : track n d g cur [] h0 = [] := track_absent n d g h0 cur h

/-- second way: `h0` ends with a packet of `G` that completed its shard set -/
theorem ghost_empty_completed (hG : G.WF) (cur : Option (BitVec 32)) (got0 : List Nat)
    (h0 : List Bytes) (j : Nat) (hj : j < G.n)
    (hnot : j ∉ track G.n G.d (G.base / u32 G.n) cur got0 h0)
    (hfull : (track G.n G.d (G.base / u32 G.n) cur got0 h0).length + 1 ≥ G.d) :
    track G.n G.d (G.base / u32 G.n) cur got0 (h0 ++ [G.packet C j]) = [] := by
  rw [track_append]
  simp only [track]
  apply trackStep_completes _ _ _ _ _ _ (sidOf_packet hG j hj)
  · rw [posOf_packet hG j hj]; exact hnot
  · exact hfull

/-- **after a completion**: as long as fewer than `d` packets of `G` follow (with multiplicity),
    every call on a packet of `G` returns nothing — whatever else arrives -/
theorem hist_after_k (hC : Lawful C) (grp : Family) (hG : G.WF)
    (hgrp : grp (G.base / u32 G.n) = some G) (dec : Decoder) (hI : HInv C grp dec)
    (hd : G.d = dec.d) (hp : G.p = dec.p) (got0 : List Nat) (hgh0 : Ghost G got0)
    (hset0 : held (G.base / u32 G.n) dec = got0.map (G.packet C))
    (h0 r1 r2 : List Bytes) (i : Nat) (hi : i < G.n)
    (hgen0 : ∀ q ∈ h0, GenuinePkt C grp G.d G.p q)
    (hgen : ∀ q ∈ r1 ++ G.packet C i :: r2, GenuinePkt C grp G.d G.p q)
    (hempty : track G.n G.d (G.base / u32 G.n) (horizonOf dec) got0 h0 = [])
    (hfew : ((r1 ++ G.packet C i :: r2).filter
      (fun q => sidOf G.n q == G.base / u32 G.n)).length < G.d) :
    ((run C dec (h0 ++ r1)).decode C (G.packet C i)).recovered = [] := by
  have hall : ∀ q ∈ h0 ++ r1, GenuinePkt C grp G.d G.p q := by
    intro q hq
    rcases List.mem_append.1 hq with h | h
    · exact hgen0 q h
    · exact hgen q (List.mem_append_left _ h)
  have h1 := (step_out hC grp hG hgrp dec got0 hI hd hp hgh0 hset0 (h0 ++ r1) hall i hi).1
  rw [h1, if_neg]
  intro ⟨_, hl⟩
  rw [track_append, hempty] at hl
  have hle := track_length_le G.n G.d (G.base / u32 G.n) r1
    (curAfter G.n (horizonOf dec) (h0.map (sidOf G.n))) []
  have hsid := sidOf_packet (C := C) hG i hi
  simp only [List.filter_append, List.filter_cons, hsid, beq_self_eq_true, if_true,
    List.length_append, List.length_cons] at hfew
  simp only [List.length_nil, Nat.zero_add] at hle
  omega

/-- a fresh decoder and a history inside a window of `maxShardSets + 1` consecutive shard ids:
    every group of the window is within the horizon throughout -/
theorem window_within {n : Nat} (hn0 : 0 < n) (hn : n ≤ 256) (b : Nat)
    (hb : (b + maxShardSets) * n < 2 ^ 32) (g : BitVec 32) (hg : InWin b g) (hist : List Bytes)
    (hwin : ∀ q ∈ hist, InWin b (sidOf n q)) : within n g none false hist = true :=
  within_window hn0 hn b hb g hg hist none false hwin (fun c h => by cases h) (fun h => by cases h)

end Main

/-! ## concrete groups for the examples of Props/C07Hist -/

namespace Example

/-- a `d/p` group at shard id `id` -/
def grpAt (d p id : Nat) (pls : List Bytes) : Group :=
  { d := d, p := p, base := BitVec.ofNat 32 (id * (d + p)), payloads := pls }

/-- what `Decoder.new C d p` returns for an accepted ratio -/
def fresh (C : CodecNew) (d p : Nat) : Decoder :=
  { d := d, p := p, n := d + p, paws := pawsOf (d + p), newest := 0, shouldTune := false,
    tune := Tune.init, sets := [], codec := C d p }

def a0 := grpAt 2 1 0 [[1, 2, 3], [4]]
def a3 := grpAt 2 1 3 [[7], [8, 9]]
def a4 := grpAt 2 1 4 [[7], [8, 9]]
def b0 := grpAt 1 1 0 [[5, 6]]
def c0 := grpAt 2 2 0 [[1], [2, 3]]

theorem a0_wf : a0.WF := ⟨by decide, by decide, by decide, by decide, by decide, by decide, by decide⟩
theorem a3_wf : a3.WF := ⟨by decide, by decide, by decide, by decide, by decide, by decide, by decide⟩
theorem a4_wf : a4.WF := ⟨by decide, by decide, by decide, by decide, by decide, by decide, by decide⟩
theorem b0_wf : b0.WF := ⟨by decide, by decide, by decide, by decide, by decide, by decide, by decide⟩
theorem c0_wf : c0.WF := ⟨by decide, by decide, by decide, by decide, by decide, by decide, by decide⟩

def fam : FecDec.Family := fun id => if id = 0 then some a0 else if id = 3 then some a3 else none

theorem fam0 : fam (a0.base / u32 a0.n) = some a0 := by
  show (if a0.base / u32 a0.n = 0 then some a0 else _) = some a0
  rw [if_pos (by decide)]

theorem fam3 : fam (a3.base / u32 a3.n) = some a3 := by
  show (if a3.base / u32 a3.n = 0 then some a0 else if a3.base / u32 a3.n = 3 then some a3 else none)
    = some a3
  rw [if_neg (by decide), if_pos (by decide)]

theorem gen0 (j : Nat) (hj : j < 3) : FecDec.GenuinePkt rsNew fam 2 1 (a0.packet rsNew j) :=
  ⟨a0, j, fam0, a0_wf, rfl, rfl, hj, rfl⟩

theorem gen3 (j : Nat) (hj : j < 3) : FecDec.GenuinePkt rsNew fam 2 1 (a3.packet rsNew j) :=
  ⟨a3, j, fam3, a3_wf, rfl, rfl, hj, rfl⟩

/-- the LAST 2/1 group before the id wrap: `paws = 2^32 − 1`, ids `paws − 3 … paws − 1`, shard id
    `L − 1 = 1431655764` -/
def z : Group := { d := 2, p := 1, base := 4294967292, payloads := [[1], [2, 3]] }

theorem z_wf : z.WF := ⟨by decide, by decide, by decide, by decide, by decide, by decide, by decide⟩

def famW : FecDec.Family :=
  fun id => if id = 0 then some a0 else if id = 1431655764 then some z else none

theorem famW0 : famW (a0.base / u32 a0.n) = some a0 := by
  show (if a0.base / u32 a0.n = 0 then some a0 else _) = some a0
  rw [if_pos (by decide)]

theorem famWz : famW (z.base / u32 z.n) = some z := by
  show (if z.base / u32 z.n = 0 then some a0
    else if z.base / u32 z.n = 1431655764 then some z else none) = some z
  rw [if_neg (by decide), if_pos (by decide)]

theorem genW0 (j : Nat) (hj : j < 3) : FecDec.GenuinePkt rsNew famW 2 1 (a0.packet rsNew j) :=
  ⟨a0, j, famW0, a0_wf, rfl, rfl, hj, rfl⟩

theorem genz (j : Nat) (hj : j < 3) : FecDec.GenuinePkt rsNew famW 2 1 (z.packet rsNew j) :=
  ⟨z, j, famWz, z_wf, rfl, rfl, hj, rfl⟩

end Example

end KcpVerif.Lemmas.FecHist
