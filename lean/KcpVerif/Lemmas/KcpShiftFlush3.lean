/-
C12 — shift simulation, flush part 3: phase 3, phase 6, the whole `flush`, `update`, `check`.
-/
import KcpVerif.Lemmas.KcpShiftFlush2

namespace KcpVerif.Shift
open KcpVerif KcpVerif.Gen KcpVerif.Kcp

/-! ### a decomposition of `flush` (proved equal to the model's by `rfl`) -/

/-- Phase 3 and `probe = 0` -/
def flushProbe (f : Fl) (wnd : BitVec 16) (sc : Scratch) (una : U32) : Fl :=
  let f : Fl := if f.k.probe &&& u32 IKCP_ASK_SEND ≠ 0 then
      (f.makeSpace IKCP_OVERHEAD).putHdr (encodeHdr f.k.conv (BitVec.ofNat 8 IKCP_CMD_WASK) 0 wnd sc.ts sc.sn una 0)
    else f
  let f : Fl := if f.k.probe &&& u32 IKCP_ASK_TELL ≠ 0 then
      (f.makeSpace IKCP_OVERHEAD).putHdr (encodeHdr f.k.conv (BitVec.ofNat 8 IKCP_CMD_WINS) 0 wnd sc.ts sc.sn una 0)
    else f
  { f with k := { f.k with probe := 0 } }

/-- Phases 1–3 -/
def flushP13 (k : Kcp) (now : U32) : Fl :=
  flushProbe
    { (ackFlush (wndUnused k) k.rcv_nxt k.acklist.length k.acklist 0
          ⟨{ k := k }, { cmd := BitVec.ofNat 8 IKCP_CMD_ACK }⟩).f with
      k := probePhase { (ackFlush (wndUnused k) k.rcv_nxt k.acklist.length k.acklist 0
          ⟨{ k := k }, { cmd := BitVec.ofNat 8 IKCP_CMD_ACK }⟩).f.k with acklist := [] } now }
    (wndUnused k)
    (ackFlush (wndUnused k) k.rcv_nxt k.acklist.length k.acklist 0
          ⟨{ k := k }, { cmd := BitVec.ofNat 8 IKCP_CMD_ACK }⟩).sc
    k.rcv_nxt

/-- the effective window of phase 4 -/
def effCwnd (k : Kcp) : U32 :=
  if k.nocwnd = 0 then
    (if k.cwnd ≤ (if k.snd_wnd ≤ k.rmt_wnd then k.snd_wnd else k.rmt_wnd) then k.cwnd
     else (if k.snd_wnd ≤ k.rmt_wnd then k.snd_wnd else k.rmt_wnd))
  else (if k.snd_wnd ≤ k.rmt_wnd then k.snd_wnd else k.rmt_wnd)

def admitRes (k : Kcp) (now : U32) : AdmitRes :=
  admitSegs k.conv k.snd_una (effCwnd k) now k.snd_queue k.snd_buf k.snd_nxt 0

def admitK (k : Kcp) (now : U32) : Kcp :=
  { k with snd_queue := (admitRes k now).queue, snd_buf := (admitRes k now).buf, snd_nxt := (admitRes k now).nxt }

def resentOf (fastresend : U32) : U32 := if fastresend.sle 0 then 0xFFFFFFFF#32 else fastresend

def xmitAll (f : Fl) (full : Bool) (now resent : U32) (wnd : BitVec 16) (una : U32) (n : Nat) : XmitSt :=
  if full then f.k.snd_buf.foldl (xmitOne now resent wnd una n) { f := f, next := f.k.interval }
  else { f := f, done := f.k.snd_buf, next := f.k.interval }

/-- Phase 6 -/
def cwndAfter (k5 : Kcp) (change lost : Nat) (cwnd resent : U32) : Kcp :=
  if k5.nocwnd = 0 then
    let k7 : Kcp := if change > 0 then
        let inflight := k5.snd_nxt - k5.snd_una
        let half := inflight / 2
        let ss := if half ≥ u32 IKCP_THRESH_MIN then half else u32 IKCP_THRESH_MIN
        { k5 with ssthresh := ss, cwnd := ss + resent, incr := (ss + resent) * k5.mss }
      else k5
    let k8 : Kcp := if lost > 0 then
        let half := cwnd / 2
        { k7 with ssthresh := (if half ≥ u32 IKCP_THRESH_MIN then half else u32 IKCP_THRESH_MIN), cwnd := 1, incr := k7.mss }
      else k7
    if k8.cwnd < 1 then { k8 with cwnd := 1, incr := k8.mss } else k8
  else k5

/-- Phases 4–6 and the deferred flushBuffer -/
def flushP46 (f2 : Fl) (wnd : BitVec 16) (una : U32) (full : Bool) (now : U32) : FlushRes :=
  let x := xmitAll { f2 with k := admitK f2.k now } full now (resentOf f2.k.fastresend) wnd una (admitRes f2.k now).count
  ⟨cwndAfter { x.f.k with snd_buf := x.done } x.change x.lost (effCwnd f2.k) (resentOf f2.k.fastresend),
   if x.f.cur.length > 0 then x.f.outs ++ [x.f.cur] else x.f.outs, x.next, x.f.panic⟩

theorem flush_eq (k : Kcp) (full : Bool) (now : U32) :
    flush k full now = flushP46 (flushP13 k now) (wndUnused k) k.rcv_nxt full now := rfl

/-! ### simulation -/

theorem flushProbe_sim {σ : Sigma} {f f' : Fl} (h : FlSim σ f f') (wnd : BitVec 16) (sc sc' : Scratch) (una : U32) :
    FlSim σ (flushProbe f wnd sc una) (flushProbe f' wnd sc' (una + σ.b)) := by
  unfold flushProbe
  have step : ∀ (g g' : Fl) (hg : FlSim σ g g') (m : U32) (cmd : BitVec 8)
      (hcmd : cmd = BitVec.ofNat 8 IKCP_CMD_WASK ∨ cmd = BitVec.ofNat 8 IKCP_CMD_WINS),
      FlSim σ (if g.k.probe &&& m ≠ 0 then
          (g.makeSpace IKCP_OVERHEAD).putHdr (encodeHdr g.k.conv cmd 0 wnd sc.ts sc.sn una 0) else g)
        (if g'.k.probe &&& m ≠ 0 then
          (g'.makeSpace IKCP_OVERHEAD).putHdr (encodeHdr g'.k.conv cmd 0 wnd sc'.ts sc'.sn (una + σ.b) 0) else g') := by
    intro g g' hg m cmd hcmd
    rw [hg.k.probe, hg.k.conv]
    by_cases c : g.k.probe &&& m ≠ 0
    · simp only [if_pos c]
      have h1 := makeSpace_sim hg IKCP_OVERHEAD
      apply putHdr_sim h1
      exact OutRel.probe _ _ _ _ _ _ _ _ hcmd h1.cur
    · simp only [if_neg c]
      exact hg
  have h1 := step f f' h (u32 IKCP_ASK_SEND) _ (Or.inl rfl)
  simp only []
  generalize (if f.k.probe &&& u32 IKCP_ASK_SEND ≠ 0 then _ else f) = g at h1 ⊢
  generalize (if f'.k.probe &&& u32 IKCP_ASK_SEND ≠ 0 then _ else f') = g' at h1 ⊢
  have h2 := step g g' h1 (u32 IKCP_ASK_TELL) _ (Or.inr rfl)
  generalize (if g.k.probe &&& u32 IKCP_ASK_TELL ≠ 0 then _ else g) = g2 at h2 ⊢
  generalize (if g'.k.probe &&& u32 IKCP_ASK_TELL ≠ 0 then _ else g') = g2' at h2 ⊢
  exact { h2 with k := { h2.k with probe := rfl } }

theorem flushP13_sim {σ : Sigma} {k k' : Kcp} (h : Sim σ k k') (now : U32) :
    FlSim σ (flushP13 k now) (flushP13 k' (now + σ.t)) := by
  unfold flushP13
  have hlen : k'.acklist.length = k.acklist.length := by rw [h.acklist, List.length_map]
  rw [wndUnused_sim h, h.rcv_nxt, hlen, h.acklist]
  have ha := ackFlush_sim (σ := σ) (wndUnused k) k.rcv_nxt k.acklist.length k.acklist 0
    ⟨{ k := k }, { cmd := BitVec.ofNat 8 IKCP_CMD_ACK }⟩ ⟨{ k := k' }, { cmd := BitVec.ofNat 8 IKCP_CMD_ACK }⟩
    ⟨h, OutRel.nil, All₂.nil, rfl⟩ rfl rfl
  generalize ackFlush (wndUnused k) k.rcv_nxt k.acklist.length k.acklist 0
    ⟨{ k := k }, { cmd := BitVec.ofNat 8 IKCP_CMD_ACK }⟩ = A at ha ⊢
  generalize ackFlush (wndUnused k) (k.rcv_nxt + σ.b) k.acklist.length (k.acklist.map (shAck σ)) 0
    ⟨{ k := k' }, { cmd := BitVec.ofNat 8 IKCP_CMD_ACK }⟩ = A' at ha ⊢
  apply flushProbe_sim
  have hk : Sim σ { A.f.k with acklist := [] } { A'.f.k with acklist := [] } := { ha.k with acklist := rfl }
  exact { ha with k := probePhase_sim hk now }

theorem effCwnd_sim {σ : Sigma} {k k' : Kcp} (h : Sim σ k k') : effCwnd k' = effCwnd k := by
  unfold effCwnd
  rw [h.nocwnd, h.cwnd, h.snd_wnd, h.rmt_wnd]

theorem admitK_sim {σ : Sigma} {k k' : Kcp} (h : Sim σ k k') (now : U32) :
    Sim σ (admitK k now) (admitK k' (now + σ.t)) ∧ (admitRes k' (now + σ.t)).count = (admitRes k now).count := by
  have e : admitRes k' (now + σ.t) =
      admitSegs k.conv (k.snd_una + σ.a) (effCwnd k) (now + σ.t) k.snd_queue k'.snd_buf (k.snd_nxt + σ.a) 0 := by
    unfold admitRes
    rw [h.conv, h.snd_una, effCwnd_sim h, h.snd_queue, h.snd_nxt]
  obtain ⟨a1, a2, a3, a4, a5⟩ := admitSegs_sim (σ := σ) k.conv k.snd_una (effCwnd k) now k.snd_queue h.fresh
    k.snd_buf k'.snd_buf k.snd_nxt 0 h.snd_buf
  rw [← e] at a1 a2 a3 a4
  refine ⟨?_, a4⟩
  unfold admitK
  exact { h with snd_queue := a1, snd_buf := a2, snd_nxt := a3, fresh := a5 }

theorem xmitAll_sim {σ : Sigma} {f f' : Fl} (h : FlSim σ f f') (full : Bool) (now resent : U32)
    (wnd : BitVec 16) (una : U32) (n : Nat) :
    XSim σ (xmitAll f full now resent wnd una n) (xmitAll f' full (now + σ.t) resent wnd (una + σ.b) n) := by
  unfold xmitAll
  cases full
  · simp only [Bool.false_eq_true, if_false]
    constructor
    · exact h
    · exact h.k.snd_buf
    · rfl
    · rfl
    · exact h.k.interval
  · simp only [if_true]
    have h0 : XSim σ { f := f, next := f.k.interval } { f := f', next := f'.k.interval } := by
      constructor
      · exact h
      · exact All₂.nil
      · rfl
      · rfl
      · exact h.k.interval
    exact xmitFold_sim h.k.snd_buf h0 now resent wnd una n

theorem cwndAfter_frame (k : Kcp) (change lost : Nat) (cwnd resent : U32) :
    ∃ a b c, cwndAfter k change lost cwnd resent = { k with ssthresh := a, cwnd := b, incr := c } := by
  unfold cwndAfter
  simp only []
  repeat' split
  all_goals exact ⟨_, _, _, rfl⟩

theorem cwndAfter_congr (k k' : Kcp) (change lost : Nat) (cwnd resent : U32) (h0 : k'.nocwnd = k.nocwnd)
    (h1 : k'.snd_nxt - k'.snd_una = k.snd_nxt - k.snd_una) (h2 : k'.mss = k.mss) (h3 : k'.cwnd = k.cwnd)
    (h4 : k'.ssthresh = k.ssthresh) (h5 : k'.incr = k.incr) :
    (cwndAfter k' change lost cwnd resent).ssthresh = (cwndAfter k change lost cwnd resent).ssthresh ∧
    (cwndAfter k' change lost cwnd resent).cwnd = (cwndAfter k change lost cwnd resent).cwnd ∧
    (cwndAfter k' change lost cwnd resent).incr = (cwndAfter k change lost cwnd resent).incr := by
  unfold cwndAfter
  simp only [h0, h1, h2, h3, h4, h5, apply_ite Kcp.cwnd, apply_ite Kcp.incr, apply_ite Kcp.ssthresh,
    apply_ite Kcp.mss]
  exact ⟨trivial, trivial, trivial⟩

theorem cwndAfter_sim {σ : Sigma} {k k' : Kcp} (h : Sim σ k k') (change lost : Nat) (cwnd resent : U32) :
    Sim σ (cwndAfter k change lost cwnd resent) (cwndAfter k' change lost cwnd resent) := by
  have h1 : k'.snd_nxt - k'.snd_una = k.snd_nxt - k.snd_una := by rw [h.snd_nxt, h.snd_una, sub_shift]
  obtain ⟨e1, e2, e3⟩ := cwndAfter_congr k k' change lost cwnd resent h.nocwnd h1 h.mss h.cwnd h.ssthresh h.incr
  obtain ⟨a, b, c, e⟩ := cwndAfter_frame k change lost cwnd resent
  obtain ⟨a', b', c', e'⟩ := cwndAfter_frame k' change lost cwnd resent
  rw [e, e'] at e1 e2 e3
  rw [e, e']
  exact { h with ssthresh := e1, cwnd := e2, incr := e3 }

/-- relation between the results of `flush` / `update` -/
structure FlushRel (σ : Sigma) (r r' : FlushRes) : Prop where
  k        : Sim σ r.k r'.k
  outs     : All₂ (OutRel σ) r.outs r'.outs
  interval : r'.interval = r.interval
  panic    : r'.panic = r.panic

theorem flushP46_sim {σ : Sigma} {f f' : Fl} (h : FlSim σ f f') (wnd : BitVec 16) (una : U32) (full : Bool)
    (now : U32) : FlushRel σ (flushP46 f wnd una full now) (flushP46 f' wnd (una + σ.b) full (now + σ.t)) := by
  unfold flushP46
  simp only []
  obtain ⟨ak, ac⟩ := admitK_sim h.k now
  rw [ac, h.k.fastresend, effCwnd_sim h.k]
  have h3 : FlSim σ { f with k := admitK f.k now } { f' with k := admitK f'.k (now + σ.t) } := { h with k := ak }
  have hx := xmitAll_sim h3 full now (resentOf f.k.fastresend) wnd una (admitRes f.k now).count
  generalize xmitAll { f with k := admitK f.k now } full now (resentOf f.k.fastresend) wnd una
    (admitRes f.k now).count = x at hx ⊢
  generalize xmitAll { f' with k := admitK f'.k (now + σ.t) } full (now + σ.t) (resentOf f.k.fastresend) wnd
    (una + σ.b) (admitRes f.k now).count = x' at hx ⊢
  rw [hx.change, hx.lost, hx.next, hx.f.panic, ← hx.f.cur.length_eq]
  have hk5 : Sim σ { x.f.k with snd_buf := x.done } { x'.f.k with snd_buf := x'.done } :=
    { hx.f.k with snd_buf := hx.done }
  refine ⟨cwndAfter_sim hk5 _ _ _ _, ?_, rfl, rfl⟩
  show All₂ (OutRel σ) (if x.f.cur.length > 0 then _ else _) (if x.f.cur.length > 0 then _ else _)
  by_cases c : x.f.cur.length > 0
  · simp only [if_pos c]
    exact forall₂_append hx.f.outs (forall₂_single hx.f.cur)
  · simp only [if_neg c]
    exact hx.f.outs

theorem flush_sim {σ : Sigma} {k k' : Kcp} (h : Sim σ k k') (full : Bool) (now : U32) :
    FlushRel σ (flush k full now) (flush k' full (now + σ.t)) := by
  rw [flush_eq, flush_eq, wndUnused_sim h, h.rcv_nxt]
  exact flushP46_sim (flushP13_sim h now) _ _ _ _

/-! ### Update -/

def updateTail (k2 : Kcp) (slap : Int) (now : U32) : FlushRes :=
  if slap ≥ 0 then
    flush { k2 with ts_flush := if itimediff now (k2.ts_flush + k2.interval) ≥ 0 then now + k2.interval
                                else k2.ts_flush + k2.interval } true now
  else ⟨k2, [], 0, false⟩

def updateHead (k : Kcp) (now : U32) : Kcp :=
  if k.updated = 0 then { k with updated := 1, ts_flush := now } else k

theorem update_eq (k : Kcp) (now : U32) :
    update k now =
      updateTail
        (if decide (itimediff now (updateHead k now).ts_flush ≥ 10000 ∨ itimediff now (updateHead k now).ts_flush < -10000)
          then { updateHead k now with ts_flush := now } else updateHead k now)
        (if decide (itimediff now (updateHead k now).ts_flush ≥ 10000 ∨ itimediff now (updateHead k now).ts_flush < -10000)
          then 0 else itimediff now (updateHead k now).ts_flush) now := rfl

theorem updateHead_sim {σ : Sigma} {k k' : Kcp} (h : Sim σ k k') (now : U32) :
    Sim σ (updateHead k now) (updateHead k' (now + σ.t)) ∧ (updateHead k now).updated ≠ 0 := by
  have hu : (k'.updated = 0) ↔ (k.updated = 0) := by rw [h.updated]
  unfold updateHead
  simp only [hu]
  by_cases c : k.updated = 0
  · simp only [if_pos c]
    exact ⟨{ h with updated := rfl, ts_flush := fun _ => rfl }, by decide⟩
  · simp only [if_neg c]
    exact ⟨h, c⟩

theorem updateTail_sim {σ : Sigma} {k k' : Kcp} (h : Sim σ k k') (hup : k.updated ≠ 0) (slap : Int) (now : U32) :
    FlushRel σ (updateTail k slap now) (updateTail k' slap (now + σ.t)) := by
  unfold updateTail
  by_cases c : slap ≥ 0
  · simp only [if_pos c]
    have e1 : k'.ts_flush + k'.interval = (k.ts_flush + k.interval) + σ.t := by
      rw [h.ts_flush hup, h.interval, add_shift]
    have e2 : now + σ.t + k'.interval = (now + k.interval) + σ.t := by
      rw [h.interval, add_shift]
    apply flush_sim
    have e3 : (if itimediff (now + σ.t) (k'.ts_flush + k'.interval) ≥ 0 then now + σ.t + k'.interval
        else k'.ts_flush + k'.interval) =
        (if itimediff now (k.ts_flush + k.interval) ≥ 0 then now + k.interval
        else k.ts_flush + k.interval) + σ.t := by
      rw [e1, e2, itd_shift]
      split <;> rfl
    exact { h with ts_flush := fun _ => e3 }
  · simp only [if_neg c]
    exact ⟨h, All₂.nil, rfl, rfl⟩

theorem update_sim {σ : Sigma} {k k' : Kcp} (h : Sim σ k k') (now : U32) :
    FlushRel σ (update k now) (update k' (now + σ.t)) := by
  rw [update_eq, update_eq]
  obtain ⟨h1, hup⟩ := updateHead_sim h now
  generalize updateHead k now = k1 at h1 hup ⊢
  generalize updateHead k' (now + σ.t) = k1' at h1 ⊢
  have hs : itimediff (now + σ.t) k1'.ts_flush = itimediff now k1.ts_flush := by
    rw [h1.ts_flush hup, itd_shift]
  rw [hs]
  cases decide (itimediff now k1.ts_flush ≥ 10000 ∨ itimediff now k1.ts_flush < -10000)
  · simp only [Bool.false_eq_true, if_false]
    exact updateTail_sim h1 hup _ now
  · simp only [if_true]
    have h2 : Sim σ { k1 with ts_flush := now } { k1' with ts_flush := now + σ.t } :=
      { h1 with ts_flush := fun _ => rfl }
    exact updateTail_sim h2 hup _ now

/-! ### Check -/

theorem checkLoop_shift {σ : Sigma} {l l' : List Seg} (h : All₂ (SndRel σ) l l') (now : U32) (tm : Int) :
    checkLoop (now + σ.t) l' tm = checkLoop now l tm := by
  induction h generalizing tm with
  | nil => rfl
  | cons hr _ ih => simp only [checkLoop, hr.resendts, itd_shift, ih]

theorem check_sim {σ : Sigma} {k k' : Kcp} (h : Sim σ k k') (now : U32) :
    check k' (now + σ.t) = check k now + σ.t := by
  unfold check
  rw [h.updated]
  by_cases c : k.updated = 0
  · simp only [if_pos c]
  simp only [if_neg c]
  rw [h.ts_flush c, itd_shift, checkLoop_shift h.snd_buf, h.interval]
  have e : (if itimediff now k.ts_flush ≥ 10000 ∨ itimediff now k.ts_flush < -10000 then now + σ.t
      else k.ts_flush + σ.t) =
      (if itimediff now k.ts_flush ≥ 10000 ∨ itimediff now k.ts_flush < -10000 then now else k.ts_flush) + σ.t := by
    split <;> rfl
  rw [e]
  generalize (if itimediff now k.ts_flush ≥ 10000 ∨ itimediff now k.ts_flush < -10000 then now else k.ts_flush) = tsf
  rw [itd_shift, itd_shift]
  by_cases c1 : itimediff now tsf ≥ 0
  · simp only [if_pos c1]
  simp only [if_neg c1]
  cases checkLoop now k.snd_buf 0x7fffffff with
  | none => rfl
  | some tm => exact add_shift _ _ _

end KcpVerif.Shift
