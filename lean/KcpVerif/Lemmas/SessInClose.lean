import KcpVerif.Props.C11
/-!
`Listener.packetInput` with the `l.die` test (`Model/SessIn.listenerInputD`) against the model of the
open listener (`listenerInput`), which all C06/C11 theorems are about:

* `listenerInputD_false`: for an open listener it IS `listenerInput`;
* `listenerInputD_dead`: for a closed listener the state afterwards is that of `listenerInput` except
  that a `create` decision is not carried out: the old session (if any) is closed, nothing is created.
-/
namespace KcpVerif.SessIn
open KcpVerif KcpVerif.Gen KcpVerif.Props

variable {σ : Type}

theorem tryCreateD_false (w : World σ) (l : Listener σ) (p : Bytes) (a : String) (h : Hdr) (old : Option Nat) :
    tryCreateD w l false p a h old = tryCreate w l p a h old := by
  unfold tryCreateD tryCreate
  simp only [Bool.false_eq_true, if_false]

theorem listenerInputD_false (w : World σ) (c : Cipher) (l : Listener σ) (data : Bytes) (a : String) :
    listenerInputD w c l false data a = listenerInput w c l data a := by
  unfold listenerInputD listenerInput
  simp only [tryCreateD_false]

/-- a closed listener's `tryCreateD` never changes the listener -/
theorem tryCreateD_dead_l (w : World σ) (l : Listener σ) (p : Bytes) (a : String) (h : Hdr) (old : Option Nat) :
    (tryCreateD w l true p a h old).l = l ∧ isCreate (tryCreateD w l true p a h old).dec = false := by
  unfold tryCreateD
  split
  · exact ⟨rfl, rfl⟩
  · split
    · cases old <;> exact ⟨rfl, rfl⟩
    · rw [if_pos rfl]
      cases old <;> exact ⟨rfl, rfl⟩

/-- what `tryCreate` decides: `create` with the given `closedOld`, leaving the rest to the caller, or
no change at all -/
theorem tryCreate_dec (w : World σ) (l : Listener σ) (p : Bytes) (a : String) (h : Hdr) (old : Option Nat) :
    (∃ n, (tryCreate w l p a h old).dec = .create a h.conv old n) ∨
    ((tryCreate w l p a h old).l = l ∧ isCreate (tryCreate w l p a h old).dec = false) := by
  cases hc : h.hasConv with
  | false => rw [C11_tryCreate_noconv w l p a h old hc]; exact Or.inr ⟨rfl, rfl⟩
  | true =>
    rcases Nat.lt_or_ge l.accepts.length acceptBacklog with hr | hr
    · rw [C11_tryCreate_room w l p a h old hc hr]; exact Or.inl ⟨_, rfl⟩
    · rw [C11_tryCreate_full w l p a h old hc hr]
      cases old <;> exact Or.inr ⟨rfl, rfl⟩

/-- the state a closed listener is in after what an open one would have decided -/
def deadOutcome (w : World σ) (l : Listener σ) (r : LStep σ) : Listener σ :=
  match r.dec with
  | .create _ _ (some old) _ => closeSess w l old
  | .create _ _ none _ => l
  | _ => r.l

theorem deadOutcome_of_not_create (w : World σ) (l : Listener σ) (r : LStep σ) (h : isCreate r.dec = false) :
    deadOutcome w l r = r.l := by
  unfold deadOutcome
  cases hd : r.dec with
  | create x1 x2 x3 x4 => rw [hd] at h; cases h
  | drop why => rfl
  | route x1 x2 => rfl
  | closedOnly x1 x2 => rfl

/-- **a closed listener**: routes, ignores and closes like an open one, creates nothing -/
theorem listenerInputD_dead (w : World σ) (c : Cipher) (l : Listener σ) (data : Bytes) (a : String) :
    (listenerInputD w c l true data a).l = deadOutcome w l (listenerInput w c l data a) := by
  unfold listenerInputD listenerInput
  cases hg : cryptGate c data with
  | short => rfl
  | csum => rfl
  | ok p =>
    simp only []
    by_cases hm : p.length < minPacket
    · rw [if_pos hm, if_pos hm]; rfl
    · rw [if_neg hm, if_neg hm]
      cases hp : parseHdr p with
      | none => rfl
      | some h =>
        simp only []
        cases hl : lookup l.table a with
        | none =>
          simp only []
          rw [(tryCreateD_dead_l w l p a h none).1]
          rcases tryCreate_dec w l p a h none with ⟨n, hn⟩ | ⟨h1, h2⟩
          · unfold deadOutcome; rw [hn]
          · rw [deadOutcome_of_not_create w l _ h2, h1]
        | some id =>
          simp only []
          cases ho : l.objs[id]? with
          | none => rfl
          | some o =>
            simp only []
            by_cases hr : (!h.hasConv || decide (h.conv = o.conv)) = true
            · rw [if_pos hr, if_pos hr]; rfl
            · rw [if_neg hr, if_neg hr]
              by_cases hsn : h.sn ≠ 0
              · rw [if_pos hsn, if_pos hsn]; rfl
              · rw [if_neg hsn, if_neg hsn]
                rw [(tryCreateD_dead_l w (closeSess w l id) p a h (some id)).1]
                rcases tryCreate_dec w (closeSess w l id) p a h (some id) with ⟨n, hn⟩ | ⟨h1, h2⟩
                · unfold deadOutcome; rw [hn]
                · rw [deadOutcome_of_not_create w l _ h2, h1]

/-- the queue of a closed listener never grows, its object list never grows -/
theorem listenerInputD_dead_shape (w : World σ) (c : Cipher) (l : Listener σ) (data : Bytes) (a : String) :
    (listenerInputD w c l true data a).l.accepts = l.accepts ∧
    (listenerInputD w c l true data a).l.objs.length = l.objs.length := by
  rw [listenerInputD_dead]
  have hs := C11_accept_step w c l data a
  unfold deadOutcome
  cases hd : (listenerInput w c l data a).dec with
  | create x1 x2 old x4 =>
    cases old with
    | none => exact ⟨rfl, rfl⟩
    | some old =>
      simp only []
      refine ⟨?_, C11_closeSess_length w l old⟩
      unfold closeSess
      split
      · rfl
      · split <;> rfl
  | drop why => exact hs.2 (by rw [hd]; rfl)
  | route x1 x2 => exact hs.2 (by rw [hd]; rfl)
  | closedOnly x1 x2 => exact hs.2 (by rw [hd]; rfl)

/-! ### frame for a listener in either state -/

theorem tryCreateD_objs (w : World σ) (l : Listener σ) (dead : Bool) (p : Bytes) (a : String) (h : Hdr)
    (old : Option Nat) (j : Nat) (hj : j < l.objs.length) : (tryCreateD w l dead p a h old).l.objs[j]? = l.objs[j]? := by
  cases dead with
  | false => rw [tryCreateD_false]; exact C11_tryCreate_objs w l p a h old j hj
  | true => rw [(tryCreateD_dead_l w l p a h old).1]

theorem tryCreateD_lookup (w : World σ) (l : Listener σ) (dead : Bool) (p : Bytes) (a b : String) (h : Hdr)
    (old : Option Nat) (hb : b ≠ a) : lookup (tryCreateD w l dead p a h old).l.table b = lookup l.table b := by
  cases dead with
  | false => rw [tryCreateD_false]; exact C11_tryCreate_lookup w l p a b h old hb
  | true => rw [(tryCreateD_dead_l w l p a h old).1]

/-- `C11_frame_objects` for a listener that may be closed -/
theorem frameD_objects (w : World σ) (c : Cipher) (l : Listener σ) (dead : Bool) (data : Bytes) (a : String)
    (j : Nat) (hj : j < l.objs.length) (hne : lookup l.table a ≠ some j) :
    (listenerInputD w c l dead data a).l.objs[j]? = l.objs[j]? := by
  unfold listenerInputD
  split
  · rfl
  · rfl
  · split
    · rfl
    · split
      · rfl
      · split
        · exact tryCreateD_objs w l dead _ a _ none j hj
        · rename_i id hl
          have hji : j ≠ id := fun e => hne (by rw [hl, e])
          split
          · rfl
          · split
            · simp only [getElem?_modifyAt, hji, if_false]
            · split
              · rfl
              · rw [tryCreateD_objs w _ dead _ a _ _ j (by rw [C11_closeSess_length]; exact hj)]
                exact C11_closeSess_objs w l id j hji

/-- `C11_frame_table` for a listener that may be closed -/
theorem frameD_table (w : World σ) (c : Cipher) (l : Listener σ) (dead : Bool) (data : Bytes) (a b : String)
    (hwf : WF l) (hb : b ≠ a) :
    lookup (listenerInputD w c l dead data a).l.table b = lookup l.table b := by
  unfold listenerInputD
  split
  · rfl
  · rfl
  · split
    · rfl
    · split
      · rfl
      · split
        · exact tryCreateD_lookup w l dead _ a b _ none hb
        · rename_i id hl
          split
          · rfl
          · split
            · rfl
            · split
              · rfl
              · rw [tryCreateD_lookup w _ dead _ a b _ _ hb]
                exact C11_closeSess_lookup w l id a b hwf hl hb

/-- sessions outside `ids` are not touched by `closeAll` -/
theorem closeAll_objs (w : World σ) (ids : List Nat) : ∀ (l : Listener σ) (j : Nat), j ∉ ids →
    (closeAll w l ids).objs[j]? = l.objs[j]? := by
  induction ids with
  | nil => intro l j _; rfl
  | cons id rest ih =>
    intro l j hj
    have h1 : j ≠ id := fun e => hj (by rw [e]; exact List.mem_cons_self ..)
    have h2 : j ∉ rest := fun e => hj (List.mem_cons_of_mem _ e)
    show (closeAll w (closeSess w l id) rest).objs[j]? = _
    rw [ih _ j h2, C11_closeSess_objs w l id j h1]

end KcpVerif.SessIn
