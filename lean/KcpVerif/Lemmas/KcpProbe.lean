/-
Frame of the probe back-off field `probe_wait` over all operations.  Core Lean only.
-/
import KcpVerif.Lemmas.KcpLiveOps
import KcpVerif.Lemmas.KcpLive

namespace KcpVerif.Live
open KcpVerif KcpVerif.Gen KcpVerif.Kcp

theorem send_pw (k : Kcp) (b : Bytes) : (send k b).k.probe_wait = k.probe_wait := by
  unfold send
  simp only []
  refine ite_pred (fun r : SendRes => r.k.probe_wait = k.probe_wait) _ rfl ?_
  refine ite_pred (fun r : SendRes => r.k.probe_wait = k.probe_wait) _ rfl ?_
  refine ite_pred (fun r : SendRes => r.k.probe_wait = k.probe_wait) _ rfl ?_
  refine ite_pred (fun r : SendRes => r.k.probe_wait = k.probe_wait) _ rfl ?_
  refine ite_pred (fun r : SendRes => r.k.probe_wait = k.probe_wait) _ rfl ?_
  rfl

theorem recv_pw (k : Kcp) (n : Nat) : (recv k n).k.probe_wait = k.probe_wait := by
  unfold recv moveReady
  simp only []
  repeat' split
  all_goals rfl

theorem setMtu_pw (k : Kcp) (m : Int) : (setMtu k m).1.probe_wait = k.probe_wait := by
  unfold setMtu
  simp only []
  repeat' split
  all_goals rfl

theorem wndSize_pw (k : Kcp) (s r : Int) : (wndSize k s r).probe_wait = k.probe_wait := by
  unfold wndSize
  simp only []
  repeat' split
  all_goals rfl

theorem noDelay_pw (k : Kcp) (nd iv rs nc : Int) : (noDelay k nd iv rs nc).probe_wait = k.probe_wait := by
  unfold noDelay
  simp only []
  repeat' split
  all_goals rfl

theorem cwndOnAck_pw (k : Kcp) (old : U32) : (cwndOnAck k old).probe_wait = k.probe_wait := by
  unfold cwndOnAck
  simp only []
  repeat' split
  all_goals rfl

theorem updateAck_pw (k : Kcp) (rtt : U32) : (updateAck k rtt).probe_wait = k.probe_wait := by
  unfold updateAck smoothRtt
  simp only []
  repeat' split
  all_goals rfl

theorem inSt_pw (k : Kcp) (data : Bytes) (regular : Bool) : (inSt k data regular).k.probe_wait = k.probe_wait := by
  unfold inSt
  apply inputLoop_induct regular (fun x => x.k.probe_wait = k.probe_wait)
  · intro st r h; exact h
  · intro conv cmd frg wnd ts sn una payload st _ _ _ h
    obtain ⟨_, _, _, _, _, _, _, hf⟩ := inStep_frame regular conv cmd frg wnd ts sn una payload st
    rw [hf]; exact h
  · rfl

theorem inK2_pw (k : Kcp) (data : Bytes) (regular : Bool) (now : U32) :
    (inK2 k data regular now).probe_wait = k.probe_wait := by
  unfold inK2
  rw [cwndOnAck_pw]
  split
  · rw [updateAck_pw]; exact inSt_pw k data regular
  · exact inSt_pw k data regular

/-- what a flush does to `probe_wait` -/
theorem flush_pw (k : Kcp) (full : Bool) (now : U32) :
    (flush k full now).k.probe_wait = 0 ∨ (flush k full now).k.probe_wait = u32 IKCP_PROBE_INIT ∨
    (flush k full now).k.probe_wait = nextProbeWait k.probe_wait ∨ (flush k full now).k.probe_wait = k.probe_wait := by
  rw [(flush_probe_timer k full now).1]
  unfold probePhase
  simp only []
  split
  · split
    · exact Or.inr (Or.inl rfl)
    · split
      · exact Or.inr (Or.inr (Or.inl rfl))
      · exact Or.inr (Or.inr (Or.inr rfl))
  · exact Or.inl rfl

/-- a predicate on `probe_wait` kept by `flush` is kept by `input` and `update` -/
theorem input_pw (P : U32 → Prop) (hfl : ∀ k full now, P k.probe_wait → P (flush k full now).k.probe_wait)
    (k : Kcp) (data : Bytes) (regular ackNoDelay : Bool) (now : U32) (h : P k.probe_wait) :
    P (input k data regular ackNoDelay now).k.probe_wait := by
  have h2 : P (inK2 k data regular now).probe_wait := by rw [inK2_pw]; exact h
  have hs : P (inSt k data regular).k.probe_wait := by rw [inSt_pw]; exact h
  rw [input_eq]
  split
  · exact h
  · split
    · exact hs
    · split
      · exact hs
      · split
        · exact hfl _ _ _ h2
        · split
          · exact hfl _ _ _ h2
          · split
            · exact hfl _ _ _ h2
            · exact h2

theorem update_pw (P : U32 → Prop) (hfl : ∀ k full now, P k.probe_wait → P (flush k full now).k.probe_wait)
    (k : Kcp) (now : U32) (h : P k.probe_wait) : P (update k now).k.probe_wait := by
  have hx : ∀ x : Kcp, x.probe_wait = k.probe_wait → P x.probe_wait := fun x e => by rw [e]; exact h
  unfold update
  simp only []
  refine ite_pred (fun r : FlushRes => P r.k.probe_wait) _ (hfl _ true now ?_) ?_
  · apply hx
    repeat' split
    all_goals rfl
  · apply hx
    repeat' split
    all_goals rfl

end KcpVerif.Live
