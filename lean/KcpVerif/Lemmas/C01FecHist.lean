/-
The history invariant of the sender's FEC stage (`Lemmas/C01FecEnc.lean`) over the operations of a
session and over runs of the two-session system: `fsrun_genuine` discharges `FecRunGenuine`.
-/
import KcpVerif.Lemmas.C01FecEnc

namespace KcpVerif.C01
open KcpVerif KcpVerif.Gen
open KcpVerif.Fec KcpVerif.Lemmas.FecSpec KcpVerif.Lemmas KcpVerif.Lemmas.FecEnc
open KcpVerif.SessFec

theorem hist_skip {C : CodecNew} {d p : Nat} {enc : Option Encoder} {W CW : List Bytes}
    (h : Hist C d p enc W CW) (o : Bytes) (ho : o.length < IKCP_OVERHEAD) : Hist C d p enc W (CW ++ [o]) := by
  intro hw'
  obtain ⟨gs, e0, bs, H⟩ := h hw'.mono
  refine ⟨gs, e0, bs, ⟨H.inv, H.hd, H.hp, H.ho, H.hs, H.hn, H.len, H.enc, ?_, ?_, H.wire, ?_⟩⟩
  · intro b hb
    obtain ⟨a1, a2, a3⟩ := H.bsok b hb
    exact ⟨a1, a2, List.mem_append_left _ a3⟩
  · intro i G hG
    obtain ⟨g1, g2, g3, g4, g5⟩ := H.gsok i G hG
    exact ⟨g1, g2, g3, g4, fun k hk => List.mem_append_left _ (g5 k hk)⟩
  · rw [bigCount_append, H.cnt]
    unfold bigCount
    have : ¬ IKCP_OVERHEAD ≤ o.length := by omega
    simp [this]

theorem pp_cons_small (e : Encoder) (hs : Nat) (o : Bytes) (rest : List Bytes) (gap : Int)
    (h : o.length < IKCP_OVERHEAD) :
    postProcess (some e) hs (o :: rest) gap = postProcess (some e) hs rest gap := by
  rw [postProcess]; rw [if_pos h]

theorem pp_cons_big (e : Encoder) (hs : Nat) (o : Bytes) (rest : List Bytes) (gap : Int)
    (h : ¬ o.length < IKCP_OVERHEAD) :
    postProcess (some e) hs (o :: rest) gap =
      if (e.encode (List.replicate hs 0 ++ o) (decide (gap < (maxFECEncodeLatency : Int)))).panic then ⟨some e, [], true⟩ else
      ⟨(postProcess (some (e.encode (List.replicate hs 0 ++ o) (decide (gap < (maxFECEncodeLatency : Int)))).st) hs rest 0).enc,
       (e.encode (List.replicate hs 0 ++ o) (decide (gap < (maxFECEncodeLatency : Int)))).data ::
         ((e.encode (List.replicate hs 0 ++ o) (decide (gap < (maxFECEncodeLatency : Int)))).parity ++
           (postProcess (some (e.encode (List.replicate hs 0 ++ o) (decide (gap < (maxFECEncodeLatency : Int)))).st) hs rest 0).wire),
       (postProcess (some (e.encode (List.replicate hs 0 ++ o) (decide (gap < (maxFECEncodeLatency : Int)))).st) hs rest 0).panic⟩ := by
  rw [postProcess]; rw [if_neg h]

/-- **the invariant over the FEC stage of `postProcess`** for the datagrams of one operation -/
theorem hist_pp {C : CodecNew} (hC : Lawful C) {d p : Nat} : ∀ (outs : List Bytes) (e : Encoder) (W CW : List Bytes)
    (gap : Int), Hist C d p (some e) W CW →
    (postProcess (some e) fecHeaderSizePlus2 outs gap).panic = false →
    ∃ e', (postProcess (some e) fecHeaderSizePlus2 outs gap).enc = some e' ∧
      Hist C d p (some e') (W ++ (postProcess (some e) fecHeaderSizePlus2 outs gap).wire) (CW ++ outs) := by
  intro outs
  induction outs with
  | nil =>
    intro e W CW gap h _
    rw [postProcess_nil]
    exact ⟨e, rfl, by simpa using h⟩
  | cons o rest ih =>
    intro e W CW gap h hp
    by_cases ho : o.length < IKCP_OVERHEAD
    · rw [pp_cons_small e _ o rest gap ho] at hp ⊢
      obtain ⟨e', h1, h2⟩ := ih e W (CW ++ [o]) gap (hist_skip h o ho) hp
      exact ⟨e', h1, by rw [List.append_assoc] at h2; exact h2⟩
    · rw [pp_cons_big e _ o rest gap ho] at hp ⊢
      generalize hc : decide (gap < (maxFECEncodeLatency : Int)) = cont at hp ⊢
      by_cases hpe : (e.encode (List.replicate fecHeaderSizePlus2 0 ++ o) cont).panic = true
      · rw [if_pos hpe] at hp; cases hp
      · rw [if_neg hpe] at hp ⊢
        have hstep := hist_encode hC h o (by omega) cont (by simpa using hpe)
        obtain ⟨e', h1, h2⟩ := ih _ _ _ 0 hstep hp
        refine ⟨e', h1, ?_⟩
        simp only [] at h2 ⊢
        rw [List.append_assoc, List.append_assoc] at h2
        exact h2

theorem pp_some (hs : Nat) : ∀ (outs : List Bytes) (e : Encoder) (gap : Int),
    ∃ e', (postProcess (some e) hs outs gap).enc = some e' := by
  intro outs
  induction outs with
  | nil => intro e gap; rw [postProcess_nil]; exact ⟨e, rfl⟩
  | cons o rest ih =>
    intro e gap
    by_cases ho : o.length < IKCP_OVERHEAD
    · rw [pp_cons_small e _ o rest gap ho]; exact ih e gap
    · rw [pp_cons_big e _ o rest gap ho]
      split
      · exact ⟨e, rfl⟩
      · exact ih _ 0

/-- what an operation does to the encoder, the wire and the core's output: one pass of the FEC stage
over the datagrams the core emitted -/
theorem fecStep_pp (C : CodecNew) (f : FecG) (op : FecOp) :
    ∃ (outs : List Bytes) (gap : Int), (fecStep C f op).x.headerSize = f.x.headerSize ∧
      (fecStep C f op).cwire = f.cwire ++ outs ∧
      (postProcess f.x.enc f.x.headerSize outs gap).panic = false ∧
      (fecStep C f op).x.enc = (postProcess f.x.enc f.x.headerSize outs gap).enc ∧
      (fecStep C f op).wire = f.wire ++ (postProcess f.x.enc f.x.headerSize outs gap).wire := by
  have triv : ∀ f' : FecG, f'.x.headerSize = f.x.headerSize → f'.cwire = f.cwire → f'.x.enc = f.x.enc →
      f'.wire = f.wire →
      ∃ (outs : List Bytes) (gap : Int), f'.x.headerSize = f.x.headerSize ∧ f'.cwire = f.cwire ++ outs ∧
        (postProcess f.x.enc f.x.headerSize outs gap).panic = false ∧
        f'.x.enc = (postProcess f.x.enc f.x.headerSize outs gap).enc ∧
        f'.wire = f.wire ++ (postProcess f.x.enc f.x.headerSize outs gap).wire := by
    intro f' h1 h2 h3 h4
    refine ⟨[], 0, h1, by simpa using h2, ?_, ?_, ?_⟩ <;> rw [postProcess_nil]
    · exact h3
    · simpa using h4
  unfold fecStep
  by_cases hd : f.dead = true
  · rw [if_pos hd]; exact triv f rfl rfl rfl rfl
  · rw [if_neg hd]
    cases op with
    | write v now gap =>
      simp only []
      unfold SessFec.writeBuffers
      simp only []
      by_cases hp : (f.x.s.writeBuffers v now).panic = true
      · rw [if_pos hp]
        simp only [↓reduceIte]
        simpa using triv f rfl rfl rfl rfl
      · rw [if_neg hp]
        simp only []
        by_cases hpp : (postProcess f.x.enc f.x.headerSize (f.x.s.writeBuffers v now).outs gap).panic = true
        · rw [if_pos hpp]; exact triv _ rfl rfl rfl rfl
        · rw [if_neg hpp]
          by_cases hb : (f.x.s.writeBuffers v now).blocked = true
          · rw [if_pos hb]; exact triv f rfl rfl rfl rfl
          · rw [if_neg hb]
            exact ⟨(f.x.s.writeBuffers v now).outs, gap, rfl, rfl, by simpa using hpp, rfl, rfl⟩
    | read blen => exact triv _ rfl rfl rfl rfl
    | update now gap =>
      simp only []
      unfold SessFec.update
      simp only []
      by_cases hp : (f.x.s.update now).panic = true
      · rw [if_pos hp]
        simp only [↓reduceIte]
        simpa using triv f rfl rfl rfl rfl
      · rw [if_neg hp]
        simp only []
        by_cases hpp : (postProcess f.x.enc f.x.headerSize (f.x.s.update now).outs gap).panic = true
        · rw [if_pos hpp]; exact triv _ rfl rfl rfl rfl
        · rw [if_neg hpp]
          exact ⟨(f.x.s.update now).outs, gap, rfl, rfl, by simpa using hpp, rfl, rfl⟩
    | input dd now gap =>
      simp only []
      unfold packetInput finishInput
      by_cases hc : (kcpInputCore C f.x dd now).c.panic = true ∨ (kcpInputCore C f.x dd now).decPanic = true
      · rw [if_pos hc]
        simp only [↓reduceIte]
        simpa using triv f rfl rfl rfl rfl
      · rw [if_neg hc]
        simp only []
        by_cases hpp : (postProcess f.x.enc f.x.headerSize (kcpInputCore C f.x dd now).c.outs gap).panic = true
        · rw [if_pos hpp]; exact triv _ rfl rfl rfl rfl
        · rw [if_neg hpp]
          exact ⟨(kcpInputCore C f.x dd now).c.outs, gap, rfl, rfl, by simpa using hpp, rfl, rfl⟩
    | setWriteDelay b => exact triv _ rfl rfl rfl rfl
    | setAckNoDelay b => exact triv _ rfl rfl rfl rfl
    | noDelay a b c d => exact triv _ rfl rfl rfl rfl
    | wndSize a b => exact triv _ rfl rfl rfl rfl
    | setMtu mtu => exact triv _ rfl rfl rfl rfl

/-- the sender's side of `C01_session_fec`: a session with a `d/p` encoder whose wire so far satisfies
the history invariant -/
structure EncOk (C : CodecNew) (d p : Nat) (f : FecG) : Prop where
  hs   : f.x.headerSize = fecHeaderSizePlus2
  enc  : ∃ e, f.x.enc = some e
  hist : Hist C d p f.x.enc f.wire f.cwire

theorem fecStep_encOk {C : CodecNew} (hC : Lawful C) {d p : Nat} {f : FecG} (h : EncOk C d p f) (op : FecOp) :
    EncOk C d p (fecStep C f op) ∧ ∃ X, (fecStep C f op).cwire = f.cwire ++ X := by
  obtain ⟨outs, gap, h1, h2, h3, h4, h5⟩ := fecStep_pp C f op
  obtain ⟨e, he⟩ := h.enc
  rw [he, h.hs] at h3 h4 h5
  have hh := h.hist
  rw [he] at hh
  obtain ⟨e', g1, g2⟩ := hist_pp hC outs e f.wire f.cwire gap hh h3
  refine ⟨⟨h1.trans h.hs, ⟨e', by rw [h4, g1]⟩, ?_⟩, outs, h2⟩
  rw [h4, g1, h5, h2]
  exact g2

theorem encOk_genuine {C : CodecNew} {d p : Nat} {f : FecG} (h : EncOk C d p f) (hw : NoWrap d p f.cwire) :
    EncGenuine C d p f := by
  obtain ⟨gs, e0, bs, H⟩ := h.hist hw
  exact hist_genuine H hw

theorem fsstep_A (C : CodecNew) (s : FecSys) (op : FSOp) :
    (∃ o, op = .a o ∧ (fsstep C s op).A = fecStep C s.A o) ∨ (fsstep C s op).A = s.A := by
  cases op with
  | a o => exact Or.inl ⟨o, rfl, rfl⟩
  | b o =>
    right
    show (if isFecInput o then s else { s with B := fecStep C s.B o }).A = s.A
    split <;> rfl
  | dlv i now gap =>
    right
    show (match s.A.wire[i]? with
      | some d => { s with B := fecStep C s.B (.input d now gap) }
      | none => s).A = s.A
    split <;> rfl

theorem fsrun_cwire (C : CodecNew) : ∀ (ops : List FSOp) (s : FecSys),
    ∃ X, (fsrun C s ops).A.cwire = s.A.cwire ++ X := by
  intro ops
  induction ops with
  | nil => intro s; exact ⟨[], by simp [fsrun]⟩
  | cons op rest ih =>
    intro s
    obtain ⟨X, hX⟩ := ih (fsstep C s op)
    have h1 : ∃ Y, (fsstep C s op).A.cwire = s.A.cwire ++ Y := by
      rcases fsstep_A C s op with ⟨o, _, e⟩ | e
      · rw [e]
        obtain ⟨outs, _, _, h2, _⟩ := fecStep_pp C s.A o
        exact ⟨outs, h2⟩
      · rw [e]; exact ⟨[], by simp⟩
    obtain ⟨Y, hY⟩ := h1
    refine ⟨Y ++ X, ?_⟩
    show (fsrun C (fsstep C s op) rest).A.cwire = _
    rw [hX, hY, List.append_assoc]

/-- **`FecRunGenuine` discharged**: for a sender with a `d/p` encoder whose FEC ids do not wrap during
the run, at every delivery everything on the wire is a genuine packet of one family whose payloads are
core output -/
theorem fsrun_genuine {C : CodecNew} (hC : Lawful C) {d p : Nat} : ∀ (ops : List FSOp) (s : FecSys),
    EncOk C d p s.A → NoWrap d p (fsrun C s ops).A.cwire → FecRunGenuine C d p s ops := by
  intro ops
  induction ops with
  | nil => intro s _ _; trivial
  | cons op rest ih =>
    intro s h hw
    have hw' : NoWrap d p (fsrun C (fsstep C s op) rest).A.cwire := hw
    have hA : EncOk C d p (fsstep C s op).A := by
      rcases fsstep_A C s op with ⟨o, _, e⟩ | e
      · rw [e]; exact (fecStep_encOk hC h o).1
      · rw [e]; exact h
    refine ⟨?_, ih (fsstep C s op) hA hw'⟩
    cases op with
    | a o => trivial
    | b o => trivial
    | dlv i now gap =>
      show EncGenuine C d p s.A
      obtain ⟨X, hX⟩ := fsrun_cwire C (FSOp.dlv i now gap :: rest) s
      rw [hX] at hw
      exact encOk_genuine h hw.mono

/-- a session just created with a `d/p` encoder -/
theorem encOk_fresh {C : CodecNew} {d p : Nat} {e0 : Encoder} (hnew : Encoder.new C d p 0 = some e0)
    (x : SessFec) (he : x.enc = some e0) (hs : x.headerSize = fecHeaderSizePlus2) : EncOk C d p { x := x } := by
  refine ⟨hs, ⟨e0, he⟩, ?_⟩
  intro _
  have hinv := inv_new hnew
  unfold Encoder.new at hnew
  split at hnew
  · cases hnew
  · injection hnew with e
    subst e
    refine ⟨[], _, [], ⟨hinv, rfl, rfl, rfl, rfl, ?_, ?_, ?_,
      (fun b hb => by cases hb), (fun i G hG => by simp at hG), (fun q hq => by cases hq), (by simp [bigCount])⟩⟩
    · show (0 : BitVec 32) = _
      simp
    · show 0 < d
      exact hinv.d_pos
    · show x.enc = _
      rw [he]; rfl

end KcpVerif.C01
