/-
Frame lemmas for the KCP core model: which fields each phase of `flush` (and the other operations)
leaves alone.  Used by the C01 receive-side and send-side invariants.
-/
import KcpVerif.Model.Kcp

namespace KcpVerif.Frame
open KcpVerif KcpVerif.Gen KcpVerif.Kcp

theorem makeSpace_k (f : Fl) (n : Nat) : (f.makeSpace n).k = f.k := by
  unfold Fl.makeSpace; split <;> rfl

theorem putHdr_k (f : Fl) (h : Bytes) : (f.putHdr h).k = f.k := by
  unfold Fl.putHdr; split <;> rfl

theorem putData_k (f : Fl) (h : Bytes) : (f.putData h).k = f.k := by
  unfold Fl.putData; split <;> rfl

theorem ackFlush_k (wnd : BitVec 16) (una : U32) (total : Nat) :
    ∀ (l : List Ack) (i : Nat) (st : AckSt), (ackFlush wnd una total l i st).f.k = st.f.k := by
  intro l
  induction l with
  | nil => intro i st; rfl
  | cons a rest ih =>
    intro i st
    unfold ackFlush
    simp only []
    split
    · rw [ih]; simp only [putHdr_k, makeSpace_k]
    · rw [ih]; simp only [makeSpace_k]

/-- the retransmission decision of `xmitOne`: (needsend, updated segment, change+, lost+) -/
def xmitDecide (now resent : U32) (newSegs : Nat) (k : Kcp) (s : Seg) : Bool × Seg × Nat × Nat :=
  if s.xmit = 0 then (true, { s with rto := k.rx_rto, resendts := now + k.rx_rto }, 0, 0)
  else if s.fastack ≥ resent ∧ s.fastack ≠ 0xFFFFFFFF#32 then
    (true, { s with fastack := 0xFFFFFFFF#32, rto := k.rx_rto, resendts := now + k.rx_rto }, 1, 0)
  else if s.fastack > 0 ∧ s.fastack ≠ 0xFFFFFFFF#32 ∧ newSegs = 0 then
    (true, { s with fastack := 0xFFFFFFFF#32, rto := k.rx_rto, resendts := now + k.rx_rto }, 1, 0)
  else if itimediff now s.resendts ≥ 0 then
    let rto' := if k.nodelay = 0 then s.rto + k.rx_rto else s.rto + k.rx_rto / 2
    (true, { s with rto := rto', fastack := 0, resendts := now + rto' }, 0, 1)
  else (false, s, 0, 0)

/-- the segment as it goes on the wire / back into `snd_buf` -/
def xmitSeg (now : U32) (wnd : BitVec 16) (una : U32) (r : Bool × Seg × Nat × Nat) : Seg :=
  if r.1 then { r.2.1 with xmit := r.2.1.xmit + 1, ts := now, wnd := wnd, una := una } else r.2.1

/-- the buffer writes of `xmitOne` for a segment that is sent -/
def xmitEmit (f : Fl) (s2 : Seg) : Fl :=
  let f := f.makeSpace (IKCP_OVERHEAD + s2.data.length)
  let f := f.putHdr (encodeHdr s2.conv s2.cmd s2.frg s2.wnd s2.ts s2.sn s2.una s2.data.length)
  let f := f.putData s2.data
  if s2.xmit ≥ f.k.dead_link then { f with k := { f.k with state := 0xFFFFFFFF#32 } } else f

/-- `xmitOne` after the decision has been taken -/
def xmitCore (now : U32) (wnd : BitVec 16) (una : U32) (st : XmitSt) (r : Bool × Seg × Nat × Nat) : XmitSt :=
  let s2 := xmitSeg now wnd una r
  let d := itimediff s2.resendts now
  { st with
    change := st.change + r.2.2.1, lost := st.lost + r.2.2.2
    f := if r.1 then xmitEmit st.f s2 else st.f
    done := st.done ++ [s2]
    next := if d > 0 ∧ BitVec.ofInt 32 d < st.next then BitVec.ofInt 32 d else st.next }

theorem xmitOne_eq (now resent : U32) (wnd : BitVec 16) (una : U32) (newSegs : Nat) (st : XmitSt) (s : Seg) :
    xmitOne now resent wnd una newSegs st s =
      if s.acked then { st with done := st.done ++ [s] }
      else xmitCore now wnd una st (xmitDecide now resent newSegs st.f.k s) := by
  unfold xmitOne
  split
  · rfl
  · rfl

theorem xmitEmit_k (f : Fl) (s2 : Seg) : ∃ v, (xmitEmit f s2).k = { f.k with state := v } := by
  unfold xmitEmit
  simp only []
  split
  · exact ⟨0xFFFFFFFF#32, by simp only [putData_k, putHdr_k, makeSpace_k]⟩
  · exact ⟨f.k.state, by simp only [putData_k, putHdr_k, makeSpace_k]⟩

/-- `xmitOne` changes the core only in the dead-link flag `state` -/
theorem xmitOne_k (now resent : U32) (wnd : BitVec 16) (una : U32) (newSegs : Nat) (st : XmitSt) (s : Seg) :
    ∃ v, (xmitOne now resent wnd una newSegs st s).f.k = { st.f.k with state := v } := by
  rw [xmitOne_eq]
  split
  · exact ⟨st.f.k.state, rfl⟩
  · unfold xmitCore
    simp only []
    split
    · exact xmitEmit_k _ _
    · exact ⟨st.f.k.state, rfl⟩

theorem xmitFold_k (now resent : U32) (wnd : BitVec 16) (una : U32) (newSegs : Nat) :
    ∀ (l : List Seg) (st : XmitSt),
      ∃ v, (l.foldl (xmitOne now resent wnd una newSegs) st).f.k = { st.f.k with state := v } := by
  intro l
  induction l with
  | nil => intro st; exact ⟨st.f.k.state, rfl⟩
  | cons s rest ih =>
    intro st
    rw [List.foldl_cons]
    obtain ⟨v, hv⟩ := ih (xmitOne now resent wnd una newSegs st s)
    obtain ⟨w, hw⟩ := xmitOne_k now resent wnd una newSegs st s
    exact ⟨v, by rw [hv, hw]⟩

/-! ### `flush` as a composition of phases (mirror definitions, `flush_eq` is by `rfl`) -/

/-- phases 1–3: acks, probe timer, WASK/WINS; then `probe = 0` -/
def flushA (k : Kcp) (now : U32) : Fl :=
  let wnd := wndUnused k
  let una := k.rcv_nxt
  let a := ackFlush wnd una k.acklist.length k.acklist 0 ⟨{ k := k }, { cmd := BitVec.ofNat 8 IKCP_CMD_ACK }⟩
  let f : Fl := { a.f with k := { a.f.k with acklist := [] } }
  let sc := a.sc
  let f : Fl := { f with k := probePhase f.k now }
  let f : Fl := if f.k.probe &&& u32 IKCP_ASK_SEND ≠ 0 then
      (f.makeSpace IKCP_OVERHEAD).putHdr (encodeHdr f.k.conv (BitVec.ofNat 8 IKCP_CMD_WASK) 0 wnd sc.ts sc.sn una 0)
    else f
  let f : Fl := if f.k.probe &&& u32 IKCP_ASK_TELL ≠ 0 then
      (f.makeSpace IKCP_OVERHEAD).putHdr (encodeHdr f.k.conv (BitVec.ofNat 8 IKCP_CMD_WINS) 0 wnd sc.ts sc.sn una 0)
    else f
  { f with k := { f.k with probe := 0 } }

/-- the effective window of phase 4 -/
def flushCwnd (k : Kcp) : U32 :=
  let cw0 := if k.snd_wnd ≤ k.rmt_wnd then k.snd_wnd else k.rmt_wnd
  if k.nocwnd = 0 then (if k.cwnd ≤ cw0 then k.cwnd else cw0) else cw0

def flushAdmit (k : Kcp) (now : U32) : AdmitRes :=
  admitSegs k.conv k.snd_una (flushCwnd k) now k.snd_queue k.snd_buf k.snd_nxt 0

/-- phase 4 -/
def flushB (f : Fl) (now : U32) : Fl :=
  let ad := flushAdmit f.k now
  { f with k := { f.k with snd_queue := ad.queue, snd_buf := ad.buf, snd_nxt := ad.nxt } }

def flushResent (k : Kcp) : U32 := if k.fastresend.sle 0 then 0xFFFFFFFF#32 else k.fastresend

/-- phase 5 -/
def flushX (f : Fl) (full : Bool) (now : U32) (wnd : BitVec 16) (una : U32) (count : Nat) : XmitSt :=
  if full then f.k.snd_buf.foldl (xmitOne now (flushResent f.k) wnd una count) { f := f, next := f.k.interval }
  else { f := f, done := f.k.snd_buf, next := f.k.interval }

/-- phase 6: congestion window bookkeeping -/
def flushTail (k5 : Kcp) (change lost : Nat) (cwnd resent : U32) : Kcp :=
  if k5.nocwnd = 0 then
    let k7 : Kcp := if change > 0 then
        let inflight := k5.snd_nxt - k5.snd_una
        let half := inflight / 2
        let ss := if half ≥ u32 IKCP_THRESH_MIN then half else u32 IKCP_THRESH_MIN
        { k5 with ssthresh := ss, cwnd := ss + resent, incr := (ss + resent) * k5.mss }
      else k5
    let k8 : Kcp := if lost > 0 then
        let half := cwnd / 2
        { k7 with ssthresh := (if half ≥ u32 IKCP_THRESH_MIN then half else u32 IKCP_THRESH_MIN), cwnd := 1, incr := k7.mss }
      else k7
    if k8.cwnd < 1 then { k8 with cwnd := 1, incr := k8.mss } else k8
  else k5

theorem flush_eq (k : Kcp) (full : Bool) (now : U32) :
    flush k full now =
      let fA := flushA k now
      let ad := flushAdmit fA.k now
      let fB := flushB fA now
      let x := flushX fB full now (wndUnused k) k.rcv_nxt ad.count
      let f : Fl := { x.f with k := { x.f.k with snd_buf := x.done } }
      ⟨flushTail f.k x.change x.lost (flushCwnd fA.k) (flushResent fB.k),
       if f.cur.length > 0 then f.outs ++ [f.cur] else f.outs, x.next, f.panic⟩ := rfl

/-! ### what the phases keep -/

/-- fields that no part of `flush` writes (the ones the C01 invariants read) -/
structure Keep (k k' : Kcp) : Prop where
  conv      : k'.conv = k.conv
  mtu       : k'.mtu = k.mtu
  mss       : k'.mss = k.mss
  stream    : k'.stream = k.stream
  bufLen    : k'.bufLen = k.bufLen
  rcv_wnd   : k'.rcv_wnd = k.rcv_wnd
  rcv_nxt   : k'.rcv_nxt = k.rcv_nxt
  rcv_queue : k'.rcv_queue = k.rcv_queue
  rcv_buf   : k'.rcv_buf = k.rcv_buf
  snd_una   : k'.snd_una = k.snd_una

theorem Keep.refl (k : Kcp) : Keep k k := ⟨rfl, rfl, rfl, rfl, rfl, rfl, rfl, rfl, rfl, rfl⟩

theorem Keep.trans {a b c : Kcp} (h1 : Keep a b) (h2 : Keep b c) : Keep a c :=
  ⟨h2.conv.trans h1.conv, h2.mtu.trans h1.mtu, h2.mss.trans h1.mss, h2.stream.trans h1.stream,
   h2.bufLen.trans h1.bufLen, h2.rcv_wnd.trans h1.rcv_wnd, h2.rcv_nxt.trans h1.rcv_nxt,
   h2.rcv_queue.trans h1.rcv_queue, h2.rcv_buf.trans h1.rcv_buf, h2.snd_una.trans h1.snd_una⟩

/-- the three send-side queues/counters are untouched as well -/
structure KeepSnd (k k' : Kcp) : Prop where
  snd_nxt   : k'.snd_nxt = k.snd_nxt
  snd_queue : k'.snd_queue = k.snd_queue
  snd_buf   : k'.snd_buf = k.snd_buf

theorem probePhase_keep (k : Kcp) (now : U32) : Keep k (probePhase k now) ∧ KeepSnd k (probePhase k now) := by
  unfold probePhase
  repeat' split
  all_goals exact ⟨⟨rfl, rfl, rfl, rfl, rfl, rfl, rfl, rfl, rfl, rfl⟩, ⟨rfl, rfl, rfl⟩⟩

theorem flushA_k (k : Kcp) (now : U32) :
    (flushA k now).k = { probePhase { k with acklist := [] } now with probe := 0 } := by
  unfold flushA
  simp only [apply_ite Fl.k, putHdr_k, makeSpace_k, ite_self, ackFlush_k]

theorem flushA_keep (k : Kcp) (now : U32) : Keep k (flushA k now).k ∧ KeepSnd k (flushA k now).k := by
  rw [flushA_k]
  obtain ⟨h1, h2⟩ := probePhase_keep { k with acklist := [] } now
  exact ⟨⟨h1.conv, h1.mtu, h1.mss, h1.stream, h1.bufLen, h1.rcv_wnd, h1.rcv_nxt, h1.rcv_queue, h1.rcv_buf,
    h1.snd_una⟩, ⟨h2.snd_nxt, h2.snd_queue, h2.snd_buf⟩⟩

theorem flushB_k (f : Fl) (now : U32) :
    (flushB f now).k = { f.k with snd_queue := (flushAdmit f.k now).queue, snd_buf := (flushAdmit f.k now).buf,
                                  snd_nxt := (flushAdmit f.k now).nxt } := rfl

theorem flushB_keep (f : Fl) (now : U32) : Keep f.k (flushB f now).k :=
  ⟨rfl, rfl, rfl, rfl, rfl, rfl, rfl, rfl, rfl, rfl⟩

theorem flushX_k (f : Fl) (full : Bool) (now : U32) (wnd : BitVec 16) (una : U32) (count : Nat) :
    ∃ v, (flushX f full now wnd una count).f.k = { f.k with state := v } := by
  unfold flushX
  split
  · exact xmitFold_k _ _ _ _ _ _ _
  · exact ⟨f.k.state, rfl⟩

theorem flushX_keep (f : Fl) (full : Bool) (now : U32) (wnd : BitVec 16) (una : U32) (count : Nat) :
    Keep f.k (flushX f full now wnd una count).f.k ∧ KeepSnd f.k (flushX f full now wnd una count).f.k := by
  obtain ⟨v, hv⟩ := flushX_k f full now wnd una count
  rw [hv]
  exact ⟨⟨rfl, rfl, rfl, rfl, rfl, rfl, rfl, rfl, rfl, rfl⟩, ⟨rfl, rfl, rfl⟩⟩

theorem flushTail_keep (k5 : Kcp) (change lost : Nat) (cwnd resent : U32) :
    Keep k5 (flushTail k5 change lost cwnd resent) ∧ KeepSnd k5 (flushTail k5 change lost cwnd resent) := by
  unfold flushTail
  simp only []
  repeat' split
  all_goals exact ⟨⟨rfl, rfl, rfl, rfl, rfl, rfl, rfl, rfl, rfl, rfl⟩, ⟨rfl, rfl, rfl⟩⟩

/-- `flush` leaves the receive side, the configuration and `snd_una` alone -/
theorem flush_keep (k : Kcp) (full : Bool) (now : U32) : Keep k (flush k full now).k := by
  rw [flush_eq]
  simp only []
  refine Keep.trans ?_ (flushTail_keep _ _ _ _ _).1
  have h1 := (flushA_keep k now).1
  have h2 := flushB_keep (flushA k now) now
  have h3 := (flushX_keep (flushB (flushA k now) now) full now (wndUnused k) k.rcv_nxt
    (flushAdmit (flushA k now).k now).count).1
  have h4 := (h1.trans h2).trans h3
  exact ⟨h4.conv, h4.mtu, h4.mss, h4.stream, h4.bufLen, h4.rcv_wnd, h4.rcv_nxt, h4.rcv_queue, h4.rcv_buf,
    h4.snd_una⟩

/-! ### `inputLoop` as header parse + two steps (mirror definitions, `inputLoop_succ` is by `rfl`) -/

structure Hdr where
  conv : U32
  cmd  : BitVec 8
  frg  : BitVec 8
  wnd  : BitVec 16
  ts   : U32
  sn   : U32
  una  : U32
  len  : Nat

/-- the field reads at the top of the `Input` loop -/
def parseHdr (data : Bytes) : Hdr :=
  { conv := rd32 data 0, cmd := BitVec.ofNat 8 (byteAt data 4), frg := BitVec.ofNat 8 (byteAt data 5),
    wnd := rd16 data 6, ts := rd32 data 8, sn := rd32 data 12, una := rd32 data 16,
    len := (rd32 data 20).toNat }

def validCmd (cmd : BitVec 8) : Prop :=
  ¬ (cmd.toNat ≠ IKCP_CMD_PUSH ∧ cmd.toNat ≠ IKCP_CMD_ACK ∧ cmd.toNat ≠ IKCP_CMD_WASK ∧ cmd.toNat ≠ IKCP_CMD_WINS)

instance (cmd : BitVec 8) : Decidable (validCmd cmd) := by unfold validCmd; infer_instance

/-- the segment `Input` builds for a PUSH frame -/
def pushSeg (h : Hdr) (body : Bytes) : Seg :=
  { conv := h.conv, cmd := h.cmd, frg := h.frg, wnd := h.wnd, ts := h.ts, sn := h.sn, una := h.una,
    data := body.take h.len }

/-- window update + `parse_una` + `shrink_buf` (every command) -/
def inSt1 (regular : Bool) (st : InLoop) (h : Hdr) : InLoop :=
  let k1 := if regular then { st.k with rmt_wnd := h.wnd.setWidth 32 } else st.k
  let pu := parseUna k1 h.una
  { st with k := shrinkBuf pu.1, flushSeg := st.flushSeg || decide (pu.2 > 0) }

/-- the command dispatch -/
def inSt2 (st1 : InLoop) (h : Hdr) (body : Bytes) : InLoop :=
  if h.cmd.toNat = IKCP_CMD_ACK then
    let k2 := shrinkBuf (parseAck st1.k h.sn)
    let pf := parseFastack k2 h.sn h.ts
    { st1 with k := pf.1, flushSeg := st1.flushSeg || pf.2, updRtt := true, latest := h.ts }
  else if h.cmd.toNat = IKCP_CMD_PUSH then
    if itimediff h.sn (st1.k.rcv_nxt + st1.k.rcv_wnd) < 0 then
      let k2 := { st1.k with acklist := st1.k.acklist ++ [⟨h.sn, h.ts⟩] }
      if itimediff h.sn k2.rcv_nxt ≥ 0 then
        let r := parseData k2 (pushSeg h body)
        { st1 with k := r.k, panic := r.panic }
      else { st1 with k := k2 }
    else st1
  else if h.cmd.toNat = IKCP_CMD_WASK then
    { st1 with k := { st1.k with probe := st1.k.probe ||| u32 IKCP_ASK_TELL } }
  else st1

theorem inputLoop_zero (regular : Bool) (data : Bytes) (st : InLoop) : inputLoop regular 0 data st = st := rfl

theorem inputLoop_succ (regular : Bool) (fuel : Nat) (data : Bytes) (st : InLoop) :
    inputLoop regular (fuel + 1) data st =
      if data.length < IKCP_OVERHEAD then st else
      if (parseHdr data).conv ≠ st.k.conv then { st with ret := -1 } else
      if (data.drop IKCP_OVERHEAD).length < (parseHdr data).len ∨ (parseHdr data).len > mtuLimit then
        { st with ret := -2 } else
      if ¬ validCmd (parseHdr data).cmd then { st with ret := -3 } else
      if (inSt2 (inSt1 regular st (parseHdr data)) (parseHdr data) (data.drop IKCP_OVERHEAD)).panic then
        inSt2 (inSt1 regular st (parseHdr data)) (parseHdr data) (data.drop IKCP_OVERHEAD)
      else inputLoop regular fuel ((data.drop IKCP_OVERHEAD).drop (parseHdr data).len)
        (inSt2 (inSt1 regular st (parseHdr data)) (parseHdr data) (data.drop IKCP_OVERHEAD)) := by
  rw [inputLoop]
  simp only [validCmd, Decidable.not_not]
  rfl

/-- the receive side and the connection id -/
structure RcvSame (k k' : Kcp) : Prop where
  conv      : k'.conv = k.conv
  rcv_nxt   : k'.rcv_nxt = k.rcv_nxt
  rcv_queue : k'.rcv_queue = k.rcv_queue
  rcv_buf   : k'.rcv_buf = k.rcv_buf

theorem RcvSame.refl (k : Kcp) : RcvSame k k := ⟨rfl, rfl, rfl, rfl⟩

theorem RcvSame.trans {a b c : Kcp} (h1 : RcvSame a b) (h2 : RcvSame b c) : RcvSame a c :=
  ⟨h2.conv.trans h1.conv, h2.rcv_nxt.trans h1.rcv_nxt, h2.rcv_queue.trans h1.rcv_queue,
   h2.rcv_buf.trans h1.rcv_buf⟩

theorem Keep.rcvSame {k k' : Kcp} (h : Keep k k') : RcvSame k k' := ⟨h.conv, h.rcv_nxt, h.rcv_queue, h.rcv_buf⟩

/-- the send side and the configuration it depends on -/
structure SndSame (k k' : Kcp) : Prop where
  conv      : k'.conv = k.conv
  mss       : k'.mss = k.mss
  stream    : k'.stream = k.stream
  snd_una   : k'.snd_una = k.snd_una
  snd_nxt   : k'.snd_nxt = k.snd_nxt
  snd_queue : k'.snd_queue = k.snd_queue
  snd_buf   : k'.snd_buf = k.snd_buf

theorem SndSame.refl (k : Kcp) : SndSame k k := ⟨rfl, rfl, rfl, rfl, rfl, rfl, rfl⟩

theorem SndSame.trans {a b c : Kcp} (h1 : SndSame a b) (h2 : SndSame b c) : SndSame a c :=
  ⟨h2.conv.trans h1.conv, h2.mss.trans h1.mss, h2.stream.trans h1.stream, h2.snd_una.trans h1.snd_una,
   h2.snd_nxt.trans h1.snd_nxt, h2.snd_queue.trans h1.snd_queue, h2.snd_buf.trans h1.snd_buf⟩

/-- `shrink_buf` (drop the acknowledged head segments, set `snd_una`) touches only `snd_buf`/`snd_una` -/
theorem shrinkBuf_rcvSame (k : Kcp) : RcvSame k (shrinkBuf k) := by
  unfold shrinkBuf
  split <;> exact ⟨rfl, rfl, rfl, rfl⟩

theorem inSt1_rcvSame (regular : Bool) (st : InLoop) (h : Hdr) : RcvSame st.k (inSt1 regular st h).k := by
  unfold inSt1
  simp only []
  refine RcvSame.trans ?_ (shrinkBuf_rcvSame _)
  unfold parseUna
  split <;> exact ⟨rfl, rfl, rfl, rfl⟩

theorem parseAck_rcvSame (k : Kcp) (sn : U32) : RcvSame k (parseAck k sn) := by
  unfold parseAck; split <;> exact ⟨rfl, rfl, rfl, rfl⟩

theorem parseFastack_rcvSame (k : Kcp) (sn ts : U32) : RcvSame k (parseFastack k sn ts).1 := by
  unfold parseFastack; split <;> exact ⟨rfl, rfl, rfl, rfl⟩

theorem moveReady_sndSame (k : Kcp) : SndSame k (moveReady k) := ⟨rfl, rfl, rfl, rfl, rfl, rfl, rfl⟩

theorem parseData_sndSame (k : Kcp) (s : Seg) : SndSame k (parseData k s).k := by
  unfold parseData
  repeat' split
  all_goals first | exact SndSame.refl _ | exact ⟨rfl, rfl, rfl, rfl, rfl, rfl, rfl⟩

theorem parseData_conv (k : Kcp) (s : Seg) : (parseData k s).k.conv = k.conv := (parseData_sndSame k s).conv

theorem updateAck_same (k : Kcp) (rtt : U32) : RcvSame k (updateAck k rtt) ∧ SndSame k (updateAck k rtt) := by
  unfold updateAck smoothRtt
  simp only []
  repeat' split
  all_goals exact ⟨⟨rfl, rfl, rfl, rfl⟩, ⟨rfl, rfl, rfl, rfl, rfl, rfl, rfl⟩⟩

theorem cwndOnAck_same (k : Kcp) (old : U32) : RcvSame k (cwndOnAck k old) ∧ SndSame k (cwndOnAck k old) := by
  unfold cwndOnAck
  simp only []
  repeat' split
  all_goals exact ⟨⟨rfl, rfl, rfl, rfl⟩, ⟨rfl, rfl, rfl, rfl, rfl, rfl, rfl⟩⟩

/-! ### the tail of `Input` -/

/-- RTT update and congestion-window growth after the parse loop -/
def inputK2 (k : Kcp) (st : InLoop) (regular : Bool) (now : U32) : Kcp :=
  cwndOnAck (if st.updRtt ∧ regular ∧ itimediff now st.latest ≥ 0 then updateAck st.k (now - st.latest) else st.k)
    k.snd_una

theorem inputK2_same (k : Kcp) (st : InLoop) (regular : Bool) (now : U32) :
    RcvSame st.k (inputK2 k st regular now) ∧ SndSame st.k (inputK2 k st regular now) := by
  unfold inputK2
  split
  · exact ⟨(updateAck_same _ _).1.trans (cwndOnAck_same _ _).1, (updateAck_same _ _).2.trans (cwndOnAck_same _ _).2⟩
  · exact cwndOnAck_same _ _

/-- what `Input` does with the loop result -/
def inputTail (k : Kcp) (st : InLoop) (regular ackNoDelay : Bool) (now : U32) : InRes :=
  if st.panic then ⟨st.k, 0, [], true⟩ else
  if st.ret < 0 then ⟨st.k, st.ret, [], false⟩ else
  if st.flushSeg then
    ⟨(flush (inputK2 k st regular now) true now).k, 0, (flush (inputK2 k st regular now) true now).outs,
     (flush (inputK2 k st regular now) true now).panic⟩
  else if (inputK2 k st regular now).acklist.length ≥ ((inputK2 k st regular now).mtu / u32 IKCP_OVERHEAD).toNat then
    ⟨(flush (inputK2 k st regular now) false now).k, 0, (flush (inputK2 k st regular now) false now).outs,
     (flush (inputK2 k st regular now) false now).panic⟩
  else if ackNoDelay ∧ (inputK2 k st regular now).acklist.length > 0 then
    ⟨(flush (inputK2 k st regular now) false now).k, 0, (flush (inputK2 k st regular now) false now).outs,
     (flush (inputK2 k st regular now) false now).panic⟩
  else ⟨inputK2 k st regular now, 0, [], false⟩

theorem input_eq (k : Kcp) (data : Bytes) (regular ackNoDelay : Bool) (now : U32) :
    input k data regular ackNoDelay now =
      if data.length < IKCP_OVERHEAD then ⟨k, -1, [], false⟩
      else inputTail k (inputLoop regular (data.length / IKCP_OVERHEAD + 1) data { k := k }) regular ackNoDelay now :=
  rfl

/-- `Input` ends in at most one `flush` of the state `inputK2` -/
theorem inputTail_cases (k : Kcp) (st : InLoop) (regular ackNoDelay : Bool) (now : U32) :
    ((inputTail k st regular ackNoDelay now).k = st.k ∧ (inputTail k st regular ackNoDelay now).outs = []) ∨
    ((inputTail k st regular ackNoDelay now).k = inputK2 k st regular now ∧
      (inputTail k st regular ackNoDelay now).outs = []) ∨
    ∃ full, (inputTail k st regular ackNoDelay now).k = (flush (inputK2 k st regular now) full now).k ∧
      (inputTail k st regular ackNoDelay now).outs = (flush (inputK2 k st regular now) full now).outs ∧
      (inputTail k st regular ackNoDelay now).panic = (flush (inputK2 k st regular now) full now).panic := by
  unfold inputTail
  by_cases h1 : st.panic = true
  · rw [if_pos h1]; left; exact ⟨rfl, rfl⟩
  · rw [if_neg h1]
    by_cases h2 : st.ret < 0
    · rw [if_pos h2]; left; exact ⟨rfl, rfl⟩
    · rw [if_neg h2]
      by_cases h3 : st.flushSeg = true
      · rw [if_pos h3]; right; right; exact ⟨true, rfl, rfl, rfl⟩
      · rw [if_neg h3]
        split
        · right; right; exact ⟨false, rfl, rfl, rfl⟩
        · split
          · right; right; exact ⟨false, rfl, rfl, rfl⟩
          · right; left; exact ⟨rfl, rfl⟩

/-! ### conv is never written -/

theorem inSt2_conv (st1 : InLoop) (h : Hdr) (body : Bytes) : (inSt2 st1 h body).k.conv = st1.k.conv := by
  unfold inSt2
  simp only []
  split
  · exact (((parseAck_rcvSame _ _).trans (shrinkBuf_rcvSame _)).trans (parseFastack_rcvSame _ _ _)).conv
  · split
    · split
      · split
        · exact parseData_conv _ _
        · rfl
      · rfl
    · split <;> rfl

theorem inputLoop_conv (regular : Bool) :
    ∀ (fuel : Nat) (data : Bytes) (st : InLoop), (inputLoop regular fuel data st).k.conv = st.k.conv := by
  intro fuel
  induction fuel with
  | zero => intro data st; rfl
  | succ fuel ih =>
    intro data st
    rw [inputLoop_succ]
    have hc : (inSt2 (inSt1 regular st (parseHdr data)) (parseHdr data) (data.drop IKCP_OVERHEAD)).k.conv
        = st.k.conv := (inSt2_conv _ _ _).trans (inSt1_rcvSame _ _ _).conv
    split
    · rfl
    · split
      · rfl
      · split
        · rfl
        · split
          · rfl
          · split
            · exact hc
            · rw [ih]; exact hc

theorem input_conv (k : Kcp) (data : Bytes) (regular ackNoDelay : Bool) (now : U32) :
    (input k data regular ackNoDelay now).k.conv = k.conv := by
  rw [input_eq]
  split
  · rfl
  · have hl := inputLoop_conv regular (data.length / IKCP_OVERHEAD + 1) data { k := k }
    rcases inputTail_cases k (inputLoop regular (data.length / IKCP_OVERHEAD + 1) data { k := k })
      regular ackNoDelay now with h1 | h1 | ⟨full, h1⟩
    · rw [h1.1]; exact hl
    · rw [h1.1, (inputK2_same _ _ _ _).1.conv]; exact hl
    · rw [h1.1, (flush_keep _ _ _).conv, (inputK2_same _ _ _ _).1.conv]; exact hl

/-! ### `Send` and `Update` as mirror definitions -/

/-- the number of bytes `Send` appends to the last queued segment in stream mode -/
def sendExt (k : Kcp) (buffer : Bytes) : Nat :=
  if k.stream ≠ 0 then
    match k.snd_queue.getLast? with
    | some s => if s.data.length < k.mss.toNat then min buffer.length (k.mss.toNat - s.data.length) else 0
    | none => 0
  else 0

def sendPanic1 (k : Kcp) (buffer : Bytes) : Bool :=
  match k.snd_queue.getLast? with
  | some s => decide (sendExt k buffer > 0 ∧ s.data.length + sendExt k buffer > mtuLimit)
  | none => false

/-- the queue after the stream-mode append -/
def sendQ1 (k : Kcp) (buffer : Bytes) : List Seg :=
  if sendExt k buffer > 0 then
    match k.snd_queue.getLast? with
    | some s => setLast k.snd_queue { s with data := s.data ++ buffer.take (sendExt k buffer) }
    | none => k.snd_queue
  else k.snd_queue

def sendRest (k : Kcp) (buffer : Bytes) : Bytes := buffer.drop (sendExt k buffer)

def sendCount (k : Kcp) (buffer : Bytes) : Nat :=
  if (sendRest k buffer).length ≤ k.mss.toNat then 1
  else ((sendRest k buffer).length + k.mss.toNat - 1) / k.mss.toNat

/-- the new segments `Send` appends -/
def sendNew (k : Kcp) (buffer : Bytes) : List Seg :=
  mkSegs k.mss.toNat (k.stream ≠ 0) (if sendCount k buffer = 0 then 1 else sendCount k buffer) (sendRest k buffer)

theorem send_eq (k : Kcp) (buffer : Bytes) :
    send k buffer =
      if buffer.length = 0 then ⟨k, -1, false⟩ else
      if sendCount k buffer > 255 then ⟨k, -2, false⟩ else
      if sendPanic1 k buffer then ⟨k, 0, true⟩ else
      if k.stream ≠ 0 ∧ (sendRest k buffer).length = 0 then ⟨{ k with snd_queue := sendQ1 k buffer }, 0, false⟩ else
      if min (sendRest k buffer).length k.mss.toNat > mtuLimit then
        ⟨{ k with snd_queue := sendQ1 k buffer }, 0, true⟩ else
      ⟨{ k with snd_queue := sendQ1 k buffer ++ sendNew k buffer }, 0, false⟩ := rfl

/-- `Send` writes nothing but `snd_queue` -/
theorem send_k (k : Kcp) (buffer : Bytes) : (send k buffer).k = { k with snd_queue := (send k buffer).k.snd_queue } := by
  rw [send_eq]
  split
  · rfl
  · split
    · rfl
    · split
      · rfl
      · split
        · rfl
        · split <;> rfl

/-! `Update` -/

def updK1 (k : Kcp) (now : U32) : Kcp := if k.updated = 0 then { k with updated := 1, ts_flush := now } else k

def updReset (k : Kcp) (now : U32) : Bool :=
  decide (itimediff now (updK1 k now).ts_flush ≥ 10000 ∨ itimediff now (updK1 k now).ts_flush < -10000)

/-- the state `Update` returns when it is not yet time to flush -/
def updPre (k : Kcp) (now : U32) : Kcp :=
  if updReset k now then { updK1 k now with ts_flush := now } else updK1 k now

def updSlap (k : Kcp) (now : U32) : Int :=
  if updReset k now then 0 else itimediff now (updK1 k now).ts_flush

def updTf (k : Kcp) (now : U32) : U32 :=
  if itimediff now ((updPre k now).ts_flush + (updPre k now).interval) ≥ 0 then now + (updPre k now).interval
  else (updPre k now).ts_flush + (updPre k now).interval

theorem update_eq (k : Kcp) (now : U32) :
    update k now =
      if updSlap k now ≥ 0 then flush { updPre k now with ts_flush := updTf k now } true now
      else ⟨updPre k now, [], 0, false⟩ := rfl

theorem updPre_same (k : Kcp) (now : U32) (tf : U32) :
    Keep k { updPre k now with ts_flush := tf } ∧ KeepSnd k { updPre k now with ts_flush := tf } ∧
    Keep k (updPre k now) ∧ KeepSnd k (updPre k now) := by
  unfold updPre updK1
  split <;> split <;>
    exact ⟨⟨rfl, rfl, rfl, rfl, rfl, rfl, rfl, rfl, rfl, rfl⟩, ⟨rfl, rfl, rfl⟩,
      ⟨rfl, rfl, rfl, rfl, rfl, rfl, rfl, rfl, rfl, rfl⟩, ⟨rfl, rfl, rfl⟩⟩

theorem update_keep (k : Kcp) (now : U32) : Keep k (update k now).k := by
  rw [update_eq]
  split
  · exact (updPre_same k now _).1.trans (flush_keep _ _ _)
  · exact (updPre_same k now 0).2.2.1

end KcpVerif.Frame
