import KcpVerif.Model.SessIn
/-!
Helper lemmas about the listener model (core Lean only): association-list lookup, `modifyAt`,
the well-formedness invariant of the session table and its preservation.
-/
namespace KcpVerif.SessIn
open KcpVerif.Gen

theorem lookup_unmap (t : List (String × Nat)) (a b : String) :
    lookup (unmap t a) b = if b = a then none else lookup t b := by
  induction t with
  | nil => simp [unmap, lookup]
  | cons e rest ih =>
    unfold unmap at ih ⊢
    by_cases he : e.1 = a <;> by_cases hb : b = a <;> by_cases heb : e.1 = b <;>
      simp_all [lookup]

theorem modifyAt_length {α : Type} (xs : List α) (i : Nat) (f : α → α) :
    (modifyAt xs i f).length = xs.length := by
  induction xs generalizing i with
  | nil => rfl
  | cons x rest ih => cases i with
    | zero => rfl
    | succ k => simp [modifyAt, ih]

theorem getElem?_modifyAt {α : Type} (xs : List α) (i j : Nat) (f : α → α) :
    (modifyAt xs i f)[j]? = if j = i then xs[j]?.map f else xs[j]? := by
  induction xs generalizing i j with
  | nil => simp [modifyAt]
  | cons x rest ih => cases i with
    | zero => cases j with
      | zero => simp [modifyAt]
      | succ m => simp [modifyAt]
    | succ k => cases j with
      | zero => simp [modifyAt]
      | succ m => simp [modifyAt, ih]

/-- every table entry points at a live session object created for that address -/
def WF {σ : Type} (l : Listener σ) : Prop :=
  ∀ a id, lookup l.table a = some id → ∃ o, l.objs[id]? = some o ∧ o.addr = a ∧ o.closed = false

theorem WF_empty {σ : Type} : WF (Listener.empty : Listener σ) := by
  intro a id h; simp [Listener.empty, lookup] at h

/-- under WF, distinct addresses are mapped to distinct objects -/
theorem WF_inj {σ : Type} {l : Listener σ} (h : WF l) {a b : String} {id : Nat}
    (ha : lookup l.table a = some id) (hb : lookup l.table b = some id) : a = b := by
  obtain ⟨o, ho, hoa, _⟩ := h a id ha
  obtain ⟨o', ho', hob, _⟩ := h b id hb
  rw [ho] at ho'
  cases ho'
  rw [← hoa, ← hob]

theorem WF_closeSess {σ : Type} (w : World σ) (l : Listener σ) (id : Nat) (h : WF l) :
    WF (closeSess w l id) := by
  unfold closeSess
  cases ho : l.objs[id]? with
  | none => exact h
  | some o =>
    simp only
    by_cases hc : o.closed
    · simp only [hc, if_true]; exact h
    · simp only [hc, Bool.false_eq_true, if_false]
      intro b id' hl
      simp only [lookup_unmap] at hl
      by_cases hb : b = o.addr
      · simp [hb] at hl
      · simp only [hb, if_false] at hl
        obtain ⟨o', ho', hoa, hoc⟩ := h b id' hl
        have hne : id' ≠ id := by
          intro heq
          rw [heq, ho] at ho'
          cases ho'
          exact hb hoa.symm
        refine ⟨o', ?_, hoa, hoc⟩
        simp only [getElem?_modifyAt, hne, if_false]
        exact ho'

theorem WF_tryCreate {σ : Type} (w : World σ) (l : Listener σ) (p : Bytes) (a : String) (hd : Hdr)
    (old : Option Nat) (h : WF l) : WF (tryCreate w l p a hd old).l := by
  unfold tryCreate
  by_cases hc : (!hd.hasConv) = true
  · simp only [hc, if_true]; exact h
  · simp only [hc, Bool.false_eq_true, if_false]
    by_cases hq : l.accepts.length ≥ acceptBacklog
    · simp only [hq, if_true]; exact h
    · simp only [hq, if_false]
      intro b id' hl
      simp only [lookup] at hl
      by_cases hb : a = b
      · simp only [hb, if_true, Option.some.injEq] at hl
        subst hl
        refine ⟨{ conv := hd.conv, addr := a, st := w.kcpInput (w.init hd.conv) p, closed := false }, ?_, hb, rfl⟩
        simp
      · simp only [hb, if_false, lookup_unmap] at hl
        have hb' : ¬ b = a := fun e => hb e.symm
        simp only [hb', if_false] at hl
        obtain ⟨o', ho', hoa, hoc⟩ := h b id' hl
        refine ⟨o', ?_, hoa, hoc⟩
        have hlt : id' < l.objs.length := by
          rcases Nat.lt_or_ge id' l.objs.length with hlt | hge
          · exact hlt
          · rw [List.getElem?_eq_none hge] at ho'; cases ho'
        rw [List.getElem?_append_left hlt]
        exact ho'

theorem WF_modify {σ : Type} (l : Listener σ) (id : Nat) (g : Sess σ → Sess σ)
    (hg : ∀ o, (g o).addr = o.addr ∧ (g o).closed = o.closed) (h : WF l) :
    WF { l with objs := modifyAt l.objs id g } := by
  intro b id' hl
  obtain ⟨o', ho', hoa, hoc⟩ := h b id' hl
  by_cases he : id' = id
  · refine ⟨g o', ?_, (hg o').1.trans hoa, (hg o').2.trans hoc⟩
    simp only [getElem?_modifyAt, he, if_true]
    rw [← he, ho']; rfl
  · refine ⟨o', ?_, hoa, hoc⟩
    simp only [getElem?_modifyAt, he, if_false]
    exact ho'

theorem WF_listenerInput {σ : Type} (w : World σ) (c : Cipher) (l : Listener σ) (data : Bytes) (a : String)
    (h : WF l) : WF (listenerInput w c l data a).l := by
  unfold listenerInput
  split
  · exact h
  · exact h
  · split
    · exact h
    · split
      · exact h
      · split
        · exact WF_tryCreate w l _ a _ none h
        · split
          · exact h
          · split
            · exact WF_modify l _ _ (fun o => ⟨rfl, rfl⟩) h
            · split
              · exact h
              · exact WF_tryCreate w _ _ a _ _ (WF_closeSess w l _ h)

theorem WF_accept {σ : Type} (l : Listener σ) (h : WF l) : WF (accept l).l := by
  unfold accept
  split
  · exact h
  · exact h

theorem WF_userClose {σ : Type} (w : World σ) (l : Listener σ) (id : Nat) (h : WF l) :
    WF (userClose w l id) := WF_closeSess w l id h

end KcpVerif.SessIn
