/-
The dead-link flag `state` is written (phase 5) but never read: every operation maps connections
that differ only in `state` to results that differ only in `state`.  Core Lean only.
-/
import KcpVerif.Lemmas.KcpLiveFlush
import KcpVerif.Lemmas.KcpInput

namespace KcpVerif.Live
open KcpVerif KcpVerif.Gen KcpVerif.Kcp

/-- same connection except possibly the dead-link flag -/
def KSE (a b : Kcp) : Prop := ∃ v, a = { b with state := v }

theorem KSE.refl (a : Kcp) : KSE a a := ⟨a.state, rfl⟩

/-- same flush buffer, connections equal up to `state` -/
structure FSE (f g : Fl) : Prop where
  k : KSE f.k g.k
  cur : f.cur = g.cur
  outs : f.outs = g.outs
  panic : f.panic = g.panic

theorem FSE.setK {f g : Fl} (h : FSE f g) {a b : Kcp} (hk : KSE a b) : FSE { f with k := a } { g with k := b } :=
  ⟨hk, h.cur, h.outs, h.panic⟩

theorem makeSpace_se {f g : Fl} (h : FSE f g) (n : Nat) : FSE (f.makeSpace n) (g.makeSpace n) := by
  obtain ⟨fk, c, o, p⟩ := f
  obtain ⟨gk, c', o', p'⟩ := g
  obtain ⟨⟨v, hk⟩, hc, ho, hp⟩ := h
  simp only [] at hk hc ho hp
  subst hk hc ho hp
  unfold Fl.makeSpace
  simp only []
  split <;> exact ⟨⟨v, rfl⟩, rfl, rfl, rfl⟩

theorem putHdr_se {f g : Fl} (h : FSE f g) (b : Bytes) : FSE (f.putHdr b) (g.putHdr b) := by
  obtain ⟨fk, c, o, p⟩ := f
  obtain ⟨gk, c', o', p'⟩ := g
  obtain ⟨⟨v, hk⟩, hc, ho, hp⟩ := h
  simp only [] at hk hc ho hp
  subst hk hc ho hp
  unfold Fl.putHdr
  simp only []
  split <;> exact ⟨⟨v, rfl⟩, rfl, rfl, rfl⟩

theorem putData_se {f g : Fl} (h : FSE f g) (b : Bytes) : FSE (f.putData b) (g.putData b) := by
  obtain ⟨fk, c, o, p⟩ := f
  obtain ⟨gk, c', o', p'⟩ := g
  obtain ⟨⟨v, hk⟩, hc, ho, hp⟩ := h
  simp only [] at hk hc ho hp
  subst hk hc ho hp
  unfold Fl.putData
  simp only []
  split <;> exact ⟨⟨v, rfl⟩, rfl, rfl, rfl⟩

/-- reading any field other than `state` -/
theorem KSE.fields {a b : Kcp} (h : KSE a b) :
    a.conv = b.conv ∧ a.rx_rto = b.rx_rto ∧ a.nodelay = b.nodelay ∧ a.dead_link = b.dead_link ∧
    a.rcv_nxt = b.rcv_nxt ∧ a.interval = b.interval ∧ a.snd_buf = b.snd_buf ∧ a.fastresend = b.fastresend ∧
    a.probe = b.probe ∧ a.acklist = b.acklist := by
  obtain ⟨v, rfl⟩ := h; exact ⟨rfl, rfl, rfl, rfl, rfl, rfl, rfl, rfl, rfl, rfl⟩

theorem emit_se {f g : Fl} (h : FSE f g) (s : Seg) : FSE (emit f s) (emit g s) := by
  have h1 := putData_se (putHdr_se (makeSpace_se h (IKCP_OVERHEAD + s.data.length))
    (encodeHdr s.conv s.cmd s.frg s.wnd s.ts s.sn s.una s.data.length)) s.data
  unfold emit
  simp only []
  rw [h1.k.fields.2.2.2.1]
  obtain ⟨v, hv⟩ := h1.k
  split
  · exact ⟨⟨0xFFFFFFFF#32, by rw [hv]⟩, h1.cur, h1.outs, h1.panic⟩
  · exact h1

/-- same phase-5 loop state up to `state` -/
structure XSE (x y : XmitSt) : Prop where
  f : FSE x.f y.f
  done : x.done = y.done
  change : x.change = y.change
  lost : x.lost = y.lost
  next : x.next = y.next

theorem xmitOne_se (now resent : U32) (wnd : BitVec 16) (una : U32) (newSegs : Nat) {x y : XmitSt} (h : XSE x y)
    (s : Seg) : XSE (xmitOne now resent wnd una newSegs x s) (xmitOne now resent wnd una newSegs y s) := by
  rw [xmitOne_eq, xmitOne_eq, h.f.k.fields.2.1, h.f.k.fields.2.2.1, h.done, h.change, h.lost, h.next]
  by_cases ha : s.acked = true
  · rw [if_pos ha, if_pos ha]; exact ⟨h.f, rfl, rfl, rfl, rfl⟩
  · rw [if_neg ha, if_neg ha]
    by_cases hc : cause now resent newSegs s = .none
    · simp only [if_pos hc]; exact ⟨h.f, rfl, rfl, rfl, rfl⟩
    · simp only [if_neg hc]; exact ⟨emit_se h.f _, rfl, rfl, rfl, rfl⟩

theorem foldXmit_se (now resent : U32) (wnd : BitVec 16) (una : U32) (newSegs : Nat) (l : List Seg) {x y : XmitSt}
    (h : XSE x y) :
    XSE (l.foldl (xmitOne now resent wnd una newSegs) x) (l.foldl (xmitOne now resent wnd una newSegs) y) := by
  induction l generalizing x y with
  | nil => exact h
  | cons a rest ih => exact ih (xmitOne_se now resent wnd una newSegs h a)

/-- same phase-1 loop state up to `state` -/
structure ASE (x y : AckSt) : Prop where
  f : FSE x.f y.f
  sc : x.sc = y.sc

theorem ackStep_se (wnd : BitVec 16) (una : U32) (total : Nat) (a : Ack) (i : Nat) {x y : AckSt} (h : ASE x y) :
    ASE (ackStep wnd una total a i x) (ackStep wnd una total a i y) := by
  unfold ackStep
  rw [h.f.k.fields.2.2.2.2.1, h.f.k.fields.1, h.sc]
  split
  · exact ⟨putHdr_se (makeSpace_se h.f _) _, rfl⟩
  · exact ⟨makeSpace_se h.f _, rfl⟩

theorem ackFlush_se (wnd : BitVec 16) (una : U32) (total : Nat) (l : List Ack) (i : Nat) {x y : AckSt} (h : ASE x y) :
    ASE (ackFlush wnd una total l i x) (ackFlush wnd una total l i y) := by
  induction l generalizing i x y with
  | nil => exact h
  | cons a rest ih => rw [ackFlush_cons, ackFlush_cons]; exact ih (i + 1) (ackStep_se wnd una total a i h)

theorem probePhase_se {a b : Kcp} (h : KSE a b) (now : U32) : KSE (probePhase a now) (probePhase b now) := by
  obtain ⟨v, rfl⟩ := h
  unfold probePhase
  simp only []
  repeat' split
  all_goals first | exact ⟨v, rfl⟩ | contradiction

theorem phase6_se {a b : Kcp} (h : KSE a b) (change lost : Nat) (cwnd resent : U32) :
    KSE (phase6 a change lost cwnd resent) (phase6 b change lost cwnd resent) := by
  obtain ⟨v, rfl⟩ := h
  unfold phase6
  simp only []
  repeat' split
  all_goals first | exact ⟨v, rfl⟩ | contradiction

/-- a function that commutes with setting `state` respects `KSE` -/
theorem KSE.map {a b : Kcp} (h : KSE a b) (F : Kcp → Kcp)
    (hF : ∀ k v, F { k with state := v } = { F k with state := v }) : KSE (F a) (F b) := by
  obtain ⟨v, rfl⟩ := h; exact ⟨v, hF b v⟩

/-- what the phases read directly from the argument of `flush` -/
theorem KSE.reads {a b : Kcp} (h : KSE a b) :
    wndUnused a = wndUnused b ∧ a.rcv_nxt = b.rcv_nxt ∧ a.acklist = b.acklist := by
  obtain ⟨v, rfl⟩ := h; exact ⟨rfl, rfl, rfl⟩

theorem flAck_se {a b : Kcp} (h : KSE a b) : ASE (flAck a) (flAck b) := by
  unfold flAck
  rw [h.reads.1, h.reads.2.1, h.reads.2.2]
  exact ackFlush_se _ _ _ _ _ ⟨⟨h, rfl, rfl, rfl⟩, rfl⟩

theorem flF1_se {a b : Kcp} (h : KSE a b) : FSE (flF1 a) (flF1 b) :=
  (flAck_se h).f.setK ((flAck_se h).f.k.map (fun k => { k with acklist := [] }) (fun _ _ => rfl))

theorem flF2_se {a b : Kcp} (h : KSE a b) (now : U32) : FSE (flF2 a now) (flF2 b now) :=
  (flF1_se h).setK (probePhase_se (flF1_se h).k now)

theorem flF3a_se {a b : Kcp} (h : KSE a b) (now : U32) : FSE (flF3a a now) (flF3a b now) := by
  have h2 := flF2_se h now
  unfold flF3a
  rw [h2.k.fields.2.2.2.2.2.2.2.2.1, h2.k.fields.1, h.reads.1, h.reads.2.1, (flAck_se h).sc]
  split
  · exact putHdr_se (makeSpace_se h2 _) _
  · exact h2

theorem flF3b_se {a b : Kcp} (h : KSE a b) (now : U32) : FSE (flF3b a now) (flF3b b now) := by
  have h2 := flF3a_se h now
  unfold flF3b
  rw [h2.k.fields.2.2.2.2.2.2.2.2.1, h2.k.fields.1, h.reads.1, h.reads.2.1, (flAck_se h).sc]
  split
  · exact putHdr_se (makeSpace_se h2 _) _
  · exact h2

theorem flF3_se {a b : Kcp} (h : KSE a b) (now : U32) : FSE (flF3 a now) (flF3 b now) :=
  (flF3b_se h now).setK ((flF3b_se h now).k.map (fun k => { k with probe := 0 }) (fun _ _ => rfl))

theorem KSE.reads4 {a b : Kcp} (h : KSE a b) :
    effWnd a = effWnd b ∧ a.snd_una = b.snd_una ∧ a.snd_queue = b.snd_queue ∧ a.snd_nxt = b.snd_nxt ∧
    resentOf a = resentOf b := by
  obtain ⟨v, rfl⟩ := h; exact ⟨rfl, rfl, rfl, rfl, rfl⟩

theorem flAd_se {a b : Kcp} (h : KSE a b) (now : U32) : flAd a now = flAd b now := by
  have h3 := (flF3_se h now).k
  unfold flAd
  rw [h3.fields.1, h3.reads4.1, h3.reads4.2.1, h3.reads4.2.2.1, h3.reads4.2.2.2.1, h3.fields.2.2.2.2.2.2.1]

theorem flF4_se {a b : Kcp} (h : KSE a b) (now : U32) : FSE (flF4 a now) (flF4 b now) := by
  unfold flF4
  rw [flAd_se h now]
  exact (flF3_se h now).setK ((flF3_se h now).k.map
    (fun k => { k with snd_queue := (flAd b now).queue, snd_buf := (flAd b now).buf, snd_nxt := (flAd b now).nxt })
    (fun _ _ => rfl))

/-- phase 5 as a function of its inputs -/
def xPhase (f : Fl) (resent : U32) (wnd : BitVec 16) (una : U32) (count : Nat) (full : Bool) (now : U32) : XmitSt :=
  if full then f.k.snd_buf.foldl (xmitOne now resent wnd una count) { f := f, next := f.k.interval }
  else { f := f, done := f.k.snd_buf, next := f.k.interval }

theorem flX_xPhase (k : Kcp) (full : Bool) (now : U32) :
    flX k full now = xPhase (flF4 k now) (resentOf (flF4 k now).k) (wndUnused k) k.rcv_nxt (flAd k now).count full now := rfl

theorem xPhase_se {f g : Fl} (h : FSE f g) (resent : U32) (wnd : BitVec 16) (una : U32) (count : Nat) (full : Bool)
    (now : U32) : XSE (xPhase f resent wnd una count full now) (xPhase g resent wnd una count full now) := by
  unfold xPhase
  rw [h.k.fields.2.2.2.2.2.2.1, h.k.fields.2.2.2.2.2.1]
  cases full
  · exact ⟨h, rfl, rfl, rfl, rfl⟩
  · exact foldXmit_se _ _ _ _ _ _ ⟨h, rfl, rfl, rfl, rfl⟩

theorem flX_se {a b : Kcp} (h : KSE a b) (full : Bool) (now : U32) : XSE (flX a full now) (flX b full now) := by
  have h4 := flF4_se h now
  rw [flX_xPhase, flX_xPhase, h4.k.reads4.2.2.2.2, h.reads.1, h.reads.2.1, flAd_se h now]
  exact xPhase_se h4 _ _ _ _ _ _

theorem flF5_se {a b : Kcp} (h : KSE a b) (full : Bool) (now : U32) : FSE (flF5 a full now) (flF5 b full now) := by
  have hx := flX_se h full now
  unfold flF5
  rw [hx.done]
  exact hx.f.setK (hx.f.k.map (fun k => { k with snd_buf := (flX b full now).done }) (fun _ _ => rfl))

/-- `flush` never reads `state` -/
theorem flush_se {a b : Kcp} (h : KSE a b) (full : Bool) (now : U32) :
    KSE (flush a full now).k (flush b full now).k ∧ (flush a full now).outs = (flush b full now).outs ∧
    (flush a full now).interval = (flush b full now).interval ∧ (flush a full now).panic = (flush b full now).panic := by
  have h5 := flF5_se h full now
  have hx := flX_se h full now
  rw [flush_eq, flush_eq]
  simp only []
  rw [hx.change, hx.lost, hx.next, (flF3_se h now).k.reads4.1, (flF4_se h now).k.reads4.2.2.2.2,
    h5.cur, h5.outs, h5.panic]
  exact ⟨phase6_se h5.k _ _ _ _, rfl, rfl, rfl⟩

/-! ### `input` -/

theorem inPre_se {a b : Kcp} (h : KSE a b) (regular : Bool) (wnd : BitVec 16) (una : U32) :
    KSE (inPre regular wnd una a) (inPre regular wnd una b) ∧ inCnt regular wnd una a = inCnt regular wnd una b := by
  obtain ⟨v, rfl⟩ := h
  unfold inPre inCnt parseUna
  rw [shrinkBuf_eq, shrinkBuf_eq]
  cases regular
  · exact ⟨⟨v, rfl⟩, rfl⟩
  · exact ⟨⟨v, rfl⟩, rfl⟩

theorem parseAck_se {a b : Kcp} (h : KSE a b) (sn : U32) : KSE (parseAck a sn) (parseAck b sn) := by
  obtain ⟨v, rfl⟩ := h
  unfold parseAck
  simp only []
  split
  · exact ⟨v, rfl⟩
  · exact ⟨v, rfl⟩

theorem shrinkBuf_se {a b : Kcp} (h : KSE a b) : KSE (shrinkBuf a) (shrinkBuf b) := by
  obtain ⟨v, rfl⟩ := h
  rw [shrinkBuf_eq, shrinkBuf_eq]
  exact ⟨v, rfl⟩

theorem parseFastack_se {a b : Kcp} (h : KSE a b) (sn ts : U32) :
    KSE (parseFastack a sn ts).1 (parseFastack b sn ts).1 ∧ (parseFastack a sn ts).2 = (parseFastack b sn ts).2 := by
  obtain ⟨v, rfl⟩ := h
  unfold parseFastack
  simp only []
  split
  · exact ⟨⟨v, rfl⟩, rfl⟩
  · exact ⟨⟨v, rfl⟩, rfl⟩

theorem parseData_se {a b : Kcp} (h : KSE a b) (s : Seg) :
    KSE (parseData a s).k (parseData b s).k ∧ (parseData a s).rep = (parseData b s).rep ∧
    (parseData a s).panic = (parseData b s).panic := by
  obtain ⟨v, rfl⟩ := h
  unfold parseData moveReady
  simp only []
  repeat' split
  all_goals first | exact ⟨⟨v, rfl⟩, rfl, rfl⟩ | contradiction

/-- same parse-loop state up to `state` -/
structure LSE (x y : InLoop) : Prop where
  k : KSE x.k y.k
  latest : x.latest = y.latest
  updRtt : x.updRtt = y.updRtt
  flushSeg : x.flushSeg = y.flushSeg
  ret : x.ret = y.ret
  panic : x.panic = y.panic

theorem KSE.readsR {a b : Kcp} (h : KSE a b) :
    a.rcv_nxt = b.rcv_nxt ∧ a.rcv_wnd = b.rcv_wnd ∧ a.acklist = b.acklist ∧ a.probe = b.probe ∧ a.conv = b.conv := by
  obtain ⟨v, rfl⟩ := h; exact ⟨rfl, rfl, rfl, rfl, rfl⟩

theorem inStep_se (regular : Bool) (conv : U32) (cmd frg : BitVec 8) (wnd : BitVec 16) (ts sn una : U32)
    (payload : Bytes) {x y : InLoop} (h : LSE x y) :
    LSE (inStep regular conv cmd frg wnd ts sn una payload x) (inStep regular conv cmd frg wnd ts sn una payload y) := by
  have hp := inPre_se h.k regular wnd una
  have hf := parseFastack_se (shrinkBuf_se (parseAck_se hp.1 sn)) sn ts
  have hd := parseData_se (hp.1.map (fun k => { k with acklist := k.acklist ++ [⟨sn, ts⟩] }) (fun _ _ => rfl))
    (pushSeg conv cmd frg wnd ts sn una payload)
  rw [inStep_eq, inStep_eq, hp.2, hf.2, hp.1.readsR.1, hp.1.readsR.2.1, h.flushSeg]
  split
  · exact ⟨hf.1, rfl, rfl, rfl, h.ret, h.panic⟩
  · split
    · split
      · split
        · exact ⟨hd.1, h.latest, h.updRtt, rfl, h.ret, hd.2.2⟩
        · exact ⟨hp.1.map (fun k => { k with acklist := k.acklist ++ [⟨sn, ts⟩] }) (fun _ _ => rfl),
            h.latest, h.updRtt, rfl, h.ret, h.panic⟩
      · exact ⟨hp.1, h.latest, h.updRtt, rfl, h.ret, h.panic⟩
    · split
      · exact ⟨hp.1.map (fun k => { k with probe := k.probe ||| u32 IKCP_ASK_TELL }) (fun _ _ => rfl),
          h.latest, h.updRtt, rfl, h.ret, h.panic⟩
      · exact ⟨hp.1, h.latest, h.updRtt, rfl, h.ret, h.panic⟩

theorem inputLoop_se (regular : Bool) (fuel : Nat) (data : Bytes) {x y : InLoop} (h : LSE x y) :
    LSE (inputLoop regular fuel data x) (inputLoop regular fuel data y) := by
  induction fuel generalizing data x y with
  | zero => exact h
  | succ n ih =>
    have hs : LSE (inStepAt regular data x) (inStepAt regular data y) := inStep_se _ _ _ _ _ _ _ _ _ h
    rw [inputLoop_succ, inputLoop_succ, h.k.readsR.2.2.2.2, hs.panic]
    split
    · exact h
    · split
      · exact ⟨h.k, h.latest, h.updRtt, h.flushSeg, rfl, h.panic⟩
      · split
        · exact ⟨h.k, h.latest, h.updRtt, h.flushSeg, rfl, h.panic⟩
        · split
          · exact ⟨h.k, h.latest, h.updRtt, h.flushSeg, rfl, h.panic⟩
          · split
            · exact hs
            · exact ih _ hs

theorem updateAck_se {a b : Kcp} (h : KSE a b) (rtt : U32) : KSE (updateAck a rtt) (updateAck b rtt) := by
  obtain ⟨v, rfl⟩ := h
  unfold updateAck smoothRtt
  simp only []
  repeat' split
  all_goals first | exact ⟨v, rfl⟩ | contradiction

theorem cwndOnAck_se {a b : Kcp} (h : KSE a b) (old : U32) : KSE (cwndOnAck a old) (cwndOnAck b old) := by
  obtain ⟨v, rfl⟩ := h
  unfold cwndOnAck
  simp only []
  repeat' split
  all_goals first | exact ⟨v, rfl⟩ | contradiction

theorem inSt_se {a b : Kcp} (h : KSE a b) (data : Bytes) (regular : Bool) :
    LSE (inSt a data regular) (inSt b data regular) :=
  inputLoop_se regular _ data ⟨h, rfl, rfl, rfl, rfl, rfl⟩

theorem inK2_se {a b : Kcp} (h : KSE a b) (data : Bytes) (regular : Bool) (now : U32) :
    KSE (inK2 a data regular now) (inK2 b data regular now) := by
  have hs := inSt_se h data regular
  unfold inK2
  rw [hs.updRtt, hs.latest, h.reads4.2.1]
  split
  · exact cwndOnAck_se (updateAck_se hs.k _) _
  · exact cwndOnAck_se hs.k _

theorem KSE.readsI {a b : Kcp} (h : KSE a b) : a.acklist = b.acklist ∧ a.mtu = b.mtu := by
  obtain ⟨v, rfl⟩ := h; exact ⟨rfl, rfl⟩

/-- `input` never reads `state` -/
theorem input_se {a b : Kcp} (h : KSE a b) (data : Bytes) (regular ackNoDelay : Bool) (now : U32) :
    KSE (input a data regular ackNoDelay now).k (input b data regular ackNoDelay now).k ∧
    (input a data regular ackNoDelay now).ret = (input b data regular ackNoDelay now).ret ∧
    (input a data regular ackNoDelay now).outs = (input b data regular ackNoDelay now).outs ∧
    (input a data regular ackNoDelay now).panic = (input b data regular ackNoDelay now).panic := by
  have hs := inSt_se h data regular
  have h2 := inK2_se h data regular now
  have hft := flush_se h2 true now
  have hff := flush_se h2 false now
  rw [input_eq, input_eq, hs.panic, hs.ret, hs.flushSeg, h2.readsI.1, h2.readsI.2,
    hft.2.1, hft.2.2.2, hff.2.1, hff.2.2.2]
  split
  · exact ⟨h, rfl, rfl, rfl⟩
  · split
    · exact ⟨hs.k, rfl, rfl, rfl⟩
    · split
      · exact ⟨hs.k, rfl, rfl, rfl⟩
      · split
        · exact ⟨hft.1, rfl, rfl, rfl⟩
        · split
          · exact ⟨hff.1, rfl, rfl, rfl⟩
          · split
            · exact ⟨hff.1, rfl, rfl, rfl⟩
            · exact ⟨h2, rfl, rfl, rfl⟩

/-! ### `recv`, `update` -/

theorem recv_se {a b : Kcp} (h : KSE a b) (n : Nat) :
    KSE (recv a n).k (recv b n).k ∧ (recv a n).n = (recv b n).n ∧ (recv a n).data = (recv b n).data := by
  obtain ⟨v, rfl⟩ := h
  unfold recv peekSize moveReady
  simp only []
  repeat' split
  all_goals first | exact ⟨⟨v, rfl⟩, rfl, rfl⟩ | contradiction

theorem ite_rel {α : Type} (R : α → α → Prop) (c : Prop) [Decidable c] {x y x' y' : α}
    (h1 : R x x') (h2 : R y y') : R (if c then x else y) (if c then x' else y') := by
  split <;> assumption

/-- same `Send` result up to `state` -/
def SendSE (x y : SendRes) : Prop := KSE x.k y.k ∧ x.ret = y.ret ∧ x.panic = y.panic

/-- `send` never reads `state` -/
theorem send_se {a b : Kcp} (h : KSE a b) (buf : Bytes) : SendSE (send a buf) (send b buf) := by
  obtain ⟨v, rfl⟩ := h
  unfold send
  simp only []
  refine ite_rel SendSE _ ⟨⟨v, rfl⟩, rfl, rfl⟩ ?_
  refine ite_rel SendSE _ ⟨⟨v, rfl⟩, rfl, rfl⟩ ?_
  refine ite_rel SendSE _ ⟨⟨v, rfl⟩, rfl, rfl⟩ ?_
  refine ite_rel SendSE _ ⟨⟨v, rfl⟩, rfl, rfl⟩ ?_
  refine ite_rel SendSE _ ⟨⟨v, rfl⟩, rfl, rfl⟩ ?_
  exact ⟨⟨v, rfl⟩, rfl, rfl⟩

/-! ### `update` -/

def updK1 (k : Kcp) (now : U32) : Kcp := if k.updated = 0 then { k with updated := 1, ts_flush := now } else k

def updReset (k : Kcp) (now : U32) : Bool :=
  decide (itimediff now (updK1 k now).ts_flush ≥ 10000 ∨ itimediff now (updK1 k now).ts_flush < -10000)

def updK2 (k : Kcp) (now : U32) : Kcp :=
  if updReset k now then { updK1 k now with ts_flush := now } else updK1 k now

def updTf (tsf interval now : U32) : U32 :=
  if itimediff now (tsf + interval) ≥ 0 then now + interval else tsf + interval

theorem update_eq (k : Kcp) (now : U32) :
    update k now =
      if (if updReset k now then 0 else itimediff now (updK1 k now).ts_flush) ≥ 0 then
        flush { updK2 k now with ts_flush := updTf (updK2 k now).ts_flush (updK2 k now).interval now } true now
      else ⟨updK2 k now, [], 0, false⟩ := rfl

theorem KSE.readsU {a b : Kcp} (h : KSE a b) :
    a.updated = b.updated ∧ a.ts_flush = b.ts_flush ∧ a.interval = b.interval := by
  obtain ⟨v, rfl⟩ := h; exact ⟨rfl, rfl, rfl⟩

theorem updK1_se {a b : Kcp} (h : KSE a b) (now : U32) : KSE (updK1 a now) (updK1 b now) := by
  unfold updK1
  rw [h.readsU.1]
  split
  · exact h.map (fun k => { k with updated := 1, ts_flush := now }) (fun _ _ => rfl)
  · exact h

theorem updReset_se {a b : Kcp} (h : KSE a b) (now : U32) : updReset a now = updReset b now := by
  unfold updReset; rw [(updK1_se h now).readsU.2.1]

theorem updK2_se {a b : Kcp} (h : KSE a b) (now : U32) : KSE (updK2 a now) (updK2 b now) := by
  unfold updK2
  rw [updReset_se h now]
  split
  · exact (updK1_se h now).map (fun k => { k with ts_flush := now }) (fun _ _ => rfl)
  · exact updK1_se h now

/-- `update` never reads `state` -/
theorem update_se {a b : Kcp} (h : KSE a b) (now : U32) :
    KSE (update a now).k (update b now).k ∧ (update a now).outs = (update b now).outs ∧
    (update a now).interval = (update b now).interval ∧ (update a now).panic = (update b now).panic := by
  have h2 := updK2_se h now
  rw [update_eq, update_eq, updReset_se h now, (updK1_se h now).readsU.2.1, h2.readsU.2.1, h2.readsU.2.2]
  by_cases hc : (if updReset b now then 0 else itimediff now (updK1 b now).ts_flush) ≥ 0
  · rw [if_pos hc, if_pos hc]
    exact flush_se (h2.map (fun k => { k with ts_flush := updTf (updK2 b now).ts_flush (updK2 b now).interval now })
      (fun _ _ => rfl)) true now
  · rw [if_neg hc, if_neg hc]
    exact ⟨h2, rfl, rfl, rfl⟩

/-- the remaining operations: pure readers and setters -/
theorem misc_se {a b : Kcp} (h : KSE a b) :
    peekSize a = peekSize b ∧ waitSnd a = waitSnd b ∧ (∀ now, check a now = check b now) ∧
    (∀ m, KSE (setMtu a m).1 (setMtu b m).1 ∧ (setMtu a m).2 = (setMtu b m).2) ∧
    (∀ s r, KSE (wndSize a s r) (wndSize b s r)) ∧
    (∀ nd iv rs nc, KSE (noDelay a nd iv rs nc) (noDelay b nd iv rs nc)) := by
  obtain ⟨v, rfl⟩ := h
  refine ⟨rfl, rfl, fun _ => rfl, fun m => ?_, fun s r => ?_, fun nd iv rs nc => ?_⟩
  · unfold setMtu
    simp only []
    repeat' split
    all_goals first | exact ⟨⟨v, rfl⟩, rfl⟩ | contradiction
  · unfold wndSize
    simp only []
    repeat' split
    all_goals first | exact ⟨v, rfl⟩ | contradiction
  · unfold noDelay
    simp only []
    repeat' split
    all_goals first | exact ⟨v, rfl⟩ | contradiction

end KcpVerif.Live
