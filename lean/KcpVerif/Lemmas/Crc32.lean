import KcpVerif.Model.Crc32
/-!
Lemmas about the bitwise CRC-32 model (core Lean only):

* `step`/`run`/`update` are GF(2)-linear jointly in (register, message)  ⇒  `crc32_xor`
* shifting in a zero bit is injective on the register and fixes 0
* from register 0, at most 32 message bits containing a 1 leave a non-zero register
  (`run_zero_short`): the feedback bit of every step lands in bit 31, so a register below `2^t`
  after `m` steps (`m + t ≤ 32`) forces every feedback bit, hence every message bit, to be 0
* together: `crc32_burst`.

Only two facts about the polynomial are used: bit 31 of the reflected constant is set (the
generator's constant term is 1) and the register is 32 bits wide (its degree is 32).
-/
namespace KcpVerif.Crc32

theorem poly_bit31 : poly.getLsbD 31 = true := by decide

theorem xor_cancel_left (p x : BitVec 32) : p ^^^ (p ^^^ x) = x := by
  rw [← BitVec.xor_assoc, BitVec.xor_self, BitVec.zero_xor]

theorem xor_eq_self_iff (x y : BitVec 32) : x ^^^ y = x ↔ y = 0 := by
  constructor
  · intro h
    have : x ^^^ (x ^^^ y) = x ^^^ x := by rw [h]
    rwa [xor_cancel_left, BitVec.xor_self] at this
  · intro h; rw [h]; simp

/-! ### linearity -/

theorem step_xor (r1 r2 : BitVec 32) (b1 b2 : Bool) :
    step (r1 ^^^ r2) (b1 != b2) = step r1 b1 ^^^ step r2 b2 := by
  simp only [step, BitVec.getLsbD_xor, BitVec.ushiftRight_xor_distrib]
  generalize r1 >>> 1 = x
  generalize r2 >>> 1 = y
  generalize r1.getLsbD 0 = c1
  generalize r2.getLsbD 0 = c2
  generalize poly = p
  cases c1 <;> cases c2 <;> cases b1 <;> cases b2 <;> simp <;>
    (ext i hi; simp only [BitVec.getElem_xor]; cases x[i] <;> cases y[i] <;> cases p[i] <;> rfl)

theorem run_xor (a e : List Bool) (h : a.length = e.length) (r1 r2 : BitVec 32) :
    run (r1 ^^^ r2) (List.zipWith (· != ·) a e) = run r1 a ^^^ run r2 e := by
  induction a generalizing e r1 r2 with
  | nil => cases e with
    | nil => rfl
    | cons _ _ => simp at h
  | cons x xs ih => cases e with
    | nil => simp at h
    | cons y ys =>
      simp only [List.length_cons, Nat.add_right_cancel_iff] at h
      simp only [run, List.zipWith_cons_cons, List.foldl_cons]
      rw [step_xor]
      exact ih ys h _ _

theorem run_append (r : BitVec 32) (a b : List Bool) : run r (a ++ b) = run (run r a) b := by
  simp [run, List.foldl_append]

theorem update_eq_run (r : BitVec 32) (bs : List UInt8) : update r bs = run r (bitsOf bs) := by
  induction bs generalizing r with
  | nil => rfl
  | cons x xs ih =>
    simp only [update, List.foldl_cons, bitsOf, List.flatMap_cons] at ih ⊢
    rw [run_append]
    exact ih _

theorem bitsOfByte_length (x : UInt8) : (bitsOfByte x).length = 8 := rfl

theorem bitsOfByte_xor (x y : UInt8) :
    bitsOfByte (x ^^^ y) = List.zipWith (· != ·) (bitsOfByte x) (bitsOfByte y) := by
  simp only [bitsOfByte, UInt8.toNat_xor, Nat.testBit_xor, List.zipWith_cons_cons, List.zipWith_nil_left]

theorem bitsOf_length (a : List UInt8) : (bitsOf a).length = 8 * a.length := by
  induction a with
  | nil => rfl
  | cons x xs ih => simp only [bitsOf, List.flatMap_cons, List.length_append, List.length_cons] at ih ⊢; rw [ih, bitsOfByte_length]; omega

theorem bitsOf_xorBytes (a e : List UInt8) (h : a.length = e.length) :
    bitsOf (xorBytes a e) = List.zipWith (· != ·) (bitsOf a) (bitsOf e) := by
  induction a generalizing e with
  | nil => cases e with
    | nil => rfl
    | cons _ _ => simp at h
  | cons x xs ih => cases e with
    | nil => simp at h
    | cons y ys =>
      simp only [List.length_cons, Nat.add_right_cancel_iff] at h
      have := ih ys h
      simp only [xorBytes, bitsOf, List.zipWith_cons_cons, List.flatMap_cons] at this ⊢
      rw [List.zipWith_append (by simp [bitsOfByte_length]), this, bitsOfByte_xor]

/-- `crc (a ⊕ e) = crc a ⊕ crc₀ e` for equal lengths (`crc₀` = zero init, zero final XOR) -/
theorem crc32_xor (a e : List UInt8) (h : a.length = e.length) :
    crc32 (xorBytes a e) = crc32 a ^^^ update 0 e := by
  simp only [crc32, update_eq_run, bitsOf_xorBytes a e h]
  have := run_xor (bitsOf a) (bitsOf e) (by rw [bitsOf_length, bitsOf_length, h]) 0xFFFFFFFF#32 0#32
  rw [BitVec.xor_zero] at this
  rw [this]
  generalize run 0xFFFFFFFF#32 (bitsOf a) = u
  generalize run 0 (bitsOf e) = v
  generalize 0xFFFFFFFF#32 = f
  ext i hi
  simp only [BitVec.getElem_xor]
  cases u[i] <;> cases v[i] <;> cases f[i] <;> rfl

/-! ### zeros -/

theorem step_zero_false : step 0 false = 0 := by decide

theorem run_zero_of_all_false (l : List Bool) (h : ∀ b ∈ l, b = false) : run 0 l = 0 := by
  induction l with
  | nil => rfl
  | cons x xs ih =>
    have hx : x = false := h x (by simp)
    subst hx
    simp only [run, List.foldl_cons, step_zero_false]
    exact ih (fun b hb => h b (by simp [hb]))

theorem run_zero_replicate (n : Nat) : run 0 (List.replicate n false) = 0 :=
  run_zero_of_all_false _ (fun _ hb => (List.mem_replicate.mp hb).2)

/-- bit 31 of the register after a step is the feedback bit -/
theorem step_bit31 (r : BitVec 32) (b : Bool) : (step r b).getLsbD 31 = (r.getLsbD 0 != b) := by
  unfold step
  cases h : (r.getLsbD 0 != b)
  · simp only [Bool.false_eq_true, if_false]
    rw [BitVec.getLsbD_ushiftRight]
    exact BitVec.getLsbD_of_ge _ _ (by decide)
  · simp only [if_true]
    rw [BitVec.getLsbD_xor, poly_bit31, BitVec.getLsbD_ushiftRight, BitVec.getLsbD_of_ge _ _ (by decide)]
    rfl

theorem toNat_ge_of_bit31 (x : BitVec 32) (h : x.getLsbD 31 = true) : 2 ^ 31 ≤ x.toNat := by
  rw [← BitVec.testBit_toNat] at h
  exact Nat.ge_two_pow_of_testBit h

/-- if the register is below `2^t` (t ≤ 31) after a step, the feedback bit was 0 and the register
before was below `2^(t+1)` -/
theorem step_lt (r : BitVec 32) (b : Bool) (t : Nat) (ht : t ≤ 31) (h : (step r b).toNat < 2 ^ t) :
    (r.getLsbD 0 != b) = false ∧ r.toNat < 2 ^ (t + 1) := by
  have hfb : (r.getLsbD 0 != b) = false := by
    cases hf : (r.getLsbD 0 != b) with
    | false => rfl
    | true =>
      have := toNat_ge_of_bit31 _ ((step_bit31 r b).trans hf)
      have : 2 ^ t ≤ 2 ^ 31 := Nat.pow_le_pow_right (by decide) ht
      omega
  refine ⟨hfb, ?_⟩
  unfold step at h
  rw [hfb] at h
  simp only [Bool.false_eq_true, if_false, BitVec.toNat_ushiftRight, Nat.shiftRight_eq_div_pow, Nat.pow_one] at h
  rw [Nat.pow_succ]
  omega

/-- shifting in a zero bit never turns a non-zero register into zero -/
theorem step_false_ne_zero (r : BitVec 32) (h : r ≠ 0) : step r false ≠ 0 := by
  intro hz
  have hlt : (step r false).toNat < 2 ^ 0 := by rw [hz]; decide
  have := step_lt r false 0 (by decide) hlt
  have h0 : r.getLsbD 0 = false := by simpa using this.1
  have h1 : r.toNat < 2 := by simpa using this.2
  rw [← BitVec.testBit_toNat, Nat.testBit_zero] at h0
  have : r.toNat = 0 := by
    have : ¬ (r.toNat % 2 = 1) := by simpa using h0
    omega
  exact h (BitVec.eq_of_toNat_eq this)

theorem run_false_ne_zero (r : BitVec 32) (n : Nat) (h : r ≠ 0) : run r (List.replicate n false) ≠ 0 := by
  induction n generalizing r with
  | zero => simpa [run] using h
  | succ k ih =>
    simp only [run, List.replicate_succ, List.foldl_cons]
    exact ih _ (step_false_ne_zero r h)

/-! ### at most 32 bits from the zero register -/

/-- `m` message bits (given last-first) from register 0; if the result is below `2^t` with
`m + t ≤ 32` then every message bit was 0 -/
theorem run_zero_lt (rev : List Bool) (t : Nat) (hlen : rev.length + t ≤ 32)
    (h : (run 0 rev.reverse).toNat < 2 ^ t) : ∀ b ∈ rev, b = false := by
  induction rev generalizing t with
  | nil => intro b hb; cases hb
  | cons x xs ih =>
    simp only [List.length_cons] at hlen
    simp only [List.reverse_cons, run_append] at h
    have h' : (step (run 0 xs.reverse) x).toNat < 2 ^ t := by simpa [run] using h
    have hs := step_lt _ x t (by omega) h'
    have hxs := ih (t + 1) (by omega) hs.2
    have hr : run 0 xs.reverse = 0 := run_zero_of_all_false _ (fun b hb => hxs b (List.mem_reverse.mp hb))
    have hx : x = false := by
      have := hs.1
      rw [hr] at this
      simpa using this
    intro b hb
    cases hb with
    | head => exact hx
    | tail _ hb => exact hxs b hb

theorem run_zero_short (bits : List Bool) (hlen : bits.length ≤ 32) (hne : true ∈ bits) : run 0 bits ≠ 0 := by
  intro hz
  have h := run_zero_lt bits.reverse 0 (by simpa using hlen) (by rw [List.reverse_reverse, hz]; decide)
  have := h true (List.mem_reverse.mpr hne)
  cases this

/-- a burst of at most 32 bits, anywhere, has a non-zero linear CRC -/
theorem run_burst_ne_zero (i j : Nat) (burst : List Bool) (hb : burst.length ≤ 32) (hne : true ∈ burst) :
    run 0 (List.replicate i false ++ burst ++ List.replicate j false) ≠ 0 := by
  rw [run_append, run_append, run_zero_replicate]
  exact run_false_ne_zero _ _ (run_zero_short burst hb hne)

theorem crc32_burst (a e : List UInt8) (i j : Nat) (burst : List Bool)
    (hlen : a.length = e.length)
    (hbits : bitsOf e = List.replicate i false ++ burst ++ List.replicate j false)
    (hb : burst.length ≤ 32) (hne : true ∈ burst) :
    crc32 (xorBytes a e) ≠ crc32 a := by
  rw [crc32_xor a e hlen]
  intro h
  have := (xor_eq_self_iff _ _).mp h
  rw [update_eq_run, hbits] at this
  exact run_burst_ne_zero i j burst hb hne this

end KcpVerif.Crc32
