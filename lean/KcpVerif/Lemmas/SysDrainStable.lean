/-
Once every datagram on its way to A carries a non-zero window (`FreshBa`) and B's receive queue is never
full, that stays so, and a non-zero `rmt_wnd` at A stays non-zero (`rmt_keep_step`).
-/
import KcpVerif.Lemmas.SysDrainAdmit

namespace KcpVerif.SysC
open KcpVerif KcpVerif.Gen KcpVerif.Kcp KcpVerif.Live KcpVerif.Wire KcpVerif.SysW KcpVerif.Sys

/-- every datagram on its way to A consists of header-only frames with a non-zero window -/
def FreshBa (s : State) : Prop :=
  ∀ d ∈ s.ba, ∃ frs, d.data = encFrames frs ∧ (∀ fr ∈ frs, fr.data = []) ∧ ∀ fr ∈ frs, fr.wnd ≠ 0

theorem emitB_all (K : Kcp) (hsb : K.snd_buf = []) (hsq : K.snd_queue = []) (full : Bool) (now : U32)
    (hpan : (flush K full now).panic = false) :
    ∀ o ∈ (flush K full now).outs, ∃ g, o = encFrames g ∧ (∀ x ∈ g, x.data = []) ∧ ∀ x ∈ g, x.wnd = wndUnused K := by
  obtain ⟨gs, hgs, hfl⟩ := flush_frames K full now hpan
  intro o ho
  rw [hgs] at ho
  obtain ⟨g, hg, rfl⟩ := List.mem_map.mp ho
  refine ⟨g, rfl, ?_, ?_⟩
  · intro x hx
    have hx' : x ∈ flushFrs K full now := by rw [← hfl]; exact List.mem_flatten.mpr ⟨g, hg, hx⟩
    rw [(flush_empty K full now hsb hsq).1] at hx'
    rcases List.mem_append.mp hx' with h | h
    · exact (ackFrsOf_mem K x h).2.2.2.1
    · exact (probeFrs_mem K now x h).2.2.2
  · intro x hx
    exact flush_wnd_rcv K full now hsb hsq x (by rw [← hfl]; exact List.mem_flatten.mpr ⟨g, hg, hx⟩)

/-- everything B's `Input` emits carries a non-zero window when its queue is not full afterwards -/
theorem inB_outs {p : Par} {s : State} {t0 : Nat} {frs0 : List Frm} {grest gba : GLink}
    (h : Cons p s ((t0, frs0) :: grest) gba) (hnw : NoWrap p.base s)
    (hp : (s.B.input (encFrames frs0) true s.ndB (clk s.now)).panic = false)
    (hQ : (s.B.input (encFrames frs0) true s.ndB (clk s.now)).k.rcv_queue.length <
        (s.B.input (encFrames frs0) true s.ndB (clk s.now)).k.rcv_wnd.toNat ∧
      (s.B.input (encFrames frs0) true s.ndB (clk s.now)).k.rcv_wnd.toNat < 65536) :
    ∀ o ∈ (s.B.input (encFrames frs0) true s.ndB (clk s.now)).outs,
      ∃ g, o = encFrames g ∧ (∀ x ∈ g, x.data = []) ∧ ∀ x ∈ g, x.wnd ≠ 0 := by
  have hnw' := hnw
  unfold NoWrap at hnw'
  have hN : o p.base s.A.snd_nxt < 2 ^ 31 := by omega
  have hd0 : ((t0, frs0) : Nat × List Frm) ∈ (t0, frs0) :: grest := List.mem_cons_self ..
  have hv : ∀ fr ∈ frs0, FrValid s.B.conv fr := by
    intro fr hfr
    obtain ⟨e1, e2, _⟩ := h.fab (t0, frs0) hd0 fr hfr
    refine ⟨by rw [e1, h.bconv], ?_, e2.2⟩
    unfold Live.validCmd
    rcases e2.1 with e | e | e
    · exact Or.inl e
    · exact Or.inr (Or.inr (Or.inl e))
    · exact Or.inr (Or.inr (Or.inr e))
  obtain ⟨r1, r2, r3, r4, r5⟩ := inFrs_rcv_gen p.base (o p.base s.A.snd_nxt) hN frs0 { k := s.B } h.bsb
    (fun fr hfr => ⟨(h.fab (t0, frs0) hd0 fr hfr).2.1, (h.fab (t0, frs0) hd0 fr hfr).2.2⟩) h.bub h.bbuf rfl
  obtain ⟨cw, inc, hcw⟩ := cwndOnAck_shape' (inFrs true frs0 { k := s.B }).k s.B.snd_una
  rcases inputB_cases s.B frs0 s.ndB (clk s.now) hv r2 r3 r4 r5 with hin | hin | ⟨rfl, hin⟩
  · rw [hin]; intro o ho; simp at ho
  · rw [hin] at hp hQ ⊢
    have hsb : (cwndOnAck (inFrs true frs0 { k := s.B }).k s.B.snd_una).snd_buf = [] := by rw [hcw]; exact r1.sb
    have hsq : (cwndOnAck (inFrs true frs0 { k := s.B }).k s.B.snd_una).snd_queue = [] := by
      rw [hcw]; exact r1.sq.trans h.bsq
    obtain ⟨pw, tp, st, ss, cw', inc', hk⟩ := flush_frame (cwndOnAck (inFrs true frs0 { k := s.B }).k s.B.snd_una) false (clk s.now)
    have hQ' : (cwndOnAck (inFrs true frs0 { k := s.B }).k s.B.snd_una).rcv_queue.length <
        (cwndOnAck (inFrs true frs0 { k := s.B }).k s.B.snd_una).rcv_wnd.toNat ∧
        (cwndOnAck (inFrs true frs0 { k := s.B }).k s.B.snd_una).rcv_wnd.toNat < 65536 := by
      have := hQ
      simp only [hk] at this
      exact this
    intro o ho
    obtain ⟨g, e1, e2, e3⟩ := emitB_all _ hsb hsq false (clk s.now) hp o ho
    exact ⟨g, e1, e2, fun x hx => by rw [e3 x hx]; exact wndUnused_ne _ hQ'.1 hQ'.2⟩
  · rw [hin]; intro o ho; simp at ho

theorem freshBa_step {p : Par} {s : State} {gab gba : GLink} (h : Cons p s gab gba) (hnw : NoWrap p.base s)
    (hQ : QB s) (ev : Ev) (hQ' : QB (Sys.step s ev)) (hp' : (Sys.step s ev).panic = false) (hf : FreshBa s) :
    FreshBa (Sys.step s ev) := by
  have keep : ∀ s' : State, (∀ x ∈ s'.ba, x ∈ s.ba) → FreshBa s' := fun s' hsub d hd => hf d (hsub d hd)
  cases ev with
  | tick =>
    rw [show Sys.step s .tick = (if quiet s then { s with now := s.now + 1 } else s) from rfl]
    split
    · exact keep _ (fun x hx => hx)
    · exact hf
  | send b => exact keep _ (fun x hx => hx)
  | read =>
    rw [show Sys.step s .read = (if (s.B.recv s.B.peekSize.toNat).n < 0 then s
      else { s with B := (s.B.recv s.B.peekSize.toNat).k, got := s.got ++ (s.B.recv s.B.peekSize.toNat).data }) from rfl]
    split
    · exact hf
    · exact keep _ (fun x hx => hx)
  | flushA => exact keep _ (fun x hx => hx)
  | flushB =>
    obtain ⟨hpan, _, _, _⟩ := Total.flush_total h.bK true (clk s.now)
    intro d hd
    have hd' : d ∈ s.ba ++ stamp (s.now + s.D) (s.B.flush true (clk s.now)).outs := hd
    rcases List.mem_append.mp hd' with hd1 | hd1
    · exact hf d hd1
    · unfold stamp at hd1
      obtain ⟨o, ho, rfl⟩ := List.mem_map.mp hd1
      obtain ⟨g, e1, e2, e3⟩ := emitB_all s.B h.bsb h.bsq true (clk s.now) hpan o ho
      exact ⟨g, e1, e2, fun x hx => by rw [e3 x hx]; exact wndUnused_ne _ hQ.1 hQ.2⟩
  | dlvA =>
    cases hba : s.ba with
    | nil =>
      have : Sys.step s .dlvA = s := by simp only [Sys.step, hba]
      rw [this]; exact hf
    | cons d' rest =>
      rw [step_dlvA_cons s _ _ hba]
      split
      · exact keep _ (fun x hx => by rw [hba]; exact List.mem_cons_of_mem _ hx)
      · exact hf
  | dlvB =>
    cases gab with
    | nil =>
      have : Sys.step s .dlvB = s := by simp only [Sys.step, h.hab, encL, List.map_nil]
      rw [this]; exact hf
    | cons d0 grest =>
      obtain ⟨t0, frs0⟩ := d0
      have hab : s.ab = ⟨t0, encFrames frs0⟩ :: encL grest := h.hab
      rw [step_dlvB_cons s _ _ hab] at hQ' hp' ⊢
      by_cases hdue : t0 ≤ s.now
      · rw [if_pos hdue] at hQ' hp' ⊢
        have hpi : (s.B.input (encFrames frs0) true s.ndB (clk s.now)).panic = false := by
          have : (s.panic || (s.B.input (encFrames frs0) true s.ndB (clk s.now)).panic) = false := hp'
          rw [h.np] at this
          simpa using this
        have houts := inB_outs h hnw hpi hQ'
        intro d hd
        have hd' : d ∈ s.ba ++ stamp (s.now + s.D) (s.B.input (encFrames frs0) true s.ndB (clk s.now)).outs := hd
        rcases List.mem_append.mp hd' with hd1 | hd1
        · exact hf d hd1
        · unfold stamp at hd1
          obtain ⟨o, ho, rfl⟩ := List.mem_map.mp hd1
          exact houts o ho
      · rw [if_neg hdue]; exact hf

/-- A's `Input` of the head datagram keeps a non-zero `rmt_wnd` non-zero when the link is fresh -/
theorem rmt_inA {p : Par} {s : State} {t0 : Nat} {frs : List Frm} {gab grest : GLink}
    (h : Cons p s gab ((t0, frs) :: grest)) (hf : FreshBa s) (h0 : s.A.rmt_wnd ≠ 0) (k1 : Kcp)
    (hk1 : k1 = (inFrs true frs { k := s.A }).k ∨ ∃ rtt, k1 = updateAck (inFrs true frs { k := s.A }).k rtt) :
    (cwndOnAck k1 s.A.snd_una).rmt_wnd ≠ 0 := by
  have hd0 : ((t0, frs) : Nat × List Frm) ∈ (t0, frs) :: grest := List.mem_cons_self ..
  have hba : s.ba = ⟨t0, encFrames frs⟩ :: encL grest := h.hba
  obtain ⟨frs', e1, e2, e3⟩ := hf ⟨t0, encFrames frs⟩ (by rw [hba]; exact List.mem_cons_self ..)
  have hfe : frs' = frs := by
    apply encFrames_inj frs' frs
    · intro x hx; rw [e2 x hx]; simp
    · intro x hx; rw [(h.fba (t0, frs) hd0 x hx).2.1]; simp
    · exact e1.symm
  subst hfe
  rw [(inA_probe (inFrs true frs' { k := s.A }) k1 hk1 s.A.snd_una).2.2.2]
  exact inFrs_rmt_keep frs' _ e3 h0

theorem rmt_keep_step {p : Par} {s : State} {gab gba : GLink} (h : Cons p s gab gba) (hnw : NoWrap p.base s)
    (hf : FreshBa s) (h0 : s.A.rmt_wnd ≠ 0) (ev : Ev) : (Sys.step s ev).A.rmt_wnd ≠ 0 := by
  cases ev with
  | tick =>
    rw [show Sys.step s .tick = (if quiet s then { s with now := s.now + 1 } else s) from rfl]
    split <;> exact h0
  | send b =>
    have hq := Frame.send_k s.A b
    show (s.A.send b).k.rmt_wnd ≠ 0
    rw [hq]; exact h0
  | read =>
    rw [show Sys.step s .read = (if (s.B.recv s.B.peekSize.toNat).n < 0 then s
      else { s with B := (s.B.recv s.B.peekSize.toNat).k, got := s.got ++ (s.B.recv s.B.peekSize.toNat).data }) from rfl]
    split <;> exact h0
  | flushB => exact h0
  | flushA =>
    obtain ⟨pw, tp, st, ss, cw, inc, hk⟩ := flush_frame s.A true (clk s.now)
    show (s.A.flush true (clk s.now)).k.rmt_wnd ≠ 0
    rw [hk]; exact h0
  | dlvB =>
    cases hab : s.ab with
    | nil =>
      have : Sys.step s .dlvB = s := by simp only [Sys.step, hab]
      rw [this]; exact h0
    | cons d rest =>
      rw [step_dlvB_cons s _ _ hab]
      split <;> exact h0
  | dlvA =>
    cases gba with
    | nil =>
      have : Sys.step s .dlvA = s := by simp only [Sys.step, h.hba, encL, List.map_nil]
      rw [this]; exact h0
    | cons d0 grest =>
      obtain ⟨t0, frs⟩ := d0
      have hba : s.ba = ⟨t0, encFrames frs⟩ :: encL grest := h.hba
      rw [step_dlvA_cons s _ _ hba]
      split
      · by_cases hne : frs = []
        · subst hne
          simp only [input_empty]
          exact h0
        · obtain ⟨hv, hp, hr, _, _, _, _⟩ := cons_inA h hnw (inFrs true frs { k := s.A }).k (Or.inl rfl)
          obtain ⟨k1, hk1, himp⟩ := inputA_cases s.A frs s.ndA (clk s.now) hv hp hr
          obtain ⟨_, _, _, hal, _, _, hclean⟩ := cons_inA h hnw k1 hk1
          have hopen := rmt_inA h hf h0 k1 hk1
          rcases himp hal hclean.aK with hin | hin | ⟨hnil, _⟩
          · simp only [hin]; exact hopen
          · simp only [hin]
            obtain ⟨pw, tp, st, ss, cw, inc, hk⟩ := flush_frame (cwndOnAck k1 s.A.snd_una) true (clk s.now)
            show (flush (cwndOnAck k1 s.A.snd_una) true (clk s.now)).k.rmt_wnd ≠ 0
            rw [hk]; exact hopen
          · exact absurd hnil hne
      · exact h0

end KcpVerif.SysC
