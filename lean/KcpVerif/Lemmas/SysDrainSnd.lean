/-
General sender-side `Input` lemmas for the consistency invariant (C02/C03 Tier 2): what an ARBITRARY
genuine frame from the receiver (a stale or fresh `una`, an ACK for any segment the receiver has) does
to the send buffer: it stays contiguous and tagged, `snd_nxt` and the queue are untouched, only
segments the receiver has get flagged, and only such segments are released.
-/
import KcpVerif.Lemmas.SysDrainCons

namespace KcpVerif.SysC
open KcpVerif KcpVerif.Gen KcpVerif.Kcp KcpVerif.Live KcpVerif.Wire KcpVerif.SysW KcpVerif.Sys

/-- element-wise relation between a send buffer and what `parse_ack` / `parse_fastack` leave of it -/
def MarkRel (sn : U32) : List Seg → List Seg → Prop
  | [], [] => True
  | x :: l, x' :: l' =>
    (x'.sn = x.sn ∧ x'.conv = x.conv ∧ x'.cmd = x.cmd ∧ x'.data.length ≤ x.data.length ∧
      (x'.acked = true → x.acked = true ∨ x.sn = sn)) ∧ MarkRel sn l l'
  | _, _ => False

theorem MarkRel.refl (sn : U32) : ∀ l, MarkRel sn l l
  | [] => trivial
  | x :: l => ⟨⟨rfl, rfl, rfl, Nat.le_refl _, fun h => Or.inl h⟩, MarkRel.refl sn l⟩

theorem MarkRel.trans {sn : U32} : ∀ {a b c : List Seg}, MarkRel sn a b → MarkRel sn b c → MarkRel sn a c
  | [], [], [], _, _ => trivial
  | x :: a, y :: b, z :: c, h1, h2 =>
    ⟨⟨h2.1.1.trans h1.1.1, h2.1.2.1.trans h1.1.2.1, h2.1.2.2.1.trans h1.1.2.2.1,
      Nat.le_trans h2.1.2.2.2.1 h1.1.2.2.2.1, fun hz => by
        rcases h2.1.2.2.2.2 hz with h | h
        · exact h1.1.2.2.2.2 h
        · exact Or.inr (by rw [← h1.1.1]; exact h)⟩, MarkRel.trans h1.2 h2.2⟩
  | [], [], _ :: _, _, h2 => h2.elim
  | [], _ :: _, _, h1, _ => h1.elim
  | _ :: _, [], _, h1, _ => h1.elim
  | _ :: _, _ :: _, [], _, h2 => h2.elim

theorem MarkRel.facts {sn : U32} : ∀ {l l' : List Seg}, MarkRel sn l l' →
    l'.map (fun x => x.sn) = l.map (fun x => x.sn) ∧
    (∀ x' ∈ l', ∃ x ∈ l, x'.sn = x.sn ∧ x'.conv = x.conv ∧ x'.cmd = x.cmd ∧ (x'.acked = true → x.acked = true ∨ x.sn = sn))
  | [], [], _ => ⟨rfl, fun x hx => by simp at hx⟩
  | x :: l, x' :: l', h => by
    obtain ⟨i1, i2⟩ := MarkRel.facts h.2
    refine ⟨by simp only [List.map_cons, h.1.1, i1], fun y hy => ?_⟩
    rcases List.mem_cons.mp hy with rfl | hy
    · exact ⟨x, List.mem_cons_self .., h.1.1, h.1.2.1, h.1.2.2.1, h.1.2.2.2.2⟩
    · obtain ⟨z, hz, r⟩ := i2 y hy
      exact ⟨z, List.mem_cons_of_mem _ hz, r⟩
  | [], _ :: _, h => h.elim
  | _ :: _, [], h => h.elim

theorem ackLoop_rel (sn : U32) : ∀ l, MarkRel sn l (ackLoop sn l) := by
  intro l
  induction l with
  | nil => exact trivial
  | cons s rest ih =>
    unfold ackLoop
    split
    · rename_i h
      exact ⟨⟨rfl, rfl, rfl, by simp, fun _ => Or.inr h.symm⟩, MarkRel.refl sn rest⟩
    · split
      · exact MarkRel.refl sn _
      · exact ⟨⟨rfl, rfl, rfl, Nat.le_refl _, fun h => Or.inl h⟩, ih⟩

theorem fastLoop_rel (sn0 sn ts fr : U32) : ∀ l, MarkRel sn0 l (fastLoop sn ts fr l).buf := by
  intro l
  induction l with
  | nil => exact trivial
  | cons s rest ih =>
    unfold fastLoop
    split
    · exact MarkRel.refl sn0 _
    · split
      · exact ⟨⟨rfl, rfl, rfl, Nat.le_refl _, fun h => Or.inl h⟩, ih⟩
      · exact ⟨⟨rfl, rfl, rfl, Nat.le_refl _, fun h => Or.inl h⟩, ih⟩

theorem parseAck_rel (k : Kcp) (sn : U32) :
    ∃ b, parseAck k sn = { k with snd_buf := b } ∧ MarkRel sn k.snd_buf b := by
  unfold parseAck
  split
  · exact ⟨k.snd_buf, rfl, MarkRel.refl sn _⟩
  · exact ⟨_, rfl, ackLoop_rel sn _⟩

theorem parseFastack_rel (sn0 : U32) (k : Kcp) (sn ts : U32) :
    ∃ b, (parseFastack k sn ts).1 = { k with snd_buf := b } ∧ MarkRel sn0 k.snd_buf b := by
  unfold parseFastack
  split
  · exact ⟨k.snd_buf, rfl, MarkRel.refl sn0 _⟩
  · exact ⟨_, rfl, fastLoop_rel sn0 sn ts _ _⟩

end KcpVerif.SysC
