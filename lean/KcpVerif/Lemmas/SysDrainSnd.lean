/-
General sender-side `Input` lemmas for the consistency invariant (C02/C03 Tier 2): what an ARBITRARY
genuine frame from the receiver (a stale or fresh `una`, an ACK for any segment the receiver has) does
to the send buffer: it stays contiguous and tagged, `snd_nxt` and the queue are untouched, only
segments the receiver has get flagged, and only such segments are released.
-/
import KcpVerif.Lemmas.SysDrainCons

namespace KcpVerif.SysC
open KcpVerif KcpVerif.Gen KcpVerif.Kcp KcpVerif.Live KcpVerif.Wire KcpVerif.SysW KcpVerif.Sys

/-- element-wise relation between a send buffer and what `parse_ack` / `parse_fastack` leave of it -/
def MarkRel (sn : U32) : List Seg → List Seg → Prop
  | [], [] => True
  | x :: l, x' :: l' =>
    (x'.sn = x.sn ∧ x'.conv = x.conv ∧ x'.cmd = x.cmd ∧ x'.data.length ≤ x.data.length ∧
      (x'.acked = true → x.acked = true ∨ x.sn = sn)) ∧ MarkRel sn l l'
  | _, _ => False

theorem MarkRel.refl (sn : U32) : ∀ l, MarkRel sn l l
  | [] => trivial
  | x :: l => ⟨⟨rfl, rfl, rfl, Nat.le_refl _, fun h => Or.inl h⟩, MarkRel.refl sn l⟩

theorem MarkRel.trans {sn : U32} : ∀ {a b c : List Seg}, MarkRel sn a b → MarkRel sn b c → MarkRel sn a c
  | [], [], [], _, _ => trivial
  | x :: a, y :: b, z :: c, h1, h2 =>
    ⟨⟨h2.1.1.trans h1.1.1, h2.1.2.1.trans h1.1.2.1, h2.1.2.2.1.trans h1.1.2.2.1,
      Nat.le_trans h2.1.2.2.2.1 h1.1.2.2.2.1, fun hz => by
        rcases h2.1.2.2.2.2 hz with h | h
        · exact h1.1.2.2.2.2 h
        · exact Or.inr (by rw [← h1.1.1]; exact h)⟩, MarkRel.trans h1.2 h2.2⟩
  | [], [], _ :: _, _, h2 => h2.elim
  | [], _ :: _, _, h1, _ => h1.elim
  | _ :: _, [], _, h1, _ => h1.elim
  | _ :: _, _ :: _, [], _, h2 => h2.elim

theorem MarkRel.facts {sn : U32} : ∀ {l l' : List Seg}, MarkRel sn l l' →
    l'.map (fun x => x.sn) = l.map (fun x => x.sn) ∧
    (∀ x' ∈ l', ∃ x ∈ l, x'.sn = x.sn ∧ x'.conv = x.conv ∧ x'.cmd = x.cmd ∧ (x'.acked = true → x.acked = true ∨ x.sn = sn))
  | [], [], _ => ⟨rfl, fun x hx => by simp at hx⟩
  | x :: l, x' :: l', h => by
    obtain ⟨i1, i2⟩ := MarkRel.facts h.2
    refine ⟨by simp only [List.map_cons, h.1.1, i1], fun y hy => ?_⟩
    rcases List.mem_cons.mp hy with rfl | hy
    · exact ⟨x, List.mem_cons_self .., h.1.1, h.1.2.1, h.1.2.2.1, h.1.2.2.2.2⟩
    · obtain ⟨z, hz, r⟩ := i2 y hy
      exact ⟨z, List.mem_cons_of_mem _ hz, r⟩
  | [], _ :: _, h => h.elim
  | _ :: _, [], h => h.elim

theorem ackLoop_rel (sn : U32) : ∀ l, MarkRel sn l (ackLoop sn l) := by
  intro l
  induction l with
  | nil => exact trivial
  | cons s rest ih =>
    unfold ackLoop
    split
    · rename_i h
      exact ⟨⟨rfl, rfl, rfl, by simp, fun _ => Or.inr h.symm⟩, MarkRel.refl sn rest⟩
    · split
      · exact MarkRel.refl sn _
      · exact ⟨⟨rfl, rfl, rfl, Nat.le_refl _, fun h => Or.inl h⟩, ih⟩

theorem fastLoop_rel (sn0 sn ts fr : U32) : ∀ l, MarkRel sn0 l (fastLoop sn ts fr l).buf := by
  intro l
  induction l with
  | nil => exact trivial
  | cons s rest ih =>
    unfold fastLoop
    split
    · exact MarkRel.refl sn0 _
    · split
      · exact ⟨⟨rfl, rfl, rfl, Nat.le_refl _, fun h => Or.inl h⟩, ih⟩
      · exact ⟨⟨rfl, rfl, rfl, Nat.le_refl _, fun h => Or.inl h⟩, ih⟩

theorem parseAck_rel (k : Kcp) (sn : U32) :
    ∃ b, parseAck k sn = { k with snd_buf := b } ∧ MarkRel sn k.snd_buf b := by
  unfold parseAck
  split
  · exact ⟨k.snd_buf, rfl, MarkRel.refl sn _⟩
  · exact ⟨_, rfl, ackLoop_rel sn _⟩

theorem parseFastack_rel (sn0 : U32) (k : Kcp) (sn ts : U32) :
    ∃ b, (parseFastack k sn ts).1 = { k with snd_buf := b } ∧ MarkRel sn0 k.snd_buf b := by
  unfold parseFastack
  split
  · exact ⟨k.snd_buf, rfl, MarkRel.refl sn0 _⟩
  · exact ⟨_, rfl, fastLoop_rel sn0 sn ts _ _⟩

/-! ### `shrink_buf` (repaired: it discards the flagged heads) on a contiguous buffer -/

theorem dropAcked_drop : ∀ (l : List Seg), ∃ n, n ≤ l.length ∧ dropAcked l = l.drop n ∧ ∀ x ∈ l.take n, x.acked = true := by
  intro l
  induction l with
  | nil => exact ⟨0, Nat.le_refl _, rfl, fun x hx => by simp at hx⟩
  | cons s r ih =>
    by_cases h : s.acked = true
    · obtain ⟨n, hn, e, ha⟩ := ih
      refine ⟨n + 1, by simp; omega, by rw [dropAcked, if_pos h, e]; rfl, fun x hx => ?_⟩
      simp only [List.take_succ_cons, List.mem_cons] at hx
      rcases hx with rfl | hx
      · exact h
      · exact ha x hx
    · exact ⟨0, Nat.zero_le _, by rw [dropAcked, if_neg h]; rfl, fun x hx => by simp at hx⟩

/-- dropping `n` leading segments the receiver has, then `shrink_buf`: the buffer stays contiguous,
everything released is something the receiver has -/
theorem shrink_gen (base conv : U32) (hasP : U32 → Prop) (k : Kcp) (n : Nat) (hn : n ≤ k.snd_buf.length)
    (hc : Contig base k) (hN : o base k.snd_nxt < 2 ^ 31) (ht : BufTagged conv k.snd_buf)
    (hak : ∀ x ∈ k.snd_buf, x.acked = true → hasP x.sn) (hrel : ∀ sn, o base sn < o base k.snd_una → hasP sn)
    (hpre : ∀ x ∈ k.snd_buf.take n, hasP x.sn) :
    Contig base (shrinkBuf { k with snd_buf := k.snd_buf.drop n }) ∧
    BufTagged conv (shrinkBuf { k with snd_buf := k.snd_buf.drop n }).snd_buf ∧
    (∀ x ∈ (shrinkBuf { k with snd_buf := k.snd_buf.drop n }).snd_buf, x ∈ k.snd_buf) ∧
    (∀ sn, o base sn < o base (shrinkBuf { k with snd_buf := k.snd_buf.drop n }).snd_una → hasP sn) ∧
    o base k.snd_una ≤ o base (shrinkBuf { k with snd_buf := k.snd_buf.drop n }).snd_una ∧
    ∃ sb su, shrinkBuf { k with snd_buf := k.snd_buf.drop n } = { k with snd_buf := sb, snd_una := su } := by
  obtain ⟨n2, hn2, e2, ha2⟩ := dropAcked_drop (k.snd_buf.drop n)
  rw [List.length_drop] at hn2
  have eD : dropAcked (k.snd_buf.drop n) = k.snd_buf.drop (n + n2) := by rw [e2, List.drop_drop]
  have hm : n + n2 ≤ k.snd_buf.length := by omega
  have hall : ∀ x ∈ k.snd_buf.take (n + n2), hasP x.sn := by
    intro x hx
    rw [List.take_add] at hx
    rcases List.mem_append.mp hx with hx | hx
    · exact hpre x hx
    · exact hak x (List.mem_of_mem_drop (List.mem_of_mem_take hx)) (ha2 x hx)
  have hmapD : (k.snd_buf.drop (n + n2)).map (fun x => o base x.sn) =
      List.range' (o base k.snd_una + (n + n2)) (k.snd_buf.length - (n + n2)) := by
    rw [List.map_drop, hc.1, List.drop_range']; simp
  have hsu : o base (match k.snd_buf.drop (n + n2) with | s :: _ => s.sn | [] => k.snd_nxt) =
      o base k.snd_una + (n + n2) := by
    cases hd : k.snd_buf.drop (n + n2) with
    | nil =>
      simp only
      have hl := congrArg List.length hd
      simp only [List.length_drop, List.length_nil] at hl
      have := hc.2; omega
    | cons s t =>
      simp only
      rw [hd] at hmapD
      have hl := congrArg List.length hmapD
      simp only [List.map_cons, List.length_cons, List.length_range'] at hl
      have e : k.snd_buf.length - (n + n2) = (k.snd_buf.length - (n + n2) - 1) + 1 := by omega
      rw [e, List.map_cons, List.range'_succ, List.cons.injEq] at hmapD
      exact hmapD.1
  have hK : shrinkBuf { k with snd_buf := k.snd_buf.drop n } =
      { k with snd_buf := k.snd_buf.drop (n + n2),
               snd_una := match k.snd_buf.drop (n + n2) with | s :: _ => s.sn | [] => k.snd_nxt } := by
    rw [shrinkBuf_eq]
    simp only [eD]
    rfl
  rw [hK]
  refine ⟨⟨?_, ?_⟩, fun x hx => ht x (List.mem_of_mem_drop hx), fun x hx => List.mem_of_mem_drop hx, ?_, ?_, ⟨_, _, rfl⟩⟩
  · show (k.snd_buf.drop (n + n2)).map _ = List.range' (o base (match k.snd_buf.drop (n + n2) with
      | s :: _ => s.sn | [] => k.snd_nxt)) (k.snd_buf.drop (n + n2)).length
    rw [hsu, hmapD, List.length_drop]
  · show o base (match k.snd_buf.drop (n + n2) with | s :: _ => s.sn | [] => k.snd_nxt) +
      (k.snd_buf.drop (n + n2)).length = o base k.snd_nxt
    rw [hsu, List.length_drop]; have := hc.2; omega
  · show ∀ sn, o base sn < o base (match k.snd_buf.drop (n + n2) with | s :: _ => s.sn | [] => k.snd_nxt) → hasP sn
    rw [hsu]
    intro sn hsn
    by_cases hlt : o base sn < o base k.snd_una
    · exact hrel sn hlt
    · have hmem : o base sn ∈ (k.snd_buf.take (n + n2)).map (fun x => o base x.sn) := by
        rw [List.map_take, hc.1, List.take_range'_of_length_ge hm]
        exact List.mem_range'_1.mpr ⟨by omega, hsn⟩
      obtain ⟨x, hx, hxs⟩ := List.mem_map.mp hmem
      have := o_inj base _ _ hxs
      rw [← this]; exact hall x hx
  · show _ ≤ o base (match k.snd_buf.drop (n + n2) with | s :: _ => s.sn | [] => k.snd_nxt)
    rw [hsu]; omega

/-! ### one arbitrary genuine frame from the receiver, at the sender -/

/-- the sender's send side is consistent with what the receiver has (`hasP`) -/
structure SndOk (base conv : U32) (hasP : U32 → Prop) (k : Kcp) : Prop where
  con : Contig base k
  tag : BufTagged conv k.snd_buf
  akd : ∀ x ∈ k.snd_buf, x.acked = true → hasP x.sn
  rel : ∀ sn, o base sn < o base k.snd_una → hasP sn

/-- what the parse loop may change at the sender -/
def SndShape (k k' : Kcp) : Prop :=
  ∃ rw sb su pr, k' = { k with rmt_wnd := rw, snd_buf := sb, snd_una := su, probe := pr }

theorem SndShape.refl (k : Kcp) : SndShape k k := ⟨k.rmt_wnd, k.snd_buf, k.snd_una, k.probe, rfl⟩

theorem SndShape.trans {a b c : Kcp} (h1 : SndShape a b) (h2 : SndShape b c) : SndShape a c := by
  obtain ⟨r1, s1, u1, p1, e1⟩ := h1
  obtain ⟨r2, s2, u2, p2, e2⟩ := h2
  exact ⟨r2, s2, u2, p2, by rw [e2, e1]⟩

theorem Contig.mem {base : U32} {k : Kcp} (hc : Contig base k) {x : Seg} (hx : x ∈ k.snd_buf) :
    o base k.snd_una ≤ o base x.sn ∧ o base x.sn < o base k.snd_nxt := by
  have hm : o base x.sn ∈ k.snd_buf.map (fun x => o base x.sn) := List.mem_map.mpr ⟨x, hx, rfl⟩
  rw [hc.1] at hm
  have := List.mem_range'_1.mp hm
  have := hc.2
  omega

theorem unaCount_take (u : U32) : ∀ (l : List Seg), ∀ x ∈ l.take (unaCount u l), itimediff u x.sn > 0 := by
  intro l
  induction l with
  | nil => intro x hx; simp at hx
  | cons s r ih =>
    intro x hx
    unfold unaCount at hx
    split at hx
    · rename_i h
      simp only [List.take_succ_cons, List.mem_cons] at hx
      rcases hx with rfl | hx
      · exact h
      · exact ih x hx
    · simp at hx

theorem unaCount_le' (u : U32) : ∀ (l : List Seg), unaCount u l ≤ l.length := by
  intro l
  induction l with
  | nil => simp [unaCount]
  | cons s r ih => unfold unaCount; split <;> simp <;> omega

/-- marking does not disturb the consistency, provided the marked number is one the receiver has -/
theorem SndOk.mark {base conv : U32} {hasP : U32 → Prop} {k : Kcp} (h : SndOk base conv hasP k) {sn : U32} {b : List Seg}
    (hm : MarkRel sn k.snd_buf b) (hs : hasP sn) : SndOk base conv hasP { k with snd_buf := b } := by
  obtain ⟨f1, f2⟩ := hm.facts
  have hmap : b.map (fun x => o base x.sn) = k.snd_buf.map (fun x => o base x.sn) := by
    have := congrArg (List.map (o base)) f1
    simpa [List.map_map, Function.comp_def] using this
  have hlen : b.length = k.snd_buf.length := by
    have := congrArg List.length f1
    simpa using this
  refine ⟨⟨?_, ?_⟩, ?_, ?_, h.rel⟩
  · show b.map _ = List.range' (o base k.snd_una) b.length
    rw [hmap, hlen]; exact h.con.1
  · show o base k.snd_una + b.length = o base k.snd_nxt
    rw [hlen]; exact h.con.2
  · intro x' hx'
    obtain ⟨x, hx, e1, e2, e3, _⟩ := f2 x' hx'
    rw [e2, e3]; exact h.tag x hx
  · intro x' hx' ha
    obtain ⟨x, hx, e1, _, _, e4⟩ := f2 x' hx'
    rcases e4 ha with h1 | h1
    · rw [e1]; exact h.akd x hx h1
    · rw [e1, h1]; exact hs

theorem SndOk.shrink {base conv : U32} {hasP : U32 → Prop} {k : Kcp} (h : SndOk base conv hasP k)
    (hN : o base k.snd_nxt < 2 ^ 31) (n : Nat) (hn : n ≤ k.snd_buf.length) (hpre : ∀ x ∈ k.snd_buf.take n, hasP x.sn) :
    SndOk base conv hasP (shrinkBuf { k with snd_buf := k.snd_buf.drop n }) ∧
    o base k.snd_una ≤ o base (shrinkBuf { k with snd_buf := k.snd_buf.drop n }).snd_una ∧
    SndShape k (shrinkBuf { k with snd_buf := k.snd_buf.drop n }) := by
  obtain ⟨a1, a2, a3, a4, a5, sb, su, a6⟩ := shrink_gen base conv hasP k n hn h.con hN h.tag h.akd h.rel hpre
  exact ⟨⟨a1, a2, fun x hx ha => h.akd x (a3 x hx) ha, a4⟩, a5, ⟨k.rmt_wnd, sb, su, k.probe, a6⟩⟩

/-- **an arbitrary genuine ACK / WASK / WINS frame at the sender** (repaired model) -/
theorem inFr_snd_gen (base conv : U32) (hasP : U32 → Prop) (st : InLoop) (fr : Frm)
    (h : SndOk base conv hasP st.k) (hN : o base st.k.snd_nxt < 2 ^ 31)
    (hcmd : fr.cmd.toNat = IKCP_CMD_ACK ∨ fr.cmd.toNat = IKCP_CMD_WASK ∨ fr.cmd.toNat = IKCP_CMD_WINS)
    (hu : o base fr.una < 2 ^ 31) (huna : ∀ sn, o base sn < o base fr.una → hasP sn)
    (hack : fr.cmd.toNat = IKCP_CMD_ACK → hasP fr.sn) :
    SndOk base conv hasP (inFr true st fr).k ∧ SndShape st.k (inFr true st fr).k ∧
    o base st.k.snd_una ≤ o base (inFr true st fr).k.snd_una ∧
    (inFr true st fr).panic = st.panic ∧ (inFr true st fr).ret = st.ret := by
  -- the prologue: window, parse_una, shrink_buf
  have hK1 : SndOk base conv hasP { st.k with rmt_wnd := fr.wnd.setWidth 32 } := ⟨h.con, h.tag, h.akd, h.rel⟩
  have hpre : ∀ x ∈ st.k.snd_buf.take (unaCount fr.una st.k.snd_buf), hasP x.sn := by
    intro x hx
    have h1 := unaCount_take fr.una st.k.snd_buf x hx
    have h2 := h.con.mem (List.mem_of_mem_take hx)
    have := itd base fr.una x.sn hu (by omega)
    exact huna x.sn (by omega)
  obtain ⟨p1, p2, p3⟩ := hK1.shrink hN (unaCount fr.una st.k.snd_buf) (unaCount_le' _ _) hpre
  have hP : inPre true fr.wnd fr.una st.k =
      shrinkBuf { ({ st.k with rmt_wnd := fr.wnd.setWidth 32 } : Kcp) with
        snd_buf := st.k.snd_buf.drop (unaCount fr.una st.k.snd_buf) } := rfl
  rw [← hP] at p1 p2 p3
  have p2 : o base st.k.snd_una ≤ o base (inPre true fr.wnd fr.una st.k).snd_una := p2
  have hshape0 : SndShape st.k (inPre true fr.wnd fr.una st.k) := by
    obtain ⟨r, sb, su, pr, e⟩ := p3
    exact ⟨r, sb, su, pr, by rw [e]⟩
  have hNP : o base (inPre true fr.wnd fr.una st.k).snd_nxt < 2 ^ 31 := by
    obtain ⟨r, sb, su, pr, e⟩ := hshape0
    rw [e]; exact hN
  have hpr : (inFr true st fr).panic = st.panic ∧ (inFr true st fr).ret = st.ret := by
    unfold inFr
    rw [inStep_eq]
    by_cases hA : fr.cmd.toNat = IKCP_CMD_ACK
    · rw [if_pos hA]; exact ⟨rfl, rfl⟩
    · rw [if_neg hA]
      have hP' : ¬ fr.cmd.toNat = IKCP_CMD_PUSH := by
        unfold IKCP_CMD_PUSH; unfold IKCP_CMD_ACK IKCP_CMD_WASK IKCP_CMD_WINS at hcmd; omega
      rw [if_neg hP']
      split <;> exact ⟨rfl, rfl⟩
  have hk : (inFr true st fr).k =
      if fr.cmd.toNat = IKCP_CMD_ACK then
        (parseFastack (shrinkBuf (parseAck (inPre true fr.wnd fr.una st.k) fr.sn)) fr.sn fr.ts).1
      else if fr.cmd.toNat = IKCP_CMD_WASK then
        { inPre true fr.wnd fr.una st.k with probe := (inPre true fr.wnd fr.una st.k).probe ||| u32 IKCP_ASK_TELL }
      else inPre true fr.wnd fr.una st.k := by
    unfold inFr
    rw [inStep_k]
    by_cases hA : fr.cmd.toNat = IKCP_CMD_ACK
    · rw [if_pos hA, if_pos hA]
    · have hP' : ¬ fr.cmd.toNat = IKCP_CMD_PUSH := by
        unfold IKCP_CMD_PUSH; unfold IKCP_CMD_ACK IKCP_CMD_WASK IKCP_CMD_WINS at hcmd; omega
      rw [if_neg hA, if_neg hP', if_neg hA]
  rw [hk]
  generalize inPre true fr.wnd fr.una st.k = P at p1 p2 hshape0 hNP
  by_cases hA : fr.cmd.toNat = IKCP_CMD_ACK
  · rw [if_pos hA]
    obtain ⟨b, eb, mb⟩ := parseAck_rel P fr.sn
    have q1 : SndOk base conv hasP { P with snd_buf := b } := p1.mark mb (hack hA)
    have hNb : o base ({ P with snd_buf := b } : Kcp).snd_nxt < 2 ^ 31 := hNP
    obtain ⟨s1, s2, s3⟩ := q1.shrink hNb 0 (Nat.zero_le _) (fun x hx => by simp at hx)
    have e0 : shrinkBuf { ({ P with snd_buf := b } : Kcp) with snd_buf := ({ P with snd_buf := b } : Kcp).snd_buf.drop 0 } =
        shrinkBuf (parseAck P fr.sn) := by rw [eb]; rfl
    rw [e0] at s1 s2 s3
    obtain ⟨b2, eb2, mb2⟩ := parseFastack_rel fr.sn (shrinkBuf (parseAck P fr.sn)) fr.sn fr.ts
    rw [eb2]
    refine ⟨s1.mark mb2 (hack hA), ?_, ?_, hpr.1, hpr.2⟩
    · have hs1 : SndShape P { P with snd_buf := b } := ⟨P.rmt_wnd, b, P.snd_una, P.probe, rfl⟩
      have hs2 : SndShape (shrinkBuf (parseAck P fr.sn)) { shrinkBuf (parseAck P fr.sn) with snd_buf := b2 } :=
        ⟨_, b2, _, _, rfl⟩
      exact ((hshape0.trans hs1).trans s3).trans hs2
    · show _ ≤ o base (shrinkBuf (parseAck P fr.sn)).snd_una
      have : o base P.snd_una ≤ o base (shrinkBuf (parseAck P fr.sn)).snd_una := s2
      omega
  · rw [if_neg hA]
    split
    · exact ⟨⟨p1.con, p1.tag, p1.akd, p1.rel⟩, hshape0.trans ⟨P.rmt_wnd, P.snd_buf, P.snd_una, _, rfl⟩, p2, hpr.1, hpr.2⟩
    · exact ⟨p1, hshape0, p2, hpr.1, hpr.2⟩

/-- **a whole datagram of arbitrary genuine frames from the receiver** -/
theorem inFrs_snd_gen (base conv : U32) (hasP : U32 → Prop) (frs : List Frm) : ∀ (st : InLoop),
    SndOk base conv hasP st.k → o base st.k.snd_nxt < 2 ^ 31 → st.panic = false →
    (∀ fr ∈ frs, (fr.cmd.toNat = IKCP_CMD_ACK ∨ fr.cmd.toNat = IKCP_CMD_WASK ∨ fr.cmd.toNat = IKCP_CMD_WINS) ∧
      o base fr.una < 2 ^ 31 ∧ (∀ sn, o base sn < o base fr.una → hasP sn) ∧
      (fr.cmd.toNat = IKCP_CMD_ACK → hasP fr.sn)) →
    SndOk base conv hasP (inFrs true frs st).k ∧ SndShape st.k (inFrs true frs st).k ∧
    o base st.k.snd_una ≤ o base (inFrs true frs st).k.snd_una ∧
    (inFrs true frs st).panic = false ∧ (inFrs true frs st).ret = st.ret := by
  induction frs with
  | nil => intro st h _ hp _; exact ⟨h, SndShape.refl _, Nat.le_refl _, hp, rfl⟩
  | cons fr rest ih =>
    intro st h hN hp hall
    obtain ⟨c1, c2, c3, c4⟩ := hall fr (List.mem_cons_self ..)
    obtain ⟨a1, a2, a3, a4, a5⟩ := inFr_snd_gen base conv hasP st fr h hN c1 c2 c3 c4
    have hN' : o base (inFr true st fr).k.snd_nxt < 2 ^ 31 := by
      obtain ⟨r, sb, su, pr, e⟩ := a2
      rw [e]; exact hN
    unfold inFrs
    rw [if_neg (by rw [a4, hp]; simp)]
    obtain ⟨b1, b2, b3, b4, b5⟩ := ih (inFr true st fr) a1 hN' (by rw [a4]; exact hp)
      (fun x hx => hall x (List.mem_cons_of_mem _ hx))
    exact ⟨b1, a2.trans b2, Nat.le_trans a3 b3, b4, b5.trans a5⟩

end KcpVerif.SysC
