/-
General sender-side `Input` lemmas for the consistency invariant (C02/C03 Tier 2): what an ARBITRARY
genuine frame from the receiver (a stale or fresh `una`, an ACK for any segment the receiver has) does
to the send buffer: it stays contiguous and tagged, `snd_nxt` and the queue are untouched, only
segments the receiver has get flagged, and only such segments are released.
-/
import KcpVerif.Lemmas.SysDrainCons

namespace KcpVerif.SysC
open KcpVerif KcpVerif.Gen KcpVerif.Kcp KcpVerif.Live KcpVerif.Wire KcpVerif.SysW KcpVerif.Sys

/-- element-wise relation between a send buffer and what `parse_ack` / `parse_fastack` leave of it -/
def MarkRel (sn : U32) : List Seg → List Seg → Prop
  | [], [] => True
  | x :: l, x' :: l' =>
    (x'.sn = x.sn ∧ x'.conv = x.conv ∧ x'.cmd = x.cmd ∧ x'.data.length ≤ x.data.length ∧
      (x'.acked = true → x.acked = true ∨ x.sn = sn)) ∧ MarkRel sn l l'
  | _, _ => False

theorem MarkRel.refl (sn : U32) : ∀ l, MarkRel sn l l
  | [] => trivial
  | x :: l => ⟨⟨rfl, rfl, rfl, Nat.le_refl _, fun h => Or.inl h⟩, MarkRel.refl sn l⟩

theorem MarkRel.trans {sn : U32} : ∀ {a b c : List Seg}, MarkRel sn a b → MarkRel sn b c → MarkRel sn a c
  | [], [], [], _, _ => trivial
  | x :: a, y :: b, z :: c, h1, h2 =>
    ⟨⟨h2.1.1.trans h1.1.1, h2.1.2.1.trans h1.1.2.1, h2.1.2.2.1.trans h1.1.2.2.1,
      Nat.le_trans h2.1.2.2.2.1 h1.1.2.2.2.1, fun hz => by
        rcases h2.1.2.2.2.2 hz with h | h
        · exact h1.1.2.2.2.2 h
        · exact Or.inr (by rw [← h1.1.1]; exact h)⟩, MarkRel.trans h1.2 h2.2⟩
  | [], [], _ :: _, _, h2 => h2.elim
  | [], _ :: _, _, h1, _ => h1.elim
  | _ :: _, [], _, h1, _ => h1.elim
  | _ :: _, _ :: _, [], _, h2 => h2.elim

theorem MarkRel.facts {sn : U32} : ∀ {l l' : List Seg}, MarkRel sn l l' →
    l'.map (fun x => x.sn) = l.map (fun x => x.sn) ∧
    (∀ x' ∈ l', ∃ x ∈ l, x'.sn = x.sn ∧ x'.conv = x.conv ∧ x'.cmd = x.cmd ∧ (x'.acked = true → x.acked = true ∨ x.sn = sn))
  | [], [], _ => ⟨rfl, fun x hx => by simp at hx⟩
  | x :: l, x' :: l', h => by
    obtain ⟨i1, i2⟩ := MarkRel.facts h.2
    refine ⟨by simp only [List.map_cons, h.1.1, i1], fun y hy => ?_⟩
    rcases List.mem_cons.mp hy with rfl | hy
    · exact ⟨x, List.mem_cons_self .., h.1.1, h.1.2.1, h.1.2.2.1, h.1.2.2.2.2⟩
    · obtain ⟨z, hz, r⟩ := i2 y hy
      exact ⟨z, List.mem_cons_of_mem _ hz, r⟩
  | [], _ :: _, h => h.elim
  | _ :: _, [], h => h.elim

theorem ackLoop_rel (sn : U32) : ∀ l, MarkRel sn l (ackLoop sn l) := by
  intro l
  induction l with
  | nil => exact trivial
  | cons s rest ih =>
    unfold ackLoop
    split
    · rename_i h
      exact ⟨⟨rfl, rfl, rfl, by simp, fun _ => Or.inr h.symm⟩, MarkRel.refl sn rest⟩
    · split
      · exact MarkRel.refl sn _
      · exact ⟨⟨rfl, rfl, rfl, Nat.le_refl _, fun h => Or.inl h⟩, ih⟩

theorem fastLoop_rel (sn0 sn ts fr : U32) : ∀ l, MarkRel sn0 l (fastLoop sn ts fr l).buf := by
  intro l
  induction l with
  | nil => exact trivial
  | cons s rest ih =>
    unfold fastLoop
    split
    · exact MarkRel.refl sn0 _
    · split
      · exact ⟨⟨rfl, rfl, rfl, Nat.le_refl _, fun h => Or.inl h⟩, ih⟩
      · exact ⟨⟨rfl, rfl, rfl, Nat.le_refl _, fun h => Or.inl h⟩, ih⟩

theorem parseAck_rel (k : Kcp) (sn : U32) :
    ∃ b, parseAck k sn = { k with snd_buf := b } ∧ MarkRel sn k.snd_buf b := by
  unfold parseAck
  split
  · exact ⟨k.snd_buf, rfl, MarkRel.refl sn _⟩
  · exact ⟨_, rfl, ackLoop_rel sn _⟩

theorem parseFastack_rel (sn0 : U32) (k : Kcp) (sn ts : U32) :
    ∃ b, (parseFastack k sn ts).1 = { k with snd_buf := b } ∧ MarkRel sn0 k.snd_buf b := by
  unfold parseFastack
  split
  · exact ⟨k.snd_buf, rfl, MarkRel.refl sn0 _⟩
  · exact ⟨_, rfl, fastLoop_rel sn0 sn ts _ _⟩

/-! ### `shrink_buf` (repaired: it discards the flagged heads) on a contiguous buffer -/

theorem dropAcked_drop : ∀ (l : List Seg), ∃ n, n ≤ l.length ∧ dropAcked l = l.drop n ∧ ∀ x ∈ l.take n, x.acked = true := by
  intro l
  induction l with
  | nil => exact ⟨0, Nat.le_refl _, rfl, fun x hx => by simp at hx⟩
  | cons s r ih =>
    by_cases h : s.acked = true
    · obtain ⟨n, hn, e, ha⟩ := ih
      refine ⟨n + 1, by simp; omega, by rw [dropAcked, if_pos h, e]; rfl, fun x hx => ?_⟩
      simp only [List.take_succ_cons, List.mem_cons] at hx
      rcases hx with rfl | hx
      · exact h
      · exact ha x hx
    · exact ⟨0, Nat.zero_le _, by rw [dropAcked, if_neg h]; rfl, fun x hx => by simp at hx⟩

/-- dropping `n` leading segments the receiver has, then `shrink_buf`: the buffer stays contiguous,
everything released is something the receiver has -/
theorem shrink_gen (base conv : U32) (hasP : U32 → Prop) (k : Kcp) (n : Nat) (hn : n ≤ k.snd_buf.length)
    (hc : Contig base k) (hN : o base k.snd_nxt < 2 ^ 31) (ht : BufTagged conv k.snd_buf)
    (hak : ∀ x ∈ k.snd_buf, x.acked = true → hasP x.sn) (hrel : ∀ sn, o base sn < o base k.snd_una → hasP sn)
    (hpre : ∀ x ∈ k.snd_buf.take n, hasP x.sn) :
    Contig base (shrinkBuf { k with snd_buf := k.snd_buf.drop n }) ∧
    BufTagged conv (shrinkBuf { k with snd_buf := k.snd_buf.drop n }).snd_buf ∧
    (∀ x ∈ (shrinkBuf { k with snd_buf := k.snd_buf.drop n }).snd_buf, x ∈ k.snd_buf) ∧
    (∀ sn, o base sn < o base (shrinkBuf { k with snd_buf := k.snd_buf.drop n }).snd_una → hasP sn) ∧
    o base k.snd_una ≤ o base (shrinkBuf { k with snd_buf := k.snd_buf.drop n }).snd_una ∧
    ∃ sb su, shrinkBuf { k with snd_buf := k.snd_buf.drop n } = { k with snd_buf := sb, snd_una := su } := by
  obtain ⟨n2, hn2, e2, ha2⟩ := dropAcked_drop (k.snd_buf.drop n)
  rw [List.length_drop] at hn2
  have eD : dropAcked (k.snd_buf.drop n) = k.snd_buf.drop (n + n2) := by rw [e2, List.drop_drop]
  have hm : n + n2 ≤ k.snd_buf.length := by omega
  have hall : ∀ x ∈ k.snd_buf.take (n + n2), hasP x.sn := by
    intro x hx
    rw [List.take_add] at hx
    rcases List.mem_append.mp hx with hx | hx
    · exact hpre x hx
    · exact hak x (List.mem_of_mem_drop (List.mem_of_mem_take hx)) (ha2 x hx)
  have hmapD : (k.snd_buf.drop (n + n2)).map (fun x => o base x.sn) =
      List.range' (o base k.snd_una + (n + n2)) (k.snd_buf.length - (n + n2)) := by
    rw [List.map_drop, hc.1, List.drop_range']; simp
  have hsu : o base (match k.snd_buf.drop (n + n2) with | s :: _ => s.sn | [] => k.snd_nxt) =
      o base k.snd_una + (n + n2) := by
    cases hd : k.snd_buf.drop (n + n2) with
    | nil =>
      simp only
      have hl := congrArg List.length hd
      simp only [List.length_drop, List.length_nil] at hl
      have := hc.2; omega
    | cons s t =>
      simp only
      rw [hd] at hmapD
      have hl := congrArg List.length hmapD
      simp only [List.map_cons, List.length_cons, List.length_range'] at hl
      have e : k.snd_buf.length - (n + n2) = (k.snd_buf.length - (n + n2) - 1) + 1 := by omega
      rw [e, List.map_cons, List.range'_succ, List.cons.injEq] at hmapD
      exact hmapD.1
  have hK : shrinkBuf { k with snd_buf := k.snd_buf.drop n } =
      { k with snd_buf := k.snd_buf.drop (n + n2),
               snd_una := match k.snd_buf.drop (n + n2) with | s :: _ => s.sn | [] => k.snd_nxt } := by
    rw [shrinkBuf_eq]
    simp only [eD]
    rfl
  rw [hK]
  refine ⟨⟨?_, ?_⟩, fun x hx => ht x (List.mem_of_mem_drop hx), fun x hx => List.mem_of_mem_drop hx, ?_, ?_, ⟨_, _, rfl⟩⟩
  · show (k.snd_buf.drop (n + n2)).map _ = List.range' (o base (match k.snd_buf.drop (n + n2) with
      | s :: _ => s.sn | [] => k.snd_nxt)) (k.snd_buf.drop (n + n2)).length
    rw [hsu, hmapD, List.length_drop]
  · show o base (match k.snd_buf.drop (n + n2) with | s :: _ => s.sn | [] => k.snd_nxt) +
      (k.snd_buf.drop (n + n2)).length = o base k.snd_nxt
    rw [hsu, List.length_drop]; have := hc.2; omega
  · show ∀ sn, o base sn < o base (match k.snd_buf.drop (n + n2) with | s :: _ => s.sn | [] => k.snd_nxt) → hasP sn
    rw [hsu]
    intro sn hsn
    by_cases hlt : o base sn < o base k.snd_una
    · exact hrel sn hlt
    · have hmem : o base sn ∈ (k.snd_buf.take (n + n2)).map (fun x => o base x.sn) := by
        rw [List.map_take, hc.1, List.take_range'_of_length_ge hm]
        exact List.mem_range'_1.mpr ⟨by omega, hsn⟩
      obtain ⟨x, hx, hxs⟩ := List.mem_map.mp hmem
      have := o_inj base _ _ hxs
      rw [← this]; exact hall x hx
  · show _ ≤ o base (match k.snd_buf.drop (n + n2) with | s :: _ => s.sn | [] => k.snd_nxt)
    rw [hsu]; omega

end KcpVerif.SysC
