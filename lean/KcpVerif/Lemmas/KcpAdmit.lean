/-
C04 (backpressure): the admission rule of phase 4 of `flush`, and the congestion-window facts
(collapse to 1 on a retransmission timeout, floor 1, cap at the remote window).
Core Lean only.
-/
import KcpVerif.Lemmas.KcpWindow

namespace KcpVerif.Kcp
open KcpVerif KcpVerif.Gen

/-! ### admission -/

/-- Phase 4, segment by segment: a queued segment receives the sequence number `nxt` only in the
branch where the window test `itimediff nxt (una + cwnd) < 0` succeeded. -/
theorem admitSegs_cons (conv una cwnd now : U32) (s : Seg) (rest buf : List Seg) (nxt : U32) (c : Nat) :
    admitSegs conv una cwnd now (s :: rest) buf nxt c =
      if itimediff nxt (una + cwnd) ≥ 0 then ⟨s :: rest, buf, nxt, c⟩
      else admitSegs conv una cwnd now rest
        (buf ++ [{ s with conv := conv, cmd := BitVec.ofNat 8 IKCP_CMD_PUSH, sn := nxt, ts := now, resendts := now }])
        (nxt + 1) (c + 1) := rfl

/-- under the send invariant the window test is the unsigned comparison "in flight < cwnd" -/
theorem admit_guard_bv {una nxt wnd cwnd : U32} {buf : List Seg} (h : SndOK una nxt wnd buf)
    (hcw : cwnd.toNat ≤ wnd.toNat) : ¬ (itimediff nxt (una + cwnd) ≥ 0) ↔ (nxt - una) < cwnd := by
  rw [admit_guard h hcw]
  have := h.inflight
  constructor
  · intro hlt; bv_omega
  · intro hlt; bv_omega

/-- what phase 4 does, as a whole: it appends a list `new` of segments to `snd_buf`, takes them from
the front of `snd_queue`, numbers them `nxt, nxt+1, …`, and EVERY one of them was admitted while the
in-flight count `sn - una` (its own sequence number minus `snd_una`: it is the next one) was below the
effective window `cwnd`. -/
theorem admitSegs_spec (conv una cwnd now wnd : U32) (hcw : cwnd.toNat ≤ wnd.toNat)
    (q buf : List Seg) (nxt : U32) (c : Nat) (h : SndOK una nxt wnd buf) :
    ∃ new : List Seg,
      (admitSegs conv una cwnd now q buf nxt c).buf = buf ++ new ∧
      (admitSegs conv una cwnd now q buf nxt c).queue = q.drop new.length ∧
      (admitSegs conv una cwnd now q buf nxt c).nxt = nxt + BitVec.ofNat 32 new.length ∧
      (admitSegs conv una cwnd now q buf nxt c).count = c + new.length ∧
      new.length ≤ q.length ∧
      ∀ s ∈ new, (nxt - una) ≤ (s.sn - una) ∧ (s.sn - una) < cwnd := by
  induction q generalizing buf nxt c with
  | nil => exact ⟨[], by simp [admitSegs], rfl, by simp [admitSegs], rfl, Nat.le_refl _, fun _ hm => absurd hm List.not_mem_nil⟩
  | cons s rest ih =>
    rw [admitSegs_cons]
    split
    · exact ⟨[], by simp, rfl, by simp, rfl, Nat.zero_le _, fun _ hm => absurd hm List.not_mem_nil⟩
    · rename_i hg
      have hlt := (admit_guard h hcw).1 hg
      have hbv := (admit_guard_bv h hcw).1 hg
      have h' : SndOK una (nxt + 1) wnd
          (buf ++ [{ s with conv := conv, cmd := BitVec.ofNat 8 IKCP_CMD_PUSH, sn := nxt, ts := now, resendts := now }]) := by
        refine ⟨h.small, consec_append _ _ _ h.consec h.nxt_eq, ?_, ?_⟩
        · rw [h.nxt_eq]; simp only [List.length_append, List.length_cons, List.length_nil]; bv_omega
        · simp only [List.length_append, List.length_cons, List.length_nil]; omega
      obtain ⟨new, e1, e2, e3, e4, e5, e6⟩ := ih _ (nxt + 1) (c + 1) h'
      refine ⟨{ s with conv := conv, cmd := BitVec.ofNat 8 IKCP_CMD_PUSH, sn := nxt, ts := now, resendts := now } :: new,
        ?_, ?_, ?_, ?_, ?_, ?_⟩
      · rw [e1]; simp
      · rw [e2]; simp
      · rw [e3]; simp only [List.length_cons]; bv_omega
      · rw [e4]; simp only [List.length_cons]; omega
      · simp only [List.length_cons]; omega
      · intro x hx
        rcases List.mem_cons.1 hx with rfl | hx
        · exact ⟨BitVec.le_refl _, hbv⟩
        · have := e6 x hx
          have hi := h.inflight; have hi' := h'.inflight
          have hsm := h.small; have hle := h'.len_le
          simp only [List.length_append, List.length_cons, List.length_nil] at hi' hle
          refine ⟨?_, this.2⟩
          have := this.1
          bv_omega

/-- membership in the effective window, spelled out -/
theorem lt_effCwnd_iff (k : Kcp) (x : U32) :
    x < effCwnd k ↔ x < k.snd_wnd ∧ x < k.rmt_wnd ∧ (k.nocwnd = 0 → x < k.cwnd) := by
  unfold effCwnd cw0
  by_cases hn : k.nocwnd = 0
  · simp only [hn, ↓reduceIte, true_implies]
    split <;> split <;> constructor <;> intro h <;> (try refine ⟨?_, ?_, ?_⟩) <;> bv_omega
  · simp only [hn, ↓reduceIte, false_implies, and_true]
    split <;> constructor <;> intro h <;> (try refine ⟨?_, ?_⟩) <;> bv_omega

/-- the admission rule for a whole `flush` from any state satisfying the window invariant:
the sequence numbers in `snd_buf` afterwards are the old ones followed by `new`, and every new number
was assigned while the in-flight count `sn - snd_una` was `< snd_wnd`, `< rmt_wnd` and, with congestion
control on (`nocwnd = 0`), `< cwnd`. -/
theorem flush_admission (k : Kcp) (full : Bool) (now : U32) (h : Inv k) :
    ∃ new : List U32,
      (flush k full now).k.snd_buf.map (·.sn) = k.snd_buf.map (·.sn) ++ new ∧
      (flush k full now).k.snd_nxt = k.snd_nxt + BitVec.ofNat 32 new.length ∧
      (flush k full now).k.snd_queue = k.snd_queue.drop new.length ∧
      (flush k full now).k.snd_una = k.snd_una ∧
      ∀ sn ∈ new, (k.snd_nxt - k.snd_una) ≤ (sn - k.snd_una) ∧
        (sn - k.snd_una) < k.snd_wnd ∧ (sn - k.snd_una) < k.rmt_wnd ∧ (k.nocwnd = 0 → (sn - k.snd_una) < k.cwnd) := by
  obtain ⟨pw, tp, st, ss, cw, inc, done, hk, hd⟩ := flush_k k full now
  obtain ⟨new, e1, e2, e3, _, _, e6⟩ :=
    admitSegs_spec k.conv k.snd_una (effCwnd k) now k.snd_wnd (effCwnd_le k) k.snd_queue k.snd_buf k.snd_nxt 0 h.snd
  refine ⟨new.map (·.sn), ?_, ?_, ?_, ?_, ?_⟩
  · rw [hk]; show done.map (·.sn) = _
    rw [hd]; unfold flushAd; rw [e1, List.map_append]
  · rw [hk]; show (flushAd k now).nxt = _
    unfold flushAd; rw [e3, List.length_map]
  · rw [hk]; show (flushAd k now).queue = _
    unfold flushAd; rw [e2, List.length_map]
  · rw [hk]
  · intro sn hm
    obtain ⟨s, hs, rfl⟩ := List.mem_map.1 hm
    have := e6 s hs
    exact ⟨this.1, (lt_effCwnd_iff k _).1 this.2⟩

/-- backpressure: with the window full nothing is admitted — `snd_nxt` and `snd_queue` stay put -/
theorem flush_window_full (k : Kcp) (full : Bool) (now : U32) (h : Inv k)
    (hfull : ¬ (k.snd_nxt - k.snd_una) < effCwnd k) :
    (flush k full now).k.snd_nxt = k.snd_nxt ∧ (flush k full now).k.snd_queue = k.snd_queue ∧
    (flush k full now).k.snd_buf.length = k.snd_buf.length := by
  obtain ⟨new, e1, e2, e3, _, e5⟩ := flush_admission k full now h
  have hn : new = [] := by
    cases new with
    | nil => rfl
    | cons sn t =>
      exfalso
      have := e5 sn (List.mem_cons_self ..)
      have h2 := (lt_effCwnd_iff k (sn - k.snd_una)).2 this.2
      have h1 := this.1
      apply hfull
      bv_omega
  subst hn
  refine ⟨by simpa using e2, by simpa using e3, ?_⟩
  have := congrArg List.length e1
  simpa using this

end KcpVerif.Kcp
