/-
Send side of C04: the send-window invariant (`SndOK`): `snd_buf` lists the consecutive sequence numbers `snd_una … snd_nxt-1`.
Core Lean only.
-/
import KcpVerif.Lemmas.KcpOps
namespace KcpVerif.Kcp
open KcpVerif KcpVerif.Gen

/-- `l` lists the consecutive sequence numbers `a, a+1, …` -/
def Consec : U32 → List Seg → Prop
  | _, [] => True
  | a, s :: r => s.sn = a ∧ Consec (a + 1) r

theorem consec_congr {l l' : List Seg} (h : l'.map (·.sn) = l.map (·.sn)) (a : U32) :
    Consec a l → Consec a l' := by
  induction l generalizing l' a with
  | nil => cases l' with
    | nil => exact id
    | cons x t => simp at h
  | cons s r ih => cases l' with
    | nil => simp at h
    | cons x t =>
      simp only [List.map_cons, List.cons.injEq] at h
      intro hc
      exact ⟨h.1.trans hc.1, ih h.2 _ hc.2⟩

theorem consec_append (a : U32) (l : List Seg) (s : Seg) :
    Consec a l → s.sn = a + BitVec.ofNat 32 l.length → Consec a (l ++ [s]) := by
  induction l generalizing a with
  | nil => intro _ h; exact ⟨by simpa using h, trivial⟩
  | cons x r ih =>
    intro hc h
    refine ⟨hc.1, ih (a + 1) hc.2 ?_⟩
    rw [h]; simp only [List.length_cons]; bv_omega

theorem consec_drop (a : U32) (l : List Seg) (c : Nat) :
    Consec a l → Consec (a + BitVec.ofNat 32 c) (l.drop c) := by
  induction c generalizing a l with
  | zero => intro h; simpa using h
  | succ c ih =>
    cases l with
    | nil => intro _; trivial
    | cons x r =>
      intro h
      have := ih (a + 1) r h.2
      simp only [List.drop_succ_cons]
      have e : a + BitVec.ofNat 32 (c + 1) = a + 1 + BitVec.ofNat 32 c := by bv_omega
      rw [e]; exact this

theorem unaCount_le (una : U32) (l : List Seg) : unaCount una l ≤ l.length := by
  induction l with
  | nil => exact Nat.le_refl _
  | cons s r ih => unfold unaCount; split <;> simp only [List.length_cons] <;> omega

theorem ackLoop_sns (sn : U32) (l : List Seg) : (ackLoop sn l).map (·.sn) = l.map (·.sn) := by
  induction l with
  | nil => rfl
  | cons s r ih =>
    unfold ackLoop
    split
    · rfl
    · split
      · rfl
      · simp only [List.map_cons, ih]

theorem fastLoop_sns (sn ts fr : U32) (l : List Seg) : (fastLoop sn ts fr l).buf.map (·.sn) = l.map (·.sn) := by
  induction l with
  | nil => rfl
  | cons s r ih =>
    unfold fastLoop
    split
    · rfl
    · split
      · simp only [List.map_cons, ih]
      · simp only [List.map_cons, ih]

/-- the send-window invariant on `(snd_una, snd_nxt, snd_wnd, snd_buf)` -/
structure SndOK (una nxt wnd : U32) (buf : List Seg) : Prop where
  small : wnd.toNat < 2^31
  consec : Consec una buf
  nxt_eq : nxt = una + BitVec.ofNat 32 buf.length
  len_le : buf.length ≤ wnd.toNat

theorem SndOK.inflight {una nxt wnd : U32} {buf : List Seg} (h : SndOK una nxt wnd buf) :
    (nxt - una).toNat = buf.length := by
  have h1 := h.small; have h2 := h.nxt_eq; have h3 := h.len_le
  bv_omega

theorem SndOK.congr_sns {una nxt wnd : U32} {buf buf' : List Seg} (h : SndOK una nxt wnd buf)
    (e : buf'.map (·.sn) = buf.map (·.sn)) : SndOK una nxt wnd buf' := by
  have hl : buf'.length = buf.length := by
    have := congrArg List.length e; simpa using this
  exact ⟨h.small, consec_congr e _ h.consec, by rw [hl]; exact h.nxt_eq, by rw [hl]; exact h.len_le⟩

theorem shrinkUna_nxt (k : Kcp) (una : U32) : (shrinkBuf (parseUna k una).1).snd_nxt = k.snd_nxt := by
  unfold shrinkBuf parseUna; split <;> rfl
theorem shrinkUna_wnd (k : Kcp) (una : U32) : (shrinkBuf (parseUna k una).1).snd_wnd = k.snd_wnd := by
  unfold shrinkBuf parseUna; split <;> rfl
theorem shrinkUna_buf (k : Kcp) (una : U32) :
    (shrinkBuf (parseUna k una).1).snd_buf = k.snd_buf.drop (unaCount una k.snd_buf) := by
  unfold shrinkBuf parseUna; split <;> rfl

/-- `parse_una` followed by `shrink_buf`, for ANY (forged) `una` -/
theorem SndOK.una {k : Kcp} (h : SndOK k.snd_una k.snd_nxt k.snd_wnd k.snd_buf) (una : U32) :
    SndOK (shrinkBuf (parseUna k una).1).snd_una k.snd_nxt k.snd_wnd (k.snd_buf.drop (unaCount una k.snd_buf)) := by
  have hc := unaCount_le una k.snd_buf
  have hd := consec_drop _ _ (unaCount una k.snd_buf) h.consec
  have hlen : (k.snd_buf.drop (unaCount una k.snd_buf)).length = k.snd_buf.length - unaCount una k.snd_buf :=
    List.length_drop
  have hne := h.nxt_eq
  have hsm := h.small
  have hle := h.len_le
  unfold shrinkBuf parseUna
  split
  · rename_i s t heq
    simp only [] at heq
    rw [heq] at hd hlen
    refine ⟨hsm, ?_, ?_, ?_⟩
    · simp only [heq]; rw [hd.1]; exact hd
    · simp only [heq]; rw [hd.1, hne, hlen]
      generalize unaCount una k.snd_buf = c at *
      simp only [List.length_cons] at hlen
      bv_omega
    · simp only [heq]; omega
  · rename_i heq
    simp only [] at heq
    rw [heq] at hlen
    refine ⟨hsm, ?_, ?_, ?_⟩
    · simp only [heq]; trivial
    · simp only [heq]; simp
    · simp only [heq]; simp

/-- the admission test of phase 4, read as an unsigned comparison of the in-flight count -/
theorem admit_guard {una nxt wnd cwnd : U32} {buf : List Seg} (h : SndOK una nxt wnd buf)
    (hcw : cwnd.toNat ≤ wnd.toNat) :
    ¬ (itimediff nxt (una + cwnd) ≥ 0) ↔ buf.length < cwnd.toNat := by
  have h1 := h.small; have h2 := h.nxt_eq; have h3 := h.len_le
  unfold itimediff
  simp only [BitVec.toInt_eq_toNat_cond]
  constructor
  · intro hg; split at hg <;> bv_omega
  · intro hg; split <;> bv_omega

/-- phase 4 keeps the send invariant when the effective window is at most `snd_wnd` -/
theorem admitSegs_ok (conv una cwnd now wnd : U32) (hcw : cwnd.toNat ≤ wnd.toNat)
    (q buf : List Seg) (nxt : U32) (c : Nat) (h : SndOK una nxt wnd buf) :
    SndOK una (admitSegs conv una cwnd now q buf nxt c).nxt wnd (admitSegs conv una cwnd now q buf nxt c).buf := by
  induction q generalizing buf nxt c with
  | nil => exact h
  | cons s rest ih =>
    unfold admitSegs
    split
    · exact h
    · rename_i hg
      have hlt := (admit_guard h hcw).1 hg
      apply ih
      refine ⟨h.small, consec_append _ _ _ h.consec h.nxt_eq, ?_, ?_⟩
      · rw [h.nxt_eq]; simp only [List.length_append, List.length_cons, List.length_nil]; bv_omega
      · simp only [List.length_append, List.length_cons, List.length_nil]; omega

end KcpVerif.Kcp
