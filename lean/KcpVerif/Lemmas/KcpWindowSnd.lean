/-
Send side of C04: the send-window invariant (`SndOK`): `snd_buf` lists the consecutive sequence numbers `snd_una … snd_nxt-1`.
Core Lean only.
-/
import KcpVerif.Lemmas.KcpOps
namespace KcpVerif.Kcp
open KcpVerif KcpVerif.Gen

/-- `l` lists the consecutive sequence numbers `a, a+1, …` -/
def Consec : U32 → List Seg → Prop
  | _, [] => True
  | a, s :: r => s.sn = a ∧ Consec (a + 1) r

theorem consec_congr {l l' : List Seg} (h : l'.map (·.sn) = l.map (·.sn)) (a : U32) :
    Consec a l → Consec a l' := by
  induction l generalizing l' a with
  | nil => cases l' with
    | nil => exact id
    | cons x t => simp at h
  | cons s r ih => cases l' with
    | nil => simp at h
    | cons x t =>
      simp only [List.map_cons, List.cons.injEq] at h
      intro hc
      exact ⟨h.1.trans hc.1, ih h.2 _ hc.2⟩

theorem consec_append (a : U32) (l : List Seg) (s : Seg) :
    Consec a l → s.sn = a + BitVec.ofNat 32 l.length → Consec a (l ++ [s]) := by
  induction l generalizing a with
  | nil => intro _ h; exact ⟨by simpa using h, trivial⟩
  | cons x r ih =>
    intro hc h
    refine ⟨hc.1, ih (a + 1) hc.2 ?_⟩
    rw [h]; simp only [List.length_cons]; bv_omega

theorem consec_drop (a : U32) (l : List Seg) (c : Nat) :
    Consec a l → Consec (a + BitVec.ofNat 32 c) (l.drop c) := by
  induction c generalizing a l with
  | zero => intro h; simpa using h
  | succ c ih =>
    cases l with
    | nil => intro _; trivial
    | cons x r =>
      intro h
      have := ih (a + 1) r h.2
      simp only [List.drop_succ_cons]
      have e : a + BitVec.ofNat 32 (c + 1) = a + 1 + BitVec.ofNat 32 c := by bv_omega
      rw [e]; exact this

theorem unaCount_le (una : U32) (l : List Seg) : unaCount una l ≤ l.length := by
  induction l with
  | nil => exact Nat.le_refl _
  | cons s r ih => unfold unaCount; split <;> simp only [List.length_cons] <;> omega

theorem ackLoop_sns (sn : U32) (l : List Seg) : (ackLoop sn l).map (·.sn) = l.map (·.sn) := by
  induction l with
  | nil => rfl
  | cons s r ih =>
    unfold ackLoop
    split
    · rfl
    · split
      · rfl
      · simp only [List.map_cons, ih]

theorem fastLoop_sns (sn ts fr : U32) (l : List Seg) : (fastLoop sn ts fr l).buf.map (·.sn) = l.map (·.sn) := by
  induction l with
  | nil => rfl
  | cons s r ih =>
    unfold fastLoop
    split
    · rfl
    · split
      · simp only [List.map_cons, ih]
      · simp only [List.map_cons, ih]

/-- the send-window invariant on `(snd_una, snd_nxt, snd_wnd, snd_buf)` -/
structure SndOK (una nxt wnd : U32) (buf : List Seg) : Prop where
  small : wnd.toNat < 2^31
  consec : Consec una buf
  nxt_eq : nxt = una + BitVec.ofNat 32 buf.length
  len_le : buf.length ≤ wnd.toNat

theorem SndOK.inflight {una nxt wnd : U32} {buf : List Seg} (h : SndOK una nxt wnd buf) :
    (nxt - una).toNat = buf.length := by
  have h1 := h.small; have h2 := h.nxt_eq; have h3 := h.len_le
  bv_omega

theorem SndOK.congr_sns {una nxt wnd : U32} {buf buf' : List Seg} (h : SndOK una nxt wnd buf)
    (e : buf'.map (·.sn) = buf.map (·.sn)) : SndOK una nxt wnd buf' := by
  have hl : buf'.length = buf.length := by
    have := congrArg List.length e; simpa using this
  exact ⟨h.small, consec_congr e _ h.consec, by rw [hl]; exact h.nxt_eq, by rw [hl]; exact h.len_le⟩

/-- the `sn` of the head of a send buffer, or `nxt` when it is empty: what `shrink_buf` assigns to `snd_una` -/
def headSn (nxt : U32) : List Seg → U32
  | s :: _ => s.sn
  | [] => nxt

/-- dropping ANY number of head segments and re-establishing `snd_una` from the new head keeps the
send invariant (`parse_una` with a forged `una`, and the acknowledged heads popped by `shrink_buf`) -/
theorem SndOK.dropHead {una nxt wnd : U32} {buf : List Seg} (h : SndOK una nxt wnd buf) (c : Nat)
    (hc : c ≤ buf.length) : SndOK (headSn nxt (buf.drop c)) nxt wnd (buf.drop c) := by
  have hd := consec_drop _ _ c h.consec
  have hlen : (buf.drop c).length = buf.length - c := List.length_drop
  have hne := h.nxt_eq
  have hsm := h.small
  have hle := h.len_le
  cases heq : buf.drop c with
  | cons s t =>
    rw [heq] at hd hlen
    refine ⟨hsm, ?_, ?_, ?_⟩
    · show Consec s.sn (s :: t); rw [hd.1]; exact hd
    · show nxt = s.sn + _
      rw [hd.1, hne, hlen]
      simp only [List.length_cons] at hlen
      bv_omega
    · rw [hlen]; omega
  | nil =>
    rw [heq] at hlen
    refine ⟨hsm, trivial, ?_, Nat.zero_le _⟩
    show nxt = nxt + BitVec.ofNat 32 0
    simp

/-- the number of leading segments already acknowledged one by one -/
def ackedCount : List Seg → Nat
  | [] => 0
  | s :: r => if s.acked then ackedCount r + 1 else 0

theorem ackedCount_le (l : List Seg) : ackedCount l ≤ l.length := by
  induction l with
  | nil => exact Nat.le_refl _
  | cons s r ih => unfold ackedCount; split <;> simp only [List.length_cons] <;> omega

theorem dropAcked_eq_drop (l : List Seg) : dropAcked l = l.drop (ackedCount l) := by
  induction l with
  | nil => rfl
  | cons s r ih =>
    unfold dropAcked ackedCount
    split
    · rw [ih]; rfl
    · rfl

/-- `shrink_buf`: a prefix of `snd_buf` goes, `snd_una` is re-established from the new head -/
theorem shrinkBuf_spec (k : Kcp) :
    (shrinkBuf k).snd_buf = k.snd_buf.drop (ackedCount k.snd_buf) ∧
    (shrinkBuf k).snd_una = headSn k.snd_nxt (k.snd_buf.drop (ackedCount k.snd_buf)) ∧
    (shrinkBuf k).snd_nxt = k.snd_nxt ∧ (shrinkBuf k).snd_wnd = k.snd_wnd := by
  rw [← dropAcked_eq_drop]
  unfold shrinkBuf
  split
  · rename_i s t heq; rw [heq]; exact ⟨rfl, rfl, rfl, rfl⟩
  · rename_i heq; rw [heq]; exact ⟨rfl, rfl, rfl, rfl⟩

/-- `shrink_buf` keeps the send invariant -/
theorem SndOK.shrink {k : Kcp} (h : SndOK k.snd_una k.snd_nxt k.snd_wnd k.snd_buf) :
    SndOK (shrinkBuf k).snd_una (shrinkBuf k).snd_nxt (shrinkBuf k).snd_wnd (shrinkBuf k).snd_buf := by
  obtain ⟨e1, e2, e3, e4⟩ := shrinkBuf_spec k
  rw [e1, e2, e3, e4]
  exact h.dropHead _ (ackedCount_le _)

/-- how many head segments `parse_una` + `shrink_buf` remove: those below `una`, then the acknowledged ones -/
def unaDrop (una : U32) (l : List Seg) : Nat := unaCount una l + ackedCount (l.drop (unaCount una l))

theorem unaDrop_le (una : U32) (l : List Seg) : unaDrop una l ≤ l.length := by
  unfold unaDrop
  have h1 := unaCount_le una l
  have h2 := ackedCount_le (l.drop (unaCount una l))
  rw [List.length_drop] at h2
  omega

theorem shrinkUna_nxt (k : Kcp) (una : U32) : (shrinkBuf (parseUna k una).1).snd_nxt = k.snd_nxt :=
  (shrinkBuf_spec (parseUna k una).1).2.2.1
theorem shrinkUna_wnd (k : Kcp) (una : U32) : (shrinkBuf (parseUna k una).1).snd_wnd = k.snd_wnd :=
  (shrinkBuf_spec (parseUna k una).1).2.2.2
theorem shrinkUna_buf (k : Kcp) (una : U32) :
    (shrinkBuf (parseUna k una).1).snd_buf = k.snd_buf.drop (unaDrop una k.snd_buf) := by
  rw [(shrinkBuf_spec (parseUna k una).1).1]
  show (k.snd_buf.drop (unaCount una k.snd_buf)).drop _ = _
  rw [List.drop_drop]; rfl

/-- `parse_una` followed by `shrink_buf`, for ANY (forged) `una` -/
theorem SndOK.una {k : Kcp} (h : SndOK k.snd_una k.snd_nxt k.snd_wnd k.snd_buf) (una : U32) :
    SndOK (shrinkBuf (parseUna k una).1).snd_una k.snd_nxt k.snd_wnd (k.snd_buf.drop (unaDrop una k.snd_buf)) := by
  have e : (shrinkBuf (parseUna k una).1).snd_una = headSn k.snd_nxt (k.snd_buf.drop (unaDrop una k.snd_buf)) := by
    rw [(shrinkBuf_spec (parseUna k una).1).2.1]
    show headSn k.snd_nxt ((k.snd_buf.drop (unaCount una k.snd_buf)).drop _) = _
    rw [List.drop_drop]; rfl
  rw [e]
  exact h.dropHead _ (unaDrop_le _ _)

/-- the admission test of phase 4, read as an unsigned comparison of the in-flight count -/
theorem admit_guard {una nxt wnd cwnd : U32} {buf : List Seg} (h : SndOK una nxt wnd buf)
    (hcw : cwnd.toNat ≤ wnd.toNat) :
    ¬ (itimediff nxt (una + cwnd) ≥ 0) ↔ buf.length < cwnd.toNat := by
  have h1 := h.small; have h2 := h.nxt_eq; have h3 := h.len_le
  unfold itimediff
  simp only [BitVec.toInt_eq_toNat_cond]
  constructor
  · intro hg; split at hg <;> bv_omega
  · intro hg; split <;> bv_omega

/-- phase 4 keeps the send invariant when the effective window is at most `snd_wnd` -/
theorem admitSegs_ok (conv una cwnd now wnd : U32) (hcw : cwnd.toNat ≤ wnd.toNat)
    (q buf : List Seg) (nxt : U32) (c : Nat) (h : SndOK una nxt wnd buf) :
    SndOK una (admitSegs conv una cwnd now q buf nxt c).nxt wnd (admitSegs conv una cwnd now q buf nxt c).buf := by
  induction q generalizing buf nxt c with
  | nil => exact h
  | cons s rest ih =>
    unfold admitSegs
    split
    · exact h
    · rename_i hg
      have hlt := (admit_guard h hcw).1 hg
      apply ih
      refine ⟨h.small, consec_append _ _ _ h.consec h.nxt_eq, ?_, ?_⟩
      · rw [h.nxt_eq]; simp only [List.length_append, List.length_cons, List.length_nil]; bv_omega
      · simp only [List.length_append, List.length_cons, List.length_nil]; omega

end KcpVerif.Kcp
