/-
Exact wire correspondence for the closed system (Model/Sys.lean):

* decode: `Input`'s parse loop run on the encoding of a list of well-formed frames is the fold of
  the per-segment step `Live.inStep` over those frames (`inSt_encFrames`);
* encode: the datagrams handed to `output` by a flush are the encodings of groups of frames whose
  concatenation is `flushFrs` — the ACK frames phase 1 keeps, the probe frames of phase 3 and one
  PUSH frame per segment phase 5 (re)transmits, in this order (`flush_frames`).
-/
import KcpVerif.Lemmas.KcpLiveFlush
import KcpVerif.Lemmas.KcpInput
import KcpVerif.Lemmas.KcpWire

namespace KcpVerif.SysW
open KcpVerif KcpVerif.Gen KcpVerif.Kcp KcpVerif.Live KcpVerif.Wire

/-! ### decode -/

/-- one frame through the per-segment step of `Input` -/
def inFr (regular : Bool) (st : InLoop) (fr : Frm) : InLoop :=
  inStep regular fr.conv fr.cmd fr.frg fr.wnd fr.ts fr.sn fr.una fr.data st

/-- the parse loop on frames: stops at a panic, like the model -/
def inFrs (regular : Bool) : List Frm → InLoop → InLoop
  | [], st => st
  | fr :: rest, st => if (inFr regular st fr).panic then inFr regular st fr else inFrs regular rest (inFr regular st fr)

/-- a frame the peer's `Input` will not refuse -/
def FrValid (conv : U32) (fr : Frm) : Prop :=
  fr.conv = conv ∧ Live.validCmd fr.cmd ∧ fr.data.length ≤ mtuLimit

theorem encFrame_length (fr : Frm) : (encFrame fr).length = IKCP_OVERHEAD + fr.data.length := by
  unfold encFrame; rw [List.length_append, encodeHdr_length]

theorem encFrames_cons (fr : Frm) (rest : List Frm) : encFrames (fr :: rest) = encFrame fr ++ encFrames rest := by
  simp [encFrames]

theorem encFrames_append (a b : List Frm) : encFrames (a ++ b) = encFrames a ++ encFrames b := by
  simp [encFrames]

theorem encFrames_length_ge (frs : List Frm) : IKCP_OVERHEAD * frs.length ≤ (encFrames frs).length := by
  induction frs with
  | nil => simp [encFrames]
  | cons fr rest ih =>
    rw [encFrames_cons, List.length_append, encFrame_length, List.length_cons]
    unfold IKCP_OVERHEAD at *; omega

theorem encFrames_eq_nil (frs : List Frm) (h : encFrames frs = []) : frs = [] := by
  cases frs with
  | nil => rfl
  | cons fr rest =>
    have := encFrames_length_ge (fr :: rest)
    rw [h] at this
    simp [IKCP_OVERHEAD] at this

/-- the field reads of the loop on `encFrame fr ++ rest` -/
theorem hdr_reads (fr : Frm) (rest : Bytes) (hl : fr.data.length ≤ mtuLimit) :
    rd32 (encFrame fr ++ rest) 0 = fr.conv ∧
    BitVec.ofNat 8 (byteAt (encFrame fr ++ rest) 4) = fr.cmd ∧
    BitVec.ofNat 8 (byteAt (encFrame fr ++ rest) 5) = fr.frg ∧
    rd16 (encFrame fr ++ rest) 6 = fr.wnd ∧
    rd32 (encFrame fr ++ rest) 8 = fr.ts ∧
    rd32 (encFrame fr ++ rest) 12 = fr.sn ∧
    rd32 (encFrame fr ++ rest) 16 = fr.una ∧
    (rd32 (encFrame fr ++ rest) 20).toNat = fr.data.length ∧
    (encFrame fr ++ rest).drop IKCP_OVERHEAD = fr.data ++ rest := by
  have e : encFrame fr ++ rest =
      encodeHdr fr.conv fr.cmd fr.frg fr.wnd fr.ts fr.sn fr.una fr.data.length ++ (fr.data ++ rest) := by
    unfold encFrame; rw [List.append_assoc]
  have h := hdr_roundtrip fr.conv fr.cmd fr.frg fr.wnd fr.ts fr.sn fr.una fr.data.length (fr.data ++ rest)
  rw [← e] at h
  have hlen : fr.data.length % 2 ^ 32 = fr.data.length := by unfold mtuLimit at hl; omega
  refine ⟨congrArg Frame.Hdr.conv h, congrArg Frame.Hdr.cmd h, congrArg Frame.Hdr.frg h, congrArg Frame.Hdr.wnd h,
    congrArg Frame.Hdr.ts h, congrArg Frame.Hdr.sn h, congrArg Frame.Hdr.una h, ?_, ?_⟩
  · have := congrArg Frame.Hdr.len h
    rw [hlen] at this
    exact this
  · rw [e, ← encodeHdr_length fr.conv fr.cmd fr.frg fr.wnd fr.ts fr.sn fr.una fr.data.length, List.drop_left]

theorem inStepAt_frame (regular : Bool) (fr : Frm) (rest : Bytes) (st : InLoop) (hl : fr.data.length ≤ mtuLimit) :
    inStepAt regular (encFrame fr ++ rest) st = inFr regular st fr := by
  obtain ⟨h1, h2, h3, h4, h5, h6, h7, h8, h9⟩ := hdr_reads fr rest hl
  unfold inStepAt inFr
  rw [h1, h2, h3, h4, h5, h6, h7, h8, h9, List.take_left]

theorem inStep_conv (regular : Bool) (conv : U32) (cmd frg : BitVec 8) (wnd : BitVec 16) (ts sn una : U32)
    (payload : Bytes) (st : InLoop) : (inStep regular conv cmd frg wnd ts sn una payload st).k.conv = st.k.conv := by
  obtain ⟨sb, su, al, rb, rq, rn, pr, h⟩ := inStep_frame regular conv cmd frg wnd ts sn una payload st
  rw [h]

theorem inFr_conv (regular : Bool) (st : InLoop) (fr : Frm) : (inFr regular st fr).k.conv = st.k.conv :=
  inStep_conv _ _ _ _ _ _ _ _ _ _

/-- **decode**: the parse loop on encoded well-formed frames is the fold over the frames -/
theorem inputLoop_encFrames (regular : Bool) (frs : List Frm) : ∀ (fuel : Nat) (st : InLoop), frs.length < fuel →
    (∀ fr ∈ frs, FrValid st.k.conv fr) → inputLoop regular fuel (encFrames frs) st = inFrs regular frs st := by
  induction frs with
  | nil =>
    intro fuel st hf _
    cases fuel with
    | zero => simp at hf
    | succ f =>
      rw [Live.inputLoop_succ, if_pos (by simp [encFrames, IKCP_OVERHEAD])]
      rfl
  | cons fr rest ih =>
    intro fuel st hf hv
    cases fuel with
    | zero => simp at hf
    | succ f =>
      obtain ⟨hc, hcmd, hl⟩ := hv fr (List.mem_cons_self ..)
      obtain ⟨h1, h2, h3, h4, h5, h6, h7, h8, h9⟩ := hdr_reads fr (encFrames rest) hl
      rw [encFrames_cons, Live.inputLoop_succ]
      have hlen : ¬ (encFrame fr ++ encFrames rest).length < IKCP_OVERHEAD := by
        rw [List.length_append, encFrame_length]; omega
      rw [if_neg hlen, h1, if_neg (by simp [hc]), h9, h8, h2]
      rw [if_neg (by rw [List.length_append]; omega)]
      rw [if_neg (by unfold Live.validCmd at hcmd; omega)]
      rw [inStepAt_frame regular fr (encFrames rest) st hl, List.drop_left]
      show _ = if (inFr regular st fr).panic then inFr regular st fr else inFrs regular rest (inFr regular st fr)
      split
      · rfl
      · apply ih
        · simp at hf; omega
        · intro x hx
          rw [inFr_conv]
          exact hv x (List.mem_cons_of_mem _ hx)

/-- the loop state `Input` ends with, on encoded frames -/
theorem inSt_encFrames (k : Kcp) (frs : List Frm) (regular : Bool) (hv : ∀ fr ∈ frs, FrValid k.conv fr) :
    inSt k (encFrames frs) regular = inFrs regular frs { k := k } := by
  unfold inSt
  apply inputLoop_encFrames
  · have := encFrames_length_ge frs
    unfold IKCP_OVERHEAD at *
    omega
  · exact hv

/-! ### encode: the frames in a flush buffer -/

/-- unless a slice-bounds panic happened, the finished outputs and the pending bytes are encodings of
groups of frames, `F` in total -/
def FlFr (f : Fl) (F : List Frm) : Prop :=
  f.panic = false → ∃ (gs : List (List Frm)) (g : List Frm), f.outs = gs.map encFrames ∧ f.cur = encFrames g ∧ gs.flatten ++ g = F

theorem FlFr.init (k : Kcp) : FlFr { k := k } [] := fun _ => ⟨[], [], rfl, rfl, rfl⟩

theorem FlFr.setK {f : Fl} {F : List Frm} (h : FlFr f F) (k : Kcp) : FlFr { f with k := k } F := by
  unfold FlFr at *; exact h

theorem FlFr.makeSpace {f : Fl} {F : List Frm} (h : FlFr f F) (n : Nat) : FlFr (f.makeSpace n) F := by
  unfold FlFr at *
  unfold Fl.makeSpace
  split
  · intro hp
    obtain ⟨gs, g, h1, h2, h3⟩ := h hp
    refine ⟨gs ++ [g], [], ?_, rfl, ?_⟩
    · simp only [List.map_append, List.map_cons, List.map_nil, h1, h2]
    · simp only [List.flatten_append, List.flatten_cons, List.flatten_nil, List.append_nil]; exact h3
  · exact h

/-- a header-only frame -/
theorem FlFr.putHdr {f : Fl} {F : List Frm} (h : FlFr f F) (conv : U32) (cmd : BitVec 8) (wnd : BitVec 16)
    (ts sn una : U32) :
    FlFr (f.putHdr (encodeHdr conv cmd 0 wnd ts sn una 0)) (F ++ [⟨conv, cmd, 0, wnd, ts, sn, una, []⟩]) := by
  unfold FlFr at *
  unfold Fl.putHdr
  split
  · intro hp; cases hp
  · intro hp
    obtain ⟨gs, g, h1, h2, h3⟩ := h hp
    refine ⟨gs, g ++ [⟨conv, cmd, 0, wnd, ts, sn, una, []⟩], h1, ?_, by rw [← List.append_assoc, h3]⟩
    show f.cur ++ _ = _
    rw [encFrames_append, h2]
    simp [encFrames, encFrame]

/-- the frame of a segment -/
def frmOf (s : Seg) : Frm := ⟨s.conv, s.cmd, s.frg, s.wnd, s.ts, s.sn, s.una, s.data⟩

theorem FlFr.emit {f : Fl} {F : List Frm} (h : FlFr f F) (s : Seg) : FlFr (emit f s) (F ++ [frmOf s]) := by
  have key : FlFr (((f.makeSpace (IKCP_OVERHEAD + s.data.length)).putHdr
      (encodeHdr s.conv s.cmd s.frg s.wnd s.ts s.sn s.una s.data.length)).putData s.data) (F ++ [frmOf s]) := by
    have h1 := h.makeSpace (IKCP_OVERHEAD + s.data.length)
    unfold FlFr at *
    unfold Fl.putHdr
    split
    · unfold Fl.putData; split <;> (intro hp; cases hp)
    · unfold Fl.putData
      split
      · intro hp; cases hp
      · intro hp
        obtain ⟨gs, g, h2, h3, h4⟩ := h1 hp
        refine ⟨gs, g ++ [frmOf s], h2, ?_, by rw [← List.append_assoc, h4]⟩
        show ((f.makeSpace (IKCP_OVERHEAD + s.data.length)).cur ++ _) ++ _ = _
        rw [encFrames_append, h3]
        simp [encFrames, encFrame, frmOf, List.append_assoc]
  unfold Live.emit
  simp only []
  split
  · exact key
  · exact key

/-! ### phase 1 -/

/-- the ACK frames phase 1 writes for the ack list `l` starting at index `i` -/
def ackFrs (conv : U32) (cmd : BitVec 8) (wnd : BitVec 16) (una rn : U32) (total : Nat) : List Ack → Nat → List Frm
  | [], _ => []
  | a :: rest, i =>
    (if itimediff a.sn rn ≥ 0 ∨ total - 1 = i then [(⟨conv, cmd, 0, wnd, a.ts, a.sn, una, []⟩ : Frm)] else []) ++
      ackFrs conv cmd wnd una rn total rest (i + 1)

theorem ackFlush_flFr (wnd : BitVec 16) (una : U32) (total : Nat) (l : List Ack) : ∀ (i : Nat) (st : AckSt) (F : List Frm),
    FlFr st.f F →
    FlFr (ackFlush wnd una total l i st).f (F ++ ackFrs st.f.k.conv st.sc.cmd wnd una st.f.k.rcv_nxt total l i) := by
  induction l with
  | nil => intro i st F h; simpa [ackFrs, ackFlush] using h
  | cons a rest ih =>
    intro i st F h
    rw [ackFlush_cons]
    have hk := ackStep_k wnd una total a i st
    have h2 := ih (i + 1) (ackStep wnd una total a i st)
    rw [hk.1, hk.2] at h2
    unfold ackFrs
    rw [← List.append_assoc]
    apply h2
    unfold ackStep
    split
    · exact (h.makeSpace _).putHdr _ _ _ _ _ _
    · simpa using h.makeSpace _

/-- every frame of phase 1 is an ACK for an entry of the list, carrying the flush's `una` and `wnd` -/
theorem ackFrs_mem (conv : U32) (cmd : BitVec 8) (wnd : BitVec 16) (una rn : U32) (total : Nat) (l : List Ack) :
    ∀ (i : Nat), ∀ fr ∈ ackFrs conv cmd wnd una rn total l i,
      fr.conv = conv ∧ fr.cmd = cmd ∧ fr.wnd = wnd ∧ fr.una = una ∧ fr.data = [] ∧ (⟨fr.sn, fr.ts⟩ : Ack) ∈ l := by
  induction l with
  | nil => intro i fr h; simp [ackFrs] at h
  | cons a rest ih =>
    intro i fr h
    unfold ackFrs at h
    rcases List.mem_append.mp h with h1 | h1
    · split at h1
      · rw [List.mem_singleton.mp h1]
        exact ⟨rfl, rfl, rfl, rfl, rfl, List.mem_cons_self ..⟩
      · simp at h1
    · obtain ⟨a1, a2, a3, a4, a5, a6⟩ := ih (i + 1) fr h1
      exact ⟨a1, a2, a3, a4, a5, List.mem_cons_of_mem _ a6⟩

/-- the last entry is always kept: a non-empty ack list yields at least one frame -/
theorem ackFrs_ne_nil (conv : U32) (cmd : BitVec 8) (wnd : BitVec 16) (una rn : U32) (total : Nat) (l : List Ack) :
    ∀ (i : Nat), l ≠ [] → i + l.length = total → ackFrs conv cmd wnd una rn total l i ≠ [] := by
  induction l with
  | nil => intro i h; exact absurd rfl h
  | cons a rest ih =>
    intro i _ hi
    unfold ackFrs
    cases rest with
    | nil =>
      simp only [List.length_cons, List.length_nil] at hi
      rw [if_pos (Or.inr (by omega))]
      simp
    | cons b r =>
      have := ih (i + 1) (by simp) (by simp only [List.length_cons] at hi ⊢; omega)
      intro hc
      exact this (List.append_eq_nil_iff.mp hc).2

/-! ### phase 5 -/

/-- does phase 5 put the segment on the wire? -/
def sentB (now resent : U32) (newSegs : Nat) (s : Seg) : Bool :=
  !s.acked && decide (cause now resent newSegs s ≠ .none)

theorem foldXmit_flFr (now resent : U32) (wnd : BitVec 16) (una : U32) (newSegs : Nat) (l : List Seg) :
    ∀ (st : XmitSt) (F : List Frm), FlFr st.f F →
      FlFr (l.foldl (xmitOne now resent wnd una newSegs) st).f
        (F ++ (l.filter (sentB now resent newSegs)).map
          (fun s => frmOf (segAfter now resent wnd una newSegs st.f.k.rx_rto st.f.k.nodelay s))) := by
  induction l with
  | nil => intro st F h; simpa using h
  | cons a rest ih =>
    intro st F h
    have he := xmitOne_ext now resent wnd una newSegs st a
    have hr : (xmitOne now resent wnd una newSegs st a).f.k.rx_rto = st.f.k.rx_rto := by rw [he.k]
    have hn : (xmitOne now resent wnd una newSegs st a).f.k.nodelay = st.f.k.nodelay := by rw [he.k]
    simp only [List.foldl_cons]
    by_cases hs : sentB now resent newSegs a = true
    · have h1 : FlFr (xmitOne now resent wnd una newSegs st a).f
          (F ++ [frmOf (segAfter now resent wnd una newSegs st.f.k.rx_rto st.f.k.nodelay a)]) := by
        rw [xmitOne_f]
        unfold sentB at hs
        simp only [Bool.and_eq_true, Bool.not_eq_true', decide_eq_true_eq] at hs
        rw [if_neg (by simp [hs.1, hs.2])]
        exact h.emit _
      have h2 := ih _ _ h1
      rw [hr, hn] at h2
      rw [List.filter_cons_of_pos hs, List.map_cons]
      simpa [List.append_assoc] using h2
    · have h1 : FlFr (xmitOne now resent wnd una newSegs st a).f F := by
        rw [xmitOne_f]
        unfold sentB at hs
        simp only [Bool.and_eq_true, Bool.not_eq_true', decide_eq_true_eq, not_and, Classical.not_not] at hs
        by_cases ha : a.acked = true
        · rw [if_pos (Or.inl ha)]; exact h
        · rw [if_pos (Or.inr (hs (by simpa using ha)))]; exact h
      have h2 := ih _ _ h1
      rw [hr, hn] at h2
      rw [List.filter_cons_of_neg hs]
      exact h2

/-! ### the whole flush -/

/-- the ACK frames of phase 1 -/
def ackFrsOf (k : Kcp) : List Frm :=
  ackFrs k.conv (BitVec.ofNat 8 IKCP_CMD_ACK) (wndUnused k) k.rcv_nxt k.rcv_nxt k.acklist.length k.acklist 0

def waskFrs (k : Kcp) (now : U32) : List Frm :=
  if (flF2 k now).k.probe &&& u32 IKCP_ASK_SEND ≠ 0 then
    [(⟨(flF2 k now).k.conv, BitVec.ofNat 8 IKCP_CMD_WASK, 0, wndUnused k, (flAck k).sc.ts, (flAck k).sc.sn, k.rcv_nxt, []⟩ : Frm)]
  else []

def winsFrs (k : Kcp) (now : U32) : List Frm :=
  if (flF3a k now).k.probe &&& u32 IKCP_ASK_TELL ≠ 0 then
    [(⟨(flF3a k now).k.conv, BitVec.ofNat 8 IKCP_CMD_WINS, 0, wndUnused k, (flAck k).sc.ts, (flAck k).sc.sn, k.rcv_nxt, []⟩ : Frm)]
  else []

/-- the probe frames of phase 3 -/
def probeFrs (k : Kcp) (now : U32) : List Frm := waskFrs k now ++ winsFrs k now

/-- the PUSH frames of phase 5 -/
def pushFrs (k : Kcp) (full : Bool) (now : U32) : List Frm :=
  if full then
    ((flAd k now).buf.filter (sentB now (resentOf k) (flAd k now).count)).map
      (fun s => frmOf (segAfter now (resentOf k) (wndUnused k) k.rcv_nxt (flAd k now).count k.rx_rto k.nodelay s))
  else []

/-- everything a flush writes, in order -/
def flushFrs (k : Kcp) (full : Bool) (now : U32) : List Frm :=
  ackFrsOf k ++ probeFrs k now ++ pushFrs k full now

theorem flF5_flFr (k : Kcp) (full : Bool) (now : U32) : FlFr (flF5 k full now) (flushFrs k full now) := by
  have h1 : FlFr (flAck k).f (ackFrsOf k) := by
    have := ackFlush_flFr (wndUnused k) k.rcv_nxt k.acklist.length k.acklist 0
      ⟨{ k := k }, { cmd := BitVec.ofNat 8 IKCP_CMD_ACK }⟩ [] (FlFr.init k)
    unfold flAck ackFrsOf
    simpa using this
  have h2 : FlFr (flF2 k now) (ackFrsOf k) := (h1.setK _).setK _
  have h3a : FlFr (flF3a k now) (ackFrsOf k ++ waskFrs k now) := by
    unfold flF3a waskFrs
    split
    · exact (h2.makeSpace _).putHdr _ _ _ _ _ _
    · simpa using h2
  have h3b : FlFr (flF3b k now) (ackFrsOf k ++ waskFrs k now ++ winsFrs k now) := by
    unfold flF3b winsFrs
    split
    · exact (h3a.makeSpace _).putHdr _ _ _ _ _ _
    · simpa using h3a
  have h4 : FlFr (flF4 k now) (ackFrsOf k ++ waskFrs k now ++ winsFrs k now) := (h3b.setK _).setK _
  obtain ⟨pw, tp, hk4⟩ := flF4_frame k now
  have hx : FlFr (flX k full now).f (flushFrs k full now) := by
    unfold flushFrs probeFrs pushFrs
    cases full
    · rw [flX_ackonly]
      simpa [List.append_assoc] using h4
    · unfold flX
      simp only [↓reduceIte]
      have := foldXmit_flFr now (resentOf (flF4 k now).k) (wndUnused k) k.rcv_nxt (flAd k now).count
        (flF4 k now).k.snd_buf { f := flF4 k now, next := (flF4 k now).k.interval } _ h4
      have hres : resentOf (flF4 k now).k = resentOf k := by rw [hk4]; rfl
      have hrto : (flF4 k now).k.rx_rto = k.rx_rto := by rw [hk4]
      have hnd : (flF4 k now).k.nodelay = k.nodelay := by rw [hk4]
      have hbuf : (flF4 k now).k.snd_buf = (flAd k now).buf := by rw [hk4]
      simp only [hres, hrto, hnd, hbuf] at this ⊢
      simpa [List.append_assoc] using this
  exact hx.setK _

/-- **encode**: the datagrams of a flush are encodings of groups of frames that concatenate to `flushFrs` -/
theorem flush_frames (k : Kcp) (full : Bool) (now : U32) (hp : (flush k full now).panic = false) :
    ∃ gs : List (List Frm), (flush k full now).outs = gs.map encFrames ∧ gs.flatten = flushFrs k full now := by
  rw [flush_panic] at hp
  obtain ⟨gs, g, h1, h2, h3⟩ := flF5_flFr k full now hp
  rw [flush_eq]
  simp only []
  split
  · refine ⟨gs ++ [g], ?_, ?_⟩
    · simp only [List.map_append, List.map_cons, List.map_nil, h1, h2]
    · simp only [List.flatten_append, List.flatten_cons, List.flatten_nil, List.append_nil]; exact h3
  · rename_i hc
    have hg : g = [] := by
      apply encFrames_eq_nil
      rw [← h2]
      cases hcur : (flF5 k full now).cur with
      | nil => rfl
      | cons a t => rw [hcur] at hc; simp at hc
    refine ⟨gs, h1, ?_⟩
    rw [← h3, hg, List.append_nil]

end KcpVerif.SysW
