/-
Helper lemmas for the no-wedge invariants of C02/C03: ack list, cumulative una, the move loop,
the receive-side store.  Core Lean only.
-/
import KcpVerif.Lemmas.KcpLiveFlush
import KcpVerif.Lemmas.KcpInput

namespace KcpVerif.Live
open KcpVerif KcpVerif.Gen KcpVerif.Kcp

/-! ### ack list -/

section
variable (regular : Bool) (conv : U32) (cmd frg : BitVec 8) (wnd : BitVec 16) (ts sn una : U32)
  (payload : Bytes) (st : InLoop)

theorem inPre_rcv (k : Kcp) :
    (inPre regular wnd una k).rcv_nxt = k.rcv_nxt ∧ (inPre regular wnd una k).rcv_wnd = k.rcv_wnd ∧
    (inPre regular wnd una k).acklist = k.acklist ∧ (inPre regular wnd una k).probe = k.probe ∧
    (inPre regular wnd una k).rcv_buf = k.rcv_buf ∧ (inPre regular wnd una k).rcv_queue = k.rcv_queue := by
  obtain ⟨sb, su, h⟩ := inPre_frame regular wnd una k
  rw [h]; exact ⟨rfl, rfl, rfl, rfl, rfl, rfl⟩

/-- a PUSH below the top of the receive window is always put on the ack list -/
theorem inStep_push_acklist (hc : cmd.toNat = IKCP_CMD_PUSH)
    (hw : itimediff sn (st.k.rcv_nxt + st.k.rcv_wnd) < 0) :
    (inStep regular conv cmd frg wnd ts sn una payload st).k.acklist = st.k.acklist ++ [⟨sn, ts⟩] := by
  have hp := inPre_rcv regular wnd una st.k
  have hne : ¬ cmd.toNat = IKCP_CMD_ACK := by rw [hc]; decide
  rw [inStep_k, if_neg hne, if_pos hc, hp.1, hp.2.1, if_pos hw]
  split
  · obtain ⟨rb, rq, rn, h⟩ := parseData_frame
      { inPre regular wnd una st.k with acklist := (inPre regular wnd una st.k).acklist ++ [⟨sn, ts⟩] }
      (pushSeg conv cmd frg wnd ts sn una payload)
    rw [h]; simp only [hp.2.2.1]
  · simp only [hp.2.2.1]

/-- a PUSH at or beyond the top of the window is not acknowledged and changes nothing on the
receive side -/
theorem inStep_push_refused (hc : cmd.toNat = IKCP_CMD_PUSH)
    (hw : ¬ itimediff sn (st.k.rcv_nxt + st.k.rcv_wnd) < 0) :
    (inStep regular conv cmd frg wnd ts sn una payload st).k = inPre regular wnd una st.k := by
  have hp := inPre_rcv regular wnd una st.k
  have hne : ¬ cmd.toNat = IKCP_CMD_ACK := by rw [hc]; decide
  rw [inStep_k, if_neg hne, if_pos hc, hp.1, hp.2.1, if_neg hw]

/-- no step removes anything from the ack list -/
theorem inStep_acklist_mono :
    ∃ t, (inStep regular conv cmd frg wnd ts sn una payload st).k.acklist = st.k.acklist ++ t := by
  have hp := inPre_rcv regular wnd una st.k
  rw [inStep_k]
  split
  · obtain ⟨b, u, h2⟩ := ackPath_frame (inPre regular wnd una st.k) sn ts
    exact ⟨[], by rw [h2]; simp [hp.2.2.1]⟩
  · split
    · split
      · split
        · obtain ⟨rb, rq, rn, h⟩ := parseData_frame
            { inPre regular wnd una st.k with acklist := (inPre regular wnd una st.k).acklist ++ [⟨sn, ts⟩] }
            (pushSeg conv cmd frg wnd ts sn una payload)
          exact ⟨[⟨sn, ts⟩], by rw [h]; simp only [hp.2.2.1]⟩
        · exact ⟨[⟨sn, ts⟩], by simp only [hp.2.2.1]⟩
      · exact ⟨[], by simp [hp.2.2.1]⟩
    · split
      · exact ⟨[], by simp [hp.2.2.1]⟩
      · exact ⟨[], by simp [hp.2.2.1]⟩
end

theorem inputLoop_acklist_mono (regular : Bool) (fuel : Nat) (data : Bytes) (st : InLoop) :
    ∃ t, (inputLoop regular fuel data st).k.acklist = st.k.acklist ++ t := by
  apply inputLoop_induct regular (fun x => ∃ t, x.k.acklist = st.k.acklist ++ t)
  · intro st' r h; exact h
  · intro conv cmd frg wnd ts sn una payload st' _ _ _ ⟨t, ht⟩
    obtain ⟨u, hu⟩ := inStep_acklist_mono regular conv cmd frg wnd ts sn una payload st'
    exact ⟨t ++ u, by rw [hu, ht, List.append_assoc]⟩
  · exact ⟨[], by simp⟩

/-! ### cumulative una -/

theorem drop_unaCount (u : U32) (l : List Seg) :
    l.drop (unaCount u l) = l.dropWhile (fun s => decide (itimediff u s.sn > 0)) := by
  induction l with
  | nil => rfl
  | cons s rest ih =>
    unfold unaCount
    by_cases h : itimediff u s.sn > 0
    · rw [if_pos h, List.drop_succ_cons, ih, List.dropWhile_cons_of_pos (by simpa using h)]
    · rw [if_neg h, List.drop_zero, List.dropWhile_cons_of_neg (by simpa using h)]

/-! ### acknowledged heads leave the send buffer -/

theorem dropAcked_eq_dropWhile (l : List Seg) : dropAcked l = l.dropWhile (fun s => s.acked) := by
  induction l with
  | nil => rfl
  | cons s rest ih =>
    unfold dropAcked
    by_cases h : s.acked = true
    · rw [if_pos h, ih, List.dropWhile_cons_of_pos h]
    · rw [if_neg h, List.dropWhile_cons_of_neg h]

theorem dropAcked_head (l : List Seg) (s : Seg) (rest : List Seg) (h : dropAcked l = s :: rest) : s.acked = false := by
  induction l with
  | nil => simp [dropAcked] at h
  | cons a t ih =>
    unfold dropAcked at h
    split at h
    · exact ih h
    · rename_i hc
      simp only [List.cons.injEq] at h
      rw [← h.1]; simpa using hc

/-- the head of `snd_buf`, if any, is a live (not individually acknowledged) segment and `snd_una`
is its `sn`; with an empty buffer `snd_una = snd_nxt` -/
def HeadLive (k : Kcp) : Prop :=
  match k.snd_buf with
  | s :: _ => s.acked = false ∧ k.snd_una = s.sn
  | [] => k.snd_una = k.snd_nxt

theorem shrinkBuf_headLive (k : Kcp) : HeadLive (shrinkBuf k) := by
  unfold HeadLive
  rw [shrinkBuf_eq]
  simp only []
  cases h : dropAcked k.snd_buf with
  | nil => rfl
  | cons s rest => exact ⟨dropAcked_head _ _ _ h, rfl⟩

theorem fastLoop_head (sn ts fr : U32) (s : Seg) (rest : List Seg) :
    ∃ s' rest', (fastLoop sn ts fr (s :: rest)).buf = s' :: rest' ∧ s'.sn = s.sn ∧ s'.acked = s.acked := by
  unfold fastLoop
  split
  · exact ⟨s, rest, rfl, rfl, rfl⟩
  · split
    · exact ⟨_, _, rfl, rfl, rfl⟩
    · exact ⟨_, _, rfl, rfl, rfl⟩

/-- `parse_fastack` changes neither which segment is at the head nor its `acked` flag nor `snd_una`/`snd_nxt` -/
theorem parseFastack_headLive (k : Kcp) (sn ts : U32) (h : HeadLive k) : HeadLive (parseFastack k sn ts).1 := by
  unfold parseFastack
  split
  · exact h
  · unfold HeadLive at h ⊢
    simp only []
    cases hb : k.snd_buf with
    | nil => rw [hb] at h; unfold fastLoop; exact h
    | cons s rest =>
      rw [hb] at h
      simp only [] at h
      obtain ⟨s', rest', e, e1, e2⟩ := fastLoop_head sn ts k.fastresend s rest
      rw [e]
      simp only []
      rw [e1, e2]; exact h

/-- setting fields other than `snd_buf`, `snd_una`, `snd_nxt` keeps `HeadLive` -/
theorem HeadLive.of_same {a b : Kcp} (h1 : a.snd_buf = b.snd_buf) (h2 : a.snd_una = b.snd_una)
    (h3 : a.snd_nxt = b.snd_nxt) (hb : HeadLive b) : HeadLive a := by
  unfold HeadLive at hb ⊢; rw [h1, h2, h3]; exact hb

theorem inPre_headLive (regular : Bool) (wnd : BitVec 16) (una : U32) (k : Kcp) : HeadLive (inPre regular wnd una k) := by
  unfold inPre; exact shrinkBuf_headLive _

/-- EVERY step of the parse loop (any command, any state) ends with a live head: `shrink_buf` runs in
the prologue and again after `parse_ack` -/
theorem inStep_headLive (regular : Bool) (conv : U32) (cmd frg : BitVec 8) (wnd : BitVec 16) (ts sn una : U32)
    (payload : Bytes) (st : InLoop) : HeadLive (inStep regular conv cmd frg wnd ts sn una payload st).k := by
  have hp := inPre_headLive regular wnd una st.k
  rw [inStep_k]
  split
  · exact parseFastack_headLive _ sn ts (shrinkBuf_headLive _)
  · split
    · split
      · split
        · obtain ⟨rb, rq, rn, h⟩ := parseData_frame
            { inPre regular wnd una st.k with acklist := (inPre regular wnd una st.k).acklist ++ [⟨sn, ts⟩] }
            (pushSeg conv cmd frg wnd ts sn una payload)
          rw [h]; exact hp
        · exact hp
      · exact hp
    · split
      · exact hp
      · exact hp

theorem inputLoop_headLive (regular : Bool) (fuel : Nat) (data : Bytes) (st : InLoop) (h : HeadLive st.k) :
    HeadLive (inputLoop regular fuel data st).k := by
  apply inputLoop_induct regular (fun x => HeadLive x.k)
  · intro st' r h'; exact h'
  · intro conv cmd frg wnd ts sn una payload st' _ _ _ _
    exact inStep_headLive regular conv cmd frg wnd ts sn una payload st'
  · exact h

/-- an ACK for the head's own `sn` (inside `[snd_una, snd_nxt)`) removes the head at once -/
theorem parseAck_head_leaves (k : Kcp) (s : Seg) (rest : List Seg) (hb : k.snd_buf = s :: rest)
    (h1 : itimediff s.sn k.snd_una ≥ 0) (h2 : itimediff s.sn k.snd_nxt < 0) :
    (shrinkBuf (parseAck k s.sn)).snd_buf = dropAcked rest := by
  rw [shrinkBuf_eq]
  unfold parseAck
  rw [if_neg (by omega)]
  simp only [hb]
  unfold ackLoop
  rw [if_pos rfl]
  simp only [dropAcked, ↓reduceIte]

/-! ### the move loop runs to a fixpoint -/

theorem moveLoop_fix (wnd : Nat) (buf q : List Seg) (nxt : U32) :
    ∀ s rest, (moveLoop wnd buf q nxt).buf = s :: rest → s.sn = (moveLoop wnd buf q nxt).nxt →
      (moveLoop wnd buf q nxt).q.length ≥ wnd := by
  induction buf generalizing q nxt with
  | nil => intro s rest h; simp [moveLoop] at h
  | cons b t ih =>
    unfold moveLoop
    split
    · exact ih _ _
    · rename_i hc
      intro s rest h hs
      simp only [List.cons.injEq] at h
      simp only [] at hs
      rw [← h.1] at hs
      have : ¬ q.length < wnd := fun h' => hc ⟨hs, h'⟩
      simp only [ge_iff_le]
      omega

/-- the move loop only moves elements from the front of the buffer to the back of the queue -/
theorem moveLoop_concat (wnd : Nat) (buf q : List Seg) (nxt : U32) :
    (moveLoop wnd buf q nxt).q ++ (moveLoop wnd buf q nxt).buf = q ++ buf := by
  induction buf generalizing q nxt with
  | nil => simp [moveLoop]
  | cons b t ih =>
    unfold moveLoop
    split
    · rw [ih]; simp
    · rfl

/-- the head of `rcv_buf` is not deliverable: it is not the next expected segment, or the delivery
queue is full -/
def MoveFix (k : Kcp) : Prop :=
  ∀ s rest, k.rcv_buf = s :: rest → s.sn = k.rcv_nxt → k.rcv_queue.length ≥ k.rcv_wnd.toNat

theorem moveReady_fix (k : Kcp) : MoveFix (moveReady k) := by
  unfold MoveFix moveReady
  exact moveLoop_fix k.rcv_wnd.toNat k.rcv_buf k.rcv_queue k.rcv_nxt

theorem parseData_fix (k : Kcp) (s : Seg) (h : MoveFix k) : MoveFix (parseData k s).k := by
  unfold parseData
  split
  · exact h
  · split
    · exact moveReady_fix _
    · split
      · exact h
      · exact moveReady_fix _

theorem recv_fix (k : Kcp) (buflen : Nat) (h : MoveFix k) : MoveFix (recv k buflen).k := by
  unfold recv
  simp only []
  split
  · exact h
  · split
    · exact h
    · split
      · exact moveReady_fix { k with rcv_queue := (popMsg k.rcv_queue).rest }
      · exact moveReady_fix _

theorem recv_ok_fix (k : Kcp) (buflen : Nat) (h : (recv k buflen).n ≥ 0) : MoveFix (recv k buflen).k := by
  unfold recv at h ⊢
  simp only [] at h ⊢
  split
  · rename_i hc; rw [if_pos hc] at h; simp at h
  · rename_i hc
    rw [if_neg hc] at h
    split
    · rename_i hc2; rw [if_pos hc2] at h; simp at h
    · split
      · exact moveReady_fix { k with rcv_queue := (popMsg k.rcv_queue).rest }
      · exact moveReady_fix _

/-! ### the receive-side store -/

theorem mem_heapInsert (s : Seg) (l : List Seg) : s ∈ heapInsert s l := by
  induction l with
  | nil => simp [heapInsert]
  | cons h t ih =>
    unfold heapInsert
    split
    · exact List.mem_cons_self
    · exact List.mem_cons_of_mem _ ih

/-- a new in-window segment of admissible size is stored: it is in `rcv_buf` or already moved to
`rcv_queue`; nothing else enters or leaves the two -/
theorem parseData_store (k : Kcp) (s : Seg)
    (h1 : itimediff s.sn (k.rcv_nxt + k.rcv_wnd) < 0) (h2 : itimediff s.sn k.rcv_nxt ≥ 0)
    (h3 : k.rcv_buf.any (fun x => x.sn = s.sn) = false) (h4 : s.data.length ≤ mtuLimit) :
    (parseData k s).panic = false ∧ (parseData k s).rep = false ∧
    (parseData k s).k.rcv_queue ++ (parseData k s).k.rcv_buf = k.rcv_queue ++ heapInsert s k.rcv_buf := by
  unfold parseData
  rw [if_neg (by omega), h3]
  simp only [Bool.false_eq_true, ↓reduceIte]
  rw [if_neg (by omega)]
  refine ⟨rfl, rfl, ?_⟩
  unfold moveReady
  exact moveLoop_concat _ _ _ _

/-- a duplicate of a buffered segment changes neither the set of buffered nor of queued segments -/
theorem parseData_dup (k : Kcp) (s : Seg)
    (h1 : itimediff s.sn (k.rcv_nxt + k.rcv_wnd) < 0) (h2 : itimediff s.sn k.rcv_nxt ≥ 0)
    (h3 : k.rcv_buf.any (fun x => x.sn = s.sn) = true) :
    (parseData k s).panic = false ∧ (parseData k s).rep = true ∧
    (parseData k s).k.rcv_queue ++ (parseData k s).k.rcv_buf = k.rcv_queue ++ k.rcv_buf := by
  unfold parseData
  rw [if_neg (by omega), h3]
  simp only [↓reduceIte]
  refine ⟨trivial, trivial, ?_⟩
  unfold moveReady
  exact moveLoop_concat _ _ _ _

/-! ### probe bits -/

/-- the ASK_TELL bit is bit 1 -/
theorem tell_iff (x : U32) : x &&& u32 IKCP_ASK_TELL ≠ 0 ↔ x.getLsbD 1 = true := by
  simp only [u32, IKCP_ASK_TELL]
  rw [show BitVec.ofNat 32 2 = BitVec.twoPow 32 1 from by decide, BitVec.and_twoPow]
  cases h : x.getLsbD 1 <;> simp
  decide

theorem tell_or (x : U32) : (x ||| u32 IKCP_ASK_TELL) &&& u32 IKCP_ASK_TELL ≠ 0 := by
  rw [tell_iff, BitVec.getLsbD_or]
  simp only [u32, IKCP_ASK_TELL]
  rw [show (BitVec.ofNat 32 2).getLsbD 1 = true from by decide, Bool.or_true]

theorem tell_or_any (x y : U32) (h : x &&& u32 IKCP_ASK_TELL ≠ 0) : (x ||| y) &&& u32 IKCP_ASK_TELL ≠ 0 := by
  rw [tell_iff] at h ⊢
  rw [BitVec.getLsbD_or, h, Bool.true_or]

section
variable (regular : Bool) (conv : U32) (cmd frg : BitVec 8) (wnd : BitVec 16) (ts sn una : U32)
  (payload : Bytes) (st : InLoop)

/-- a step leaves `probe` alone or sets ASK_TELL (only WASK does) -/
theorem inStep_probe :
    (inStep regular conv cmd frg wnd ts sn una payload st).k.probe =
      if cmd.toNat = IKCP_CMD_WASK then st.k.probe ||| u32 IKCP_ASK_TELL else st.k.probe := by
  have hp := (inPre_rcv regular wnd una st.k).2.2.2.1
  rw [inStep_k]
  by_cases h1 : cmd.toNat = IKCP_CMD_ACK
  · have hnw : ¬ cmd.toNat = IKCP_CMD_WASK := by rw [h1]; decide
    rw [if_pos h1, if_neg hnw]
    obtain ⟨b, u, e2⟩ := ackPath_frame (inPre regular wnd una st.k) sn ts
    rw [e2]; exact hp
  · rw [if_neg h1]
    by_cases h2 : cmd.toNat = IKCP_CMD_PUSH
    · have hnw : ¬ cmd.toNat = IKCP_CMD_WASK := by rw [h2]; decide
      rw [if_pos h2, if_neg hnw]
      split
      · split
        · obtain ⟨rb, rq, rn, h⟩ := parseData_frame
            { inPre regular wnd una st.k with acklist := (inPre regular wnd una st.k).acklist ++ [⟨sn, ts⟩] }
            (pushSeg conv cmd frg wnd ts sn una payload)
          rw [h]; exact hp
        · exact hp
      · exact hp
    · rw [if_neg h2]
      split
      · simp only [hp]
      · exact hp

theorem inStep_tell_mono (h : st.k.probe &&& u32 IKCP_ASK_TELL ≠ 0) :
    (inStep regular conv cmd frg wnd ts sn una payload st).k.probe &&& u32 IKCP_ASK_TELL ≠ 0 := by
  rw [inStep_probe]
  split
  · exact tell_or _
  · exact h
end

theorem inputLoop_tell_mono (regular : Bool) (fuel : Nat) (data : Bytes) (st : InLoop)
    (h : st.k.probe &&& u32 IKCP_ASK_TELL ≠ 0) :
    (inputLoop regular fuel data st).k.probe &&& u32 IKCP_ASK_TELL ≠ 0 := by
  apply inputLoop_induct regular (fun x => x.k.probe &&& u32 IKCP_ASK_TELL ≠ 0)
  · intro st' r h'; exact h'
  · intro conv cmd frg wnd ts sn una payload st' _ _ _ h'
    exact inStep_tell_mono regular conv cmd frg wnd ts sn una payload st' h'
  · exact h

theorem probePhase_probe (k : Kcp) (now : U32) :
    (probePhase k now).probe = k.probe ∨ (probePhase k now).probe = k.probe ||| u32 IKCP_ASK_SEND := by
  unfold probePhase
  split
  · split
    · exact Or.inl rfl
    · split
      · exact Or.inr rfl
      · exact Or.inl rfl
  · exact Or.inl rfl

/-- a pending ASK_TELL is answered by the next flush of either type: a WINS header with the window
computed at this flush is written, and `probe` is cleared -/
theorem flush_wins (k : Kcp) (full : Bool) (now : U32) (h : k.probe &&& u32 IKCP_ASK_TELL ≠ 0) :
    (flush k full now).k.probe = 0 ∧
    ((flush k full now).panic = false → ∃ pre post, (flush k full now).outs.flatten =
      pre ++ encodeHdr k.conv (BitVec.ofNat 8 IKCP_CMD_WINS) 0 (wndUnused k) (flAck k).sc.ts (flAck k).sc.sn k.rcv_nxt 0
        ++ post) := by
  constructor
  · obtain ⟨_, _, _, _, _, _, hk⟩ := flush_frame k full now
    rw [hk]
  · intro hp
    rw [flush_panic] at hp
    have hg := grow_F3b_end k full now
    have hp3 := hg.noPanic hp
    obtain ⟨pw, tp, pr, hpp⟩ := probePhase_frame { k with acklist := [] } now
    have hconv : (flF3a k now).k.conv = k.conv := by rw [flF3a_k, flF2_k, hpp]
    have hprobe : (flF3a k now).k.probe &&& u32 IKCP_ASK_TELL ≠ 0 := by
      rw [flF3a_k, flF2_k]
      rcases probePhase_probe { k with acklist := [] } now with e | e
      · rw [e]; exact h
      · rw [e]; exact tell_or_any _ _ h
    unfold flF3b at hp3 hg
    rw [if_pos hprobe, hconv] at hp3 hg
    have hw := Fl.putHdr_wire _ _ hp3
    rw [Fl.makeSpace_wire] at hw
    obtain ⟨post, hpost⟩ := hg.keeps hw.1
    exact ⟨_, post, by rw [flush_wire, hpost]⟩

theorem send_bit (x : U32) : (x ||| u32 IKCP_ASK_SEND) &&& u32 IKCP_ASK_SEND ≠ 0 := by
  simp only [u32, IKCP_ASK_SEND]
  rw [show BitVec.ofNat 32 1 = BitVec.twoPow 32 0 from by decide, BitVec.and_twoPow, BitVec.getLsbD_or]
  rw [show (BitVec.twoPow 32 0).getLsbD 0 = true from by decide, Bool.or_true]
  simp only [↓reduceIte]
  decide

/-- the probe timer fields after a flush are those written by phase 2 -/
theorem flush_probe_timer (k : Kcp) (full : Bool) (now : U32) :
    (flush k full now).k.probe_wait = (probePhase { k with acklist := [] } now).probe_wait ∧
    (flush k full now).k.ts_probe = (probePhase { k with acklist := [] } now).ts_probe := by
  rw [flush_eq]
  simp only []
  obtain ⟨ss, cw, inc, h6⟩ := phase6_frame (flF5 k full now).k (flX k full now).change (flX k full now).lost
    (effWnd (flF3 k now).k) (resentOf (flF4 k now).k)
  rw [h6]
  have hx := (ext_X k full now).k
  unfold flF5
  simp only []
  rw [hx, flF4_k]
  exact ⟨rfl, rfl⟩

/-- a due probe timer puts a WASK header into the same flush -/
theorem flush_wask (k : Kcp) (full : Bool) (now : U32) (h0 : k.rmt_wnd = 0) (h1 : k.probe_wait ≠ 0)
    (h2 : itimediff now k.ts_probe ≥ 0) :
    (flush k full now).k.probe_wait = nextProbeWait k.probe_wait ∧
    (flush k full now).k.ts_probe = now + nextProbeWait k.probe_wait ∧
    ((flush k full now).panic = false → ∃ pre post, (flush k full now).outs.flatten =
      pre ++ encodeHdr k.conv (BitVec.ofNat 8 IKCP_CMD_WASK) 0 (wndUnused k) (flAck k).sc.ts (flAck k).sc.sn k.rcv_nxt 0
        ++ post) := by
  have hpp : probePhase { k with acklist := [] } now =
      { k with acklist := [], probe_wait := nextProbeWait k.probe_wait, ts_probe := now + nextProbeWait k.probe_wait,
               probe := k.probe ||| u32 IKCP_ASK_SEND } := by
    unfold probePhase
    rw [if_pos h0, if_neg h1, if_pos h2]
  have hf := flush_probe_timer k full now
  refine ⟨by rw [hf.1, hpp], by rw [hf.2, hpp], ?_⟩
  intro hp
  rw [flush_panic] at hp
  have hg := (grow_F3b k now).trans (grow_F3b_end k full now)
  have hp3 := hg.noPanic hp
  have hconv : (flF2 k now).k.conv = k.conv := by rw [flF2_k, hpp]
  have hprobe : (flF2 k now).k.probe &&& u32 IKCP_ASK_SEND ≠ 0 := by
    rw [flF2_k, hpp]; exact send_bit _
  unfold flF3a at hp3 hg
  rw [if_pos hprobe, hconv] at hp3 hg
  have hw := Fl.putHdr_wire _ _ hp3
  rw [Fl.makeSpace_wire] at hw
  obtain ⟨post, hpost⟩ := hg.keeps hw.1
  exact ⟨_, post, by rw [flush_wire, hpost]⟩

/-! ### throttling -/

/-- with a zero remote window the effective window of phase 4 is zero -/
theorem effWnd_zero (k : Kcp) (h : k.rmt_wnd = 0) : effWnd k = 0 := by
  unfold effWnd
  rw [h]
  generalize k.snd_wnd = a
  generalize k.cwnd = c
  repeat' split
  all_goals bv_omega

end KcpVerif.Live
