/-
Helper lemmas for the no-wedge invariants of C02/C03: ack list, cumulative una, the move loop,
the receive-side store.  Core Lean only.
-/
import KcpVerif.Lemmas.KcpFlush
import KcpVerif.Lemmas.KcpInput

namespace KcpVerif.Kcp
open KcpVerif KcpVerif.Gen

/-! ### ack list -/

section
variable (regular : Bool) (conv : U32) (cmd frg : BitVec 8) (wnd : BitVec 16) (ts sn una : U32)
  (payload : Bytes) (st : InLoop)

theorem inPre_rcv (k : Kcp) :
    (inPre regular wnd una k).rcv_nxt = k.rcv_nxt ∧ (inPre regular wnd una k).rcv_wnd = k.rcv_wnd ∧
    (inPre regular wnd una k).acklist = k.acklist ∧ (inPre regular wnd una k).probe = k.probe ∧
    (inPre regular wnd una k).rcv_buf = k.rcv_buf ∧ (inPre regular wnd una k).rcv_queue = k.rcv_queue := by
  obtain ⟨sb, su, h⟩ := inPre_frame regular wnd una k
  rw [h]; exact ⟨rfl, rfl, rfl, rfl, rfl, rfl⟩

/-- a PUSH below the top of the receive window is always put on the ack list -/
theorem inStep_push_acklist (hc : cmd.toNat = IKCP_CMD_PUSH)
    (hw : itimediff sn (st.k.rcv_nxt + st.k.rcv_wnd) < 0) :
    (inStep regular conv cmd frg wnd ts sn una payload st).k.acklist = st.k.acklist ++ [⟨sn, ts⟩] := by
  have hp := inPre_rcv regular wnd una st.k
  have hne : ¬ cmd.toNat = IKCP_CMD_ACK := by rw [hc]; decide
  rw [inStep_k, if_neg hne, if_pos hc, hp.1, hp.2.1, if_pos hw]
  split
  · obtain ⟨rb, rq, rn, h⟩ := parseData_frame
      { inPre regular wnd una st.k with acklist := (inPre regular wnd una st.k).acklist ++ [⟨sn, ts⟩] }
      (pushSeg conv cmd frg wnd ts sn una payload)
    rw [h]; simp only [hp.2.2.1]
  · simp only [hp.2.2.1]

/-- a PUSH at or beyond the top of the window is not acknowledged and changes nothing on the
receive side -/
theorem inStep_push_refused (hc : cmd.toNat = IKCP_CMD_PUSH)
    (hw : ¬ itimediff sn (st.k.rcv_nxt + st.k.rcv_wnd) < 0) :
    (inStep regular conv cmd frg wnd ts sn una payload st).k = inPre regular wnd una st.k := by
  have hp := inPre_rcv regular wnd una st.k
  have hne : ¬ cmd.toNat = IKCP_CMD_ACK := by rw [hc]; decide
  rw [inStep_k, if_neg hne, if_pos hc, hp.1, hp.2.1, if_neg hw]

/-- no step removes anything from the ack list -/
theorem inStep_acklist_mono :
    ∃ t, (inStep regular conv cmd frg wnd ts sn una payload st).k.acklist = st.k.acklist ++ t := by
  have hp := inPre_rcv regular wnd una st.k
  rw [inStep_k]
  split
  · obtain ⟨b, h1⟩ := parseAck_frame (inPre regular wnd una st.k) sn
    obtain ⟨b2, h2⟩ := parseFastack_frame (parseAck (inPre regular wnd una st.k) sn) sn ts
    exact ⟨[], by rw [h2, h1]; simp [hp.2.2.1]⟩
  · split
    · split
      · split
        · obtain ⟨rb, rq, rn, h⟩ := parseData_frame
            { inPre regular wnd una st.k with acklist := (inPre regular wnd una st.k).acklist ++ [⟨sn, ts⟩] }
            (pushSeg conv cmd frg wnd ts sn una payload)
          exact ⟨[⟨sn, ts⟩], by rw [h]; simp only [hp.2.2.1]⟩
        · exact ⟨[⟨sn, ts⟩], by simp only [hp.2.2.1]⟩
      · exact ⟨[], by simp [hp.2.2.1]⟩
    · split
      · exact ⟨[], by simp [hp.2.2.1]⟩
      · exact ⟨[], by simp [hp.2.2.1]⟩
end

theorem inputLoop_acklist_mono (regular : Bool) (fuel : Nat) (data : Bytes) (st : InLoop) :
    ∃ t, (inputLoop regular fuel data st).k.acklist = st.k.acklist ++ t := by
  apply inputLoop_induct regular (fun x => ∃ t, x.k.acklist = st.k.acklist ++ t)
  · intro st' r h; exact h
  · intro conv cmd frg wnd ts sn una payload st' _ _ _ ⟨t, ht⟩
    obtain ⟨u, hu⟩ := inStep_acklist_mono regular conv cmd frg wnd ts sn una payload st'
    exact ⟨t ++ u, by rw [hu, ht, List.append_assoc]⟩
  · exact ⟨[], by simp⟩

/-! ### cumulative una -/

theorem drop_unaCount (u : U32) (l : List Seg) :
    l.drop (unaCount u l) = l.dropWhile (fun s => decide (itimediff u s.sn > 0)) := by
  induction l with
  | nil => rfl
  | cons s rest ih =>
    unfold unaCount
    by_cases h : itimediff u s.sn > 0
    · rw [if_pos h, List.drop_succ_cons, ih, List.dropWhile_cons_of_pos (by simpa using h)]
    · rw [if_neg h, List.drop_zero, List.dropWhile_cons_of_neg (by simpa using h)]

/-! ### the move loop runs to a fixpoint -/

theorem moveLoop_fix (wnd : Nat) (buf q : List Seg) (nxt : U32) :
    ∀ s rest, (moveLoop wnd buf q nxt).buf = s :: rest → s.sn = (moveLoop wnd buf q nxt).nxt →
      (moveLoop wnd buf q nxt).q.length ≥ wnd := by
  induction buf generalizing q nxt with
  | nil => intro s rest h; simp [moveLoop] at h
  | cons b t ih =>
    unfold moveLoop
    split
    · exact ih _ _
    · rename_i hc
      intro s rest h hs
      simp only [List.cons.injEq] at h
      simp only [] at hs
      rw [← h.1] at hs
      have : ¬ q.length < wnd := fun h' => hc ⟨hs, h'⟩
      simp only [ge_iff_le]
      omega

/-- the move loop only moves elements from the front of the buffer to the back of the queue -/
theorem moveLoop_concat (wnd : Nat) (buf q : List Seg) (nxt : U32) :
    (moveLoop wnd buf q nxt).q ++ (moveLoop wnd buf q nxt).buf = q ++ buf := by
  induction buf generalizing q nxt with
  | nil => simp [moveLoop]
  | cons b t ih =>
    unfold moveLoop
    split
    · rw [ih]; simp
    · rfl

/-- the head of `rcv_buf` is not deliverable: it is not the next expected segment, or the delivery
queue is full -/
def MoveFix (k : Kcp) : Prop :=
  ∀ s rest, k.rcv_buf = s :: rest → s.sn = k.rcv_nxt → k.rcv_queue.length ≥ k.rcv_wnd.toNat

theorem moveReady_fix (k : Kcp) : MoveFix (moveReady k) := by
  unfold MoveFix moveReady
  exact moveLoop_fix k.rcv_wnd.toNat k.rcv_buf k.rcv_queue k.rcv_nxt

theorem parseData_fix (k : Kcp) (s : Seg) (h : MoveFix k) : MoveFix (parseData k s).k := by
  unfold parseData
  split
  · exact h
  · split
    · exact moveReady_fix _
    · split
      · exact h
      · exact moveReady_fix _

theorem recv_fix (k : Kcp) (buflen : Nat) (h : MoveFix k) : MoveFix (recv k buflen).k := by
  unfold recv
  simp only []
  split
  · exact h
  · split
    · exact h
    · split
      · exact moveReady_fix { k with rcv_queue := (popMsg k.rcv_queue).rest }
      · exact moveReady_fix _

theorem recv_ok_fix (k : Kcp) (buflen : Nat) (h : (recv k buflen).n ≥ 0) : MoveFix (recv k buflen).k := by
  unfold recv at h ⊢
  simp only [] at h ⊢
  split
  · rename_i hc; rw [if_pos hc] at h; simp at h
  · rename_i hc
    rw [if_neg hc] at h
    split
    · rename_i hc2; rw [if_pos hc2] at h; simp at h
    · split
      · exact moveReady_fix { k with rcv_queue := (popMsg k.rcv_queue).rest }
      · exact moveReady_fix _

end KcpVerif.Kcp
