/-
C02, the wedge: a flush of a core that owes no ACK, has no probe pending, believes the peer's window
open, can move nothing from its send queue and holds only segments flagged `acked` writes nothing and changes
nothing that matters (`flush_idle`).  A system state in which both cores are like that and both links
are empty is stuck for ever (`Stuck`, `stuck_run`; over `Old.step`, the system with the PRE-REPAIR
`Input` of Model/SysOld.lean — the events other than the two deliveries are those of `Sys.step`) — although A's send buffer is not empty.  Such a
state is produced by a finite fault history (`wedgeState`): one reordered datagram and one lost one.
-/
import KcpVerif.Lemmas.SysProgress2
import KcpVerif.Model.SysOld

namespace KcpVerif.SysC
open KcpVerif KcpVerif.Gen KcpVerif.Kcp KcpVerif.Live KcpVerif.Wire KcpVerif.SysW KcpVerif.Sys

theorem fold_acked (now resent : U32) (wnd : BitVec 16) (una : U32) (n : Nat) : ∀ (l : List Seg) (st : XmitSt),
    (∀ x ∈ l, x.acked = true) → l.foldl (xmitOne now resent wnd una n) st = { st with done := st.done ++ l } := by
  intro l
  induction l with
  | nil => intro st _; simp
  | cons a r ih =>
    intro st h
    simp only [List.foldl_cons]
    have ha : xmitOne now resent wnd una n st a = { st with done := st.done ++ [a] } := by
      unfold xmitOne; rw [if_pos (h a (List.mem_cons_self ..))]
    rw [ha, ih _ (fun x hx => h x (List.mem_cons_of_mem _ hx))]
    simp

/-- the core has nothing to say and nothing it may send -/
structure Idle (k : Kcp) : Prop where
  ack : k.acklist = []
  prb : k.probe = 0
  rmt : k.rmt_wnd ≠ 0
  ncw : k.nocwnd ≠ 0
  cls : itimediff k.snd_nxt (k.snd_una + effWnd k) ≥ 0 ∨ k.snd_queue = []
  akd : ∀ x ∈ k.snd_buf, x.acked = true

theorem flush_idle (k : Kcp) (full : Bool) (now : U32) (h : Idle k) :
    (flush k full now).outs = [] ∧ (flush k full now).panic = false ∧
    (flush k full now).k = { k with ts_probe := 0, probe_wait := 0 } := by
  have h3 : flF3 k now = { k := { k with ts_probe := 0, probe_wait := 0 } } := by
    unfold flF3 flF3b flF3a flF2 flF1 flAck
    simp only [h.ack, ackFlush, probePhase, if_neg h.rmt, h.prb]
    simp
  have hk3 : (flF3 k now).k = { k with ts_probe := 0, probe_wait := 0 } := by rw [h3]
  have heff : effWnd (flF3 k now).k = effWnd k := by rw [hk3]; rfl
  have had : flAd k now = ⟨k.snd_queue, k.snd_buf, k.snd_nxt, 0⟩ := by
    unfold flAd
    rw [heff, hk3]
    rcases h.cls with hc | hc
    · exact admitSegs_closed _ _ _ _ _ _ _ _ hc
    · show admitSegs _ _ _ _ k.snd_queue _ _ _ = _
      rw [hc]; rfl
  have h4 : flF4 k now = { k := { k with ts_probe := 0, probe_wait := 0 } } := by
    unfold flF4
    rw [had, h3]
  have hx : (flX k full now).f = flF4 k now ∧ (flX k full now).done = k.snd_buf ∧
      (flX k full now).change = 0 ∧ (flX k full now).lost = 0 := by
    have hb : (flF4 k now).k.snd_buf = k.snd_buf := by rw [h4]
    cases full
    · rw [flX_ackonly]
      exact ⟨rfl, hb, rfl, rfl⟩
    · have e : flX k true now = (flF4 k now).k.snd_buf.foldl
          (xmitOne now (resentOf (flF4 k now).k) (wndUnused k) k.rcv_nxt (flAd k now).count)
          { f := flF4 k now, next := (flF4 k now).k.interval } := by
        unfold flX; rfl
      rw [e, hb, fold_acked _ _ _ _ _ _ _ h.akd]
      exact ⟨rfl, by simp, rfl, rfl⟩
  have h5 : flF5 k full now = { k := { k with ts_probe := 0, probe_wait := 0 } } := by
    unfold flF5
    rw [hx.1, hx.2.1, h4]
  rw [flush_eq, h5, hx.2.2.1, hx.2.2.2]
  refine ⟨by simp, rfl, ?_⟩
  unfold phase6
  rw [if_neg (by exact h.ncw)]

theorem Idle.keep {k : Kcp} (h : Idle k) : Idle { k with ts_probe := 0, probe_wait := 0 } :=
  ⟨h.ack, h.prb, h.rmt, h.ncw, h.cls, h.akd⟩

/-- both cores idle, both links empty, nothing for the reader -/
structure Stuck (s : State) : Prop where
  ab : s.ab = []
  ba : s.ba = []
  a  : Idle s.A
  b  : Idle s.B
  bq : s.B.rcv_queue = []
  ac : itimediff s.A.snd_nxt (s.A.snd_una + effWnd s.A) ≥ 0   -- A's admission is closed, queue or not

theorem stuck_step (s : State) (h : Stuck s) (ev : Ev) :
    Stuck (Old.step s ev) ∧ (Old.step s ev).A.snd_buf = s.A.snd_buf ∧ (Old.step s ev).got = s.got ∧
    (Old.step s ev).A.snd_nxt = s.A.snd_nxt := by
  cases ev with
  | tick =>
    rw [show Old.step s .tick = (if quiet s then { s with now := s.now + 1 } else s) from rfl]
    split
    · exact ⟨⟨h.ab, h.ba, h.a, h.b, h.bq, h.ac⟩, rfl, rfl, rfl⟩
    · exact ⟨h, rfl, rfl, rfl⟩
  | send b =>
    have hq := Frame.send_k s.A b
    have e : ∀ (P : Kcp → Prop), P { s.A with snd_queue := (s.A.send b).k.snd_queue } → P (s.A.send b).k := by
      intro P hp; rw [hq]; exact hp
    rw [show Old.step s (.send b) = { s with A := (s.A.send b).k, panic := s.panic || (s.A.send b).panic } from rfl]
    refine ⟨⟨h.ab, h.ba, ?_, h.b, h.bq, ?_⟩, ?_, rfl, ?_⟩
    · exact e Idle ⟨h.a.ack, h.a.prb, h.a.rmt, h.a.ncw, Or.inl h.ac, h.a.akd⟩
    · exact e (fun k => itimediff k.snd_nxt (k.snd_una + effWnd k) ≥ 0) h.ac
    · exact e (fun k => k.snd_buf = s.A.snd_buf) rfl
    · exact e (fun k => k.snd_nxt = s.A.snd_nxt) rfl
  | read =>
    have hp : s.B.peekSize = -1 := by unfold peekSize; rw [h.bq]
    have hn : (s.B.recv s.B.peekSize.toNat).n < 0 := by
      unfold recv; rw [hp]; simp
    rw [show Old.step s .read = (if (s.B.recv s.B.peekSize.toNat).n < 0 then s
      else { s with B := (s.B.recv s.B.peekSize.toNat).k, got := s.got ++ (s.B.recv s.B.peekSize.toNat).data }) from rfl]
    rw [if_pos hn]
    exact ⟨h, rfl, rfl, rfl⟩
  | dlvA =>
    have : Old.step s .dlvA = s := by simp only [Old.step, h.ba]
    rw [this]; exact ⟨h, rfl, rfl, rfl⟩
  | dlvB =>
    have : Old.step s .dlvB = s := by simp only [Old.step, h.ab]
    rw [this]; exact ⟨h, rfl, rfl, rfl⟩
  | flushA =>
    obtain ⟨o1, o2, o3⟩ := flush_idle s.A true (clk s.now) h.a
    rw [show Old.step s .flushA = afterFlushA s (s.now + (s.A.flush true (clk s.now)).interval.toNat) from rfl]
    unfold afterFlushA
    rw [o1, o3]
    exact ⟨⟨by show s.ab ++ stamp _ [] = []; rw [h.ab]; rfl, h.ba, h.a.keep, h.b, h.bq, h.ac⟩, rfl, rfl, rfl⟩
  | flushB =>
    obtain ⟨o1, o2, o3⟩ := flush_idle s.B true (clk s.now) h.b
    rw [show Old.step s .flushB = afterFlushB s true (s.now + (s.B.flush true (clk s.now)).interval.toNat) from rfl]
    unfold afterFlushB
    rw [o1, o3]
    exact ⟨⟨h.ab, by show s.ba ++ stamp _ [] = []; rw [h.ba]; rfl, h.a, h.b.keep, h.bq, h.ac⟩, rfl, rfl, rfl⟩

/-- **a stuck state is stuck for ever**, whatever the schedule and whatever the writer writes: A's send
buffer never changes, nothing is admitted, the reader gets nothing more -/
theorem stuck_run : ∀ (evs : List Ev) (s : State), Stuck s →
    Stuck (Old.run s evs) ∧ (Old.run s evs).A.snd_buf = s.A.snd_buf ∧ (Old.run s evs).got = s.got ∧
    (Old.run s evs).A.snd_nxt = s.A.snd_nxt := by
  intro evs
  induction evs with
  | nil => intro s h; exact ⟨h, rfl, rfl, rfl⟩
  | cons e r ih =>
    intro s h
    obtain ⟨h1, h2, h3, h4⟩ := stuck_step s h e
    obtain ⟨i1, i2, i3, i4⟩ := ih _ h1
    exact ⟨i1, i2.trans h2, i3.trans h3, i4.trans h4⟩

/-! ### time passes in a stuck state, and nothing else happens -/

theorem flush_idle_interval (k : Kcp) (now : U32) (h : Idle k) : (flush k true now).interval = k.interval := by
  have h3 : flF3 k now = { k := { k with ts_probe := 0, probe_wait := 0 } } := by
    unfold flF3 flF3b flF3a flF2 flF1 flAck
    simp only [h.ack, ackFlush, probePhase, if_neg h.rmt, h.prb]
    simp
  have hk3 : (flF3 k now).k = { k with ts_probe := 0, probe_wait := 0 } := by rw [h3]
  have heff : effWnd (flF3 k now).k = effWnd k := by rw [hk3]; rfl
  have had : flAd k now = ⟨k.snd_queue, k.snd_buf, k.snd_nxt, 0⟩ := by
    unfold flAd
    rw [heff, hk3]
    rcases h.cls with hc | hc
    · exact admitSegs_closed _ _ _ _ _ _ _ _ hc
    · show admitSegs _ _ _ _ k.snd_queue _ _ _ = _
      rw [hc]; rfl
  have h4 : flF4 k now = { k := { k with ts_probe := 0, probe_wait := 0 } } := by
    unfold flF4
    rw [had, h3]
  have hb : (flF4 k now).k.snd_buf = k.snd_buf := by rw [h4]
  have e : flX k true now = (flF4 k now).k.snd_buf.foldl
      (xmitOne now (resentOf (flF4 k now).k) (wndUnused k) k.rcv_nxt (flAd k now).count)
      { f := flF4 k now, next := (flF4 k now).k.interval } := by
    unfold flX; rfl
  rw [flush_eq]
  show (flX k true now).next = _
  rw [e, hb, fold_acked _ _ _ _ _ _ _ h.akd, h4]

theorem old_run_append (s : State) (a b : List Ev) : Old.run s (a ++ b) = Old.run (Old.run s a) b := by
  unfold Old.run; rw [List.foldl_append]

/-- one millisecond of a stuck system: both flushes (they are due at some point), then the tick -/
def stuckRound : List Ev := [.flushA, .flushB, .tick]

theorem stuck_round (s : State) (h : Stuck s) (ha : 0 < s.A.interval.toNat) (hb : 0 < s.B.interval.toNat) :
    (Old.run s stuckRound).now = s.now + 1 ∧ (Old.run s stuckRound).A.interval = s.A.interval ∧
    (Old.run s stuckRound).B.interval = s.B.interval := by
  obtain ⟨a1, a2, a3⟩ := flush_idle s.A true (clk s.now) h.a
  have a4 := flush_idle_interval s.A (clk s.now) h.a
  obtain ⟨b1, b2, b3⟩ := flush_idle s.B true (clk s.now) h.b
  have b4 := flush_idle_interval s.B (clk s.now) h.b
  have e1 : Old.step s .flushA = afterFlushA s (s.now + (s.A.flush true (clk s.now)).interval.toNat) := rfl
  have hq : quiet (Old.step (Old.step s .flushA) .flushB) = true := by
    unfold quiet
    simp only [Bool.and_eq_true, List.all_eq_true, decide_eq_true_eq]
    have hp : (Old.step (Old.step s .flushA) .flushB).B.peekSize = -1 := by
      show ((s.B.flush true (clk s.now)).k).peekSize = -1
      rw [b3]; unfold peekSize; show (match s.B.rcv_queue with | [] => (-1 : Int) | _ :: _ => _) = -1
      rw [h.bq]
    refine ⟨⟨⟨⟨?_, ?_⟩, ?_⟩, ?_⟩, by rw [hp]; decide⟩
    · show ∀ d ∈ s.ab ++ stamp _ (s.A.flush true (clk s.now)).outs, _
      rw [a1, h.ab]; intro d hd; simp [stamp] at hd
    · show ∀ d ∈ s.ba ++ stamp _ (s.B.flush true (clk s.now)).outs, _
      rw [b1, h.ba]; intro d hd; simp [stamp] at hd
    · show s.now < s.now + (s.A.flush true (clk s.now)).interval.toNat
      rw [a4]; omega
    · show s.now < s.now + (s.B.flush true (clk s.now)).interval.toNat
      rw [b4]; omega
  have e3 : Old.run s stuckRound =
      { Old.step (Old.step s .flushA) .flushB with now := (Old.step (Old.step s .flushA) .flushB).now + 1 } := by
    show Old.step (Old.step (Old.step s .flushA) .flushB) .tick = _
    show (if quiet (Old.step (Old.step s .flushA) .flushB) then _ else _) = _
    rw [if_pos hq]
  rw [e3]
  refine ⟨rfl, ?_, ?_⟩
  · show (s.A.flush true (clk s.now)).k.interval = _
    rw [a3]
  · show (s.B.flush true (clk s.now)).k.interval = _
    rw [b3]

/-- `n` rounds -/
def stuckRounds : Nat → List Ev
  | 0 => []
  | n + 1 => stuckRound ++ stuckRounds n

theorem stuckRounds_nosend : ∀ n, ∀ ev ∈ stuckRounds n, ∀ b, ev ≠ .send b := by
  intro n
  induction n with
  | zero => intro ev h; simp [stuckRounds] at h
  | succ m ih =>
    intro ev h b
    unfold stuckRounds at h
    rcases List.mem_append.mp h with h | h
    · simp [stuckRound] at h
      rcases h with rfl | rfl | rfl <;> exact fun c => by cases c
    · exact ih ev h b

theorem stuck_rounds_now : ∀ (n : Nat) (s : State), Stuck s → 0 < s.A.interval.toNat → 0 < s.B.interval.toNat →
    (Old.run s (stuckRounds n)).now = s.now + n := by
  intro n
  induction n with
  | zero => intro s _ _ _; rfl
  | succ m ih =>
    intro s h ha hb
    unfold stuckRounds
    rw [old_run_append]
    obtain ⟨r1, r2, r3⟩ := stuck_round s h ha hb
    rw [ih _ (stuck_run stuckRound s h).1 (by rw [r2]; exact ha) (by rw [r3]; exact hb), r1]
    omega

/-! ### the fault history that leads there

`D = 0`; `rcv_wnd = 1` at B; nodelay mode without congestion window on both sides.  The two link
manipulations are the faults: the first datagram of B is held back and delivered after the second
(reordering), the third is lost. -/

def wedgeA : Kcp := Kcp.noDelay (Kcp.new 1) 1 10 2 1
def wedgeB : Kcp := Kcp.wndSize (Kcp.noDelay (Kcp.new 1) 1 10 2 1) 32 1

/-- A sends segment 0; B takes it, the reader reads it, B flushes `X0 = [ACK 0, una 1, wnd 1]` -/
def wedge1 : State := Old.run (Sys.init wedgeA wedgeB 0 1000) [.send [0], .flushA, .dlvB, .read, .flushB]
/-- `X0` is held back by the network.  A sends segments 1 and 2 in one datagram; B queues 1 (the queue
is full now) and keeps 2 in the reorder buffer, acknowledged but not delivered:
`X1 = [ACK 2, una 2, wnd 0]`; A inputs `X1`: 0 and 1 removed, 2 FLAGGED, `rmt_wnd = 0` -/
def wedge2 : State := Old.run { wedge1 with ba := [] } [.send [1], .send [2], .flushA, .dlvB, .flushB, .dlvA]
/-- the stale `X0` arrives now (`rmt_wnd = 1` again: the zero-window probe is disarmed); the reader reads
1 and 2; B flushes the window update `[WINS, una 3]` -/
def wedge3 : State := Old.run { wedge2 with ba := wedge1.ba } [.dlvA, .read, .read, .flushB]
/-- the window update is lost — the last fault -/
def wedgeState : State := { wedge3 with ba := [] }

end KcpVerif.SysC
