import KcpVerif.Lemmas.SchedLive
/-!
C17, `Close`: an extension of the transition system of `Model/Sched.lean` by `Close()`
(`close(ts.die)`, timedsched.go 184) and the `case <-ts.die: return` arms of the three `select`s
(lines 138, 160, 165).  Not linked into the driver; proofs only.

* `close` sets the flag (idempotent, `dieOnce`);
* `exitW i`: worker `i`, standing at its `select` after `close`, returns (its deferred `timer.Stop()`
  is modelled by disabling `fire` for an exited worker);
* `exitP`: the prepend goroutine, standing at its outer `select` or at the inner one (a batch it is
  handing over is abandoned), returns;
* every other step is a step of the base system, restricted to goroutines that have not returned.
  `Put` has no `die` check in the code, so it stays enabled: tasks submitted after (or too shortly
  before) `Close` are appended and never run.

Because every step either is a base step or leaves the base state unchanged (`CReachable.base`),
all safety theorems of C17 hold verbatim with `Close`.
-/
namespace KcpVerif.Sched

structure CState where
  s : State
  closed : Bool
  pexit : Bool
  wexit : List Bool
deriving DecidableEq, Repr

inductive CLabel
  | base (l : Label)
  | close
  | exitW (i : Nat)
  | exitP
deriving DecidableEq, Repr

def CState.wexited (cs : CState) (i : Nat) : Bool := cs.wexit.getD i false

/-- which base steps are still possible: a goroutine that has returned takes no step, a stopped
    timer does not fire, nobody receives from `chTask` for a returned worker -/
def CState.allowed (cs : CState) : Label → Bool
  | .tick _ => true
  | .put _ _ => true
  | .notify => true
  | .takeToken => !cs.pexit
  | .swap => !cs.pexit
  | .handoff i => !cs.pexit && !cs.wexited i
  | .w i _ => !cs.wexited i

def cstep (m : Mode) (cs : CState) : CLabel → Option CState
  | .base l =>
    if cs.allowed l = true then
      match step m cs.s l with
      | some s' => some { cs with s := s' }
      | none => none
    else none
  | .close => some { cs with closed := true }
  | .exitW i =>
    match cs.s.ws[i]? with
    | some w =>
      if cs.closed = true ∧ cs.wexited i = false ∧ w.pc = .select then
        some { cs with wexit := cs.wexit.set i true }
      else none
    | none => none
  | .exitP =>
    if cs.closed = true ∧ cs.pexit = false ∧ cs.s.ppc = .idle then some { cs with pexit := true }
    else none

def cinit (k : Nat) (t0 : Time) : CState :=
  { s := init k t0, closed := false, pexit := false, wexit := List.replicate k false }

inductive CReachable (m : Mode) (k : Nat) (t0 : Time) : CState → Prop
  | init : CReachable m k t0 (cinit k t0)
  | step {cs cs' : CState} {l : CLabel} : CReachable m k t0 cs → cstep m cs l = some cs' →
      CReachable m k t0 cs'

/-- what a step of the closable system does to the base state -/
theorem cstep_base {m : Mode} {cs cs' : CState} {l : CLabel} (h : cstep m cs l = some cs') :
    cs'.s = cs.s ∨ ∃ bl, l = .base bl ∧ cs.allowed bl = true ∧ step m cs.s bl = some cs'.s := by
  cases l with
  | base bl =>
    simp only [cstep] at h
    split at h <;> try contradiction
    rename_i hal
    split at h <;> cases h
    rename_i s' hs'
    exact Or.inr ⟨bl, rfl, hal, hs'⟩
  | close => simp only [cstep, Option.some.injEq] at h; subst h; exact Or.inl rfl
  | exitW i =>
    simp only [cstep] at h
    split at h <;> try contradiction
    split at h <;> cases h
    exact Or.inl rfl
  | exitP =>
    simp only [cstep] at h
    split at h <;> cases h
    exact Or.inl rfl

/-- **simulation**: the base state of every state reachable with `Close` is reachable without it -/
theorem CReachable.base {m : Mode} {k : Nat} {t0 : Time} {cs : CState} (h : CReachable m k t0 cs) :
    Reachable m k t0 cs.s := by
  induction h with
  | init => exact Reachable.init
  | step _ hs ih =>
    rcases cstep_base hs with he | ⟨bl, _, _, hb⟩
    · rw [he]; exact ih
    · exact ih.step hb

/-- **no goroutine blocks for ever after `Close`**: a worker that has not returned can take an own
    step (outside its `select`) or return (at its `select`) -/
theorem close_worker_not_blocked {m : Mode} {k : Nat} {t0 : Time} {cs : CState}
    (h : CReachable m k t0 cs) (hc : cs.closed = true) {i : Nat} {w : Worker}
    (hw : cs.s.ws[i]? = some w) (hne : cs.wexited i = false) :
    (cstep m cs (.exitW i)).isSome ∨
    ∃ l, (∀ v, l ≠ .fire v) ∧ (cstep m cs (.base (.w i l))).isSome := by
  by_cases hsel : w.pc = .select
  · left
    simp [cstep, hw, hc, hne, hsel]
  · right
    obtain ⟨l, hnf, hen⟩ := wstep_enabled (h.base.invW w (List.mem_of_getElem? hw)) hsel
    refine ⟨l, hnf, ?_⟩
    obtain ⟨s', hs'⟩ := Option.isSome_iff_exists.mp (step_w_isSome hw hen)
    simp [cstep, CState.allowed, hne, hs']

/-- … and the prepend goroutine can return, or finish its swap and then return -/
theorem close_prepend_not_blocked {m : Mode} {cs : CState} (hc : cs.closed = true)
    (hne : cs.pexit = false) :
    (cstep m cs .exitP).isSome ∨ (cstep m cs (.base .swap)).isSome := by
  cases hp : cs.s.ppc with
  | idle => left; simp [cstep, hc, hne, hp]
  | gotToken => right; simp [cstep, CState.allowed, hne, Sched.step, hp]

theorem step_done_of_not_w {m : Mode} {s s' : State} {l : Label} (hs : step m s l = some s')
    (hl : ∀ i wl, l ≠ .w i wl) : s'.done = s.done := by
  cases l with
  | tick d => simp only [Sched.step, Option.some.injEq] at hs; subst hs; rfl
  | put id ts => simp only [Sched.step] at hs; split at hs <;> cases hs; rfl
  | notify => simp only [Sched.step] at hs; split at hs <;> cases hs; rfl
  | takeToken => simp only [Sched.step] at hs; split at hs <;> cases hs; rfl
  | swap => simp only [Sched.step] at hs; split at hs <;> cases hs; rfl
  | handoff i =>
    obtain ⟨t, rest, w, w', _, _, _, _, rfl⟩ := step_handoff hs
    rfl
  | w i wl => exact absurd rfl (hl i wl)

/-- **after every worker has returned nothing runs any more**: `done` is frozen; whatever is still
    in `prependTasks`, the batch or a heap is abandoned -/
theorem close_frozen {m : Mode} {cs cs' : CState} {l : CLabel}
    (hall : ∀ i, i < cs.s.ws.length → cs.wexited i = true) (hs : cstep m cs l = some cs') :
    cs'.s.done = cs.s.done := by
  rcases cstep_base hs with he | ⟨bl, _, hal, hb⟩
  · rw [he]
  · apply step_done_of_not_w hb
    intro i wl he
    subst he
    obtain ⟨w, out, hw, _, _⟩ := step_w hb
    have hlt : i < cs.s.ws.length := (List.getElem?_eq_some_iff.mp hw).1
    have := hall i hlt
    simp [CState.allowed, this] at hal

def crun (m : Mode) : CState → List CLabel → Option CState
  | cs, [] => some cs
  | cs, l :: ls =>
    match cstep m cs l with
    | none => none
    | some cs' => crun m cs' ls

theorem CReachable.crun {m : Mode} {k : Nat} {t0 : Time} : ∀ {ls : List CLabel} {cs cs' : CState},
    CReachable m k t0 cs → Sched.crun m cs ls = some cs' → CReachable m k t0 cs'
  | [], cs, cs', h, hr => by cases hr; exact h
  | l :: ls, cs, cs', h, hr => by
    simp only [Sched.crun] at hr
    split at hr <;> try contradiction
    rename_i cs1 hs1
    exact CReachable.crun (h.step hs1) hr

end KcpVerif.Sched
