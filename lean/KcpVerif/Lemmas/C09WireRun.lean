/-
C09 `wire_reassembles`, part 4: from the invariant `WInv` to the specification decoder — every
emitted datagram decodes, and every decoded segment is genuine for the ghost log.  Core Lean only.
-/
import KcpVerif.Lemmas.C09WireInv
import KcpVerif.Lemmas.C09WireAsm
import KcpVerif.Lemmas.C01Msg

namespace KcpVerif.C09W
open KcpVerif KcpVerif.Gen KcpVerif.Kcp KcpVerif.Frame KcpVerif.Recv KcpVerif.Send KcpVerif.C01
open KcpVerif.Lemmas.KcpFlush (InvMss)

/-- all segments the specification decoder finds in a list of datagrams, in wire order (a datagram it
refuses contributes nothing) -/
def wireSegs (wire : List Bytes) : List DSeg := wire.flatMap fun o => (Wire.Spec.decode o).getD []

theorem mem_wireSegs {wire : List Bytes} {x : DSeg} (h : x ∈ wireSegs wire) :
    ∃ o ∈ wire, ∃ segs, Wire.Spec.decode o = some segs ∧ x ∈ segs := by
  obtain ⟨o, ho, hx⟩ := List.mem_flatMap.mp h
  cases hd : Wire.Spec.decode o with
  | none => rw [hd] at hx; cases hx
  | some segs => rw [hd] at hx; exact ⟨o, ho, segs, hd, hx⟩

theorem mem_wireSegs_of {wire : List Bytes} {o : Bytes} {segs : List DSeg} {x : DSeg} (ho : o ∈ wire)
    (hd : Wire.Spec.decode o = some segs) (hx : x ∈ segs) : x ∈ wireSegs wire :=
  List.mem_flatMap.mpr ⟨o, ho, by rw [hd]; exact hx⟩

/-- a good datagram is accepted by the specification decoder -/
theorem DgOk.decode {c sn0 : U32} {L : List Content} {o : Bytes} (h : DgOk c sn0 L o) :
    ∃ frs : List Wire.Frm, frs ≠ [] ∧ o = Wire.encFrames frs ∧ (∀ fr ∈ frs, FrOk c sn0 L fr) ∧
      Wire.Spec.decode o = some (frs.map specOf) := by
  obtain ⟨frs, h1, h2, h3⟩ := h
  refine ⟨frs, h1, h2, h3, ?_⟩
  rw [h2]
  apply decode_encFrames frs h1
  intro fr hfr
  have := (h3 fr hfr).len
  exact ⟨(h3 fr hfr).cmd, by unfold mtuLimit at this; omega⟩

/-- what the decoder's output says about one good frame -/
theorem FrOk.spec {c : U32} {L : List Content} {fr : Wire.Frm} (h : FrOk c 0 L fr) (hL : L.length ≤ 2 ^ 32) :
    (specOf fr).1.conv = c ∧ Wire.cmdKnown (specOf fr).1.cmd = true ∧
      (specOf fr).1.len.toNat = (specOf fr).2.length ∧ (specOf fr).2.length ≤ mtuLimit ∧ SegGen L (specOf fr) := by
  have hl := h.len
  refine ⟨h.conv, (toSeg_wf fr h.cmd (by unfold mtuLimit at hl; omega)).1, ?_, hl, specOf_segGen hL h.push⟩
  show (BitVec.ofNat 32 fr.data.length).toNat = fr.data.length
  simp only [BitVec.toNat_ofNat]
  unfold mtuLimit at hl
  omega

/-- every segment the decoder finds on the wire of a reachable state is genuine for the log -/
theorem WInv.segGen {c : U32} {s : GSt} (h : WInv c 0 s) (hL : s.log.length ≤ 2 ^ 32) :
    ∀ x ∈ wireSegs s.wire, SegGen s.log x := by
  intro x hx
  obtain ⟨o, ho, segs, hd, hxs⟩ := mem_wireSegs hx
  obtain ⟨frs, _, _, h3, h4⟩ := (h.wire o ho).decode
  rw [h4] at hd
  cases hd
  obtain ⟨fr, hfr, rfl⟩ := List.mem_map.mp hxs
  exact ((h3 fr hfr).spec hL).2.2.2.2

theorem run_invM (ops : List Op) : ∀ s : GSt, InvM s → InvM (run s ops) := by
  induction ops with
  | nil => intro s h; exact h
  | cons op rest ih => intro s h; exact ih _ (step_invM h op)

end KcpVerif.C09W
