/-
Clean-path invariant (C18 Tier 2): preservation by the sender's `Input` of a datagram from B (the
part before the closing flush decision; the flush itself is `clean_flushA`).
-/
import KcpVerif.Lemmas.SysCleanStepB

namespace KcpVerif.SysC
open KcpVerif KcpVerif.Gen KcpVerif.Kcp KcpVerif.Live KcpVerif.Wire KcpVerif.SysW KcpVerif.Sys

theorem clamp_bounds (minrto rto : U32) (hmin : minrto ≤ u32 IKCP_RTO_MAX) :
    minrto ≤ clampRto minrto rto ∧ clampRto minrto rto ≤ u32 IKCP_RTO_MAX := by
  unfold clampRto
  simp only []
  split <;> (try split) <;> (constructor <;> bv_omega)

theorem smooth_minrto (k : Kcp) (rtt : U32) : (smoothRtt k rtt).rx_minrto = k.rx_minrto := by
  unfold smoothRtt; split <;> rfl

theorem rtoMax_toNat : (u32 IKCP_RTO_MAX).toNat = 60000 := by decide

/-- every RTT sample leaves the connection RTO between the minimum and 60 s -/
theorem updateAck_rto (k : Kcp) (rtt : U32) (h : k.rx_minrto.toNat ≤ 60000) :
    k.rx_minrto.toNat ≤ (updateAck k rtt).rx_rto.toNat ∧ (updateAck k rtt).rx_rto.toNat ≤ 60000 := by
  have hm : k.rx_minrto ≤ u32 IKCP_RTO_MAX := by
    rw [BitVec.le_def, rtoMax_toNat]; exact h
  have e : (updateAck k rtt).rx_rto = clampRto k.rx_minrto
      ((smoothRtt k rtt).rx_srtt + (if (smoothRtt k rtt).interval ≥ BitVec.shiftLeft (smoothRtt k rtt).rx_rttvar 2
        then (smoothRtt k rtt).interval else BitVec.shiftLeft (smoothRtt k rtt).rx_rttvar 2)) := by
    unfold updateAck
    simp only [smooth_minrto]
  rw [e]
  have := clamp_bounds k.rx_minrto ((smoothRtt k rtt).rx_srtt + (if (smoothRtt k rtt).interval ≥ BitVec.shiftLeft (smoothRtt k rtt).rx_rttvar 2
        then (smoothRtt k rtt).interval else BitVec.shiftLeft (smoothRtt k rtt).rx_rttvar 2)) hm
  rw [BitVec.le_def, BitVec.le_def, rtoMax_toNat] at this
  exact this

/-- A after the parse loop, the RTT sample (if any) and the cwnd update -/
theorem clean_inA {p : Par} {s : State} {t0 : Nat} {frs : List Frm} {gab grest : GLink}
    (h : Clean p s gab ((t0, frs) :: grest)) (hnw : NoWrap p.base s) (k1 : Kcp)
    (hk1 : k1 = (inFrs true frs { k := s.A }).k ∨ ∃ rtt, k1 = updateAck (inFrs true frs { k := s.A }).k rtt) :
    (∀ fr ∈ frs, FrValid s.A.conv fr) ∧
    (inFrs true frs { k := s.A }).panic = false ∧ (inFrs true frs { k := s.A }).ret = 0 ∧
    (cwndOnAck k1 s.A.snd_una).acklist = [] ∧
    (cwndOnAck k1 s.A.snd_una).snd_nxt = s.A.snd_nxt ∧ (cwndOnAck k1 s.A.snd_una).snd_queue = s.A.snd_queue ∧
    Clean p { s with A := cwndOnAck k1 s.A.snd_una, ba := encL grest } gab grest := by
  unfold NoWrap at hnw
  have hv : ∀ fr ∈ frs, FrValid s.A.conv fr := by
    intro fr hfr
    obtain ⟨e1, e2, e3, _⟩ := h.fba (t0, frs) (List.mem_cons_self ..) fr hfr
    refine ⟨by rw [e1, h.aconv], ?_, by rw [e2]; simp⟩
    unfold Live.validCmd
    rcases e3 with e | e | e
    · exact Or.inr (Or.inl e)
    · exact Or.inr (Or.inr (Or.inl e))
    · exact Or.inr (Or.inr (Or.inr e))
  have hal : ∀ fr ∈ frs, AckLike p.base s.A.snd_nxt fr := by
    intro fr hfr
    obtain ⟨_, _, e3, e4, e5⟩ := h.fba (t0, frs) (List.mem_cons_self ..) fr hfr
    have := h.ord.2
    exact ⟨e3, by omega, e5⟩
  obtain ⟨c, su, pr, rw, hk, hge, hpn, hrt⟩ := inFrs_ackLike p.base frs { k := s.A }
    (fun x hx => (h.aseg x hx).1) h.asort h.abnd
    (by show o p.base s.A.snd_nxt < 2 ^ 31; omega) hal rfl
  have hst_min : (inFrs true frs { k := s.A }).k.rx_minrto = s.A.rx_minrto := by rw [hk]
  have hst_rto : (inFrs true frs { k := s.A }).k.rx_rto = s.A.rx_rto := by rw [hk]
  have hk1s : ∃ a b r, k1 = { (inFrs true frs { k := s.A }).k with rx_srtt := a, rx_rttvar := b, rx_rto := r } ∧
      p.M ≤ r.toNat ∧ r.toNat ≤ 60000 := by
    rcases hk1 with rfl | ⟨rtt, rfl⟩
    · exact ⟨_, _, _, rfl, by rw [hst_rto]; exact h.arto.1, by rw [hst_rto]; exact h.arto.2⟩
    · obtain ⟨a, b, r, he⟩ := updateAck_shape' (inFrs true frs { k := s.A }).k rtt
      have hb := updateAck_rto (inFrs true frs { k := s.A }).k rtt (by
        rw [hst_min, h.amin]; have := h.arto; omega)
      rw [hst_min, h.amin] at hb
      have hr : (updateAck (inFrs true frs { k := s.A }).k rtt).rx_rto = r := by rw [he]
      rw [hr] at hb
      exact ⟨a, b, r, he, hb.1, hb.2⟩
  obtain ⟨a, b, r, he, hr1, hr2⟩ := hk1s
  obtain ⟨cw, inc, hcw⟩ := cwndOnAck_shape' k1 s.A.snd_una
  have hK : cwndOnAck k1 s.A.snd_una =
      { s.A with rmt_wnd := rw, snd_buf := s.A.snd_buf.drop c, snd_una := su, probe := pr,
                 rx_srtt := a, rx_rttvar := b, rx_rto := r, cwnd := cw, incr := inc } := by
    rw [hcw, he, hk]
  refine ⟨hv, hpn, hrt, by rw [hK]; exact h.aack, by rw [hK], by rw [hK], ?_⟩
  constructor
  · exact h.hab
  · rfl
  · exact h.tab
  · exact fun d hd => h.tba d (List.mem_cons_of_mem _ hd)
  · exact h.tnf
  · exact h.par
  · exact h.np
  · show Total.InvK (cwndOnAck k1 s.A.snd_una)
    apply h.aK.congr <;> rw [hK]
    · exact h.aK.sndq
    · exact h.aK.sndb.drop c
    · exact h.aK.rcvb
    · exact h.aK.rcvq
  · show (cwndOnAck k1 s.A.snd_una).conv = _
    rw [hK]; exact h.aconv
  · show (cwndOnAck k1 s.A.snd_una).acklist = _
    rw [hK]; exact h.aack
  · show (cwndOnAck k1 s.A.snd_una).rx_minrto.toNat = _
    rw [hK]; exact h.amin
  · show _ ≤ (cwndOnAck k1 s.A.snd_una).rx_rto.toNat ∧ (cwndOnAck k1 s.A.snd_una).rx_rto.toNat ≤ _
    rw [hK]; exact ⟨hr1, hr2⟩
  · show ∀ x ∈ (cwndOnAck k1 s.A.snd_una).snd_queue, Fresh x
    rw [hK]; exact h.aq
  · show Sorted p.base (cwndOnAck k1 s.A.snd_una).snd_buf
    rw [hK]; exact h.asort.drop c
  · show ∀ x ∈ (cwndOnAck k1 s.A.snd_una).snd_buf, o p.base x.sn < o p.base (cwndOnAck k1 s.A.snd_una).snd_nxt
    rw [hK]; exact fun x hx => h.abnd x (List.mem_of_mem_drop hx)
  · show ∀ x ∈ (cwndOnAck k1 s.A.snd_una).snd_buf, SegOk p _ gab grest x
    rw [hK]
    intro x hx
    have hx' : x ∈ s.A.snd_buf.drop c := hx
    obtain ⟨a1, a2, a3, a4, a5, a6, t, ht, htn, hloc⟩ := h.aseg x (List.mem_of_mem_drop hx')
    refine ⟨a1, a2, a3, a4, a5, a6, t, ht, htn, ?_⟩
    rcases hloc with ⟨d, hd, r⟩ | hb | ⟨d, hd, hd1, fr, hfr, hlt⟩
    · exact Or.inl ⟨d, hd, r⟩
    · exact Or.inr (Or.inl hb)
    · rcases List.mem_cons.mp hd with rfl | hd
      · have := hge fr hfr x hx'
        omega
      · exact Or.inr (Or.inr ⟨d, hd, hd1, fr, hfr, hlt⟩)
  · exact h.bK
  · exact h.bconv
  · exact h.bsb
  · exact h.bsq
  · exact h.brb
  · exact h.bint
  · exact h.bw
  · exact h.back
  · exact h.fab
  · exact fun d hd => h.fba d (List.mem_cons_of_mem _ hd)
  · show _ ∧ _ = o p.base (cwndOnAck k1 s.A.snd_una).snd_nxt
    rw [hK]; exact h.ord

end KcpVerif.SysC
