/-
Send-side accounting for C01 (DESIGN.md 7.1 item 1, second half): in stream mode the bytes `Send`
has taken so far are exactly the payload bytes of `L ++ snd_queue` (numbered segments followed by
the queued ones), in order.
-/
import KcpVerif.Lemmas.C01Ops
import KcpVerif.Lemmas.C01Sys

namespace KcpVerif.C01
open KcpVerif KcpVerif.Gen KcpVerif.Kcp KcpVerif.Frame KcpVerif.Recv KcpVerif.Send KcpVerif.Wire

/-! ### operations that admit segments remove a prefix of the queue -/

theorem admitSegs_queue (conv una cwnd now : U32) : ∀ (q buf : List Seg) (nxt : U32) (c : Nat),
    ∃ j, j ≤ q.length ∧ (admitSegs conv una cwnd now q buf nxt c).queue = q.drop j := by
  intro q
  induction q with
  | nil => intro buf nxt c; exact ⟨0, Nat.le_refl _, rfl⟩
  | cons s rest ih =>
    intro buf nxt c
    unfold admitSegs
    split
    · exact ⟨0, Nat.zero_le _, rfl⟩
    · obtain ⟨j, hj, h⟩ := ih _ (nxt + 1) (c + 1)
      exact ⟨j + 1, by simp; omega, by simpa using h⟩

theorem flush_queue (k : Kcp) (full : Bool) (now : U32) :
    ∃ j, j ≤ k.snd_queue.length ∧ (flush k full now).k.snd_queue = k.snd_queue.drop j := by
  have hA := flushA_keep k now
  obtain ⟨j, hj, hq⟩ := admitSegs_queue (flushA k now).k.conv (flushA k now).k.snd_una (flushCwnd (flushA k now).k) now
    (flushA k now).k.snd_queue (flushA k now).k.snd_buf (flushA k now).k.snd_nxt 0
  have hq' : (flushAdmit (flushA k now).k now).queue = (flushA k now).k.snd_queue.drop j := hq
  rw [hA.2.snd_queue] at hj hq'
  obtain ⟨v, hv⟩ := flushX_k (flushB (flushA k now) now) full now (wndUnused k) k.rcv_nxt
    (flushAdmit (flushA k now).k now).count
  refine ⟨j, hj, ?_⟩
  rw [flush_eq]; simp only []
  rw [(flushTail_keep _ _ _ _ _).2.snd_queue]
  show (flushX _ _ _ _ _ _).f.k.snd_queue = _
  rw [hv]; exact hq'

theorem input_queue (k : Kcp) (data : Bytes) (regular ackNoDelay : Bool) (now : U32) :
    ∃ j, j ≤ k.snd_queue.length ∧ (input k data regular ackNoDelay now).k.snd_queue = k.snd_queue.drop j := by
  rw [input_eq]
  split
  · exact ⟨0, Nat.zero_le _, rfl⟩
  · have hq := inputLoop_queue regular (data.length / IKCP_OVERHEAD + 1) data { k := k }
    generalize inputLoop regular (data.length / IKCP_OVERHEAD + 1) data { k := k } = st at hq
    have hq2 : (inputK2 k st regular now).snd_queue = k.snd_queue :=
      (inputK2_same k st regular now).2.snd_queue.trans hq
    rcases inputTail_cases k st regular ackNoDelay now with h1 | h1 | ⟨full, h1⟩
    · rw [h1.1]; exact ⟨0, Nat.zero_le _, by simpa using hq⟩
    · rw [h1.1]; exact ⟨0, Nat.zero_le _, by simpa using hq2⟩
    · rw [h1.1]
      obtain ⟨j, hj, h⟩ := flush_queue (inputK2 k st regular now) full now
      rw [hq2] at hj h
      exact ⟨j, hj, h⟩

theorem update_queue (k : Kcp) (now : U32) :
    ∃ j, j ≤ k.snd_queue.length ∧ (update k now).k.snd_queue = k.snd_queue.drop j := by
  rw [update_eq]
  split
  · obtain ⟨_, h2, _, _⟩ := updPre_same k now (updTf k now)
    obtain ⟨j, hj, h⟩ := flush_queue { updPre k now with ts_flush := updTf k now } true now
    rw [h2.snd_queue] at hj h
    exact ⟨j, hj, h⟩
  · obtain ⟨_, _, _, h2⟩ := updPre_same k now 0
    exact ⟨0, Nat.zero_le _, by simpa using h2.snd_queue⟩

/-- numbered ++ queued is unchanged by admission -/
theorem pending_eq (L : List Content) (k k' : Kcp) (j : Nat) (hj : j ≤ k.snd_queue.length)
    (h : k'.snd_queue = k.snd_queue.drop j) :
    (L ++ admitted k k') ++ k'.snd_queue.map content = L ++ k.snd_queue.map content := by
  unfold admitted
  rw [h, List.length_drop]
  have : k.snd_queue.length - (k.snd_queue.length - j) = j := by omega
  rw [this, List.append_assoc, ← List.map_append, List.take_append_drop]

/-! ### configuration fields -/

/-- `mss` and the stream flag -/
structure Cfg (k k' : Kcp) : Prop where
  mss    : k'.mss = k.mss
  stream : k'.stream = k.stream

theorem Cfg.trans {a b c : Kcp} (h1 : Cfg a b) (h2 : Cfg b c) : Cfg a c :=
  ⟨h2.mss.trans h1.mss, h2.stream.trans h1.stream⟩

theorem shrinkBuf_cfg (k : Kcp) : Cfg k (shrinkBuf k) :=
  ⟨(shrinkBuf_queue k).2.2.1, (shrinkBuf_queue k).2.2.2⟩

theorem inSt1_cfg (regular : Bool) (st : InLoop) (hd : Hdr) : Cfg st.k (inSt1 regular st hd).k := by
  unfold inSt1
  simp only []
  refine Cfg.trans ?_ (shrinkBuf_cfg _)
  unfold parseUna
  split <;> exact ⟨rfl, rfl⟩

theorem parseAck_cfg (k : Kcp) (sn : U32) : Cfg k (parseAck k sn) := by
  unfold parseAck; split <;> exact ⟨rfl, rfl⟩

theorem parseFastack_cfg (k : Kcp) (sn ts : U32) : Cfg k (parseFastack k sn ts).1 := by
  unfold parseFastack; split <;> exact ⟨rfl, rfl⟩

theorem inSt2_cfg (st1 : InLoop) (hd : Hdr) (body : Bytes) : Cfg st1.k (inSt2 st1 hd body).k := by
  unfold inSt2
  simp only []
  split
  · exact ((parseAck_cfg st1.k hd.sn).trans (shrinkBuf_cfg _)).trans
      (parseFastack_cfg (shrinkBuf (parseAck st1.k hd.sn)) hd.sn hd.ts)
  · split
    · split
      · split
        · exact ⟨(parseData_sndSame _ _).mss, (parseData_sndSame _ _).stream⟩
        · exact ⟨rfl, rfl⟩
      · exact ⟨rfl, rfl⟩
    · split <;> exact ⟨rfl, rfl⟩

theorem inputLoop_cfg (regular : Bool) :
    ∀ (fuel : Nat) (data : Bytes) (st : InLoop), Cfg st.k (inputLoop regular fuel data st).k := by
  intro fuel
  induction fuel with
  | zero => intro data st; exact ⟨rfl, rfl⟩
  | succ fuel ih =>
    intro data st
    rw [inputLoop_succ]
    have h2 : Cfg st.k (inSt2 (inSt1 regular st (parseHdr data)) (parseHdr data) (data.drop IKCP_OVERHEAD)).k :=
      (inSt1_cfg _ _ _).trans (inSt2_cfg _ _ _)
    split
    · exact ⟨rfl, rfl⟩
    · split
      · exact ⟨rfl, rfl⟩
      · split
        · exact ⟨rfl, rfl⟩
        · split
          · exact ⟨rfl, rfl⟩
          · split
            · exact h2
            · exact h2.trans (ih _ _)

theorem input_cfg (k : Kcp) (data : Bytes) (regular ackNoDelay : Bool) (now : U32) :
    Cfg k (input k data regular ackNoDelay now).k := by
  rw [input_eq]
  split
  · exact ⟨rfl, rfl⟩
  · have hl := inputLoop_cfg regular (data.length / IKCP_OVERHEAD + 1) data { k := k }
    generalize inputLoop regular (data.length / IKCP_OVERHEAD + 1) data { k := k } = st at hl
    have h2 : Cfg k (inputK2 k st regular now) :=
      hl.trans ⟨(inputK2_same k st regular now).2.mss, (inputK2_same k st regular now).2.stream⟩
    rcases inputTail_cases k st regular ackNoDelay now with h1 | h1 | ⟨full, h1⟩
    · rw [h1.1]; exact hl
    · rw [h1.1]; exact h2
    · rw [h1.1]; exact h2.trans ⟨(flush_keep _ _ _).mss, (flush_keep _ _ _).stream⟩

/-! ### the bytes `Send` puts into the queue -/

/-- payload bytes of a list of segments -/
def qbytes (q : List Seg) : Bytes := bytesOf (q.map content)

theorem qbytes_append (a b : List Seg) : qbytes (a ++ b) = qbytes a ++ qbytes b := by
  unfold qbytes; rw [List.map_append, bytesOf_append]

theorem qbytes_single (s : Seg) : qbytes [s] = s.data := by
  simp [qbytes, bytesOf, content]

theorem sendQ1_bytes (k : Kcp) (buffer : Bytes) :
    qbytes (sendQ1 k buffer) = qbytes k.snd_queue ++ buffer.take (sendExt k buffer) := by
  unfold sendQ1
  split
  · rename_i hext
    cases hl : k.snd_queue.getLast? with
    | none =>
      exfalso
      unfold sendExt at hext
      rw [hl] at hext
      simp at hext
    | some x =>
      simp only []
      have hq : k.snd_queue.dropLast ++ [x] = k.snd_queue := by
        obtain ⟨ys, hys⟩ := List.getLast?_eq_some_iff.mp hl
        rw [hys]; simp
      unfold setLast
      rw [qbytes_append, qbytes_single]
      conv => rhs; rw [← hq, qbytes_append, qbytes_single]
      simp
  · rename_i hext
    have : sendExt k buffer = 0 := by omega
    rw [this]; simp

theorem mkSegs_bytes (mss : Nat) (st : Bool) : ∀ (c : Nat) (buf : Bytes),
    qbytes (mkSegs mss st c buf) = buf.take (c * mss) := by
  intro c
  induction c with
  | zero => intro buf; simp [mkSegs, qbytes, bytesOf]
  | succ c ih =>
    intro buf
    unfold mkSegs
    have e : ∀ (s : Seg) (l : List Seg), qbytes (s :: l) = s.data ++ qbytes l := by
      intro s l; simp [qbytes, bytesOf, content]
    rw [e, ih]
    simp only []
    have : (c + 1) * mss = mss + c * mss := by rw [Nat.add_mul]; omega
    rw [this, List.take_add]

theorem sendNew_bytes (k : Kcp) (buffer : Bytes) (hm : 0 < k.mss.toNat) :
    qbytes (sendNew k buffer) = sendRest k buffer := by
  unfold sendNew
  rw [mkSegs_bytes]
  apply List.take_of_length_le
  generalize hr : (sendRest k buffer).length = len
  have hc : len ≤ sendCount k buffer * k.mss.toNat := by
    unfold sendCount
    rw [hr]
    split
    · omega
    · have h1 := Nat.div_add_mod (len + k.mss.toNat - 1) k.mss.toNat
      have h2 := Nat.mod_lt (len + k.mss.toNat - 1) hm
      rw [Nat.mul_comm] at h1
      generalize (len + k.mss.toNat - 1) / k.mss.toNat * k.mss.toNat = p at h1 ⊢
      omega
  split
  · rename_i h0; rw [h0] at hc; omega
  · exact hc

/-- whatever `Send` returns (without panic), the queue's payload bytes grow by
exactly `sendTaken` -/
theorem send_bytes (k : Kcp) (buffer : Bytes) (hm : 0 < k.mss.toNat)
    (hp : (send k buffer).panic = false) :
    qbytes (send k buffer).k.snd_queue = qbytes k.snd_queue ++ sendTaken k buffer := by
  have hse := send_eq k buffer
  have hsplit : buffer.take (sendExt k buffer) ++ sendRest k buffer = buffer := List.take_append_drop _ _
  unfold sendTaken
  by_cases c0 : buffer.length = 0
  · rw [if_pos c0] at hse
    rw [hse]; simp
  · rw [if_neg c0] at hse
    by_cases c3 : sendCount k buffer > 255
    · rw [if_pos c3] at hse
      rw [hse]
      simp
    · rw [if_neg c3] at hse
      by_cases c1 : sendPanic1 k buffer = true
      · rw [if_pos c1] at hse; rw [hse] at hp; cases hp
      · rw [if_neg c1] at hse
        by_cases c2 : k.stream ≠ 0 ∧ (sendRest k buffer).length = 0
        · rw [if_pos c2] at hse
          rw [hse]
          simp only [↓reduceIte]
          rw [sendQ1_bytes]
          have : sendRest k buffer = [] := List.eq_nil_of_length_eq_zero c2.2
          rw [this] at hsplit
          simp at hsplit
          rw [hsplit]
        · rw [if_neg c2] at hse
          by_cases c4 : min (sendRest k buffer).length k.mss.toNat > mtuLimit
          · rw [if_pos c4] at hse; rw [hse] at hp; cases hp
          · rw [if_neg c4] at hse
            rw [hse]
            simp only [↓reduceIte]
            rw [qbytes_append, sendQ1_bytes, sendNew_bytes k buffer hm, List.append_assoc, hsplit]

/-! ### the accounting invariant -/

theorem setMtu_mss (k : Kcp) (mtu : Int) (h : 0 < k.mss.toNat) : 0 < (setMtu k mtu).1.mss.toNat := by
  unfold setMtu
  split
  · exact h
  · rename_i h1
    split
    · exact h
    · rename_i h2
      split
      · exact h
      · split
        · exact h
        · show 0 < (BitVec.ofInt 32 mtu - u32 IKCP_OVERHEAD).toNat
          unfold IKCP_OVERHEAD mtuLimit at *
          obtain ⟨n, hn⟩ : ∃ n : Nat, mtu = (n : Int) := ⟨mtu.toNat, by omega⟩
          subst hn
          have hn1 : 24 < n := by omega
          have hn2 : n ≤ 1524 := by omega
          rw [BitVec.ofInt_natCast]
          simp only [u32, BitVec.toNat_sub, BitVec.toNat_ofNat]
          omega

structure InvAcc (s : GSt) : Prop where
  mss : 0 < s.k.mss.toNat
  acc : s.accB = bytesOf (s.log ++ s.k.snd_queue.map content)

theorem acc_flushLike (s : GSt) (k' : Kcp) (outs : List Bytes) (h : InvAcc s) (hc : Cfg s.k k')
    (hq : ∃ j, j ≤ s.k.snd_queue.length ∧ k'.snd_queue = s.k.snd_queue.drop j) :
    InvAcc { s with k := k', log := s.log ++ admitted s.k k', wire := s.wire ++ outs } := by
  obtain ⟨j, hj, hq⟩ := hq
  refine ⟨by show 0 < k'.mss.toNat; rw [hc.mss]; exact h.mss, ?_⟩
  show s.accB = bytesOf ((s.log ++ admitted s.k k') ++ k'.snd_queue.map content)
  rw [pending_eq s.log s.k k' j hj hq]; exact h.acc

theorem acc_same (s : GSt) (k' : Kcp) (h : InvAcc s) (hm : 0 < k'.mss.toNat) (hq : k'.snd_queue = s.k.snd_queue) :
    InvAcc { s with k := k' } :=
  ⟨hm, by show s.accB = bytesOf (s.log ++ k'.snd_queue.map content); rw [hq]; exact h.acc⟩

theorem step_invAcc {s : GSt} (h : InvAcc s) (op : Op) : InvAcc (step s op) := by
  unfold step
  by_cases hd : s.dead = true
  · rw [if_pos hd]; exact h
  · rw [if_neg hd]
    cases op with
    | send buf =>
      simp only []
      split
      · exact ⟨h.mss, h.acc⟩
      · rename_i hp
        have hb := send_bytes s.k buf h.mss (by simpa using hp)
        refine ⟨by show 0 < (send s.k buf).k.mss.toNat; rw [send_k]; exact h.mss, ?_⟩
        show s.accB ++ sendTaken s.k buf = bytesOf (s.log ++ (send s.k buf).k.snd_queue.map content)
        rw [bytesOf_append]
        have e : bytesOf ((send s.k buf).k.snd_queue.map content) = qbytes (send s.k buf).k.snd_queue := rfl
        rw [e, hb, h.acc, bytesOf_append, List.append_assoc]
        rfl
    | recv buflen =>
      simp only []
      split
      · exact h
      · have hs := recv_sndSame s.k buflen
        exact ⟨by show 0 < (recv s.k buflen).k.mss.toNat; rw [hs.mss]; exact h.mss,
          by show s.accB = bytesOf (s.log ++ (recv s.k buflen).k.snd_queue.map content); rw [hs.snd_queue]; exact h.acc⟩
    | input data regular ackNoDelay now =>
      simp only []
      split
      · exact ⟨h.mss, h.acc⟩
      · exact acc_flushLike s _ _ h (input_cfg _ _ _ _ _) (input_queue _ _ _ _ _)
    | flush full now =>
      simp only []
      split
      · exact ⟨h.mss, h.acc⟩
      · exact acc_flushLike s _ _ h ⟨(flush_keep _ _ _).mss, (flush_keep _ _ _).stream⟩ (flush_queue _ _ _)
    | update now =>
      simp only []
      split
      · exact ⟨h.mss, h.acc⟩
      · exact acc_flushLike s _ _ h ⟨(update_keep _ _).mss, (update_keep _ _).stream⟩ (update_queue _ _)
    | setMtu mtu => exact acc_same s _ h (setMtu_mss _ _ h.mss) (setMtu_sndQ _ _).snd_queue
    | noDelay a b c d =>
      refine acc_same s _ h ?_ (noDelay_sndQ _ _ _ _ _).snd_queue
      have : (noDelay s.k a b c d).mss = s.k.mss := by
        unfold noDelay; simp only []; repeat' split
        all_goals rfl
      rw [this]; exact h.mss
    | wndSize a b =>
      refine acc_same s _ h ?_ (wndSize_sndQ _ _ _).snd_queue
      have : (wndSize s.k a b).mss = s.k.mss := by
        unfold wndSize; simp only []; repeat' split
        all_goals rfl
      rw [this]; exact h.mss

theorem run_invAcc (ops : List Op) : ∀ s : GSt, InvAcc s → InvAcc (run s ops) := by
  induction ops with
  | nil => intro s h; exact h
  | cons op rest ih => intro s h; exact ih _ (step_invAcc h op)

theorem fresh_invAcc (k : Kcp) (hf : Fresh k) (hm : 0 < k.mss.toNat) : InvAcc { k := k } :=
  ⟨hm, by simp [hf.sq, bytesOf]⟩

theorem srun_invAcc (ops : List SOp) : ∀ s : Sys, InvAcc s.A → InvAcc (srun s ops).A := by
  induction ops with
  | nil => intro s h; exact h
  | cons op rest ih =>
    intro s h
    apply ih
    cases op with
    | a op => exact step_invAcc h op
    | b op =>
      by_cases hi : isInput op = true
      · have e : sstep s (.b op) = s := by simp [sstep, hi]
        rw [e]; exact h
      · have e : sstep s (.b op) = { s with B := step s.B op } := by simp [sstep, hi]
        rw [e]; exact h
    | dlv i regular ackNoDelay now =>
      cases hd : s.A.wire[i]? with
      | none =>
        have e : sstep s (.dlv i regular ackNoDelay now) = s := by simp [sstep, hd]
        rw [e]; exact h
      | some d =>
        have e : sstep s (.dlv i regular ackNoDelay now) =
            { s with B := step s.B (.input d regular ackNoDelay now) } := by simp [sstep, hd]
        rw [e]; exact h

end KcpVerif.C01
