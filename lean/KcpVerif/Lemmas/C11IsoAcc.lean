import KcpVerif.Lemmas.C11IsoSys
/-!
Every index `Accept` has returned or that is still queued is the index of a session object (so that
`C11_isolation` speaks about every accepted session), along every run of the composite system.
-/
namespace KcpVerif.C11Iso
open KcpVerif KcpVerif.Gen KcpVerif.SessIn KcpVerif.Props KcpVerif.C01

def AccOk (s : Sys) : Prop := ∀ id, id ∈ s.accepted ∨ id ∈ s.l.accepts → id < s.l.objs.length

theorem closeAll_shape (now : U32) (ids : List Nat) : ∀ l : Listener SessG,
    (closeAll now l ids).objs.length = l.objs.length ∧ (closeAll now l ids).accepts = l.accepts := by
  induction ids with
  | nil => intro l; exact ⟨rfl, rfl⟩
  | cons id rest ih =>
    intro l
    obtain ⟨h1, h2⟩ := ih (closeSess (world now) l id)
    exact ⟨h1.trans (C11_closeSess_length _ l id), h2.trans (closeSess_accepts _ l id)⟩

/-- the queue and the object list after `inputD`: unchanged, or both grown by the fresh index -/
theorem inputD_shape (ciph : Cipher) (now : U32) (l : Listener SessG) (dead : Bool) (d : Bytes) (a : String) :
    ((inputD ciph now l dead d a).accepts = l.accepts ∧ (inputD ciph now l dead d a).objs.length = l.objs.length) ∨
    ((inputD ciph now l dead d a).accepts = l.accepts ++ [l.objs.length] ∧
      (inputD ciph now l dead d a).objs.length = l.objs.length + 1) := by
  have live : ((listenerInput (world now) ciph l d a).l.accepts = l.accepts ∧
        (listenerInput (world now) ciph l d a).l.objs.length = l.objs.length) ∨
      ((listenerInput (world now) ciph l d a).l.accepts = l.accepts ++ [l.objs.length] ∧
        (listenerInput (world now) ciph l d a).l.objs.length = l.objs.length + 1) := by
    have h := C11_accept_step (world now) ciph l d a
    cases hc : isCreate (listenerInput (world now) ciph l d a).dec with
    | true => exact Or.inr ⟨(h.1 hc).1, (h.1 hc).2.1⟩
    | false => exact Or.inl (h.2 hc)
  rw [inputD_eq]
  cases dead with
  | false => exact live
  | true =>
    simp only [if_true]
    split
    · exact Or.inl ⟨closeSess_accepts _ l _, C11_closeSess_length _ l _⟩
    · exact Or.inl ⟨rfl, rfl⟩
    · exact live

theorem accOk_inputD {s : Sys} (h : AccOk s) (ciph : Cipher) (now : U32) (d : Bytes) (a : String) :
    AccOk { s with l := inputD ciph now s.l s.dead d a } := by
  intro id hid
  show id < (inputD ciph now s.l s.dead d a).objs.length
  rcases inputD_shape ciph now s.l s.dead d a with ⟨h1, h2⟩ | ⟨h1, h2⟩
  · rw [h2]
    rcases hid with hid | hid
    · exact h id (Or.inl hid)
    · exact h id (Or.inr (by rw [← h1]; exact hid))
  · rw [h2]
    rcases hid with hid | hid
    · exact Nat.lt_succ_of_lt (h id (Or.inl hid))
    · have hid' : id ∈ s.l.accepts ++ [s.l.objs.length] := by rw [← h1]; exact hid
      rcases List.mem_append.mp hid' with h3 | h3
      · exact Nat.lt_succ_of_lt (h id (Or.inr h3))
      · rw [List.mem_singleton.mp h3]; exact Nat.lt_succ_self _

theorem accOk_step (ciph : Cipher) (honest : String → Bool) {s : Sys} (h : AccOk s) (e : IEv) :
    AccOk (step ciph honest s e) := by
  cases e with
  | connect a c =>
    cases hc : s.clients a c with
    | some g => simp only [step, hc]; exact h
    | none => simp only [step, hc]; exact h
  | client a c op =>
    cases hc : s.clients a c with
    | none => simp only [step, hc]; exact h
    | some g => simp only [step, hc]; exact h
  | deliver a c i wrap now =>
    cases hc : s.clients a c with
    | none => simp only [step, hc]; exact h
    | some g =>
      cases hd : g.wire[i]? with
      | none => simp only [step, hc, hd]; exact h
      | some d =>
        simp only [step, hc, hd]
        split
        · exact accOk_inputD h ciph now (wrap d) a
        · exact h
  | forge b data now =>
    cases hb : honest b with
    | true => simp only [step, hb, if_true]; exact h
    | false => simp only [step, hb, Bool.false_eq_true, if_false]; exact accOk_inputD h ciph now data b
  | accept =>
    cases hq : s.l.accepts with
    | nil =>
      have hg : (SessIn.accept s.l).got = none := by unfold SessIn.accept; rw [hq]
      simp only [step, hg]; exact h
    | cons id rest =>
      have hg : (SessIn.accept s.l).got = some id := by unfold SessIn.accept; rw [hq]
      have hl : (SessIn.accept s.l).l = { s.l with accepts := rest } := by unfold SessIn.accept; rw [hq]
      simp only [step, hg, hl]
      intro j hj
      show j < s.l.objs.length
      rcases hj with hj | hj
      · rcases List.mem_append.mp hj with h1 | h1
        · exact h j (Or.inl h1)
        · rw [List.mem_singleton.mp h1]; exact h id (Or.inr (by rw [hq]; exact List.mem_cons_self ..))
      · exact h j (Or.inr (by rw [hq]; exact List.mem_cons_of_mem _ hj))
  | close id now =>
    intro j hj
    show j < (closeSess (world now) s.l id).objs.length
    rw [C11_closeSess_length]
    rcases hj with hj | hj
    · exact h j (Or.inl hj)
    · exact h j (Or.inr (by rw [← closeSess_accepts (world now) s.l id]; exact hj))
  | sess id op =>
    cases hi : isSessInput op with
    | true => simp only [step, hi, if_true]; exact h
    | false =>
      simp only [step, hi, Bool.false_eq_true, if_false]
      intro j hj
      show j < (modifyAt s.l.objs id _).length
      rw [modifyAt_length]
      exact h j hj
  | listenerClose now =>
    cases hd : s.dead with
    | true => simp only [step, hd, if_true]; exact h
    | false =>
      simp only [step, hd, Bool.false_eq_true, if_false]
      intro j hj
      show j < (closeAll now s.l s.l.accepts).objs.length
      rw [(closeAll_shape now s.l.accepts s.l).1]
      rcases hj with hj | hj
      · exact h j (Or.inl hj)
      · cases hj

theorem accOk_run (ciph : Cipher) (honest : String → Bool) (evs : List IEv) :
    ∀ s : Sys, AccOk s → AccOk (run ciph honest s evs) := by
  induction evs with
  | nil => intro s h; exact h
  | cons e rest ih => intro s h; exact ih _ (accOk_step ciph honest h e)

theorem accOk_init : AccOk {} := by
  intro id hid
  rcases hid with h | h <;> cases h

end KcpVerif.C11Iso
