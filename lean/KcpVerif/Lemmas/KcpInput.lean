/-
`inputLoop` cut into header validation and the per-segment step `inStep`; an induction principle
for the whole loop; the frame of one step.  Core Lean only.
-/
import KcpVerif.Model.Kcp

namespace KcpVerif.Live
open KcpVerif KcpVerif.Gen KcpVerif.Kcp

/-- what one valid segment does to the loop state (`st2` of the model); `payload` is the
`length` bytes after the header -/
def inStep (regular : Bool) (conv : U32) (cmd frg : BitVec 8) (wnd : BitVec 16) (ts sn una : U32)
    (payload : Bytes) (st : InLoop) : InLoop :=
  let k1 := if regular then { st.k with rmt_wnd := wnd.setWidth 32 } else st.k
  let pu := parseUna k1 una
  let st1 := { st with k := shrinkBuf pu.1, flushSeg := st.flushSeg || decide (pu.2 > 0) }
  if cmd.toNat = IKCP_CMD_ACK then
    let k2 := shrinkBuf (parseAck st1.k sn)
    let pf := parseFastack k2 sn ts
    { st1 with k := pf.1, flushSeg := st1.flushSeg || pf.2, updRtt := true, latest := ts }
  else if cmd.toNat = IKCP_CMD_PUSH then
    if itimediff sn (st1.k.rcv_nxt + st1.k.rcv_wnd) < 0 then
      let k2 := { st1.k with acklist := st1.k.acklist ++ [⟨sn, ts⟩] }
      if itimediff sn k2.rcv_nxt ≥ 0 then
        let r := parseData k2 { conv := conv, cmd := cmd, frg := frg, wnd := wnd, ts := ts, sn := sn, una := una,
                                data := payload }
        { st1 with k := r.k, panic := r.panic }
      else { st1 with k := k2 }
    else st1
  else if cmd.toNat = IKCP_CMD_WASK then
    { st1 with k := { st1.k with probe := st1.k.probe ||| u32 IKCP_ASK_TELL } }
  else st1

/-- the step of the loop applied to the segment at the front of `data` -/
def inStepAt (regular : Bool) (data : Bytes) (st : InLoop) : InLoop :=
  inStep regular (rd32 data 0) (BitVec.ofNat 8 (byteAt data 4)) (BitVec.ofNat 8 (byteAt data 5)) (rd16 data 6)
    (rd32 data 8) (rd32 data 12) (rd32 data 16) ((data.drop IKCP_OVERHEAD).take (rd32 data 20).toNat) st

def validCmd (c : BitVec 8) : Prop :=
  c.toNat = IKCP_CMD_PUSH ∨ c.toNat = IKCP_CMD_ACK ∨ c.toNat = IKCP_CMD_WASK ∨ c.toNat = IKCP_CMD_WINS

/-- one unrolling of `inputLoop` -/
theorem inputLoop_succ (regular : Bool) (fuel : Nat) (data : Bytes) (st : InLoop) :
    inputLoop regular (fuel + 1) data st =
      if data.length < IKCP_OVERHEAD then st else
      if rd32 data 0 ≠ st.k.conv then { st with ret := -1 } else
      if (data.drop IKCP_OVERHEAD).length < (rd32 data 20).toNat ∨ (rd32 data 20).toNat > mtuLimit then { st with ret := -2 } else
      if (BitVec.ofNat 8 (byteAt data 4)).toNat ≠ IKCP_CMD_PUSH ∧ (BitVec.ofNat 8 (byteAt data 4)).toNat ≠ IKCP_CMD_ACK ∧
         (BitVec.ofNat 8 (byteAt data 4)).toNat ≠ IKCP_CMD_WASK ∧ (BitVec.ofNat 8 (byteAt data 4)).toNat ≠ IKCP_CMD_WINS then
        { st with ret := -3 } else
      if (inStepAt regular data st).panic then inStepAt regular data st else
      inputLoop regular fuel ((data.drop IKCP_OVERHEAD).drop (rd32 data 20).toNat) (inStepAt regular data st) := rfl

/-- induction over the parse loop: a property kept by every error return and by every step of a
well-formed segment holds at the end -/
theorem inputLoop_induct (regular : Bool) (P : InLoop → Prop)
    (hret : ∀ st r, P st → P { st with ret := r })
    (hstep : ∀ conv cmd frg wnd ts sn una payload st, conv = st.k.conv → validCmd cmd → payload.length ≤ mtuLimit →
      P st → P (inStep regular conv cmd frg wnd ts sn una payload st))
    (fuel : Nat) (data : Bytes) (st : InLoop) (h : P st) : P (inputLoop regular fuel data st) := by
  induction fuel generalizing data st with
  | zero => exact h
  | succ n ih =>
    rw [inputLoop_succ]
    split
    · exact h
    · split
      · exact hret _ _ h
      · rename_i hconv
        split
        · exact hret _ _ h
        · rename_i hlen
          split
          · exact hret _ _ h
          · rename_i hcmd
            have hv : validCmd (BitVec.ofNat 8 (byteAt data 4)) := by
              unfold validCmd
              omega
            have hl : ((data.drop IKCP_OVERHEAD).take (rd32 data 20).toNat).length ≤ mtuLimit := by
              rw [List.length_take]; omega
            have hs : P (inStepAt regular data st) :=
              hstep _ _ _ _ _ _ _ _ st (Classical.not_not.mp hconv) hv hl h
            split
            · exact hs
            · exact ih _ _ hs

/-! ### frames of the parts of a step -/

theorem shrinkBuf_eq (k : Kcp) :
    shrinkBuf k = { k with snd_buf := dropAcked k.snd_buf,
                           snd_una := match dropAcked k.snd_buf with | s :: _ => s.sn | [] => k.snd_nxt } := by
  unfold shrinkBuf; split <;> rename_i h <;> simp only [h]

theorem shrinkBuf_frame (k : Kcp) : ∃ sb su, shrinkBuf k = { k with snd_buf := sb, snd_una := su } := by
  rw [shrinkBuf_eq]; exact ⟨_, _, rfl⟩

theorem parseAck_frame (k : Kcp) (sn : U32) : ∃ b, parseAck k sn = { k with snd_buf := b } := by
  unfold parseAck; split
  · exact ⟨_, rfl⟩
  · exact ⟨_, rfl⟩

theorem parseFastack_frame (k : Kcp) (sn ts : U32) : ∃ b, (parseFastack k sn ts).1 = { k with snd_buf := b } := by
  unfold parseFastack; split
  · exact ⟨_, rfl⟩
  · exact ⟨_, rfl⟩

theorem parseData_frame (k : Kcp) (s : Seg) :
    ∃ rb rq rn, (parseData k s).k = { k with rcv_buf := rb, rcv_queue := rq, rcv_nxt := rn } := by
  unfold parseData moveReady
  repeat' split
  all_goals exact ⟨_, _, _, rfl⟩

/-- the ACK path of a step (`parse_ack`, `shrink_buf`, `parse_fastack`) writes only `snd_buf` and `snd_una` -/
theorem ackPath_frame (k : Kcp) (sn ts : U32) :
    ∃ b u, (parseFastack (shrinkBuf (parseAck k sn)) sn ts).1 = { k with snd_buf := b, snd_una := u } := by
  obtain ⟨b, h1⟩ := parseAck_frame k sn
  obtain ⟨b3, u3, h3⟩ := shrinkBuf_frame (parseAck k sn)
  obtain ⟨b2, h2⟩ := parseFastack_frame (shrinkBuf (parseAck k sn)) sn ts
  exact ⟨_, _, by rw [h2, h3, h1]⟩

/-- the connection after the common prologue of a step: window learned, `una` processed -/
def inPre (regular : Bool) (wnd : BitVec 16) (una : U32) (k : Kcp) : Kcp :=
  shrinkBuf (parseUna (if regular then { k with rmt_wnd := wnd.setWidth 32 } else k) una).1

theorem inPre_frame (regular : Bool) (wnd : BitVec 16) (una : U32) (k : Kcp) :
    ∃ sb su, inPre regular wnd una k =
      { k with rmt_wnd := if regular then wnd.setWidth 32 else k.rmt_wnd, snd_buf := sb, snd_una := su } := by
  unfold inPre parseUna
  rw [shrinkBuf_eq]
  cases regular
  · exact ⟨_, _, rfl⟩
  · exact ⟨_, _, rfl⟩

/-- the receive-side segment built from an incoming PUSH -/
def pushSeg (conv : U32) (cmd frg : BitVec 8) (wnd : BitVec 16) (ts sn una : U32) (payload : Bytes) : Seg :=
  { conv := conv, cmd := cmd, frg := frg, wnd := wnd, ts := ts, sn := sn, una := una, data := payload }

section
variable (regular : Bool) (conv : U32) (cmd frg : BitVec 8) (wnd : BitVec 16) (ts sn una : U32)
  (payload : Bytes) (st : InLoop)

/-- the connection after a step, by command -/
theorem inStep_k :
    (inStep regular conv cmd frg wnd ts sn una payload st).k =
      if cmd.toNat = IKCP_CMD_ACK then
        (parseFastack (shrinkBuf (parseAck (inPre regular wnd una st.k) sn)) sn ts).1
      else if cmd.toNat = IKCP_CMD_PUSH then
        if itimediff sn ((inPre regular wnd una st.k).rcv_nxt + (inPre regular wnd una st.k).rcv_wnd) < 0 then
          if itimediff sn (inPre regular wnd una st.k).rcv_nxt ≥ 0 then
            (parseData { inPre regular wnd una st.k with acklist := (inPre regular wnd una st.k).acklist ++ [⟨sn, ts⟩] }
              (pushSeg conv cmd frg wnd ts sn una payload)).k
          else { inPre regular wnd una st.k with acklist := (inPre regular wnd una st.k).acklist ++ [⟨sn, ts⟩] }
        else inPre regular wnd una st.k
      else if cmd.toNat = IKCP_CMD_WASK then
        { inPre regular wnd una st.k with probe := (inPre regular wnd una st.k).probe ||| u32 IKCP_ASK_TELL }
      else inPre regular wnd una st.k := by
  unfold inStep inPre pushSeg
  simp only []
  repeat' split
  all_goals rfl

/-- a step can write only these fields -/
theorem inStep_frame :
    ∃ sb su al rb rq rn pr, (inStep regular conv cmd frg wnd ts sn una payload st).k =
      { st.k with rmt_wnd := if regular then wnd.setWidth 32 else st.k.rmt_wnd, snd_buf := sb, snd_una := su,
                  acklist := al, rcv_buf := rb, rcv_queue := rq, rcv_nxt := rn, probe := pr } := by
  rw [inStep_k]
  obtain ⟨sb, su, hp⟩ := inPre_frame regular wnd una st.k
  split
  · obtain ⟨b, h1⟩ := parseAck_frame (inPre regular wnd una st.k) sn
    obtain ⟨b3, u3, h3⟩ := shrinkBuf_frame (parseAck (inPre regular wnd una st.k) sn)
    obtain ⟨b2, h2⟩ := parseFastack_frame (shrinkBuf (parseAck (inPre regular wnd una st.k) sn)) sn ts
    rw [h2, h3, h1, hp]
    exact ⟨_, _, _, _, _, _, _, rfl⟩
  · split
    · split
      · split
        · obtain ⟨rb, rq, rn, h⟩ := parseData_frame
            { inPre regular wnd una st.k with acklist := (inPre regular wnd una st.k).acklist ++ [⟨sn, ts⟩] }
            (pushSeg conv cmd frg wnd ts sn una payload)
          rw [h, hp]
          exact ⟨_, _, _, _, _, _, _, rfl⟩
        · rw [hp]; exact ⟨_, _, _, _, _, _, _, rfl⟩
      · rw [hp]; exact ⟨_, _, _, _, _, _, _, rfl⟩
    · split
      · rw [hp]; exact ⟨_, _, _, _, _, _, _, rfl⟩
      · rw [hp]; exact ⟨_, _, _, _, _, _, _, rfl⟩
end

/-- the number of segments removed by `una` in the prologue -/
def inCnt (regular : Bool) (wnd : BitVec 16) (una : U32) (k : Kcp) : Nat :=
  (parseUna (if regular then { k with rmt_wnd := wnd.setWidth 32 } else k) una).2

/-- the whole loop state after a step, by command -/
theorem inStep_eq (regular : Bool) (conv : U32) (cmd frg : BitVec 8) (wnd : BitVec 16) (ts sn una : U32)
    (payload : Bytes) (st : InLoop) :
    inStep regular conv cmd frg wnd ts sn una payload st =
      if cmd.toNat = IKCP_CMD_ACK then
        { st with k := (parseFastack (shrinkBuf (parseAck (inPre regular wnd una st.k) sn)) sn ts).1,
                  flushSeg := (st.flushSeg || decide (inCnt regular wnd una st.k > 0)) ||
                    (parseFastack (shrinkBuf (parseAck (inPre regular wnd una st.k) sn)) sn ts).2,
                  updRtt := true, latest := ts }
      else if cmd.toNat = IKCP_CMD_PUSH then
        if itimediff sn ((inPre regular wnd una st.k).rcv_nxt + (inPre regular wnd una st.k).rcv_wnd) < 0 then
          if itimediff sn (inPre regular wnd una st.k).rcv_nxt ≥ 0 then
            { st with
              k := (parseData { inPre regular wnd una st.k with acklist := (inPre regular wnd una st.k).acklist ++ [⟨sn, ts⟩] }
                (pushSeg conv cmd frg wnd ts sn una payload)).k,
              flushSeg := st.flushSeg || decide (inCnt regular wnd una st.k > 0),
              panic := (parseData { inPre regular wnd una st.k with acklist := (inPre regular wnd una st.k).acklist ++ [⟨sn, ts⟩] }
                (pushSeg conv cmd frg wnd ts sn una payload)).panic }
          else { st with k := { inPre regular wnd una st.k with acklist := (inPre regular wnd una st.k).acklist ++ [⟨sn, ts⟩] },
                         flushSeg := st.flushSeg || decide (inCnt regular wnd una st.k > 0) }
        else { st with k := inPre regular wnd una st.k, flushSeg := st.flushSeg || decide (inCnt regular wnd una st.k > 0) }
      else if cmd.toNat = IKCP_CMD_WASK then
        { st with k := { inPre regular wnd una st.k with probe := (inPre regular wnd una st.k).probe ||| u32 IKCP_ASK_TELL },
                  flushSeg := st.flushSeg || decide (inCnt regular wnd una st.k > 0) }
      else { st with k := inPre regular wnd una st.k, flushSeg := st.flushSeg || decide (inCnt regular wnd una st.k > 0) } := by
  unfold inStep inPre pushSeg inCnt
  simp only []
  repeat' split
  all_goals rfl

/-! ### `input` cut into its parts -/

/-- the parse loop of `Input` from the initial loop state -/
def inSt (k : Kcp) (data : Bytes) (regular : Bool) : InLoop :=
  inputLoop regular (data.length / IKCP_OVERHEAD + 1) data { k := k }

/-- the connection after the RTT sample and the cwnd update, before the closing flush -/
def inK2 (k : Kcp) (data : Bytes) (regular : Bool) (now : U32) : Kcp :=
  cwndOnAck
    (if (inSt k data regular).updRtt ∧ regular ∧ itimediff now (inSt k data regular).latest ≥ 0
     then updateAck (inSt k data regular).k (now - (inSt k data regular).latest) else (inSt k data regular).k)
    k.snd_una

theorem input_eq (k : Kcp) (data : Bytes) (regular ackNoDelay : Bool) (now : U32) :
    input k data regular ackNoDelay now =
      if data.length < IKCP_OVERHEAD then ⟨k, -1, [], false⟩ else
      if (inSt k data regular).panic then ⟨(inSt k data regular).k, 0, [], true⟩ else
      if (inSt k data regular).ret < 0 then ⟨(inSt k data regular).k, (inSt k data regular).ret, [], false⟩ else
      if (inSt k data regular).flushSeg then
        ⟨(flush (inK2 k data regular now) true now).k, 0, (flush (inK2 k data regular now) true now).outs,
          (flush (inK2 k data regular now) true now).panic⟩
      else if (inK2 k data regular now).acklist.length ≥ ((inK2 k data regular now).mtu / u32 IKCP_OVERHEAD).toNat then
        ⟨(flush (inK2 k data regular now) false now).k, 0, (flush (inK2 k data regular now) false now).outs,
          (flush (inK2 k data regular now) false now).panic⟩
      else if ackNoDelay ∧ (inK2 k data regular now).acklist.length > 0 then
        ⟨(flush (inK2 k data regular now) false now).k, 0, (flush (inK2 k data regular now) false now).outs,
          (flush (inK2 k data regular now) false now).panic⟩
      else ⟨inK2 k data regular now, 0, [], false⟩ := rfl

end KcpVerif.Live
