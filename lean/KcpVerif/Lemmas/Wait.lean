import KcpVerif.Model.Wait
/-! helper lemmas for Props/C13: how one step changes the state; invariants of the Wait LTS -/
namespace KcpVerif.Wait

theorem Reach.induct {cfg : Cfg} {s0 : State} (P : State → Prop) (h0 : P s0)
    (hs : ∀ s l s', Reach cfg s0 s → P s → Wait.step cfg s l = some s' → P s') :
    ∀ {s}, Reach cfg s0 s → P s := by
  intro s h
  induction h with
  | init => exact h0
  | step l hr hst ih => exact hs _ l _ hr ih hst

/-- explode a hypothesis `tstep cfg sh t ch = some r` into its cases -/
macro "tstep_cases " h:ident : tactic => `(tactic|
  (simp only [tstep, tstepRead, tstepWrite, tstepAccept] at $h:ident
   repeat' split at $h:ident
   all_goals first
     | contradiction
     | (cases $h:ident)))

theorem tstep_kind {cfg : Cfg} {sh : Sh} {t : Thread} {ch : Choice} {r : TRes}
    (h : tstep cfg sh t ch = some r) : r.t.kind = t.kind := by
  tstep_cases h <;> simp [Thread.finish, Thread.loadDeadline, Thread.stopDrain] <;> (repeat' split) <;> rfl

theorem tstep_now {cfg : Cfg} {sh : Sh} {t : Thread} {ch : Choice} {r : TRes}
    (h : tstep cfg sh t ch = some r) : r.sh.now = sh.now := by
  tstep_cases h <;> rfl

/-! ## the private timer of a caller -/

/-- the caller is between RESET_TIMER and the `select` (its `c` and timer reflect `seen`) -/
def Thread.waiting (t : Thread) : Prop := t.pc = .pre ∨ t.pc = .check ∨ t.pc = .sel

/-- coherence of a caller's timer, its case channel `c` and the deadline value it loaded -/
structure TimerInv (now : Time) (t : Thread) : Prop where
  armed_buf : ∀ w, t.armed = some w → t.buf = false
  fresh : t.created = false → t.armed = none ∧ t.buf = false ∧ t.c = false
  at_reset : t.pc = .reset → t.armed = none ∧ t.buf = false
  no_deadline : t.waiting → t.seen = none → t.c = false ∧ t.armed = none ∧ t.buf = false
  deadline : t.waiting → ∀ d, t.seen = some d →
    t.c = true ∧ ((t.armed = some d ∧ t.buf = false) ∨ (t.armed = none ∧ t.buf = true ∧ d ≤ now))

theorem TimerInv.mono {n n' : Time} {t : Thread} (h : TimerInv n t) (hn : n ≤ n') : TimerInv n' t := by
  refine ⟨h.armed_buf, h.fresh, h.at_reset, h.no_deadline, ?_⟩
  intro hw d hd
  have := h.deadline hw d hd
  refine ⟨this.1, ?_⟩
  rcases this.2 with h1 | ⟨h1, h2, h3⟩
  · exact Or.inl h1
  · exact Or.inr ⟨h1, h2, Nat.le_trans h3 hn⟩

theorem TimerInv.finish {now : Time} {t : Thread} (h : TimerInv now t) (r : Ret) (n : Time) :
    TimerInv now (t.finish r n) := by
  refine ⟨?_, ?_, ?_, ?_, ?_⟩ <;> simp [Thread.finish, Thread.waiting]
  intro hc; exact (h.fresh hc).2.2

theorem TimerInv.call {now : Time} (k : Kind) (b : Bool) :
    TimerInv now { kind := k, pc := .reset, dieAtCall := b } := by
  refine ⟨?_, ?_, ?_, ?_, ?_⟩ <;> simp [Thread.waiting]

theorem TimerInv.load {now : Time} {cfg : Cfg} {t : Thread} (hc : cfg.repoint = true)
    (h : TimerInv now t) (hpc : t.pc = .reset) (cell : Option Time) (pc' : Pc) (hp : pc' ≠ .reset) :
    TimerInv now { t.loadDeadline cfg cell with pc := pc' } := by
  have hr := h.at_reset hpc
  cases cell with
  | none =>
    by_cases hcr : t.created = true
    · refine ⟨?_, ?_, ?_, ?_, ?_⟩ <;> simp [Thread.loadDeadline, Thread.waiting, hcr, hr.2]
    · have hf := h.fresh (by simpa using hcr)
      refine ⟨?_, ?_, ?_, ?_, ?_⟩ <;> simp [Thread.loadDeadline, Thread.waiting, hcr, hr.1, hr.2, hf.2.2]
  | some d =>
    by_cases hcr : t.created = true
    · refine ⟨?_, ?_, ?_, ?_, ?_⟩ <;> simp [Thread.loadDeadline, Thread.waiting, hcr, hr.2, hc, hp]
    · refine ⟨?_, ?_, ?_, ?_, ?_⟩ <;> simp [Thread.loadDeadline, Thread.waiting, hcr, hp]

theorem TimerInv.setpc {now : Time} {t : Thread} (h : TimerInv now t) (hw : t.waiting) (pc' : Pc)
    (hp : pc' = .pre ∨ pc' = .check ∨ pc' = .sel) : TimerInv now { t with pc := pc' } := by
  refine ⟨h.armed_buf, h.fresh, ?_, fun _ => h.no_deadline hw, fun _ => h.deadline hw⟩
  intro h'; simp at h'; rcases hp with hp | hp | hp <;> simp [hp] at h'

theorem TimerInv.toWoken {now : Time} {t : Thread} (h : TimerInv now t) : TimerInv now { t with pc := .woken } := by
  refine ⟨h.armed_buf, h.fresh, ?_, ?_, ?_⟩ <;> simp [Thread.waiting]

theorem TimerInv.toIdle {now : Time} {t : Thread} (h : TimerInv now t) : TimerInv now { t with pc := .idle } := by
  refine ⟨h.armed_buf, h.fresh, ?_, ?_, ?_⟩ <;> simp [Thread.waiting]

theorem TimerInv.stopDrain {now : Time} {cfg : Cfg} {t : Thread} (h : TimerInv now t) :
    TimerInv now { t.stopDrain cfg with pc := .reset } := by
  have hb : (cfg.async && t.armed.isSome && t.buf) = false := by
    cases ha : t.armed with
    | none => simp
    | some w => simp [h.armed_buf w ha]
  refine ⟨?_, ?_, ?_, ?_, ?_⟩ <;> simp [Thread.stopDrain, Thread.waiting, hb]
  intro hc; exact (h.fresh hc).2.2

theorem TimerInv.rearm {now : Time} {t : Thread} (h : TimerInv now t) (hc : t.created = false) :
    TimerInv now { t with pc := .reset } := by
  have hf := h.fresh hc
  refine ⟨h.armed_buf, h.fresh, ?_, ?_, ?_⟩ <;> simp [Thread.waiting, hf.1, hf.2.1]

theorem TimerInv.fire {now : Time} {t t' : Thread} (h : TimerInv now t) (hf : t.fire now = some t') :
    TimerInv now t' := by
  unfold Thread.fire at hf
  split at hf
  · rename_i w hw
    split at hf
    · rename_i hle
      cases hf
      have hcr : t.created = true := by
        cases hc : t.created with
        | true => rfl
        | false => have := (h.fresh hc).1; simp [hw] at this
      refine ⟨?_, ?_, ?_, ?_, ?_⟩
      · simp
      · simp [hcr]
      · intro hp; have := (h.at_reset hp).1; simp [hw] at this
      · intro hwt hs; have := (h.no_deadline hwt hs).2.1; simp [hw] at this
      · intro hwt d hs
        have := h.deadline hwt d hs
        refine ⟨this.1, Or.inr ⟨rfl, rfl, ?_⟩⟩
        rcases this.2 with ⟨h1, _⟩ | ⟨h1, _⟩
        · simp [hw] at h1; rw [← h1]; exact hle
        · simp [hw] at h1
    · contradiction
  · contradiction

theorem TimerInv.acceptEntry {now : Time} {t : Thread} (d : Time) :
    TimerInv now { t with seen := some d, created := true, armed := some d, buf := false, c := true, pc := .sel } := by
  refine ⟨?_, ?_, ?_, ?_, ?_⟩ <;> simp [Thread.waiting]

theorem TimerInv.pre_check {now : Time} {t : Thread} (h : TimerInv now t) (hpc : t.pc = .pre) :
    TimerInv now { t with pc := .check } := h.setpc (Or.inl hpc) _ (by simp)

theorem TimerInv.check_sel {now : Time} {t : Thread} (h : TimerInv now t) (hpc : t.pc = .check) :
    TimerInv now { t with pc := .sel } := h.setpc (Or.inr (Or.inl hpc)) _ (by simp)

theorem TimerInv.load_check {now : Time} {cfg : Cfg} {t : Thread} (hc : cfg.repoint = true)
    (h : TimerInv now t) (hpc : t.pc = .reset) (cell : Option Time) :
    TimerInv now { t.loadDeadline cfg cell with pc := .check } := h.load hc hpc cell _ (by simp)

theorem TimerInv.load_pre {now : Time} {cfg : Cfg} {t : Thread} (hc : cfg.repoint = true)
    (h : TimerInv now t) (hpc : t.pc = .reset) (cell : Option Time) :
    TimerInv now { t.loadDeadline cfg cell with pc := .pre } := h.load hc hpc cell _ (by simp)

theorem TimerInv.rearm' {now : Time} {cfg : Cfg} {t : Thread} (h : TimerInv now t) (hr : cfg.rearm = true)
    (hc : ¬ t.created = true) (x : Pc) : TimerInv now { t with pc := if cfg.rearm = true then .reset else x } := by
  simp only [hr, if_true]; exact h.rearm (by simpa using hc)

theorem TimerInv.rearm'' {now : Time} {t : Thread} (h : TimerInv now t)
    (hc : ¬ t.created = true) : TimerInv now { t with pc := .reset } := h.rearm (by simpa using hc)

theorem TimerInv.acceptNone {now : Time} {t : Thread} (h : TimerInv now t) (hpc : t.pc = .reset) :
    TimerInv now { t with seen := none, c := false, pc := .sel } := by
  have hr := h.at_reset hpc
  refine ⟨h.armed_buf, ?_, ?_, ?_, ?_⟩ <;> simp [Thread.waiting, hr.1, hr.2]

/-- with both deadline repairs in place every step of a caller preserves the timer invariant -/
theorem tstep_timerInv {cfg : Cfg} {sh : Sh} {t : Thread} {ch : Choice} {r : TRes}
    (hc : cfg.repoint = true) (hr : cfg.rearm = true) (h : TimerInv sh.now t)
    (hs : tstep cfg sh t ch = some r) : TimerInv sh.now r.t := by
  tstep_cases hs
  all_goals first
    | exact h.finish _ _
    | exact h.load_check hc ‹_› _
    | exact h.load_pre hc ‹_› _
    | exact h.stopDrain
    | exact h.toWoken
    | exact h.pre_check ‹_›
    | exact h.check_sel ‹_›
    | exact TimerInv.acceptEntry _
    | exact h.acceptNone ‹_›
    | exact h.rearm' hr ‹_› _
    | exact h.rearm'' ‹_›
    | skip

/-! ## lifting a per-caller invariant to all reachable states -/

theorem step_forall_ths {cfg : Cfg} (Q : Time → Thread → Prop)
    (mono : ∀ {n n' : Time} {t : Thread}, n ≤ n' → Q n t → Q n' t)
    (hT : ∀ {sh : Sh} {t : Thread} {ch : Choice} {r : TRes}, Q sh.now t → tstep cfg sh t ch = some r → Q sh.now r.t)
    (hF : ∀ {now : Time} {t t' : Thread}, Q now t → t.fire now = some t' → Q now t')
    (hcall : ∀ (now : Time) (k : Kind) (b : Bool), Q now { kind := k, pc := .reset, dieAtCall := b })
    (hidle : ∀ {now : Time} {t : Thread}, Q now t → Q now { t with pc := .idle })
    {s s' : State} {l : Label} (h : ∀ t ∈ s.ths, Q s.sh.now t) (hs : step cfg s l = some s') :
    ∀ t ∈ s'.ths, Q s'.sh.now t := by
  cases l <;> simp only [step] at hs
  case thr i ch =>
    split at hs
    · rename_i t hi
      split at hs
      · rename_i r hr
        cases hs
        intro t' ht'
        simp only at ht' ⊢
        rw [tstep_now hr]
        rcases List.mem_or_eq_of_mem_set ht' with h1 | h1
        · exact h t' h1
        · subst h1; exact hT (h t (List.mem_of_getElem? hi)) hr
      · contradiction
    · contradiction
  case fire i =>
    split at hs
    · rename_i t hi
      split at hs
      · rename_i t1 hf
        cases hs
        intro t' ht'
        rcases List.mem_or_eq_of_mem_set ht' with h1 | h1
        · exact h t' h1
        · subst h1; exact hF (h t (List.mem_of_getElem? hi)) hf
      · contradiction
    · contradiction
  case call i =>
    split at hs
    · rename_i t hi
      split at hs
      · cases hs
        intro t' ht'
        rcases List.mem_or_eq_of_mem_set ht' with h1 | h1
        · exact h t' h1
        · subst h1; exact hcall _ _ _
      · contradiction
    · contradiction
  case collect i =>
    split at hs
    · rename_i t hi
      split at hs
      · cases hs
        intro t' ht'
        rcases List.mem_or_eq_of_mem_set ht' with h1 | h1
        · exact h t' h1
        · subst h1; exact hidle (h t (List.mem_of_getElem? hi))
      · contradiction
    · contradiction
  case tick t1 =>
    split at hs
    · rename_i hc
      cases hs
      intro t' ht'
      simp only [Bool.and_eq_true, decide_eq_true_eq] at hc
      exact mono (Nat.le_of_lt hc.1.1) (h t' ht')
    · contradiction
  case pump =>
    split at hs <;> cases hs <;> exact h
  all_goals (cases hs; exact h)

/-- every reachable state of the repaired loops keeps every caller's timer coherent -/
theorem reach_timerInv {cfg : Cfg} {kinds : List Kind} {wnd infl : Nat} {s : State}
    (hc : cfg.repoint = true) (hr : cfg.rearm = true) (h : Reach cfg (init kinds wnd infl) s) :
    ∀ t ∈ s.ths, TimerInv s.sh.now t := by
  refine Reach.induct (P := fun s => ∀ t ∈ s.ths, TimerInv s.sh.now t) ?_ ?_ h
  · intro t ht
    simp only [init, List.mem_map] at ht
    obtain ⟨k, _, rfl⟩ := ht
    refine ⟨?_, ?_, ?_, ?_, ?_⟩ <;> simp [Thread.waiting]
  · intro s l s' _ ih hs
    exact step_forall_ths (fun n t => TimerInv n t) (fun hn h => h.mono hn)
      (fun h hs => tstep_timerInv hc hr h hs) (fun h hf => h.fire hf)
      (fun _ k b => TimerInv.call k b) (fun h => h.toIdle) ih hs

end KcpVerif.Wait
