import KcpVerif.Model.Wait
/-! helper lemmas for Props/C13: how one step changes the state; invariants of the Wait LTS -/
namespace KcpVerif.Wait

theorem Reach.induct {cfg : Cfg} {s0 : State} (P : State → Prop) (h0 : P s0)
    (hs : ∀ s l s', Reach cfg s0 s → P s → Wait.step cfg s l = some s' → P s') :
    ∀ {s}, Reach cfg s0 s → P s := by
  intro s h
  induction h with
  | init => exact h0
  | step l hr hst ih => exact hs _ l _ hr ih hst

/-- explode a hypothesis `tstep cfg sh t ch = some r` into its cases -/
macro "tstep_cases " h:ident : tactic => `(tactic|
  (simp only [tstep, tstepRead, tstepWrite, tstepAccept] at $h:ident
   repeat' split at $h:ident
   all_goals first
     | contradiction
     | (cases $h:ident)))

theorem tstep_kind {cfg : Cfg} {sh : Sh} {t : Thread} {ch : Choice} {r : TRes}
    (h : tstep cfg sh t ch = some r) : r.t.kind = t.kind := by
  tstep_cases h <;> simp [Thread.finish, Thread.loadDeadline, Thread.stopDrain] <;> (repeat' split) <;> rfl

theorem tstep_now {cfg : Cfg} {sh : Sh} {t : Thread} {ch : Choice} {r : TRes}
    (h : tstep cfg sh t ch = some r) : r.sh.now = sh.now := by
  tstep_cases h <;> rfl

@[simp] theorem loadDeadline_kind (cfg : Cfg) (t : Thread) (cell : Option Time) :
    (t.loadDeadline cfg cell).kind = t.kind := by
  unfold Thread.loadDeadline; repeat' split
  all_goals rfl

@[simp] theorem loadDeadline_pc (cfg : Cfg) (t : Thread) (cell : Option Time) :
    (t.loadDeadline cfg cell).pc = t.pc := by
  unfold Thread.loadDeadline; repeat' split
  all_goals rfl

@[simp] theorem loadDeadline_dieAtCall (cfg : Cfg) (t : Thread) (cell : Option Time) :
    (t.loadDeadline cfg cell).dieAtCall = t.dieAtCall := by
  unfold Thread.loadDeadline; repeat' split
  all_goals rfl

@[simp] theorem loadDeadline_seen (cfg : Cfg) (t : Thread) (cell : Option Time) :
    (t.loadDeadline cfg cell).seen = cell := by
  unfold Thread.loadDeadline; repeat' split
  all_goals rfl

/-! ## the read buffer: leftover bytes and queued messages -/

theorem take_none {l : Nat} {q : List Nat} {b : Nat} (h : take l q b = none) : l = 0 ∧ q = [] := by
  unfold take at h
  split at h
  · contradiction
  · split at h
    · split at h <;> contradiction
    · exact ⟨by omega, rfl⟩

theorem take_some_pos {l : Nat} {q : List Nat} {b : Nat} {r : RdRes} (h : take l q b = some r) :
    0 < l + q.length := by
  unfold take at h
  split at h
  · omega
  · split at h
    · simp only [List.length_cons]; omega
    · contradiction

theorem more_of_pos {l : Nat} {q : List Nat} (h : 0 < l + q.length) : more l q = true := by
  unfold more
  cases q with
  | nil => simp at h; simp [h]
  | cons m q => simp

theorem pos_of_more {l : Nat} {q : List Nat} (h : more l q = true) : 0 < l + q.length := by
  unfold more at h
  cases q with
  | nil => simp at h; simp [h]
  | cons m q => simp only [List.length_cons]; omega

/-- a partial read leaves exactly the bytes that did not fit: the data handed out plus what stays
(leftover + queued messages) is what was there -/
theorem take_conserves {l : Nat} {q : List Nat} {b : Nat} {r : RdRes} (h : take l q b = some r) :
    r.n + r.left + r.queue.sum = l + q.sum ∧ r.n ≤ b := by
  unfold take at h
  split at h
  · cases h; simp only; omega
  · split at h
    · split at h
      · cases h; simp only [List.sum_cons]; omega
      · cases h; simp only [List.sum_cons]; omega
    · contradiction

/-! ## the private timer of a caller -/

/-- the caller is between RESET_TIMER and the `select` (its `c` and timer reflect `seen`) -/
def Thread.waiting (t : Thread) : Prop := t.pc = .pre ∨ t.pc = .check ∨ t.pc = .sel

/-- coherence of a caller's timer, its case channel `c` and the deadline value it loaded -/
structure TimerInv (now : Time) (t : Thread) : Prop where
  armed_buf : ∀ w, t.armed = some w → t.buf = false
  fresh : t.created = false → t.armed = none ∧ t.buf = false ∧ t.c = false
  at_reset : t.pc = .reset → t.armed = none ∧ t.buf = false
  no_deadline : t.waiting → t.seen = none → t.c = false ∧ t.armed = none ∧ t.buf = false
  deadline : t.waiting → ∀ d, t.seen = some d →
    t.c = true ∧ ((t.armed = some d ∧ t.buf = false) ∨ (t.armed = none ∧ t.buf = true ∧ d ≤ now))

theorem TimerInv.mono {n n' : Time} {t : Thread} (h : TimerInv n t) (hn : n ≤ n') : TimerInv n' t := by
  refine ⟨h.armed_buf, h.fresh, h.at_reset, h.no_deadline, ?_⟩
  intro hw d hd
  have := h.deadline hw d hd
  refine ⟨this.1, ?_⟩
  rcases this.2 with h1 | ⟨h1, h2, h3⟩
  · exact Or.inl h1
  · exact Or.inr ⟨h1, h2, Nat.le_trans h3 hn⟩

theorem TimerInv.finish {now : Time} {t : Thread} (h : TimerInv now t) (r : Ret) (n : Time) (g : Nat) :
    TimerInv now (t.finish r n g) := by
  refine ⟨?_, ?_, ?_, ?_, ?_⟩ <;> simp [Thread.finish, Thread.waiting]
  intro hc; exact (h.fresh hc).2.2

theorem TimerInv.call {now : Time} (k : Kind) (b : Bool) (n : Nat) :
    TimerInv now (Thread.fresh k b n) := by
  refine ⟨?_, ?_, ?_, ?_, ?_⟩ <;> simp [Thread.waiting, Thread.fresh]

theorem TimerInv.load {now : Time} {cfg : Cfg} {t : Thread} (hc : cfg.repoint = true)
    (h : TimerInv now t) (hpc : t.pc = .reset) (cell : Option Time) (pc' : Pc) (hp : pc' ≠ .reset) :
    TimerInv now { t.loadDeadline cfg cell with pc := pc' } := by
  have hr := h.at_reset hpc
  cases cell with
  | none =>
    by_cases hcr : t.created = true
    · refine ⟨?_, ?_, ?_, ?_, ?_⟩ <;> simp [Thread.loadDeadline, Thread.waiting, hcr, hr.2]
    · have hf := h.fresh (by simpa using hcr)
      refine ⟨?_, ?_, ?_, ?_, ?_⟩ <;> simp [Thread.loadDeadline, Thread.waiting, hcr, hr.1, hr.2, hf.2.2]
  | some d =>
    by_cases hcr : t.created = true
    · refine ⟨?_, ?_, ?_, ?_, ?_⟩ <;> simp [Thread.loadDeadline, Thread.waiting, hcr, hr.2, hc, hp]
    · refine ⟨?_, ?_, ?_, ?_, ?_⟩ <;> simp [Thread.loadDeadline, Thread.waiting, hcr, hp]

theorem TimerInv.setpc {now : Time} {t : Thread} (h : TimerInv now t) (hw : t.waiting) (pc' : Pc)
    (hp : pc' = .pre ∨ pc' = .check ∨ pc' = .sel) : TimerInv now { t with pc := pc' } := by
  refine ⟨h.armed_buf, h.fresh, ?_, fun _ => h.no_deadline hw, fun _ => h.deadline hw⟩
  intro h'; simp at h'; rcases hp with hp | hp | hp <;> simp [hp] at h'

theorem TimerInv.toWoken {now : Time} {t : Thread} (h : TimerInv now t) : TimerInv now { t with pc := .woken } := by
  refine ⟨h.armed_buf, h.fresh, ?_, ?_, ?_⟩ <;> simp [Thread.waiting]

theorem TimerInv.toIdle {now : Time} {t : Thread} (h : TimerInv now t) : TimerInv now { t with pc := .idle } := by
  refine ⟨h.armed_buf, h.fresh, ?_, ?_, ?_⟩ <;> simp [Thread.waiting]

theorem TimerInv.stopDrain {now : Time} {cfg : Cfg} {t : Thread} (h : TimerInv now t) :
    TimerInv now { t.stopDrain cfg with pc := .reset } := by
  have hb : (cfg.async && t.armed.isSome && t.buf) = false := by
    cases ha : t.armed with
    | none => simp
    | some w => simp [h.armed_buf w ha]
  refine ⟨?_, ?_, ?_, ?_, ?_⟩ <;> simp [Thread.stopDrain, Thread.waiting, hb]
  intro hc; exact (h.fresh hc).2.2

theorem TimerInv.rearm {now : Time} {t : Thread} (h : TimerInv now t) (hc : t.created = false) :
    TimerInv now { t with pc := .reset } := by
  have hf := h.fresh hc
  refine ⟨h.armed_buf, h.fresh, ?_, ?_, ?_⟩ <;> simp [Thread.waiting, hf.1, hf.2.1]

theorem TimerInv.fire {now : Time} {t t' : Thread} (h : TimerInv now t) (hf : t.fire now = some t') :
    TimerInv now t' := by
  unfold Thread.fire at hf
  split at hf
  · rename_i w hw
    split at hf
    · rename_i hle
      cases hf
      have hcr : t.created = true := by
        cases hc : t.created with
        | true => rfl
        | false => have := (h.fresh hc).1; simp [hw] at this
      refine ⟨?_, ?_, ?_, ?_, ?_⟩
      · simp
      · simp [hcr]
      · intro hp; have := (h.at_reset hp).1; simp [hw] at this
      · intro hwt hs; have := (h.no_deadline hwt hs).2.1; simp [hw] at this
      · intro hwt d hs
        have := h.deadline hwt d hs
        refine ⟨this.1, Or.inr ⟨rfl, rfl, ?_⟩⟩
        rcases this.2 with ⟨h1, _⟩ | ⟨h1, _⟩
        · simp [hw] at h1; rw [← h1]; exact hle
        · simp [hw] at h1
    · contradiction
  · contradiction

theorem TimerInv.acceptEntry {now : Time} {t : Thread} (d : Time) :
    TimerInv now { t with seen := some d, created := true, armed := some d, buf := false, c := true, pc := .sel } := by
  refine ⟨?_, ?_, ?_, ?_, ?_⟩ <;> simp [Thread.waiting]

theorem TimerInv.pre_check {now : Time} {t : Thread} (h : TimerInv now t) (hpc : t.pc = .pre) :
    TimerInv now { t with pc := .check } := h.setpc (Or.inl hpc) _ (by simp)

theorem TimerInv.check_sel {now : Time} {t : Thread} (h : TimerInv now t) (hpc : t.pc = .check) :
    TimerInv now { t with pc := .sel } := h.setpc (Or.inr (Or.inl hpc)) _ (by simp)

theorem TimerInv.load_check {now : Time} {cfg : Cfg} {t : Thread} (hc : cfg.repoint = true)
    (h : TimerInv now t) (hpc : t.pc = .reset) (cell : Option Time) :
    TimerInv now { t.loadDeadline cfg cell with pc := .check } := h.load hc hpc cell _ (by simp)

theorem TimerInv.load_pre {now : Time} {cfg : Cfg} {t : Thread} (hc : cfg.repoint = true)
    (h : TimerInv now t) (hpc : t.pc = .reset) (cell : Option Time) :
    TimerInv now { t.loadDeadline cfg cell with pc := .pre } := h.load hc hpc cell _ (by simp)

theorem TimerInv.rearm' {now : Time} {cfg : Cfg} {t : Thread} (h : TimerInv now t) (hr : cfg.rearm = true)
    (hc : ¬ t.created = true) (x : Pc) : TimerInv now { t with pc := if cfg.rearm = true then .reset else x } := by
  simp only [hr, if_true]; exact h.rearm (by simpa using hc)

theorem TimerInv.rearm'' {now : Time} {t : Thread} (h : TimerInv now t)
    (hc : ¬ t.created = true) : TimerInv now { t with pc := .reset } := h.rearm (by simpa using hc)

theorem TimerInv.acceptNone {now : Time} {t : Thread} (h : TimerInv now t) (hpc : t.pc = .reset) :
    TimerInv now { t with seen := none, c := false, pc := .sel } := by
  have hr := h.at_reset hpc
  refine ⟨h.armed_buf, ?_, ?_, ?_, ?_⟩ <;> simp [Thread.waiting, hr.1, hr.2]

/-- with both deadline repairs in place every step of a caller preserves the timer invariant -/
theorem tstep_timerInv {cfg : Cfg} {sh : Sh} {t : Thread} {ch : Choice} {r : TRes}
    (hc : cfg.repoint = true) (hr : cfg.rearm = true) (h : TimerInv sh.now t)
    (hs : tstep cfg sh t ch = some r) : TimerInv sh.now r.t := by
  tstep_cases hs
  all_goals first
    | exact h.finish _ _ _
    | exact h.load_check hc ‹_› _
    | exact h.load_pre hc ‹_› _
    | exact h.stopDrain
    | exact h.toWoken
    | exact h.pre_check ‹_›
    | exact h.check_sel ‹_›
    | exact TimerInv.acceptEntry _
    | exact h.acceptNone ‹_›
    | exact h.rearm' hr ‹_› _
    | exact h.rearm'' ‹_›
    | skip

/-! ## lifting a per-caller invariant to all reachable states -/

theorem step_forall_ths {cfg : Cfg} (Q : Time → Thread → Prop)
    (mono : ∀ {n n' : Time} {t : Thread}, n ≤ n' → Q n t → Q n' t)
    (hT : ∀ {sh : Sh} {t : Thread} {ch : Choice} {r : TRes}, Q sh.now t → tstep cfg sh t ch = some r → Q sh.now r.t)
    (hF : ∀ {now : Time} {t t' : Thread}, Q now t → t.fire now = some t' → Q now t')
    (hcall : ∀ (now : Time) (k : Kind) (b : Bool) (n : Nat), Q now (Thread.fresh k b n))
    (hidle : ∀ {now : Time} {t : Thread}, Q now t → Q now { t with pc := .idle })
    {s s' : State} {l : Label} (h : ∀ t ∈ s.ths, Q s.sh.now t) (hs : step cfg s l = some s') :
    ∀ t ∈ s'.ths, Q s'.sh.now t := by
  cases l <;> simp only [step] at hs
  case thr i ch =>
    split at hs
    · rename_i t hi
      split at hs
      · rename_i r hr
        cases hs
        intro t' ht'
        simp only at ht' ⊢
        rw [tstep_now hr]
        rcases List.mem_or_eq_of_mem_set ht' with h1 | h1
        · exact h t' h1
        · subst h1; exact hT (h t (List.mem_of_getElem? hi)) hr
      · contradiction
    · contradiction
  case fire i =>
    split at hs
    · rename_i t hi
      split at hs
      · rename_i t1 hf
        cases hs
        intro t' ht'
        rcases List.mem_or_eq_of_mem_set ht' with h1 | h1
        · exact h t' h1
        · subst h1; exact hF (h t (List.mem_of_getElem? hi)) hf
      · contradiction
    · contradiction
  case call i b =>
    split at hs
    · rename_i t hi
      split at hs
      · cases hs
        intro t' ht'
        rcases List.mem_or_eq_of_mem_set ht' with h1 | h1
        · exact h t' h1
        · subst h1; exact hcall _ _ _ _
      · contradiction
    · contradiction
  case collect i =>
    split at hs
    · rename_i t hi
      split at hs
      · cases hs
        intro t' ht'
        rcases List.mem_or_eq_of_mem_set ht' with h1 | h1
        · exact h t' h1
        · subst h1; exact hidle (h t (List.mem_of_getElem? hi))
      · contradiction
    · contradiction
  case tick t1 =>
    split at hs
    · rename_i hc
      cases hs
      intro t' ht'
      simp only [Bool.and_eq_true, decide_eq_true_eq] at hc
      exact mono (Nat.le_of_lt hc.1.1) (h t' ht')
    · contradiction
  case pump =>
    split at hs <;> cases hs <;> exact h
  all_goals (cases hs; exact h)

/-- every reachable state of the repaired loops keeps every caller's timer coherent -/
theorem reach_timerInv {cfg : Cfg} {kinds : List Kind} {wnd infl : Nat} {s : State}
    (hc : cfg.repoint = true) (hr : cfg.rearm = true) (h : Reach cfg (init kinds wnd infl) s) :
    ∀ t ∈ s.ths, TimerInv s.sh.now t := by
  refine Reach.induct (P := fun s => ∀ t ∈ s.ths, TimerInv s.sh.now t) ?_ ?_ h
  · intro t ht
    simp only [init, List.mem_map] at ht
    obtain ⟨k, _, rfl⟩ := ht
    refine ⟨?_, ?_, ?_, ?_, ?_⟩ <;> simp [Thread.waiting]
  · intro s l s' _ ih hs
    exact step_forall_ths (fun n t => TimerInv n t) (fun hn h => h.mono hn)
      (fun h hs => tstep_timerInv hc hr h hs) (fun h hf => h.fire hf)
      (fun _ k b n => TimerInv.call k b n) (fun h => h.toIdle) ih hs

/-! ## enabledness, quiescence, tick -/

theorem not_quiescent_of_canStep {cfg : Cfg} {s : State} {t : Thread} (ht : t ∈ s.ths)
    (h : t.canStep cfg s.sh = true) : quiescent cfg s = false := by
  cases hq : quiescent cfg s with
  | false => rfl
  | true =>
    simp only [quiescent, List.all_eq_true] at hq
    have := hq t ht
    simp [h] at this

theorem tick_none_of_canStep {cfg : Cfg} {s : State} {t : Thread} (ht : t ∈ s.ths)
    (h : t.canStep cfg s.sh = true) (t' : Time) : step cfg s (.tick t') = none := by
  simp [step, not_quiescent_of_canStep ht h]

theorem canStep_of_choice {cfg : Cfg} {sh : Sh} {t : Thread} (ch : Choice)
    (h : (tstep cfg sh t ch).isSome = true) : t.canStep cfg sh = true := by
  simp only [Thread.canStep, Bool.or_eq_true, List.any_eq_true]
  left
  exact ⟨ch, by cases ch <;> simp [allChoices], h⟩

theorem canStep_of_fire {cfg : Cfg} {sh : Sh} {t : Thread}
    (h : (t.fire sh.now).isSome = true) : t.canStep cfg sh = true := by
  simp [Thread.canStep, h]

/-- a tick needs a quiescent state and does not jump over an armed timer -/
theorem tick_spec {cfg : Cfg} {s s' : State} {t' : Time} (h : step cfg s (.tick t') = some s') :
    s.sh.now < t' ∧ quiescent cfg s = true ∧ (∀ t ∈ s.ths, ∀ w, t.armed = some w → t' ≤ w) ∧
      s' = { s with sh := { s.sh with now := t' } } := by
  simp only [step] at h
  split at h
  · rename_i hc
    simp only [Bool.and_eq_true, decide_eq_true_eq, List.all_eq_true] at hc
    refine ⟨hc.1.1, hc.1.2, ?_, by cases h; rfl⟩
    intro t ht w hw
    have := hc.2 t ht
    simpa [Thread.armedGe, hw] using this
  · contradiction

/-! ## data never left unclaimed (chain wake) -/

/-- a reader that will test `readable` before it can block -/
def Thread.aboutToCheck (t : Thread) : Prop :=
  t.kind = .read ∧ (t.pc = .reset ∨ t.pc = .check ∨ t.pc = .woken)

theorem tstep_data {cfg : Cfg} {sh : Sh} {t : Thread} {ch : Choice} {r : TRes}
    (hchain : cfg.chain = true) (hs : tstep cfg sh t ch = some r) (hpos : 0 < r.sh.readable) :
    0 < sh.readable ∧ ((sh.rtok = true ∨ t.aboutToCheck) → (r.sh.rtok = true ∨ r.t.aboutToCheck)) := by
  tstep_cases hs
  all_goals simp_all [Thread.aboutToCheck, Thread.finish, Thread.stopDrain, Sh.readable]
  all_goals first
    | exact ⟨take_some_pos ‹_›, Or.inr (more_of_pos hpos)⟩
    | (have := take_none ‹_›; simp [this.1, this.2] at hpos)
    | skip

/-- readable data ⇒ a wake-up token is pending or some reader is about to test for data -/
def DataInv (s : State) : Prop :=
  0 < s.sh.readable → s.sh.rtok = true ∨ ∃ (j : Nat) (t : Thread), s.ths[j]? = some t ∧ t.aboutToCheck

theorem step_dataInv {cfg : Cfg} {s s' : State} {l : Label} (hchain : cfg.chain = true)
    (h : DataInv s) (hs : step cfg s l = some s') : DataInv s' := by
  cases l <;> simp only [step] at hs
  case thr i ch =>
    split at hs
    · rename_i t hi
      split at hs
      · rename_i r hr
        cases hs
        unfold DataInv; intro hpos
        simp only at hpos ⊢
        have hd := tstep_data hchain hr hpos
        have hlt : i < s.ths.length := by
          rcases Nat.lt_or_ge i s.ths.length with h1 | h1
          · exact h1
          · simp [List.getElem?_eq_none h1] at hi
        have hnew : (r.sh.rtok = true ∨ r.t.aboutToCheck) →
            r.sh.rtok = true ∨ ∃ (j : Nat) (t : Thread), (s.ths.set i r.t)[j]? = some t ∧ t.aboutToCheck := by
          intro h1
          rcases h1 with h1 | h1
          · exact Or.inl h1
          · exact Or.inr ⟨i, r.t, by simp [hlt], h1⟩
        rcases h hd.1 with h1 | ⟨j, t0, hj, h0⟩
        · exact hnew (hd.2 (Or.inl h1))
        · by_cases hij : i = j
          · subst hij
            rw [hi] at hj; cases hj
            exact hnew (hd.2 (Or.inr h0))
          · exact Or.inr ⟨j, t0, by simp [hij, hj], h0⟩
      · contradiction
    · contradiction
  case fire i =>
    split at hs
    · rename_i t hi
      split at hs
      · rename_i t1 hf
        cases hs
        unfold DataInv; intro hpos
        have hlt : i < s.ths.length := by
          rcases Nat.lt_or_ge i s.ths.length with h1 | h1
          · exact h1
          · simp [List.getElem?_eq_none h1] at hi
        rcases h hpos with h1 | ⟨j, t0, hj, h0⟩
        · exact Or.inl h1
        · by_cases hij : i = j
          · subst hij
            rw [hi] at hj; cases hj
            refine Or.inr ⟨i, t1, by simp [hlt], ?_⟩
            unfold Thread.fire at hf
            split at hf
            · split at hf
              · cases hf; exact h0
              · contradiction
            · contradiction
          · exact Or.inr ⟨j, t0, by simp [hij, hj], h0⟩
      · contradiction
    · contradiction
  case call i b =>
    split at hs
    · rename_i t hi
      split at hs
      · rename_i hidle
        cases hs
        unfold DataInv; intro hpos
        rcases h hpos with h1 | ⟨j, t0, hj, h0⟩
        · exact Or.inl h1
        · by_cases hij : i = j
          · subst hij
            rw [hi] at hj; cases hj
            simp [Thread.aboutToCheck, hidle] at h0
          · exact Or.inr ⟨j, t0, by simp [hij, hj], h0⟩
      · contradiction
    · contradiction
  case collect i =>
    split at hs
    · rename_i t hi
      split at hs
      · rename_i hdone
        cases hs
        unfold DataInv; intro hpos
        rcases h hpos with h1 | ⟨j, t0, hj, h0⟩
        · exact Or.inl h1
        · by_cases hij : i = j
          · subst hij
            rw [hi] at hj; cases hj
            simp [Thread.aboutToCheck, hdone] at h0
          · exact Or.inr ⟨j, t0, by simp [hij, hj], h0⟩
      · contradiction
    · contradiction
  case tick t1 =>
    split at hs
    · cases hs; exact h
    · contradiction
  case pump =>
    split at hs <;> cases hs <;> exact h
  case arrive ms =>
    cases hs; unfold DataInv; intro hpos
    simp only [Sh.readable] at hpos ⊢
    by_cases hq : s.sh.queue ++ ms = []
    · have hq' := List.append_eq_nil_iff.mp hq
      have hold : 0 < s.sh.readable := by
        simp only [Sh.readable]; rw [hq] at hpos; simp at hpos; omega
      rcases h hold with h1 | h1
      · left; simp [h1]
      · exact Or.inr h1
    · left; cases hc : (s.sh.queue ++ ms) with
      | nil => exact absurd hc hq
      | cons a l => simp
  case opn j =>
    cases hs; unfold DataInv; intro hpos
    have hold : 0 < s.sh.readable := by simpa [Sh.readable] using hpos
    rcases h hold with h1 | h1
    · left; simp [h1]
    · exact Or.inr h1
  case setRD d => cases hs; unfold DataInv; intro _; left; rfl
  case setD d => cases hs; unfold DataInv; intro _; left; rfl
  all_goals (cases hs; exact h)

theorem reach_dataInv {cfg : Cfg} {kinds : List Kind} {wnd infl : Nat} {s : State}
    (hchain : cfg.chain = true) (h : Reach cfg (init kinds wnd infl) s) : DataInv s := by
  refine Reach.induct (P := DataInv) ?_ ?_ h
  · unfold DataInv; intro hpos; simp [init, Sh.readable] at hpos
  · intro s l s' _ ih hs; exact step_dataInv hchain ih hs

/-! ## the kinds of the caller slots are static -/

theorem fire_same {now : Time} {t t' : Thread} (h : t.fire now = some t') :
    t'.kind = t.kind ∧ t'.pc = t.pc ∧ t'.seen = t.seen ∧ t'.c = t.c := by
  unfold Thread.fire at h
  split at h
  · split at h
    · cases h; exact ⟨rfl, rfl, rfl, rfl⟩
    · contradiction
  · contradiction

theorem step_kinds {cfg : Cfg} {s s' : State} {l : Label} (hs : step cfg s l = some s') :
    s'.ths.map (·.kind) = s.ths.map (·.kind) := by
  have key : ∀ (i : Nat) (t t' : Thread), s.ths[i]? = some t → t'.kind = t.kind →
      (s.ths.set i t').map (·.kind) = s.ths.map (·.kind) := by
    intro i t t' hi hk
    apply List.ext_getElem?
    intro j
    by_cases hij : i = j
    · subst hij
      have hlt : i < s.ths.length := by
        rcases Nat.lt_or_ge i s.ths.length with h1 | h1
        · exact h1
        · simp [List.getElem?_eq_none h1] at hi
      have hget : s.ths[i] = t := by
        have := List.getElem?_eq_getElem hlt
        rw [hi] at this; exact (Option.some.inj this).symm
      simp [hlt, hk, hget]
    · simp [hij]
  cases l <;> simp only [step] at hs
  case thr i ch =>
    split at hs
    · rename_i t hi
      split at hs
      · rename_i r hr
        cases hs; exact key i t r.t hi (tstep_kind hr)
      · contradiction
    · contradiction
  case fire i =>
    split at hs
    · rename_i t hi
      split at hs
      · rename_i t1 hf
        cases hs; exact key i t t1 hi (fire_same hf).1
      · contradiction
    · contradiction
  case call i b =>
    split at hs
    · rename_i t hi
      split at hs
      · cases hs; exact key i t _ hi rfl
      · contradiction
    · contradiction
  case collect i =>
    split at hs
    · rename_i t hi
      split at hs
      · cases hs; exact key i t _ hi rfl
      · contradiction
    · contradiction
  case tick t1 =>
    split at hs
    · cases hs; rfl
    · contradiction
  case pump =>
    split at hs <;> cases hs <;> rfl
  all_goals (cases hs; rfl)

theorem reach_kinds {cfg : Cfg} {kinds : List Kind} {wnd infl : Nat} {s : State}
    (h : Reach cfg (init kinds wnd infl) s) : s.ths.map (·.kind) = kinds := by
  refine Reach.induct (P := fun s => s.ths.map (·.kind) = kinds) ?_ ?_ h
  · simp [init, Function.comp_def]
  · intro s l s' _ ih hs; rw [step_kinds hs]; exact ih

/-- at most one caller slot of kind `k` -/
def SingleK (k : Kind) (ks : List Kind) : Prop :=
  ∀ i j : Nat, ks[i]? = some k → ks[j]? = some k → i = j

theorem single_of_kinds {k : Kind} {s : State} (h : SingleK k (s.ths.map (·.kind)))
    {i j : Nat} {ti tj : Thread} (hi : s.ths[i]? = some ti) (hj : s.ths[j]? = some tj)
    (hki : ti.kind = k) (hkj : tj.kind = k) : i = j := by
  apply h i j
  · simp [hi, hki]
  · simp [hj, hkj]

/-! ## what the environment can do to the shared state -/

structure EnvRel (a b : Sh) : Prop where
  now : a.now ≤ b.now
  rd : (b.rd = a.rd ∧ (a.rtok = true → b.rtok = true)) ∨ b.rtok = true
  wd : (b.wd = a.wd ∧ (a.wtok = true → b.wtok = true)) ∨ b.wtok = true
  room : (b.inflight = a.inflight ∧ b.wnd = a.wnd ∧ (a.wtok = true → b.wtok = true)) ∨
    (b.inflight < b.wnd → b.wtok = true)
  data : (b.readable = a.readable ∧ (a.rtok = true → b.rtok = true)) ∨ (0 < b.readable → b.rtok = true)

theorem EnvRel.refl (a : Sh) : EnvRel a a :=
  ⟨Nat.le_refl _, Or.inl ⟨rfl, id⟩, Or.inl ⟨rfl, id⟩, Or.inl ⟨rfl, rfl, id⟩, Or.inl ⟨rfl, id⟩⟩

theorem step_env {cfg : Cfg} {s s' : State} {l : Label} (hs : step cfg s l = some s') :
    (∃ i ch, l = .thr i ch) ∨ (∃ i, l = .fire i) ∨ (∃ i b, l = .call i b) ∨ (∃ i, l = .collect i) ∨
      (s'.ths = s.ths ∧ EnvRel s.sh s'.sh) := by
  cases l <;> simp only [step] at hs
  case thr i ch => exact Or.inl ⟨i, ch, rfl⟩
  case fire i => exact Or.inr (Or.inl ⟨i, rfl⟩)
  case call i b => exact Or.inr (Or.inr (Or.inl ⟨i, b, rfl⟩))
  case collect i => exact Or.inr (Or.inr (Or.inr (Or.inl ⟨i, rfl⟩)))
  case tick t1 =>
    split at hs
    · rename_i hc
      simp only [Bool.and_eq_true, decide_eq_true_eq] at hc
      cases hs
      exact Or.inr (Or.inr (Or.inr (Or.inr ⟨rfl, ⟨Nat.le_of_lt hc.1.1, Or.inl ⟨rfl, id⟩, Or.inl ⟨rfl, id⟩, Or.inl ⟨rfl, rfl, id⟩, Or.inl ⟨rfl, id⟩⟩⟩)))
    · contradiction
  case arrive ms =>
    cases hs
    refine Or.inr (Or.inr (Or.inr (Or.inr ⟨rfl, ⟨Nat.le_refl _, Or.inl ⟨rfl, fun h => by simp [h]⟩,
      Or.inl ⟨rfl, fun h => by simp [h]⟩, Or.inl ⟨rfl, rfl, fun h => by simp [h]⟩, ?_⟩⟩)))
    by_cases hq : s.sh.queue ++ ms = []
    · have hq' := List.append_eq_nil_iff.mp hq
      exact Or.inl ⟨by simp [Sh.readable, hq'.2], fun h => by simp [h]⟩
    · refine Or.inr (fun _ => ?_)
      cases hc : (s.sh.queue ++ ms) with
      | nil => exact absurd hc hq
      | cons a l => simp
  case pump =>
    split at hs
    · cases hs; exact Or.inr (Or.inr (Or.inr (Or.inr ⟨rfl, EnvRel.refl _⟩)))
    · cases hs
      refine Or.inr (Or.inr (Or.inr (Or.inr ⟨rfl, ⟨Nat.le_refl _, Or.inl ⟨rfl, id⟩, Or.inl ⟨rfl, ?_⟩, Or.inl ⟨rfl, rfl, ?_⟩, Or.inl ⟨rfl, id⟩⟩⟩)))
      all_goals (intro h; simp [h])
  all_goals
    cases hs
    refine Or.inr (Or.inr (Or.inr (Or.inr ⟨rfl, ⟨Nat.le_refl _, ?_, ?_, ?_, ?_⟩⟩)))
  all_goals first
    | exact Or.inl ⟨rfl, id⟩
    | exact Or.inl ⟨rfl, rfl, id⟩
    | exact Or.inr rfl
    | (refine Or.inl ⟨rfl, ?_⟩; intro h; simp [h])
    | (refine Or.inr ?_; intro h; simp [h])
    | (refine Or.inr ?_; simp)
    | skip

/-! ## lifting an invariant about the only caller of kind `k` -/

theorem getElem?_lt {α : Type} {l : List α} {i : Nat} {a : α} (h : l[i]? = some a) : i < l.length := by
  rcases Nat.lt_or_ge i l.length with h1 | h1
  · exact h1
  · simp [List.getElem?_eq_none h1] at h

theorem step_forall_single {cfg : Cfg} (k : Kind) (Q : Sh → Thread → Prop)
    (hself : ∀ {sh : Sh} {t : Thread} {ch : Choice} {r : TRes},
      t.kind = k → Q sh t → tstep cfg sh t ch = some r → Q r.sh r.t)
    (hother : ∀ {sh : Sh} {t t0 : Thread} {ch : Choice} {r : TRes},
      t.kind ≠ k → tstep cfg sh t ch = some r → Q sh t0 → Q r.sh t0)
    (hfire : ∀ {sh : Sh} {t t' : Thread}, Q sh t → t.fire sh.now = some t' → Q sh t')
    (hcall : ∀ (sh : Sh) (b : Bool) (n : Nat), Q sh (Thread.fresh k b n))
    (hidle : ∀ {sh : Sh} {t : Thread}, Q sh t → Q sh { t with pc := .idle })
    (henv : ∀ {a b : Sh} {t : Thread}, EnvRel a b → Q a t → Q b t)
    {s s' : State} {l : Label} (hsingle : SingleK k (s.ths.map (·.kind)))
    (h : ∀ (i : Nat) (t : Thread), s.ths[i]? = some t → t.kind = k → Q s.sh t)
    (hs : step cfg s l = some s') :
    ∀ (i : Nat) (t : Thread), s'.ths[i]? = some t → t.kind = k → Q s'.sh t := by
  rcases step_env hs with ⟨i, ch, rfl⟩ | ⟨i, rfl⟩ | ⟨i, b, rfl⟩ | ⟨i, rfl⟩ | ⟨hths, hrel⟩
  · simp only [step] at hs
    split at hs
    · rename_i t hi
      split at hs
      · rename_i r hr
        cases hs
        intro j t0 hj hk
        simp only at hj ⊢
        by_cases hij : i = j
        · subst hij
          simp [getElem?_lt hi] at hj
          subst hj
          exact hself ((tstep_kind hr).symm.trans hk) (h i t hi ((tstep_kind hr).symm.trans hk)) hr
        · simp [hij] at hj
          have hne : t.kind ≠ k := by
            intro hkt
            exact hij (single_of_kinds hsingle hi hj hkt hk)
          exact hother hne hr (h j t0 hj hk)
      · contradiction
    · contradiction
  · simp only [step] at hs
    split at hs
    · rename_i t hi
      split at hs
      · rename_i t1 hf
        cases hs
        intro j t0 hj hk
        simp only at hj ⊢
        by_cases hij : i = j
        · subst hij
          simp [getElem?_lt hi] at hj
          subst hj
          exact hfire (h i t hi ((fire_same hf).1.symm.trans hk)) hf
        · simp [hij] at hj
          exact h j t0 hj hk
      · contradiction
    · contradiction
  · simp only [step] at hs
    split at hs
    · rename_i t hi
      split at hs
      · cases hs
        intro j t0 hj hk
        simp only at hj ⊢
        by_cases hij : i = j
        · subst hij
          simp [getElem?_lt hi] at hj
          subst hj
          simp only [Thread.fresh] at hk
          rw [hk]
          exact hcall _ _ _
        · simp [hij] at hj
          exact h j t0 hj hk
      · contradiction
    · contradiction
  · simp only [step] at hs
    split at hs
    · rename_i t hi
      split at hs
      · cases hs
        intro j t0 hj hk
        simp only at hj ⊢
        by_cases hij : i = j
        · subst hij
          simp [getElem?_lt hi] at hj
          subst hj
          exact hidle (h i t hi hk)
        · simp [hij] at hj
          exact h j t0 hj hk
      · contradiction
    · contradiction
  · intro j t0 hj hk
    rw [hths] at hj
    exact henv hrel (h j t0 hj hk)

/-! ## single reader / single writer: deadline coherence and window wake-up -/

/-- the deadline the caller has loaded is the one in the cell, or a wake-up is pending -/
def CohR (sh : Sh) (t : Thread) : Prop := t.waiting → sh.rd = t.seen ∨ sh.rtok = true
def CohW (sh : Sh) (t : Thread) : Prop := t.waiting → sh.wd = t.seen ∨ sh.wtok = true
/-- free window: the writer is not asleep without a pending wake-up -/
def RoomW (sh : Sh) (t : Thread) : Prop := t.pc = .sel → sh.inflight < sh.wnd → sh.wtok = true
/-- readable data: the reader is not asleep without a pending wake-up -/
def DataR (sh : Sh) (t : Thread) : Prop := t.pc = .sel → 0 < sh.readable → sh.rtok = true

theorem tstep_frame_nonread {cfg : Cfg} {sh : Sh} {t : Thread} {ch : Choice} {r : TRes}
    (hk : t.kind ≠ .read) (hs : tstep cfg sh t ch = some r) :
    r.sh.rd = sh.rd ∧ r.sh.rtok = sh.rtok ∧ r.sh.readable = sh.readable := by
  tstep_cases hs
  all_goals simp_all [Sh.readable]

theorem tstep_frame_nonwrite {cfg : Cfg} {sh : Sh} {t : Thread} {ch : Choice} {r : TRes}
    (hk : t.kind ≠ .write) (hs : tstep cfg sh t ch = some r) :
    r.sh.wd = sh.wd ∧ r.sh.wtok = sh.wtok ∧ r.sh.inflight = sh.inflight ∧ r.sh.wnd = sh.wnd := by
  tstep_cases hs
  all_goals simp_all

theorem tstep_cohR {cfg : Cfg} {sh : Sh} {t : Thread} {ch : Choice} {r : TRes} (hr : cfg.rearm = true)
    (hk : t.kind = .read) (h : CohR sh t) (hs : tstep cfg sh t ch = some r) : CohR r.sh r.t := by
  unfold CohR at *
  tstep_cases hs
  all_goals simp_all [Thread.waiting, Thread.finish, Thread.stopDrain]

theorem tstep_cohW {cfg : Cfg} {sh : Sh} {t : Thread} {ch : Choice} {r : TRes} (hr : cfg.rearm = true)
    (hk : t.kind = .write) (h : CohW sh t) (hs : tstep cfg sh t ch = some r) : CohW r.sh r.t := by
  unfold CohW at *
  tstep_cases hs
  all_goals simp_all [Thread.waiting, Thread.finish, Thread.stopDrain]

theorem tstep_roomW {cfg : Cfg} {sh : Sh} {t : Thread} {ch : Choice} {r : TRes}
    (hk : t.kind = .write) (h : RoomW sh t) (hs : tstep cfg sh t ch = some r) : RoomW r.sh r.t := by
  unfold RoomW at *
  tstep_cases hs
  all_goals simp_all [Thread.finish]
  intro h1; omega

theorem tstep_dataR {cfg : Cfg} {sh : Sh} {t : Thread} {ch : Choice} {r : TRes}
    (hk : t.kind = .read) (h : DataR sh t) (hs : tstep cfg sh t ch = some r) : DataR r.sh r.t := by
  unfold DataR at *
  tstep_cases hs
  all_goals simp_all [Thread.finish, Sh.readable]
  all_goals first
    | (have := take_none ‹_›; omega)
    | (have := take_none ‹_›; simp [this.1, this.2])
    | skip

theorem reach_dataR {cfg : Cfg} {kinds : List Kind} {wnd infl : Nat} {s : State}
    (hsingle : SingleK .read kinds) (h : Reach cfg (init kinds wnd infl) s) :
    ∀ (i : Nat) (t : Thread), s.ths[i]? = some t → t.kind = .read → DataR s.sh t := by
  refine Reach.induct (P := fun s => ∀ (i : Nat) (t : Thread), s.ths[i]? = some t → t.kind = .read → DataR s.sh t) ?_ ?_ h
  · intro i t hi _
    have : t ∈ (init kinds wnd infl).ths := List.mem_of_getElem? hi
    simp only [init, List.mem_map] at this
    obtain ⟨k, _, rfl⟩ := this
    simp [DataR]
  · intro s l s' hreach ih hs
    refine step_forall_single .read DataR (fun hk h hs => tstep_dataR hk h hs) ?_ ?_ ?_ ?_ ?_
      (by rw [reach_kinds hreach]; exact hsingle) ih hs
    · intro sh t t0 ch r hk hs h hp
      have hf := tstep_frame_nonread hk hs
      rw [hf.2.1, hf.2.2]; exact h hp
    · intro sh t t' h hf hp
      have hs := fire_same hf
      exact h (hs.2.1 ▸ hp)
    · intro sh b n; simp [DataR, Thread.fresh]
    · intro sh t _; simp [DataR]
    · intro a b t hrel h hp hpos
      rcases hrel.data with ⟨h1, h2⟩ | h1
      · exact h2 (h hp (by rw [← h1]; exact hpos))
      · exact h1 hpos

theorem reach_cohR {cfg : Cfg} {kinds : List Kind} {wnd infl : Nat} {s : State} (hr : cfg.rearm = true)
    (hsingle : SingleK .read kinds) (h : Reach cfg (init kinds wnd infl) s) :
    ∀ (i : Nat) (t : Thread), s.ths[i]? = some t → t.kind = .read → CohR s.sh t := by
  refine Reach.induct (P := fun s => ∀ (i : Nat) (t : Thread), s.ths[i]? = some t → t.kind = .read → CohR s.sh t) ?_ ?_ h
  · intro i t hi _
    have : t ∈ (init kinds wnd infl).ths := List.mem_of_getElem? hi
    simp only [init, List.mem_map] at this
    obtain ⟨k, _, rfl⟩ := this
    simp [CohR, Thread.waiting]
  · intro s l s' hreach ih hs
    refine step_forall_single .read CohR (fun hk h hs => tstep_cohR hr hk h hs) ?_ ?_ ?_ ?_ ?_
      (by rw [reach_kinds hreach]; exact hsingle) ih hs
    · intro sh t t0 ch r hk hs h hw
      have hf := tstep_frame_nonread hk hs
      rw [hf.1, hf.2.1]; exact h hw
    · intro sh t t' h hf hw
      have hs := fire_same hf
      have hw' : t.waiting := by simpa [Thread.waiting, hs.2.1] using hw
      rw [hs.2.2.1]; exact h hw'
    · intro sh b n; simp [CohR, Thread.waiting, Thread.fresh]
    · intro sh t _; simp [CohR, Thread.waiting]
    · intro a b t hrel h hw
      rcases hrel.rd with ⟨h1, h2⟩ | h1
      · rcases h hw with h3 | h3
        · exact Or.inl (h1.trans h3)
        · exact Or.inr (h2 h3)
      · exact Or.inr h1

theorem reach_cohW {cfg : Cfg} {kinds : List Kind} {wnd infl : Nat} {s : State} (hr : cfg.rearm = true)
    (hsingle : SingleK .write kinds) (h : Reach cfg (init kinds wnd infl) s) :
    ∀ (i : Nat) (t : Thread), s.ths[i]? = some t → t.kind = .write → CohW s.sh t := by
  refine Reach.induct (P := fun s => ∀ (i : Nat) (t : Thread), s.ths[i]? = some t → t.kind = .write → CohW s.sh t) ?_ ?_ h
  · intro i t hi _
    have : t ∈ (init kinds wnd infl).ths := List.mem_of_getElem? hi
    simp only [init, List.mem_map] at this
    obtain ⟨k, _, rfl⟩ := this
    simp [CohW, Thread.waiting]
  · intro s l s' hreach ih hs
    refine step_forall_single .write CohW (fun hk h hs => tstep_cohW hr hk h hs) ?_ ?_ ?_ ?_ ?_
      (by rw [reach_kinds hreach]; exact hsingle) ih hs
    · intro sh t t0 ch r hk hs h hw
      have hf := tstep_frame_nonwrite hk hs
      rw [hf.1, hf.2.1]; exact h hw
    · intro sh t t' h hf hw
      have hs := fire_same hf
      have hw' : t.waiting := by simpa [Thread.waiting, hs.2.1] using hw
      rw [hs.2.2.1]; exact h hw'
    · intro sh b n; simp [CohW, Thread.waiting, Thread.fresh]
    · intro sh t _; simp [CohW, Thread.waiting]
    · intro a b t hrel h hw
      rcases hrel.wd with ⟨h1, h2⟩ | h1
      · rcases h hw with h3 | h3
        · exact Or.inl (h1.trans h3)
        · exact Or.inr (h2 h3)
      · exact Or.inr h1

theorem reach_roomW {cfg : Cfg} {kinds : List Kind} {wnd infl : Nat} {s : State}
    (hsingle : SingleK .write kinds) (h : Reach cfg (init kinds wnd infl) s) :
    ∀ (i : Nat) (t : Thread), s.ths[i]? = some t → t.kind = .write → RoomW s.sh t := by
  refine Reach.induct (P := fun s => ∀ (i : Nat) (t : Thread), s.ths[i]? = some t → t.kind = .write → RoomW s.sh t) ?_ ?_ h
  · intro i t hi _
    have : t ∈ (init kinds wnd infl).ths := List.mem_of_getElem? hi
    simp only [init, List.mem_map] at this
    obtain ⟨k, _, rfl⟩ := this
    simp [RoomW]
  · intro s l s' hreach ih hs
    refine step_forall_single .write RoomW (fun hk h hs => tstep_roomW hk h hs) ?_ ?_ ?_ ?_ ?_
      (by rw [reach_kinds hreach]; exact hsingle) ih hs
    · intro sh t t0 ch r hk hs h hp
      have hf := tstep_frame_nonwrite hk hs
      rw [hf.2.1, hf.2.2.1, hf.2.2.2]; exact h hp
    · intro sh t t' h hf hp
      have hs := fire_same hf
      exact h (hs.2.1 ▸ hp)
    · intro sh b n; simp [RoomW, Thread.fresh]
    · intro sh t _; simp [RoomW]
    · intro a b t hrel h hp hroom
      rcases hrel.room with ⟨h1, h2, h3⟩ | h1
      · exact h3 (h hp (by rw [← h1, ← h2]; exact hroom))
      · exact h1 hroom

/-! ## enabledness of the exits of a blocked caller -/

theorem canStep_read_tok {cfg : Cfg} {sh : Sh} {t : Thread} (hk : t.kind = .read) (hp : t.pc = .sel)
    (h : sh.rtok = true) : t.canStep cfg sh = true :=
  canStep_of_choice .tok (by simp [tstep, tstepRead, hk, hp, h])

theorem canStep_write_tok {cfg : Cfg} {sh : Sh} {t : Thread} (hk : t.kind = .write) (hp : t.pc = .sel)
    (h : sh.wtok = true) : t.canStep cfg sh = true :=
  canStep_of_choice .tok (by simp [tstep, tstepWrite, hk, hp, h])

theorem canStep_timeout {cfg : Cfg} {sh : Sh} {t : Thread} (hp : t.pc = .sel)
    (hc : t.c = true) (hb : t.buf = true) : t.canStep cfg sh = true :=
  canStep_of_choice .timeout (by cases hk : t.kind <;> simp [tstep, tstepRead, tstepWrite, tstepAccept, hk, hp, hc, hb])

theorem canStep_armed {cfg : Cfg} {sh : Sh} {t : Thread} {d : Time} (ha : t.armed = some d) (hd : d ≤ sh.now) :
    t.canStep cfg sh = true :=
  canStep_of_fire (by simp [Thread.fire, ha, hd])

theorem canStep_aboutToCheck {cfg : Cfg} {sh : Sh} {t : Thread} (h : t.aboutToCheck) : t.canStep cfg sh = true := by
  obtain ⟨hk, hp | hp | hp⟩ := h
  · exact canStep_of_choice .go (by simp [tstep, tstepRead, hk, hp])
  · refine canStep_of_choice .go ?_
    simp only [tstep, tstepRead, hk, hp]; split <;> rfl
  · refine canStep_of_choice .go ?_
    simp only [tstep, tstepRead, hk, hp]; split <;> rfl

/-- a blocked caller whose loaded deadline has passed can move (timer expiry or timeout case) -/
theorem canStep_deadline_passed {cfg : Cfg} {sh : Sh} {t : Thread} {d : Time} (hinv : TimerInv sh.now t)
    (hp : t.pc = .sel) (hs : t.seen = some d) (hd : d ≤ sh.now) : t.canStep cfg sh = true := by
  have := hinv.deadline (Or.inr (Or.inr hp)) d hs
  rcases this.2 with ⟨ha, _⟩ | ⟨_, hb, _⟩
  · exact canStep_armed ha hd
  · exact canStep_timeout hp this.1 hb

theorem not_canStep_of_quiescent {cfg : Cfg} {s : State} {t : Thread} (hq : quiescent cfg s = true)
    (ht : t ∈ s.ths) : t.canStep cfg s.sh = false := by
  simp only [quiescent, List.all_eq_true] at hq
  simpa using hq t ht

/-! ## termination of the maximal-progress phases (thread steps and timer expiries only) -/

def armedBit (o : Option Time) : Nat := if o.isSome then 1 else 0

theorem armedBit_le (o : Option Time) : armedBit o ≤ 1 := by unfold armedBit; split <;> omega

def Thread.rank (t : Thread) : Nat :=
  (match t.pc with
    | .woken => 10 | .reset => 8 | .pre => 6 | .check => 4 | .sel => 2 | .idle => 0 | .done => 0) + armedBit t.armed

def Thread.act (t : Thread) : Nat := if t.pc = .idle ∨ t.pc = .done then 0 else 1

def Sh.toks (sh : Sh) : Nat := (if sh.rtok = true then 1 else 0) + (if sh.wtok = true then 1 else 0)

/-- every step of a caller decreases `27·active + 9·tokens + rank`: a return decreases `active` (and
issues at most one chain token), taking a token decreases `tokens` (and raises the rank by 8), every
other step lowers the rank -/
theorem tstep_measure {cfg : Cfg} {sh : Sh} {t : Thread} {ch : Choice} {r : TRes}
    (hs : tstep cfg sh t ch = some r) :
    27 * r.t.act + 9 * r.sh.toks + r.t.rank < 27 * t.act + 9 * sh.toks + t.rank := by
  have h1 := armedBit_le t.armed
  have h2 := armedBit_le (t.loadDeadline cfg sh.rd).armed
  have h3 := armedBit_le (t.loadDeadline cfg sh.wd).armed
  tstep_cases hs
  all_goals simp_all [Thread.rank, Thread.act, Sh.toks, Thread.finish, Thread.stopDrain, armedBit]
  all_goals (repeat' split)
  all_goals omega

def Thread.weight (t : Thread) : Nat := 27 * t.act + t.rank

/-- the termination measure of a state -/
def measure (s : State) : Nat := (s.ths.map Thread.weight).sum + 9 * s.sh.toks

/-- thread steps and timer expiries: what happens between two environment events / ticks -/
def Label.isProgress : Label → Bool
  | .thr _ _ => true
  | .fire _ => true
  | _ => false

theorem sum_map_set (f : Thread → Nat) {l : List Thread} {i : Nat} {a : Thread} (b : Thread)
    (h : l[i]? = some a) : ((l.set i b).map f).sum + f a = (l.map f).sum + f b := by
  induction l generalizing i with
  | nil => simp at h
  | cons x xs ih =>
    cases i with
    | zero => simp at h; subst h; simp; omega
    | succ i =>
      simp at h
      have := ih h
      simp only [List.set_cons_succ, List.map_cons, List.sum_cons]
      omega

theorem fire_weight {now : Time} {t t' : Thread} (h : t.fire now = some t') : t'.weight < t.weight := by
  unfold Thread.fire at h
  split at h
  · rename_i w hw
    split at h
    · cases h
      simp [Thread.weight, Thread.rank, Thread.act, armedBit, hw]
    · contradiction
  · contradiction

theorem step_measure {cfg : Cfg} {s s' : State} {l : Label} (hl : l.isProgress = true)
    (hs : step cfg s l = some s') : measure s' < measure s := by
  cases l <;> simp [Label.isProgress] at hl <;> simp only [step] at hs
  case thr i ch =>
    split at hs
    · rename_i t hi
      split at hs
      · rename_i r hr
        cases hs
        have h1 := sum_map_set Thread.weight r.t hi
        have h2 := tstep_measure hr
        simp only [measure, Thread.weight] at *
        omega
      · contradiction
    · contradiction
  case fire i =>
    split at hs
    · rename_i t hi
      split at hs
      · rename_i t1 hf
        cases hs
        have h1 := sum_map_set Thread.weight t1 hi
        have h2 := fire_weight hf
        simp only [measure] at *
        omega
      · contradiction
    · contradiction

/-- a maximal-progress phase from `s` has at most `measure s` steps -/
theorem run_measure {cfg : Cfg} {s s' : State} (ls : List Label) (hall : ∀ l ∈ ls, l.isProgress = true)
    (hr : run cfg s ls = some s') : ls.length + measure s' ≤ measure s := by
  induction ls generalizing s with
  | nil => simp [run] at hr; subst hr; simp
  | cons l ls ih =>
    simp only [run] at hr
    split at hr
    · rename_i s1 h1
      have hm := step_measure (hall l (by simp)) h1
      have := ih (fun l' hl' => hall l' (by simp [hl'])) hr
      simp only [List.length_cons]; omega
    · contradiction

/-- control points that exist for the kind of caller (`pre` is Write's poll; Accept has a single `select`) -/
def PcOK (t : Thread) : Prop :=
  (t.kind = .read → t.pc ≠ .pre) ∧ (t.kind = .accept → t.pc ≠ .pre ∧ t.pc ≠ .check ∧ t.pc ≠ .woken)

theorem tstep_pcOK {cfg : Cfg} {sh : Sh} {t : Thread} {ch : Choice} {r : TRes}
    (h : PcOK t) (hs : tstep cfg sh t ch = some r) : PcOK r.t := by
  unfold PcOK at *
  tstep_cases hs
  all_goals simp_all [Thread.finish, Thread.stopDrain]
  all_goals (repeat' split)
  all_goals simp_all

theorem reach_pcOK {cfg : Cfg} {kinds : List Kind} {wnd infl : Nat} {s : State}
    (h : Reach cfg (init kinds wnd infl) s) : ∀ t ∈ s.ths, PcOK t := by
  refine Reach.induct (P := fun s => ∀ t ∈ s.ths, PcOK t) ?_ ?_ h
  · intro t ht
    simp only [init, List.mem_map] at ht
    obtain ⟨k, _, rfl⟩ := ht
    simp [PcOK]
  · intro s l s' _ ih hs
    exact step_forall_ths (fun _ t => PcOK t) (fun _ h => h) (fun h hs => tstep_pcOK h hs)
      (fun h hf => by
        have := fire_same hf
        unfold PcOK at *; rw [this.1, this.2.1]; exact h)
      (fun _ k b n => by simp [PcOK, Thread.fresh]) (fun h => by unfold PcOK at *; simp_all) ih hs

/-- every control point other than the `select` has an enabled continuation -/
theorem canStep_active {cfg : Cfg} {sh : Sh} {t : Thread} (hok : PcOK t)
    (hp : t.pc = .reset ∨ t.pc = .pre ∨ t.pc = .check ∨ t.pc = .woken) : t.canStep cfg sh = true := by
  unfold PcOK at hok
  cases hk : t.kind
  case read =>
    rcases hp with hp | hp | hp | hp
    · apply canStep_of_choice .go; simp [tstep, tstepRead, hk, hp]
    · exact absurd hp (hok.1 hk)
    · apply canStep_of_choice .go; simp only [tstep, tstepRead, hk, hp]; split <;> rfl
    · apply canStep_of_choice .go; simp only [tstep, tstepRead, hk, hp]; split <;> rfl
  case write =>
    rcases hp with hp | hp | hp | hp
    · apply canStep_of_choice .go; simp [tstep, tstepWrite, hk, hp]
    · by_cases hw : sh.werr = true
      · apply canStep_of_choice .err; simp [tstep, tstepWrite, hk, hp, hw]
      · by_cases hd : sh.die = true
        · apply canStep_of_choice .die; simp [tstep, tstepWrite, hk, hp, hd]
        · apply canStep_of_choice .go; simp [tstep, tstepWrite, hk, hp, hw, hd]
    · apply canStep_of_choice .go; simp only [tstep, tstepWrite, hk, hp]; split <;> rfl
    · apply canStep_of_choice .go; simp only [tstep, tstepWrite, hk, hp]; split <;> rfl
  case accept =>
    have := hok.2 hk
    rcases hp with hp | hp | hp | hp
    · apply canStep_of_choice .go; simp only [tstep, tstepAccept, hk, hp]; split <;> rfl
    · exact absurd hp this.1
    · exact absurd hp this.2.1
    · exact absurd hp this.2.2

/-- in a quiescent state every caller is idle, has returned, or is blocked in its `select` -/
theorem quiescent_pcs {cfg : Cfg} {s : State} (hq : quiescent cfg s = true) {t : Thread} (ht : t ∈ s.ths)
    (hok : PcOK t) : t.pc = .idle ∨ t.pc = .done ∨ t.pc = .sel := by
  have hns := not_canStep_of_quiescent hq ht
  cases hp : t.pc
  case idle => exact Or.inl rfl
  case done => exact Or.inr (Or.inl rfl)
  case sel => exact Or.inr (Or.inr rfl)
  case reset => have := canStep_active (cfg := cfg) (sh := s.sh) hok (Or.inl hp); simp [hns] at this
  case pre => have := canStep_active (cfg := cfg) (sh := s.sh) hok (Or.inr (Or.inl hp)); simp [hns] at this
  case check => have := canStep_active (cfg := cfg) (sh := s.sh) hok (Or.inr (Or.inr (Or.inl hp))); simp [hns] at this
  case woken => have := canStep_active (cfg := cfg) (sh := s.sh) hok (Or.inr (Or.inr (Or.inr hp))); simp [hns] at this

/-- time is never stuck: in a quiescent state a tick to any later instant not beyond the next timer expiry is enabled -/
theorem tick_enabled {cfg : Cfg} {s : State} {t' : Time} (hq : quiescent cfg s = true) (hlt : s.sh.now < t')
    (harm : ∀ t ∈ s.ths, ∀ w, t.armed = some w → t' ≤ w) :
    step cfg s (.tick t') = some { s with sh := { s.sh with now := t' } } := by
  have : s.ths.all (Thread.armedGe t') = true := by
    simp only [List.all_eq_true]
    intro t ht
    cases ha : t.armed with
    | none => simp [Thread.armedGe, ha]
    | some w => simp [Thread.armedGe, ha, harm t ht w ha]
  simp [step, hq, hlt, this]

end KcpVerif.Wait
