/-
C05 (protocol core): `flush` never overruns its buffer and preserves `InvK`.

`flush` of the model is one long chain of `let`s; here it is cut into its six phases
(`flA` … `flE`, `flK6`), the cut is proved to be the model's `flush` by `rfl` (`flush_eq`), and
every phase is shown to keep the buffer invariant `FlOk` and the eight fields `InvK` reads.
-/
import KcpVerif.Lemmas.KcpTotal

namespace KcpVerif.Total
open KcpVerif KcpVerif.Gen KcpVerif.Kcp

/-! ### the phases of `flush`, named -/

/-- Phase 1: the ack loop -/
def flA (k : Kcp) : AckSt :=
  ackFlush (wndUnused k) k.rcv_nxt k.acklist.length k.acklist 0
    ⟨{ k := k }, { cmd := BitVec.ofNat 8 IKCP_CMD_ACK }⟩

/-- after Phase 2: ack list cleared, probe timer run -/
def flB (k : Kcp) (now : U32) : Fl :=
  { (flA k).f with k := probePhase { (flA k).f.k with acklist := [] } now }

/-- after Phase 3: window probe commands written -/
def flC (k : Kcp) (now : U32) : Fl :=
  let wnd := wndUnused k
  let una := k.rcv_nxt
  let sc := (flA k).sc
  let f := flB k now
  let f : Fl := if f.k.probe &&& u32 IKCP_ASK_SEND ≠ 0 then
      (f.makeSpace IKCP_OVERHEAD).putHdr (encodeHdr f.k.conv (BitVec.ofNat 8 IKCP_CMD_WASK) 0 wnd sc.ts sc.sn una 0)
    else f
  let f : Fl := if f.k.probe &&& u32 IKCP_ASK_TELL ≠ 0 then
      (f.makeSpace IKCP_OVERHEAD).putHdr (encodeHdr f.k.conv (BitVec.ofNat 8 IKCP_CMD_WINS) 0 wnd sc.ts sc.sn una 0)
    else f
  { f with k := { f.k with probe := 0 } }

/-- the sending window computed at the start of Phase 4 -/
def flCwnd (k : Kcp) : U32 :=
  let cw0 := if k.snd_wnd ≤ k.rmt_wnd then k.snd_wnd else k.rmt_wnd
  if k.nocwnd = 0 then (if k.cwnd ≤ cw0 then k.cwnd else cw0) else cw0

def flAd (k : Kcp) (now : U32) : AdmitRes :=
  let f := flC k now
  admitSegs f.k.conv f.k.snd_una (flCwnd f.k) now f.k.snd_queue f.k.snd_buf f.k.snd_nxt 0

/-- after Phase 4: segments admitted to `snd_buf` -/
def flD (k : Kcp) (now : U32) : Fl :=
  let f := flC k now
  let ad := flAd k now
  { f with k := { f.k with snd_queue := ad.queue, snd_buf := ad.buf, snd_nxt := ad.nxt } }

def flResent (k : Kcp) : U32 := if k.fastresend.sle 0 then 0xFFFFFFFF#32 else k.fastresend

/-- Phase 5: the (re)transmission loop -/
def flX (k : Kcp) (full : Bool) (now : U32) : XmitSt :=
  let f := flD k now
  if full then
    f.k.snd_buf.foldl (xmitOne now (flResent f.k) (wndUnused k) k.rcv_nxt (flAd k now).count) { f := f, next := f.k.interval }
  else { f := f, done := f.k.snd_buf, next := f.k.interval }

/-- after Phase 5 -/
def flE (k : Kcp) (full : Bool) (now : U32) : Fl :=
  let x := flX k full now
  { x.f with k := { x.f.k with snd_buf := x.done } }

/-- Phase 6: congestion window bookkeeping -/
def flK6 (k5 : Kcp) (change lost : Nat) (cwnd resent : U32) : Kcp :=
  if k5.nocwnd = 0 then
    let k7 : Kcp := if change > 0 then
        let inflight := k5.snd_nxt - k5.snd_una
        let half := inflight / 2
        let ss := if half ≥ u32 IKCP_THRESH_MIN then half else u32 IKCP_THRESH_MIN
        { k5 with ssthresh := ss, cwnd := ss + resent, incr := (ss + resent) * k5.mss }
      else k5
    let k8 : Kcp := if lost > 0 then
        let half := cwnd / 2
        { k7 with ssthresh := (if half ≥ u32 IKCP_THRESH_MIN then half else u32 IKCP_THRESH_MIN), cwnd := 1, incr := k7.mss }
      else k7
    if k8.cwnd < 1 then { k8 with cwnd := 1, incr := k8.mss } else k8
  else k5

/-- the cut is the model's `flush` -/
theorem flush_eq (k : Kcp) (full : Bool) (now : U32) :
    flush k full now =
      ⟨flK6 (flE k full now).k (flX k full now).change (flX k full now).lost (flCwnd (flC k now).k)
          (flResent (flD k now).k),
       (if (flE k full now).cur.length > 0 then (flE k full now).outs ++ [(flE k full now).cur]
        else (flE k full now).outs),
       (flX k full now).next, (flE k full now).panic⟩ := rfl

/-! ### what a phase may change: everything `InvK` reads stays, except the send queues -/

/-- `k'` has the configuration fields and receive queues of `k` -/
structure SameCfg (k k' : Kcp) : Prop where
  mtu    : k'.mtu = k.mtu
  mss    : k'.mss = k.mss
  bufLen : k'.bufLen = k.bufLen
  rcvb   : k'.rcv_buf = k.rcv_buf
  rcvq   : k'.rcv_queue = k.rcv_queue

theorem SameCfg.refl (k : Kcp) : SameCfg k k := ⟨rfl, rfl, rfl, rfl, rfl⟩

theorem SameCfg.trans {a b c : Kcp} (h1 : SameCfg a b) (h2 : SameCfg b c) : SameCfg a c :=
  ⟨h2.mtu.trans h1.mtu, h2.mss.trans h1.mss, h2.bufLen.trans h1.bufLen, h2.rcvb.trans h1.rcvb,
   h2.rcvq.trans h1.rcvq⟩

theorem InvK.of_sameCfg {k k' : Kcp} (h : InvK k) (hc : SameCfg k k')
    (hq : DataLe k.mss.toNat k'.snd_queue) (hb : DataLe k.mss.toNat k'.snd_buf) : InvK k' :=
  h.congr hc.mtu hc.mss hc.bufLen hq hb (by rw [hc.rcvb]; exact h.rcvb) (by rw [hc.rcvq]; exact h.rcvq)

/-! ### Phase 1 -/

theorem ackFlush_ok (wnd : BitVec 16) (una : U32) (total : Nat) (l : List Ack) (i : Nat) (st : AckSt)
    (h : FlOk st.f) :
    FlOk (ackFlush wnd una total l i st).f ∧ (ackFlush wnd una total l i st).f.k = st.f.k := by
  induction l generalizing i st with
  | nil => exact ⟨h, rfl⟩
  | cons a rest ih =>
    unfold ackFlush
    simp only []
    split
    · have h2 := h.hdr (encodeHdr (st.f.makeSpace IKCP_OVERHEAD).k.conv st.sc.cmd 0 wnd a.ts a.sn una 0)
        (encodeHdr_length ..)
      have h3 := ih (i + 1) ⟨(st.f.makeSpace IKCP_OVERHEAD).putHdr
        (encodeHdr (st.f.makeSpace IKCP_OVERHEAD).k.conv st.sc.cmd 0 wnd a.ts a.sn una 0),
        { st.sc with sn := a.sn, ts := a.ts }⟩ h2.1
      exact ⟨h3.1, h3.2.trans h2.2⟩
    · have hk := makeSpace_k st.f IKCP_OVERHEAD
      have h2 : FlOk (st.f.makeSpace IKCP_OVERHEAD) := by
        refine ⟨(makeSpace_panic ..).trans h.nopanic, ?_, ?_, ?_⟩
        · have := makeSpace_room st.f IKCP_OVERHEAD h.mtu_ge
          rw [hk]; omega
        · rw [hk]; exact h.mtu_ge
        · rw [hk]; exact h.buf_ge
      have h3 := ih (i + 1) ⟨st.f.makeSpace IKCP_OVERHEAD, st.sc⟩ h2
      exact ⟨h3.1, h3.2.trans hk⟩

theorem flOk_init {k : Kcp} (h : InvK k) : FlOk { k := k } :=
  ⟨rfl, Nat.zero_le _, Nat.le_of_lt h.mtu_gt, h.buf_ge⟩

theorem flA_ok {k : Kcp} (h : InvK k) : FlOk (flA k).f ∧ (flA k).f.k = k :=
  ackFlush_ok _ _ _ _ _ _ (flOk_init h)

/-! ### Phase 2 -/

theorem probePhase_same (k : Kcp) (now : U32) :
    SameCfg k (probePhase k now) ∧ (probePhase k now).snd_queue = k.snd_queue ∧
    (probePhase k now).snd_buf = k.snd_buf ∧ (probePhase k now).acklist = k.acklist := by
  unfold probePhase
  split
  · split
    · exact ⟨⟨rfl, rfl, rfl, rfl, rfl⟩, rfl, rfl, rfl⟩
    · split
      · exact ⟨⟨rfl, rfl, rfl, rfl, rfl⟩, rfl, rfl, rfl⟩
      · exact ⟨SameCfg.refl k, rfl, rfl, rfl⟩
  · exact ⟨⟨rfl, rfl, rfl, rfl, rfl⟩, rfl, rfl, rfl⟩

/-- what Phases 1–4 keep about the state -/
structure FlKeep (k : Kcp) (f : Fl) : Prop where
  ok   : FlOk f
  cfg  : SameCfg k f.k
  sndq : f.k.snd_queue = k.snd_queue
  sndb : f.k.snd_buf = k.snd_buf
  ackl : f.k.acklist = []

theorem flB_keep {k : Kcp} (h : InvK k) (now : U32) : FlKeep k (flB k now) := by
  have ha := flA_ok h
  have hp := probePhase_same { (flA k).f.k with acklist := [] } now
  unfold flB
  refine ⟨?_, ?_, ?_, ?_, ?_⟩
  · exact ha.1.congr_k _ hp.1.mtu hp.1.bufLen
  · have : SameCfg k { (flA k).f.k with acklist := [] } := by
      rw [ha.2]; exact ⟨rfl, rfl, rfl, rfl, rfl⟩
    exact this.trans hp.1
  · simp only []; rw [hp.2.1]; simp only [ha.2]
  · simp only []; rw [hp.2.2.1]; simp only [ha.2]
  · simp only []; rw [hp.2.2.2]

/-! ### Phase 3 -/

theorem FlKeep.hdr {k : Kcp} {f : Fl} (h : FlKeep k f) (hd : Bytes) (hl : hd.length = IKCP_OVERHEAD) :
    FlKeep k ((f.makeSpace IKCP_OVERHEAD).putHdr hd) := by
  have h2 := h.ok.hdr hd hl
  refine ⟨h2.1, ?_, ?_, ?_, ?_⟩
  · rw [h2.2]; exact h.cfg
  · rw [h2.2]; exact h.sndq
  · rw [h2.2]; exact h.sndb
  · rw [h2.2]; exact h.ackl

theorem flC_keep {k : Kcp} (h : InvK k) (now : U32) : FlKeep k (flC k now) := by
  have hb := flB_keep h now
  unfold flC
  simp only []
  generalize flB k now = f0 at hb
  have h1 : FlKeep k (if f0.k.probe &&& u32 IKCP_ASK_SEND ≠ 0 then
      (f0.makeSpace IKCP_OVERHEAD).putHdr (encodeHdr f0.k.conv (BitVec.ofNat 8 IKCP_CMD_WASK) 0 (wndUnused k)
        (flA k).sc.ts (flA k).sc.sn k.rcv_nxt 0) else f0) := by
    split
    · exact hb.hdr _ (encodeHdr_length ..)
    · exact hb
  generalize (if f0.k.probe &&& u32 IKCP_ASK_SEND ≠ 0 then
      (f0.makeSpace IKCP_OVERHEAD).putHdr (encodeHdr f0.k.conv (BitVec.ofNat 8 IKCP_CMD_WASK) 0 (wndUnused k)
        (flA k).sc.ts (flA k).sc.sn k.rcv_nxt 0) else f0) = f1 at h1
  have h2 : FlKeep k (if f1.k.probe &&& u32 IKCP_ASK_TELL ≠ 0 then
      (f1.makeSpace IKCP_OVERHEAD).putHdr (encodeHdr f1.k.conv (BitVec.ofNat 8 IKCP_CMD_WINS) 0 (wndUnused k)
        (flA k).sc.ts (flA k).sc.sn k.rcv_nxt 0) else f1) := by
    split
    · exact h1.hdr _ (encodeHdr_length ..)
    · exact h1
  generalize (if f1.k.probe &&& u32 IKCP_ASK_TELL ≠ 0 then
      (f1.makeSpace IKCP_OVERHEAD).putHdr (encodeHdr f1.k.conv (BitVec.ofNat 8 IKCP_CMD_WINS) 0 (wndUnused k)
        (flA k).sc.ts (flA k).sc.sn k.rcv_nxt 0) else f1) = f2 at h2
  exact ⟨h2.ok.congr_k _ rfl rfl, ⟨h2.cfg.mtu, h2.cfg.mss, h2.cfg.bufLen, h2.cfg.rcvb, h2.cfg.rcvq⟩,
    h2.sndq, h2.sndb, h2.ackl⟩

/-! ### Phase 4 -/

theorem admitSegs_dataLe (m : Nat) (conv una cwnd now : U32) (q buf : List Seg) (nxt : U32) (c : Nat)
    (hq : DataLe m q) (hb : DataLe m buf) :
    DataLe m (admitSegs conv una cwnd now q buf nxt c).queue ∧
    DataLe m (admitSegs conv una cwnd now q buf nxt c).buf := by
  induction q generalizing buf nxt c with
  | nil => exact ⟨hq, hb⟩
  | cons s rest ih =>
    unfold admitSegs
    split
    · exact ⟨hq, hb⟩
    · apply ih _ _ _ hq.tail
      exact hb.append (DataLe.cons hq.head (DataLe.nil m))

/-- what holds when the transmission loop starts -/
structure FlKeepD (k : Kcp) (f : Fl) : Prop where
  ok   : FlOk f
  cfg  : SameCfg k f.k
  sndq : DataLe k.mss.toNat f.k.snd_queue
  sndb : DataLe k.mss.toNat f.k.snd_buf
  ackl : f.k.acklist = []

theorem flD_keep {k : Kcp} (h : InvK k) (now : U32) : FlKeepD k (flD k now) := by
  have hc := flC_keep h now
  have had := admitSegs_dataLe k.mss.toNat (flC k now).k.conv (flC k now).k.snd_una (flCwnd (flC k now).k) now
    (flC k now).k.snd_queue (flC k now).k.snd_buf (flC k now).k.snd_nxt 0
    (by rw [hc.sndq]; exact h.sndq) (by rw [hc.sndb]; exact h.sndb)
  unfold flD
  simp only []
  exact ⟨hc.ok.congr_k _ rfl rfl, ⟨hc.cfg.mtu, hc.cfg.mss, hc.cfg.bufLen, hc.cfg.rcvb, hc.cfg.rcvq⟩,
    had.1, had.2, hc.ackl⟩

/-! ### Phase 5 -/

/-- the decision part of `xmitOne`: (needsend, updated segment, change+, lost+) -/
def xmitDecide (k : Kcp) (now resent : U32) (newSegs : Nat) (s : Seg) : Bool × Seg × Nat × Nat :=
  if s.xmit = 0 then (true, { s with rto := k.rx_rto, resendts := now + k.rx_rto }, 0, 0)
  else if s.fastack ≥ resent ∧ s.fastack ≠ 0xFFFFFFFF#32 then
    (true, { s with fastack := 0xFFFFFFFF#32, rto := k.rx_rto, resendts := now + k.rx_rto }, 1, 0)
  else if s.fastack > 0 ∧ s.fastack ≠ 0xFFFFFFFF#32 ∧ newSegs = 0 then
    (true, { s with fastack := 0xFFFFFFFF#32, rto := k.rx_rto, resendts := now + k.rx_rto }, 1, 0)
  else if itimediff now s.resendts ≥ 0 then
    let rto' := if k.nodelay = 0 then s.rto + k.rx_rto else s.rto + k.rx_rto / 2
    (true, { s with rto := rto', fastack := 0, resendts := now + rto' }, 0, 1)
  else (false, s, 0, 0)

/-- writing one segment: `makeSpace`, header, payload, dead-link test -/
def xmitPut (f : Fl) (s2 : Seg) : Fl :=
  let f := f.makeSpace (IKCP_OVERHEAD + s2.data.length)
  let f := f.putHdr (encodeHdr s2.conv s2.cmd s2.frg s2.wnd s2.ts s2.sn s2.una s2.data.length)
  let f := f.putData s2.data
  if s2.xmit ≥ f.k.dead_link then { f with k := { f.k with state := 0xFFFFFFFF#32 } } else f

/-- the writing part of `xmitOne` -/
def xmitWrite (now : U32) (wnd : BitVec 16) (una : U32) (st : XmitSt) (r : Bool × Seg × Nat × Nat) : XmitSt :=
  let needsend := r.1
  let s1 := r.2.1
  let st1 := { st with change := st.change + r.2.2.1, lost := st.lost + r.2.2.2 }
  let s2 : Seg := if needsend then { s1 with xmit := s1.xmit + 1, ts := now, wnd := wnd, una := una } else s1
  let f2 : Fl := if needsend then xmitPut st1.f s2 else st1.f
  let d := itimediff s2.resendts now
  let next := if d > 0 ∧ BitVec.ofInt 32 d < st1.next then BitVec.ofInt 32 d else st1.next
  { st1 with f := f2, done := st1.done ++ [s2], next := next }

theorem xmitOne_eq (now resent : U32) (wnd : BitVec 16) (una : U32) (newSegs : Nat) (st : XmitSt) (s : Seg) :
    xmitOne now resent wnd una newSegs st s =
      if s.acked then { st with done := st.done ++ [s] }
      else xmitWrite now wnd una st (xmitDecide st.f.k now resent newSegs s) := rfl

theorem xmitDecide_data (k : Kcp) (now resent : U32) (newSegs : Nat) (s : Seg) :
    (xmitDecide k now resent newSegs s).2.1.data = s.data := by
  unfold xmitDecide
  split
  · rfl
  · split
    · rfl
    · split
      · rfl
      · split <;> rfl

/-- `k'` is `k` except possibly for the dead-link flag `state` -/
def UpToState (k k' : Kcp) : Prop := k' = { k with state := k'.state }

theorem UpToState.refl (k : Kcp) : UpToState k k := rfl

theorem UpToState.trans {a b c : Kcp} (h1 : UpToState a b) (h2 : UpToState b c) : UpToState a c := by
  unfold UpToState at *
  rw [h2, h1]

theorem xmitPut_ok (f : Fl) (s2 : Seg) (h : FlOk f) (hs : IKCP_OVERHEAD + s2.data.length ≤ f.k.mtu.toNat) :
    FlOk (xmitPut f s2) ∧ UpToState f.k (xmitPut f s2).k := by
  have h2 := h.seg (encodeHdr s2.conv s2.cmd s2.frg s2.wnd s2.ts s2.sn s2.una s2.data.length) s2.data
    (encodeHdr_length ..) hs
  unfold xmitPut
  simp only []
  generalize ((f.makeSpace (IKCP_OVERHEAD + s2.data.length)).putHdr
    (encodeHdr s2.conv s2.cmd s2.frg s2.wnd s2.ts s2.sn s2.una s2.data.length)).putData s2.data = g at h2 ⊢
  split
  · refine ⟨h2.1.congr_k _ rfl rfl, ?_⟩
    unfold UpToState
    simp only [h2.2]
  · exact ⟨h2.1, by rw [h2.2]; exact UpToState.refl _⟩

theorem xmitWrite_ok (now : U32) (wnd : BitVec 16) (una : U32) (st : XmitSt) (r : Bool × Seg × Nat × Nat)
    (h : FlOk st.f) (hs : IKCP_OVERHEAD + r.2.1.data.length ≤ st.f.k.mtu.toNat) :
    FlOk (xmitWrite now wnd una st r).f ∧ UpToState st.f.k (xmitWrite now wnd una st r).f.k ∧
    (xmitWrite now wnd una st r).done.map (·.data) = st.done.map (·.data) ++ [r.2.1.data] := by
  obtain ⟨ns, s1, c, l⟩ := r
  cases ns
  · exact ⟨h, UpToState.refl _, by simp [xmitWrite]⟩
  · have h2 := xmitPut_ok st.f { s1 with xmit := s1.xmit + 1, ts := now, wnd := wnd, una := una } h hs
    exact ⟨h2.1, h2.2, by simp [xmitWrite]⟩

theorem xmitOne_ok (now resent : U32) (wnd : BitVec 16) (una : U32) (newSegs : Nat) (st : XmitSt) (s : Seg)
    (h : FlOk st.f) (hs : IKCP_OVERHEAD + s.data.length ≤ st.f.k.mtu.toNat) :
    FlOk (xmitOne now resent wnd una newSegs st s).f ∧
    UpToState st.f.k (xmitOne now resent wnd una newSegs st s).f.k ∧
    (xmitOne now resent wnd una newSegs st s).done.map (·.data) = st.done.map (·.data) ++ [s.data] := by
  rw [xmitOne_eq]
  split
  · exact ⟨h, UpToState.refl _, by simp⟩
  · have := xmitWrite_ok now wnd una st (xmitDecide st.f.k now resent newSegs s) h
      (by rw [xmitDecide_data]; exact hs)
    rw [xmitDecide_data] at this
    exact this

theorem UpToState.mtu {k k' : Kcp} (h : UpToState k k') : k'.mtu = k.mtu := by rw [h]

theorem xmitFold_ok (now resent : U32) (wnd : BitVec 16) (una : U32) (newSegs : Nat) (l : List Seg) (st : XmitSt)
    (h : FlOk st.f) (hl : ∀ s ∈ l, IKCP_OVERHEAD + s.data.length ≤ st.f.k.mtu.toNat) :
    FlOk (l.foldl (xmitOne now resent wnd una newSegs) st).f ∧
    UpToState st.f.k (l.foldl (xmitOne now resent wnd una newSegs) st).f.k ∧
    (l.foldl (xmitOne now resent wnd una newSegs) st).done.map (·.data) = st.done.map (·.data) ++ l.map (·.data) := by
  induction l generalizing st with
  | nil => exact ⟨h, UpToState.refl _, by simp⟩
  | cons s rest ih =>
    have h1 := xmitOne_ok now resent wnd una newSegs st s h (hl s (List.mem_cons_self ..))
    have h2 := ih (xmitOne now resent wnd una newSegs st s) h1.1
      (fun x hx => by rw [h1.2.1.mtu]; exact hl x (List.mem_cons_of_mem _ hx))
    refine ⟨h2.1, h1.2.1.trans h2.2.1, ?_⟩
    rw [List.foldl_cons, h2.2.2, h1.2.2]
    simp

theorem UpToState.sameCfg {k k' : Kcp} (h : UpToState k k') : SameCfg k k' := by
  refine ⟨?_, ?_, ?_, ?_, ?_⟩ <;> rw [h]

theorem UpToState.sndq {k k' : Kcp} (h : UpToState k k') : k'.snd_queue = k.snd_queue := by rw [h]
theorem UpToState.ackl {k k' : Kcp} (h : UpToState k k') : k'.acklist = k.acklist := by rw [h]

theorem flX_keep {k : Kcp} (h : InvK k) (full : Bool) (now : U32) :
    FlOk (flX k full now).f ∧ UpToState (flD k now).k (flX k full now).f.k ∧
    (flX k full now).done.map (·.data) = (flD k now).k.snd_buf.map (·.data) := by
  have hd := flD_keep h now
  unfold flX
  simp only []
  split
  · have := xmitFold_ok now (flResent (flD k now).k) (wndUnused k) k.rcv_nxt (flAd k now).count
      (flD k now).k.snd_buf { f := flD k now, next := (flD k now).k.interval } hd.ok
      (fun s hs => by
        have h1 := hd.sndb s hs
        have h2 := h.mss_eq
        simp only [hd.cfg.mtu]
        omega)
    simpa using this
  · exact ⟨hd.ok, UpToState.refl _, rfl⟩

/-- Phase 6 touches only `ssthresh`, `cwnd`, `incr` -/
theorem flK6_same (k5 : Kcp) (change lost : Nat) (cwnd resent : U32) :
    SameCfg k5 (flK6 k5 change lost cwnd resent) ∧
    (flK6 k5 change lost cwnd resent).snd_queue = k5.snd_queue ∧
    (flK6 k5 change lost cwnd resent).snd_buf = k5.snd_buf ∧
    (flK6 k5 change lost cwnd resent).acklist = k5.acklist := by
  unfold flK6
  simp only []
  repeat' split
  all_goals exact ⟨⟨rfl, rfl, rfl, rfl, rfl⟩, rfl, rfl, rfl⟩

/-- **`flush` is total under `InvK`**: it never writes outside its buffer, re-establishes the
invariant, and leaves the ack list empty. -/
theorem flush_total {k : Kcp} (h : InvK k) (full : Bool) (now : U32) :
    (flush k full now).panic = false ∧ InvK (flush k full now).k ∧ (flush k full now).k.acklist = [] ∧
    SameCfg k (flush k full now).k := by
  have hd := flD_keep h now
  have hx := flX_keep h full now
  have h6 := flK6_same (flE k full now).k (flX k full now).change (flX k full now).lost (flCwnd (flC k now).k)
    (flResent (flD k now).k)
  rw [flush_eq]
  simp only []
  have hE : SameCfg k (flE k full now).k := by
    have := hd.cfg.trans hx.2.1.sameCfg
    exact ⟨this.mtu, this.mss, this.bufLen, this.rcvb, this.rcvq⟩
  refine ⟨hx.1.nopanic, ?_, ?_, hE.trans h6.1⟩
  · apply h.of_sameCfg (hE.trans h6.1)
    · rw [h6.2.1]
      show DataLe _ (flX k full now).f.k.snd_queue
      rw [hx.2.1.sndq]; exact hd.sndq
    · rw [h6.2.2.1]
      show DataLe _ (flX k full now).done
      exact hd.sndb.of_map_eq hx.2.2
  · rw [h6.2.2.2]
    show (flX k full now).f.k.acklist = []
    rw [hx.2.1.ackl]; exact hd.ackl

end KcpVerif.Total
