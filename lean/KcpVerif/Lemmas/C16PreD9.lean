/-
C16, the phase before the flush (3/3): why the exclusion `ids < paws'` cannot be dropped (D9).

One genuine but stale sample (id `J`, not adjacent to the run) sits in the ring.  Until it is
evicted — 258 samples later — the sorted window starts with it, the first `seq + 1` test fails and
`FindPeriod` returns −1.  If by then the run has reached the decoder's `[paws', 2^32)` zone, the
packets are dropped before the tuning code: the decoder keeps its old ratio for the whole run.

* `findPeriod_stale`: ring = one stale sample + `m ≤ 257` in-order samples ⇒ `FindPeriod = −1`.
* `decode_keep`: a packet at/above `paws'`, or one for which `FindPeriod(true) = −1` after sampling,
  leaves `d p n paws` unchanged.
* `stale_prefix`: the induction over the run.
-/
import KcpVerif.Lemmas.C16PreDec

namespace KcpVerif.Lemmas.C16Pre
open KcpVerif.Gen KcpVerif.AutoTune KcpVerif.Fec KcpVerif.Lemmas.AutoTune KcpVerif.Props

theorem window_sample_init (b : Bool) (q : BitVec 32) :
    (Tune.init.sample b q).window = [{ bit := b, seq := q }] ∧ (Tune.init.sample b q).count = 1 := by
  refine ⟨?_, rfl⟩
  rw [window_sample b q wf_init]
  rfl

/-- one stale sample before the run, `m ≤ 257` samples of the run: the detector finds nothing -/
theorem findPeriod_stale (d p J s m : Nat) (b bit : Bool) (hJ : J + 1 < s) (hs : s + m ≤ 2 ^ 32)
    (hclose : s + m ≤ J + 2 ^ 31) (hm : 1 + m ≤ maxAutoTuneSamples) :
    (feed (Tune.init.sample b (BitVec.ofNat 32 J)) (run d p s m)).findPeriod bit = -1 := by
  obtain ⟨hw0, hc0⟩ := window_sample_init b (BitVec.ofNat 32 J)
  obtain ⟨hc, hw⟩ := C16_aux_feed_window_gen (wf_sample b (BitVec.ofNat 32 J) wf_init) (run d p s m)
  rw [hc0, length_run] at hc hw
  rw [hw0, show 1 + m - maxAutoTuneSamples = 0 by omega, List.drop_zero] at hw
  unfold Tune.findPeriod
  split
  · rfl
  · rename_i h3
    have hm2 : 2 ≤ m := by omega
    obtain ⟨m, rfl⟩ : ∃ k, m = k + 1 := ⟨m - 1, by omega⟩
    have hsorted : ([({ bit := b, seq := BitVec.ofNat 32 J } : Pulse)] ++ run d p s (m + 1)).Pairwise
        (fun a c => pulseLe a c = true) := by
      rw [List.singleton_append]
      refine List.Pairwise.cons ?_ (pairwise_run hs (by omega))
      intro c hc'
      obtain ⟨j, hj, rfl⟩ := mem_run hc'
      have := pulseLe_of_close J (s + j - J) (by omega) (by omega) b (label d p (s + j))
      rw [show J + (s + j - J) = s + j by omega] at this
      exact this
    rw [hw, sortPulses, List.mergeSort_of_pairwise hsorted, List.singleton_append, run_succ]
    have hne : ¬ (BitVec.ofNat 32 J + 1 = BitVec.ofNat 32 s) := by
      intro e
      have := congrArg BitVec.toNat e
      rw [ofNat_succ, BitVec.toNat_ofNat, BitVec.toNat_ofNat, Nat.mod_eq_of_lt (by omega),
        Nat.mod_eq_of_lt (by omega)] at this
      omega
    simp only [periodOfSorted, scanEdge, pulseAt, beq_iff_eq, hne, if_false]

/-- a packet that is dropped by the `paws'` test, or whose sample leaves `FindPeriod(true) = −1`,
    cannot change the decoder's ratio -/
theorem decode_keep (C : CodecNew) (dec : Decoder) (q : Bytes) (hlen : fecHeaderSize ≤ q.length)
    (h : dec.paws.toNat ≤ (seqid q).toNat ∨
      (dec.tune.sample (flag q == typeData) (seqid q)).findPeriod true = -1) :
    (dec.decode C q).st.d = dec.d ∧ (dec.decode C q).st.p = dec.p ∧ (dec.decode C q).st.n = dec.n ∧
    (dec.decode C q).st.paws = dec.paws := by
  unfold Decoder.decode
  split
  · omega
  · dsimp only
    split
    · exact ⟨rfl, rfl, rfl, rfl⟩
    · rename_i hp
      have hfp : (dec.tune.sample (flag q == typeData) (seqid q)).findPeriod true = -1 := by
        rcases h with h | h
        · exact absurd h hp
        · exact h
      split
      · rw [C16_conv_aux_retune_fail C _ _ (by dsimp only; rw [hfp]; omega)]
        exact ⟨rfl, rfl, rfl, rfl⟩
      · split <;> exact ⟨rfl, rfl, rfl, rfl⟩

/-- the decoder's ring is one stale sample (id `J`); an in-order run from id `s` reaches the zone
    `[paws', 2^32)` before the stale sample is evicted (`paws' ≤ s + 257`): after any number of run
    packets the decoder still has its old ratio -/
theorem stale_prefix (C : CodecNew) (dec : Decoder) {d p s J : Nat} {b : Bool} (pkts : List Bytes)
    (hJ : J + 1 < s) (hclose : s + maxAutoTuneSamples ≤ J + 2 ^ 31)
    (htune : dec.tune = Tune.init.sample b (BitVec.ofNat 32 J))
    (hpk : ∀ i (h : i < pkts.length), RunPkt d p s i pkts[i])
    (h32 : s + pkts.length ≤ 2 ^ 32)
    (hzone : dec.paws.toNat + 1 ≤ s + maxAutoTuneSamples - 1) :
    ∀ j, j ≤ pkts.length →
      (feedPackets C dec (pkts.take j)).d = dec.d ∧ (feedPackets C dec (pkts.take j)).p = dec.p ∧
      (feedPackets C dec (pkts.take j)).n = dec.n ∧ (feedPackets C dec (pkts.take j)).paws = dec.paws ∧
      (feedPackets C dec (pkts.take j)).tune = feed dec.tune (run d p s j) := by
  intro j
  induction j with
  | zero => intro _; exact ⟨rfl, rfl, rfl, rfl, rfl⟩
  | succ j ih =>
    intro hj
    obtain ⟨i1, i2, i3, i4, i5⟩ := ih (by omega)
    have hjl : j < pkts.length := by omega
    have hq := hpk j hjl
    have hseq : (seqid pkts[j]).toNat = s + j := by
      rw [hq.2.1, BitVec.toNat_ofNat, Nat.mod_eq_of_lt (by omega)]
    have hsmp : (feedPackets C dec (pkts.take j)).tune.sample (flag pkts[j] == typeData)
        (seqid pkts[j]) = feed dec.tune (run d p s (j + 1)) := by
      rw [C16_conv_aux_runpkt_bit hq, hq.2.1, i5, run_succ_right, feed_append]; rfl
    rw [C16_conv_aux_take_succ C dec pkts j hjl]
    have hk := decode_keep C (feedPackets C dec (pkts.take j)) pkts[j] hq.1 (by
      rw [hseq, i4, hsmp, htune]
      by_cases hz : dec.paws.toNat ≤ s + j
      · exact Or.inl hz
      · right
        exact findPeriod_stale d p J s (j + 1) b true hJ (by omega) (by omega) (by omega))
    refine ⟨hk.1.trans i1, hk.2.1.trans i2, hk.2.2.1.trans i3, hk.2.2.2.trans i4, ?_⟩
    rw [C16_conv_aux_tune_step C _ _ hq.1, hsmp]

end KcpVerif.Lemmas.C16Pre
