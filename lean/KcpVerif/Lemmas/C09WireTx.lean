/-
C09 `wire_reassembles`, part 6: a FULL flush transmits every segment it admits.

Phase 4 of `flush` numbers a prefix of `snd_queue` (in an ACK-only flush as well: those segments are
numbered but not put on the wire until the next full flush); phase 5 of a full flush sends every
un-acknowledged segment with `xmit = 0`.  A queued segment has `xmit = 0` and is not acknowledged
(`QInv`, an invariant of every history), so every sequence number a full flush adds to the log is on
the wire when the flush returns.  Core Lean only.
-/
import KcpVerif.Lemmas.C09WireRun
import KcpVerif.Lemmas.KcpAcc

namespace KcpVerif.C09W
open KcpVerif KcpVerif.Gen KcpVerif.Kcp KcpVerif.Frame KcpVerif.Recv KcpVerif.Send KcpVerif.C01
open KcpVerif.Lemmas.KcpFlush (InvMss)

/-- never transmitted, not acknowledged -/
def QFresh (l : List Seg) : Prop := ∀ x ∈ l, x.xmit = 0 ∧ x.acked = false

theorem mkSegs_qfresh (mss : Nat) (st : Bool) : ∀ (c : Nat) (buf : Bytes), QFresh (mkSegs mss st c buf) := by
  intro c
  induction c with
  | zero => intro buf x hx; simp [mkSegs] at hx
  | succ c ih =>
    intro buf x hx
    unfold mkSegs at hx
    rcases List.mem_cons.mp hx with h1 | h1
    · rw [h1]; exact ⟨rfl, rfl⟩
    · exact ih _ x h1

theorem sendQ1_qfresh (k : Kcp) (b : Bytes) (h : QFresh k.snd_queue) : QFresh (sendQ1 k b) := by
  unfold sendQ1
  split
  · cases hl : k.snd_queue.getLast? with
    | none => exact h
    | some s =>
      simp only []
      intro x hx
      rcases mem_setLast _ _ _ hx with h1 | h1
      · rw [h1]; exact h s (List.mem_of_getLast? hl)
      · exact h x h1
  · exact h

theorem send_qfresh (k : Kcp) (b : Bytes) (h : QFresh k.snd_queue) : QFresh (send k b).k.snd_queue := by
  have h1 := sendQ1_qfresh k b h
  rw [send_eq]
  split
  · exact h
  · split
    · exact h
    · split
      · exact h
      · split
        · exact h1
        · split
          · exact h1
          · intro x hx
            rcases List.mem_append.mp hx with h2 | h2
            · exact h1 x h2
            · exact mkSegs_qfresh _ _ _ _ x h2

/-- queued segments have never been transmitted -/
def QInv (s : GSt) : Prop := QFresh s.k.snd_queue

theorem step_qInv {s : GSt} (h : QInv s) (op : Op) : QInv (step s op) := by
  have dropLike : ∀ k' : Kcp, (∃ j, j ≤ s.k.snd_queue.length ∧ k'.snd_queue = s.k.snd_queue.drop j) →
      QFresh k'.snd_queue := by
    intro k' ⟨j, _, hq⟩ x hx
    rw [hq] at hx
    exact h x (List.mem_of_mem_drop hx)
  unfold step
  by_cases hd : s.dead = true
  · rw [if_pos hd]; exact h
  · rw [if_neg hd]
    cases op with
    | send buf =>
      simp only []
      split
      · exact h
      · exact send_qfresh s.k buf h
    | recv buflen =>
      simp only []
      split
      · exact h
      · show QFresh (recv s.k buflen).k.snd_queue
        rw [(recv_sndSame s.k buflen).snd_queue]; exact h
    | input data regular ackNoDelay now =>
      simp only []
      split
      · exact h
      · exact dropLike _ (input_queue _ _ _ _ _)
    | flush full now =>
      simp only []
      split
      · exact h
      · exact dropLike _ (flush_queue _ _ _)
    | update now =>
      simp only []
      split
      · exact h
      · exact dropLike _ (update_queue _ _)
    | setMtu mtu => show QFresh (setMtu s.k mtu).1.snd_queue; rw [(setMtu_sndQ _ _).snd_queue]; exact h
    | noDelay a b c d => show QFresh (noDelay s.k a b c d).snd_queue; rw [(noDelay_sndQ _ _ _ _ _).snd_queue]; exact h
    | wndSize a b => show QFresh (wndSize s.k a b).snd_queue; rw [(wndSize_sndQ _ _ _).snd_queue]; exact h

theorem run_qInv (ops : List Op) : ∀ s : GSt, QInv s → QInv (run s ops) := by
  induction ops with
  | nil => intro s h; exact h
  | cons op rest ih => intro s h; exact ih _ (step_qInv h op)

theorem fresh_qInv (k : Kcp) (hf : Fresh k) : QInv { k := k } := by
  show QFresh k.snd_queue
  rw [hf.sq]; intro x hx; cases hx

/-- phase 4: the `j` admitted segments are in the new buffer, numbered consecutively from `nxt`, PUSH,
never transmitted, not acknowledged -/
theorem admitSegs_new (conv una cwnd now : U32) :
    ∀ (q buf : List Seg) (nxt : U32) (c : Nat), QFresh q →
      ∃ j, j ≤ q.length ∧ (admitSegs conv una cwnd now q buf nxt c).queue = q.drop j ∧
        (∀ x ∈ buf, x ∈ (admitSegs conv una cwnd now q buf nxt c).buf) ∧
        ∀ t, t < j → ∃ s ∈ (admitSegs conv una cwnd now q buf nxt c).buf,
          s.sn = nxt + BitVec.ofNat 32 t ∧ s.xmit = 0 ∧ s.acked = false ∧ s.cmd = cmdPush := by
  intro q
  induction q with
  | nil =>
    intro buf nxt c _
    unfold admitSegs
    exact ⟨0, Nat.le_refl _, rfl, fun x hx => hx, fun t ht => by omega⟩
  | cons s rest ih =>
    intro buf nxt c hq
    unfold admitSegs
    split
    · exact ⟨0, Nat.zero_le _, rfl, fun x hx => hx, fun t ht => by omega⟩
    · obtain ⟨j, hj, r1, r2, r3⟩ := ih
        (buf ++ [{ s with conv := conv, cmd := BitVec.ofNat 8 IKCP_CMD_PUSH, sn := nxt, ts := now, resendts := now }])
        (nxt + 1) (c + 1) (fun x hx => hq x (List.mem_cons_of_mem _ hx))
      refine ⟨j + 1, by simp; omega, by simpa using r1, fun x hx => r2 x (List.mem_append_left _ hx), ?_⟩
      intro t ht
      cases t with
      | zero =>
        refine ⟨_, r2 _ (List.mem_append_right _ (List.mem_singleton.mpr rfl)), ?_, ?_, ?_, rfl⟩
        · show nxt = nxt + BitVec.ofNat 32 0
          simp
        · exact (hq s (List.mem_cons_self ..)).1
        · exact (hq s (List.mem_cons_self ..)).2
      | succ t =>
        obtain ⟨x, hx, e1, e2, e3, e4⟩ := r3 t (by omega)
        refine ⟨x, hx, ?_, e2, e3, e4⟩
        rw [e1, BitVec.add_assoc]
        congr 1
        rw [BitVec.ofNat_add, BitVec.add_comm]
        rfl

/-- **a full flush transmits everything it admits**: for every index `i` the flush adds to the log there
is a datagram among its outputs with a PUSH frame numbered `sn0 + i` -/
theorem flush_full_transmits {sn0 c : U32} {k : Kcp} {L : List Content} (h : InvS sn0 k L) (hq : QFresh k.snd_queue)
    (hc : k.conv = c) (hb : BufC c k.snd_buf) (now : U32) (hp : (flush k true now).panic = false) :
    ∀ i, L.length ≤ i → i < (L ++ admitted k (flush k true now).k).length →
      ∃ g : List Wire.Frm, Wire.encFrames g ∈ (flush k true now).outs ∧
        (∀ fr ∈ g, FrOk c sn0 (L ++ admitted k (flush k true now).k) fr) ∧
        ∃ fr ∈ g, fr.sn = sn0 + BitVec.ofNat 32 i ∧ fr.cmd = cmdPush := by
  intro i hi1 hi2
  have hA := flushA_keep k now
  obtain ⟨j, hj, r1, _, r3⟩ := admitSegs_new (flushA k now).k.conv (flushA k now).k.snd_una (flushCwnd (flushA k now).k)
    now (flushA k now).k.snd_queue (flushA k now).k.snd_buf (flushA k now).k.snd_nxt 0
    (by rw [hA.2.snd_queue]; exact hq)
  have r1' : (flushAdmit (flushA k now).k now).queue = k.snd_queue.drop j := by
    rw [← hA.2.snd_queue]; exact r1
  rw [hA.2.snd_queue] at hj
  -- the queue after the flush
  obtain ⟨v, hv⟩ := flushX_k (flushB (flushA k now) now) true now (wndUnused k) k.rcv_nxt
    (flushAdmit (flushA k now).k now).count
  have eq : (flush k true now).k.snd_queue = k.snd_queue.drop j := by
    rw [flush_eq]; simp only []
    rw [(flushTail_keep _ _ _ _ _).2.snd_queue]
    show (flushX _ _ _ _ _ _).f.k.snd_queue = _
    rw [hv]; exact r1'
  have hlen : (admitted k (flush k true now).k).length = j := by
    unfold admitted
    rw [eq, List.length_map, List.length_take, List.length_drop]; omega
  rw [List.length_append, hlen] at hi2
  obtain ⟨s, hs, e1, e2, e3, e4⟩ := r3 (i - L.length) (by omega)
  have hsn : s.sn = sn0 + BitVec.ofNat 32 i := by
    rw [e1, hA.2.snd_nxt, h.nxt, BitVec.add_assoc, ← BitVec.ofNat_add]
    congr 2; omega
  -- the segment is sent by phase 5
  have hsent : SysW.sentB now (Live.resentOf k) (Live.flAd k now).count s = true := by
    unfold SysW.sentB
    have hc : Live.cause now (Live.resentOf k) (Live.flAd k now).count s = .initial :=
      (Live.cause_initial_iff now (Live.resentOf k) (Live.flAd k now).count s).mpr e2
    rw [e3, hc]; rfl
  have hmem : SysW.frmOf (Live.segAfter now (Live.resentOf k) (wndUnused k) k.rcv_nxt (Live.flAd k now).count k.rx_rto
      k.nodelay s) ∈ SysW.pushFrs k true now := by
    unfold SysW.pushFrs
    rw [if_pos rfl]
    exact List.mem_map.mpr ⟨s, List.mem_filter.mpr ⟨hs, hsent⟩, rfl⟩
  obtain ⟨gs, hgs, hflat⟩ := SysW.flush_frames k true now hp
  have hmem2 : SysW.frmOf (Live.segAfter now (Live.resentOf k) (wndUnused k) k.rcv_nxt (Live.flAd k now).count k.rx_rto
      k.nodelay s) ∈ gs.flatten := by
    rw [hflat]; unfold SysW.flushFrs; exact List.mem_append_right _ hmem
  obtain ⟨g, hg, hfr⟩ := List.mem_flatten.mp hmem2
  obtain ⟨a1, _, _, a4, _⟩ := Live.segAfter_id now (Live.resentOf k) (wndUnused k) k.rcv_nxt (Live.flAd k now).count
    k.rx_rto k.nodelay s
  refine ⟨g, by rw [hgs]; exact List.mem_map.mpr ⟨g, hg, rfl⟩,
    fun fr' hfr' => flushFrs_ok h hc hb true now fr' (by rw [← hflat]; exact List.mem_flatten.mpr ⟨g, hg, hfr'⟩),
    _, hfr, ?_, ?_⟩
  · show (Live.segAfter _ _ _ _ _ _ _ s).sn = _
    rw [a1]; exact hsn
  · show (Live.segAfter _ _ _ _ _ _ _ s).cmd = _
    rw [a4]; exact e4

/-- … in the observer's terms: the specification decoder finds a PUSH segment numbered `i` in the
outputs of the flush, for every index `i` the flush adds to the log (numbering from 0) -/
theorem flush_full_avail {c : U32} {k : Kcp} {L : List Content} (h : InvS 0 k L) (hq : QFresh k.snd_queue)
    (hc : k.conv = c) (hb : BufC c k.snd_buf) (now : U32) (hp : (flush k true now).panic = false)
    (hL : (L ++ admitted k (flush k true now).k).length ≤ 2 ^ 32) :
    ∀ i, L.length ≤ i → i < (L ++ admitted k (flush k true now).k).length →
      Avail (wireSegs (flush k true now).outs) i := by
  intro i hi1 hi2
  obtain ⟨g, hg, hall, fr, hfr, hsn, hcmd⟩ := flush_full_transmits h hq hc hb now hp i hi1 hi2
  have hne : g ≠ [] := by intro e; rw [e] at hfr; cases hfr
  have hdec := decode_encFrames g hne (fun fr' hfr' => by
    have := (hall fr' hfr').len
    exact ⟨(hall fr' hfr').cmd, by unfold mtuLimit at this; omega⟩)
  refine ⟨specOf fr, mem_wireSegs_of hg hdec (List.mem_map.mpr ⟨fr, hfr, rfl⟩), ?_, ?_⟩
  · show (UInt8.ofNat fr.cmd.toNat).toNat = 81
    rw [u8_toNat_of_bv8, hcmd]; rfl
  · show fr.sn.toNat = i
    rw [hsn, BitVec.toNat_add, BitVec.toNat_ofNat]
    simp
    omega

end KcpVerif.C09W
