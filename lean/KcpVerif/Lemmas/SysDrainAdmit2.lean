/-
The admission phase on the closed system: nothing outstanding, something queued, `rmt_wnd ≠ 0`, the
link to A fresh, the congestion window off — A's next full flush (by `T`) numbers a segment.
-/
import KcpVerif.Lemmas.SysDrainStable

namespace KcpVerif.SysC
open KcpVerif KcpVerif.Gen KcpVerif.Kcp KcpVerif.Live KcpVerif.Wire KcpVerif.SysW KcpVerif.Sys

/-- the configuration of A that admission needs: congestion window off, a send window -/
def CfgA (k : Kcp) : Prop := k.nocwnd ≠ 0 ∧ k.snd_wnd ≠ 0 ∧ k.snd_wnd.toNat < 2 ^ 31

theorem inFrs_cfg : ∀ (frs : List Frm) (st : InLoop),
    (inFrs true frs st).k.nocwnd = st.k.nocwnd ∧ (inFrs true frs st).k.snd_wnd = st.k.snd_wnd := by
  intro frs
  induction frs with
  | nil => intro st; exact ⟨rfl, rfl⟩
  | cons fr rest ih =>
    intro st
    have h1 : (inFr true st fr).k.nocwnd = st.k.nocwnd ∧ (inFr true st fr).k.snd_wnd = st.k.snd_wnd := by
      unfold inFr
      obtain ⟨sb, su, al, rb, rq, rn, pr, h⟩ := inStep_frame true fr.conv fr.cmd fr.frg fr.wnd fr.ts fr.sn fr.una fr.data st
      rw [h]; exact ⟨rfl, rfl⟩
    unfold inFrs
    split
    · exact h1
    · obtain ⟨a, b⟩ := ih (inFr true st fr)
      exact ⟨a.trans h1.1, b.trans h1.2⟩

theorem inA_cfg (st : InLoop) (k1 : Kcp) (hk1 : k1 = st.k ∨ ∃ rtt, k1 = updateAck st.k rtt) (u : U32) :
    (cwndOnAck k1 u).nocwnd = st.k.nocwnd ∧ (cwndOnAck k1 u).snd_wnd = st.k.snd_wnd := by
  obtain ⟨cw, inc, hcw⟩ := cwndOnAck_shape' k1 u
  rw [hcw]
  rcases hk1 with rfl | ⟨rtt, rfl⟩
  · exact ⟨rfl, rfl⟩
  · obtain ⟨a, b, r, he⟩ := updateAck_shape' st.k rtt
    rw [he]; exact ⟨rfl, rfl⟩

theorem una_eq_nxt {base : U32} {k : Kcp} (h : Contig base k) (hb : k.snd_buf = []) : k.snd_nxt = k.snd_una := by
  have := h.2
  rw [hb] at this
  simp only [List.length_nil] at this
  exact o_inj base _ _ (by omega)

/-- one event in the admission phase: the phase persists, or the send buffer is no longer empty -/
theorem adm_core {p : Par} {s : State} {gab gba : GLink} (h : Cons p s gab gba) (hnw : NoWrap p.base s) (T : Nat)
    (hb : s.A.snd_buf = []) (hq : s.A.snd_queue ≠ []) (h0 : s.A.rmt_wnd ≠ 0) (hf : FreshBa s) (hcfg : CfgA s.A)
    (hnf : s.nfA ≤ T) (hn : s.now ≤ T) (ev : Ev) (hev : isSend ev = false) :
    ((Sys.step s ev).A.snd_buf = [] ∧ (Sys.step s ev).A.snd_queue ≠ [] ∧ (Sys.step s ev).nfA ≤ T ∧
      (Sys.step s ev).now ≤ T) ∨ (Sys.step s ev).A.snd_buf ≠ [] := by
  cases ev with
  | tick =>
    rw [show Sys.step s .tick = (if quiet s then { s with now := s.now + 1 } else s) from rfl]
    split
    · rename_i hqt
      have := (quiet_facts s hqt).2.2.1
      exact Or.inl ⟨hb, hq, hnf, by show s.now + 1 ≤ T; omega⟩
    · exact Or.inl ⟨hb, hq, hnf, hn⟩
  | send b => simp [isSend] at hev
  | read =>
    rw [show Sys.step s .read = (if (s.B.recv s.B.peekSize.toNat).n < 0 then s
      else { s with B := (s.B.recv s.B.peekSize.toNat).k, got := s.got ++ (s.B.recv s.B.peekSize.toNat).data }) from rfl]
    split
    · exact Or.inl ⟨hb, hq, hnf, hn⟩
    · exact Or.inl ⟨hb, hq, hnf, hn⟩
  | flushB => exact Or.inl ⟨hb, hq, hnf, hn⟩
  | flushA =>
    right
    exact flush_admits s.A (clk s.now) hb hq (una_eq_nxt h.acon hb) hcfg.1 h0 hcfg.2.1 hcfg.2.2
  | dlvB =>
    cases hab : s.ab with
    | nil =>
      have : Sys.step s .dlvB = s := by simp only [Sys.step, hab]
      rw [this]; exact Or.inl ⟨hb, hq, hnf, hn⟩
    | cons d rest =>
      rw [step_dlvB_cons s _ _ hab]
      split
      · exact Or.inl ⟨hb, hq, hnf, hn⟩
      · exact Or.inl ⟨hb, hq, hnf, hn⟩
  | dlvA =>
    cases gba with
    | nil =>
      have : Sys.step s .dlvA = s := by simp only [Sys.step, h.hba, encL, List.map_nil]
      rw [this]; exact Or.inl ⟨hb, hq, hnf, hn⟩
    | cons d0 grest =>
      obtain ⟨t0, frs⟩ := d0
      have hd0 : ((t0, frs) : Nat × List Frm) ∈ (t0, frs) :: grest := List.mem_cons_self ..
      have hba : s.ba = ⟨t0, encFrames frs⟩ :: encL grest := h.hba
      rw [step_dlvA_cons s _ _ hba]
      split
      · by_cases hne : frs = []
        · subst hne
          simp only [input_empty]
          exact Or.inl ⟨hb, hq, hnf, hn⟩
        · obtain ⟨hv, hp, hr, _, _, _, _⟩ := cons_inA h hnw (inFrs true frs { k := s.A }).k (Or.inl rfl)
          obtain ⟨k1, hk1, himp⟩ := inputA_cases s.A frs s.ndA (clk s.now) hv hp hr
          obtain ⟨_, _, _, hal, hnx, hsq, hclean⟩ := cons_inA h hnw k1 hk1
          have hcmds : ∀ fr ∈ frs, fr.cmd.toNat = IKCP_CMD_ACK ∨ fr.cmd.toNat = IKCP_CMD_WASK ∨ fr.cmd.toNat = IKCP_CMD_WINS :=
            fun fr hfr => (h.fba (t0, frs) hd0 fr hfr).2.2.1
          have hkeep := inFrs_keeps frs { k := s.A } hcmds
          have hbK : (cwndOnAck k1 s.A.snd_una).snd_buf = [] := by
            rw [(inA_buf (inFrs true frs { k := s.A }) k1 hk1 s.A.snd_una).1]
            cases hl : (inFrs true frs { k := s.A }).k.snd_buf with
            | nil => rfl
            | cons x r =>
              obtain ⟨y, hy, _⟩ := hkeep x (by rw [hl]; exact List.mem_cons_self ..)
              have : y ∈ ([] : List Seg) := by rw [← hb]; exact hy
              simp at this
          have hqK : (cwndOnAck k1 s.A.snd_una).snd_queue ≠ [] := by rw [hsq]; exact hq
          rcases himp hal hclean.aK with hin | hin | ⟨hnil, _⟩
          · simp only [hin]
            exact Or.inl ⟨hbK, hqK, hnf, hn⟩
          · simp only [hin]
            right
            obtain ⟨c1, c2⟩ := inA_cfg (inFrs true frs { k := s.A }) k1 hk1 s.A.snd_una
            obtain ⟨d1, d2⟩ := inFrs_cfg frs { k := s.A }
            have hcK : CfgA (cwndOnAck k1 s.A.snd_una) := by
              unfold CfgA
              rw [c1, c2, d1, d2]; exact hcfg
            have hcon : Contig p.base (cwndOnAck k1 s.A.snd_una) := hclean.acon
            exact flush_admits (cwndOnAck k1 s.A.snd_una) (clk s.now) hbK hqK (una_eq_nxt hcon hbK) hcK.1
              (rmt_inA h hf h0 k1 hk1) hcK.2.1 hcK.2.2
          · exact absurd hnil hne
      · exact Or.inl ⟨hb, hq, hnf, hn⟩

end KcpVerif.SysC
