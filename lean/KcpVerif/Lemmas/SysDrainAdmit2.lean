/-
The admission phase on the closed system: nothing outstanding, something queued, `rmt_wnd ≠ 0`, the
link to A fresh, the congestion window off — A's next full flush (by `T`) numbers a segment.
-/
import KcpVerif.Lemmas.SysDrainStable

namespace KcpVerif.SysC
open KcpVerif KcpVerif.Gen KcpVerif.Kcp KcpVerif.Live KcpVerif.Wire KcpVerif.SysW KcpVerif.Sys

/-- the configuration of A that admission needs: a send window -/
def CfgA (k : Kcp) : Prop := k.snd_wnd ≠ 0 ∧ k.snd_wnd.toNat < 2 ^ 31

theorem inFrs_cfg : ∀ (frs : List Frm) (st : InLoop),
    (inFrs true frs st).k.nocwnd = st.k.nocwnd ∧ (inFrs true frs st).k.snd_wnd = st.k.snd_wnd ∧
    (inFrs true frs st).k.cwnd = st.k.cwnd := by
  intro frs
  induction frs with
  | nil => intro st; exact ⟨rfl, rfl, rfl⟩
  | cons fr rest ih =>
    intro st
    have h1 : (inFr true st fr).k.nocwnd = st.k.nocwnd ∧ (inFr true st fr).k.snd_wnd = st.k.snd_wnd ∧
        (inFr true st fr).k.cwnd = st.k.cwnd := by
      unfold inFr
      obtain ⟨sb, su, al, rb, rq, rn, pr, h⟩ := inStep_frame true fr.conv fr.cmd fr.frg fr.wnd fr.ts fr.sn fr.una fr.data st
      rw [h]; exact ⟨rfl, rfl, rfl⟩
    unfold inFrs
    split
    · exact h1
    · obtain ⟨a, b, c⟩ := ih (inFr true st fr)
      exact ⟨a.trans h1.1, b.trans h1.2.1, c.trans h1.2.2⟩

theorem inA_cfg (st : InLoop) (k1 : Kcp) (hk1 : k1 = st.k ∨ ∃ rtt, k1 = updateAck st.k rtt) (u : U32) :
    (cwndOnAck k1 u).nocwnd = st.k.nocwnd ∧ (cwndOnAck k1 u).snd_wnd = st.k.snd_wnd ∧
    (cwndOnAck k1 u).snd_una = st.k.snd_una := by
  obtain ⟨cw, inc, hcw⟩ := cwndOnAck_shape' k1 u
  rw [hcw]
  rcases hk1 with rfl | ⟨rtt, rfl⟩
  · exact ⟨rfl, rfl, rfl⟩
  · obtain ⟨a, b, r, he⟩ := updateAck_shape' st.k rtt
    rw [he]; exact ⟨rfl, rfl, rfl⟩

/-- without an advance of `snd_una` the ACK-driven growth of `cwnd` does nothing -/
theorem inA_cwnd (st : InLoop) (k1 : Kcp) (hk1 : k1 = st.k ∨ ∃ rtt, k1 = updateAck st.k rtt) (u : U32)
    (hu : st.k.snd_una = u) : (cwndOnAck k1 u).cwnd = st.k.cwnd := by
  have h1 : k1.snd_una = u ∧ k1.cwnd = st.k.cwnd := by
    rcases hk1 with rfl | ⟨rtt, rfl⟩
    · exact ⟨hu, rfl⟩
    · obtain ⟨a, b, r, he⟩ := updateAck_shape' st.k rtt
      rw [he]; exact ⟨hu, rfl⟩
  have : cwndOnAck k1 u = k1 := by
    unfold cwndOnAck
    rw [if_neg]
    intro hc
    have := hc.2.1
    rw [h1.1] at this
    unfold itimediff at this
    simp at this
  rw [this]; exact h1.2

theorem una_eq_nxt {base : U32} {k : Kcp} (h : Contig base k) (hb : k.snd_buf = []) : k.snd_nxt = k.snd_una := by
  have := h.2
  rw [hb] at this
  simp only [List.length_nil] at this
  exact o_inj base _ _ (by omega)

/-- the admission phase: A flushes by `T0`; after that flush the congestion window is at least one
segment and A flushes again by `T1` -/
def AdmPh (T0 T1 : Nat) (s : State) : Prop :=
  (s.nfA ≤ T0 ∧ s.now ≤ T0) ∨ ((s.A.nocwnd ≠ 0 ∨ s.A.cwnd ≠ 0) ∧ s.nfA ≤ T1 ∧ s.now ≤ T1)

/-- a full flush of A in the admission phase -/
theorem adm_flush {p : Par} {s : State} {gab gba : GLink} (h : Cons p s gab gba) (hnw : NoWrap p.base s)
    (IA T0 T1 : Nat) (hT : T0 + IA ≤ T1) (hiv : s.A.interval.toNat = IA)
    (hb : s.A.snd_buf = []) (hq : s.A.snd_queue ≠ []) (h0 : s.A.rmt_wnd ≠ 0) (hcfg : CfgA s.A)
    (hph : AdmPh T0 T1 s) (nf : Nat) (hnf : nf = s.nfA ∨ nf = s.now + (s.A.flush true (clk s.now)).interval.toNat) :
    ((afterFlushA s nf).A.snd_buf = [] ∧ (afterFlushA s nf).A.snd_queue ≠ [] ∧ AdmPh T0 T1 (afterFlushA s nf)) ∨
      (afterFlushA s nf).A.snd_buf ≠ [] := by
  have hun := una_eq_nxt h.acon hb
  rcases hph with ⟨a, b⟩ | ⟨c, a, b⟩
  · by_cases hb' : (s.A.flush true (clk s.now)).k.snd_buf = []
    · left
      have hnw' := hnw
      unfold NoWrap at hnw'
      obtain ⟨g1, _, _, g4, _, _, _⟩ := flush_gen p.base s.A (clk s.now) h.aK h.aack h.acon
        (by rw [h.aconv]; exact h.atag) h.aq hnw
      have hun' := una_eq_nxt g1 hb'
      have hqn := flush_qn p.base s.A (clk s.now) hnw'
      rw [hun', g4, ← hun] at hqn
      have hle := flush_interval_le s.A (clk s.now)
      rw [BitVec.le_def, hiv] at hle
      refine ⟨hb', ?_, Or.inr ⟨flush_cwnd_pos s.A true (clk s.now), ?_, by show s.now ≤ T1; omega⟩⟩
      · intro hq'
        have hq'' : (s.A.flush true (clk s.now)).k.snd_queue = [] := hq'
        have : (s.A.flush true (clk s.now)).k.snd_queue.length = 0 := by rw [hq'']; rfl
        have : s.A.snd_queue.length = 0 := by omega
        exact hq (List.length_eq_zero_iff.mp this)
      · show nf ≤ T1
        rcases hnf with e | e
        · rw [e]; omega
        · rw [e]; omega
    · exact Or.inr hb'
  · right
    exact flush_admits s.A (clk s.now) hb hq hun c h0 hcfg.1 hcfg.2

/-- one event in the admission phase: the phase persists, or the send buffer is no longer empty -/
theorem adm_core {p : Par} {s : State} {gab gba : GLink} (h : Cons p s gab gba) (hnw : NoWrap p.base s)
    (IA T0 T1 : Nat) (hT : T0 + IA ≤ T1) (hiv : s.A.interval.toNat = IA)
    (hb : s.A.snd_buf = []) (hq : s.A.snd_queue ≠ []) (h0 : s.A.rmt_wnd ≠ 0) (hf : FreshBa s) (hcfg : CfgA s.A)
    (hph : AdmPh T0 T1 s) (ev : Ev) (hev : isSend ev = false) :
    ((Sys.step s ev).A.snd_buf = [] ∧ (Sys.step s ev).A.snd_queue ≠ [] ∧ AdmPh T0 T1 (Sys.step s ev)) ∨
      (Sys.step s ev).A.snd_buf ≠ [] := by
  cases ev with
  | tick =>
    rw [show Sys.step s .tick = (if quiet s then { s with now := s.now + 1 } else s) from rfl]
    split
    · rename_i hqt
      have := (quiet_facts s hqt).2.2.1
      refine Or.inl ⟨hb, hq, ?_⟩
      rcases hph with ⟨a, b⟩ | ⟨c, a, b⟩
      · exact Or.inl ⟨a, by show s.now + 1 ≤ T0; omega⟩
      · exact Or.inr ⟨c, a, by show s.now + 1 ≤ T1; omega⟩
    · exact Or.inl ⟨hb, hq, hph⟩
  | send b => simp [isSend] at hev
  | read =>
    rw [show Sys.step s .read = (if (s.B.recv s.B.peekSize.toNat).n < 0 then s
      else { s with B := (s.B.recv s.B.peekSize.toNat).k, got := s.got ++ (s.B.recv s.B.peekSize.toNat).data }) from rfl]
    split
    · exact Or.inl ⟨hb, hq, hph⟩
    · exact Or.inl ⟨hb, hq, hph⟩
  | flushB => exact Or.inl ⟨hb, hq, hph⟩
  | flushA =>
    exact adm_flush h hnw IA T0 T1 hT hiv hb hq h0 hcfg hph (s.now + (s.A.flush true (clk s.now)).interval.toNat) (Or.inr rfl)
  | dlvB =>
    cases hab : s.ab with
    | nil =>
      have : Sys.step s .dlvB = s := by simp only [Sys.step, hab]
      rw [this]; exact Or.inl ⟨hb, hq, hph⟩
    | cons d rest =>
      rw [step_dlvB_cons s _ _ hab]
      split
      · exact Or.inl ⟨hb, hq, hph⟩
      · exact Or.inl ⟨hb, hq, hph⟩
  | dlvA =>
    cases gba with
    | nil =>
      have : Sys.step s .dlvA = s := by simp only [Sys.step, h.hba, encL, List.map_nil]
      rw [this]; exact Or.inl ⟨hb, hq, hph⟩
    | cons d0 grest =>
      obtain ⟨t0, frs⟩ := d0
      have hd0 : ((t0, frs) : Nat × List Frm) ∈ (t0, frs) :: grest := List.mem_cons_self ..
      have hba : s.ba = ⟨t0, encFrames frs⟩ :: encL grest := h.hba
      rw [step_dlvA_cons s _ _ hba]
      split
      · by_cases hne : frs = []
        · subst hne
          simp only [input_empty]
          exact Or.inl ⟨hb, hq, hph⟩
        · obtain ⟨hv, hp, hr, _, _, _, _⟩ := cons_inA h hnw (inFrs true frs { k := s.A }).k (Or.inl rfl)
          obtain ⟨k1, hk1, himp⟩ := inputA_cases s.A frs s.ndA (clk s.now) hv hp hr
          obtain ⟨_, _, _, hal, hnx, hsq, hclean⟩ := cons_inA h hnw k1 hk1
          have hcmds : ∀ fr ∈ frs, fr.cmd.toNat = IKCP_CMD_ACK ∨ fr.cmd.toNat = IKCP_CMD_WASK ∨ fr.cmd.toNat = IKCP_CMD_WINS :=
            fun fr hfr => (h.fba (t0, frs) hd0 fr hfr).2.2.1
          have hkeep := inFrs_keeps frs { k := s.A } hcmds
          have hbK : (cwndOnAck k1 s.A.snd_una).snd_buf = [] := by
            rw [(inA_buf (inFrs true frs { k := s.A }) k1 hk1 s.A.snd_una).1]
            cases hl : (inFrs true frs { k := s.A }).k.snd_buf with
            | nil => rfl
            | cons x r =>
              obtain ⟨y, hy, _⟩ := hkeep x (by rw [hl]; exact List.mem_cons_self ..)
              have : y ∈ ([] : List Seg) := by rw [← hb]; exact hy
              simp at this
          have hqK : (cwndOnAck k1 s.A.snd_una).snd_queue ≠ [] := by rw [hsq]; exact hq
          have hcon : Contig p.base (cwndOnAck k1 s.A.snd_una) := hclean.acon
          obtain ⟨c1, c2, c3⟩ := inA_cfg (inFrs true frs { k := s.A }) k1 hk1 s.A.snd_una
          obtain ⟨d1, d2, d3⟩ := inFrs_cfg frs { k := s.A }
          have hunaK : (inFrs true frs { k := s.A }).k.snd_una = s.A.snd_una := by
            rw [← c3, ← una_eq_nxt hcon hbK, hnx, una_eq_nxt h.acon hb]
          have hcw : (cwndOnAck k1 s.A.snd_una).cwnd = s.A.cwnd :=
            (inA_cwnd (inFrs true frs { k := s.A }) k1 hk1 s.A.snd_una hunaK).trans d3
          have hnc : (cwndOnAck k1 s.A.snd_una).nocwnd = s.A.nocwnd := c1.trans d1
          have hph1 : AdmPh T0 T1 { s with A := cwndOnAck k1 s.A.snd_una, ba := encL grest } := by
            rcases hph with ⟨a, b⟩ | ⟨c, a, b⟩
            · exact Or.inl ⟨a, b⟩
            · exact Or.inr ⟨by show (cwndOnAck k1 s.A.snd_una).nocwnd ≠ 0 ∨ (cwndOnAck k1 s.A.snd_una).cwnd ≠ 0
                               rw [hnc, hcw]; exact c, a, b⟩
          rcases himp hal hclean.aK with hin | hin | ⟨hnil, _⟩
          · simp only [hin]
            exact Or.inl ⟨hbK, hqK, hph1⟩
          · simp only [hin]
            have hcK : CfgA (cwndOnAck k1 s.A.snd_una) := by
              unfold CfgA
              rw [c2, d2]; exact hcfg
            have hnw1 : NoWrap p.base { s with A := cwndOnAck k1 s.A.snd_una, ba := encL grest } := by
              have hnw' := hnw
              unfold NoWrap at hnw' ⊢
              show o p.base (cwndOnAck k1 s.A.snd_una).snd_nxt + (cwndOnAck k1 s.A.snd_una).snd_queue.length < _
              rw [hnx, hsq]; exact hnw'
            obtain ⟨_, _, i3, _⟩ := inA_probe (inFrs true frs { k := s.A }) k1 hk1 s.A.snd_una
            obtain ⟨_, _, j3⟩ := inFrs_probe_timer frs { k := s.A }
            exact adm_flush hclean hnw1 IA T0 T1 hT
              (by show (cwndOnAck k1 s.A.snd_una).interval.toNat = IA; rw [i3, j3]; exact hiv)
              hbK hqK (rmt_inA h hf h0 k1 hk1) hcK hph1 s.nfA (Or.inl rfl)
          · exact absurd hnil hne
      · exact Or.inl ⟨hb, hq, hph⟩

end KcpVerif.SysC
