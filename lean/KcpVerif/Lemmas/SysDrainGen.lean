/-
General receiver-side lemmas for the consistency invariant of the closed system (C02/C03 Tier 2):
what an ARBITRARY genuine PUSH (new, duplicate, old, out of order, beyond the window) does to a
receiver that has nothing to send: `rcv_nxt` only moves forward and never past the sender's `snd_nxt`,
whatever the receiver "has" (delivered, or waiting in the reorder buffer) it keeps having, and every
entry added to the ack list is for a segment it has.
-/
import KcpVerif.Lemmas.SysDrainCex

namespace KcpVerif.SysC
open KcpVerif KcpVerif.Gen KcpVerif.Kcp KcpVerif.Live KcpVerif.Wire KcpVerif.SysW KcpVerif.Sys

/-- the receiver has the segment `sn`: delivered to the queue already, or waiting in the reorder buffer -/
def Has (base nxt : U32) (buf : List Seg) (sn : U32) : Prop := o base sn < o base nxt ∨ ∃ x ∈ buf, x.sn = sn

theorem moveLoop_gen (base : U32) (W N : Nat) (hN : N < 2 ^ 31) : ∀ (buf q : List Seg) (nxt : U32),
    (∀ x ∈ buf, o base x.sn < N) → o base nxt ≤ N →
    o base nxt ≤ o base (moveLoop W buf q nxt).nxt ∧ o base (moveLoop W buf q nxt).nxt ≤ N ∧
    (∀ x ∈ (moveLoop W buf q nxt).buf, x ∈ buf) ∧
    (∀ sn, Has base nxt buf sn → Has base (moveLoop W buf q nxt).nxt (moveLoop W buf q nxt).buf sn) := by
  intro buf
  induction buf with
  | nil => intro q nxt _ h; exact ⟨Nat.le_refl _, h, fun x hx => hx, fun sn hs => hs⟩
  | cons s rest ih =>
    intro q nxt hb hn
    unfold moveLoop
    split
    · rename_i hc
      have hs : o base s.sn < N := hb s (List.mem_cons_self ..)
      rw [hc.1] at hs
      have h1 := o_succ base nxt (by omega)
      obtain ⟨i1, i2, i3, i4⟩ := ih (q ++ [s]) (nxt + 1) (fun x hx => hb x (List.mem_cons_of_mem _ hx)) (by omega)
      refine ⟨by omega, i2, fun x hx => List.mem_cons_of_mem _ (i3 x hx), fun sn hsn => i4 sn ?_⟩
      rcases hsn with h | ⟨x, hx, rfl⟩
      · exact Or.inl (by omega)
      · rcases List.mem_cons.mp hx with rfl | hx
        · exact Or.inl (by rw [hc.1]; omega)
        · exact Or.inr ⟨x, hx, rfl⟩
    · exact ⟨Nat.le_refl _, hn, fun x hx => hx, fun sn hs => hs⟩

/-- what the bookkeeping of the closed system needs to know about one receive-side step -/
structure RcvStep (base : U32) (N : Nat) (k k' : Kcp) : Prop where
  sb  : k'.snd_buf = []
  sq  : k'.snd_queue = k.snd_queue
  cv  : k'.conv = k.conv
  rw  : k'.rcv_wnd = k.rcv_wnd
  iv  : k'.interval = k.interval
  nx  : k'.snd_nxt = k.snd_nxt
  lo  : o base k.rcv_nxt ≤ o base k'.rcv_nxt
  hi  : o base k'.rcv_nxt ≤ N
  bnd : ∀ x ∈ k'.rcv_buf, o base x.sn < N
  has : ∀ sn, Has base k.rcv_nxt k.rcv_buf sn → Has base k'.rcv_nxt k'.rcv_buf sn
  ack : ∀ a ∈ k'.acklist, a ∈ k.acklist ∨ Has base k'.rcv_nxt k'.rcv_buf a.sn

theorem RcvStep.refl (base : U32) (N : Nat) (k : Kcp) (h1 : k.snd_buf = []) (h2 : o base k.rcv_nxt ≤ N)
    (h3 : ∀ x ∈ k.rcv_buf, o base x.sn < N) : RcvStep base N k k :=
  ⟨h1, rfl, rfl, rfl, rfl, rfl, Nat.le_refl _, h2, h3, fun _ h => h, fun a ha => Or.inl ha⟩

theorem RcvStep.trans {base : U32} {N : Nat} {a b c : Kcp} (h1 : RcvStep base N a b) (h2 : RcvStep base N b c) :
    RcvStep base N a c :=
  ⟨h2.sb, h2.sq.trans h1.sq, h2.cv.trans h1.cv, h2.rw.trans h1.rw, h2.iv.trans h1.iv, h2.nx.trans h1.nx,
   Nat.le_trans h1.lo h2.lo, h2.hi, h2.bnd, fun sn h => h2.has sn (h1.has sn h),
   fun x hx => by
     rcases h2.ack x hx with h | h
     · rcases h1.ack x h with h' | h'
       · exact Or.inl h'
       · exact Or.inr (h2.has _ h')
     · exact Or.inr h⟩

/-- `moveReady` as a receive-side step -/
theorem moveReady_rcvStep (base : U32) (N : Nat) (hN : N < 2 ^ 31) (k : Kcp) (h1 : k.snd_buf = [])
    (h2 : o base k.rcv_nxt ≤ N) (h3 : ∀ x ∈ k.rcv_buf, o base x.sn < N) : RcvStep base N k (moveReady k) := by
  obtain ⟨i1, i2, i3, i4⟩ := moveLoop_gen base k.rcv_wnd.toNat N hN k.rcv_buf k.rcv_queue k.rcv_nxt h3 h2
  exact ⟨h1, rfl, rfl, rfl, rfl, rfl, i1, i2, fun x hx => h3 x (i3 x hx), i4, fun a ha => Or.inl ha⟩

theorem parseData_cases (k : Kcp) (seg : Seg)
    (h1 : ¬ (itimediff seg.sn (k.rcv_nxt + k.rcv_wnd) ≥ 0 ∨ itimediff seg.sn k.rcv_nxt < 0))
    (hl : seg.data.length ≤ mtuLimit) :
    ((∃ x ∈ k.rcv_buf, x.sn = seg.sn) ∧ parseData k seg = ⟨moveReady k, true, false⟩) ∨
    parseData k seg = ⟨moveReady { k with rcv_buf := heapInsert seg k.rcv_buf }, false, false⟩ := by
  unfold parseData
  rw [if_neg h1]
  split
  · rename_i hd
    left
    refine ⟨?_, rfl⟩
    obtain ⟨x, hx, hx2⟩ := List.any_eq_true.mp hd
    exact ⟨x, hx, by simpa using hx2⟩
  · rw [if_neg (by omega)]
    exact Or.inr rfl

/-- `k` with one more ack-list entry and the reorder buffer `rb` -/
def withAck (k : Kcp) (a : Ack) (rb : List Seg) : Kcp := { k with acklist := k.acklist ++ [a], rcv_buf := rb }

/-- listing an ACK for a segment the receiver has (possibly just stored in the reorder buffer) -/
theorem rcvStep_ack (base : U32) (N : Nat) (k : Kcp) (rb' : List Seg) (a : Ack) (h1 : k.snd_buf = [])
    (h2 : o base k.rcv_nxt ≤ N) (hsub : ∀ x ∈ k.rcv_buf, x ∈ rb') (hb' : ∀ x ∈ rb', o base x.sn < N)
    (hh : Has base k.rcv_nxt rb' a.sn) :
    RcvStep base N k (withAck k a rb') :=
  ⟨h1, rfl, rfl, rfl, rfl, rfl, Nat.le_refl _, h2, hb',
   fun sn h => by
     rcases h with h | ⟨x, hx, hxs⟩
     · exact Or.inl h
     · exact Or.inr ⟨x, hsub x hx, hxs⟩,
   fun x hx => by
     rcases List.mem_append.mp hx with h | h
     · exact Or.inl h
     · rw [List.mem_singleton.mp h]; exact Or.inr hh⟩

/-- **an arbitrary genuine PUSH** at a receiver with an empty send buffer -/
theorem inFr_push_gen (base : U32) (N : Nat) (hN : N < 2 ^ 31) (st : InLoop) (fr : Frm) (hsb : st.k.snd_buf = [])
    (hc : fr.cmd.toNat = IKCP_CMD_PUSH) (hl : fr.data.length ≤ mtuLimit) (hsn : o base fr.sn < N)
    (h2 : o base st.k.rcv_nxt ≤ N) (h3 : ∀ x ∈ st.k.rcv_buf, o base x.sn < N) :
    RcvStep base N st.k (inFr true st fr).k ∧ ((inFr true st fr).panic = st.panic ∨ (inFr true st fr).panic = false) ∧
    (inFr true st fr).ret = st.ret ∧ (inFr true st fr).flushSeg = st.flushSeg ∧
    (inFr true st fr).updRtt = st.updRtt := by
  obtain ⟨hpre, hcnt⟩ := inPre_empty fr.wnd fr.una st.k hsb
  have hnA : ¬ fr.cmd.toNat = IKCP_CMD_ACK := by rw [hc]; decide
  have hP : RcvStep base N st.k (inPre true fr.wnd fr.una st.k) := by
    rw [hpre]
    exact ⟨rfl, rfl, rfl, rfl, rfl, rfl, Nat.le_refl _, h2, h3, fun _ h => h, fun a ha => Or.inl ha⟩
  have hPsb : (inPre true fr.wnd fr.una st.k).snd_buf = [] := by rw [hpre]
  have hPn : (inPre true fr.wnd fr.una st.k).rcv_nxt = st.k.rcv_nxt := by rw [hpre]
  have hPb : (inPre true fr.wnd fr.una st.k).rcv_buf = st.k.rcv_buf := by rw [hpre]
  generalize hK1 : inPre true fr.wnd fr.una st.k = K1 at hP hPsb hPn hPb
  unfold inFr
  rw [inStep_eq, if_neg hnA, if_pos hc, hcnt, hK1]
  simp only [Nat.lt_irrefl, decide_false, Bool.or_false]
  split
  · rename_i hin
    split
    · rename_i hge
      -- inside the window and not before rcv_nxt: parse_data
      have hfirst : ¬ (itimediff (pushSeg fr.conv fr.cmd fr.frg fr.wnd fr.ts fr.sn fr.una fr.data).sn
          (({ K1 with acklist := K1.acklist ++ [⟨fr.sn, fr.ts⟩] } : Kcp).rcv_nxt +
            ({ K1 with acklist := K1.acklist ++ [⟨fr.sn, fr.ts⟩] } : Kcp).rcv_wnd) ≥ 0 ∨
          itimediff (pushSeg fr.conv fr.cmd fr.frg fr.wnd fr.ts fr.sn fr.una fr.data).sn
            ({ K1 with acklist := K1.acklist ++ [⟨fr.sn, fr.ts⟩] } : Kcp).rcv_nxt < 0) := by
        show ¬ (itimediff fr.sn (K1.rcv_nxt + K1.rcv_wnd) ≥ 0 ∨ itimediff fr.sn K1.rcv_nxt < 0)
        omega
      rcases parseData_cases { K1 with acklist := K1.acklist ++ [⟨fr.sn, fr.ts⟩] }
        (pushSeg fr.conv fr.cmd fr.frg fr.wnd fr.ts fr.sn fr.una fr.data) hfirst hl with ⟨⟨x, hx, hxs⟩, hpd⟩ | hpd
      · rw [hpd]
        have hA : RcvStep base N K1 (withAck K1 ⟨fr.sn, fr.ts⟩ K1.rcv_buf) :=
          rcvStep_ack base N K1 K1.rcv_buf ⟨fr.sn, fr.ts⟩ hPsb (by rw [hPn]; exact h2) (fun x hx => hx)
            (by rw [hPb]; exact h3) (Or.inr ⟨x, hx, hxs⟩)
        have hM := moveReady_rcvStep base N hN (withAck K1 ⟨fr.sn, fr.ts⟩ K1.rcv_buf) hPsb
          (by show o base K1.rcv_nxt ≤ N; rw [hPn]; exact h2) (by show ∀ x ∈ K1.rcv_buf, _; rw [hPb]; exact h3)
        exact ⟨(hP.trans hA).trans hM, Or.inr rfl, rfl, rfl, rfl⟩
      · rw [hpd]
        have hmem : ∀ x ∈ heapInsert (pushSeg fr.conv fr.cmd fr.frg fr.wnd fr.ts fr.sn fr.una fr.data) K1.rcv_buf,
            o base x.sn < N := by
          intro x hx
          rcases (Recv.mem_heapInsert _ x _).mp hx with rfl | hx
          · exact hsn
          · rw [hPb] at hx; exact h3 x hx
        have hA : RcvStep base N K1 (withAck K1 ⟨fr.sn, fr.ts⟩ (heapInsert (pushSeg fr.conv fr.cmd fr.frg fr.wnd fr.ts fr.sn fr.una fr.data) K1.rcv_buf)) :=
          rcvStep_ack base N K1 _ ⟨fr.sn, fr.ts⟩ hPsb (by rw [hPn]; exact h2)
            (fun x hx => (Recv.mem_heapInsert _ x _).mpr (Or.inr hx)) hmem
            (Or.inr ⟨_, (Recv.mem_heapInsert _ _ _).mpr (Or.inl rfl), rfl⟩)
        have hM := moveReady_rcvStep base N hN (withAck K1 ⟨fr.sn, fr.ts⟩ (heapInsert (pushSeg fr.conv fr.cmd fr.frg fr.wnd fr.ts fr.sn fr.una fr.data) K1.rcv_buf)) hPsb
          (by show o base K1.rcv_nxt ≤ N; rw [hPn]; exact h2) hmem
        exact ⟨(hP.trans hA).trans hM, Or.inr rfl, rfl, rfl, rfl⟩
    · rename_i hlt
      -- inside the window but already delivered: re-acknowledged only
      have hold : o base fr.sn < o base K1.rcv_nxt := by
        have := itd base fr.sn K1.rcv_nxt (by omega) (by rw [hPn]; omega)
        omega
      have hA : RcvStep base N K1 (withAck K1 ⟨fr.sn, fr.ts⟩ K1.rcv_buf) :=
        rcvStep_ack base N K1 K1.rcv_buf ⟨fr.sn, fr.ts⟩ hPsb (by rw [hPn]; exact h2) (fun x hx => hx)
          (by rw [hPb]; exact h3) (Or.inl hold)
      exact ⟨hP.trans hA, Or.inl rfl, rfl, rfl, rfl⟩
  · exact ⟨hP, Or.inl rfl, rfl, rfl, rfl⟩

/-- a WASK / WINS frame at such a receiver -/
theorem inFr_probe_gen (base : U32) (N : Nat) (st : InLoop) (fr : Frm) (hsb : st.k.snd_buf = [])
    (hc : fr.cmd.toNat = IKCP_CMD_WASK ∨ fr.cmd.toNat = IKCP_CMD_WINS)
    (h2 : o base st.k.rcv_nxt ≤ N) (h3 : ∀ x ∈ st.k.rcv_buf, o base x.sn < N) :
    RcvStep base N st.k (inFr true st fr).k ∧ (inFr true st fr).panic = st.panic ∧
    (inFr true st fr).ret = st.ret ∧ (inFr true st fr).flushSeg = st.flushSeg ∧
    (inFr true st fr).updRtt = st.updRtt := by
  obtain ⟨pr, he⟩ := inFr_probe st fr hsb hc
  rw [he]
  exact ⟨⟨rfl, rfl, rfl, rfl, rfl, rfl, Nat.le_refl _, h2, h3, fun _ h => h, fun a ha => Or.inl ha⟩,
    rfl, rfl, by simp, rfl⟩

/-- **a whole datagram of arbitrary genuine frames from the sender** -/
theorem inFrs_rcv_gen (base : U32) (N : Nat) (hN : N < 2 ^ 31) (frs : List Frm) : ∀ (st : InLoop),
    st.k.snd_buf = [] → (∀ fr ∈ frs, DataLike fr ∧ (fr.cmd.toNat = IKCP_CMD_PUSH → o base fr.sn < N)) →
    o base st.k.rcv_nxt ≤ N → (∀ x ∈ st.k.rcv_buf, o base x.sn < N) → st.panic = false →
    RcvStep base N st.k (inFrs true frs st).k ∧ (inFrs true frs st).panic = false ∧
    (inFrs true frs st).ret = st.ret ∧ (inFrs true frs st).flushSeg = st.flushSeg ∧
    (inFrs true frs st).updRtt = st.updRtt := by
  induction frs with
  | nil => intro st h1 _ h2 h3 hp; exact ⟨RcvStep.refl base N st.k h1 h2 h3, hp, rfl, rfl, rfl⟩
  | cons fr rest ih =>
    intro st h1 hall h2 h3 hp
    obtain ⟨hdl, hsn⟩ := hall fr (List.mem_cons_self ..)
    have key : RcvStep base N st.k (inFr true st fr).k ∧ (inFr true st fr).panic = false ∧
        (inFr true st fr).ret = st.ret ∧ (inFr true st fr).flushSeg = st.flushSeg ∧
        (inFr true st fr).updRtt = st.updRtt := by
      by_cases hc : fr.cmd.toNat = IKCP_CMD_PUSH
      · obtain ⟨a1, a2, a3, a4, a5⟩ := inFr_push_gen base N hN st fr h1 hc hdl.2 (hsn hc) h2 h3
        exact ⟨a1, by rcases a2 with h | h; rw [h, hp]; exact h, a3, a4, a5⟩
      · obtain ⟨a1, a2, a3, a4, a5⟩ := inFr_probe_gen base N st fr h1 (hdl.1.resolve_left hc) h2 h3
        exact ⟨a1, by rw [a2, hp], a3, a4, a5⟩
    obtain ⟨k1, k2, k3, k4, k5⟩ := key
    unfold inFrs
    rw [if_neg (by rw [k2]; simp)]
    obtain ⟨j1, j2, j3, j4, j5⟩ := ih (inFr true st fr) k1.sb
      (fun x hx => hall x (List.mem_cons_of_mem _ hx)) k1.hi k1.bnd k2
    exact ⟨k1.trans j1, j2, j3.trans k3, j4.trans k4, j5.trans k5⟩

/-- `Recv` at such a receiver -/
theorem recv_rcvStep (base : U32) (N : Nat) (hN : N < 2 ^ 31) (k : Kcp) (n : Nat) (h1 : k.snd_buf = [])
    (h2 : o base k.rcv_nxt ≤ N) (h3 : ∀ x ∈ k.rcv_buf, o base x.sn < N) : RcvStep base N k (recv k n).k := by
  unfold recv
  simp only []
  split; · exact RcvStep.refl base N k h1 h2 h3
  split; · exact RcvStep.refl base N k h1 h2 h3
  have hM := moveReady_rcvStep base N hN { k with rcv_queue := (popMsg k.rcv_queue).rest } h1 h2 h3
  have h0 : RcvStep base N k { k with rcv_queue := (popMsg k.rcv_queue).rest } :=
    ⟨h1, rfl, rfl, rfl, rfl, rfl, Nat.le_refl _, h2, h3, fun _ h => h, fun a ha => Or.inl ha⟩
  split
  · have hP : RcvStep base N (moveReady { k with rcv_queue := (popMsg k.rcv_queue).rest })
        { moveReady { k with rcv_queue := (popMsg k.rcv_queue).rest } with
          probe := (moveReady { k with rcv_queue := (popMsg k.rcv_queue).rest }).probe ||| u32 IKCP_ASK_TELL } :=
      ⟨hM.sb, rfl, rfl, rfl, rfl, rfl, Nat.le_refl _, hM.hi, hM.bnd, fun _ h => h, fun a ha => Or.inl ha⟩
    exact (h0.trans hM).trans hP
  · exact h0.trans hM

end KcpVerif.SysC
