/-
C07 over whole histories, part 3: pure facts about the ghost `track` (no decoder involved).
Core Lean only.

* `gIdx`: the indices of the distinct packets of group `g` in a history, in order of first arrival.
* `within`: the explicit, decidable "within the horizon" condition on a history — from the first
  packet of the group on, after every packet the group is `alive` w.r.t. the `newestShardId` the
  history produces (`nextNewest`); `within_iff` restates it over the prefixes of the history.
* `track_within`: within the horizon and below `d` distinct packets, the ghost IS `gIdx`.
* `track_absent`, `track_length_le`, `trackStep_completes`: no packet of the group ⇒ the ghost stays
  empty; the ghost grows by at most one per packet of the group; it is empty after a completion.
* `alive_of_le`, `nextNewest_win`, `within_window`: a history whose shard ids all lie in a window of
  `maxShardSets + 1` consecutive ids (that does not cross the 2^32 wrap) keeps every group of the
  window within the horizon; `alive_far`: a group `maxShardSets + 1` or more behind is not alive.
-/
import KcpVerif.Lemmas.FecHistTrack

namespace KcpVerif.Lemmas.FecHist
open KcpVerif.Fec KcpVerif.Gen KcpVerif.AutoTune

/-! ## distinct packets of a group, explicit horizon condition -/

def gIdx (n : Nat) (g : BitVec 32) : List Nat → List Bytes → List Nat
  | got, [] => got
  | got, q :: rest =>
    if sidOf n q = g ∧ posOf n q ∉ got then gIdx n g (got ++ [posOf n q]) rest
    else gIdx n g got rest

/-- `seen`: a packet of group `g` has arrived; from then on the group must stay alive -/
def within (n : Nat) (g : BitVec 32) : Option (BitVec 32) → Bool → List Bytes → Bool
  | _, _, [] => true
  | cur, seen, q :: rest =>
    (!(seen || sidOf n q == g) || alive n (nextNewest n cur (sidOf n q)) g) &&
      within n g (some (nextNewest n cur (sidOf n q))) (seen || sidOf n q == g) rest

/-- `newestShardId` after a non-empty list of shard ids -/
def newestAfter (n : Nat) (cur : Option (BitVec 32)) (sids : List (BitVec 32)) : BitVec 32 :=
  (curAfter n cur sids).getD 0

theorem curAfter_cons (n : Nat) (cur : Option (BitVec 32)) (s : BitVec 32) (l : List (BitVec 32)) :
    curAfter n cur (s :: l) = curAfter n (some (nextNewest n cur s)) l := rfl

/-- the condition over prefixes: after every prefix that contains a packet of the group (or any
    prefix, when one was seen before), the group is alive w.r.t. the `newestShardId` of that prefix -/
theorem within_iff (n : Nat) (g : BitVec 32) (hist : List Bytes) :
    ∀ (cur : Option (BitVec 32)) (seen : Bool),
    within n g cur seen hist = true ↔
      ∀ k, k < hist.length → (seen = true ∨ ∃ q ∈ hist.take (k + 1), sidOf n q = g) →
        alive n (newestAfter n cur ((hist.take (k + 1)).map (sidOf n))) g = true := by
  induction hist with
  | nil => intro cur seen; simp [within]
  | cons q rest ih =>
    intro cur seen
    simp only [within, Bool.and_eq_true, Bool.or_eq_true, Bool.not_eq_true', beq_iff_eq, ih]
    constructor
    · rintro ⟨h0, hrest⟩ k hk hs
      cases k with
      | zero =>
        simp only [Nat.zero_add, List.take_succ_cons, List.take_zero, List.map_cons, List.map_nil,
          newestAfter, curAfter_cons] at hs ⊢
        have : seen = true ∨ sidOf n q = g := by
          rcases hs with h | ⟨q', hq', h⟩
          · exact Or.inl h
          · simp only [List.mem_singleton] at hq'; subst hq'; exact Or.inr h
        rcases h0 with h0 | h0
        · rcases this with h | h
          · rw [h] at h0; simp at h0
          · rw [h] at h0; simp at h0
        · exact h0
      | succ k =>
        simp only [List.take_succ_cons, List.map_cons, newestAfter, curAfter_cons]
        apply hrest k (by simpa using hk)
        rcases hs with h | ⟨q', hq', h⟩
        · exact Or.inl (Or.inl h)
        · simp only [List.take_succ_cons, List.mem_cons] at hq'
          rcases hq' with rfl | hq'
          · exact Or.inl (Or.inr h)
          · exact Or.inr ⟨q', hq', h⟩
    · intro h
      constructor
      · by_cases hs : seen = true ∨ sidOf n q = g
        · right
          have := h 0 (by simp) (by
            rcases hs with h | h
            · exact Or.inl h
            · exact Or.inr ⟨q, by simp, h⟩)
          simpa [newestAfter, curAfter_cons, curAfter] using this
        · left
          have h1 : seen = false := by
            cases seen with
            | true => exact absurd (Or.inl rfl) hs
            | false => rfl
          have h2 : ¬ sidOf n q = g := fun h => hs (Or.inr h)
          simp [h1, h2]
      · intro k hk hs
        have := h (k + 1) (by simpa using hk) (by
          rcases hs with (h | h) | ⟨q', hq', h⟩
          · exact Or.inl h
          · exact Or.inr ⟨q, by simp, h⟩
          · exact Or.inr ⟨q', by simp [hq'], h⟩)
        simpa only [List.take_succ_cons, List.map_cons, newestAfter, curAfter_cons] using this

theorem gIdx_length_ge (n : Nat) (g : BitVec 32) (hist : List Bytes) :
    ∀ (got : List Nat), got.length ≤ (gIdx n g got hist).length := by
  induction hist with
  | nil => intro got; exact Nat.le_refl _
  | cons q rest ih =>
    intro got
    simp only [gIdx]
    split
    · have := ih (got ++ [posOf n q])
      simp only [List.length_append, List.length_singleton] at this
      omega
    · exact ih got

theorem gIdx_append (n : Nat) (g : BitVec 32) (a b : List Bytes) :
    ∀ (got : List Nat), gIdx n g got (a ++ b) = gIdx n g (gIdx n g got a) b := by
  induction a with
  | nil => intro got; rfl
  | cons q rest ih =>
    intro got
    simp only [List.cons_append, gIdx]
    split <;> exact ih _

/-- **within the horizon the ghost is the list of distinct packets**, as long as fewer than `d` -/
theorem track_within (n d : Nat) (g : BitVec 32) (hist : List Bytes) :
    ∀ (cur : Option (BitVec 32)) (seen : Bool) (got : List Nat),
      within n g cur seen hist = true → (got ≠ [] → seen = true) →
      (gIdx n g got hist).length < d → track n d g cur got hist = gIdx n g got hist := by
  induction hist with
  | nil => intro _ _ _ _ _ _; rfl
  | cons q rest ih =>
    intro cur seen got hw hseen hlen
    simp only [within, Bool.and_eq_true, Bool.or_eq_true, Bool.not_eq_true'] at hw
    obtain ⟨h0, hrest⟩ := hw
    simp only [track, gIdx] at hlen ⊢
    by_cases hg : sidOf n q = g
    · have hal : alive n (nextNewest n cur (sidOf n q)) g = true := by
        rcases h0 with h0 | h0
        · simp [hg] at h0
        · exact h0
      have hs' : (seen || sidOf n q == g) = true := by simp [hg]
      rw [hs'] at hrest
      by_cases hmem : posOf n q ∈ got
      · have hstep : trackStep n d g cur got q = got := by
          unfold trackStep; rw [if_pos hg, if_pos hmem]
        rw [hstep]
        rw [if_neg (fun h => h.2 hmem)] at hlen ⊢
        exact ih _ _ _ hrest (fun _ => rfl) hlen
      · rw [if_pos ⟨hg, hmem⟩] at hlen ⊢
        have hge := gIdx_length_ge n g rest (got ++ [posOf n q])
        simp only [List.length_append, List.length_singleton] at hge
        have hstep : trackStep n d g cur got q = got ++ [posOf n q] := by
          unfold trackStep
          rw [if_pos hg, if_neg hmem, hal, if_pos rfl, if_neg (by omega)]
        rw [hstep]
        exact ih _ _ _ hrest (fun _ => rfl) hlen
    · have hs' : (seen || sidOf n q == g) = seen := by simp [hg]
      rw [hs'] at hrest
      rw [if_neg (fun h => hg h.1)] at hlen ⊢
      have hstep : trackStep n d g cur got q = got := by
        unfold trackStep
        rw [if_neg hg]
        cases hgot : got with
        | nil => simp
        | cons a l =>
          have hsn := hseen (by rw [hgot]; simp)
          rcases h0 with h0 | h0
          · rw [hsn] at h0; simp at h0
          · rw [h0, if_pos rfl]
      rw [hstep]
      exact ih _ _ _ hrest hseen hlen

theorem within_append (n : Nat) (g : BitVec 32) (a b : List Bytes) :
    ∀ (cur : Option (BitVec 32)) (seen : Bool),
      within n g cur seen (a ++ b) = true → within n g cur seen a = true := by
  induction a with
  | nil => intro _ _ _; rfl
  | cons q rest ih =>
    intro cur seen h
    simp only [List.cons_append, within, Bool.and_eq_true] at h ⊢
    exact ⟨h.1, ih _ _ h.2⟩

/-- no packet of the group: the (empty) ghost stays empty -/
theorem track_absent (n d : Nat) (g : BitVec 32) (hist : List Bytes) :
    ∀ (cur : Option (BitVec 32)), (∀ q ∈ hist, sidOf n q ≠ g) → track n d g cur [] hist = [] := by
  induction hist with
  | nil => intro _ _; rfl
  | cons q rest ih =>
    intro cur h
    have hq := h q (List.mem_cons_self ..)
    have hstep : trackStep n d g cur [] q = [] := by
      unfold trackStep; rw [if_neg hq]; simp
    simp only [track, hstep]
    exact ih _ (fun q hq => h q (List.mem_cons_of_mem _ hq))

theorem trackStep_length_le (n d : Nat) (g : BitVec 32) (cur : Option (BitVec 32)) (got : List Nat)
    (q : Bytes) :
    (trackStep n d g cur got q).length ≤ got.length + (if sidOf n q = g then 1 else 0) := by
  unfold trackStep
  split
  · split
    · omega
    · split
      · split
        · simp
        · simp
      · simp
  · split <;> simp

/-- the ghost grows by at most one per packet of the group -/
theorem track_length_le (n d : Nat) (g : BitVec 32) (hist : List Bytes) :
    ∀ (cur : Option (BitVec 32)) (got : List Nat),
      (track n d g cur got hist).length
        ≤ got.length + (hist.filter (fun q => sidOf n q == g)).length := by
  induction hist with
  | nil => intro _ _; simp [track]
  | cons q rest ih =>
    intro cur got
    have h1 := trackStep_length_le n d g cur got q
    have h2 := ih (some (nextNewest n cur (sidOf n q))) (trackStep n d g cur got q)
    simp only [track, List.filter_cons]
    by_cases hg : sidOf n q = g
    · simp only [hg, beq_self_eq_true, if_true, List.length_cons] at h1 ⊢
      rw [hg] at h2
      omega
    · have : (sidOf n q == g) = false := by simpa using hg
      simp only [this, Bool.false_eq_true, if_false, hg] at h1 ⊢
      omega

/-- after the `d`-th distinct packet the ghost is empty: the set was popped (or discarded) -/
theorem trackStep_completes (n d : Nat) (g : BitVec 32) (cur : Option (BitVec 32)) (got : List Nat)
    (q : Bytes) (hg : sidOf n q = g) (hnot : posOf n q ∉ got) (hfull : got.length + 1 ≥ d) :
    trackStep n d g cur got q = [] := by
  unfold trackStep
  rw [if_pos hg, if_neg hnot, if_pos hfull]
  simp

/-! ## a window of `maxShardSets + 1` consecutive shard ids -/

theorem mul_u32 {n : Nat} (hn : n ≤ 256) (x : BitVec 32) (h : x.toNat * n < 2 ^ 32) :
    (x * u32 n).toNat = x.toNat * n := by
  have : (u32 n).toNat = n := by simp only [u32, BitVec.toNat_ofNat]; omega
  rw [BitVec.toNat_mul, this, Nat.mod_eq_of_lt h]

theorem mul_window {n a b k : Nat} (h1 : a ≤ b) (h2 : b ≤ a + k) :
    a * n ≤ b * n ∧ b * n ≤ a * n + k * n ∧ (a < b → a * n + n ≤ b * n) := by
  refine ⟨Nat.mul_le_mul_right n h1, ?_, ?_⟩
  · have := Nat.mul_le_mul_right n h2
    rw [Nat.add_mul] at this
    exact this
  · intro h
    have := Nat.mul_le_mul_right n (Nat.succ_le_of_lt h)
    rw [Nat.succ_mul] at this
    exact this

/-- the signed age of `y` seen from `x`, when `y ≤ x` and the products do not wrap -/
theorem age_of_le {n : Nat} (hn : n ≤ 256) (x y : BitVec 32) (hx : x.toNat * n < 2 ^ 32)
    (hyx : y.toNat ≤ x.toNat) (hsmall : x.toNat * n - y.toNat * n < 2 ^ 31) :
    age n x y = ((x.toNat * n - y.toNat * n : Nat) : Int) := by
  have hy : y.toNat * n < 2 ^ 32 := Nat.lt_of_le_of_lt (Nat.mul_le_mul_right n hyx) hx
  have hle := Nat.mul_le_mul_right n hyx
  unfold age itimediff
  rw [BitVec.toInt_eq_toNat_cond, BitVec.toNat_sub, mul_u32 hn x hx, mul_u32 hn y hy]
  generalize x.toNat * n = X at *
  generalize y.toNat * n = Y at *
  split <;> omega

/-- a group at most `maxShardSets` behind `newest` survives `discardShards` -/
theorem alive_of_le {n : Nat} (hn : n ≤ 256) (x y : BitVec 32) (hx : x.toNat * n < 2 ^ 32)
    (hyx : y.toNat ≤ x.toNat) (hclose : x.toNat ≤ y.toNat + maxShardSets) :
    alive n x y = true := by
  obtain ⟨h1, h2, _⟩ := mul_window (n := n) hyx hclose
  have hms : maxShardSets * n ≤ 3 * 256 := by
    have : maxShardSets = 3 := rfl
    rw [this]; omega
  have ha := age_of_le hn x y hx hyx (by omega)
  unfold alive
  rw [ha]
  simp only [Bool.and_eq_true, decide_eq_true_eq]
  constructor
  · exact Int.natCast_nonneg _
  · exact Int.ofNat_le.2 (by omega)

/-- … and a group more than `maxShardSets` behind does not (ages below 2^31) -/
theorem alive_far {n : Nat} (hn0 : 0 < n) (hn : n ≤ 256) (x y : BitVec 32) (hx : x.toNat * n < 2 ^ 32)
    (hfar : y.toNat + maxShardSets < x.toNat) (hsmall : x.toNat * n - y.toNat * n < 2 ^ 31) :
    alive n x y = false := by
  have hyx : y.toNat ≤ x.toNat := by omega
  have h3 := Nat.mul_le_mul_right n (Nat.succ_le_of_lt hfar)
  rw [Nat.succ_mul, Nat.add_mul] at h3
  have ha := age_of_le hn x y hx hyx hsmall
  unfold alive
  rw [ha]
  have : ¬ (((x.toNat * n - y.toNat * n : Nat) : Int) ≤ ((maxShardSets * n : Nat) : Int)) := by
    intro h
    have := Int.ofNat_le.1 h
    omega
  rw [decide_eq_false this, Bool.and_false]

/-- `x` lies in the window of shard ids `b … b + maxShardSets` -/
def InWin (b : Nat) (x : BitVec 32) : Prop := b ≤ x.toNat ∧ x.toNat ≤ b + maxShardSets

/-- inside a window `newestShardId` is the plain maximum -/
theorem nextNewest_win {n : Nat} (hn0 : 0 < n) (hn : n ≤ 256) (b : Nat)
    (hb : (b + maxShardSets) * n < 2 ^ 32) (c s : BitVec 32) (hc : InWin b c) (hs : InWin b s) :
    nextNewest n (some c) s = if c.toNat < s.toNat then s else c := by
  have hms : maxShardSets = 3 := rfl
  have hcn : c.toNat * n < 2 ^ 32 := Nat.lt_of_le_of_lt (Nat.mul_le_mul_right n hc.2) hb
  have hsn : s.toNat * n < 2 ^ 32 := Nat.lt_of_le_of_lt (Nat.mul_le_mul_right n hs.2) hb
  unfold nextNewest itimediff
  simp only []
  rw [BitVec.toInt_eq_toNat_cond, BitVec.toNat_sub, mul_u32 hn c hcn, mul_u32 hn s hsn]
  by_cases hlt : c.toNat < s.toNat
  · obtain ⟨h1, h2, h3⟩ := mul_window (n := n) (k := 3) (Nat.le_of_lt hlt)
      (by have := hc.1; have := hs.2; omega)
    have h3 := h3 hlt
    rw [if_pos hlt]
    generalize c.toNat * n = X at *
    generalize s.toNat * n = Y at *
    rw [if_pos]
    split <;> omega
  · obtain ⟨h1, h2, _⟩ := mul_window (n := n) (k := 3) (Nat.le_of_not_lt hlt)
      (by have := hs.1; have := hc.2; omega)
    rw [if_neg hlt]
    generalize c.toNat * n = X at *
    generalize s.toNat * n = Y at *
    rw [if_neg]
    split <;> omega

/-- **a window of `maxShardSets + 1` consecutive shard ids keeps all its groups within the
    horizon**, whatever the interleaving -/
theorem within_window {n : Nat} (hn0 : 0 < n) (hn : n ≤ 256) (b : Nat) (hb : (b + maxShardSets) * n < 2 ^ 32)
    (g : BitVec 32) (hg : InWin b g) (hist : List Bytes) :
    ∀ (cur : Option (BitVec 32)) (seen : Bool),
      (∀ q ∈ hist, InWin b (sidOf n q)) → (∀ c, cur = some c → InWin b c) →
      (seen = true → ∃ c, cur = some c ∧ g.toNat ≤ c.toNat) →
      within n g cur seen hist = true := by
  induction hist with
  | nil => intro _ _ _ _ _; rfl
  | cons q rest ih =>
    intro cur seen hwin hcur hseen
    have hq := hwin q (List.mem_cons_self ..)
    -- the new horizon: in the window, not below the old one nor below this packet
    have hnw : InWin b (nextNewest n cur (sidOf n q)) ∧
        (sidOf n q).toNat ≤ (nextNewest n cur (sidOf n q)).toNat ∧
        (∀ c, cur = some c → c.toNat ≤ (nextNewest n cur (sidOf n q)).toNat) := by
      cases hc : cur with
      | none => exact ⟨hq, Nat.le_refl _, fun c h => by cases h⟩
      | some c =>
        have hcw := hcur c hc
        rw [nextNewest_win hn0 hn b hb c _ hcw hq]
        split
        · exact ⟨hq, Nat.le_refl _, fun c' h => by cases h; omega⟩
        · exact ⟨hcw, by omega, fun c' h => by cases h; exact Nat.le_refl _⟩
    obtain ⟨hw1, hw2, hw3⟩ := hnw
    have hseen' : (seen || sidOf n q == g) = true →
        g.toNat ≤ (nextNewest n cur (sidOf n q)).toNat := by
      intro h
      simp only [Bool.or_eq_true, beq_iff_eq] at h
      rcases h with h | h
      · obtain ⟨c, hc, hle⟩ := hseen h
        exact Nat.le_trans hle (hw3 c hc)
      · rw [← h]; exact hw2
    simp only [within, Bool.and_eq_true, Bool.or_eq_true, Bool.not_eq_true']
    constructor
    · cases hs : (seen || sidOf n q == g) with
      | false => exact Or.inl rfl
      | true =>
        right
        have hle := hseen' hs
        apply alive_of_le hn _ _ (Nat.lt_of_le_of_lt (Nat.mul_le_mul_right n hw1.2) hb) hle
        have := hw1.2; have := hg.1; omega
    · apply ih _ _ (fun q hq => hwin q (List.mem_cons_of_mem _ hq))
      · intro c h; cases h; exact hw1
      · intro h; exact ⟨_, rfl, hseen' h⟩

end KcpVerif.Lemmas.FecHist
