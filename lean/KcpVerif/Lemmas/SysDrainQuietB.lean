/-
While A has nothing outstanding and B has taken everything A has numbered, nothing changes B's receive
side except the reader: every PUSH still on its way is old.  So a receive queue that is not full stays
not full until A numbers a new segment (`qp_step`).
-/
import KcpVerif.Lemmas.SysDrainFull2

namespace KcpVerif.SysC
open KcpVerif KcpVerif.Gen KcpVerif.Kcp KcpVerif.Live KcpVerif.Wire KcpVerif.SysW KcpVerif.Sys

/-- the receive side is unchanged -/
def RQ (k k' : Kcp) : Prop :=
  k'.rcv_queue = k.rcv_queue ∧ k'.rcv_nxt = k.rcv_nxt ∧ k'.rcv_wnd = k.rcv_wnd ∧ k'.rcv_buf = k.rcv_buf

theorem inFr_oldB (base : U32) (st : InLoop) (fr : Frm) (hdl : DataLike fr)
    (hold : fr.cmd.toNat = IKCP_CMD_PUSH → o base fr.sn < o base st.k.rcv_nxt) (hN : o base st.k.rcv_nxt < 2 ^ 31) :
    RQ st.k (inFr true st fr).k := by
  obtain ⟨p1, p2, _, _, p5, p6⟩ := inPre_rcv true fr.wnd fr.una st.k
  have hP : RQ st.k (inPre true fr.wnd fr.una st.k) := ⟨p6, p1, p2, p5⟩
  unfold inFr
  rw [inStep_k]
  have hA : ¬ fr.cmd.toNat = IKCP_CMD_ACK := by
    rcases hdl.1 with e | e | e <;> rw [e] <;> decide
  rw [if_neg hA]
  by_cases hPu : fr.cmd.toNat = IKCP_CMD_PUSH
  · rw [if_pos hPu]
    split
    · have hlt := hold hPu
      have hd := itd base fr.sn st.k.rcv_nxt (by omega) hN
      rw [p1]
      rw [if_neg (by omega)]
      exact hP
    · exact hP
  · rw [if_neg hPu]
    split
    · exact hP
    · exact hP

theorem inFrs_oldB (base : U32) : ∀ (frs : List Frm) (st : InLoop), (∀ fr ∈ frs, DataLike fr ∧
      (fr.cmd.toNat = IKCP_CMD_PUSH → o base fr.sn < o base st.k.rcv_nxt)) → o base st.k.rcv_nxt < 2 ^ 31 →
    RQ st.k (inFrs true frs st).k := by
  intro frs
  induction frs with
  | nil => intro st _ _; exact ⟨rfl, rfl, rfl, rfl⟩
  | cons fr rest ih =>
    intro st hall hN
    obtain ⟨c1, c2⟩ := hall fr (List.mem_cons_self ..)
    have h1 := inFr_oldB base st fr c1 c2 hN
    unfold inFrs
    split
    · exact h1
    · have h2 := ih (inFr true st fr) (fun x hx => by
        obtain ⟨d1, d2⟩ := hall x (List.mem_cons_of_mem _ hx)
        exact ⟨d1, by rw [h1.2.1]; exact d2⟩) (by rw [h1.2.1]; exact hN)
      exact ⟨h2.1.trans h1.1, h2.2.1.trans h1.2.1, h2.2.2.1.trans h1.2.2.1, h2.2.2.2.trans h1.2.2.2⟩

/-- B's `Input` of the head datagram when B has everything A has numbered: the receive side is unchanged -/
theorem dlvB_quietB {p : Par} {s : State} {t0 : Nat} {frs0 : List Frm} {grest gba : GLink}
    (h : Cons p s ((t0, frs0) :: grest) gba) (hnw : NoWrap p.base s)
    (hcu : o p.base s.A.snd_nxt ≤ o p.base s.B.rcv_nxt) :
    RQ s.B (s.B.input (encFrames frs0) true s.ndB (clk s.now)).k := by
  have hnw' := hnw
  unfold NoWrap at hnw'
  have hN : o p.base s.A.snd_nxt < 2 ^ 31 := by omega
  have hd0 : ((t0, frs0) : Nat × List Frm) ∈ (t0, frs0) :: grest := List.mem_cons_self ..
  have hv : ∀ fr ∈ frs0, FrValid s.B.conv fr := by
    intro fr hfr
    obtain ⟨e1, e2, _⟩ := h.fab (t0, frs0) hd0 fr hfr
    refine ⟨by rw [e1, h.bconv], ?_, e2.2⟩
    unfold Live.validCmd
    rcases e2.1 with e | e | e
    · exact Or.inl e
    · exact Or.inr (Or.inr (Or.inl e))
    · exact Or.inr (Or.inr (Or.inr e))
  obtain ⟨r1, r2, r3, r4, r5⟩ := inFrs_rcv_gen p.base (o p.base s.A.snd_nxt) hN frs0 { k := s.B } h.bsb
    (fun fr hfr => ⟨(h.fab (t0, frs0) hd0 fr hfr).2.1, (h.fab (t0, frs0) hd0 fr hfr).2.2⟩) h.bub h.bbuf rfl
  have hbub := h.bub
  have hrq := inFrs_oldB p.base frs0 { k := s.B } (fun fr hfr =>
    ⟨(h.fab (t0, frs0) hd0 fr hfr).2.1, fun hp => by
      have := (h.fab (t0, frs0) hd0 fr hfr).2.2 hp
      show o p.base fr.sn < o p.base s.B.rcv_nxt
      omega⟩) (by show o p.base s.B.rcv_nxt < 2 ^ 31; omega)
  obtain ⟨cw, inc, hcw⟩ := cwndOnAck_shape' (inFrs true frs0 { k := s.B }).k s.B.snd_una
  have hK : RQ s.B (cwndOnAck (inFrs true frs0 { k := s.B }).k s.B.snd_una) := by rw [hcw]; exact hrq
  rcases inputB_cases s.B frs0 s.ndB (clk s.now) hv r2 r3 r4 r5 with hin | hin | ⟨rfl, hin⟩
  · rw [hin]; exact hK
  · rw [hin]
    obtain ⟨pw, tp, st, ss, cw', inc', hk⟩ := flush_frame (cwndOnAck (inFrs true frs0 { k := s.B }).k s.B.snd_una) false (clk s.now)
    show RQ s.B (flush _ false (clk s.now)).k
    rw [hk]; exact hK
  · rw [hin]; exact ⟨rfl, rfl, rfl, rfl⟩

theorem popMsg_rest_len (l : List Seg) : (popMsg l).rest.length ≤ l.length := by
  induction l with
  | nil => simp [popMsg]
  | cons s rest ih =>
    unfold popMsg
    split
    · simp
    · simp only [List.length_cons]; omega

/-- `Recv` with an empty reorder buffer only shortens the queue -/
theorem recv_quietB (k : Kcp) (n : Nat) (hb : k.rcv_buf = []) :
    (recv k n).k.rcv_queue.length ≤ k.rcv_queue.length ∧ (recv k n).k.rcv_nxt = k.rcv_nxt ∧
    (recv k n).k.rcv_wnd = k.rcv_wnd := by
  unfold recv
  simp only []
  split; · exact ⟨Nat.le_refl _, rfl, rfl⟩
  split; · exact ⟨Nat.le_refl _, rfl, rfl⟩
  have hm : moveReady { k with rcv_queue := (popMsg k.rcv_queue).rest } =
      { k with rcv_queue := (popMsg k.rcv_queue).rest } := by
    unfold moveReady
    simp only [hb, moveLoop]
  rw [hm]
  split
  · exact ⟨popMsg_rest_len _, rfl, rfl⟩
  · exact ⟨popMsg_rest_len _, rfl, rfl⟩

/-- nothing outstanding at A, B has taken everything numbered, its queue is not full -/
def QP (p : Par) (s : State) : Prop :=
  s.A.snd_buf = [] ∧ o p.base s.A.snd_nxt ≤ o p.base s.B.rcv_nxt ∧ s.B.rcv_queue.length < s.B.rcv_wnd.toNat

theorem qp_rcvbuf {p : Par} {s : State} {gab gba : GLink} (h : Cons p s gab gba) (hs : SortedB p.base s.B)
    (hq : QP p s) : s.B.rcv_buf = [] := by
  cases hb : s.B.rcv_buf with
  | nil => rfl
  | cons x r =>
    have hx : x ∈ s.B.rcv_buf := by rw [hb]; exact List.mem_cons_self ..
    have h1 := hs.2 x hx
    have h2 := h.bbuf x hx
    have := hq.2.1
    omega

theorem qp_step {p : Par} {s : State} {gab gba : GLink} (h : Cons p s gab gba) (hs : Side p.base s)
    (hnw : NoWrap p.base s) (hq : QP p s) (ev : Ev) (hb' : (Sys.step s ev).A.snd_buf = []) :
    QP p (Sys.step s ev) := by
  obtain ⟨gab', gba', hc'⟩ := cons_step h hnw ev
  have hs' : Side p.base (Sys.step s ev) := ⟨live_step s hs.live ev, sortedB_step h hnw hs.srt ev, fix_step s hs.fix ev⟩
  have hrb := qp_rcvbuf h hs.srt hq
  have h3 : (Sys.step s ev).B.rcv_queue.length < (Sys.step s ev).B.rcv_wnd.toNat := by
    have hq3 := hq.2.2
    cases ev with
    | tick =>
      rw [show Sys.step s .tick = (if quiet s then { s with now := s.now + 1 } else s) from rfl]
      split <;> exact hq3
    | send b => exact hq3
    | read =>
      rw [show Sys.step s .read = (if (s.B.recv s.B.peekSize.toNat).n < 0 then s
        else { s with B := (s.B.recv s.B.peekSize.toNat).k, got := s.got ++ (s.B.recv s.B.peekSize.toNat).data }) from rfl]
      split
      · exact hq3
      · obtain ⟨a, _, c⟩ := recv_quietB s.B s.B.peekSize.toNat hrb
        show (s.B.recv s.B.peekSize.toNat).k.rcv_queue.length < (s.B.recv s.B.peekSize.toNat).k.rcv_wnd.toNat
        rw [c]; omega
    | flushA => exact hq3
    | flushB =>
      obtain ⟨pw, tp, st, ss, cw, inc, hk⟩ := flush_frame s.B true (clk s.now)
      show (s.B.flush true (clk s.now)).k.rcv_queue.length < (s.B.flush true (clk s.now)).k.rcv_wnd.toNat
      rw [hk]; exact hq3
    | dlvA =>
      cases hba : s.ba with
      | nil =>
        have : Sys.step s .dlvA = s := by simp only [Sys.step, hba]
        rw [this]; exact hq3
      | cons d' rest =>
        rw [step_dlvA_cons s _ _ hba]
        split <;> exact hq3
    | dlvB =>
      cases gab with
      | nil =>
        have : Sys.step s .dlvB = s := by simp only [Sys.step, h.hab, encL, List.map_nil]
        rw [this]; exact hq3
      | cons d0 grest =>
        obtain ⟨t0, frs0⟩ := d0
        have hab : s.ab = ⟨t0, encFrames frs0⟩ :: encL grest := h.hab
        rw [step_dlvB_cons s _ _ hab]
        split
        · obtain ⟨a, _, c, _⟩ := dlvB_quietB h hnw hq.2.1
          show (s.B.input (encFrames frs0) true s.ndB (clk s.now)).k.rcv_queue.length <
            (s.B.input (encFrames frs0) true s.ndB (clk s.now)).k.rcv_wnd.toNat
          rw [a, c]; exact hq3
        · exact hq3
  refine ⟨hb', ?_, h3⟩
  have hnb := not_behind hc' hs'.srt hs'.fix h3
  have hcon := hc'.acon.2
  rw [hb'] at hcon
  simp only [List.length_nil] at hcon
  omega

end KcpVerif.SysC
