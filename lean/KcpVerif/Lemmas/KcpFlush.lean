/-
Helper lemmas for C10 (core half): sizes of everything `flush` hands to the output callback.
Core Lean only (no Mathlib needed).
-/
import KcpVerif.Model.Kcp

namespace KcpVerif.Lemmas.KcpFlush
open KcpVerif KcpVerif.Gen KcpVerif.Kcp

/-- all segments of a list carry at most `n` bytes -/
def SegsLe (n : Nat) (l : List Seg) : Prop := ∀ s ∈ l, s.data.length ≤ n

/-- the MTU invariant of the protocol core -/
structure InvMss (k : Kcp) : Prop where
  segs   : ∀ s ∈ k.snd_queue ++ k.snd_buf, s.data.length ≤ k.mss.toNat
  mss_eq : k.mss = k.mtu - u32 IKCP_OVERHEAD
  mtu_gt : k.mtu.toNat > IKCP_OVERHEAD
  mtu_le : k.mtu.toNat ≤ mtuLimit + IKCP_OVERHEAD
  buf    : k.bufLen = (k.mtu.toNat + IKCP_OVERHEAD) * 3

theorem InvMss.mss_toNat {k : Kcp} (h : InvMss k) : k.mss.toNat = k.mtu.toNat - IKCP_OVERHEAD := by
  have h1 := h.mtu_gt
  rw [h.mss_eq]
  simp only [u32, IKCP_OVERHEAD] at *
  bv_omega

theorem InvMss.mss_le_limit {k : Kcp} (h : InvMss k) : k.mss.toNat ≤ mtuLimit := by
  have := h.mss_toNat; have := h.mtu_le; omega

theorem InvMss.segs_queue {k : Kcp} (h : InvMss k) : SegsLe k.mss.toNat k.snd_queue :=
  fun s hs => h.segs s (List.mem_append_left _ hs)

theorem InvMss.segs_buf {k : Kcp} (h : InvMss k) : SegsLe k.mss.toNat k.snd_buf :=
  fun s hs => h.segs s (List.mem_append_right _ hs)

/-- transfer of the invariant to a state with the same MTU configuration and bounded queues -/
theorem InvMss.of_cfg {k k' : Kcp} (h : InvMss k) (h1 : k'.mtu = k.mtu) (h2 : k'.mss = k.mss)
    (h3 : k'.bufLen = k.bufLen) (hq : SegsLe k.mss.toNat k'.snd_queue) (hb : SegsLe k.mss.toNat k'.snd_buf) :
    InvMss k' where
  segs := by
    intro s hs
    rw [h2]
    rcases List.mem_append.mp hs with hs | hs
    · exact hq s hs
    · exact hb s hs
  mss_eq := by rw [h1, h2]; exact h.mss_eq
  mtu_gt := by rw [h1]; exact h.mtu_gt
  mtu_le := by rw [h1]; exact h.mtu_le
  buf := by rw [h1, h3]; exact h.buf

/-- transfer of the invariant to a state that differs only in fields the invariant does not read -/
theorem InvMss.of_eq {k k' : Kcp} (h : InvMss k) (h1 : k'.mtu = k.mtu) (h2 : k'.mss = k.mss)
    (h3 : k'.bufLen = k.bufLen) (h4 : k'.snd_queue = k.snd_queue) (h5 : k'.snd_buf = k.snd_buf) : InvMss k' :=
  h.of_cfg h1 h2 h3 (by rw [h4]; exact h.segs_queue) (by rw [h5]; exact h.segs_buf)

theorem encodeHdr_length (conv : U32) (cmd frg : BitVec 8) (wnd : BitVec 16) (ts sn una : U32) (len : Nat) :
    (encodeHdr conv cmd frg wnd ts sn una len).length = IKCP_OVERHEAD := rfl

/-! ### the flush accumulator -/

/-- what `flush` maintains about its staging buffer, for an MTU of `m` bytes -/
structure FlOk (m : Nat) (f : Fl) : Prop where
  mtu   : f.k.mtu.toNat = m
  buf   : f.k.bufLen = (m + IKCP_OVERHEAD) * 3
  cur   : f.cur.length ≤ m
  outs  : ∀ o ∈ f.outs, 0 < o.length ∧ o.length ≤ m
  panic : f.panic = false

theorem makeSpace_k (f : Fl) (n : Nat) : (f.makeSpace n).k = f.k := by
  unfold Fl.makeSpace; split <;> rfl

theorem putHdr_k (f : Fl) (h : Bytes) : (f.putHdr h).k = f.k := by
  unfold Fl.putHdr; split <;> rfl

theorem putData_k (f : Fl) (d : Bytes) : (f.putData d).k = f.k := by
  unfold Fl.putData; split <;> rfl

/-- `makeSpace n` with `n ≤ mtu`: what it emits is non-empty and within the MTU, and `n` bytes fit afterwards -/
theorem FlOk.makeSpace {m : Nat} {f : Fl} (h : FlOk m f) {n : Nat} (hn : n ≤ m) :
    FlOk m (f.makeSpace n) ∧ (f.makeSpace n).cur.length + n ≤ m := by
  unfold Fl.makeSpace
  split
  · rename_i hc
    rw [h.mtu] at hc
    refine ⟨⟨h.mtu, h.buf, Nat.zero_le _, ?_, h.panic⟩, ?_⟩
    · intro o ho
      rcases List.mem_append.mp ho with ho | ho
      · exact h.outs o ho
      · have : o = f.cur := by simpa using ho
        subst this
        have := h.cur
        omega
    · simpa using hn
  · rename_i hc
    rw [h.mtu] at hc
    exact ⟨h, by omega⟩

theorem FlOk.putHdr {m : Nat} {f : Fl} (h : FlOk m f) {hd : Bytes} (hh : hd.length = IKCP_OVERHEAD)
    (hroom : f.cur.length + IKCP_OVERHEAD ≤ m) :
    FlOk m (f.putHdr hd) ∧ (f.putHdr hd).cur.length = f.cur.length + IKCP_OVERHEAD := by
  unfold Fl.putHdr
  have hb := h.buf
  split
  · omega
  · refine ⟨⟨h.mtu, h.buf, ?_, h.outs, h.panic⟩, ?_⟩
    · simp only [List.length_append, hh]; exact hroom
    · simp only [List.length_append, hh]

theorem FlOk.putData {m : Nat} {f : Fl} (h : FlOk m f) {d : Bytes} (hroom : f.cur.length + d.length ≤ m) :
    FlOk m (f.putData d) := by
  unfold Fl.putData
  have hb := h.buf
  split
  · omega
  · exact ⟨h.mtu, h.buf, by simp only [List.length_append]; exact hroom, h.outs, h.panic⟩

theorem FlOk.setK {m : Nat} {f : Fl} (h : FlOk m f) {k' : Kcp} (h1 : k'.mtu = f.k.mtu) (h2 : k'.bufLen = f.k.bufLen) :
    FlOk m { f with k := k' } :=
  ⟨by rw [← h.mtu]; exact congrArg BitVec.toNat h1, by rw [← h.buf]; exact h2, h.cur, h.outs, h.panic⟩

/-- a bare header (ACK, WASK, WINS): `makeSpace(24)` then `encode` -/
theorem FlOk.emitHdr {m : Nat} {f : Fl} (h : FlOk m f) (hm : IKCP_OVERHEAD ≤ m) {hd : Bytes}
    (hh : hd.length = IKCP_OVERHEAD) : FlOk m ((f.makeSpace IKCP_OVERHEAD).putHdr hd) := by
  have h1 := h.makeSpace hm
  exact (h1.1.putHdr hh h1.2).1

/-- a data segment: `makeSpace(24 + len)`, `encode`, `copy` -/
theorem FlOk.emitSeg {m : Nat} {f : Fl} (h : FlOk m f) {hd d : Bytes}
    (hh : hd.length = IKCP_OVERHEAD) (hd' : IKCP_OVERHEAD + d.length ≤ m) :
    FlOk m (((f.makeSpace (IKCP_OVERHEAD + d.length)).putHdr hd).putData d) := by
  have h1 := h.makeSpace hd'
  have h2 := h1.1.putHdr hh (by omega)
  exact h2.1.putData (by rw [h2.2]; omega)

/-! ### Phase 1: acknowledgements -/

theorem ackFlush_ok (wnd : BitVec 16) (una : U32) (total : Nat) {m : Nat} (hm : IKCP_OVERHEAD ≤ m)
    (l : List Ack) (i : Nat) (st : AckSt) (h : FlOk m st.f) :
    FlOk m (ackFlush wnd una total l i st).f ∧ (ackFlush wnd una total l i st).f.k = st.f.k := by
  induction l generalizing i st with
  | nil => exact ⟨h, rfl⟩
  | cons a rest ih =>
    unfold ackFlush
    simp only []
    split
    · have := ih (i + 1) ⟨(st.f.makeSpace IKCP_OVERHEAD).putHdr
          (encodeHdr (st.f.makeSpace IKCP_OVERHEAD).k.conv st.sc.cmd 0 wnd a.ts a.sn una 0),
          { st.sc with sn := a.sn, ts := a.ts }⟩ (h.emitHdr hm (encodeHdr_length ..))
      refine ⟨this.1, ?_⟩
      rw [this.2]
      simp only [putHdr_k, makeSpace_k]
    · have := ih (i + 1) ⟨st.f.makeSpace IKCP_OVERHEAD, st.sc⟩ (h.makeSpace hm).1
      refine ⟨this.1, ?_⟩
      rw [this.2]
      simp only [makeSpace_k]

/-! ### Phase 5: (re)transmission of `snd_buf` -/

/-- the decision part of `xmitOne`: (needsend, updated segment, change+, lost+) -/
def xmitR (now resent : U32) (newSegs : Nat) (k : Kcp) (s : Seg) : Bool × Seg × Nat × Nat :=
  if s.xmit = 0 then (true, { s with rto := k.rx_rto, resendts := now + k.rx_rto }, 0, 0)
  else if s.fastack ≥ resent ∧ s.fastack ≠ 0xFFFFFFFF#32 then
    (true, { s with fastack := 0xFFFFFFFF#32, rto := k.rx_rto, resendts := now + k.rx_rto }, 1, 0)
  else if s.fastack > 0 ∧ s.fastack ≠ 0xFFFFFFFF#32 ∧ newSegs = 0 then
    (true, { s with fastack := 0xFFFFFFFF#32, rto := k.rx_rto, resendts := now + k.rx_rto }, 1, 0)
  else if itimediff now s.resendts ≥ 0 then
    let rto' := if k.nodelay = 0 then s.rto + k.rx_rto else s.rto + k.rx_rto / 2
    (true, { s with rto := rto', fastack := 0, resendts := now + rto' }, 0, 1)
  else (false, s, 0, 0)

/-- the segment as it is written to the wire and kept in `snd_buf` -/
def xmitSeg (now : U32) (wnd : BitVec 16) (una : U32) (r : Bool × Seg × Nat × Nat) : Seg :=
  if r.1 then { r.2.1 with xmit := r.2.1.xmit + 1, ts := now, wnd := wnd, una := una } else r.2.1

/-- the accumulator after the segment has (or has not) been written -/
def xmitFl (now : U32) (wnd : BitVec 16) (una : U32) (f0 : Fl) (r : Bool × Seg × Nat × Nat) : Fl :=
  let s2 := xmitSeg now wnd una r
  if r.1 then
    let f := f0.makeSpace (IKCP_OVERHEAD + s2.data.length)
    let f := f.putHdr (encodeHdr s2.conv s2.cmd s2.frg s2.wnd s2.ts s2.sn s2.una s2.data.length)
    let f := f.putData s2.data
    if s2.xmit ≥ f.k.dead_link then { f with k := { f.k with state := 0xFFFFFFFF#32 } } else f
  else f0

theorem xmitOne_acked (now resent : U32) (wnd : BitVec 16) (una : U32) (newSegs : Nat) (st : XmitSt) (s : Seg)
    (h : s.acked = true) : xmitOne now resent wnd una newSegs st s = { st with done := st.done ++ [s] } := by
  unfold xmitOne; rw [if_pos h]

theorem xmitOne_f (now resent : U32) (wnd : BitVec 16) (una : U32) (newSegs : Nat) (st : XmitSt) (s : Seg)
    (h : s.acked = false) :
    (xmitOne now resent wnd una newSegs st s).f = xmitFl now wnd una st.f (xmitR now resent newSegs st.f.k s) := by
  unfold xmitOne; rw [if_neg (by simp [h])]; rfl

theorem xmitOne_done (now resent : U32) (wnd : BitVec 16) (una : U32) (newSegs : Nat) (st : XmitSt) (s : Seg)
    (h : s.acked = false) :
    (xmitOne now resent wnd una newSegs st s).done
      = st.done ++ [xmitSeg now wnd una (xmitR now resent newSegs st.f.k s)] := by
  unfold xmitOne; rw [if_neg (by simp [h])]; rfl

theorem xmitR_data (now resent : U32) (newSegs : Nat) (k : Kcp) (s : Seg) :
    (xmitR now resent newSegs k s).2.1.data = s.data := by
  unfold xmitR
  repeat' split
  all_goals rfl

theorem xmitSeg_data (now : U32) (wnd : BitVec 16) (una : U32) (r : Bool × Seg × Nat × Nat) :
    (xmitSeg now wnd una r).data = r.2.1.data := by
  unfold xmitSeg; split <;> rfl

/-- the fields of the core that Phase 5 leaves alone (it writes `state` only) -/
def CfgEq (k k' : Kcp) : Prop :=
  k'.mtu = k.mtu ∧ k'.mss = k.mss ∧ k'.bufLen = k.bufLen ∧ k'.snd_queue = k.snd_queue ∧ k'.nocwnd = k.nocwnd
    ∧ k'.snd_nxt = k.snd_nxt ∧ k'.snd_una = k.snd_una

theorem CfgEq.refl (k : Kcp) : CfgEq k k := ⟨rfl, rfl, rfl, rfl, rfl, rfl, rfl⟩

theorem CfgEq.trans {a b c : Kcp} (h1 : CfgEq a b) (h2 : CfgEq b c) : CfgEq a c :=
  ⟨h2.1.trans h1.1, h2.2.1.trans h1.2.1, h2.2.2.1.trans h1.2.2.1, h2.2.2.2.1.trans h1.2.2.2.1,
   h2.2.2.2.2.1.trans h1.2.2.2.2.1, h2.2.2.2.2.2.1.trans h1.2.2.2.2.2.1, h2.2.2.2.2.2.2.trans h1.2.2.2.2.2.2⟩

theorem xmitFl_ok (now : U32) (wnd : BitVec 16) (una : U32) {m : Nat} {f0 : Fl} (h : FlOk m f0)
    (r : Bool × Seg × Nat × Nat) (hr : IKCP_OVERHEAD + r.2.1.data.length ≤ m) :
    FlOk m (xmitFl now wnd una f0 r) ∧ CfgEq f0.k (xmitFl now wnd una f0 r).k := by
  unfold xmitFl
  simp only []
  split
  · have hd : (xmitSeg now wnd una r).data.length = r.2.1.data.length := by rw [xmitSeg_data]
    have h3 := h.emitSeg (f := f0) (d := (xmitSeg now wnd una r).data)
      (encodeHdr_length (xmitSeg now wnd una r).conv (xmitSeg now wnd una r).cmd (xmitSeg now wnd una r).frg
        (xmitSeg now wnd una r).wnd (xmitSeg now wnd una r).ts (xmitSeg now wnd una r).sn (xmitSeg now wnd una r).una
        (xmitSeg now wnd una r).data.length) (by rw [hd]; exact hr)
    have hk : ∀ hdr, (((f0.makeSpace (IKCP_OVERHEAD + (xmitSeg now wnd una r).data.length)).putHdr hdr).putData
        (xmitSeg now wnd una r).data).k = f0.k := by
      intro hdr; rw [putData_k, putHdr_k, makeSpace_k]
    split
    · refine ⟨h3.setK rfl rfl, ?_⟩
      simp only [hk]
      exact ⟨rfl, rfl, rfl, rfl, rfl, rfl, rfl⟩
    · refine ⟨h3, ?_⟩
      rw [hk]
      exact CfgEq.refl _
  · exact ⟨h, CfgEq.refl _⟩

/-- one step of Phase 5 -/
theorem xmitOne_ok (now resent : U32) (wnd : BitVec 16) (una : U32) (newSegs : Nat) {m : Nat} (st : XmitSt) (s : Seg)
    (h : FlOk m st.f) (hs : IKCP_OVERHEAD + s.data.length ≤ m) {n : Nat} (hn : s.data.length ≤ n)
    (hd : SegsLe n st.done) :
    FlOk m (xmitOne now resent wnd una newSegs st s).f
      ∧ CfgEq st.f.k (xmitOne now resent wnd una newSegs st s).f.k
      ∧ SegsLe n (xmitOne now resent wnd una newSegs st s).done := by
  cases ha : s.acked with
  | true =>
    rw [xmitOne_acked _ _ _ _ _ _ _ ha]
    refine ⟨h, CfgEq.refl _, ?_⟩
    intro x hx
    rcases List.mem_append.mp hx with hx | hx
    · exact hd x hx
    · have : x = s := by simpa using hx
      subst this; exact hn
  | false =>
    rw [xmitOne_f _ _ _ _ _ _ _ ha, xmitOne_done _ _ _ _ _ _ _ ha]
    have h1 := xmitFl_ok now wnd una h (xmitR now resent newSegs st.f.k s) (by rw [xmitR_data]; exact hs)
    refine ⟨h1.1, h1.2, ?_⟩
    intro x hx
    rcases List.mem_append.mp hx with hx | hx
    · exact hd x hx
    · have : x = xmitSeg now wnd una (xmitR now resent newSegs st.f.k s) := by simpa using hx
      subst this
      rw [xmitSeg_data, xmitR_data]; exact hn

/-- the whole Phase 5 loop -/
theorem xmitFold_ok (now resent : U32) (wnd : BitVec 16) (una : U32) (newSegs : Nat) {m n : Nat} (l : List Seg)
    (st : XmitSt) (h : FlOk m st.f) (hl : SegsLe n l) (hnm : IKCP_OVERHEAD + n ≤ m) (hd : SegsLe n st.done) :
    FlOk m (l.foldl (xmitOne now resent wnd una newSegs) st).f
      ∧ CfgEq st.f.k (l.foldl (xmitOne now resent wnd una newSegs) st).f.k
      ∧ SegsLe n (l.foldl (xmitOne now resent wnd una newSegs) st).done := by
  induction l generalizing st with
  | nil => exact ⟨h, CfgEq.refl _, hd⟩
  | cons s rest ih =>
    rw [List.foldl_cons]
    have hs := hl s (List.mem_cons_self ..)
    have h1 := xmitOne_ok now resent wnd una newSegs st s h (by omega) hs hd
    have h2 := ih (xmitOne now resent wnd una newSegs st s) h1.1
      (fun x hx => hl x (List.mem_cons_of_mem _ hx)) h1.2.2
    exact ⟨h2.1, h1.2.1.trans h2.2.1, h2.2.2⟩

/-! ### Phase 4: admission -/

theorem admitSegs_ok (conv una cwnd now : U32) {n : Nat} (q buf : List Seg) (nxt : U32) (c : Nat)
    (hq : SegsLe n q) (hb : SegsLe n buf) :
    SegsLe n (admitSegs conv una cwnd now q buf nxt c).queue ∧ SegsLe n (admitSegs conv una cwnd now q buf nxt c).buf := by
  induction q generalizing buf nxt c with
  | nil => exact ⟨hq, hb⟩
  | cons s rest ih =>
    unfold admitSegs
    split
    · exact ⟨hq, hb⟩
    · apply ih
      · exact fun x hx => hq x (List.mem_cons_of_mem _ hx)
      · intro x hx
        rcases List.mem_append.mp hx with hx | hx
        · exact hb x hx
        · have : x = { s with conv := conv, cmd := BitVec.ofNat 8 IKCP_CMD_PUSH, sn := nxt, ts := now, resendts := now } := by
            simpa using hx
          subst this
          exact hq s (List.mem_cons_self ..)

/-! ### Phase 2 -/

theorem probePhase_cfg (k : Kcp) (now : U32) :
    (probePhase k now).mtu = k.mtu ∧ (probePhase k now).mss = k.mss ∧ (probePhase k now).bufLen = k.bufLen
      ∧ (probePhase k now).snd_queue = k.snd_queue ∧ (probePhase k now).snd_buf = k.snd_buf := by
  unfold probePhase
  repeat' split
  all_goals exact ⟨rfl, rfl, rfl, rfl, rfl⟩

/-! ### the whole of `flush`, cut into named pieces (`flush_eq` is by `rfl`) -/

/-- Phase 1 -/
def flushAck (k : Kcp) : AckSt :=
  ackFlush (wndUnused k) k.rcv_nxt k.acklist.length k.acklist 0 ⟨{ k := k }, { cmd := BitVec.ofNat 8 IKCP_CMD_ACK }⟩

/-- one of the two window-probe headers of Phase 3 -/
def flushProbeHdr (f : Fl) (bit cmd : Nat) (wnd : BitVec 16) (sc : Scratch) (una : U32) : Fl :=
  if f.k.probe &&& u32 bit ≠ 0 then
    (f.makeSpace IKCP_OVERHEAD).putHdr (encodeHdr f.k.conv (BitVec.ofNat 8 cmd) 0 wnd sc.ts sc.sn una 0)
  else f

/-- Phases 1–3: acknowledgements, probe timer, window probes -/
def flushHead (k : Kcp) (now : U32) : Fl :=
  let a := flushAck k
  let f2 : Fl := { a.f with k := probePhase { a.f.k with acklist := [] } now }
  let f3 := flushProbeHdr f2 IKCP_ASK_SEND IKCP_CMD_WASK (wndUnused k) a.sc k.rcv_nxt
  let f4 := flushProbeHdr f3 IKCP_ASK_TELL IKCP_CMD_WINS (wndUnused k) a.sc k.rcv_nxt
  { f4 with k := { f4.k with probe := 0 } }

/-- the effective window of Phase 4 -/
def flushCwnd (k : Kcp) : U32 :=
  let cw0 := if k.snd_wnd ≤ k.rmt_wnd then k.snd_wnd else k.rmt_wnd
  if k.nocwnd = 0 then (if k.cwnd ≤ cw0 then k.cwnd else cw0) else cw0

def flushAdmit (k : Kcp) (now : U32) : AdmitRes :=
  admitSegs k.conv k.snd_una (flushCwnd k) now k.snd_queue k.snd_buf k.snd_nxt 0

/-- Phase 4 applied to the accumulator -/
def flushMid (f : Fl) (now : U32) : Fl :=
  let ad := flushAdmit f.k now
  { f with k := { f.k with snd_queue := ad.queue, snd_buf := ad.buf, snd_nxt := ad.nxt } }

def flushResent (k : Kcp) : U32 := if k.fastresend.sle 0 then 0xFFFFFFFF#32 else k.fastresend

/-- Phase 5 -/
def flushXmit (f : Fl) (full : Bool) (now : U32) (wnd : BitVec 16) (una : U32) (count : Nat) : XmitSt :=
  if full then f.k.snd_buf.foldl (xmitOne now (flushResent f.k) wnd una count) { f := f, next := f.k.interval }
  else { f := f, done := f.k.snd_buf, next := f.k.interval }

/-- Phase 6: congestion control after the transmission loop -/
def flushCc (k5 : Kcp) (x : XmitSt) (cwnd resent : U32) : Kcp :=
  if k5.nocwnd = 0 then
    let k7 : Kcp := if x.change > 0 then
        let inflight := k5.snd_nxt - k5.snd_una
        let half := inflight / 2
        let ss := if half ≥ u32 IKCP_THRESH_MIN then half else u32 IKCP_THRESH_MIN
        { k5 with ssthresh := ss, cwnd := ss + resent, incr := (ss + resent) * k5.mss }
      else k5
    let k8 : Kcp := if x.lost > 0 then
        let half := cwnd / 2
        { k7 with ssthresh := (if half ≥ u32 IKCP_THRESH_MIN then half else u32 IKCP_THRESH_MIN), cwnd := 1, incr := k7.mss }
      else k7
    if k8.cwnd < 1 then { k8 with cwnd := 1, incr := k8.mss } else k8
  else k5

/-- the accumulator at the end of Phase 5 -/
def flushTail (k : Kcp) (full : Bool) (now : U32) : XmitSt :=
  flushXmit (flushMid (flushHead k now) now) full now (wndUnused k) k.rcv_nxt (flushAdmit (flushHead k now).k now).count

theorem flush_eq (k : Kcp) (full : Bool) (now : U32) :
    flush k full now =
      ⟨flushCc { (flushTail k full now).f.k with snd_buf := (flushTail k full now).done } (flushTail k full now)
          (flushCwnd (flushHead k now).k) (flushResent (flushMid (flushHead k now) now).k),
       if (flushTail k full now).f.cur.length > 0 then (flushTail k full now).f.outs ++ [(flushTail k full now).f.cur]
         else (flushTail k full now).f.outs,
       (flushTail k full now).next, (flushTail k full now).f.panic⟩ := rfl

theorem flushProbeHdr_ok {m : Nat} (hm : IKCP_OVERHEAD ≤ m) {f : Fl} (h : FlOk m f) (bit cmd : Nat) (wnd : BitVec 16)
    (sc : Scratch) (una : U32) :
    FlOk m (flushProbeHdr f bit cmd wnd sc una) ∧ (flushProbeHdr f bit cmd wnd sc una).k = f.k := by
  unfold flushProbeHdr
  split
  · exact ⟨h.emitHdr hm (encodeHdr_length ..), by rw [putHdr_k, makeSpace_k]⟩
  · exact ⟨h, rfl⟩

theorem flushHead_ok (k : Kcp) (now : U32) (h : InvMss k) :
    FlOk k.mtu.toNat (flushHead k now) ∧ (flushHead k now).k.mtu = k.mtu ∧ (flushHead k now).k.mss = k.mss
      ∧ (flushHead k now).k.bufLen = k.bufLen ∧ (flushHead k now).k.snd_queue = k.snd_queue
      ∧ (flushHead k now).k.snd_buf = k.snd_buf := by
  have hm : IKCP_OVERHEAD ≤ k.mtu.toNat := Nat.le_of_lt h.mtu_gt
  have h0 : FlOk k.mtu.toNat ({ k := k } : Fl) :=
    ⟨rfl, h.buf, Nat.zero_le _, (by intro o ho; cases ho), rfl⟩
  have ha : FlOk k.mtu.toNat (flushAck k).f ∧ (flushAck k).f.k = k :=
    ackFlush_ok (wndUnused k) k.rcv_nxt k.acklist.length hm k.acklist 0
      ⟨{ k := k }, { cmd := BitVec.ofNat 8 IKCP_CMD_ACK }⟩ h0
  unfold flushHead
  generalize flushAck k = a at ha ⊢
  obtain ⟨ha1, ha2⟩ := ha
  have hp := probePhase_cfg { a.f.k with acklist := [] } now
  have hf2 : FlOk k.mtu.toNat { a.f with k := probePhase { a.f.k with acklist := [] } now } :=
    ha1.setK hp.1 hp.2.2.1
  have s3 := flushProbeHdr_ok hm hf2 IKCP_ASK_SEND IKCP_CMD_WASK (wndUnused k) a.sc k.rcv_nxt
  have s4 := flushProbeHdr_ok hm s3.1 IKCP_ASK_TELL IKCP_CMD_WINS (wndUnused k) a.sc k.rcv_nxt
  refine ⟨s4.1.setK rfl rfl, ?_⟩
  simp only []
  rw [s4.2, s3.2]
  simp only []
  rw [hp.1, hp.2.1, hp.2.2.1, hp.2.2.2.1, hp.2.2.2.2]
  simp only []
  rw [ha2]
  exact ⟨rfl, rfl, rfl, rfl, rfl⟩

theorem flushCc_cfg (k5 : Kcp) (x : XmitSt) (cwnd resent : U32) :
    (flushCc k5 x cwnd resent).mtu = k5.mtu ∧ (flushCc k5 x cwnd resent).mss = k5.mss
      ∧ (flushCc k5 x cwnd resent).bufLen = k5.bufLen ∧ (flushCc k5 x cwnd resent).snd_queue = k5.snd_queue
      ∧ (flushCc k5 x cwnd resent).snd_buf = k5.snd_buf := by
  unfold flushCc
  simp only []
  repeat' split
  all_goals exact ⟨rfl, rfl, rfl, rfl, rfl⟩

theorem flushTail_ok (k : Kcp) (full : Bool) (now : U32) (h : InvMss k) :
    FlOk k.mtu.toNat (flushTail k full now).f ∧ (flushTail k full now).f.k.mtu = k.mtu
      ∧ (flushTail k full now).f.k.mss = k.mss ∧ (flushTail k full now).f.k.bufLen = k.bufLen
      ∧ SegsLe k.mss.toNat (flushTail k full now).f.k.snd_queue ∧ SegsLe k.mss.toNat (flushTail k full now).done := by
  have hmss := h.mss_toNat
  have hnm : IKCP_OVERHEAD + k.mss.toNat ≤ k.mtu.toNat := by have := h.mtu_gt; omega
  obtain ⟨hf5, h5mtu, h5mss, h5buf, h5q, h5b⟩ := flushHead_ok k now h
  unfold flushTail
  generalize flushHead k now = f5 at *
  have had := admitSegs_ok f5.k.conv f5.k.snd_una (flushCwnd f5.k) now (n := k.mss.toNat) f5.k.snd_queue f5.k.snd_buf
    f5.k.snd_nxt 0 (by rw [h5q]; exact h.segs_queue) (by rw [h5b]; exact h.segs_buf)
  have hf6 : FlOk k.mtu.toNat (flushMid f5 now) := hf5.setK rfl rfl
  have h6q : (flushMid f5 now).k.snd_queue = (flushAdmit f5.k now).queue := rfl
  have h6b : (flushMid f5 now).k.snd_buf = (flushAdmit f5.k now).buf := rfl
  have h6mtu : (flushMid f5 now).k.mtu = k.mtu := h5mtu
  have h6mss : (flushMid f5 now).k.mss = k.mss := h5mss
  have h6buf : (flushMid f5 now).k.bufLen = k.bufLen := h5buf
  generalize flushMid f5 now = f6 at *
  generalize (flushAdmit f5.k now).count = cnt
  have hx : FlOk k.mtu.toNat (flushXmit f6 full now (wndUnused k) k.rcv_nxt cnt).f
      ∧ CfgEq f6.k (flushXmit f6 full now (wndUnused k) k.rcv_nxt cnt).f.k
      ∧ SegsLe k.mss.toNat (flushXmit f6 full now (wndUnused k) k.rcv_nxt cnt).done := by
    unfold flushXmit
    split
    · exact xmitFold_ok now (flushResent f6.k) (wndUnused k) k.rcv_nxt cnt f6.k.snd_buf
        { f := f6, next := f6.k.interval } hf6 (by rw [h6b]; exact had.2) hnm (by intro s hs; cases hs)
    · exact ⟨hf6, CfgEq.refl _, by show SegsLe _ f6.k.snd_buf; rw [h6b]; exact had.2⟩
  obtain ⟨hx1, hx2, hx3⟩ := hx
  refine ⟨hx1, hx2.1.trans h6mtu, hx2.2.1.trans h6mss, hx2.2.2.1.trans h6buf, ?_, hx3⟩
  rw [hx2.2.2.2.1, h6q]; exact had.1

theorem flush_ok (k : Kcp) (full : Bool) (now : U32) (h : InvMss k) :
    (flush k full now).panic = false
      ∧ (∀ o ∈ (flush k full now).outs, 0 < o.length ∧ o.length ≤ k.mtu.toNat)
      ∧ InvMss (flush k full now).k ∧ (flush k full now).k.mtu = k.mtu := by
  obtain ⟨hf, hmtu, hmss, hbuf, hq, hd⟩ := flushTail_ok k full now h
  rw [flush_eq]
  generalize flushTail k full now = x at *
  refine ⟨hf.panic, ?_, ?_, ?_⟩
  · intro o ho
    simp only [] at ho
    split at ho
    · rename_i hc
      rcases List.mem_append.mp ho with ho | ho
      · exact hf.outs o ho
      · have : o = x.f.cur := by simpa using ho
        subst this
        exact ⟨hc, hf.cur⟩
    · exact hf.outs o ho
  · have hc := flushCc_cfg { x.f.k with snd_buf := x.done } x (flushCwnd (flushHead k now).k)
      (flushResent (flushMid (flushHead k now) now).k)
    simp only []
    refine h.of_cfg (hc.1.trans hmtu) (hc.2.1.trans hmss) (hc.2.2.1.trans hbuf) ?_ ?_
    · rw [hc.2.2.2.1]; exact hq
    · rw [hc.2.2.2.2]; exact hd
  · exact (flushCc_cfg { x.f.k with snd_buf := x.done } x (flushCwnd (flushHead k now).k)
      (flushResent (flushMid (flushHead k now) now).k)).1.trans hmtu

end KcpVerif.Lemmas.KcpFlush
