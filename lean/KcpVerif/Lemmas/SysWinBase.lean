/-
Window bookkeeping for the clean path (C18 Tier 2), per-endpoint part:

* the frame encoding is injective on frames whose payload fits a pool buffer (so the ghost frame
  lists of the system invariant are determined by the datagrams in flight);
* `parse_una` on a contiguous send buffer sets `snd_una` to exactly the `una` it is given;
* a datagram all of whose frames carry the same `(una, wnd)` leaves A with exactly that pair;
* phase 4 never moves `snd_nxt` to or beyond `snd_una + cwnd`, and `cwnd ≤ min(snd_wnd, rmt_wnd)`;
* `wnd_unused` never advertises more than the room left in the receive queue; `Recv` only shortens
  the receive queue (empty reorder buffer).
-/
import KcpVerif.Lemmas.SysCleanRun

namespace KcpVerif.SysC
open KcpVerif KcpVerif.Gen KcpVerif.Kcp KcpVerif.Live KcpVerif.Wire KcpVerif.SysW KcpVerif.Sys

/-! ### the encoding is injective -/

theorem encFrame_app_inj (f g : Frm) (r1 r2 : Bytes) (hf : f.data.length ≤ mtuLimit) (hg : g.data.length ≤ mtuLimit)
    (h : encFrame f ++ r1 = encFrame g ++ r2) : f = g ∧ r1 = r2 := by
  obtain ⟨a1, a2, a3, a4, a5, a6, a7, a8, a9⟩ := hdr_reads f r1 hf
  obtain ⟨b1, b2, b3, b4, b5, b6, b7, b8, b9⟩ := hdr_reads g r2 hg
  rw [h] at a1 a2 a3 a4 a5 a6 a7 a8 a9
  have hl : f.data.length = g.data.length := by rw [← a8, b8]
  have hd : f.data ++ r1 = g.data ++ r2 := a9.symm.trans b9
  obtain ⟨hd1, hd2⟩ := List.append_inj hd hl
  refine ⟨?_, hd2⟩
  cases f; cases g
  simp only [Frm.mk.injEq]
  simp only at a1 a2 a3 a4 a5 a6 a7 b1 b2 b3 b4 b5 b6 b7 hd1
  exact ⟨a1.symm.trans b1, a2.symm.trans b2, a3.symm.trans b3, a4.symm.trans b4, a5.symm.trans b5,
    a6.symm.trans b6, a7.symm.trans b7, hd1⟩

theorem encFrames_inj : ∀ (a b : List Frm), (∀ f ∈ a, f.data.length ≤ mtuLimit) → (∀ f ∈ b, f.data.length ≤ mtuLimit) →
    encFrames a = encFrames b → a = b := by
  intro a
  induction a with
  | nil =>
    intro b _ _ h
    exact (encFrames_eq_nil b h.symm).symm
  | cons f r ih =>
    intro b ha hb h
    cases b with
    | nil => exact encFrames_eq_nil _ h
    | cons g r' =>
      rw [encFrames_cons, encFrames_cons] at h
      obtain ⟨e1, e2⟩ := encFrame_app_inj f g _ _ (ha f (List.mem_cons_self ..)) (hb g (List.mem_cons_self ..)) h
      rw [e1, ih r' (fun x hx => ha x (List.mem_cons_of_mem _ hx)) (fun x hx => hb x (List.mem_cons_of_mem _ hx)) e2]

theorem encL_inj : ∀ (a b : GLink), (∀ d ∈ a, ∀ f ∈ d.2, f.data.length ≤ mtuLimit) →
    (∀ d ∈ b, ∀ f ∈ d.2, f.data.length ≤ mtuLimit) → encL a = encL b → a = b := by
  intro a
  induction a with
  | nil =>
    intro b _ _ h
    cases b with
    | nil => rfl
    | cons d r => simp [encL] at h
  | cons d r ih =>
    intro b ha hb h
    cases b with
    | nil => simp [encL] at h
    | cons e r' =>
      simp only [encL, List.map_cons, List.cons.injEq, Dgram.mk.injEq] at h
      obtain ⟨⟨h1, h2⟩, h3⟩ := h
      have e2 := encFrames_inj d.2 e.2 (ha d (List.mem_cons_self ..)) (hb e (List.mem_cons_self ..)) h2
      have : d = e := Prod.ext h1 e2
      rw [this, ih r' (fun x hx => ha x (List.mem_cons_of_mem _ hx)) (fun x hx => hb x (List.mem_cons_of_mem _ hx)) h3]

/-! ### `parse_una` on a contiguous send buffer -/

/-- the send buffer holds exactly the sequence numbers `snd_una … snd_nxt − 1`, in order -/
def Contig (base : U32) (k : Kcp) : Prop :=
  k.snd_buf.map (fun x => o base x.sn) = List.range' (o base k.snd_una) k.snd_buf.length ∧
  o base k.snd_una + k.snd_buf.length = o base k.snd_nxt

theorem unaCount_contig (base u : U32) : ∀ (l : List Seg) (a : Nat),
    l.map (fun x => o base x.sn) = List.range' a l.length → a ≤ o base u → o base u ≤ a + l.length →
    a + l.length < 2 ^ 31 → unaCount u l = o base u - a := by
  intro l
  induction l with
  | nil => intro a _ h1 h2 _; simp only [List.length_nil] at h2; simp [unaCount]; omega
  | cons s rest ih =>
    intro a hm h1 h2 h3
    simp only [List.map_cons, List.length_cons, List.range'_succ, List.cons.injEq] at hm h2 h3
    have hi := itd base u s.sn (by omega) (by rw [hm.1]; omega)
    unfold unaCount
    split
    · rw [ih (a + 1) hm.2 (by omega) (by omega) (by omega)]; omega
    · omega

theorem inPre_contig (base : U32) (w : BitVec 16) (u : U32) (k : Kcp) (hna : ∀ x ∈ k.snd_buf, x.acked = false)
    (hc : Contig base k)
    (h1 : o base k.snd_una ≤ o base u) (h2 : o base u ≤ o base k.snd_nxt) (h3 : o base k.snd_nxt < 2 ^ 31) :
    (inPre true w u k).snd_una = u ∧ Contig base (inPre true w u k) ∧
    (inPre true w u k).rmt_wnd = w.setWidth 32 ∧ (inPre true w u k).snd_nxt = k.snd_nxt ∧
    (inPre true w u k).snd_wnd = k.snd_wnd ∧ (∀ x ∈ (inPre true w u k).snd_buf, x ∈ k.snd_buf) := by
  have hcnt := unaCount_contig base u k.snd_buf (o base k.snd_una) hc.1 h1 (by have := hc.2; omega)
    (by have := hc.2; omega)
  have hdrop : (k.snd_buf.drop (unaCount u k.snd_buf)).map (fun x => o base x.sn) =
      List.range' (o base u) (k.snd_buf.length - (o base u - o base k.snd_una)) := by
    rw [List.map_drop, hc.1, hcnt, List.drop_range']
    congr 1; omega
  have hsu : (match k.snd_buf.drop (unaCount u k.snd_buf) with | s :: _ => s.sn | [] => k.snd_nxt) = u := by
    cases hd : k.snd_buf.drop (unaCount u k.snd_buf) with
    | nil =>
      simp only
      rw [hd] at hdrop
      have hl := congrArg List.length hdrop
      simp only [List.map_nil, List.length_nil, List.length_range'] at hl
      apply o_inj base
      have := hc.2
      omega
    | cons s t =>
      simp only
      rw [hd] at hdrop
      have hl := congrArg List.length hdrop
      simp only [List.map_cons, List.length_cons, List.length_range'] at hl
      have : k.snd_buf.length - (o base u - o base k.snd_una) = (k.snd_buf.length - (o base u - o base k.snd_una) - 1) + 1 := by
        omega
      rw [this, List.map_cons, List.range'_succ, List.cons.injEq] at hdrop
      exact o_inj base _ _ hdrop.1
  rw [inPre_true w u k hna]
  refine ⟨hsu, ⟨?_, ?_⟩, rfl, rfl, rfl, fun x hx => List.mem_of_mem_drop hx⟩
  · show (k.snd_buf.drop (unaCount u k.snd_buf)).map _ = List.range' (o base (match k.snd_buf.drop (unaCount u k.snd_buf) with
      | s :: _ => s.sn | [] => k.snd_nxt)) (k.snd_buf.drop (unaCount u k.snd_buf)).length
    rw [hsu, hdrop, List.length_drop, hcnt]
  · show o base (match k.snd_buf.drop (unaCount u k.snd_buf) with | s :: _ => s.sn | [] => k.snd_nxt) +
      (k.snd_buf.drop (unaCount u k.snd_buf)).length = o base k.snd_nxt
    rw [hsu, List.length_drop, hcnt]
    have := hc.2
    omega

/-- what one ACK / WASK / WINS frame leaves of the fields the window bookkeeping reads -/
theorem inFr_win (base : U32) (st : InLoop) (fr : Frm) (hna : ∀ x ∈ st.k.snd_buf, x.acked = false)
    (hc : Contig base st.k)
    (h1 : o base st.k.snd_una ≤ o base fr.una) (h3 : o base st.k.snd_nxt < 2 ^ 31)
    (hf : AckLike base st.k.snd_nxt fr) :
    (inFr true st fr).k.snd_una = fr.una ∧ Contig base (inFr true st fr).k ∧
    (inFr true st fr).k.rmt_wnd = fr.wnd.setWidth 32 ∧ (inFr true st fr).k.snd_nxt = st.k.snd_nxt ∧
    (inFr true st fr).k.snd_wnd = st.k.snd_wnd ∧ (inFr true st fr).panic = st.panic ∧
    (∀ x ∈ (inFr true st fr).k.snd_buf, x ∈ st.k.snd_buf) := by
  obtain ⟨hcmd, hu, hack⟩ := hf
  obtain ⟨p1, p2, p3, p4, p5, p6⟩ := inPre_contig base fr.wnd fr.una st.k hna hc h1 hu h3
  have hK : (inFr true st fr).k = inPre true fr.wnd fr.una st.k ∨
      ∃ pr, (inFr true st fr).k = { inPre true fr.wnd fr.una st.k with probe := pr } := by
    unfold inFr
    rw [inStep_k]
    by_cases hA : fr.cmd.toNat = IKCP_CMD_ACK
    · rw [if_pos hA]
      have hno := ack_noop base (inPre true fr.wnd fr.una st.k) fr.sn fr.ts
        (by rw [p1]; exact hack hA) (by rw [p1]; omega)
      rw [hno.1, inPre_shrunk, hno.2]
      exact Or.inl rfl
    · rw [if_neg hA]
      have hP : ¬ fr.cmd.toNat = IKCP_CMD_PUSH := by
        unfold IKCP_CMD_PUSH; unfold IKCP_CMD_ACK IKCP_CMD_WASK IKCP_CMD_WINS at hcmd; omega
      rw [if_neg hP]
      split
      · exact Or.inr ⟨_, rfl⟩
      · exact Or.inl rfl
  have hpan : (inFr true st fr).panic = st.panic := by
    unfold inFr
    rw [inStep_eq]
    by_cases hA : fr.cmd.toNat = IKCP_CMD_ACK
    · rw [if_pos hA]
    · rw [if_neg hA]
      have hP : ¬ fr.cmd.toNat = IKCP_CMD_PUSH := by
        unfold IKCP_CMD_PUSH; unfold IKCP_CMD_ACK IKCP_CMD_WASK IKCP_CMD_WINS at hcmd; omega
      rw [if_neg hP]
      split <;> rfl
  rcases hK with hK | ⟨pr, hK⟩
  · rw [hK]; exact ⟨p1, p2, p3, p4, p5, hpan, p6⟩
  · rw [hK]; exact ⟨p1, p2, p3, p4, p5, hpan, p6⟩

/-- a non-empty datagram whose frames all carry the same `(una, wnd)` -/
theorem inFrs_win (base u : U32) (w : BitVec 16) (frs : List Frm) : ∀ (st : InLoop), frs ≠ [] →
    (∀ x ∈ st.k.snd_buf, x.acked = false) → Contig base st.k →
    o base st.k.snd_una ≤ o base u → o base st.k.snd_nxt < 2 ^ 31 → st.panic = false →
    (∀ fr ∈ frs, AckLike base st.k.snd_nxt fr ∧ fr.una = u ∧ fr.wnd = w) →
    (inFrs true frs st).k.snd_una = u ∧ Contig base (inFrs true frs st).k ∧
    (inFrs true frs st).k.rmt_wnd = w.setWidth 32 ∧ (inFrs true frs st).k.snd_nxt = st.k.snd_nxt ∧
    (inFrs true frs st).k.snd_wnd = st.k.snd_wnd := by
  induction frs with
  | nil => intro st h; exact absurd rfl h
  | cons fr rest ih =>
    intro st _ hna hc h1 h3 hp hall
    obtain ⟨ha, hu, hw⟩ := hall fr (List.mem_cons_self ..)
    obtain ⟨q1, q2, q3, q4, q5, q6, q7⟩ := inFr_win base st fr hna hc (by rw [hu]; exact h1) h3 ha
    unfold inFrs
    rw [if_neg (by rw [q6, hp]; simp)]
    cases rest with
    | nil =>
      unfold inFrs
      exact ⟨by rw [q1, hu], q2, by rw [q3, hw], q4, q5⟩
    | cons f2 r2 =>
      obtain ⟨r1, r2', r3, r4, r5⟩ := ih (inFr true st fr) (by simp) (fun x hx => hna x (q7 x hx)) q2
        (by rw [q1, hu]; exact Nat.le_refl _)
        (by rw [q4]; exact h3) (by rw [q6]; exact hp)
        (fun x hx => by rw [q4]; exact hall x (List.mem_cons_of_mem _ hx))
      exact ⟨r1, r2', r3, by rw [r4, q4], by rw [r5, q5]⟩

/-! ### phase 4 never passes `snd_una + cwnd` -/

theorem admit_nxt_bound (conv una cwnd now : U32) : ∀ (q buf : List Seg) (nxt : U32) (c : Nat),
    (admitSegs conv una cwnd now q buf nxt c).nxt = nxt ∨
    itimediff ((admitSegs conv una cwnd now q buf nxt c).nxt - 1) (una + cwnd) < 0 := by
  intro q
  induction q with
  | nil => intro buf nxt c; exact Or.inl rfl
  | cons s rest ih =>
    intro buf nxt c
    unfold admitSegs
    split
    · exact Or.inl rfl
    · rename_i hc
      rcases ih (buf ++ [{ s with conv := conv, cmd := BitVec.ofNat 8 IKCP_CMD_PUSH, sn := nxt, ts := now, resendts := now }])
        (nxt + 1) (c + 1) with h | h
      · right
        rw [h]
        have : nxt + 1 - 1 = nxt := by bv_omega
        rw [this]; omega
      · exact Or.inr h

theorem effWnd_le (k : Kcp) : (effWnd k).toNat ≤ min k.snd_wnd.toNat k.rmt_wnd.toNat := by
  unfold effWnd
  repeat' split
  all_goals (simp only [BitVec.le_def] at *; omega)

/-- after a FULL flush, `snd_nxt` is where it was or within `snd_una + min(snd_wnd, rmt_wnd)` -/
theorem flush_nxt_bound (base : U32) (k : Kcp) (now : U32) (hu : o base k.snd_una ≤ o base k.snd_nxt)
    (hn : o base (flush k true now).k.snd_nxt < 2 ^ 31) (hn0 : o base k.snd_nxt ≤ o base (flush k true now).k.snd_nxt)
    (hs : o base k.snd_una + min k.snd_wnd.toNat k.rmt_wnd.toNat < 2 ^ 32) :
    (flush k true now).k.snd_nxt = k.snd_nxt ∨
    o base (flush k true now).k.snd_nxt ≤ o base k.snd_una + min k.snd_wnd.toNat k.rmt_wnd.toNat := by
  obtain ⟨pw, tp, st, ss, cw, inc, hk⟩ := flush_frame k true now
  obtain ⟨pw3, tp3, h3⟩ := flF3_frame k now
  have e1 : (flush k true now).k.snd_nxt = (flAd k now).nxt := by rw [hk]
  have e2 : effWnd (flF3 k now).k = effWnd k := by rw [h3]; rfl
  have e3 : (flF3 k now).k.snd_una = k.snd_una := by rw [h3]
  have e4 : (flF3 k now).k.snd_nxt = k.snd_nxt := by rw [h3]
  rw [e1] at hn hn0 ⊢
  have hb : (flAd k now).nxt = (flF3 k now).k.snd_nxt ∨
      itimediff ((flAd k now).nxt - 1) ((flF3 k now).k.snd_una + effWnd (flF3 k now).k) < 0 :=
    admit_nxt_bound (flF3 k now).k.conv (flF3 k now).k.snd_una (effWnd (flF3 k now).k) now
      (flF3 k now).k.snd_queue (flF3 k now).k.snd_buf (flF3 k now).k.snd_nxt 0
  rw [e2, e3, e4] at hb
  rcases hb with hb | hb
  · exact Or.inl hb
  · by_cases hz : (flAd k now).nxt = k.snd_nxt
    · exact Or.inl hz
    · right
      have hb' : itimediff ((flAd k now).nxt - 1) (k.snd_una + effWnd k) < 0 := hb
      have hle := effWnd_le k
      have hpos : 0 < o base (flAd k now).nxt := by
        have : o base (flAd k now).nxt ≠ o base k.snd_nxt := fun c => hz (o_inj base _ _ c)
        omega
      have ho1 : o base ((flAd k now).nxt - 1) = o base (flAd k now).nxt - 1 := by
        unfold o at *; bv_omega
      have ho2 : o base (k.snd_una + effWnd k) = o base k.snd_una + (effWnd k).toNat := by
        have := o_add base k.snd_una (effWnd k).toNat (by omega)
        unfold u32 at this
        rw [BitVec.ofNat_toNat, BitVec.setWidth_eq] at this
        exact this
      -- the signed comparison, by hand
      unfold itimediff at hb'
      rw [BitVec.toInt_eq_toNat_cond] at hb'
      have hsub : ((flAd k now).nxt - 1 - (k.snd_una + effWnd k)).toNat =
          (o base ((flAd k now).nxt - 1) + 2 ^ 32 - o base (k.snd_una + effWnd k)) % 2 ^ 32 := by
        unfold o; bv_omega
      rw [hsub, ho1, ho2] at hb'
      split at hb' <;> omega

/-! ### the receiver's side -/

theorem wndUnused_le (k : Kcp) : (wndUnused k).toNat + k.rcv_queue.length ≤ max k.rcv_wnd.toNat k.rcv_queue.length := by
  unfold wndUnused
  split
  · rw [BitVec.toNat_ofNat]
    have : (k.rcv_wnd.toNat - k.rcv_queue.length) % 2 ^ 16 ≤ k.rcv_wnd.toNat - k.rcv_queue.length := Nat.mod_le _ _
    omega
  · simp; omega

theorem popMsg_rest_le : ∀ (q : List Seg), (popMsg q).rest.length ≤ q.length := by
  intro q
  induction q with
  | nil => simp [popMsg]
  | cons s r ih =>
    unfold popMsg
    split
    · simp
    · simp only [List.length_cons]; omega

theorem recv_queue_le (k : Kcp) (n : Nat) (hrb : k.rcv_buf = []) :
    (recv k n).k.rcv_queue.length ≤ k.rcv_queue.length ∧ (recv k n).k.rcv_nxt = k.rcv_nxt ∧
    (recv k n).k.rcv_wnd = k.rcv_wnd := by
  unfold recv
  simp only []
  split; · exact ⟨Nat.le_refl _, rfl, rfl⟩
  split; · exact ⟨Nat.le_refl _, rfl, rfl⟩
  unfold moveReady
  simp only [hrb, moveLoop]
  split
  · exact ⟨popMsg_rest_le _, rfl, rfl⟩
  · exact ⟨popMsg_rest_le _, rfl, rfl⟩

end KcpVerif.SysC
