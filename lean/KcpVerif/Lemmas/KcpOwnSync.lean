/-
C15 (ownership, protocol core): erasure.  Forgetting the buffer ids of the instrumented queues of
`Model/KcpOwn` gives exactly the queues of the model state the instrumented operation computes
(`Sync`), for every operation with arbitrary arguments; and the model state IS the one the
un-instrumented model computes (`*_k` lemmas).  Core Lean only.
-/
import KcpVerif.Lemmas.KcpOwnCount

namespace KcpVerif.Own
open KcpVerif KcpVerif.Gen KcpVerif.Kcp KcpVerif.Pool

/-! ### list level -/

theorem er_nil : er [] = [] := rfl
theorem er_cons (x : SegO) (l : List SegO) : er (x :: l) = x.s :: er l := rfl
theorem er_append (a b : List SegO) : er (a ++ b) = er a ++ er b := List.map_append
theorem er_length (l : List SegO) : (er l).length = l.length := List.length_map _
theorem er_drop (l : List SegO) (n : Nat) : er (l.drop n) = (er l).drop n := List.map_drop
theorem er_take (l : List SegO) (n : Nat) : er (l.take n) = (er l).take n := List.map_take

theorem er_reattach (new : List Seg) (old : List SegO) (h : new.length = old.length) :
    er (reattach new old) = new := by
  induction new generalizing old with
  | nil => cases old with
    | nil => rfl
    | cons x old => simp at h
  | cons s new ih => cases old with
    | nil => simp at h
    | cons x old =>
      simp only [List.length_cons, Nat.add_right_cancel_iff] at h
      show s :: er (reattach new old) = s :: new
      rw [ih old h]

theorem popMsgO_er (l : List SegO) (g : Ghost) : er (popMsgO l g).rest = (popMsg (er l)).rest := by
  induction l generalizing g with
  | nil => rfl
  | cons x rest ih =>
    rw [er_cons]
    unfold popMsgO popMsg
    split
    · rfl
    · exact ih _

theorem moveLoopO_er (wnd : Nat) (buf q : List SegO) (nxt : U32) :
    er (moveLoopO wnd buf q nxt).buf = (moveLoop wnd (er buf) (er q) nxt).buf ∧
    er (moveLoopO wnd buf q nxt).q = (moveLoop wnd (er buf) (er q) nxt).q := by
  induction buf generalizing q nxt with
  | nil => exact ⟨rfl, rfl⟩
  | cons x rest ih =>
    rw [er_cons]
    unfold moveLoopO moveLoop
    rw [er_length]
    split
    · have := ih (q ++ [x]) (nxt + 1)
      rw [er_append] at this
      exact this
    · exact ⟨rfl, rfl⟩

theorem mkSegsO_er (mss : Nat) (stream : Bool) (n : Nat) (buf : Bytes) (g : Ghost) :
    er (mkSegsO mss stream n buf g).l = mkSegs mss stream n buf := by
  induction n generalizing buf g with
  | zero => rfl
  | succ c ih =>
    unfold mkSegsO mkSegs
    rw [er_cons, ih]

theorem er_getLast? (q : List SegO) : (er q).getLast? = q.getLast?.map (·.s) := List.getLast?_map

theorem appendLastO_er (q : List SegO) (extra : Bytes) :
    er (appendLastO q extra) =
      match (er q).getLast? with
      | some s => setLast (er q) { s with data := s.data ++ extra }
      | none => er q := by
  unfold appendLastO
  rw [er_getLast?]
  cases hq : q.getLast? with
  | none => rfl
  | some x =>
    simp only [Option.map_some]
    unfold setLast
    rw [er_append]
    show er q.dropLast ++ _ = (er q).dropLast ++ _
    unfold er
    rw [List.map_dropLast]
    rfl

theorem unaO_er (una : U32) (l : List SegO) (g : Ghost) :
    er (unaO una l g).l = (er l).drop (unaCount una (er l)) := by
  induction l generalizing g with
  | nil => rfl
  | cons x rest ih =>
    rw [er_cons]
    unfold unaO unaCount
    split
    · rw [ih]; rfl
    · rfl

theorem dropAckedO_er (l : List SegO) (g : Ghost) : er (dropAckedO l g).l = dropAcked (er l) := by
  induction l generalizing g with
  | nil => rfl
  | cons x rest ih =>
    rw [er_cons]
    unfold dropAckedO dropAcked
    split
    · exact ih _
    · rfl

theorem ackLoopO_er (sn : U32) (l : List SegO) (g : Ghost) : er (ackLoopO sn l g).l = ackLoop sn (er l) := by
  induction l generalizing g with
  | nil => rfl
  | cons x rest ih =>
    rw [er_cons]
    unfold ackLoopO ackLoop
    split
    · rfl
    · split
      · rfl
      · show x.s :: er (ackLoopO sn rest g).l = _
        rw [ih]

theorem heapInsertO_er (x : SegO) (l : List SegO) : er (heapInsertO x l) = heapInsert x.s (er l) := by
  induction l with
  | nil => rfl
  | cons h t ih =>
    rw [er_cons]
    unfold heapInsertO heapInsert
    split
    · rfl
    · rw [er_cons, ih]

theorem any_er (l : List SegO) (sn : U32) :
    l.any (fun x => decide (x.s.sn = sn)) = (er l).any (fun x => decide (x.sn = sn)) := by
  unfold er; rw [List.any_map]; rfl

theorem fastLoop_length (sn ts fr : U32) (l : List Seg) : (fastLoop sn ts fr l).buf.length = l.length := by
  induction l with
  | nil => rfl
  | cons s rest ih =>
    unfold fastLoop
    split
    · rfl
    · split
      · simp only [List.length_cons, ih]
      · simp only [List.length_cons, ih]

theorem ackLoop_length (sn : U32) (l : List Seg) : (ackLoop sn l).length = l.length := by
  induction l with
  | nil => rfl
  | cons s rest ih =>
    unfold ackLoop
    split
    · rfl
    · split
      · rfl
      · simp only [List.length_cons, ih]

/-- phase 4 of flush moves a prefix of snd_queue to the end of snd_buf -/
theorem admitSegs_shape (conv una cwnd now : U32) (q buf : List Seg) (nxt : U32) (c : Nat) :
    ∃ n, (admitSegs conv una cwnd now q buf nxt c).count = c + n ∧ n ≤ q.length ∧
      (admitSegs conv una cwnd now q buf nxt c).queue = q.drop n ∧
      (admitSegs conv una cwnd now q buf nxt c).buf.length = buf.length + n := by
  induction q generalizing buf nxt c with
  | nil => exact ⟨0, rfl, Nat.le_refl _, rfl, rfl⟩
  | cons s rest ih =>
    unfold admitSegs
    split
    · exact ⟨0, rfl, Nat.zero_le _, rfl, rfl⟩
    · obtain ⟨n, h1, h2, h3, h4⟩ := ih (buf ++ [{ s with conv := conv, cmd := BitVec.ofNat 8 IKCP_CMD_PUSH, sn := nxt, ts := now, resendts := now }]) (nxt + 1) (c + 1)
      refine ⟨n + 1, ?_, ?_, ?_, ?_⟩
      · rw [h1]; omega
      · simp only [List.length_cons]; omega
      · rw [h3]; rfl
      · rw [h4]; simp only [List.length_append, List.length_cons, List.length_nil]; omega

/-! ### the instrumented state is in step with the model state -/

structure Sync (o : KcpO) : Prop where
  sq : o.k.snd_queue = er o.sq
  sb : o.k.snd_buf = er o.sb
  rb : o.k.rcv_buf = er o.rb
  rq : o.k.rcv_queue = er o.rq

theorem Sync.new (conv : U32) : Sync (KcpO.new conv) := ⟨rfl, rfl, rfl, rfl⟩

/-- an operation that leaves the four queues of `k` alone -/
theorem Sync.setK {o : KcpO} (h : Sync o) {k' : Kcp} (h1 : k'.snd_queue = o.k.snd_queue)
    (h2 : k'.snd_buf = o.k.snd_buf) (h3 : k'.rcv_buf = o.k.rcv_buf) (h4 : k'.rcv_queue = o.k.rcv_queue) :
    Sync { o with k := k' } :=
  ⟨h1.trans h.sq, h2.trans h.sb, h3.trans h.rb, h4.trans h.rq⟩

/-! ### Recv -/

theorem recvO_k (o : KcpO) (n : Nat) : (recvO o n).o.k = (o.k.recv n).k := by
  unfold recvO
  simp only []
  split
  · rename_i h; unfold recv; simp only []; rw [if_pos h]
  · split
    · rename_i h1 h2; unfold recv; simp only []; rw [if_neg h1, if_pos h2]
    · rfl

theorem recvO_sync {o : KcpO} (h : Sync o) (n : Nat) : Sync (recvO o n).o := by
  unfold recvO
  simp only []
  split
  · exact h
  · split
    · exact h
    · rename_i h1 h2
      have hm := moveLoopO_er o.k.rcv_wnd.toNat o.rb (popMsgO o.rq o.gh).rest o.k.rcv_nxt
      rw [popMsgO_er, ← h.rb, ← h.rq] at hm
      unfold recv
      simp only []
      rw [if_neg h1, if_neg h2]
      unfold moveReady
      simp only []
      constructor
      · split <;> exact h.sq
      · split <;> exact h.sb
      · split <;> exact hm.1.symm
      · split <;> exact hm.2.symm

/-! ### Send -/

theorem sendQ1_er {o : KcpO} (h : Sync o) (b : Bytes) (ext : Nat) :
    sendQ1 o.k b ext = er (if ext > 0 then appendLastO o.sq (b.take ext) else o.sq) := by
  unfold sendQ1
  split
  · rw [appendLastO_er, ← h.sq]; rfl
  · exact h.sq

theorem sendO_k (o : KcpO) (b : Bytes) : (sendO o b).o.k = (o.k.send b).k := by
  unfold sendO
  simp only []
  by_cases c1 : b.length = 0
  · rw [if_pos c1, send_eq, if_pos c1]
  rw [if_neg c1]
  by_cases c4 : sendCount (b.drop (sendExt o.k b)) o.k.mss.toNat > 255
  · rw [if_pos c4, send_eq, if_neg c1, if_pos c4]
  rw [if_neg c4]
  by_cases c2 : sendPanic1 o.k (sendExt o.k b) = true
  · rw [if_pos c2, send_eq, if_neg c1, if_neg c4, if_pos c2]
  rw [if_neg c2]
  split
  · rfl
  · split <;> rfl

theorem sendO_sync {o : KcpO} (h : Sync o) (b : Bytes) : Sync (sendO o b).o := by
  unfold sendO
  simp only []
  by_cases c1 : b.length = 0
  · rw [if_pos c1]; exact h
  rw [if_neg c1]
  by_cases c4 : sendCount (b.drop (sendExt o.k b)) o.k.mss.toNat > 255
  · rw [if_pos c4]; exact h
  rw [if_neg c4]
  by_cases c2 : sendPanic1 o.k (sendExt o.k b) = true
  · rw [if_pos c2]; exact h
  rw [if_neg c2]
  have hq := sendQ1_er h b (sendExt o.k b)
  by_cases c3 : o.k.stream ≠ 0 ∧ (b.drop (sendExt o.k b)).length = 0
  · rw [if_pos c3]
    have hk : (o.k.send b).k = { o.k with snd_queue := sendQ1 o.k b (sendExt o.k b) } := by
      rw [send_eq, if_neg c1, if_neg c4, if_neg c2, if_pos c3]
    exact ⟨by rw [hk]; exact hq, by rw [hk]; exact h.sb, by rw [hk]; exact h.rb, by rw [hk]; exact h.rq⟩
  rw [if_neg c3]
  by_cases c5 : min (b.drop (sendExt o.k b)).length o.k.mss.toNat > mtuLimit
  · rw [if_pos c5]
    have hk : (o.k.send b).k = { o.k with snd_queue := sendQ1 o.k b (sendExt o.k b) } := by
      rw [send_eq, if_neg c1, if_neg c4, if_neg c2, if_neg c3, if_pos c5]
    exact ⟨by rw [hk]; exact hq, by rw [hk]; exact h.sb, by rw [hk]; exact h.rb, by rw [hk]; exact h.rq⟩
  rw [if_neg c5]
  have hk : (o.k.send b).k = { o.k with snd_queue := sendQ1 o.k b (sendExt o.k b) ++ sendNew o.k (b.drop (sendExt o.k b)) } := by
    rw [send_eq, if_neg c1, if_neg c4, if_neg c2, if_neg c3, if_neg c5]
  refine ⟨?_, by rw [hk]; exact h.sb, by rw [hk]; exact h.rb, by rw [hk]; exact h.rq⟩
  rw [hk]
  show sendQ1 o.k b (sendExt o.k b) ++ sendNew o.k (b.drop (sendExt o.k b)) = er (_ ++ _)
  rw [er_append, mkSegsO_er, ← hq]
  rfl

/-! ### flush -/

theorem flushO_k (o : KcpO) (full : Bool) (now : U32) : (flushO o full now).o.k = (o.k.flush full now).k := rfl

/-- what `flush` does to the four queues -/
theorem flush_queues (k : Kcp) (full : Bool) (now : U32) :
    (flushAd k now).count ≤ k.snd_queue.length ∧
    (flush k full now).k.snd_queue = k.snd_queue.drop (flushAd k now).count ∧
    (flush k full now).k.snd_buf.length = k.snd_buf.length + (flushAd k now).count ∧
    (flushAd k now).buf.length = k.snd_buf.length + (flushAd k now).count ∧
    (flush k full now).k.rcv_buf = k.rcv_buf ∧ (flush k full now).k.rcv_queue = k.rcv_queue := by
  obtain ⟨pw, tp, st, ss, cw, inc, done, hk, hd⟩ := flush_k k full now
  obtain ⟨n, h1, h2, h3, h4⟩ := admitSegs_shape k.conv k.snd_una (effCwnd k) now k.snd_queue k.snd_buf k.snd_nxt 0
  have hc : (flushAd k now).count = n := by unfold flushAd; rw [h1]; omega
  have hl : done.length = (flushAd k now).buf.length := by
    have := congrArg List.length hd
    simpa only [List.length_map] using this
  have hb : (flushAd k now).buf.length = k.snd_buf.length + n := by unfold flushAd; exact h4
  rw [hk, hc]
  refine ⟨h2, ?_, ?_, hb, rfl, rfl⟩
  · show (flushAd k now).queue = _
    unfold flushAd; exact h3
  · show done.length = _
    rw [hl]; exact hb

/-- the lengths that make the two `reattach` of `flushO` exact -/
theorem flushO_lens {o : KcpO} (h : Sync o) (full : Bool) (now : U32) :
    (flushAd o.k now).buf.length = (o.sb ++ o.sq.take (flushAd o.k now).count).length ∧
    (o.k.flush full now).k.snd_buf.length =
      (reattach (flushAd o.k now).buf (o.sb ++ o.sq.take (flushAd o.k now).count)).length := by
  obtain ⟨h1, _, h3, h4, _, _⟩ := flush_queues o.k full now
  have hl : (flushAd o.k now).buf.length = (o.sb ++ o.sq.take (flushAd o.k now).count).length := by
    rw [h4, h.sb, er_length, List.length_append, List.length_take]
    rw [h.sq, er_length] at h1
    omega
  refine ⟨hl, ?_⟩
  rw [reattach_length _ _ hl, ← hl, h3, h4]

theorem flushO_sync {o : KcpO} (h : Sync o) (full : Bool) (now : U32) : Sync (flushO o full now).o := by
  obtain ⟨_, h2, _, _, h4, h5⟩ := flush_queues o.k full now
  obtain ⟨_, l2⟩ := flushO_lens h full now
  unfold flushO
  simp only []
  refine ⟨?_, ?_, ?_, ?_⟩
  · rw [h2, h.sq, er_drop]
  · rw [er_reattach _ _ l2]
  · rw [h4]; exact h.rb
  · rw [h5]; exact h.rq

/-! ### Input: the model's loop body, queue by queue -/

theorem shrinkBuf_queues (k : Kcp) :
    (shrinkBuf k).snd_queue = k.snd_queue ∧ (shrinkBuf k).snd_buf = dropAcked k.snd_buf ∧
    (shrinkBuf k).rcv_buf = k.rcv_buf ∧ (shrinkBuf k).rcv_queue = k.rcv_queue := by
  unfold shrinkBuf
  split
  · rename_i h; exact ⟨rfl, h.symm, rfl, rfl⟩
  · rename_i h; exact ⟨rfl, h.symm, rfl, rfl⟩

theorem inSt1_queues (regular : Bool) (wnd : BitVec 16) (una : U32) (m : InLoop) :
    (inSt1 regular wnd una m).k.snd_queue = m.k.snd_queue ∧
    (inSt1 regular wnd una m).k.snd_buf = dropAcked (m.k.snd_buf.drop (unaCount una m.k.snd_buf)) ∧
    (inSt1 regular wnd una m).k.rcv_buf = m.k.rcv_buf ∧
    (inSt1 regular wnd una m).k.rcv_queue = m.k.rcv_queue := by
  unfold inSt1
  simp only []
  obtain ⟨h1, h2, h3, h4⟩ := shrinkBuf_queues
    (parseUna (if regular = true then { m.k with rmt_wnd := wnd.setWidth 32 } else m.k) una).1
  rw [h1, h2, h3, h4]
  unfold parseUna
  cases regular <;> exact ⟨rfl, rfl, rfl, rfl⟩

theorem parseAck_queues (k : Kcp) (sn : U32) :
    (parseAck k sn).snd_queue = k.snd_queue ∧ (parseAck k sn).rcv_buf = k.rcv_buf ∧
    (parseAck k sn).rcv_queue = k.rcv_queue ∧
    (parseAck k sn).snd_buf =
      (if itimediff sn k.snd_una < 0 ∨ itimediff sn k.snd_nxt ≥ 0 then k.snd_buf else ackLoop sn k.snd_buf) := by
  unfold parseAck
  split <;> exact ⟨rfl, rfl, rfl, rfl⟩

theorem parseFastack_queues (k : Kcp) (sn ts : U32) :
    (parseFastack k sn ts).1.snd_queue = k.snd_queue ∧ (parseFastack k sn ts).1.rcv_buf = k.rcv_buf ∧
    (parseFastack k sn ts).1.rcv_queue = k.rcv_queue ∧
    (parseFastack k sn ts).1.snd_buf.length = k.snd_buf.length := by
  unfold parseFastack
  split
  · exact ⟨rfl, rfl, rfl, rfl⟩
  · exact ⟨rfl, rfl, rfl, fastLoop_length _ _ _ _⟩

theorem inAck_queues (m1 : InLoop) (sn ts : U32) :
    (inAck m1 sn ts).k.snd_queue = m1.k.snd_queue ∧ (inAck m1 sn ts).k.rcv_buf = m1.k.rcv_buf ∧
    (inAck m1 sn ts).k.rcv_queue = m1.k.rcv_queue ∧
    (inAck m1 sn ts).k.snd_buf.length = (dropAcked (parseAck m1.k sn).snd_buf).length := by
  obtain ⟨a1, a2, a3, _⟩ := parseAck_queues m1.k sn
  obtain ⟨b1, b2, b3, b4⟩ := shrinkBuf_queues (parseAck m1.k sn)
  obtain ⟨f1, f2, f3, f4⟩ := parseFastack_queues (shrinkBuf (parseAck m1.k sn)) sn ts
  unfold inAck
  simp only []
  exact ⟨f1.trans (b1.trans a1), f2.trans (b3.trans a2), f3.trans (b4.trans a3), by rw [f4, b2]⟩

/-- the instrumented `parse_ack` + `shrink_buf` of the ACK branch, erased -/
theorem ackO_er (k : Kcp) (sn : U32) (u : SegsG) (hu : k.snd_buf = er u.l) :
    er (dropAckedO (if itimediff sn k.snd_una < 0 ∨ itimediff sn k.snd_nxt ≥ 0 then u else ackLoopO sn u.l u.g).l
        (if itimediff sn k.snd_una < 0 ∨ itimediff sn k.snd_nxt ≥ 0 then u else ackLoopO sn u.l u.g).g).l =
      dropAcked (parseAck k sn).snd_buf := by
  rw [dropAckedO_er, (parseAck_queues k sn).2.2.2]
  split
  · rw [hu]
  · rw [ackLoopO_er, hu]

/-- the instrumented `parse_una` + `shrink_buf` at the head of the loop body, erased -/
theorem unaShrinkO_er (regular : Bool) (wnd : BitVec 16) (una : U32) {st : InLoopO} (h : st.m.k.snd_buf = er st.sb) :
    (inSt1 regular wnd una st.m).k.snd_buf =
      er (dropAckedO (unaO una st.sb st.gh).l (unaO una st.sb st.gh).g).l := by
  rw [(inSt1_queues regular wnd una st.m).2.1, dropAckedO_er, unaO_er, h]

theorem parseDataO_er (k k0 : Kcp) (s : Seg) (rb rq : List SegO) (g : Ghost)
    (hn : k0.rcv_nxt = k.rcv_nxt) (hw : k0.rcv_wnd = k.rcv_wnd)
    (hb : k.rcv_buf = er rb) (hq : k.rcv_queue = er rq) :
    (parseData k s).k.snd_queue = k.snd_queue ∧ (parseData k s).k.snd_buf = k.snd_buf ∧
    (parseData k s).k.rcv_buf = er (parseDataO k0 s rb rq g).rb ∧
    (parseData k s).k.rcv_queue = er (parseDataO k0 s rb rq g).rq := by
  unfold parseData parseDataO
  rw [hn, hw, any_er, ← hb]
  split
  · exact ⟨rfl, rfl, hb, hq⟩
  · split
    · have hm := moveLoopO_er k.rcv_wnd.toNat rb rq k.rcv_nxt
      rw [← hb, ← hq] at hm
      exact ⟨rfl, rfl, hm.1.symm, hm.2.symm⟩
    · split
      · exact ⟨rfl, rfl, hb, hq⟩
      · have hm := moveLoopO_er k.rcv_wnd.toNat (heapInsertO { s := s, buf := some g.next } rb) rq k.rcv_nxt
        rw [heapInsertO_er, ← hb, ← hq] at hm
        exact ⟨rfl, rfl, hm.1.symm, hm.2.symm⟩

theorem parseData_snd (k : Kcp) (s : Seg) :
    (parseData k s).k.snd_queue = k.snd_queue ∧ (parseData k s).k.snd_buf = k.snd_buf := by
  unfold parseData moveReady
  repeat' split
  all_goals exact ⟨rfl, rfl⟩

/-- the instrumented loop state is in step with the model's loop state -/
structure SyncL (st : InLoopO) : Prop where
  sb : st.m.k.snd_buf = er st.sb
  rb : st.m.k.rcv_buf = er st.rb
  rq : st.m.k.rcv_queue = er st.rq

theorem inBodyO_m (regular : Bool) (data : Bytes) (st : InLoopO) :
    (inBodyO regular data st).m = inBody regular data st.m := by
  unfold inBodyO
  simp only []
  split
  · rfl
  · split
    · split <;> rfl
    · rfl

theorem inBody_snd_queue (regular : Bool) (data : Bytes) (m : InLoop) :
    (inBody regular data m).k.snd_queue = m.k.snd_queue := by
  obtain ⟨s1, _, _, _⟩ := inSt1_queues regular (rd16 data 6) (rd32 data 16) m
  unfold inBody
  simp only []
  split
  · exact (inAck_queues _ _ _).1.trans s1
  · split
    · unfold inPush
      simp only []
      split
      · split
        · exact (parseData_snd _ _).1.trans s1
        · exact s1
      · exact s1
    · split <;> exact s1

theorem inBodyO_sync (regular : Bool) (data : Bytes) {st : InLoopO} (h : SyncL st) :
    SyncL (inBodyO regular data st) := by
  obtain ⟨_, s2, s3, s4⟩ := inSt1_queues regular (rd16 data 6) (rd32 data 16) st.m
  have hu := unaShrinkO_er regular (rd16 data 6) (rd32 data 16) h.sb
  unfold inBodyO
  simp only []
  split
  · -- ACK
    rename_i hc
    have hb : inBody regular data st.m = inAck (inSt1 regular (rd16 data 6) (rd32 data 16) st.m) (rd32 data 12) (rd32 data 8) := by
      unfold inBody; simp only []; rw [if_pos hc]
    obtain ⟨_, a2, a3, a4⟩ := inAck_queues (inSt1 regular (rd16 data 6) (rd32 data 16) st.m) (rd32 data 12) (rd32 data 8)
    refine ⟨?_, ?_, ?_⟩
    · show (inBody regular data st.m).k.snd_buf = er (reattach (inBody regular data st.m).k.snd_buf _)
      rw [er_reattach]
      rw [hb, a4, ← ackO_er _ _ _ hu, er_length]
    · show (inBody regular data st.m).k.rcv_buf = er st.rb
      rw [hb, a2, s3]; exact h.rb
    · show (inBody regular data st.m).k.rcv_queue = er st.rq
      rw [hb, a3, s4]; exact h.rq
  · rename_i hc
    split
    · -- PUSH
      rename_i hp
      split
      · rename_i hw
        have hb : inBody regular data st.m =
            { inSt1 regular (rd16 data 6) (rd32 data 16) st.m with
              k := (parseData { (inSt1 regular (rd16 data 6) (rd32 data 16) st.m).k with
                      acklist := (inSt1 regular (rd16 data 6) (rd32 data 16) st.m).k.acklist ++ [⟨rd32 data 12, rd32 data 8⟩] }
                    { conv := rd32 data 0, cmd := BitVec.ofNat 8 (byteAt data 4), frg := BitVec.ofNat 8 (byteAt data 5), wnd := rd16 data 6,
                      ts := rd32 data 8, sn := rd32 data 12, una := rd32 data 16,
                      data := (data.drop IKCP_OVERHEAD).take (rd32 data 20).toNat }).k,
              panic := (parseData { (inSt1 regular (rd16 data 6) (rd32 data 16) st.m).k with
                      acklist := (inSt1 regular (rd16 data 6) (rd32 data 16) st.m).k.acklist ++ [⟨rd32 data 12, rd32 data 8⟩] }
                    { conv := rd32 data 0, cmd := BitVec.ofNat 8 (byteAt data 4), frg := BitVec.ofNat 8 (byteAt data 5), wnd := rd16 data 6,
                      ts := rd32 data 8, sn := rd32 data 12, una := rd32 data 16,
                      data := (data.drop IKCP_OVERHEAD).take (rd32 data 20).toNat }).panic } := by
          unfold inBody; simp only []; rw [if_neg hc, if_pos hp]
          unfold inPush; simp only []; rw [if_pos hw.1, if_pos hw.2]
        obtain ⟨_, d2, d3, d4⟩ := parseDataO_er
          { (inSt1 regular (rd16 data 6) (rd32 data 16) st.m).k with
            acklist := (inSt1 regular (rd16 data 6) (rd32 data 16) st.m).k.acklist ++ [⟨rd32 data 12, rd32 data 8⟩] }
          (inSt1 regular (rd16 data 6) (rd32 data 16) st.m).k
          { conv := rd32 data 0, cmd := BitVec.ofNat 8 (byteAt data 4), frg := BitVec.ofNat 8 (byteAt data 5), wnd := rd16 data 6,
            ts := rd32 data 8, sn := rd32 data 12, una := rd32 data 16,
            data := (data.drop IKCP_OVERHEAD).take (rd32 data 20).toNat }
          st.rb st.rq (dropAckedO (unaO (rd32 data 16) st.sb st.gh).l (unaO (rd32 data 16) st.sb st.gh).g).g rfl rfl (s3.trans h.rb) (s4.trans h.rq)
        refine ⟨?_, ?_, ?_⟩
        · show (inBody regular data st.m).k.snd_buf = _
          rw [hb]; exact d2.trans hu
        · show (inBody regular data st.m).k.rcv_buf = _
          rw [hb]; exact d3
        · show (inBody regular data st.m).k.rcv_queue = _
          rw [hb]; exact d4
      · rename_i hw
        have hb : (inBody regular data st.m).k.snd_buf = (inSt1 regular (rd16 data 6) (rd32 data 16) st.m).k.snd_buf ∧
            (inBody regular data st.m).k.rcv_buf = (inSt1 regular (rd16 data 6) (rd32 data 16) st.m).k.rcv_buf ∧
            (inBody regular data st.m).k.rcv_queue = (inSt1 regular (rd16 data 6) (rd32 data 16) st.m).k.rcv_queue := by
          unfold inBody; simp only []; rw [if_neg hc, if_pos hp]
          unfold inPush; simp only []
          split
          · rename_i h1
            split
            · rename_i h2; exact absurd ⟨h1, h2⟩ hw
            · exact ⟨rfl, rfl, rfl⟩
          · exact ⟨rfl, rfl, rfl⟩
        exact ⟨hb.1.trans hu, hb.2.1.trans (s3.trans h.rb), hb.2.2.trans (s4.trans h.rq)⟩
    · -- WASK / WINS
      rename_i hp
      have hb : (inBody regular data st.m).k.snd_buf = (inSt1 regular (rd16 data 6) (rd32 data 16) st.m).k.snd_buf ∧
          (inBody regular data st.m).k.rcv_buf = (inSt1 regular (rd16 data 6) (rd32 data 16) st.m).k.rcv_buf ∧
          (inBody regular data st.m).k.rcv_queue = (inSt1 regular (rd16 data 6) (rd32 data 16) st.m).k.rcv_queue := by
        unfold inBody; simp only []; rw [if_neg hc, if_neg hp]
        split <;> exact ⟨rfl, rfl, rfl⟩
      exact ⟨hb.1.trans hu, hb.2.1.trans (s3.trans h.rb), hb.2.2.trans (s4.trans h.rq)⟩

theorem inputLoopO_m (regular : Bool) (fuel : Nat) (data : Bytes) (st : InLoopO) :
    (inputLoopO regular fuel data st).m = inputLoop regular fuel data st.m := by
  induction fuel generalizing data st with
  | zero => rfl
  | succ fuel ih =>
    rw [inputLoop_succ]
    unfold inputLoopO
    by_cases c1 : data.length < IKCP_OVERHEAD
    · rw [if_pos c1, if_pos c1]
    rw [if_neg c1, if_neg c1]
    by_cases c2 : rd32 data 0 ≠ st.m.k.conv
    · rw [if_pos c2, if_pos c2]
    rw [if_neg c2, if_neg c2]
    by_cases c3 : (data.drop IKCP_OVERHEAD).length < (rd32 data 20).toNat ∨ (rd32 data 20).toNat > mtuLimit
    · rw [if_pos c3, if_pos c3]
    rw [if_neg c3, if_neg c3]
    by_cases c4 : (BitVec.ofNat 8 (byteAt data 4)).toNat ≠ IKCP_CMD_PUSH ∧ (BitVec.ofNat 8 (byteAt data 4)).toNat ≠ IKCP_CMD_ACK ∧
        (BitVec.ofNat 8 (byteAt data 4)).toNat ≠ IKCP_CMD_WASK ∧ (BitVec.ofNat 8 (byteAt data 4)).toNat ≠ IKCP_CMD_WINS
    · rw [if_pos c4, if_pos c4]
    rw [if_neg c4, if_neg c4]
    rw [inBodyO_m]
    by_cases c5 : (inBody regular data st.m).panic = true
    · rw [if_pos c5, if_pos c5]; exact inBodyO_m _ _ _
    rw [if_neg c5, if_neg c5, ih, inBodyO_m]

theorem inputLoopO_sync (regular : Bool) (fuel : Nat) (data : Bytes) {st : InLoopO} (h : SyncL st) :
    SyncL (inputLoopO regular fuel data st) := by
  induction fuel generalizing data st with
  | zero => exact h
  | succ fuel ih =>
    unfold inputLoopO
    split; · exact h
    split; · exact ⟨h.sb, h.rb, h.rq⟩
    split; · exact ⟨h.sb, h.rb, h.rq⟩
    split; · exact ⟨h.sb, h.rb, h.rq⟩
    split
    · exact inBodyO_sync regular data h
    · exact ih _ (inBodyO_sync regular data h)

theorem inputLoop_snd_queue (regular : Bool) (fuel : Nat) (data : Bytes) (m : InLoop) :
    (inputLoop regular fuel data m).k.snd_queue = m.k.snd_queue := by
  induction fuel generalizing data m with
  | zero => rfl
  | succ fuel ih =>
    rw [inputLoop_succ]
    split; · rfl
    split; · rfl
    split; · rfl
    split; · rfl
    split
    · exact inBody_snd_queue _ _ _
    · rw [ih]; exact inBody_snd_queue _ _ _

theorem inputK1_queues (m : InLoop) (regular : Bool) (now : U32) :
    (inputK1 m regular now).snd_queue = m.k.snd_queue ∧ (inputK1 m regular now).snd_buf = m.k.snd_buf ∧
    (inputK1 m regular now).rcv_buf = m.k.rcv_buf ∧ (inputK1 m regular now).rcv_queue = m.k.rcv_queue := by
  unfold inputK1
  split
  · obtain ⟨a, b, c, hu⟩ := updateAck_shape m.k (now - m.latest)
    rw [hu]; exact ⟨rfl, rfl, rfl, rfl⟩
  · exact ⟨rfl, rfl, rfl, rfl⟩

theorem cwndOnAck_queues (k : Kcp) (u : U32) :
    (cwndOnAck k u).snd_queue = k.snd_queue ∧ (cwndOnAck k u).snd_buf = k.snd_buf ∧
    (cwndOnAck k u).rcv_buf = k.rcv_buf ∧ (cwndOnAck k u).rcv_queue = k.rcv_queue := by
  obtain ⟨cw, inc, h⟩ := cwndOnAck_shape k u
  rw [h]; exact ⟨rfl, rfl, rfl, rfl⟩

end KcpVerif.Own
