import KcpVerif.Lemmas.CfbUnroll
/-! what the block loop computes: textbook CFB written into `dst[0:len(src)]`, nothing else
touched; for both memory layouts -/
namespace KcpVerif.Cfb

variable (E : Bytes → Bytes) (bs : Nat)

theorem rd_xor (c : Bool) (b T : Bytes) (off : Nat) (h : T.length ≤ bs) :
    xorB (rd c bs b off) T = xorB ((b.drop off).take bs) T := by
  cases c
  · simp only [rd, Bool.false_eq_true, if_false]; rw [xorB_take_left _ _ _ h]
  · simp only [rd, if_true]

theorem rd_take (c : Bool) (b : Bytes) (off : Nat) :
    (rd c bs b off).take bs = (b.drop off).take bs := by
  cases c
  · simp only [rd, Bool.false_eq_true, if_false]
  · simp only [rd, if_true, List.take_take, Nat.min_self]

/-- the facts about a state the loop relies on -/
structure Ok (s : St) : Prop where
  len : s.m.src.length ≤ s.m.dst.length
  al : s.m.alias = true → s.m.src = s.m.dst

theorem length_blk (b : Bytes) (off : Nat) (h : off + bs ≤ b.length) :
    ((b.drop off).take bs).length = bs := by
  simp only [List.length_take, List.length_drop]; omega

theorem encL_spec (c : Bool) (s : St) (ht : s.tbl.length = bs) (hk : Ok s)
    (hb : s.base + bs ≤ s.m.src.length) :
    encL E bs c s =
      { m := s.m.write s.base (xorB ((s.m.src.drop s.base).take bs) s.tbl)
        tbl := E (xorB ((s.m.src.drop s.base).take bs) s.tbl)
        next := s.next, base := s.base + bs } := by
  have hl := hk.len
  have hx : (xorB ((s.m.src.drop s.base).take bs) s.tbl).length = bs := by
    rw [length_xorB, length_blk bs _ _ hb, ht, Nat.min_self]
  simp only [encL, encAt, St.setBase, Bufs.write]
  rw [rd_xor bs c _ _ _ (Nat.le_of_eq ht), rd_take]
  have := drop_take_splice s.m.dst s.base (xorB ((s.m.src.drop s.base).take bs) s.tbl) (by omega)
  rw [hx] at this
  rw [this]

theorem decL_spec (c : Bool) (s : St) (ht : s.tbl.length = bs) :
    decL E bs c s =
      { m := s.m.write s.base (xorB ((s.m.src.drop s.base).take bs) s.tbl)
        tbl := E ((s.m.src.drop s.base).take bs)
        next := s.tbl, base := s.base + bs } := by
  simp only [decL, decA, St.setBase, St.swap]
  rw [rd_xor bs c _ _ _ (Nat.le_of_eq ht), rd_take]

/-- effect of a full-block write on the facts and on the unread part of `src` -/
theorem write_facts (m : Bufs) (off : Nat) (x : Bytes) (hl : m.src.length ≤ m.dst.length)
    (hal : m.alias = true → m.src = m.dst) (hb : off + x.length ≤ m.src.length) :
    let m' := m.write off x
    m'.src.length = m.src.length ∧ m'.dst.length = m.dst.length ∧ m'.alias = m.alias ∧
    (m'.alias = true → m'.src = m'.dst) ∧ (m.alias = false → m'.src = m.src) ∧
    (∀ k, off + x.length ≤ k → m'.src.drop k = m.src.drop k) ∧
    m'.dst = splice m.dst off x := by
  intro m'
  have hd : m'.dst = splice m.dst off x := rfl
  have hdl : m'.dst.length = m.dst.length := by rw [hd]; exact length_splice _ _ _ (by omega)
  have haa : m'.alias = m.alias := rfl
  cases ha : m.alias
  · have hs : m'.src = m.src := by simp [m', Bufs.write, ha]
    refine ⟨by rw [hs], hdl, haa.trans ha, ?_, fun _ => hs, fun k _ => by rw [hs], hd⟩
    intro h; rw [haa, ha] at h; cases h
  · have e := hal ha
    have hs : m'.src = splice m.src off x := by simp [m', Bufs.write, ha]
    refine ⟨?_, hdl, haa.trans ha, ?_, ?_, ?_, hd⟩
    · rw [hs]; exact length_splice _ _ _ hb
    · intro _; rw [hs, hd, e]
    · intro h; cases h
    · intro k hk; rw [hs]; exact drop_splice_ge _ _ _ _ (by omega) hk

theorem cfbEnc_small (prev p : Bytes) (h : p.length < bs) : cfbEnc E bs prev p = xorB p (E prev) := by
  rw [cfbEnc, dif_pos (Or.inr h)]

theorem cfbEnc_step (prev p : Bytes) (hbs : 0 < bs) (h : bs ≤ p.length) :
    cfbEnc E bs prev p =
      xorB (p.take bs) (E prev) ++ cfbEnc E bs (xorB (p.take bs) (E prev)) (p.drop bs) := by
  rw [cfbEnc, dif_neg (by omega)]

theorem cfbDec_small (prev p : Bytes) (h : p.length < bs) : cfbDec E bs prev p = xorB p (E prev) := by
  rw [cfbDec, dif_pos (Or.inr h)]

theorem cfbDec_step (prev p : Bytes) (hbs : 0 < bs) (h : bs ≤ p.length) :
    cfbDec E bs prev p = xorB (p.take bs) (E prev) ++ cfbDec E bs (p.take bs) (p.drop bs) := by
  rw [cfbDec, dif_neg (by omega)]

/-- the final partial block -/
theorem tail_run (s : St) (T : Bytes) (hT : s.tbl = T) (hTl : T.length = bs) (hk : Ok s)
    (h1 : s.base ≤ s.m.src.length) (h2 : s.m.src.length < s.base + bs) :
    let f := tailXor s
    f.m.dst = s.m.dst.take s.base ++ xorB (s.m.src.drop s.base) T ++ s.m.dst.drop s.m.src.length
      ∧ f.m.alias = s.m.alias ∧ (s.m.alias = false → f.m.src = s.m.src)
      ∧ (s.m.alias = true → f.m.src = f.m.dst) := by
  intro f
  have hx : (xorB (s.m.src.drop s.base) s.tbl).length = s.m.src.length - s.base := by
    rw [length_xorB, List.length_drop, hT, hTl]; omega
  have hw := write_facts s.m s.base (xorB (s.m.src.drop s.base) s.tbl) hk.len hk.al (by omega)
  obtain ⟨_, _, w3, w4, w5, _, w7⟩ := hw
  have hf : f.m = s.m.write s.base (xorB (s.m.src.drop s.base) s.tbl) := rfl
  rw [hf]
  refine ⟨?_, w3, w5, ?_⟩
  · rw [w7, splice, hx, hT]
    have : s.base + (s.m.src.length - s.base) = s.m.src.length := by omega
    rw [this]
  · intro ha; exact w4 (w3.trans ha)

theorem enc_run (hbs : 0 < bs) (hE : ∀ x : Bytes, x.length = bs → (E x).length = bs) :
    ∀ (fl : List Bool) (s : St) (prev : Bytes) (k : Nat), prev.length = bs → s.tbl = E prev → Ok s →
      k = fl.length * bs → s.base + k ≤ s.m.src.length → s.m.src.length < s.base + k + bs →
      let f := tailXor (steps (encL E bs) fl s)
      f.m.dst = s.m.dst.take s.base ++ cfbEnc E bs prev (s.m.src.drop s.base)
          ++ s.m.dst.drop s.m.src.length
        ∧ f.m.alias = s.m.alias ∧ (s.m.alias = false → f.m.src = s.m.src)
        ∧ (s.m.alias = true → f.m.src = f.m.dst) := by
  intro fl
  induction fl with
  | nil =>
    intro s prev k hp ht hk hk0 h1 h2
    simp only [List.length_nil, Nat.zero_mul] at hk0
    subst hk0
    have := tail_run bs s (E prev) ht (hE prev hp) hk (by omega) (by omega)
    rw [cfbEnc_small E bs prev _ (by rw [List.length_drop]; omega)]
    exact this
  | cons c fl ih =>
    intro s prev k hp ht hk hk0 h1 h2
    have hk' : k = fl.length * bs + bs := by rw [hk0, List.length_cons, Nat.succ_mul]
    have hb : s.base + bs ≤ s.m.src.length := by omega
    have htl : s.tbl.length = bs := by rw [ht]; exact hE prev hp
    have hblk := length_blk bs s.m.src s.base hb
    have hx : (xorB ((s.m.src.drop s.base).take bs) s.tbl).length = bs := by
      rw [length_xorB, hblk, htl, Nat.min_self]
    have hspec := encL_spec E bs c s htl hk hb
    have hw := write_facts s.m s.base (xorB ((s.m.src.drop s.base).take bs) s.tbl) hk.len hk.al
      (by omega)
    obtain ⟨w1, w2, w3, w4, w5, w6, w7⟩ := hw
    simp only [steps]
    rw [hspec]
    have ok' : Ok ({ m := s.m.write s.base (xorB ((s.m.src.drop s.base).take bs) s.tbl)
                     tbl := E (xorB ((s.m.src.drop s.base).take bs) s.tbl)
                     next := s.next, base := s.base + bs } : St) :=
      ⟨by show (s.m.write _ _).src.length ≤ (s.m.write _ _).dst.length
          rw [w1, w2]; exact hk.len, w4⟩
    have := ih _ (xorB ((s.m.src.drop s.base).take bs) s.tbl) (fl.length * bs) hx rfl ok' rfl
      (by show s.base + bs + _ ≤ (s.m.write _ _).src.length
          rw [w1]; omega)
      (by show (s.m.write _ _).src.length < s.base + bs + _ + bs
          rw [w1]; omega)
    simp only at this
    obtain ⟨r1, r2, r3, r4⟩ := this
    refine ⟨?_, r2.trans w3, ?_, ?_⟩
    · rw [r1, w1, w6 (s.base + bs) (by omega), w7]
      have hl := hk.len
      have t1 := take_splice s.m.dst s.base (xorB ((s.m.src.drop s.base).take bs) s.tbl) (by omega)
      rw [hx] at t1
      have t2 := drop_splice_ge s.m.dst s.base (xorB ((s.m.src.drop s.base).take bs) s.tbl)
        s.m.src.length (by omega) (by omega)
      rw [t1, t2]
      rw [cfbEnc_step E bs prev _ hbs (by rw [List.length_drop]; omega), List.drop_drop, ← ht]
      simp only [List.append_assoc]
    · intro ha; rw [r3 (w3.trans ha), w5 ha]
    · intro ha; exact r4 (w3.trans ha)

theorem dec_run (hbs : 0 < bs) (hE : ∀ x : Bytes, x.length = bs → (E x).length = bs) :
    ∀ (fl : List Bool) (s : St) (prev : Bytes) (k : Nat), prev.length = bs → s.tbl = E prev → Ok s →
      k = fl.length * bs → s.base + k ≤ s.m.src.length → s.m.src.length < s.base + k + bs →
      let f := tailXor (steps (decL E bs) fl s)
      f.m.dst = s.m.dst.take s.base ++ cfbDec E bs prev (s.m.src.drop s.base)
          ++ s.m.dst.drop s.m.src.length
        ∧ f.m.alias = s.m.alias ∧ (s.m.alias = false → f.m.src = s.m.src)
        ∧ (s.m.alias = true → f.m.src = f.m.dst) := by
  intro fl
  induction fl with
  | nil =>
    intro s prev k hp ht hk hk0 h1 h2
    simp only [List.length_nil, Nat.zero_mul] at hk0
    subst hk0
    have := tail_run bs s (E prev) ht (hE prev hp) hk (by omega) (by omega)
    rw [cfbDec_small E bs prev _ (by rw [List.length_drop]; omega)]
    exact this
  | cons c fl ih =>
    intro s prev k hp ht hk hk0 h1 h2
    have hk' : k = fl.length * bs + bs := by rw [hk0, List.length_cons, Nat.succ_mul]
    have hb : s.base + bs ≤ s.m.src.length := by omega
    have htl : s.tbl.length = bs := by rw [ht]; exact hE prev hp
    have hblk := length_blk bs s.m.src s.base hb
    have hx : (xorB ((s.m.src.drop s.base).take bs) s.tbl).length = bs := by
      rw [length_xorB, hblk, htl, Nat.min_self]
    have hspec := decL_spec E bs c s htl
    have hw := write_facts s.m s.base (xorB ((s.m.src.drop s.base).take bs) s.tbl) hk.len hk.al
      (by omega)
    obtain ⟨w1, w2, w3, w4, w5, w6, w7⟩ := hw
    simp only [steps]
    rw [hspec]
    have ok' : Ok ({ m := s.m.write s.base (xorB ((s.m.src.drop s.base).take bs) s.tbl)
                     tbl := E ((s.m.src.drop s.base).take bs)
                     next := s.tbl, base := s.base + bs } : St) :=
      ⟨by show (s.m.write _ _).src.length ≤ (s.m.write _ _).dst.length
          rw [w1, w2]; exact hk.len, w4⟩
    have := ih _ ((s.m.src.drop s.base).take bs) (fl.length * bs) hblk rfl ok' rfl
      (by show s.base + bs + _ ≤ (s.m.write _ _).src.length
          rw [w1]; omega)
      (by show (s.m.write _ _).src.length < s.base + bs + _ + bs
          rw [w1]; omega)
    simp only at this
    obtain ⟨r1, r2, r3, r4⟩ := this
    refine ⟨?_, r2.trans w3, ?_, ?_⟩
    · rw [r1, w1, w6 (s.base + bs) (by omega), w7]
      have hl := hk.len
      have t1 := take_splice s.m.dst s.base (xorB ((s.m.src.drop s.base).take bs) s.tbl) (by omega)
      rw [hx] at t1
      have t2 := drop_splice_ge s.m.dst s.base (xorB ((s.m.src.drop s.base).take bs) s.tbl)
        s.m.src.length (by omega) (by omega)
      rw [t1, t2]
      rw [cfbDec_step E bs prev _ hbs (by rw [List.length_drop]; omega), List.drop_drop, ← ht]
      simp only [List.append_assoc]
    · intro ha; rw [r3 (w3.trans ha), w5 ha]
    · intro ha; exact r4 (w3.trans ha)

theorem enc_start (hbs : 0 < bs) (hiv : bs ≤ Gen.initialVector.length)
    (hE : ∀ x : Bytes, x.length = bs → (E x).length = bs) (c : Bool) (src dst : Bytes)
    (alias : Bool) (nx : Bytes) (hlen : src.length ≤ dst.length) (hal : alias = true → src = dst) :
    let f := tailXor (steps (encL E bs) (flags c (src.length / bs)) (start E bs src dst alias nx))
    f.m.dst = cfbEnc E bs (Gen.initialVector.take bs) src ++ dst.drop src.length
      ∧ f.m.alias = alias ∧ (alias = false → f.m.src = src)
      ∧ (alias = true → f.m.src = f.m.dst) := by
  have h := enc_run E bs hbs hE (flags c (src.length / bs)) (start E bs src dst alias nx)
    (Gen.initialVector.take bs) (src.length / bs * bs) (by rw [List.length_take]; omega) rfl
    ⟨hlen, hal⟩ (by rw [length_flags])
    (by show 0 + _ ≤ src.length
        have := Nat.div_mul_le_self src.length bs; omega)
    (by show src.length < 0 + _ + bs
        have := Nat.lt_div_mul_add (a := src.length) hbs; omega)
  simpa [start] using h

theorem dec_start (hbs : 0 < bs) (hiv : bs ≤ Gen.initialVector.length)
    (hE : ∀ x : Bytes, x.length = bs → (E x).length = bs) (c : Bool) (src dst : Bytes)
    (alias : Bool) (nx : Bytes) (hlen : src.length ≤ dst.length) (hal : alias = true → src = dst) :
    let f := tailXor (steps (decL E bs) (flags c (src.length / bs)) (start E bs src dst alias nx))
    f.m.dst = cfbDec E bs (Gen.initialVector.take bs) src ++ dst.drop src.length
      ∧ f.m.alias = alias ∧ (alias = false → f.m.src = src)
      ∧ (alias = true → f.m.src = f.m.dst) := by
  have h := dec_run E bs hbs hE (flags c (src.length / bs)) (start E bs src dst alias nx)
    (Gen.initialVector.take bs) (src.length / bs * bs) (by rw [List.length_take]; omega) rfl
    ⟨hlen, hal⟩ (by rw [length_flags])
    (by show 0 + _ ≤ src.length
        have := Nat.div_mul_le_self src.length bs; omega)
    (by show src.length < 0 + _ + bs
        have := Nat.lt_div_mul_add (a := src.length) hbs; omega)
  simpa [start] using h

/-! textbook CFB: length and round trip -/

theorem length_cfbEnc (hbs : 0 < bs) (hE : ∀ x : Bytes, x.length = bs → (E x).length = bs) :
    ∀ (n : Nat) (p prev : Bytes), p.length ≤ n → prev.length = bs →
      (cfbEnc E bs prev p).length = p.length := by
  intro n
  induction n with
  | zero =>
    intro p prev hn hp
    rw [cfbEnc_small E bs prev p (by omega), length_xorB]; omega
  | succ n ih =>
    intro p prev hn hp
    by_cases h : p.length < bs
    · rw [cfbEnc_small E bs prev p h, length_xorB, hE prev hp]; omega
    · have hb : bs ≤ p.length := by omega
      have hc : (xorB (p.take bs) (E prev)).length = bs := by
        rw [length_xorB, List.length_take, hE prev hp]; omega
      rw [cfbEnc_step E bs prev p hbs hb, List.length_append, hc,
        ih (p.drop bs) _ (by rw [List.length_drop]; omega) hc, List.length_drop]
      omega

theorem cfb_roundtrip (hbs : 0 < bs) (hE : ∀ x : Bytes, x.length = bs → (E x).length = bs) :
    ∀ (n : Nat) (p prev : Bytes), p.length ≤ n → prev.length = bs →
      cfbDec E bs prev (cfbEnc E bs prev p) = p := by
  intro n
  induction n with
  | zero =>
    intro p prev hn hp
    have : p = [] := List.eq_nil_of_length_eq_zero (by omega)
    subst this
    rw [cfbEnc_small E bs prev [] (by simpa using hbs), xorB_nil_left,
      cfbDec_small E bs prev [] (by simpa using hbs), xorB_nil_left]
  | succ n ih =>
    intro p prev hn hp
    by_cases h : p.length < bs
    · rw [cfbEnc_small E bs prev p h, cfbDec_small E bs prev _ (by rw [length_xorB]; omega),
        xorB_cancel _ _ (by rw [hE prev hp]; omega)]
    · have hb : bs ≤ p.length := by omega
      have hc : (xorB (p.take bs) (E prev)).length = bs := by
        rw [length_xorB, List.length_take, hE prev hp]; omega
      rw [cfbEnc_step E bs prev p hbs hb,
        cfbDec_step E bs prev _ hbs (by rw [List.length_append, hc]; omega),
        List.take_left' hc, List.drop_left' hc,
        xorB_cancel _ _ (by rw [List.length_take, hE prev hp]; omega),
        ih (p.drop bs) _ (by rw [List.length_drop]; omega) hc, List.take_append_drop]

end KcpVerif.Cfb
