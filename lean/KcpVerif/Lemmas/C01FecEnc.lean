/-
The sender's FEC stage over a whole session history (discharges `FecRunGenuine` of
`C01_session_fec_partial`): as long as the FEC ids have not wrapped, everything a session with a `d/p`
encoder has put on the wire is a packet of a well-formed `d/p` group of ONE family — the finished
groups (parity generated or skipped) in order, followed by the group that is still filling, completed
with empty placeholder payloads — and the payloads of these groups are the datagrams the core handed
to `output` (or the empty placeholder).

Built on `Lemmas/FecEnc.lean`: `enc_group` (a whole group fed from a group start), `inv_encodeMany`,
`encode_mid`, `encode_data`, `encode_cont_irrel`, `group_next`.
-/
import KcpVerif.Lemmas.C01FecRef
import KcpVerif.Lemmas.FecEnc

namespace KcpVerif.C01
open KcpVerif KcpVerif.Gen
open KcpVerif.Fec KcpVerif.Lemmas.FecSpec KcpVerif.Lemmas KcpVerif.Lemmas.FecEnc

/-! ### `encodeMany` call by call -/

theorem encodeMany_snoc (c : Bool) : ∀ (bs : List Bytes) (e : Encoder) (b : Bytes),
    (encodeMany e (bs ++ [b]) c).1 = ((encodeMany e bs c).1.encode b c).st ∧
    (encodeMany e (bs ++ [b]) c).2 = (encodeMany e bs c).2 ++
      [(((encodeMany e bs c).1.encode b c).data, ((encodeMany e bs c).1.encode b c).parity)] := by
  intro bs
  induction bs with
  | nil => intro e b; exact ⟨rfl, rfl⟩
  | cons x rest ih =>
    intro e b
    obtain ⟨h1, h2⟩ := ih (e.encode x c).st b
    refine ⟨h1, ?_⟩
    show (_, _) :: (encodeMany (e.encode x c).st (rest ++ [b]) c).2 = _
    rw [h2]; rfl

/-- calls inside a group: the id steps by one, the count by one, and the time test is not looked at -/
theorem encodeMany_mid {C : CodecNew} (c : Bool) : ∀ (bs : List Bytes) (e : Encoder), EncInv C e →
    (∀ b ∈ bs, e.headerOffset + fecHeaderSize + 2 ≤ b.length ∧ b.length ≤ mtuLimit) →
    e.shardCount + bs.length < e.d →
    (encodeMany e bs c).1.next = e.next + BitVec.ofNat 32 bs.length ∧
    (encodeMany e bs c).1.shardCount = e.shardCount + bs.length ∧
    (encodeMany e bs c).1.d = e.d ∧ (encodeMany e bs c).1.p = e.p ∧
    (encodeMany e bs c).1.paws = e.paws ∧
    encodeMany e bs true = encodeMany e bs false := by
  intro bs
  induction bs with
  | nil =>
    intro e _ _ _
    exact ⟨(BitVec.add_zero _).symm, rfl, rfl, rfl, rfl, rfl⟩
  | cons b rest ih =>
    intro e h hbs hlen
    have hb := hbs b (List.mem_cons_self ..)
    have h1 : e.payloadOffset + 2 ≤ b.length := hb.1
    have hm : e.shardCount + 1 ≠ e.d := by simp only [List.length_cons] at hlen; omega
    have hst := fun cc => (encode_mid (cont := cc) h1 hb.2 hm).2
    have hinv := inv_encode (cont := c) h (encode_no_panic h1 hb.2)
    have hrest : ∀ x ∈ rest, (e.encode b c).st.headerOffset + fecHeaderSize + 2 ≤ x.length ∧ x.length ≤ mtuLimit := by
      intro x hx; rw [hst]; exact hbs x (List.mem_cons_of_mem _ hx)
    obtain ⟨i1, i2, i3, i4, i5, i6⟩ := ih (e.encode b c).st hinv hrest (by
      rw [hst]; simp only [List.length_cons] at hlen ⊢; omega)
    refine ⟨?_, ?_, ?_, ?_, ?_, ?_⟩
    · show (encodeMany (e.encode b c).st rest c).1.next = e.next + BitVec.ofNat 32 (rest.length + 1)
      rw [i1, hst]
      show advance e.next 1 e.paws + _ = _
      rw [next1_eq h, bv_step]
    · show (encodeMany (e.encode b c).st rest c).1.shardCount = e.shardCount + (rest.length + 1)
      rw [i2, hst]; show e.shardCount + 1 + rest.length = _; omega
    · show (encodeMany (e.encode b c).st rest c).1.d = e.d
      rw [i3, hst]
    · show (encodeMany (e.encode b c).st rest c).1.p = e.p
      rw [i4, hst]
    · show (encodeMany (e.encode b c).st rest c).1.paws = e.paws
      rw [i5, hst]
    · have e1 : e.encode b true = e.encode b false := encode_cont_irrel e b hm
      have i6' : encodeMany (e.encode b true).st rest true = encodeMany (e.encode b true).st rest false := by
        cases c
        · rw [e1]; exact i6
        · exact i6
      show ((encodeMany (e.encode b true).st rest true).1, _ :: (encodeMany (e.encode b true).st rest true).2) =
        ((encodeMany (e.encode b false).st rest false).1, _ :: (encodeMany (e.encode b false).st rest false).2)
      rw [i6', e1]

/-! ### the history invariant -/

/-- datagrams of the core that go through `encode` (the output callback drops shorter ones) -/
def bigCount (l : List Bytes) : Nat := (l.filter fun o => decide (IKCP_OVERHEAD ≤ o.length)).length

theorem bigCount_append (a b : List Bytes) : bigCount (a ++ b) = bigCount a + bigCount b := by
  unfold bigCount; rw [List.filter_append, List.length_append]

/-- **range hypothesis**: the group being filled still lies below the wrap value of the FEC ids
(`paws = 0xffffffff / n * n`): fewer than `paws / n * d` datagrams have been encoded -/
def NoWrap (d p : Nat) (cw : List Bytes) : Prop :=
  (bigCount cw / d + 1) * (d + p) ≤ (pawsOf (d + p)).toNat

instance (d p : Nat) (cw : List Bytes) : Decidable (NoWrap d p cw) := by unfold NoWrap; infer_instance

theorem NoWrap.mono {d p : Nat} {a b : List Bytes} (h : NoWrap d p (a ++ b)) : NoWrap d p a := by
  unfold NoWrap at h ⊢
  rw [bigCount_append] at h
  have : bigCount a / d ≤ (bigCount a + bigCount b) / d := Nat.div_le_div_right (Nat.le_add_right _ _)
  have := Nat.mul_le_mul_right (d + p) (Nat.add_le_add_right this 1)
  omega

/-- the data packet with index `i` of the group starting at id `base`, for the buffer `b` (8 bytes of
room in front of the datagram) -/
def openPkt (base i : Nat) (b : Bytes) : Bytes :=
  Fec.le32 (BitVec.ofNat 32 (base + i)) ++ Fec.le16 typeData ++ bodyOf (b.drop 8)

/-- the group with index `g` that is still filling, completed with empty placeholder payloads -/
def openGroup (d p g : Nat) (bs : List Bytes) : Group :=
  { d := d, p := p, base := BitVec.ofNat 32 (g * (d + p)),
    payloads := bs.map (List.drop 8) ++ List.replicate (d - bs.length) [] }

/-- the family: finished groups in order, the index is the shard id -/
def famOf (l : List Group) : FecDec.Family := fun id => l[id.toNat]?

structure HistW (C : CodecNew) (d p : Nat) (enc : Option Encoder) (W CW : List Bytes)
    (gs : List Group) (e0 : Encoder) (bs : List Bytes) : Prop where
  inv  : EncInv C e0
  hd   : e0.d = d
  hp   : e0.p = p
  ho   : e0.headerOffset = 0
  hs   : e0.shardCount = 0
  hn   : e0.next = BitVec.ofNat 32 (gs.length * (d + p))
  len  : bs.length < d
  enc  : enc = some (encodeMany e0 bs true).1
  bsok : ∀ b ∈ bs, 8 ≤ b.length ∧ b.length ≤ mtuLimit ∧ b.drop 8 ∈ CW
  gsok : ∀ i G, gs[i]? = some G → G.WF ∧ G.d = d ∧ G.p = p ∧ G.base = BitVec.ofNat 32 (i * (d + p)) ∧
           ∀ k, k < d → G.payloads.getD k [] ∈ CW
  wire : ∀ q ∈ W, (∃ (i : Nat) (G : Group) (j : Nat), gs[i]? = some G ∧ j < G.n ∧ q = G.packet C j) ∨
           (∃ i, i < bs.length ∧ q = openPkt (gs.length * (d + p)) i (bs.getD i []))
  cnt  : bigCount CW = gs.length * d + bs.length

/-- the invariant, conditional on the range hypothesis -/
def Hist (C : CodecNew) (d p : Nat) (enc : Option Encoder) (W CW : List Bytes) : Prop :=
  NoWrap d p CW → ∃ gs e0 bs, HistW C d p enc W CW gs e0 bs

theorem div_group (g d r : Nat) (hr : r < d) : (g * d + r) / d = g := by
  have hd : 0 < d := by omega
  rw [Nat.mul_comm, Nat.mul_add_div hd, Nat.div_eq_of_lt hr, Nat.add_zero]

/-- the shard id of the group with index `i` -/
theorem base_div (i n : Nat) (hn : 0 < n) (h : i * n < 2 ^ 32) (hn2 : n < 2 ^ 32) :
    BitVec.ofNat 32 (i * n) / Fec.u32 n = BitVec.ofNat 32 i := by
  apply BitVec.eq_of_toNat_eq
  have hi : i < 2 ^ 32 := by
    have : i ≤ i * n := Nat.le_mul_of_pos_right i hn
    omega
  unfold Fec.u32
  rw [BitVec.toNat_udiv, BitVec.toNat_ofNat, BitVec.toNat_ofNat, BitVec.toNat_ofNat,
    Nat.mod_eq_of_lt h, Nat.mod_eq_of_lt hn2, Nat.mod_eq_of_lt hi, Nat.mul_div_cancel _ hn]

theorem packet_open (C : CodecNew) (G : Group) (hG : G.WF) (base i : Nat)
    (hb : G.base = BitVec.ofNat 32 base) (hi : i < G.d) :
    G.packet C i = Fec.le32 (BitVec.ofNat 32 (base + i)) ++ Fec.le16 typeData ++ bodyOf (G.payloads.getD i []) := by
  have hjl : i < G.payloads.length := by rw [hG.count]; exact hi
  rw [packet_data C G hi, hb, ← BitVec.ofNat_add]
  have hbd : G.bodies.getD i [] = bodyOf (G.payloads.getD i []) := by
    unfold Group.bodies
    rw [List.getD_eq_getElem?_getD, List.getD_eq_getElem?_getD, List.getElem?_map,
      List.getElem?_eq_getElem hjl]
    rfl
  rw [hbd]

theorem openGroup_payload (d p g : Nat) (bs : List Bytes) (i : Nat) :
    (openGroup d p g bs).payloads.getD i [] = if i < bs.length then (bs.getD i []).drop 8 else [] := by
  unfold openGroup
  simp only []
  rw [List.getD_eq_getElem?_getD, List.getD_eq_getElem?_getD]
  by_cases hi : i < bs.length
  · rw [if_pos hi, List.getElem?_append_left (by simpa using hi), List.getElem?_map,
      List.getElem?_eq_getElem hi]
    rfl
  · rw [if_neg hi, List.getElem?_append_right (by simpa using hi)]
    cases h : (List.replicate (d - bs.length) ([] : Bytes))[i - (bs.map (List.drop 8)).length]? with
    | none => rfl
    | some x =>
      have := List.mem_of_getElem? h
      rw [(List.mem_replicate.mp this).2]; rfl

theorem mtuLimit_ge8 : 8 ≤ mtuLimit := by decide

/-- the group that is still filling, with placeholders, is well formed -/
theorem openGroup_wf {C : CodecNew} {d p : Nat} {e0 : Encoder} (inv : EncInv C e0) (hd : e0.d = d) (hp : e0.p = p)
    (g : Nat) (bs : List Bytes) (hlen : bs.length ≤ d)
    (hbs : ∀ b ∈ bs, 8 ≤ b.length ∧ b.length ≤ mtuLimit)
    (hbelow : (g + 1) * (d + p) ≤ (pawsOf (d + p)).toNat) : (openGroup d p g bs).WF := by
  have hn : e0.n = d + p := by rw [inv.n_eq, hd, hp]
  have hlt := (pawsOf (d + p)).isLt
  have hgn : g * (d + p) < 2 ^ 32 := by
    have : (g + 1) * (d + p) = g * (d + p) + (d + p) := by rw [Nat.add_mul, Nat.one_mul]
    omega
  have hbase : (openGroup d p g bs).base.toNat = g * (d + p) := by
    show (BitVec.ofNat 32 (g * (d + p))).toNat = _
    rw [BitVec.toNat_ofNat, Nat.mod_eq_of_lt hgn]
  refine ⟨by rw [← hd]; exact inv.d_pos, by rw [← hp]; exact inv.p_pos, ?_, ?_, ?_, ?_, ?_⟩
  · show d + p ≤ 256
    rw [← hn]; exact inv.n_le
  · show (bs.map (List.drop 8) ++ List.replicate (d - bs.length) []).length = d
    rw [List.length_append, List.length_map, List.length_replicate]; omega
  · intro pl hpl
    have hpl' : pl ∈ bs.map (List.drop 8) ++ List.replicate (d - bs.length) [] := hpl
    rcases List.mem_append.mp hpl' with h1 | h1
    · obtain ⟨b, hb, rfl⟩ := List.mem_map.mp h1
      have := hbs b hb
      rw [List.length_drop]
      unfold fecHeaderSize
      omega
    · rw [(List.mem_replicate.mp h1).2]
      have := mtuLimit_ge8
      unfold fecHeaderSize
      simp only [List.length_nil]; omega
  · show (openGroup d p g bs).base.toNat % (d + p) = 0
    rw [hbase, Nat.mul_mod_left]
  · show (openGroup d p g bs).base.toNat + (d + p) ≤ (pawsOf (d + p)).toNat
    rw [hbase]
    have : (g + 1) * (d + p) = g * (d + p) + (d + p) := by rw [Nat.add_mul, Nat.one_mul]
    omega

/-- **the history invariant gives the premise of the decoder's soundness**: one family for
everything on the wire, whose payloads are core output or empty placeholders -/
theorem hist_genuine {C : CodecNew} {d p : Nat} {enc : Option Encoder} {W CW : List Bytes}
    {gs : List Group} {e0 : Encoder} {bs : List Bytes} (h : HistW C d p enc W CW gs e0 bs)
    (hw : NoWrap d p CW) :
    ∃ grp : FecDec.Family, (∀ q ∈ W, FecDec.GenuinePkt C grp d p q) ∧
      ∀ (G : Group) (k : Nat), grp (G.base / Fec.u32 G.n) = some G → k < G.d →
        G.payloads.getD k [] ∈ CW ∨ (G.payloads.getD k []).length < IKCP_OVERHEAD := by
  have hdpos : 0 < d := by rw [← h.hd]; exact h.inv.d_pos
  have hnle : d + p ≤ 256 := by rw [← h.hd, ← h.hp, ← h.inv.n_eq]; exact h.inv.n_le
  have hbelow : (gs.length + 1) * (d + p) ≤ (pawsOf (d + p)).toNat := by
    unfold NoWrap at hw
    rw [h.cnt, div_group _ _ _ h.len] at hw
    exact hw
  have hlt := (pawsOf (d + p)).isLt
  have hexp : (gs.length + 1) * (d + p) = gs.length * (d + p) + (d + p) := by rw [Nat.add_mul, Nat.one_mul]
  have hO : (openGroup d p gs.length bs).WF :=
    openGroup_wf h.inv h.hd h.hp gs.length bs (Nat.le_of_lt h.len) (fun b hb => ⟨(h.bsok b hb).1, (h.bsok b hb).2.1⟩) hbelow
  have hidx : ∀ i, i ≤ gs.length → i * (d + p) < 2 ^ 32 := by
    intro i hi
    have : i * (d + p) ≤ gs.length * (d + p) := Nat.mul_le_mul_right _ hi
    omega
  have hkey : ∀ i, i ≤ gs.length →
      famOf (gs ++ [openGroup d p gs.length bs]) (BitVec.ofNat 32 (i * (d + p)) / Fec.u32 (d + p)) =
        (gs ++ [openGroup d p gs.length bs])[i]? := by
    intro i hi
    rw [base_div i (d + p) (by omega) (hidx i hi) (by omega)]
    unfold famOf
    have hi32 : i < 2 ^ 32 := by
      have : i ≤ i * (d + p) := Nat.le_mul_of_pos_right i (by omega)
      have := hidx i hi
      omega
    rw [BitVec.toNat_ofNat, Nat.mod_eq_of_lt hi32]
  refine ⟨famOf (gs ++ [openGroup d p gs.length bs]), ?_, ?_⟩
  · intro q hq
    rcases h.wire q hq with ⟨i, G, j, hG, hj, rfl⟩ | ⟨i, hi, rfl⟩
    · obtain ⟨g1, g2, g3, g4, _⟩ := h.gsok i G hG
      have hil : i < gs.length := by
        rcases Nat.lt_or_ge i gs.length with h2 | h2
        · exact h2
        · rw [List.getElem?_eq_none h2] at hG; cases hG
      refine ⟨G, j, ?_, g1, g2, g3, hj, rfl⟩
      have hn : G.n = d + p := by unfold Group.n; rw [g2, g3]
      rw [hn, g4, hkey i (Nat.le_of_lt hil), List.getElem?_append_left hil]
      exact hG
    · refine ⟨openGroup d p gs.length bs, i, ?_, hO, rfl, rfl, ?_, ?_⟩
      · show famOf _ (BitVec.ofNat 32 (gs.length * (d + p)) / Fec.u32 (d + p)) = _
        rw [hkey gs.length (Nat.le_refl _), List.getElem?_append_right (Nat.le_refl _)]
        simp
      · show i < d + p
        have := h.len; omega
      · rw [packet_open C _ hO (gs.length * (d + p)) i rfl (by show i < d; have := h.len; omega),
          openGroup_payload, if_pos hi]
        rfl
  · intro G k hG hk
    have hmem : G ∈ gs ++ [openGroup d p gs.length bs] := by
      unfold famOf at hG
      exact List.mem_of_getElem? hG
    rcases List.mem_append.mp hmem with h1 | h1
    · obtain ⟨i, hi⟩ := List.getElem?_of_mem h1
      obtain ⟨_, g2, _, _, g5⟩ := h.gsok i G hi
      left; exact g5 k (by rw [← g2]; exact hk)
    · have hGe : G = openGroup d p gs.length bs := List.mem_singleton.mp h1
      rw [hGe, openGroup_payload]
      by_cases hi : k < bs.length
      · rw [if_pos hi]
        left
        have hb : bs.getD k [] ∈ bs := by
          rw [List.getD_eq_getElem?_getD, List.getElem?_eq_getElem hi]
          exact List.getElem_mem hi
        exact (h.bsok _ hb).2.2
      · rw [if_neg hi]
        right
        show 0 < IKCP_OVERHEAD
        decide

/-! ### one `encode` call -/

theorem encodeMany_length (c : Bool) : ∀ (bs : List Bytes) (e : Encoder), (encodeMany e bs c).2.length = bs.length := by
  intro bs
  induction bs with
  | nil => intro e; rfl
  | cons b rest ih => intro e; show ((_, _) :: (encodeMany (e.encode b c).st rest c).2).length = _; simp [ih]

theorem getD_snoc_lt (bs : List Bytes) (b : Bytes) (i : Nat) (hi : i < bs.length) :
    (bs ++ [b]).getD i [] = bs.getD i [] := by
  rw [List.getD_eq_getElem?_getD, List.getD_eq_getElem?_getD, List.getElem?_append_left hi]

theorem getD_snoc_eq (bs : List Bytes) (b : Bytes) : (bs ++ [b]).getD bs.length [] = b := by
  rw [List.getD_eq_getElem?_getD, List.getElem?_append_right (Nat.le_refl _)]
  simp

theorem getD_mem (bs : List Bytes) (i : Nat) (hi : i < bs.length) : bs.getD i [] ∈ bs := by
  rw [List.getD_eq_getElem?_getD, List.getElem?_eq_getElem hi]
  exact List.getElem_mem hi

/-- **the invariant is kept by one `encode` call** of a datagram `o` the core emitted (8 bytes of room
in front), whatever the time test says -/
theorem hist_encode {C : CodecNew} (hC : Lawful C) {d p : Nat} {e : Encoder} {W CW : List Bytes}
    (h : Hist C d p (some e) W CW) (o : Bytes) (ho : IKCP_OVERHEAD ≤ o.length) (cont : Bool)
    (hp : (e.encode (List.replicate fecHeaderSizePlus2 0 ++ o) cont).panic = false) :
    Hist C d p (some (e.encode (List.replicate fecHeaderSizePlus2 0 ++ o) cont).st)
      (W ++ ((e.encode (List.replicate fecHeaderSizePlus2 0 ++ o) cont).data ::
        (e.encode (List.replicate fecHeaderSizePlus2 0 ++ o) cont).parity)) (CW ++ [o]) := by
  intro hw'
  obtain ⟨gs, e0, bs, H⟩ := h hw'.mono
  generalize hb : List.replicate fecHeaderSizePlus2 0 ++ o = b at hp ⊢
  have hbd : b.drop 8 = o := by rw [← hb]; exact List.drop_left' (by simp [fecHeaderSizePlus2])
  have hbl : b.length = 8 + o.length := by rw [← hb]; simp [fecHeaderSizePlus2]; omega
  have he : e = (encodeMany e0 bs true).1 := Option.some.inj H.enc
  have hsz : ∀ x ∈ bs, e0.headerOffset + fecHeaderSize + 2 ≤ x.length ∧ x.length ≤ mtuLimit := by
    intro x hx
    have := H.bsok x hx
    rw [H.ho]; unfold fecHeaderSize; omega
  obtain ⟨m1, m2, m3, m4, m5, m6⟩ := encodeMany_mid (C := C) true bs e0 H.inv hsz (by rw [H.hs, H.hd]; have := H.len; omega)
  obtain ⟨hinv, hoff⟩ := inv_encodeMany (C := C) true bs e0 H.inv hsz
  rw [← he] at m1 m2 m3 m4 m5 hinv hoff
  rw [H.ho] at hoff
  rw [H.hs, Nat.zero_add] at m2
  have hpo : e.payloadOffset + 2 = 8 := by unfold Encoder.payloadOffset fecHeaderSize; rw [hoff]
  obtain ⟨hb1, hb2⟩ := encode_panic_false hp
  have hcnt : bigCount (CW ++ [o]) = gs.length * d + bs.length + 1 := by
    rw [bigCount_append, H.cnt]
    unfold bigCount
    simp [ho]
  have hdpos : 0 < d := by rw [← H.hd]; exact H.inv.d_pos
  have hnext : e.next = BitVec.ofNat 32 (gs.length * (d + p) + bs.length) := by
    rw [m1, H.hn, ← BitVec.ofNat_add]
  have hdata : (e.encode b cont).data = openPkt (gs.length * (d + p)) bs.length b := by
    rw [encode_data hb1 hb2, hoff, hpo, hnext]
    rfl
  have hCWmono : ∀ x, x ∈ CW → x ∈ CW ++ [o] := fun x hx => List.mem_append_left _ hx
  have hgsok : ∀ i G, gs[i]? = some G → G.WF ∧ G.d = d ∧ G.p = p ∧ G.base = BitVec.ofNat 32 (i * (d + p)) ∧
      ∀ k, k < d → G.payloads.getD k [] ∈ CW ++ [o] := by
    intro i G hG
    obtain ⟨g1, g2, g3, g4, g5⟩ := H.gsok i G hG
    exact ⟨g1, g2, g3, g4, fun k hk => hCWmono _ (g5 k hk)⟩
  have hbsok : ∀ x ∈ bs ++ [b], 8 ≤ x.length ∧ x.length ≤ mtuLimit ∧ x.drop 8 ∈ CW ++ [o] := by
    intro x hx
    rcases List.mem_append.mp hx with h1 | h1
    · obtain ⟨a1, a2, a3⟩ := H.bsok x h1
      exact ⟨a1, a2, hCWmono _ a3⟩
    · rw [List.mem_singleton.mp h1, hbd]
      exact ⟨by omega, hb2, by simp⟩
  by_cases hm : bs.length + 1 = d
  · -- the group fills
    have hbelow2 : (gs.length + 2) * (d + p) ≤ (pawsOf (d + p)).toNat := by
      unfold NoWrap at hw'
      rw [hcnt] at hw'
      have : (gs.length * d + bs.length + 1) / d = gs.length + 1 := by
        have : gs.length * d + bs.length + 1 = (gs.length + 1) * d + 0 := by rw [Nat.add_mul]; omega
        rw [this, div_group _ _ _ hdpos]
      rw [this] at hw'
      exact hw'
    have hexp2 : (gs.length + 2) * (d + p) = (gs.length + 1) * (d + p) + (d + p) := by
      have : gs.length + 2 = (gs.length + 1) + 1 := rfl
      rw [this, Nat.add_mul, Nat.one_mul]
    have hexp1 : (gs.length + 1) * (d + p) = gs.length * (d + p) + (d + p) := by rw [Nat.add_mul, Nat.one_mul]
    have hppos : 0 < p := by rw [← H.hp]; exact H.inv.p_pos
    have hlt := (pawsOf (d + p)).isLt
    have hbs'len : (bs ++ [b]).length = d := by rw [List.length_append]; simpa using hm
    have hG : (openGroup d p gs.length (bs ++ [b])).WF :=
      openGroup_wf H.inv H.hd H.hp gs.length (bs ++ [b]) (by omega)
        (fun x hx => ⟨(hbsok x hx).1, (hbsok x hx).2.1⟩) (by omega)
    generalize hGdef : openGroup d p gs.length (bs ++ [b]) = G at hG
    have hGd : G.d = d := by rw [← hGdef]; rfl
    have hGp : G.p = p := by rw [← hGdef]; rfl
    have hGn : G.n = d + p := by unfold Group.n; rw [hGd, hGp]
    have hGb : G.base = BitVec.ofNat 32 (gs.length * (d + p)) := by rw [← hGdef]; rfl
    have hGpl : G.payloads = (bs ++ [b]).map (List.drop 8) := by
      rw [← hGdef]
      show (bs ++ [b]).map (List.drop 8) ++ List.replicate (d - (bs ++ [b]).length) [] = _
      rw [hbs'len, Nat.sub_self]; simp
    have hpo0 : e0.payloadOffset + 2 = 8 := by unfold Encoder.payloadOffset fecHeaderSize; rw [H.ho]
    obtain ⟨a1, _, a3⟩ := enc_group hC hG H.inv (by rw [H.hd, hGd]) (by rw [H.hp, hGp]) H.hs (by rw [H.hn, hGb])
      (bs := bs ++ [b]) (by rw [hpo0, hGpl])
      (by intro x hx; rw [hpo0]; exact ⟨(hbsok x hx).1, (hbsok x hx).2.1⟩) cont
    obtain ⟨s1, s2⟩ := encodeMany_snoc cont bs e0 b
    have hirr : encodeMany e0 bs cont = encodeMany e0 bs true := by
      cases cont
      · exact m6.symm
      · rfl
    rw [hirr, ← he] at s1 s2
    -- the new group-start encoder
    have hst : (e.encode b cont).st = { e0 with next := advance G.base G.n e0.paws } := by rw [← s1, a1]
    have hinv' : EncInv C { e0 with next := advance G.base G.n e0.paws } := by
      have := (inv_encodeMany (C := C) cont (bs ++ [b]) e0 H.inv (by
        intro x hx; rw [H.ho]; unfold fecHeaderSize; have := hbsok x hx; omega)).1
      rw [a1] at this; exact this
    have hpaws : e0.paws = pawsOf G.n := by rw [H.inv.paws_eq, H.inv.n_eq, H.hd, H.hp, hGn]
    have hbaseN : G.base.toNat = gs.length * (d + p) := by
      rw [hGb, BitVec.toNat_ofNat, Nat.mod_eq_of_lt (by omega)]
    have hnext' : advance G.base G.n e0.paws = BitVec.ofNat 32 ((gs.length + 1) * (d + p)) := by
      apply BitVec.eq_of_toNat_eq
      rw [hpaws, (group_next hG).2.1, hbaseN, hGn, BitVec.toNat_ofNat, Nat.mod_eq_of_lt (by omega)]
      rw [if_neg (by omega)]; omega
    -- the last call's output
    have hlast : (e.encode b cont).data = G.packet C (d - 1) ∧
        (e.encode b cont).parity = if cont = true then (List.range G.p).map (fun k => G.packet C (G.d + k)) else [] := by
      have h1 := a3 (d - 1) (by rw [hGd]; omega)
      rw [s2, List.getElem?_append_right (by rw [encodeMany_length]; omega), encodeMany_length] at h1
      have hz : d - 1 - bs.length = 0 := by omega
      rw [hz] at h1
      simp only [List.getElem?_cons_zero, Option.some.injEq, Prod.mk.injEq, H.ho, List.take_zero, List.nil_append,
        List.replicate_zero] at h1
      refine ⟨h1.1, ?_⟩
      rw [h1.2]
      have : d - 1 + 1 = G.d := by rw [hGd]; omega
      simp only [this, true_and]
    refine ⟨gs ++ [G], { e0 with next := advance G.base G.n e0.paws }, [], ?_⟩
    refine ⟨hinv', H.hd, H.hp, H.ho, H.hs, ?_, hdpos, ?_, (fun x hx => by cases hx), ?_, ?_, ?_⟩
    · show advance G.base G.n e0.paws = _
      rw [hnext', List.length_append]; rfl
    · rw [hst]; rfl
    · -- finished groups
      intro i G' hG'
      rcases Nat.lt_or_ge i gs.length with hi | hi
      · rw [List.getElem?_append_left hi] at hG'
        exact hgsok i G' hG'
      · rw [List.getElem?_append_right hi] at hG'
        have hi0 : i - gs.length = 0 := by
          rcases Nat.eq_zero_or_pos (i - gs.length) with h0 | h0
          · exact h0
          · rw [List.getElem?_eq_none (by simp only [List.length_singleton]; omega)] at hG'; cases hG'
        rw [hi0] at hG'
        have hGG : G = G' := by simpa using hG'
        have hii : i = gs.length := by omega
        rw [← hGG, hii]
        refine ⟨hG, hGd, hGp, hGb, fun k hk => ?_⟩
        rw [← hGdef, openGroup_payload, if_pos (by omega)]
        exact (hbsok _ (getD_mem _ k (by omega))).2.2
    · -- the wire
      intro q hq
      left
      rcases List.mem_append.mp hq with h1 | h1
      · rcases H.wire q h1 with ⟨i, G', j, g1, g2, g3⟩ | ⟨i, hi, rfl⟩
        · have hil : i < gs.length := by
            rcases Nat.lt_or_ge i gs.length with h2 | h2
            · exact h2
            · rw [List.getElem?_eq_none h2] at g1; cases g1
          exact ⟨i, G', j, by rw [List.getElem?_append_left hil]; exact g1, g2, g3⟩
        · refine ⟨gs.length, G, i, by rw [List.getElem?_append_right (Nat.le_refl _)]; simp, by rw [hGn]; omega, ?_⟩
          rw [packet_open C G hG (gs.length * (d + p)) i hGb (by rw [hGd]; omega), ← hGdef, openGroup_payload,
            if_pos (by omega), getD_snoc_lt _ _ _ hi]
          rfl
      · have hgG : (gs ++ [G])[gs.length]? = some G := by
          rw [List.getElem?_append_right (Nat.le_refl _)]; simp
        rcases List.mem_cons.mp h1 with h2 | h2
        · exact ⟨gs.length, G, d - 1, hgG, by rw [hGn]; omega, by rw [h2, hlast.1]⟩
        · rw [hlast.2] at h2
          cases cont
          · simp at h2
          · simp only [↓reduceIte, List.mem_map, List.mem_range] at h2
            obtain ⟨k, hk, rfl⟩ := h2
            exact ⟨gs.length, G, G.d + k, hgG, by unfold Group.n; omega, rfl⟩
    · rw [hcnt, List.length_append]
      show _ = (gs.length + 1) * d + 0
      rw [Nat.add_mul]; omega
  · -- inside the group
    have hmid : e.shardCount + 1 ≠ e.d := by rw [m2, m3, H.hd]; exact hm
    obtain ⟨p1, p2⟩ := encode_mid (cont := cont) hb1 hb2 hmid
    obtain ⟨s1, _⟩ := encodeMany_snoc true bs e0 b
    rw [← he] at s1
    have hirr : e.encode b cont = e.encode b true := by
      cases cont
      · exact (encode_cont_irrel e b hmid).symm
      · rfl
    refine ⟨gs, e0, bs ++ [b], ?_⟩
    have hlen' := H.len
    refine ⟨H.inv, H.hd, H.hp, H.ho, H.hs, H.hn, (by rw [List.length_append]; simp; omega), ?_, hbsok, hgsok, ?_, ?_⟩
    · rw [s1, hirr]
    · intro q hq
      rw [p1] at hq
      rcases List.mem_append.mp hq with h1 | h1
      · rcases H.wire q h1 with hfin | ⟨i, hi, rfl⟩
        · exact Or.inl hfin
        · right
          exact ⟨i, by rw [List.length_append]; omega, by rw [getD_snoc_lt _ _ _ hi]⟩
      · right
        have : q = (e.encode b cont).data := by simpa using h1
        exact ⟨bs.length, by rw [List.length_append]; simp, by rw [this, hdata, getD_snoc_eq]⟩
    · rw [hcnt, List.length_append]; simp; omega

end KcpVerif.C01
