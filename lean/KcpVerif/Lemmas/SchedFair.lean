import KcpVerif.Lemmas.SchedLive
/-!
Helper lemmas for C17, liveness under fairness (`IsRun.eventually_quiescent`).

Why there is no state-based ranking that decreases with EVERY scheduler step: when a timer value
equals the deadline exactly (`v = ts`), the worker's strict `After` fails, it re-arms with duration
0 and returns to the very same state (the spin of `Props.demoRun`, steps 24-26) — any number of
times while the clock stands still.  Only the divergence of time ends it.  So the argument is:

1. submissions pause at `N0`; `D` := the largest submitted deadline; time diverges, so from some
   `Ns` on `D < now`;
2. from then on every clock reading taken is *fresh* (`> D`) and pops everything; the variant
   `mu D` (stage-1 weights + per worker `phi D`: the number of steps the worker and its timer can
   still take — at most two timer cycles, one on a stale value armed before `Ns`) strictly
   decreases with every step that is not a `tick` and does not depend on `now` (`mu_step`);
3. hence after some `N2` only ticks happen (`nat_desc`); if a task were still pending, some
   non-`Put` step would be enabled after enough time (`no_deadlock`), enabledness only grows with
   time (`step_isSome_mono`) and nothing but the clock changes, so it stays enabled for ever and
   weak fairness takes it — contradiction.
-/
namespace KcpVerif.Sched

/-! ### a variant for the time after the last deadline

`D` is a bound on every submitted deadline.  Once `D < now`, a clock reading is *fresh* if it is
`> D`: a fresh reading pops everything.  `phi D w` bounds the number of steps worker `w` (and the
runtime on its timer) can still take until it rests at its `select` with an idle timer; it does
not depend on `now`. -/

/-- cost of the timer state of a worker that stands at its `select` with `h` tasks in its heap -/
def selCost (D : Time) (h : Nat) (t : Timer) : Nat :=
  match t.chan with
  | some v => if D < v then h + 2 else h + 5
  | none =>
    match t.armed with
    | some wh => if D < wh then h + 3 else h + 6
    | none => 0

def phi (D : Time) (w : Worker) : Nat :=
  match w.pc with
  | .select => selCost D w.heap.length w.timer
  | .gotTask _ => selCost D w.heap.length w.timer + 1
  | .pushed _ => w.heap.length + 6 + (if w.timer.armed.isSome then 1 else 0)
  | .stopped _ _ => w.heap.length + 5
  | .reset _ => w.heap.length + 4
  | .loop v => if D < v then w.heap.length + 1 else w.heap.length + 4

theorem reset_armed (m : Mode) (t : Timer) (x : Time) : (t.reset m x).armed = some x := by
  cases m <;> rfl

theorem reset_chan_of_idle (m : Mode) (t : Timer) (x : Time) (h : t.chan = none) :
    (t.reset m x).chan = none := by
  cases m <;> simp [Timer.reset, h]

theorem selCost_fire {D : Time} {h : Nat} {t : Timer} {wh v : Time} (ha : t.armed = some wh)
    (hc : t.chan = none) (hv : wh ≤ v) : selCost D h (t.fire v) < selCost D h t := by
  simp only [selCost, Timer.fire, hc, ha]
  by_cases h1 : D < wh
  · have h2 : D < v := Nat.lt_of_lt_of_le h1 hv
    simp only [h1, h2, if_true]; omega
  · simp only [h1, if_false]
    split <;> omega

/-- a quiet worker whose timer is armed has an empty channel -/
theorem quiet_armed_chan {now : Time} {w : Worker} {wh : Time} (hq : w.quiet now)
    (ha : w.timer.armed = some wh) : w.timer.chan = none := by
  obtain ⟨h1, h2, _⟩ := hq
  cases hd : w.drained
  · rcases h2 hd with ⟨_, hc⟩ | ⟨hn, _⟩
    · exact hc
    · simp [hn] at ha
  · exact (h1 hd).1.2

theorem phi_decreases {m : Mode} {now D : Time} {w : Worker} {l : WLabel} {out : WOut}
    (hinv : WInv m now w) (hD : D < now) (hts : ∀ t, t ∈ held w → t.ts ≤ D)
    (hs : wstep m now w l = some out) : phi D out.w < phi D w := by
  obtain ⟨hc, hpc⟩ := hinv
  cases l with
  | readNow =>
    unfold wstep at hs; dsimp only at hs
    split at hs <;> try contradiction
    rename_i t hp
    have htD : t.ts ≤ D := hts t (by simp [held, hp])
    have hlt : t.ts < now := Nat.lt_of_le_of_lt htD hD
    simp only [hlt, if_true] at hs
    cases hs
    simp only [phi, hp]; omega
  | stop =>
    unfold wstep at hs; dsimp only at hs
    split at hs <;> try contradiction
    rename_i n hp
    cases hs
    simp only [phi, hp]; omega
  | drain =>
    unfold wstep at hs; dsimp only at hs
    split at hs <;> try contradiction
    rename_i n st hp
    split at hs
    · split at hs <;> cases hs
      simp only [phi, hp]; omega
    · cases hs
      simp only [phi, hp]; omega
  | reset =>
    unfold wstep at hs; dsimp only at hs
    split at hs <;> try contradiction
    rename_i n hp
    simp only [hp] at hpc
    cases hs
    have hfresh : D < now + (minTs w.heap - n) := Nat.lt_of_lt_of_le hD (Nat.le_add_right _ _)
    simp only [phi, hp, selCost, reset_chan_of_idle m _ _ hpc.2.2, reset_armed, hfresh, if_true]
    omega
  | recvTimer =>
    unfold wstep at hs; dsimp only at hs
    split at hs <;> try contradiction
    rename_i hp
    split at hs <;> try contradiction
    rename_i v hv
    cases hs
    simp only [phi, hp, selCost, hv]
    split <;> omega
  | pop t =>
    unfold wstep at hs; dsimp only at hs
    split at hs <;> try contradiction
    rename_i v hp
    split at hs <;> cases hs
    rename_i hcond
    have hlen := List.length_erase_of_mem hcond.1
    have hpos : 0 < w.heap.length := List.length_pos_of_mem hcond.1
    simp only [phi, hp, hlen]
    split <;> omega
  | loopEnd =>
    unfold wstep at hs; dsimp only at hs
    split at hs <;> try contradiction
    rename_i v hp
    simp only [hp] at hpc
    obtain ⟨_, ⟨ha, hch⟩, _⟩ := hpc
    split at hs
    · cases hs
      simp only [phi, hp, selCost, hch, ha]
      split <;> omega
    · rename_i hne
      split at hs <;> cases hs
      rename_i hmin
      have hstale : ¬ D < v := by
        intro hf
        obtain ⟨t, ht, hte⟩ := minTs_mem hne
        have htD : t.ts ≤ D := hts t (by simp [held, hp, ht])
        apply hmin
        rw [← hte]
        exact Nat.lt_of_le_of_lt htD hf
      have hfresh : D < now + (minTs w.heap - v) := Nat.lt_of_lt_of_le hD (Nat.le_add_right _ _)
      simp only [phi, hp, selCost, reset_chan_of_idle m _ _ hch, reset_armed, hfresh, hstale, if_true, if_false]
      omega
  | fire v =>
    unfold wstep at hs; dsimp only at hs
    split at hs <;> try contradiction
    rename_i wh hwh
    split at hs <;> cases hs
    rename_i hcond
    cases hp : w.pc <;> simp only [hp] at hpc
    · simp only [phi, hp]
      exact selCost_fire hwh (quiet_armed_chan hpc hwh) hcond.2.1
    · simp only [phi, hp]
      have := selCost_fire (D := D) (h := w.heap.length) hwh (quiet_armed_chan hpc hwh) hcond.2.1
      omega
    · simp only [phi, hp, Timer.fire, hwh]
      simp
    · simp [hpc.2.1] at hwh
    · simp [hpc.2.1] at hwh
    · simp [hpc.2.1.1] at hwh


def phiAll (D : Time) (ws : List Worker) : Nat := (ws.map (phi D)).sum

theorem phiAll_set {D : Time} : ∀ {ws : List Worker} {i : Nat} {w w' : Worker}, ws[i]? = some w →
    phiAll D (ws.set i w') + phi D w = phiAll D ws + phi D w'
  | [], i, w, w', h => by simp at h
  | x :: ws, 0, w, w', h => by
    simp only [List.getElem?_cons_zero, Option.some.injEq] at h
    subst h
    simp only [phiAll, List.set_cons_zero, List.map_cons, List.sum_cons]
    omega
  | x :: ws, i + 1, w, w', h => by
    simp only [List.getElem?_cons_succ] at h
    have ih := phiAll_set (D := D) (w' := w') h
    simp only [phiAll, List.set_cons_succ, List.map_cons, List.sum_cons] at ih ⊢
    omega

/-- the variant: stage 1 weights plus the workers' potentials; independent of `now` -/
def mu (D : Time) (s : State) : Nat :=
  3 * s.pend + (if s.ntok = true then 2 else 0) + (match s.ppc with | .gotToken => 1 | .idle => 0)
    + 3 * s.pre.length + 2 * s.batch.length + phiAll D s.ws

theorem held_sub {m : Mode} {k : Nat} {t0 : Time} {s : State} (h : Reachable m k t0 s) {i : Nat}
    {w : Worker} (hw : s.ws[i]? = some w) {t : Task} (ht : t ∈ held w) : t ∈ s.sub := by
  have h1 : 0 < (held w).count t := List.count_pos_iff.mpr ht
  have h2 := held_le_heldAll (a := t) hw
  have h3 := h.invC.1 t
  exact List.count_pos_iff.mp (by omega)

/-- after the last deadline every step of the scheduler or of the runtime strictly decreases the
    variant; the passing of time leaves it unchanged -/
theorem mu_step {m : Mode} {k : Nat} {t0 D : Time} {s s' : State} {l : Label}
    (h : Reachable m k t0 s) (hD : D < s.now) (hsub : ∀ t, t ∈ s.sub → t.ts ≤ D)
    (hs : step m s l = some s') (hput : ∀ id ts, l ≠ .put id ts) :
    (∀ d, l ≠ .tick d) → mu D s' < mu D s := by
  intro hnt
  cases l with
  | tick d => exact absurd rfl (hnt d)
  | put id ts => exact absurd rfl (hput id ts)
  | notify =>
    simp only [Sched.step] at hs; split at hs <;> cases hs
    rename_i hp
    simp only [mu]
    split <;> simp <;> omega
  | takeToken =>
    simp only [Sched.step] at hs; split at hs <;> cases hs
    rename_i hc
    simp [mu, hc.1, hc.2.2]
  | swap =>
    simp only [Sched.step] at hs; split at hs <;> cases hs
    rename_i hg
    have hb := h.invC.2 hg
    simp only [mu, hg, hb, List.length_nil]
    omega
  | handoff i =>
    obtain ⟨t, rest, w, w', hidle, hb, hw, hw', rfl⟩ := step_handoff hs
    have hset := phiAll_set (D := D) (w' := w') hw
    have hphi : phi D w' = phi D w + 1 := by
      unfold Worker.recvTask at hw'
      split at hw' <;> cases hw'
      rename_i hp
      simp [phi, hp]
    simp only [mu, hb, List.length_cons]
    omega
  | w i l =>
    obtain ⟨w, out, hw, ho, rfl⟩ := step_w hs
    have hmem := List.mem_of_getElem? hw
    have hdec := phi_decreases (D := D) (h.invW w hmem) hD
      (fun t ht => hsub t (held_sub h hw ht)) ho
    have hset := phiAll_set (D := D) (w' := out.w) hw
    simp only [mu, logExec_pend, logExec_ntok, logExec_ppc, logExec_pre, logExec_batch, logExec_ws]
    omega

theorem mu_tick (D : Time) (s : State) (d : Nat) : mu D { s with now := s.now + d } = mu D s := rfl


/-! ### enabledness only grows with time -/

theorem wstep_isSome_mono {m : Mode} {a b : Time} {w : Worker} {l : WLabel}
    (h : (wstep m a w l).isSome) (hab : a ≤ b) : (wstep m b w l).isSome := by
  cases l with
  | readNow =>
    cases hp : w.pc <;> simp [wstep, hp] at h ⊢
    split <;> rfl
  | stop => cases hp : w.pc <;> simp [wstep, hp] at h ⊢
  | drain => cases hp : w.pc <;> simp only [wstep, hp] at h ⊢ <;> exact h
  | reset => cases hp : w.pc <;> simp [wstep, hp] at h ⊢
  | recvTimer => cases hp : w.pc <;> simp only [wstep, hp] at h ⊢ <;> exact h
  | pop t => cases hp : w.pc <;> simp only [wstep, hp] at h ⊢ <;> exact h
  | loopEnd =>
    cases hp : w.pc <;> simp only [wstep, hp] at h ⊢ <;> try exact h
    split
    · rfl
    · rename_i hne
      simp only [hne, if_false] at h
      split
      · rename_i hlt; simp [hlt] at h
      · rfl
  | fire v =>
    simp only [wstep] at h ⊢
    split <;> rename_i hx <;> simp only [hx] at h
    · rename_i wh
      split at h
      · rename_i hc
        have : wh ≤ b ∧ wh ≤ v ∧ v ≤ b := ⟨Nat.le_trans hc.1 hab, hc.2.1, Nat.le_trans hc.2.2 hab⟩
        simp [this]
      · cases h
    · cases h

theorem step_isSome_mono {m : Mode} {s : State} {a b : Time} {l : Label}
    (h : (step m { s with now := a } l).isSome) (hab : a ≤ b) : (step m { s with now := b } l).isSome := by
  cases l with
  | tick d => rfl
  | put id ts => simp only [Sched.step] at h ⊢; split <;> simp_all
  | notify => simp only [Sched.step] at h ⊢; split <;> simp_all
  | takeToken => simp only [Sched.step] at h ⊢; split <;> simp_all
  | swap => simp only [Sched.step] at h ⊢; split <;> simp_all
  | handoff i =>
    simp only [Sched.step] at h ⊢
    split <;> rename_i hx <;> simp only [hx] at h
    · split <;> rename_i hb <;> simp only [hb] at h
      · cases h
      · split <;> rename_i hw <;> simp only [hw] at h
        · cases h
        · split <;> rename_i hr <;> simp only [hr] at h
          · cases h
          · rfl
    · cases h
  | w i l =>
    simp only [Sched.step] at h ⊢
    split <;> rename_i hw <;> simp only [hw] at h
    · cases h
    · rename_i w
      cases ho : wstep m a w l with
      | none => simp [ho] at h
      | some out =>
        have := wstep_isSome_mono (m := m) (w := w) (l := l) (by simp [ho]) hab
        obtain ⟨out', ho'⟩ := Option.isSome_iff_exists.mp this
        simp [ho']


/-! ### infinite runs -/

/-- a non-increasing sequence of naturals decreases strictly only finitely often -/
theorem nat_desc (f : Nat → Nat) (P : Nat → Prop) : ∀ (b N : Nat), f N ≤ b →
    (∀ n, N ≤ n → f (n + 1) ≤ f n) → (∀ n, N ≤ n → P n → f (n + 1) < f n) →
    ∃ N2, N ≤ N2 ∧ ∀ n, N2 ≤ n → ¬ P n := by
  intro b
  induction b with
  | zero =>
    intro N hb hmono hstrict
    refine ⟨N, Nat.le_refl _, fun n hn hp => ?_⟩
    have hle : ∀ j, f (N + j) ≤ f N := by
      intro j
      induction j with
      | zero => exact Nat.le_refl _
      | succ j ih => exact Nat.le_trans (hmono (N + j) (Nat.le_add_right _ _)) ih
    have h1 := hstrict n hn hp
    have h2 := hle (n - N)
    have : N + (n - N) = n := by omega
    rw [this] at h2
    omega
  | succ b ih =>
    intro N hb hmono hstrict
    by_cases hall : ∀ n, N ≤ n → ¬ P n
    · exact ⟨N, Nat.le_refl _, hall⟩
    · have : ∃ n, N ≤ n ∧ P n := by
        apply Classical.byContradiction
        intro hno
        exact hall (fun n hn hp => hno ⟨n, hn, hp⟩)
      obtain ⟨n, hn, hp⟩ := this
      have hle : ∀ j, f (N + j) ≤ f N := by
        intro j
        induction j with
        | zero => exact Nat.le_refl _
        | succ j ih => exact Nat.le_trans (hmono (N + j) (Nat.le_add_right _ _)) ih
      have h1 := hstrict n hn hp
      have h2 := hle (n - N)
      have : N + (n - N) = n := by omega
      rw [this] at h2
      obtain ⟨N2, hN2, hfin⟩ := ih (n + 1) (by omega)
        (fun x hx => hmono x (by omega)) (fun x hx => hstrict x (by omega))
      exact ⟨N2, by omega, hfin⟩

theorem step_now_mono {m : Mode} {s s' : State} {l : Label} (hs : step m s l = some s') :
    s.now ≤ s'.now := by
  cases l with
  | tick d => simp only [Sched.step, Option.some.injEq] at hs; subst hs; exact Nat.le_add_right _ _
  | put id ts => simp only [Sched.step] at hs; split at hs <;> cases hs; exact Nat.le_refl _
  | notify => simp only [Sched.step] at hs; split at hs <;> cases hs; exact Nat.le_refl _
  | takeToken => simp only [Sched.step] at hs; split at hs <;> cases hs; exact Nat.le_refl _
  | swap => simp only [Sched.step] at hs; split at hs <;> cases hs; exact Nat.le_refl _
  | handoff i =>
    obtain ⟨t, rest, w, w', _, _, _, _, rfl⟩ := step_handoff hs
    exact Nat.le_refl _
  | w i l =>
    obtain ⟨w, out, _, _, rfl⟩ := step_w hs
    simp

theorem step_sub_mono {m : Mode} {s s' : State} {l : Label} (hs : step m s l = some s') {t : Task}
    (ht : t ∈ s.sub) : t ∈ s'.sub := by
  cases l with
  | put id ts =>
    simp only [Sched.step] at hs; split at hs <;> cases hs
    exact List.mem_cons_of_mem _ ht
  | tick d => rw [(step_noput hs (by simp)).1]; exact ht
  | notify => rw [(step_noput hs (by simp)).1]; exact ht
  | takeToken => rw [(step_noput hs (by simp)).1]; exact ht
  | swap => rw [(step_noput hs (by simp)).1]; exact ht
  | handoff i => rw [(step_noput hs (by simp)).1]; exact ht
  | w i l => rw [(step_noput hs (by simp)).1]; exact ht

/-- an upper bound of all deadlines in a list -/
def maxTs : List Task → Time
  | [] => 0
  | t :: l => max t.ts (maxTs l)

theorem le_maxTs : ∀ {l : List Task} {t : Task}, t ∈ l → t.ts ≤ maxTs l
  | [], _, h => by cases h
  | x :: l, t, h => by
    rcases List.mem_cons.mp h with rfl | h'
    · exact Nat.le_max_left _ _
    · exact Nat.le_trans (le_maxTs h') (Nat.le_max_right _ _)

/-- an infinite run of the transition system from `NewTimedSched(k)` -/
structure IsRun (m : Mode) (k : Nat) (t0 : Time) (st : Nat → State) (lab : Nat → Label) : Prop where
  start : st 0 = init k t0
  next : ∀ n, step m (st n) (lab n) = some (st (n + 1))

namespace IsRun
variable {m : Mode} {k : Nat} {t0 : Time} {st : Nat → State} {lab : Nat → Label}

theorem reach (r : IsRun m k t0 st lab) : ∀ n, Reachable m k t0 (st n)
  | 0 => r.start ▸ Reachable.init
  | n + 1 => (r.reach n).step (r.next n)

theorem now_mono (r : IsRun m k t0 st lab) {a b : Nat} (hab : a ≤ b) : (st a).now ≤ (st b).now := by
  induction hab with
  | refl => exact Nat.le_refl _
  | step _ ih => exact Nat.le_trans ih (step_now_mono (r.next _))

theorem sub_mono (r : IsRun m k t0 st lab) {a b : Nat} (hab : a ≤ b) {t : Task} (ht : t ∈ (st a).sub) :
    t ∈ (st b).sub := by
  induction hab with
  | refl => exact ht
  | step _ ih => exact step_sub_mono (r.next _) ih

theorem sub_fixed (r : IsRun m k t0 st lab) {N : Nat} (hN : ∀ n, N ≤ n → ∀ id ts, lab n ≠ .put id ts)
    {b : Nat} (hb : N ≤ b) : (st b).sub = (st N).sub := by
  induction hb with
  | refl => rfl
  | step hle ih => rw [(step_noput (r.next _) (hN _ hle)).1, ih]

end IsRun


theorem run_tick_enabled {m : Mode} {s : State} {d : Nat} {l : Label}
    (h : (run m s [.tick d, l]).isSome) : (step m { s with now := s.now + d } l).isSome := by
  rw [run_cons, step_tick] at h
  dsimp only at h
  rw [run_cons] at h
  cases hs : step m { s with now := s.now + d } l with
  | none => rw [hs] at h; cases h
  | some s' => rfl

/-- **liveness**, weakest form of the fairness hypothesis (`hprog`: the system never idles for
    ever while some action of the scheduler or of the runtime stays enabled — implied by weak
    fairness per action and by weak fairness per goroutine): in an infinite run in which
    submissions pause after step `N0` and time diverges, there is a point at which nothing is
    pending any more -/
theorem IsRun.eventually_quiescent' {m : Mode} {k : Nat} {t0 : Time} {st : Nat → State}
    {lab : Nat → Label} (r : IsRun m k t0 st lab) (hk : 0 < k) {N0 : Nat}
    (hpause : ∀ n, N0 ≤ n → ∀ id ts, lab n ≠ .put id ts)
    (hprog : ∀ l, (∀ id ts, l ≠ .put id ts) → (∀ d, l ≠ .tick d) →
      ∀ N, (∀ n, N ≤ n → (step m (st n) l).isSome) → ∃ n, N ≤ n ∧ ∀ d, lab n ≠ .tick d)
    (htime : ∀ T, ∃ n, T ≤ (st n).now) :
    ∃ N2, N0 ≤ N2 ∧ pendingTasks (st N2) = [] := by
  -- after N0 the set of submitted tasks is fixed; D bounds every deadline
  let D := maxTs (st N0).sub
  obtain ⟨n1, hn1⟩ := htime (D + 1)
  let Ns := max N0 n1
  have hNs0 : N0 ≤ Ns := Nat.le_max_left _ _
  have hD : ∀ n, Ns ≤ n → D < (st n).now := by
    intro n hn
    have := r.now_mono (Nat.le_trans (Nat.le_max_right N0 n1) hn)
    exact Nat.lt_of_lt_of_le (Nat.lt_of_succ_le hn1) this
  have hsubD : ∀ n, Ns ≤ n → ∀ t, t ∈ (st n).sub → t.ts ≤ D := by
    intro n hn t ht
    rw [r.sub_fixed hpause (Nat.le_trans hNs0 hn)] at ht
    exact le_maxTs ht
  -- the variant decreases with every non-tick step, so eventually only ticks happen
  obtain ⟨N2, hN2, honly⟩ := nat_desc (fun n => mu D (st n)) (fun n => ∀ d, lab n ≠ .tick d)
    (mu D (st Ns)) Ns (Nat.le_refl _)
    (by
      intro n hn
      by_cases htk : ∃ d, lab n = .tick d
      · obtain ⟨d, hd⟩ := htk
        have hs := r.next n
        rw [hd, step_tick] at hs
        have : st (n + 1) = { st n with now := (st n).now + d } := (Option.some.inj hs).symm
        show mu D (st (n + 1)) ≤ mu D (st n)
        rw [this, mu_tick]; exact Nat.le_refl _
      · have hnt : ∀ d, lab n ≠ .tick d := fun d hd => htk ⟨d, hd⟩
        exact Nat.le_of_lt (mu_step (r.reach n) (hD n hn) (hsubD n hn) (r.next n)
          (hpause n (Nat.le_trans hNs0 hn)) hnt))
    (by
      intro n hn hnt
      exact mu_step (r.reach n) (hD n hn) (hsubD n hn) (r.next n) (hpause n (Nat.le_trans hNs0 hn)) hnt)
  have htick : ∀ n, N2 ≤ n → ∃ d, lab n = .tick d := by
    intro n hn
    apply Classical.byContradiction
    intro hno
    exact honly n hn (fun d hd => hno ⟨d, hd⟩)
  refine ⟨N2, Nat.le_trans hNs0 hN2, ?_⟩
  apply Classical.byContradiction
  intro hp
  -- from N2 on only the clock moves
  have hshape : ∀ j, ∃ e, st (N2 + j) = { st N2 with now := (st N2).now + e } := by
    intro j
    induction j with
    | zero => exact ⟨0, rfl⟩
    | succ j ih =>
      obtain ⟨e, he⟩ := ih
      obtain ⟨d, hd⟩ := htick (N2 + j) (Nat.le_add_right _ _)
      have hs := r.next (N2 + j)
      rw [hd, step_tick, he] at hs
      refine ⟨e + d, ?_⟩
      have := (Option.some.inj hs).symm
      rw [Nat.add_succ, this]
      simp [Nat.add_assoc]
  -- something other than a Put is enabled once enough time has passed, and stays enabled
  obtain ⟨d, l, hlput, hltick, hen⟩ := no_deadlock (r.reach N2) hk hp
  have hen' := run_tick_enabled hen
  obtain ⟨n3, hn3⟩ := htime ((st N2).now + d)
  let N3 := max N2 n3
  have hN32 : N2 ≤ N3 := Nat.le_max_left _ _
  have henabled : ∀ n, N3 ≤ n → (step m (st n) l).isSome := by
    intro n hn
    obtain ⟨e, he⟩ := hshape (n - N2)
    have hnn : N2 + (n - N2) = n := by omega
    rw [hnn] at he
    have hnow : (st N2).now + d ≤ (st N2).now + e := by
      have h1 := r.now_mono (Nat.le_trans (Nat.le_max_right N2 n3) hn)
      rw [he] at h1
      exact Nat.le_trans hn3 h1
    rw [he]
    exact step_isSome_mono hen' hnow
  obtain ⟨n, hn, hl⟩ := hprog l hlput hltick N3 henabled
  obtain ⟨d', hd'⟩ := htick n (Nat.le_trans hN32 hn)
  exact hl d' hd'

/-- the same under weak fairness per action (`fire` as a class, because the value sent varies) -/
theorem IsRun.eventually_quiescent {m : Mode} {k : Nat} {t0 : Time} {st : Nat → State}
    {lab : Nat → Label} (r : IsRun m k t0 st lab) (hk : 0 < k) {N0 : Nat}
    (hpause : ∀ n, N0 ≤ n → ∀ id ts, lab n ≠ .put id ts)
    (hfair : ∀ l, (∀ id ts, l ≠ .put id ts) → (∀ d, l ≠ .tick d) → (∀ i v, l ≠ .w i (.fire v)) →
      ∀ N, (∀ n, N ≤ n → (step m (st n) l).isSome) → ∃ n, N ≤ n ∧ lab n = l)
    (hfire : ∀ i N, (∀ n, N ≤ n → ∃ v, (step m (st n) (.w i (.fire v))).isSome) →
      ∃ n v, N ≤ n ∧ lab n = .w i (.fire v))
    (htime : ∀ T, ∃ n, T ≤ (st n).now) :
    ∃ N2, N0 ≤ N2 ∧ pendingTasks (st N2) = [] := by
  apply r.eventually_quiescent' hk hpause _ htime
  intro l hlput hltick N hen
  by_cases hf : ∃ i v, l = .w i (.fire v)
  · obtain ⟨i, v, rfl⟩ := hf
    obtain ⟨n, v', hn, hl⟩ := hfire i N (fun n hn => ⟨v, hen n hn⟩)
    exact ⟨n, hn, fun d hd => by rw [hl] at hd; cases hd⟩
  · obtain ⟨n, hn, hl⟩ := hfair l hlput hltick (fun i v he => hf ⟨i, v, he⟩) N hen
    exact ⟨n, hn, fun d hd => hltick d (hl ▸ hd)⟩

/-! ### fairness per goroutine -/

/-- who takes a step: a producer finishing its `Put`, the prepend goroutine (the `chTask`
    rendezvous is counted as its step), worker `i`, or the runtime running worker `i`'s timer;
    `Put` itself and the passing of time belong to the environment -/
inductive Owner
  | producer
  | prepend
  | worker (i : Nat)
  | runtime (i : Nat)
deriving DecidableEq, Repr

def Label.owner : Label → Option Owner
  | .tick _ => none
  | .put _ _ => none
  | .notify => some .producer
  | .takeToken => some .prepend
  | .swap => some .prepend
  | .handoff _ => some .prepend
  | .w i (.fire _) => some (.runtime i)
  | .w i _ => some (.worker i)

theorem owner_isSome {l : Label} (hp : ∀ id ts, l ≠ .put id ts) (ht : ∀ d, l ≠ .tick d) :
    ∃ g, l.owner = some g := by
  cases l with
  | tick d => exact absurd rfl (ht d)
  | put id ts => exact absurd rfl (hp id ts)
  | notify => exact ⟨_, rfl⟩
  | takeToken => exact ⟨_, rfl⟩
  | swap => exact ⟨_, rfl⟩
  | handoff i => exact ⟨_, rfl⟩
  | w i wl => cases wl <;> exact ⟨_, rfl⟩

/-- the same under weak fairness per goroutine: a goroutine (or the runtime for a timer) that has
    an enabled step at every moment from some point on eventually takes a step -/
theorem IsRun.eventually_quiescent_go {m : Mode} {k : Nat} {t0 : Time} {st : Nat → State}
    {lab : Nat → Label} (r : IsRun m k t0 st lab) (hk : 0 < k) {N0 : Nat}
    (hpause : ∀ n, N0 ≤ n → ∀ id ts, lab n ≠ .put id ts)
    (hfair : ∀ g N, (∀ n, N ≤ n → ∃ l, l.owner = some g ∧ (step m (st n) l).isSome) →
      ∃ n, N ≤ n ∧ (lab n).owner = some g)
    (htime : ∀ T, ∃ n, T ≤ (st n).now) :
    ∃ N2, N0 ≤ N2 ∧ pendingTasks (st N2) = [] := by
  apply r.eventually_quiescent' hk hpause _ htime
  intro l hlput hltick N hen
  obtain ⟨g, hg⟩ := owner_isSome hlput hltick
  obtain ⟨n, hn, hown⟩ := hfair g N (fun n hn => ⟨l, hg, hen n hn⟩)
  exact ⟨n, hn, fun d hd => by rw [hd] at hown; cases hown⟩

/-! ### a bound on the work left after the last deadline -/

/-- number of labels that are not `tick`s -/
def nonTicks : List Label → Nat
  | [] => 0
  | .tick _ :: ls => nonTicks ls
  | _ :: ls => nonTicks ls + 1

theorem nonTicks_cons_of_not_tick {l : Label} (h : ∀ d, l ≠ .tick d) (ls : List Label) :
    nonTicks (l :: ls) = nonTicks ls + 1 := by
  cases l <;> first | rfl | exact absurd rfl (h _)

/-- once the clock has passed every submitted deadline, ANY schedule without new `Put`s contains at
    most `mu D s` steps of the scheduler and the runtime (everything that is not a `tick`) -/
theorem bounded_work {m : Mode} {k : Nat} {t0 D : Time} : ∀ {ls : List Label} {s s' : State},
    Reachable m k t0 s → D < s.now → (∀ t, t ∈ s.sub → t.ts ≤ D) → NoPut ls →
    run m s ls = some s' → nonTicks ls + mu D s' ≤ mu D s
  | [], s, s', _, _, _, _, hr => by cases hr; simp [nonTicks]
  | l :: ls, s, s', h, hD, hsub, hnp, hr => by
    rw [run_cons] at hr
    split at hr <;> try contradiction
    rename_i s1 hs1
    have hlput := hnp l (by simp)
    have h1 : Reachable m k t0 s1 := h.step hs1
    have hD1 : D < s1.now := Nat.lt_of_lt_of_le hD (step_now_mono hs1)
    have hsub1 : ∀ t, t ∈ s1.sub → t.ts ≤ D := by
      rw [(step_noput hs1 hlput).1]; exact hsub
    have ih := bounded_work h1 hD1 hsub1 (fun x hx => hnp x (List.mem_cons_of_mem _ hx)) hr
    by_cases htk : ∃ d, l = .tick d
    · obtain ⟨d, rfl⟩ := htk
      rw [step_tick] at hs1
      have : s1 = { s with now := s.now + d } := (Option.some.inj hs1).symm
      rw [this, mu_tick] at ih
      exact ih
    · have hnt : ∀ d, l ≠ .tick d := fun d hd => htk ⟨d, hd⟩
      have hlt := mu_step h hD hsub hs1 hlput hnt
      rw [nonTicks_cons_of_not_tick hnt]
      omega

/-! ### a concrete infinite run (used by Props/C17 as witness that the fairness hypotheses are satisfiable) -/

/-- one worker; the start-up timer value is consumed, task 1 (deadline 5) is submitted at time 0,
    pushed, the timer armed for 5; at time 6 it fires, the task runs; then only time passes -/
def fairPrefix : List Label :=
  [ .w 0 (.fire 0), .w 0 .recvTimer, .w 0 .loopEnd,
    .put 1 5, .notify, .takeToken, .swap, .handoff 0,
    .w 0 .readNow, .w 0 .stop, .w 0 .drain, .w 0 .reset,
    .tick 6, .w 0 (.fire 6), .w 0 .recvTimer, .w 0 (.pop ⟨1, 5⟩), .w 0 .loopEnd ]

def fairFin (m : Mode) : State := (run m (init 1 0) fairPrefix).getD (init 1 0)

def fairSt (m : Mode) (n : Nat) : State :=
  if n < 17 then (run m (init 1 0) (fairPrefix.take n)).getD (init 1 0)
  else { fairFin m with now := 6 + (n - 17) }

def fairLab (n : Nat) : Label := fairPrefix.getD n (.tick 1)

def fairFinLit : State :=
  { now := 6, sub := [⟨1, 5⟩], pre := [], pend := 0, ntok := false, ppc := .idle, batch := [],
    ws := [{ pc := .select, heap := [], timer := ⟨none, none⟩, drained := true, armedAt := 0, usedNow := 0 }],
    done := [⟨⟨1, 5⟩, 6⟩], log := [.exec 1 6, .put 1 5 0] }

theorem fairFin_eq (m : Mode) : fairFin m = fairFinLit := by cases m <;> decide

/-- in the final state (at any later clock value) nothing but `Put` and `tick` is enabled -/
theorem fairFin_dead (m : Mode) (x : Time) (l : Label) (hp : ∀ id ts, l ≠ .put id ts)
    (ht : ∀ d, l ≠ .tick d) : step m { fairFinLit with now := x } l = none := by
  cases l with
  | tick d => exact absurd rfl (ht d)
  | put id ts => exact absurd rfl (hp id ts)
  | notify => rfl
  | takeToken => rfl
  | swap => rfl
  | handoff i => rfl
  | w i wl =>
    cases i with
    | zero => cases wl <;> rfl
    | succ i => rfl

theorem fairSt_tail (m : Mode) (n : Nat) (h : 17 ≤ n) :
    fairSt m n = { fairFinLit with now := 6 + (n - 17) } := by
  simp only [fairSt, Nat.not_lt.mpr h, if_false, fairFin_eq]

theorem fairLab_tail (n : Nat) (h : 17 ≤ n) : fairLab n = .tick 1 := by
  have hlen : fairPrefix.length ≤ n := h
  simp [fairLab, List.getD, List.getElem?_eq_none hlen]

theorem fair_next_prefix (m : Mode) : ∀ n, n < 17 → step m (fairSt m n) (fairLab n) = some (fairSt m (n + 1)) := by
  cases m <;> decide

end KcpVerif.Sched
