/-
Refinement for `C01_session_plain`: every step of a ghost session (`Lemmas/C01SessSys.lean`) is a
(possibly empty) sequence of core operations on its core, and every run of the two-session system is
matched by a run of the two-core system of `Lemmas/C01Sys.lean`.
-/
import KcpVerif.Lemmas.C01SessSys

namespace KcpVerif.C01
open KcpVerif KcpVerif.Gen KcpVerif.Kcp KcpVerif.Frame KcpVerif.Recv KcpVerif.Send KcpVerif.Wire

/-- the session's core, log and wire are those of the core-level ghost state, which is alive -/
structure RefK (x : SessG) (g : GSt) : Prop where
  k     : x.s.k = g.k
  log   : x.log = g.log
  wire  : x.wire = g.wire
  alive : g.dead = false

/-- what `Read` has returned so far, followed by the unread rest of the last message, is the
concatenation of what the core's `Recv` calls returned -/
def RefR (x : SessG) (g : GSt) : Prop := x.rd ++ x.s.bufptr = g.got.flatten

/-- the shape of the core operations a session operation performs: `packetInput d` is at most one
`Input` of the same bytes (with `regular = true`); nothing else ever calls `Input` -/
def OpsOk : SessOp → List Op → Prop
  | .input d now, ops => ops = [] ∨ ∃ a, ops = [.input d true a now]
  | _, ops => ∀ o ∈ ops, isInput o = false

theorem opsOk_nil (op : SessOp) : OpsOk op [] := by
  cases op <;> first | exact Or.inl rfl | (intro o ho; cases ho)

/-! ### core steps of a live endpoint -/

theorem step_flush_alive (g : GSt) (full : Bool) (now : U32) (hd : g.dead = false)
    (hp : (flush g.k full now).panic = false) :
    step g (.flush full now) = { g with k := (flush g.k full now).k, log := g.log ++ admitted g.k (flush g.k full now).k,
                                        wire := g.wire ++ (flush g.k full now).outs } := by
  unfold step
  rw [if_neg (by simp [hd])]
  simp only []
  rw [if_neg (by simp [hp])]

theorem step_input_alive (g : GSt) (d : Bytes) (r a : Bool) (now : U32) (hd : g.dead = false)
    (hp : (input g.k d r a now).panic = false) :
    step g (.input d r a now) = { g with k := (input g.k d r a now).k,
                                         log := g.log ++ admitted g.k (input g.k d r a now).k,
                                         wire := g.wire ++ (input g.k d r a now).outs } := by
  unfold step
  rw [if_neg (by simp [hd])]
  simp only []
  rw [if_neg (by simp [hp])]

theorem step_recv_alive (g : GSt) (n : Nat) (hd : g.dead = false) (hok : 0 ≤ (recv g.k n).n) :
    step g (.recv n) = { g with k := (recv g.k n).k,
                                dl := g.dl ++ (g.k.rcv_queue.take (popCount g.k.rcv_queue)).map content,
                                got := g.got ++ [(recv g.k n).data] } := by
  unfold step
  rw [if_neg (by simp [hd])]
  simp only []
  rw [if_neg (by omega)]

theorem step_cfg_alive (g : GSt) (hd : g.dead = false) :
    (∀ a b c d, step g (.noDelay a b c d) = { g with k := noDelay g.k a b c d }) ∧
    (∀ a b, step g (.wndSize a b) = { g with k := wndSize g.k a b }) ∧
    (∀ m, step g (.setMtu m) = { g with k := (setMtu g.k m).1 }) := by
  refine ⟨fun a b c d => ?_, fun a b => ?_, fun m => ?_⟩ <;>
  · unfold step
    rw [if_neg (by simp [hd])]

/-! ### `Read` case by case -/

theorem read_cases (s : Sess) (blen : Nat) :
    ((s.read blen).s.k = s.k ∧ (s.read blen).data ++ (s.read blen).s.bufptr = s.bufptr) ∨
    (s.bufptr = [] ∧ ∃ n, 0 ≤ (recv s.k n).n ∧ (s.read blen).s.k = (recv s.k n).k ∧
      (s.read blen).data ++ (s.read blen).s.bufptr = (recv s.k n).data) := by
  unfold Sess.read
  split
  · left; exact ⟨rfl, List.take_append_drop _ _⟩
  · rename_i h0
    have hb : s.bufptr = [] := List.length_eq_zero_iff.mp (by omega)
    simp only []
    split
    · rename_i hp
      have h1 : ¬ s.k.peekSize < 0 := by omega
      split
      · rename_i hc
        right
        have h2 : ¬ s.k.peekSize > (blen : Int) := by omega
        refine ⟨hb, blen, ?_, rfl, ?_⟩
        · rw [recv_ok s.k blen h1 h2]; exact Int.natCast_nonneg _
        · show (recv s.k blen).data ++ s.bufptr = _
          rw [hb, List.append_nil]
      · right
        have h2 : ¬ s.k.peekSize > ((s.k.peekSize.toNat : Nat) : Int) := by
          rw [Int.toNat_of_nonneg (by omega)]; omega
        refine ⟨hb, s.k.peekSize.toNat, ?_, rfl, List.take_append_drop _ _⟩
        rw [recv_ok s.k _ h1 h2]; exact Int.natCast_nonneg _
    · left; exact ⟨rfl, by simp [hb]⟩

/-! ### one session step as core operations -/

theorem chunkOps_notInput {mss : Nat} {ops : List Op} (h : ChunkOps mss ops) : ∀ o ∈ ops, isInput o = false := by
  intro o ho
  obtain ⟨c, hc, _⟩ := h o ho
  rw [hc]; rfl

theorem sessStep_ref {x : SessG} {g : GSt} (h : RefK x g) (op : SessOp) :
    ∃ ops : List Op, OpsOk op ops ∧ RefK (sessStep x op) (run g ops) ∧
      (RefR x g → RefR (sessStep x op) (run g ops)) := by
  have stay : ∀ x' : SessG, x'.s.k = x.s.k → x'.log = x.log → x'.wire = x.wire →
      x'.rd ++ x'.s.bufptr = x.rd ++ x.s.bufptr →
      ∃ ops : List Op, OpsOk op ops ∧ RefK x' (run g ops) ∧ (RefR x g → RefR x' (run g ops)) := by
    intro x' h1 h2 h3 h4
    refine ⟨[], opsOk_nil op, ⟨h1.trans h.k, h2.trans h.log, h3.trans h.wire, h.alive⟩, fun hr => ?_⟩
    show x'.rd ++ x'.s.bufptr = g.got.flatten
    rw [h4]; exact hr
  unfold sessStep
  by_cases hd : x.dead = true
  · rw [if_pos hd]; exact stay x rfl rfl rfl rfl
  · rw [if_neg hd]
    cases op with
    | write v now =>
      simp only []
      split
      · exact stay _ rfl rfl rfl rfl
      · rename_i hp
        split
        · exact stay x rfl rfl rfl rfl
        · rename_i hb
          have hadm : x.s.k.waitSnd < x.s.k.snd_wnd.toNat := by
            apply Classical.byContradiction
            intro hc
            rw [wb_blocked x.s v now hc] at hb
            exact hb rfl
          have hp1 : (Sess.sendAll v x.s.k).panic = false := by
            cases hpp : (Sess.sendAll v x.s.k).panic with
            | false => rfl
            | true => rw [wb_panic x.s v now hadm hpp] at hp; exact absurd rfl hp
          obtain ⟨ops1, ho1, hs1, hk1⟩ := sendAll_run v x.s.k g h.k.symm h.alive hp1
          by_cases hc : wbFlush x.s v
          · rw [wb_flush x.s v now hadm hp1 hc] at hp ⊢
            simp only [] at hp ⊢
            have hpf : (flush (run g ops1).k true now).panic = false := by
              rw [hk1]; simpa using hp
            refine ⟨ops1 ++ [.flush true now], ?_, ?_, fun hr => ?_⟩
            · intro o ho
              rcases List.mem_append.mp ho with h1 | h1
              · exact chunkOps_notInput ho1 o h1
              · rw [List.mem_singleton.mp h1]; rfl
            · rw [run_snoc, step_flush_alive _ true now hs1.dead hpf]
              refine ⟨?_, ?_, ?_, hs1.dead⟩
              · show ((Sess.sendAll v x.s.k).k.flush true now).k = (flush (run g ops1).k true now).k
                rw [hk1]
              · show x.log ++ admitted (Sess.sendAll v x.s.k).k ((Sess.sendAll v x.s.k).k.flush true now).k =
                  (run g ops1).log ++ admitted (run g ops1).k (flush (run g ops1).k true now).k
                rw [hk1, hs1.log, h.log]
              · show x.wire ++ ((Sess.sendAll v x.s.k).k.flush true now).outs =
                  (run g ops1).wire ++ (flush (run g ops1).k true now).outs
                rw [hk1, hs1.wire, h.wire]
            · rw [run_snoc, step_flush_alive _ true now hs1.dead hpf]
              show x.rd ++ x.s.bufptr = (run g ops1).got.flatten
              rw [hs1.got]; exact hr
          · rw [wb_noflush x.s v now hadm hp1 hc]
            simp only []
            refine ⟨ops1, chunkOps_notInput ho1, ⟨hk1.symm, ?_, ?_, hs1.dead⟩, fun hr => ?_⟩
            · show x.log ++ admitted (Sess.sendAll v x.s.k).k (Sess.sendAll v x.s.k).k = (run g ops1).log
              rw [admitted_self _ _ rfl, List.append_nil, hs1.log, h.log]
            · show x.wire ++ [] = (run g ops1).wire
              rw [List.append_nil, hs1.wire, h.wire]
            · show x.rd ++ x.s.bufptr = (run g ops1).got.flatten
              rw [hs1.got]; exact hr
    | read blen =>
      simp only []
      rcases read_cases x.s blen with ⟨hk, hdat⟩ | ⟨hb, n, hok, hk, hdat⟩
      · exact stay _ hk rfl rfl (by
          show (x.rd ++ (x.s.read blen).data) ++ (x.s.read blen).s.bufptr = _
          rw [List.append_assoc, hdat])
      · have hok' : 0 ≤ (recv g.k n).n := by rw [← h.k]; exact hok
        refine ⟨[.recv n], (fun o ho => by rw [List.mem_singleton.mp ho]; rfl), ?_, fun hr => ?_⟩
        · show RefK _ (step g (.recv n))
          rw [step_recv_alive g n h.alive hok']
          exact ⟨by show (x.s.read blen).s.k = (recv g.k n).k; rw [hk, h.k], h.log, h.wire, h.alive⟩
        · show (x.rd ++ (x.s.read blen).data) ++ (x.s.read blen).s.bufptr = (step g (.recv n)).got.flatten
          rw [step_recv_alive g n h.alive hok']
          show _ = (g.got ++ [(recv g.k n).data]).flatten
          have hr' : x.rd = g.got.flatten := by
            have : x.rd ++ x.s.bufptr = g.got.flatten := hr
            rw [hb, List.append_nil] at this; exact this
          rw [List.append_assoc, hdat, hr', h.k]
          simp
    | update now =>
      simp only []
      have hu : x.s.update now = flush x.s.k true now := rfl
      split
      · exact stay _ rfl rfl rfl rfl
      · rename_i hp
        have hpf : (flush g.k true now).panic = false := by rw [← h.k, ← hu]; simpa using hp
        refine ⟨[.flush true now], (fun o ho => by rw [List.mem_singleton.mp ho]; rfl), ?_, fun hr => ?_⟩
        · show RefK _ (step g (.flush true now))
          rw [step_flush_alive g true now h.alive hpf]
          refine ⟨?_, ?_, ?_, h.alive⟩
          · show (x.s.update now).k = (flush g.k true now).k
            rw [hu, h.k]
          · show x.log ++ admitted x.s.k (x.s.update now).k = g.log ++ admitted g.k (flush g.k true now).k
            rw [hu, h.k, h.log]
          · show x.wire ++ (x.s.update now).outs = g.wire ++ (flush g.k true now).outs
            rw [hu, h.k, h.wire]
        · show x.rd ++ x.s.bufptr = (step g (.flush true now)).got.flatten
          rw [step_flush_alive g true now h.alive hpf]; exact hr
    | input d now =>
      simp only []
      rcases packetInput_cases x.s d now with hc | hc
      · rw [hc]
        simp only []
        rw [if_neg (by simp)]
        exact stay _ rfl (by show x.log ++ admitted x.s.k x.s.k = x.log; rw [admitted_self _ _ rfl, List.append_nil])
          (by show x.wire ++ [] = x.wire; rw [List.append_nil]) rfl
      · rw [hc]
        simp only []
        split
        · exact stay _ rfl rfl rfl rfl
        · rename_i hp
          have hpf : (input g.k d true x.s.ackNoDelay now).panic = false := by rw [← h.k]; simpa using hp
          refine ⟨[.input d true x.s.ackNoDelay now], Or.inr ⟨_, rfl⟩, ?_, fun hr => ?_⟩
          · show RefK _ (step g (.input d true x.s.ackNoDelay now))
            rw [step_input_alive g d true _ now h.alive hpf]
            refine ⟨?_, ?_, ?_, h.alive⟩
            · show (input x.s.k d true x.s.ackNoDelay now).k = (input g.k d true x.s.ackNoDelay now).k
              rw [h.k]
            · show x.log ++ admitted x.s.k (input x.s.k d true x.s.ackNoDelay now).k =
                g.log ++ admitted g.k (input g.k d true x.s.ackNoDelay now).k
              rw [h.k, h.log]
            · show x.wire ++ (input x.s.k d true x.s.ackNoDelay now).outs =
                g.wire ++ (input g.k d true x.s.ackNoDelay now).outs
              rw [h.k, h.wire]
          · show x.rd ++ x.s.bufptr = (step g (.input d true x.s.ackNoDelay now)).got.flatten
            rw [step_input_alive g d true _ now h.alive hpf]; exact hr
    | setWriteDelay b => exact stay _ rfl rfl rfl rfl
    | setAckNoDelay b => exact stay _ rfl rfl rfl rfl
    | noDelay a b c d =>
      refine ⟨[.noDelay a b c d], (fun o ho => by rw [List.mem_singleton.mp ho]; rfl), ?_, fun hr => ?_⟩
      · show RefK _ (step g (.noDelay a b c d))
        rw [(step_cfg_alive g h.alive).1]
        exact ⟨by show noDelay x.s.k a b c d = noDelay g.k a b c d; rw [h.k], h.log, h.wire, h.alive⟩
      · show x.rd ++ x.s.bufptr = (step g (.noDelay a b c d)).got.flatten
        rw [(step_cfg_alive g h.alive).1]; exact hr
    | wndSize a b =>
      refine ⟨[.wndSize a b], (fun o ho => by rw [List.mem_singleton.mp ho]; rfl), ?_, fun hr => ?_⟩
      · show RefK _ (step g (.wndSize a b))
        rw [(step_cfg_alive g h.alive).2.1]
        exact ⟨by show wndSize x.s.k a b = wndSize g.k a b; rw [h.k], h.log, h.wire, h.alive⟩
      · show x.rd ++ x.s.bufptr = (step g (.wndSize a b)).got.flatten
        rw [(step_cfg_alive g h.alive).2.1]; exact hr
    | setMtu mtu =>
      refine ⟨[.setMtu mtu], (fun o ho => by rw [List.mem_singleton.mp ho]; rfl), ?_, fun hr => ?_⟩
      · show RefK _ (step g (.setMtu mtu))
        rw [(step_cfg_alive g h.alive).2.2]
        exact ⟨by show (setMtu x.s.k mtu).1 = (setMtu g.k mtu).1; rw [h.k], h.log, h.wire, h.alive⟩
      · show x.rd ++ x.s.bufptr = (step g (.setMtu mtu)).got.flatten
        rw [(step_cfg_alive g h.alive).2.2]; exact hr

/-! ### the two-session system -/

structure SessSys where
  A : SessG
  B : SessG

inductive SSOp where
  /-- `A` performs any session operation (including `packetInput` of arbitrary bytes) -/
  | a (op : SessOp)
  /-- `B` performs any session operation other than `packetInput` -/
  | b (op : SessOp)
  /-- the network delivers to `B` the `i`-th datagram `A` has emitted so far -/
  | dlv (i : Nat) (now : U32)

def isSessInput : SessOp → Bool
  | .input .. => true
  | _ => false

def ssstep (s : SessSys) : SSOp → SessSys
  | .a op => { s with A := sessStep s.A op }
  | .b op => if isSessInput op then s else { s with B := sessStep s.B op }
  | .dlv i now =>
    match s.A.wire[i]? with
    | some d => { s with B := sessStep s.B (.input d now) }
    | none => s

def ssrun (s : SessSys) (ops : List SSOp) : SessSys := ops.foldl ssstep s

theorem srun_append (S : Sys) (a b : List SOp) : srun S (a ++ b) = srun (srun S a) b := by
  unfold srun; rw [List.foldl_append]

theorem srun_mapA (ops : List Op) : ∀ S : Sys, srun S (ops.map .a) = { S with A := run S.A ops } := by
  induction ops with
  | nil => intro S; rfl
  | cons o rest ih => intro S; exact ih _

theorem srun_mapB (ops : List Op) (hn : ∀ o ∈ ops, isInput o = false) :
    ∀ S : Sys, srun S (ops.map .b) = { S with B := run S.B ops } := by
  induction ops with
  | nil => intro S; rfl
  | cons o rest ih =>
    intro S
    have h1 : sstep S (.b o) = { S with B := step S.B o } := by
      simp [sstep, hn o (List.mem_cons_self ..)]
    show srun (sstep S (.b o)) (rest.map .b) = _
    rw [h1, ih (fun o ho => hn o (List.mem_cons_of_mem _ ho))]
    rfl

theorem ssstep_sim {s : SessSys} {S : Sys} (hA : RefK s.A S.A) (hB : RefK s.B S.B) (hR : RefR s.B S.B)
    (op : SSOp) :
    ∃ cops : List SOp, RefK (ssstep s op).A (srun S cops).A ∧ RefK (ssstep s op).B (srun S cops).B ∧
      RefR (ssstep s op).B (srun S cops).B := by
  cases op with
  | a op =>
    obtain ⟨ops, _, hk, _⟩ := sessStep_ref hA op
    exact ⟨ops.map .a, by rw [srun_mapA]; exact hk, by rw [srun_mapA]; exact hB, by rw [srun_mapA]; exact hR⟩
  | b op =>
    by_cases hi : isSessInput op = true
    · have e : ssstep s (.b op) = s := by simp [ssstep, hi]
      rw [e]; exact ⟨[], hA, hB, hR⟩
    · have e : ssstep s (.b op) = { s with B := sessStep s.B op } := by simp [ssstep, hi]
      rw [e]
      obtain ⟨ops, ho, hk, hr⟩ := sessStep_ref hB op
      have hn : ∀ o ∈ ops, isInput o = false := by
        cases op <;> first | exact ho | (simp [isSessInput] at hi)
      exact ⟨ops.map .b, by rw [srun_mapB ops hn]; exact hA, by rw [srun_mapB ops hn]; exact hk,
        by rw [srun_mapB ops hn]; exact hr hR⟩
  | dlv i now =>
    cases hd : s.A.wire[i]? with
    | none =>
      have e : ssstep s (.dlv i now) = s := by simp [ssstep, hd]
      rw [e]; exact ⟨[], hA, hB, hR⟩
    | some d =>
      have e : ssstep s (.dlv i now) = { s with B := sessStep s.B (.input d now) } := by simp [ssstep, hd]
      rw [e]
      obtain ⟨ops, ho, hk, hr⟩ := sessStep_ref hB (.input d now)
      rcases ho with ho | ⟨a, ho⟩
      · subst ho
        exact ⟨[], hA, hk, hr hR⟩
      · subst ho
        have hd' : S.A.wire[i]? = some d := by rw [← hA.wire]; exact hd
        have e2 : srun S [.dlv i true a now] = { S with B := run S.B [.input d true a now] } := by
          show sstep S (.dlv i true a now) = _
          simp [sstep, hd', run]
        exact ⟨[.dlv i true a now], by rw [e2]; exact hA, by rw [e2]; exact hk, by rw [e2]; exact hr hR⟩

theorem ssrun_sim (ops : List SSOp) : ∀ (s : SessSys) (S : Sys), RefK s.A S.A → RefK s.B S.B → RefR s.B S.B →
    ∃ cops : List SOp, RefK (ssrun s ops).A (srun S cops).A ∧ RefK (ssrun s ops).B (srun S cops).B ∧
      RefR (ssrun s ops).B (srun S cops).B := by
  induction ops with
  | nil => intro s S hA hB hR; exact ⟨[], hA, hB, hR⟩
  | cons op rest ih =>
    intro s S hA hB hR
    obtain ⟨c1, h1, h2, h3⟩ := ssstep_sim hA hB hR op
    obtain ⟨c2, g1, g2, g3⟩ := ih (ssstep s op) (srun S c1) h1 h2 h3
    refine ⟨c1 ++ c2, ?_, ?_, ?_⟩ <;> rw [srun_append]
    · exact g1
    · exact g2
    · exact g3

theorem ssrun_invW (ops : List SSOp) : ∀ s : SessSys, InvW s.A → InvW (ssrun s ops).A := by
  induction ops with
  | nil => intro s h; exact h
  | cons op rest ih =>
    intro s h
    apply ih
    cases op with
    | a op => exact sessStep_invW h op
    | b op =>
      by_cases hi : isSessInput op = true
      · have e : ssstep s (.b op) = s := by simp [ssstep, hi]
        rw [e]; exact h
      · have e : ssstep s (.b op) = { s with B := sessStep s.B op } := by simp [ssstep, hi]
        rw [e]; exact h
    | dlv i now =>
      cases hd : s.A.wire[i]? with
      | none =>
        have e : ssstep s (.dlv i now) = s := by simp [ssstep, hd]
        rw [e]; exact h
      | some d =>
        have e : ssstep s (.dlv i now) = { s with B := sessStep s.B (.input d now) } := by simp [ssstep, hd]
        rw [e]; exact h

end KcpVerif.C01
