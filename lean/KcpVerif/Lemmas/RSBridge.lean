/-
The executable Reed–Solomon code of `Model/RS` (`buildMatrix`, `encode`, `reconstructData` on lists
of bytes, arithmetic of `Model/GF256`) IS the systematic Vandermonde code of `Lemmas/RS` over the
field `GF` with the nodes `0, 1, …, n−1`, and therefore satisfies the list-level MDS law `Lawful`
for every ratio the FEC layer accepts (`1 ≤ d`, `1 ≤ p`, `d + p ≤ 256`).

* `toM_vandermonde`, `toM_top`      the list Vandermonde matrix is `RS.vand node`, its top square `RS.top`;
* `buildMatrix_spec`                `buildMatrix d n` is an `n × d` list matrix with `toM = RS.sysMatrix`
                                    (Gauss–Jordan succeeds on the top square: `invert_complete` with
                                    `RS.top_det_ne_zero`; its result is the inverse: `invert_sound`);
* `codeword_eq`                     `data ‖ encode data = buildMatrix · data`, byte column by byte column;
* `rsNew_lawful`                    `Lawful rsNew`: `reconstructData` inverts the rows of the first `d`
                                    present shards (non-singular: `RS.sys_select_det_ne_zero`) and
                                    multiplies — the result is the data.
-/
import KcpVerif.Lemmas.RSGauss
import KcpVerif.Lemmas.RSRecon
import KcpVerif.Lemmas.RS

namespace KcpVerif.Lemmas.RSBridge
open KcpVerif.RS KcpVerif.GF256 KcpVerif.Lemmas.RSRows KcpVerif.Lemmas.RSGauss KcpVerif.Lemmas.RSRecon
open KcpVerif.Lemmas.GF256 (GF)
open KcpVerif.Lemmas.FecSpec KcpVerif.Fec

/-- list matrices of the model -/
abbrev LM := KcpVerif.RS.Matrix

/-! ### generic list/matrix facts -/

theorem getD_map_range {α : Type} (f : Nat → α) {n i : Nat} (hi : i < n) (dflt : α) :
    ((List.range n).map f).getD i dflt = f i := by
  rw [List.getD_eq_getElem?_getD, List.getElem?_map, List.getElem?_range hi]; rfl

theorem getD_map {α β : Type} (f : α → β) (l : List α) {i : Nat} (hi : i < l.length) (a : α) (b : β) :
    (l.map f).getD i b = f (l.getD i a) := by
  rw [List.getD_eq_getElem?_getD, List.getD_eq_getElem?_getD, List.getElem?_map,
    List.getElem?_eq_getElem hi]; rfl

/-- a list matrix times a list matrix, row by row with `combine` -/
theorem toM_map_combine {r c L : Nat} {A B : LM} (hA : Shaped r c A) (hB : Shaped c L B) :
    toM r L (A.map fun row => combine L row B) = toM r c A * toM c L B := by
  ext i l
  rw [Matrix.mul_apply]
  unfold toM
  have hi : i.val < A.length := by rw [hA.1]; exact i.isLt
  rw [getD_map _ A hi [] [], ent_combine L _ B hB.2, hA.2 _ (getD_mem_of_lt hi), hB.1, Nat.min_self]
  exact (Fin.sum_univ_eq_sum_range (fun j => ent (A.getD i.val []) j * ent (B.getD j []) l.val) c).symm

/-- one `combine` as a row of a matrix product -/
theorem ent_combine_mul {c L : Nat} {row : Row} {B : LM} (hrow : row.length = c) (hB : Shaped c L B)
    (l : Fin L) :
    ent (combine L row B) l.val = ∑ j : Fin c, ent row j.val * toM c L B j l := by
  rw [ent_combine L _ B hB.2, hrow, hB.1, Nat.min_self]
  exact (Fin.sum_univ_eq_sum_range (fun j => ent row j * ent (B.getD j []) l.val) c).symm

theorem shaped_take {r c k : Nat} {A : LM} (hA : Shaped r c A) (hk : k ≤ r) : Shaped k c (A.take k) :=
  ⟨by rw [List.length_take, hA.1]; omega, fun row h => hA.2 row (List.mem_of_mem_take h)⟩

theorem toM_take {r c k : Nat} (A : LM) (hk : k ≤ r) :
    toM k c (A.take k) = (toM r c A).submatrix (Fin.castLE hk) id := by
  ext i j
  rw [Matrix.submatrix_apply]
  show ent ((A.take k).getD i.val []) j.val = ent (A.getD i.val []) j.val
  rw [List.getD_eq_getElem?_getD, List.getD_eq_getElem?_getD, List.getElem?_take_of_lt i.isLt]

/-! ### the Vandermonde matrix and `buildMatrix` -/

/-- the nodes `0, 1, …, n − 1` as field elements -/
def node (n : Nat) : Fin n → GF := fun i => GF.of (UInt8.ofNat i.val)

theorem node_injective {n : Nat} (hn : n ≤ 256) : Function.Injective (node n) :=
  GF.node_injective hn

theorem shaped_vandermonde (n d : Nat) : Shaped n d (vandermonde n d) := by
  constructor
  · simp [vandermonde]
  · intro row h
    simp only [vandermonde, List.mem_map, List.mem_range] at h
    obtain ⟨r, _, rfl⟩ := h
    simp

theorem toM_vandermonde (n d : Nat) : toM n d (vandermonde n d) = RS.vand (node n) := by
  ext i j
  unfold toM RS.vand node vandermonde
  rw [getD_map_range _ i.isLt]
  unfold ent
  rw [getD_map_range _ j.isLt, GF.pow_def]

theorem toM_top {d n : Nat} (h : d ≤ n) :
    toM d d ((vandermonde n d).take d) = RS.top h (node n) := by
  rw [toM_take (r := n) _ h, toM_vandermonde, RS.top_eq_submatrix]

/-- `buildMatrix d n`: an `n × d` list matrix, equal to the systematic Vandermonde matrix -/
theorem buildMatrix_spec {d n : Nat} (h : d ≤ n) (hn : n ≤ 256) :
    Shaped n d (buildMatrix d n) ∧ toM n d (buildMatrix d n) = RS.sysMatrix h (node n) := by
  have hx := node_injective hn
  have htopS : Shaped d d ((vandermonde n d).take d) := shaped_take (shaped_vandermonde n d) h
  have hdet : (toM d d ((vandermonde n d).take d)).det ≠ 0 := by
    rw [toM_top h]; exact RS.top_det_ne_zero h hx
  obtain ⟨ti, hti⟩ := invert_complete htopS hdet
  obtain ⟨htiS, hmul⟩ := invert_sound htopS hti
  have hinv : toM d d ti = (RS.top h (node n))⁻¹ := by
    rw [toM_top h] at hmul
    exact (Matrix.inv_eq_left_inv hmul).symm
  have hbm : buildMatrix d n = (vandermonde n d).map fun r => combine d r ti := by
    unfold buildMatrix
    simp only [hti]
  rw [hbm]
  refine ⟨⟨by rw [List.length_map, (shaped_vandermonde n d).1], ?_⟩, ?_⟩
  · intro row hrow
    obtain ⟨r, _, rfl⟩ := List.mem_map.1 hrow
    exact length_combine d r ti htiS.2
  · rw [toM_map_combine (shaped_vandermonde n d) htiS, toM_vandermonde, hinv]; rfl

/-! ### encoding -/

theorem headD_length {d L : Nat} {data : List Shard} (hd : 0 < d) (hdl : data.length = d)
    (hsz : ∀ s ∈ data, s.length = L) : (data.headD []).length = L := by
  cases data with
  | nil => simp at hdl; omega
  | cons s _ => exact hsz s (by simp)

theorem encode_eq {d L : Nat} (m : LM) {data : List Shard} (hd : 0 < d) (hdl : data.length = d)
    (hsz : ∀ s ∈ data, s.length = L) :
    encode m d data = (m.drop d).map fun row => combine L row data := by
  unfold encode; rw [headD_length hd hdl hsz]

theorem shaped_codeword {d p L : Nat} {m : LM} (hm : Shaped (d + p) d m) {data : List Shard}
    (hd : 0 < d) (hdl : data.length = d) (hsz : ∀ s ∈ data, s.length = L) :
    Shaped (d + p) L (data ++ encode m d data) := by
  rw [encode_eq m hd hdl hsz]
  constructor
  · rw [List.length_append, List.length_map, List.length_drop, hm.1, hdl]; omega
  · intro s hs
    rcases List.mem_append.1 hs with h | h
    · exact hsz s h
    · obtain ⟨row, _, rfl⟩ := List.mem_map.1 h
      exact length_combine L row data hsz

/-- the codeword is the coding matrix times the data, provided the top square of the coding
    matrix is the identity -/
theorem codeword_eq {d p L : Nat} {m : LM} (hm : Shaped (d + p) d m)
    (htop : (toM (d + p) d m).submatrix (Fin.castLE (Nat.le_add_right d p)) id = 1)
    {data : List Shard} (hd : 0 < d) (hdl : data.length = d) (hsz : ∀ s ∈ data, s.length = L) :
    toM (d + p) L (data ++ encode m d data) = toM (d + p) d m * toM d L data := by
  have hD : Shaped d L data := ⟨hdl, hsz⟩
  rw [encode_eq m hd hdl hsz]
  ext i l
  by_cases hi : i.val < d
  · -- a data row
    have h1 : toM (d + p) L (data ++ (m.drop d).map fun row => combine L row data) i l
        = toM d L data ⟨i.val, hi⟩ l := by
      unfold toM
      rw [List.getD_eq_getElem?_getD, List.getD_eq_getElem?_getD,
        List.getElem?_append_left (by rw [hdl]; exact hi)]
    have h2 : ∀ k, toM (d + p) d m i k = (1 : _root_.Matrix (Fin d) (Fin d) GF) ⟨i.val, hi⟩ k := by
      intro k
      rw [← htop]; rfl
    rw [h1, Matrix.mul_apply, Finset.sum_congr rfl fun k _ => by rw [h2 k], ← Matrix.mul_apply,
      Matrix.one_mul]
  · -- a parity row
    have hi' : i.val - d < (m.drop d).length := by
      rw [List.length_drop, hm.1]; have := i.isLt; omega
    have hrow : (data ++ (m.drop d).map fun row => combine L row data).getD i.val []
        = combine L (m.getD i.val []) data := by
      rw [List.getD_eq_getElem?_getD, List.getElem?_append_right (by rw [hdl]; omega), hdl,
        ← List.getD_eq_getElem?_getD, getD_map _ _ hi' [] []]
      congr 1
      rw [List.getD_eq_getElem?_getD, List.getD_eq_getElem?_getD, List.getElem?_drop]
      congr 2; omega
    have hmi : (m.getD i.val []).length = d := hm.2 _ (getD_mem_of_lt (by rw [hm.1]; exact i.isLt))
    rw [Matrix.mul_apply]
    show ent ((data ++ (m.drop d).map fun row => combine L row data).getD i.val []) l.val = _
    rw [hrow, ent_combine_mul hmi hD l]
    rfl

/-! ### row selections -/

/-- the selection of rows `idx` as a function -/
def sel {r d : Nat} (idx : List Nat) (hlen : idx.length = d)
    (hlt : ∀ j (hj : j < idx.length), idx[j] < r) : Fin d → Fin r :=
  fun j => ⟨idx[j.val]'(by rw [hlen]; exact j.isLt), hlt j.val (by rw [hlen]; exact j.isLt)⟩

theorem toM_select {r c d : Nat} (A : LM) (idx : List Nat) (hlen : idx.length = d)
    (hlt : ∀ j (hj : j < idx.length), idx[j] < r) :
    toM d c (idx.map fun i => A.getD i []) = (toM r c A).submatrix (sel idx hlen hlt) id := by
  ext j k
  rw [Matrix.submatrix_apply]
  have hj : j.val < idx.length := by rw [hlen]; exact j.isLt
  show ent ((idx.map fun i => A.getD i []).getD j.val []) k.val = ent (A.getD idx[j.val] []) k.val
  have : idx.getD j.val 0 = idx[j.val] := by
    rw [List.getD_eq_getElem?_getD, List.getElem?_eq_getElem hj]; rfl
  rw [getD_map _ idx hj 0 [], this]

theorem select_injective {r d : Nat} (idx : List Nat) (hlen : idx.length = d)
    (hlt : ∀ j (hj : j < idx.length), idx[j] < r) (hpw : idx.Pairwise (· < ·)) :
    Function.Injective (sel idx hlen hlt) := by
  intro a b hab
  have hab' : idx[a.val]'(by rw [hlen]; exact a.isLt) = idx[b.val]'(by rw [hlen]; exact b.isLt) :=
    Fin.mk.inj hab
  rw [List.pairwise_iff_getElem] at hpw
  apply Fin.ext
  rcases Nat.lt_trichotomy a.val b.val with h | h | h
  · have := hpw a.val b.val (by rw [hlen]; exact a.isLt) (by rw [hlen]; exact b.isLt) h
    omega
  · exact h
  · have := hpw b.val a.val (by rw [hlen]; exact b.isLt) (by rw [hlen]; exact a.isLt) h
    omega

theorem submatrix_mul_left {a b c e : Nat} (A : _root_.Matrix (Fin a) (Fin b) GF)
    (B : _root_.Matrix (Fin b) (Fin c) GF) (s : Fin e → Fin a) :
    (A * B).submatrix s id = A.submatrix s id * B := by
  ext i j
  rfl

/-! ### the law -/

/-- The executable GF(2^8) Reed–Solomon code satisfies the list-level MDS law for every ratio
    `1 ≤ d`, `1 ≤ p`, `d + p ≤ 256`. -/
theorem rsNew_lawful : Lawful rsNew where
  enc_length d p data _ _ hn _ := by
    show (encode (buildMatrix d (d + p)) d data).length = p
    unfold encode
    rw [List.length_map, List.length_drop, (buildMatrix_spec (Nat.le_add_right d p) hn).1.1]
    omega
  enc_size d p L data hd _ hn hdl hsz s hs :=
    (shaped_codeword (buildMatrix_spec (Nat.le_add_right d p) hn).1 hd hdl hsz).2 s
      (List.mem_append_right _ hs)
  recon d p L data present hd _ hn hL hdl hsz hpl hcnt := by
    obtain ⟨hmS, hmM⟩ := buildMatrix_spec (Nat.le_add_right d p) hn
    have hx := node_injective hn
    have htop : (toM (d + p) d (buildMatrix d (d + p))).submatrix
        (Fin.castLE (Nat.le_add_right d p)) id = 1 := by
      rw [hmM]; exact RS.sys_top _ hx
    have hcwS := shaped_codeword hmS hd hdl hsz
    have hcw := codeword_eq hmS htop hd hdl hsz
    obtain ⟨hall, hnot⟩ := reconstructData_mask (buildMatrix d (d + p)) d p L
      (data ++ encode (buildMatrix d (d + p)) d data) present hd hL hmS.1 hcwS.1 hcwS.2 hpl hcnt
    show reconstructData (buildMatrix d (d + p)) d
      (mask present (data ++ encode (buildMatrix d (d + p)) d data)) = some data
    cases hc : (present.take d).all id with
    | true => rw [hall hc, List.take_left' hdl]
    | false =>
      obtain ⟨_, hsome⟩ := hnot hc
      have hidxlen : (firstTrue d 0 present).length = d := firstTrue_length d 0 present hcnt
      have hidxlt : ∀ j (hj : j < (firstTrue d 0 present).length),
          (firstTrue d 0 present)[j] < d + p := by
        intro j hj
        have := firstTrue_mem d 0 present _ (List.getElem_mem hj)
        omega
      have hs := select_injective _ hidxlen hidxlt (firstTrue_pairwise d 0 present)
      have hsubS : Shaped d d ((firstTrue d 0 present).map fun i => (buildMatrix d (d + p)).getD i []) := by
        refine ⟨by rw [List.length_map, hidxlen], ?_⟩
        intro row hrow
        obtain ⟨i, hi, rfl⟩ := List.mem_map.1 hrow
        have := firstTrue_mem d 0 present i hi
        exact hmS.2 _ (getD_mem_of_lt (by rw [hmS.1]; omega))
      have hsubM := toM_select (c := d) (buildMatrix d (d + p)) _ hidxlen hidxlt
      have hdet : (toM d d ((firstTrue d 0 present).map fun i =>
          (buildMatrix d (d + p)).getD i [])).det ≠ 0 := by
        rw [hsubM, hmM]
        exact RS.sys_select_det_ne_zero _ hx _ hs
      obtain ⟨dec, hdec⟩ := invert_complete hsubS hdet
      obtain ⟨hdecS, hdecM⟩ := invert_sound hsubS hdec
      rw [hsome dec hdec hdecS.1]
      congr 1
      -- the received shards, as a matrix: the selected rows of the coding matrix times the data
      have hvalS : Shaped d L ((firstTrue d 0 present).map fun j =>
          (data ++ encode (buildMatrix d (d + p)) d data).getD j []) := by
        refine ⟨by rw [List.length_map, hidxlen], ?_⟩
        intro row hrow
        obtain ⟨i, hi, rfl⟩ := List.mem_map.1 hrow
        have := firstTrue_mem d 0 present i hi
        exact hcwS.2 _ (getD_mem_of_lt (by rw [hcwS.1]; omega))
      have hvalM := toM_select (c := L) (data ++ encode (buildMatrix d (d + p)) d data) _
        hidxlen hidxlt
      have hprod : toM d d dec * toM d L ((firstTrue d 0 present).map fun j =>
          (data ++ encode (buildMatrix d (d + p)) d data).getD j []) = toM d L data := by
        rw [hvalM, hcw, submatrix_mul_left, ← hsubM, ← Matrix.mul_assoc, hdecM, Matrix.one_mul]
      apply List.ext_getElem
      · rw [List.length_map, List.length_range, hdl]
      · intro i h1 h2
        have hi : i < d := by rw [List.length_map, List.length_range] at h1; exact h1
        rw [List.getElem_map, List.getElem_range]
        split
        · rw [List.getD_eq_getElem?_getD, List.getElem?_append_left h2, List.getElem?_eq_getElem h2]
          rfl
        · have hdeci : (dec.getD i []).length = d :=
            hdecS.2 _ (getD_mem_of_lt (by rw [hdecS.1]; exact hi))
          have hlenc := length_combine L (dec.getD i []) _ hvalS.2
          apply ext_ent
          · rw [hlenc, hsz _ (List.getElem_mem h2)]
          · intro l hl
            rw [hlenc] at hl
            rw [ent_combine_mul hdeci hvalS ⟨l, hl⟩]
            have := congrFun (congrFun hprod ⟨i, hi⟩) ⟨l, hl⟩
            rw [Matrix.mul_apply] at this
            rw [show (∑ j : Fin d, ent (dec.getD i []) j.val * toM d L _ j ⟨l, hl⟩)
              = ∑ j : Fin d, toM d d dec ⟨i, hi⟩ j * toM d L _ j ⟨l, hl⟩ from rfl, this]
            show ent (data.getD i []) l = ent data[i] l
            rw [List.getD_eq_getElem?_getD, List.getElem?_eq_getElem h2]
            rfl

end KcpVerif.Lemmas.RSBridge
