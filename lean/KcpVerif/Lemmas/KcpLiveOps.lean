/-
Operations of the core as a type, reachable states, and the frame of the RTO fields.
Core Lean only.
-/
import KcpVerif.Lemmas.KcpLiveFlush
import KcpVerif.Lemmas.KcpInput

namespace KcpVerif.Live
open KcpVerif KcpVerif.Gen KcpVerif.Kcp

/-- the state-changing operations of the core with all their arguments (`PeekSize`, `Check`,
`WaitSnd` only read) -/
inductive Op where
  | send (buffer : Bytes)
  | recv (buflen : Nat)
  | input (data : Bytes) (regular ackNoDelay : Bool) (now : U32)
  | flush (full : Bool) (now : U32)
  | update (now : U32)
  | setMtu (mtu : Int)
  | noDelay (nodelay interval resend nc : Int)
  | wndSize (snd rcv : Int)

/-- the connection after an operation (outputs and return values dropped) -/
def step (k : Kcp) : Op → Kcp
  | .send b => (send k b).k
  | .recv n => (recv k n).k
  | .input d r a now => (input k d r a now).k
  | .flush full now => (flush k full now).k
  | .update now => (update k now).k
  | .setMtu m => (setMtu k m).1
  | .noDelay nd iv rs nc => noDelay k nd iv rs nc
  | .wndSize s r => wndSize k s r

/-- run a list of operations -/
def run (k : Kcp) (ops : List Op) : Kcp := ops.foldl step k

/-- the RTO fields are untouched -/
def RtoSame (a b : Kcp) : Prop :=
  a.rx_rto = b.rx_rto ∧ a.rx_minrto = b.rx_minrto ∧ a.rx_srtt = b.rx_srtt ∧ a.rx_rttvar = b.rx_rttvar

theorem RtoSame.refl (a : Kcp) : RtoSame a a := ⟨rfl, rfl, rfl, rfl⟩

theorem RtoSame.trans {a b c : Kcp} (h1 : RtoSame a b) (h2 : RtoSame b c) : RtoSame a c :=
  ⟨h1.1.trans h2.1, h1.2.1.trans h2.2.1, h1.2.2.1.trans h2.2.2.1, h1.2.2.2.trans h2.2.2.2⟩

theorem ite_pred {α : Type} (P : α → Prop) (c : Prop) [Decidable c] {x y : α} (h1 : P x) (h2 : P y) :
    P (if c then x else y) := by
  split <;> assumption

theorem send_rto (k : Kcp) (b : Bytes) : RtoSame (send k b).k k := by
  unfold send
  simp only []
  refine ite_pred (fun r : SendRes => RtoSame r.k k) _ (RtoSame.refl k) ?_
  refine ite_pred (fun r : SendRes => RtoSame r.k k) _ (RtoSame.refl k) ?_
  refine ite_pred (fun r : SendRes => RtoSame r.k k) _ ⟨rfl, rfl, rfl, rfl⟩ ?_
  refine ite_pred (fun r : SendRes => RtoSame r.k k) _ ⟨rfl, rfl, rfl, rfl⟩ ?_
  refine ite_pred (fun r : SendRes => RtoSame r.k k) _ ⟨rfl, rfl, rfl, rfl⟩ ?_
  exact ⟨rfl, rfl, rfl, rfl⟩

theorem recv_rto (k : Kcp) (n : Nat) : RtoSame (recv k n).k k := by
  unfold recv moveReady
  simp only []
  repeat' split
  all_goals exact ⟨rfl, rfl, rfl, rfl⟩

theorem flush_rto (k : Kcp) (full : Bool) (now : U32) : RtoSame (flush k full now).k k := by
  obtain ⟨_, _, _, _, _, _, h⟩ := flush_frame k full now
  rw [h]; exact ⟨rfl, rfl, rfl, rfl⟩

theorem update_rto (k : Kcp) (now : U32) : RtoSame (update k now).k k := by
  unfold update
  simp only []
  refine ite_pred (fun r : FlushRes => RtoSame r.k k) _ ((flush_rto _ true now).trans ?_) ?_
  · repeat' split
    all_goals exact ⟨rfl, rfl, rfl, rfl⟩
  · repeat' split
    all_goals exact ⟨rfl, rfl, rfl, rfl⟩

theorem setMtu_rto (k : Kcp) (m : Int) : RtoSame (setMtu k m).1 k := by
  unfold setMtu
  simp only []
  repeat' split
  all_goals exact ⟨rfl, rfl, rfl, rfl⟩

theorem wndSize_rto (k : Kcp) (s r : Int) : RtoSame (wndSize k s r) k := by
  unfold wndSize
  simp only []
  repeat' split
  all_goals exact ⟨rfl, rfl, rfl, rfl⟩

theorem cwndOnAck_rto (k : Kcp) (old : U32) : RtoSame (cwndOnAck k old) k := by
  unfold cwndOnAck
  simp only []
  repeat' split
  all_goals exact ⟨rfl, rfl, rfl, rfl⟩

theorem inSt_rto (k : Kcp) (data : Bytes) (regular : Bool) : RtoSame (inSt k data regular).k k := by
  unfold inSt
  apply inputLoop_induct regular (fun x => RtoSame x.k k)
  · intro st r h; exact h
  · intro conv cmd frg wnd ts sn una payload st _ _ _ h
    obtain ⟨_, _, _, _, _, _, _, hf⟩ := inStep_frame regular conv cmd frg wnd ts sn una payload st
    rw [hf]; exact h
  · exact RtoSame.refl k

/-- what `noDelay` does to the RTO fields -/
theorem noDelay_rto (k : Kcp) (nd iv rs nc : Int) :
    (noDelay k nd iv rs nc).rx_rto = k.rx_rto ∧
    (noDelay k nd iv rs nc).rx_minrto =
      if nd ≥ 0 then (if nd ≠ 0 then u32 IKCP_RTO_NDL else u32 IKCP_RTO_MIN) else k.rx_minrto := by
  unfold noDelay
  simp only []
  repeat' split
  all_goals first | exact ⟨rfl, rfl⟩ | contradiction

/-! ### the RTO invariant -/

/-- `rx_minrto ≤ rx_rto ≤ IKCP_RTO_MAX` -/
def RtoInv (k : Kcp) : Prop := k.rx_minrto ≤ k.rx_rto ∧ k.rx_rto ≤ u32 IKCP_RTO_MAX

instance (k : Kcp) : Decidable (RtoInv k) := by unfold RtoInv; infer_instance

/-- the only restriction on an operation: `NoDelay` must not raise `rx_minrto` above the current
`rx_rto` (it writes `rx_minrto := 30` for `nodelay ≠ 0`, `100` for `nodelay = 0`, nothing for
`nodelay < 0`) -/
def rtoOk (k : Kcp) : Op → Prop
  | .noDelay nd _ _ _ => nd < 0 ∨ (if nd ≠ 0 then u32 IKCP_RTO_NDL else u32 IKCP_RTO_MIN) ≤ k.rx_rto
  | _ => True

instance (k : Kcp) (op : Op) : Decidable (rtoOk k op) := by
  cases op <;> unfold rtoOk <;> infer_instance

/-- every operation of the list satisfies `rtoOk` in the state it is applied to -/
def runOk (k : Kcp) : List Op → Prop
  | [] => True
  | op :: rest => rtoOk k op ∧ runOk (step k op) rest

instance : (k : Kcp) → (ops : List Op) → Decidable (runOk k ops)
  | _, [] => by unfold runOk; infer_instance
  | k, op :: rest => by
    unfold runOk
    have := instDecidableRunOk (step k op) rest
    infer_instance

theorem RtoInv.of_same {a b : Kcp} (h : RtoSame a b) (hb : RtoInv b) : RtoInv a := by
  unfold RtoInv; rw [h.1, h.2.1]; exact hb

theorem run_cons (k : Kcp) (op : Op) (rest : List Op) : run k (op :: rest) = run (step k op) rest := rfl

end KcpVerif.Live
