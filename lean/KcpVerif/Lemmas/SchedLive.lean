import KcpVerif.Lemmas.Sched
/-!
Helper lemmas for C17, liveness side: from every reachable state the scheduler CAN complete all
pending tasks without further `Put`s (`can_complete`).  Construction: (A) `settle` — a measure
`rho` strictly decreases along the own steps of stage 1 and of workers outside their `select`,
until stage 1 is empty and every worker stands at its `select`; (B) `exec_one` — in a settled
state a worker holding a task has its timer armed or a value pending (`WInv`), so after letting
time pass it fires, is received and a minimum is popped; induction on the number of pending tasks.
-/
namespace KcpVerif.Sched

/-! ### possibility of completion: no reachable state is doomed -/

def NoPut (ls : List Label) : Prop := ∀ l, l ∈ ls → ∀ id ts, l ≠ .put id ts

theorem NoPut.append {a b : List Label} (ha : NoPut a) (hb : NoPut b) : NoPut (a ++ b) := by
  intro l hl
  rcases List.mem_append.mp hl with h | h
  · exact ha l h
  · exact hb l h

theorem run_append {m : Mode} : ∀ {a b : List Label} {s s1 s2 : State},
    run m s a = some s1 → run m s1 b = some s2 → run m s (a ++ b) = some s2
  | [], b, s, s1, s2, h1, h2 => by cases h1; exact h2
  | l :: a, b, s, s1, s2, h1, h2 => by
    rw [run_cons] at h1
    rw [List.cons_append, run_cons]
    split at h1 <;> try contradiction
    exact run_append h1 h2

/-- what a step that is not a `Put` does to the ghost lists -/
theorem step_noput {m : Mode} {s s' : State} {l : Label} (hs : step m s l = some s')
    (hl : ∀ id ts, l ≠ .put id ts) : s'.sub = s.sub ∧ s.done.length ≤ s'.done.length := by
  cases l with
  | tick d => simp only [Sched.step, Option.some.injEq] at hs; subst hs; exact ⟨rfl, Nat.le_refl _⟩
  | put id ts => exact absurd rfl (hl id ts)
  | notify => simp only [Sched.step] at hs; split at hs <;> cases hs; exact ⟨rfl, Nat.le_refl _⟩
  | takeToken => simp only [Sched.step] at hs; split at hs <;> cases hs; exact ⟨rfl, Nat.le_refl _⟩
  | swap => simp only [Sched.step] at hs; split at hs <;> cases hs; exact ⟨rfl, Nat.le_refl _⟩
  | handoff i =>
    obtain ⟨t, rest, w, w', _, _, _, _, rfl⟩ := step_handoff hs
    exact ⟨rfl, Nat.le_refl _⟩
  | w i l =>
    obtain ⟨w, out, _, _, rfl⟩ := step_w hs
    refine ⟨by simp, ?_⟩
    cases out.exec <;> simp [logExec]

theorem run_noput {m : Mode} : ∀ {ls : List Label} {s s' : State}, run m s ls = some s' → NoPut ls →
    s'.sub = s.sub ∧ s.done.length ≤ s'.done.length
  | [], s, s', h, _ => by cases h; exact ⟨rfl, Nat.le_refl _⟩
  | l :: ls, s, s', h, hn => by
    rw [run_cons] at h
    split at h <;> try contradiction
    rename_i s1 hs1
    have h1 := step_noput hs1 (hn l (by simp))
    have h2 := run_noput h (fun x hx => hn x (List.mem_cons_of_mem _ hx))
    exact ⟨h2.1.trans h1.1, Nat.le_trans h1.2 h2.2⟩

/-- number of tasks not executed yet -/
theorem pending_length {m : Mode} {k : Nat} {t0 : Time} {s : State} (h : Reachable m k t0 s) :
    s.sub.length = (pendingTasks s).length + s.done.length := by
  have hperm : s.sub.Perm (pendingTasks s ++ s.done.map (·.task)) := by
    rw [List.perm_iff_count]
    intro a
    have := h.invC.1 a
    simp only [pendingTasks, List.count_append]
    omega
  have := hperm.length_eq
  simpa using this


def Worker.rank (w : Worker) : Nat :=
  match w.pc with
  | .select => 0
  | .gotTask _ => 4
  | .pushed _ => 3
  | .stopped _ _ => 2
  | .reset _ => 1
  | .loop _ => 1 + w.heap.length

def rankAll (ws : List Worker) : Nat := (ws.map Worker.rank).sum

theorem rankAll_set : ∀ {ws : List Worker} {i : Nat} {w w' : Worker}, ws[i]? = some w →
    rankAll (ws.set i w') + w.rank = rankAll ws + w'.rank
  | [], i, w, w', h => by simp at h
  | x :: ws, 0, w, w', h => by
    simp only [List.getElem?_cons_zero, Option.some.injEq] at h
    subst h
    simp only [rankAll, List.set_cons_zero, List.map_cons, List.sum_cons]
    omega
  | x :: ws, i + 1, w, w', h => by
    simp only [List.getElem?_cons_succ] at h
    have ih := rankAll_set (w' := w') h
    simp only [rankAll, List.set_cons_succ, List.map_cons, List.sum_cons] at ih ⊢
    omega

/-- a worker outside its `select` has an own step that brings it strictly closer to the `select` -/
theorem wstep_progress {m : Mode} {now : Time} {w : Worker} (h : WInv m now w) (hp : w.pc ≠ .select) :
    ∃ l, (∀ v, l ≠ .fire v) ∧ ∃ out, wstep m now w l = some out ∧ out.w.rank < w.rank := by
  obtain ⟨_, hpc⟩ := h
  cases hpc' : w.pc with
  | select => exact absurd hpc' hp
  | gotTask t =>
    refine ⟨.readNow, by simp, ?_⟩
    by_cases hlt : t.ts < now
    · simp only [wstep, hpc', hlt, if_true]
      exact ⟨_, rfl, by simp [Worker.rank, hpc']⟩
    · simp only [wstep, hpc', hlt, if_false]
      exact ⟨_, rfl, by simp [Worker.rank, hpc']⟩
  | pushed n =>
    refine ⟨.stop, by simp, ?_⟩
    simp only [wstep, hpc']
    exact ⟨_, rfl, by simp [Worker.rank, hpc']⟩
  | stopped n st =>
    simp only [hpc'] at hpc
    refine ⟨.drain, by simp, ?_⟩
    by_cases hcond : st = false ∧ w.drained = false
    · have := hpc.2.2.2.1 hcond
      obtain ⟨v, hv⟩ := Option.isSome_iff_exists.mp this
      simp only [wstep, hpc', hcond, hv, and_self, if_true]
      exact ⟨_, rfl, by simp [Worker.rank, hpc']⟩
    · simp only [wstep, hpc', hcond, if_false]
      exact ⟨_, rfl, by simp [Worker.rank, hpc']⟩
  | reset n =>
    refine ⟨.reset, by simp, ?_⟩
    simp only [wstep, hpc']
    exact ⟨_, rfl, by simp [Worker.rank, hpc']⟩
  | loop v =>
    by_cases hnil : w.heap = []
    · refine ⟨.loopEnd, by simp, ?_⟩
      simp only [wstep, hpc', hnil, if_true]
      exact ⟨_, rfl, by simp only [Worker.rank, hpc']; omega⟩
    · by_cases hlt : minTs w.heap < v
      · obtain ⟨t, ht, hte⟩ := minTs_mem hnil
        have hcond : t ∈ w.heap ∧ t.ts = minTs w.heap ∧ t.ts < v := ⟨ht, hte, hte ▸ hlt⟩
        refine ⟨.pop t, by simp, ?_⟩
        simp only [wstep, hpc']
        rw [if_pos hcond]
        refine ⟨_, rfl, ?_⟩
        have hlen := List.length_erase_of_mem ht
        have hpos : 0 < w.heap.length := List.length_pos_of_mem ht
        simp only [Worker.rank, hpc', hlen]
        omega
      · refine ⟨.loopEnd, by simp, ?_⟩
        simp only [wstep, hpc', hnil, hlt, if_false]
        exact ⟨_, rfl, by simp only [Worker.rank, hpc']; omega⟩


def rho (s : State) : Nat :=
  3 * s.pend + (if s.ntok = true then 2 else 0) + (match s.ppc with | .gotToken => 1 | .idle => 0)
    + 6 * s.pre.length + 5 * s.batch.length + rankAll s.ws

/-- stage 1 is empty and every worker stands at its `select` -/
def Settled (s : State) : Prop :=
  s.pend = 0 ∧ s.ntok = false ∧ s.ppc = .idle ∧ s.batch = [] ∧ ∀ w, w ∈ s.ws → w.pc = .select

theorem step_w_eq {m : Mode} {s : State} {i : Nat} {w : Worker} {l : WLabel} {out : WOut}
    (hw : s.ws[i]? = some w) (ho : wstep m s.now w l = some out) :
    step m s (.w i l) = some (logExec s.now out.exec { s with ws := s.ws.set i out.w }) := by
  simp only [Sched.step, hw, ho]

theorem settle_step {m : Mode} {k : Nat} {t0 : Time} {s : State} (h : Reachable m k t0 s) (hk : 0 < k)
    (hns : ¬ Settled s) :
    ∃ l, (∀ id ts, l ≠ .put id ts) ∧ ∃ s', step m s l = some s' ∧ rho s' < rho s := by
  by_cases hall : ∀ w, w ∈ s.ws → w.pc = .select
  · by_cases hpend : 0 < s.pend
    · refine ⟨.notify, by simp, ?_⟩
      simp only [Sched.step, Nat.ne_of_gt hpend, if_false]
      refine ⟨_, rfl, ?_⟩
      simp only [rho]
      split <;> simp <;> omega
    cases hppc : s.ppc with
    | gotToken =>
      have hb := h.invC.2 hppc
      refine ⟨.swap, by simp, ?_⟩
      simp only [Sched.step, hppc, if_true]
      refine ⟨_, rfl, ?_⟩
      simp only [rho, hppc, hb, List.length_nil]
      omega
    | idle =>
      cases hb : s.batch with
      | cons t rest =>
        have hlen := h.ws_length
        have h0 : 0 < s.ws.length := by omega
        have hw0 : s.ws[0]? = some s.ws[0] := List.getElem?_eq_getElem h0
        have hsel := hall _ (List.getElem_mem h0)
        refine ⟨.handoff 0, by simp, ?_⟩
        simp only [Sched.step, hppc, hb, hw0, Worker.recvTask, hsel, if_true]
        refine ⟨_, rfl, ?_⟩
        have hset := rankAll_set (w' := { s.ws[0] with pc := .gotTask t }) hw0
        simp only [Worker.rank, hsel] at hset
        simp only [rho, hppc, hb, List.length_cons]
        omega
      | nil =>
        by_cases htok : s.ntok = true
        · refine ⟨.takeToken, by simp, ?_⟩
          simp only [Sched.step, hppc, hb, htok, and_self, if_true]
          refine ⟨_, rfl, ?_⟩
          simp [rho, hppc, hb, htok]
        · exfalso
          apply hns
          exact ⟨by omega, by simpa using htok, hppc, hb, hall⟩
  · have : ∃ w, w ∈ s.ws ∧ w.pc ≠ .select := by
      apply Classical.byContradiction
      intro hno
      apply hall
      intro w hw
      apply Classical.byContradiction
      intro hne
      exact hno ⟨w, hw, hne⟩
    obtain ⟨w, hw, hne⟩ := this
    obtain ⟨i, hi⟩ := List.getElem?_of_mem hw
    obtain ⟨l, hnf, out, ho, hlt⟩ := wstep_progress (h.invW w hw) hne
    refine ⟨.w i l, by simp, _, step_w_eq hi ho, ?_⟩
    have hset := rankAll_set (w' := out.w) hi
    simp only [rho, logExec_pend, logExec_ntok, logExec_ppc, logExec_pre, logExec_batch, logExec_ws]
    omega

theorem settle {m : Mode} {k : Nat} {t0 : Time} (hk : 0 < k) : ∀ (n : Nat) {s : State},
    Reachable m k t0 s → rho s ≤ n → ∃ ls s', NoPut ls ∧ run m s ls = some s' ∧ Settled s'
  | 0, s, h, hn => by
    by_cases hs : Settled s
    · exact ⟨[], s, (fun l hl => by cases hl), rfl, hs⟩
    · obtain ⟨l, _, s', _, hlt⟩ := settle_step h hk hs
      omega
  | n + 1, s, h, hn => by
    by_cases hs : Settled s
    · exact ⟨[], s, (fun l hl => by cases hl), rfl, hs⟩
    · obtain ⟨l, hl, s1, hs1, hlt⟩ := settle_step h hk hs
      obtain ⟨ls, s', hnp, hr, hset⟩ := settle hk n (h.step hs1) (by omega)
      refine ⟨l :: ls, s', ?_, ?_, hset⟩
      · intro x hx
        rcases List.mem_cons.mp hx with rfl | hx'
        · exact hl
        · exact hnp x hx'
      · rw [run_cons, hs1]; exact hr


/-- several own steps of one worker at a fixed clock value; `n` = number of executions -/
inductive WRuns (m : Mode) (now : Time) : Worker → List WLabel → Worker → Nat → Prop
  | nil (w : Worker) : WRuns m now w [] w 0
  | cons {w : Worker} {l : WLabel} {out : WOut} {ls : List WLabel} {w' : Worker} {n : Nat} :
      wstep m now w l = some out → WRuns m now out.w ls w' n →
      WRuns m now w (l :: ls) w' (n + out.exec.toList.length)

theorem WRuns.lift {m : Mode} {now : Time} {i : Nat} {w w' : Worker} {ls : List WLabel} {n : Nat}
    (hr : WRuns m now w ls w' n) : ∀ {s : State}, s.now = now → s.ws[i]? = some w →
    ∃ s', run m s (ls.map (.w i)) = some s' ∧ s'.now = now ∧ s'.ws[i]? = some w' ∧
      s'.done.length = s.done.length + n := by
  induction hr with
  | nil w => intro s hn hw; exact ⟨s, rfl, hn, hw, rfl⟩
  | @cons w l out ls w' n ho _ ih =>
    intro s hn hw
    subst hn
    have hstep := step_w_eq hw ho
    have hlt : i < s.ws.length := by
      have := List.getElem?_eq_some_iff.mp hw
      exact this.1
    obtain ⟨s', hrun, hnow, hws, hdone⟩ := ih (s := logExec s.now out.exec { s with ws := s.ws.set i out.w })
      (by simp) (by simp [List.getElem?_set_self hlt])
    refine ⟨s', ?_, by simpa using hnow, hws, ?_⟩
    · rw [List.map_cons, run_cons, hstep]; exact hrun
    · rw [hdone]
      cases out.exec <;> simp [logExec] <;> omega

theorem noPut_map_w (i : Nat) (ls : List WLabel) : NoPut (ls.map (.w i)) := by
  intro l hl id ts he
  obtain ⟨x, _, rfl⟩ := List.mem_map.mp hl
  cases he

/-- an armed timer whose time has come and whose heap minimum is overdue: fire, receive, pop -/
theorem wruns_pop_armed {m : Mode} {now wh : Time} {w : Worker} (hsel : w.pc = .select)
    (hne : w.heap ≠ []) (harm : w.timer.armed = some wh) (hch : w.timer.chan = none)
    (hwh : wh ≤ now) (hmin : minTs w.heap < now) :
    ∃ ls w' n, WRuns m now w ls w' n ∧ 0 < n := by
  obtain ⟨t, ht, hte⟩ := minTs_mem hne
  have h1 : wstep m now w (.fire now) = some { w := { w with timer := w.timer.fire now }, exec := none } := by
    simp only [wstep, harm, hwh, Nat.le_refl, and_self, if_true]
  have h2 : wstep m now { w with timer := w.timer.fire now } .recvTimer =
      some { w := { w with pc := .loop now, timer := (w.timer.fire now).recv, drained := true }, exec := none } := by
    simp only [wstep, hsel, Timer.fire, hch]
  have hcond : t ∈ w.heap ∧ t.ts = minTs w.heap ∧ t.ts < now := ⟨ht, hte, hte ▸ hmin⟩
  have h3 : wstep m now { w with pc := .loop now, timer := (w.timer.fire now).recv, drained := true } (.pop t) =
      some { w := { w with pc := .loop now, timer := (w.timer.fire now).recv, drained := true,
                           heap := w.heap.erase t }, exec := some t } := by
    simp only [wstep]
    rw [if_pos hcond]
  exact ⟨_, _, _, WRuns.cons h1 (WRuns.cons h2 (WRuns.cons h3 (WRuns.nil _))), by simp⟩


/-- a pending channel value newer than the heap minimum: receive it, pop -/
theorem wruns_pop_chan {m : Mode} {now v0 : Time} {w : Worker} (hsel : w.pc = .select)
    (hne : w.heap ≠ []) (hch : w.timer.chan = some v0) (hmin : minTs w.heap < v0) :
    ∃ ls w' n, WRuns m now w ls w' n ∧ 0 < n := by
  obtain ⟨t, ht, hte⟩ := minTs_mem hne
  have h2 : wstep m now w .recvTimer =
      some { w := { w with pc := .loop v0, timer := w.timer.recv, drained := true }, exec := none } := by
    simp only [wstep, hsel, hch]
  have hcond : t ∈ w.heap ∧ t.ts = minTs w.heap ∧ t.ts < v0 := ⟨ht, hte, hte ▸ hmin⟩
  have h3 : wstep m now { w with pc := .loop v0, timer := w.timer.recv, drained := true } (.pop t) =
      some { w := { w with pc := .loop v0, timer := w.timer.recv, drained := true,
                           heap := w.heap.erase t }, exec := some t } := by
    simp only [wstep]
    rw [if_pos hcond]
  exact ⟨_, _, _, WRuns.cons h2 (WRuns.cons h3 (WRuns.nil _)), by simp⟩

/-- a pending channel value that is not newer than the heap minimum: receive it, re-arm -/
theorem wruns_rearm {m : Mode} {now v0 : Time} {w : Worker} (hsel : w.pc = .select)
    (hne : w.heap ≠ []) (hch : w.timer.chan = some v0) (hmin : ¬ minTs w.heap < v0) :
    ∃ ls w', WRuns m now w ls w' 0 ∧ w'.pc = .select ∧ w'.heap = w.heap ∧
      w'.timer.armed = some (now + (minTs w.heap - v0)) ∧ w'.timer.chan = none := by
  have h2 : wstep m now w .recvTimer =
      some { w := { w with pc := .loop v0, timer := w.timer.recv, drained := true }, exec := none } := by
    simp only [wstep, hsel, hch]
  have h3 : wstep m now { w with pc := .loop v0, timer := w.timer.recv, drained := true } .loopEnd =
      some { w := { w with pc := .select, timer := w.timer.recv.reset m (now + (minTs w.heap - v0)),
                           drained := false, armedAt := now, usedNow := v0 }, exec := none } := by
    simp only [wstep, hne, hmin, if_false]
  refine ⟨_, _, WRuns.cons h2 (WRuns.cons h3 (WRuns.nil _)), rfl, rfl, ?_, ?_⟩
  · cases m <;> rfl
  · cases m <;> rfl

theorem step_tick (m : Mode) (s : State) (d : Nat) : step m s (.tick d) = some { s with now := s.now + d } := rfl

/-- in a settled state with something pending, some task can be executed (after letting time pass) -/
theorem exec_one {m : Mode} {k : Nat} {t0 : Time} {s : State} (h : Reachable m k t0 s)
    (hs : Settled s) (hp : pendingTasks s ≠ []) :
    ∃ ls s', NoPut ls ∧ run m s ls = some s' ∧ s.done.length < s'.done.length := by
  obtain ⟨hpend, htok, hppc, hb, hall⟩ := hs
  have hpre : s.pre = [] := by
    by_cases hne : s.pre = []
    · exact hne
    · rcases h.invH hne with h1 | h1 | h1
      · simp [htok] at h1
      · simp [hppc] at h1
      · omega
  have hheld : heldAll s.ws ≠ [] := by simpa [pendingTasks, hpre, hb] using hp
  obtain ⟨i, w, hwi, hne⟩ := exists_held_of_heldAll_ne_nil hheld
  have hmem := List.mem_of_getElem? hwi
  have hsel := hall w hmem
  have hheap : w.heap ≠ [] := by simpa [held, hsel] using hne
  have hq : w.quiet s.now := by
    have := (h.invW w hmem).2
    simpa only [hsel] using this
  obtain ⟨h1, h2, _⟩ := hq
  -- the tail of every case: tick, then fire / receive / pop
  have tail : ∀ (s1 : State) (w1 : Worker) (wh : Time), s1.ws[i]? = some w1 → w1.pc = .select →
      w1.heap ≠ [] → w1.timer.armed = some wh → w1.timer.chan = none →
      ∃ ls s', NoPut ls ∧ run m s1 ls = some s' ∧ s1.done.length < s'.done.length := by
    intro s1 w1 wh hw1 hsel1 hne1 harm1 hch1
    let d := max wh (minTs w1.heap + 1) - s1.now
    have hle1 : wh ≤ s1.now + d := by
      have := Nat.le_max_left wh (minTs w1.heap + 1)
      show wh ≤ s1.now + (max wh (minTs w1.heap + 1) - s1.now)
      unfold Time at *; omega
    have hle2 : minTs w1.heap < s1.now + d := by
      have := Nat.le_max_right wh (minTs w1.heap + 1)
      show minTs w1.heap < s1.now + (max wh (minTs w1.heap + 1) - s1.now)
      unfold Time at *; omega
    obtain ⟨ls, w', n, hr, hn⟩ := wruns_pop_armed (m := m) hsel1 hne1 harm1 hch1 hle1 hle2
    obtain ⟨s', hrun, _, _, hdone⟩ := hr.lift (i := i) (s := { s1 with now := s1.now + d }) rfl hw1
    refine ⟨.tick d :: ls.map (.w i), s', ?_, ?_, ?_⟩
    · intro l hl
      rcases List.mem_cons.mp hl with rfl | hl'
      · intro id ts he; cases he
      · exact noPut_map_w i ls l hl'
    · rw [run_cons, step_tick]; exact hrun
    · rw [hdone]; simp only; omega
  cases hd : w.drained with
  | true => exact absurd (h1 hd).2 hheap
  | false =>
    rcases h2 hd with ⟨ha, hc⟩ | ⟨_, hc⟩
    · obtain ⟨wh, hwh⟩ := Option.isSome_iff_exists.mp ha
      exact tail s w wh hwi hsel hheap hwh hc
    · obtain ⟨v0, hv0⟩ := Option.isSome_iff_exists.mp hc
      by_cases hmin : minTs w.heap < v0
      · obtain ⟨ls, w', n, hr, hn⟩ := wruns_pop_chan (m := m) (now := s.now) hsel hheap hv0 hmin
        obtain ⟨s', hrun, _, _, hdone⟩ := hr.lift (i := i) (s := s) rfl hwi
        exact ⟨ls.map (.w i), s', noPut_map_w i ls, hrun, by omega⟩
      · obtain ⟨ls, w', hr, hsel', hheap', harm', hch'⟩ := wruns_rearm (m := m) (now := s.now) hsel hheap hv0 hmin
        obtain ⟨s1, hrun1, _, hws1, hdone1⟩ := hr.lift (i := i) (s := s) rfl hwi
        obtain ⟨ls2, s', hnp2, hrun2, hlt2⟩ := tail s1 w' _ hws1 hsel' (hheap' ▸ hheap) harm' hch'
        exact ⟨ls.map (.w i) ++ ls2, s', (noPut_map_w i ls).append hnp2, run_append hrun1 hrun2, by omega⟩


/-- **no reachable state is doomed**: from every reachable state the scheduler can, without any
    further `Put`, run every pending task (by its own steps, timer firings and the passing of time) -/
theorem can_complete {m : Mode} {k : Nat} {t0 : Time} (hk : 0 < k) : ∀ (n : Nat) {s : State},
    Reachable m k t0 s → (pendingTasks s).length ≤ n →
    ∃ ls s', NoPut ls ∧ run m s ls = some s' ∧ pendingTasks s' = []
  | n, s, h, hn => by
    obtain ⟨ls1, s1, hnp1, hrun1, hset⟩ := settle hk (rho s) h (Nat.le_refl _)
    have hr1 : Reachable m k t0 s1 := h.run hrun1
    have hnp := run_noput hrun1 hnp1
    have hl0 := pending_length h
    have hl1 := pending_length hr1
    rw [hnp.1] at hl1
    by_cases hp : pendingTasks s1 = []
    · exact ⟨ls1, s1, hnp1, hrun1, hp⟩
    · obtain ⟨ls2, s2, hnp2, hrun2, hlt⟩ := exec_one hr1 hset hp
      have hr2 : Reachable m k t0 s2 := hr1.run hrun2
      have hnp' := run_noput hrun2 hnp2
      have hl2 := pending_length hr2
      rw [hnp'.1, hnp.1] at hl2
      match n with
      | 0 =>
        have : (pendingTasks s1).length = 0 := by omega
        exact absurd (List.eq_nil_of_length_eq_zero this) hp
      | n + 1 =>
        obtain ⟨ls3, s3, hnp3, hrun3, hfin⟩ := can_complete hk n hr2 (by omega)
        exact ⟨ls1 ++ (ls2 ++ ls3), s3, hnp1.append (hnp2.append hnp3),
          run_append hrun1 (run_append hrun2 hrun3), hfin⟩

end KcpVerif.Sched
