/-
C11 (conversation isolation), wire side: every datagram a `Model/Sess` session of conversation `c`
ever hands to its output is read by the header switch of `Listener.packetInput`
(`SessIn.parseHdr`) as "conversation `c`" — or is shorter than `SessIn.minPacket` and dropped before
the switch.

Route:
* `Good c k`: the core's `conv` is `c` and every segment of `snd_buf` carries `conv = c`,
  `cmd = IKCP_CMD_PUSH` (phase 5 of `flush` encodes the SEGMENT's `conv`/`cmd`, so both halves are
  needed).  It holds for a fresh core and is kept by every core operation a session performs.
* every frame a flush of a `Good` core writes has `conv = c` and a KCP command byte
  (`flushFrs_ok`, from `SysW.flush_frames`), so every datagram is `[]` or starts with such a frame,
  on which the listener's switch takes the default (non-FEC) arm and reads `c` at offset 0
  (`genuine_frames`).
* lift to `sessStep` / `sessRun` (`sessStep_inv`, `sessRun_wire_hdr`).
-/
import KcpVerif.Model.SessIn
import KcpVerif.Lemmas.C01SessFrg
import KcpVerif.Lemmas.SysCleanB
import KcpVerif.Lemmas.KcpOps

namespace KcpVerif.C11Iso
open KcpVerif KcpVerif.Gen KcpVerif.Kcp KcpVerif.C01

/-- what `Listener.packetInput`'s header switch reads from a datagram: below the minimum size (dropped
before the switch), or conversation `c` readable at offset 0 -/
def GenuineHdr (c : U32) (d : Bytes) : Prop :=
  d.length < SessIn.minPacket ∨ ∃ sn, SessIn.parseHdr d = some ⟨true, c, sn⟩

/-! ### the invariant of the core -/

/-- a segment of the send buffer as phase 4 stamps it -/
def SegOk (c : U32) (s : Seg) : Prop := s.conv = c ∧ s.cmd = BitVec.ofNat 8 IKCP_CMD_PUSH

/-- the core belongs to conversation `c` and so does everything in its send buffer -/
def Good (c : U32) (k : Kcp) : Prop := k.conv = c ∧ ∀ s ∈ k.snd_buf, SegOk c s

theorem Good.same {c : U32} {k k' : Kcp} (h : Good c k) (hc : k'.conv = k.conv) (hb : k'.snd_buf = k.snd_buf) :
    Good c k' :=
  ⟨hc.trans h.1, by rw [hb]; exact h.2⟩

theorem Good.sndSame {c : U32} {k k' : Kcp} (h : Good c k) (hs : Frame.SndSame k k') : Good c k' :=
  h.same hs.conv hs.snd_buf

theorem new_good (c : U32) : Good c (Kcp.new c) :=
  ⟨rfl, fun s hs => by cases hs⟩

theorem setMtu_good {c : U32} {k : Kcp} (mtu : Int) (h : Good c k) : Good c (setMtu k mtu).1 :=
  h.same (C01.setMtu_rcvSame k mtu).conv (C01.setMtu_sndQ k mtu).snd_buf

theorem noDelay_good {c : U32} {k : Kcp} (a b c' d : Int) (h : Good c k) : Good c (noDelay k a b c' d) :=
  h.same (C01.noDelay_rcvSame k a b c' d).conv (C01.noDelay_sndQ k a b c' d).snd_buf

theorem wndSize_good {c : U32} {k : Kcp} (a b : Int) (h : Good c k) : Good c (wndSize k a b) :=
  h.same (C01.wndSize_rcvSame k a b).conv (C01.wndSize_sndQ k a b).snd_buf

theorem sessNew_good (c : U32) : Good c (Sess.new c).k := setMtu_good _ (new_good c)

theorem send_good {c : U32} {k : Kcp} (b : Bytes) (h : Good c k) : Good c (send k b).k := by
  obtain ⟨q, hq⟩ := Kcp.send_shape k b
  rw [hq]; exact h

theorem recv_good {c : U32} {k : Kcp} (n : Nat) (h : Good c k) : Good c (recv k n).k :=
  h.sndSame (C01.recv_sndSame k n)

/-! ### `Input`: the parse loop only removes segments from `snd_buf` or updates their timers -/

theorem ackLoop_ok (c sn : U32) : ∀ l : List Seg, (∀ s ∈ l, SegOk c s) → ∀ s ∈ ackLoop sn l, SegOk c s := by
  intro l
  induction l with
  | nil => intro _ s hs; simp [ackLoop] at hs
  | cons a rest ih =>
    intro h s hs
    unfold ackLoop at hs
    split at hs
    · rcases List.mem_cons.mp hs with rfl | hs
      · exact h a (List.mem_cons_self ..)
      · exact h s (List.mem_cons_of_mem _ hs)
    · split at hs
      · exact h s hs
      · rcases List.mem_cons.mp hs with rfl | hs
        · exact h _ (List.mem_cons_self ..)
        · exact ih (fun x hx => h x (List.mem_cons_of_mem _ hx)) s hs

theorem fastLoop_ok (c sn ts fr : U32) : ∀ l : List Seg, (∀ s ∈ l, SegOk c s) →
    ∀ s ∈ (fastLoop sn ts fr l).buf, SegOk c s := by
  intro l
  induction l with
  | nil => intro _ s hs; simp [fastLoop] at hs
  | cons a rest ih =>
    intro h s hs
    have hr := ih (fun x hx => h x (List.mem_cons_of_mem _ hx))
    unfold fastLoop at hs
    split at hs
    · exact h s hs
    · split at hs
      · simp only [] at hs
        rcases List.mem_cons.mp hs with rfl | hs
        · exact h a (List.mem_cons_self ..)
        · exact hr s hs
      · simp only [] at hs
        rcases List.mem_cons.mp hs with rfl | hs
        · exact h _ (List.mem_cons_self ..)
        · exact hr s hs

theorem dropAcked_mem {s : Seg} : ∀ {l : List Seg}, s ∈ dropAcked l → s ∈ l := by
  intro l
  induction l with
  | nil => intro h; simp [dropAcked] at h
  | cons a t ih =>
    intro h
    unfold dropAcked at h
    split at h
    · exact List.mem_cons_of_mem _ (ih h)
    · exact h

/-- `shrink_buf` pops the leading acked segments and moves `snd_una`: members stay members -/
theorem shrinkBuf_good {c : U32} {k : Kcp} (h : Good c k) : Good c (shrinkBuf k) := by
  rw [Live.shrinkBuf_eq]; exact ⟨h.1, fun s hs => h.2 s (dropAcked_mem hs)⟩

theorem parseUna_good {c : U32} {k : Kcp} (una : U32) (h : Good c k) : Good c (parseUna k una).1 :=
  ⟨h.1, fun s hs => h.2 s (List.mem_of_mem_drop hs)⟩

theorem parseAck_good {c : U32} {k : Kcp} (sn : U32) (h : Good c k) : Good c (parseAck k sn) := by
  unfold parseAck
  split
  · exact h
  · exact ⟨h.1, ackLoop_ok c sn _ h.2⟩

theorem parseFastack_good {c : U32} {k : Kcp} (sn ts : U32) (h : Good c k) : Good c (parseFastack k sn ts).1 := by
  unfold parseFastack
  split
  · exact h
  · exact ⟨h.1, fastLoop_ok c sn ts _ _ h.2⟩

theorem parseData_good {c : U32} {k : Kcp} (s : Seg) (h : Good c k) : Good c (parseData k s).k :=
  h.sndSame (Frame.parseData_sndSame k s)

theorem inSt1_good {c : U32} (regular : Bool) (wnd : BitVec 16) (una : U32) (st : InLoop) (h : Good c st.k) :
    Good c (Kcp.inSt1 regular wnd una st).k := by
  unfold Kcp.inSt1
  simp only []
  apply shrinkBuf_good
  apply parseUna_good
  split
  · exact h
  · exact h

theorem inBody_good (c : U32) (regular : Bool) (data : Bytes) (st : InLoop) (h : Good c st.k) :
    Good c (Kcp.inBody regular data st).k := by
  have h1 := inSt1_good regular (rd16 data 6) (rd32 data 16) st h
  unfold Kcp.inBody
  simp only []
  generalize Kcp.inSt1 regular (rd16 data 6) (rd32 data 16) st = st1 at h1
  split
  · unfold Kcp.inAck
    exact parseFastack_good _ _ (shrinkBuf_good (parseAck_good _ h1))
  · split
    · unfold Kcp.inPush
      simp only []
      split
      · split
        · exact parseData_good _ h1
        · exact h1
      · exact h1
    · split
      · exact h1
      · exact h1

theorem inputLoop_good (c : U32) (regular : Bool) (fuel : Nat) (data : Bytes) (st : InLoop) (h : Good c st.k) :
    Good c (inputLoop regular fuel data st).k :=
  Kcp.inputLoop_preserves (Good c) regular (inBody_good c regular) fuel data st h

theorem updateAck_good {c : U32} {k : Kcp} (rtt : U32) (h : Good c k) : Good c (updateAck k rtt) :=
  h.sndSame (Frame.updateAck_same k rtt).2

theorem cwndOnAck_good {c : U32} {k : Kcp} (u : U32) (h : Good c k) : Good c (cwndOnAck k u) :=
  h.sndSame (Frame.cwndOnAck_same k u).2

/-! ### `flush`: admission stamps `conv`/`cmd`, transmission keeps them -/

theorem admitSegs_ok (conv una cwnd now : U32) : ∀ (q buf : List Seg) (nxt : U32) (n : Nat),
    (∀ s ∈ buf, SegOk conv s) → ∀ s ∈ (admitSegs conv una cwnd now q buf nxt n).buf, SegOk conv s := by
  intro q
  induction q with
  | nil => intro buf nxt n h; exact h
  | cons a rest ih =>
    intro buf nxt n h
    unfold admitSegs
    split
    · exact h
    · apply ih
      intro s hs
      rcases List.mem_append.mp hs with hs | hs
      · exact h s hs
      · rw [List.mem_singleton.mp hs]; exact ⟨rfl, rfl⟩

/-- the send buffer after phase 4 -/
theorem flAd_ok {c : U32} {k : Kcp} (now : U32) (h : Good c k) : ∀ s ∈ (Live.flAd k now).buf, SegOk c s := by
  obtain ⟨pw, tp, h3⟩ := Live.flF3_frame k now
  have hc : (Live.flF3 k now).k.conv = c := by rw [h3]; exact h.1
  have hb : (Live.flF3 k now).k.snd_buf = k.snd_buf := by rw [h3]
  unfold Live.flAd
  rw [hc, hb]
  exact admitSegs_ok c _ _ _ _ _ _ _ h.2

theorem flush_good {c : U32} {k : Kcp} (full : Bool) (now : U32) (h : Good c k) : Good c (flush k full now).k := by
  obtain ⟨pw, tp, st, ss, cw, inc, hk⟩ := Live.flush_frame k full now
  rw [hk]
  refine ⟨h.1, ?_⟩
  show ∀ s ∈ (Live.flX k full now).done, SegOk c s
  obtain ⟨pw4, tp4, hk4⟩ := Live.flF4_frame k now
  have hbuf : (Live.flF4 k now).k.snd_buf = (Live.flAd k now).buf := by rw [hk4]
  cases full
  · rw [Live.flX_ackonly]
    show ∀ s ∈ (Live.flF4 k now).k.snd_buf, SegOk c s
    rw [hbuf]; exact flAd_ok now h
  · have hd := (Live.flX_full k now).done
    rw [hd, hbuf]
    intro s hs
    rcases List.mem_append.mp hs with hs | hs
    · cases hs
    · obtain ⟨s0, hs0, rfl⟩ := List.mem_map.mp hs
      have hid := Live.segAfter_id now (Live.resentOf (Live.flF4 k now).k) (wndUnused k) k.rcv_nxt
        (Live.flAd k now).count (Live.flF4 k now).k.rx_rto (Live.flF4 k now).k.nodelay s0
      have h0 := flAd_ok now h s0 hs0
      exact ⟨hid.2.2.2.2.trans h0.1, hid.2.2.2.1.trans h0.2⟩

theorem input_good {c : U32} {k : Kcp} (data : Bytes) (regular ackNoDelay : Bool) (now : U32) (h : Good c k) :
    Good c (input k data regular ackNoDelay now).k :=
  Kcp.input_preserves (Good c) (fun regular fuel data st => inputLoop_good c regular fuel data st)
    (fun _ rtt hk => updateAck_good rtt hk) (fun _ u hk => cwndOnAck_good u hk)
    (fun _ full now hk => flush_good full now hk) k data regular ackNoDelay now h

/-! ### the frames of a flush -/

/-- a frame of conversation `c` with a KCP command byte -/
def FrOk (c : U32) (fr : Wire.Frm) : Prop :=
  fr.conv = c ∧ (fr.cmd.toNat = IKCP_CMD_PUSH ∨ fr.cmd.toNat = IKCP_CMD_ACK ∨ fr.cmd.toNat = IKCP_CMD_WASK ∨
    fr.cmd.toNat = IKCP_CMD_WINS)

theorem flushFrs_ok {c : U32} {k : Kcp} (full : Bool) (now : U32) (h : Good c k) :
    ∀ fr ∈ SysW.flushFrs k full now, FrOk c fr := by
  intro fr hfr
  unfold SysW.flushFrs at hfr
  rcases List.mem_append.mp hfr with hfr | hfr
  · rcases List.mem_append.mp hfr with hfr | hfr
    · obtain ⟨h1, h2, _⟩ := SysC.ackFrsOf_mem k fr hfr
      exact ⟨h1.trans h.1, Or.inr (Or.inl h2)⟩
    · obtain ⟨h1, h2, _⟩ := SysC.probeFrs_mem k now fr hfr
      refine ⟨h1.trans h.1, ?_⟩
      rcases h2 with h2 | h2
      · exact Or.inr (Or.inr (Or.inl h2))
      · exact Or.inr (Or.inr (Or.inr h2))
  · unfold SysW.pushFrs at hfr
    split at hfr
    · obtain ⟨s0, hs0, rfl⟩ := List.mem_map.mp hfr
      have hid := Live.segAfter_id now (Live.resentOf k) (wndUnused k) k.rcv_nxt (Live.flAd k now).count
        k.rx_rto k.nodelay s0
      have h0 := flAd_ok now h s0 (List.mem_filter.mp hs0).1
      refine ⟨hid.2.2.2.2.trans h0.1, Or.inl ?_⟩
      show (Live.segAfter now (Live.resentOf k) (wndUnused k) k.rcv_nxt (Live.flAd k now).count
        k.rx_rto k.nodelay s0).cmd.toNat = IKCP_CMD_PUSH
      rw [hid.2.2.2.1, h0.2]; decide
    · cases hfr

/-! ### what the listener's switch reads from a datagram of frames -/

theorem genuine_frames (c : U32) (g : List Wire.Frm) (h : ∀ fr ∈ g, FrOk c fr) : GenuineHdr c (Wire.encFrames g) := by
  cases g with
  | nil =>
    left
    show ([] : Bytes).length < SessIn.minPacket
    decide
  | cons fr rest =>
    right
    obtain ⟨hc, hcmd⟩ := h fr (List.mem_cons_self ..)
    rw [SysW.encFrames_cons]
    have hlen : IKCP_OVERHEAD ≤ (Wire.encFrame fr ++ Wire.encFrames rest).length := by
      rw [List.length_append, SysW.encFrame_length]; omega
    have e : Wire.encFrame fr ++ Wire.encFrames rest =
        encodeHdr fr.conv fr.cmd fr.frg fr.wnd fr.ts fr.sn fr.una fr.data.length ++ (fr.data ++ Wire.encFrames rest) := by
      unfold Wire.encFrame; rw [List.append_assoc]
    have hr := Wire.hdr_roundtrip fr.conv fr.cmd fr.frg fr.wnd fr.ts fr.sn fr.una fr.data.length
      (fr.data ++ Wire.encFrames rest)
    rw [← e] at hr
    generalize Wire.encFrame fr ++ Wire.encFrames rest = d at hr hlen ⊢
    have h0 : rd32 d 0 = fr.conv := congrArg Frame.Hdr.conv hr
    have h4 : BitVec.ofNat 8 (byteAt d 4) = fr.cmd := congrArg Frame.Hdr.cmd hr
    have hb4 : byteAt d 4 < 256 := UInt8.toNat_lt _
    have hb5 : byteAt d 5 < 256 := UInt8.toNat_lt _
    have h4n : byteAt d 4 = fr.cmd.toNat := by
      have := congrArg BitVec.toNat h4
      simp only [BitVec.toNat_ofNat] at this
      omega
    have hle : SessIn.le16 d 4 = byteAt d 4 + 256 * byteAt d 5 := rfl
    have hl0 : SessIn.le32 d 0 = rd32 d 0 := rfl
    unfold IKCP_CMD_PUSH IKCP_CMD_ACK IKCP_CMD_WASK IKCP_CMD_WINS at hcmd
    unfold SessIn.parseHdr
    rw [hle, if_neg (by unfold typeData; omega), if_neg (by unfold typeParity; omega),
      if_neg (by unfold typeOOB; omega), if_neg (by omega)]
    exact ⟨SessIn.le32 d IKCP_SN_OFFSET, by rw [hl0, h0, hc]⟩

/-- every datagram of a flush of a `Good` core reads as conversation `c` -/
theorem flush_wire_hdr {c : U32} {k : Kcp} (full : Bool) (now : U32) (h : Good c k)
    (hp : (flush k full now).panic = false) : ∀ d ∈ (flush k full now).outs, GenuineHdr c d := by
  obtain ⟨gs, ho, hf⟩ := SysW.flush_frames k full now hp
  rw [ho]
  intro d hd
  obtain ⟨g, hg, rfl⟩ := List.mem_map.mp hd
  apply genuine_frames
  intro fr hfr
  apply flushFrs_ok full now h
  rw [← hf]
  exact List.mem_flatten.mpr ⟨g, hg, hfr⟩

/-- `Input` ends in at most one flush of a `Good` core -/
theorem input_wire_hdr {c : U32} {k : Kcp} (data : Bytes) (regular ackNoDelay : Bool) (now : U32) (h : Good c k)
    (hp : (input k data regular ackNoDelay now).panic = false) :
    ∀ d ∈ (input k data regular ackNoDelay now).outs, GenuineHdr c d := by
  rw [Frame.input_eq] at hp ⊢
  by_cases hl : data.length < IKCP_OVERHEAD
  · rw [if_pos hl]
    intro d hd; cases hd
  · rw [if_neg hl] at hp ⊢
    have hst := inputLoop_good c regular (data.length / IKCP_OVERHEAD + 1) data { k := k } h
    generalize inputLoop regular (data.length / IKCP_OVERHEAD + 1) data { k := k } = st at hst hp ⊢
    rcases Frame.inputTail_cases k st regular ackNoDelay now with ⟨_, ho⟩ | ⟨_, ho⟩ | ⟨full, _, ho, hpq⟩
    · rw [ho]; intro d hd; cases hd
    · rw [ho]; intro d hd; cases hd
    · rw [ho]
      rw [hpq] at hp
      exact flush_wire_hdr full now (hst.sndSame (Frame.inputK2_same k st regular now).2) hp

/-! ### `WriteBuffers`: the chunking loop only queues -/

theorem sendChunks_good {c : U32} (fuel : Nat) : ∀ (k : Kcp) (b : Bytes), Good c k →
    Good c (Sess.sendChunks fuel k b).k := by
  induction fuel with
  | zero => intro k b h; exact h
  | succ fuel ih =>
    intro k b h
    unfold Sess.sendChunks
    split
    · exact send_good _ h
    · simp only []
      split
      · exact send_good _ h
      · exact ih _ _ (send_good _ h)

theorem sendAll_good {c : U32} : ∀ (v : List Bytes) (k : Kcp), Good c k → Good c (Sess.sendAll v k).k := by
  intro v
  induction v with
  | nil => intro k h; exact h
  | cons b rest ih =>
    intro k h
    unfold Sess.sendAll
    simp only []
    split
    · exact sendChunks_good _ _ _ h
    · exact ih _ (sendChunks_good _ _ _ h)

/-! ### the session -/

/-- the core is `Good` and everything on the wire so far reads as conversation `c` -/
structure WInv (c : U32) (x : SessG) : Prop where
  good : Good c x.s.k
  wire : ∀ d ∈ x.wire, GenuineHdr c d

theorem wire_append {c : U32} {w outs : List Bytes} (h1 : ∀ d ∈ w, GenuineHdr c d) (h2 : ∀ d ∈ outs, GenuineHdr c d) :
    ∀ d ∈ w ++ outs, GenuineHdr c d := by
  intro d hd
  rcases List.mem_append.mp hd with hd | hd
  · exact h1 d hd
  · exact h2 d hd

theorem sessStep_inv {c : U32} {x : SessG} (h : WInv c x) (op : SessOp) : WInv c (sessStep x op) := by
  unfold sessStep
  by_cases hd : x.dead = true
  · rw [if_pos hd]; exact h
  · rw [if_neg hd]
    cases op with
    | write v now =>
      simp only []
      split
      · exact ⟨h.good, h.wire⟩
      · rename_i hp
        split
        · exact h
        · rename_i hb
          have hadm : x.s.k.waitSnd < x.s.k.snd_wnd.toNat := by
            apply Classical.byContradiction
            intro hc
            rw [wb_blocked x.s v now hc] at hb
            exact hb rfl
          have hp1 : (Sess.sendAll v x.s.k).panic = false := by
            cases hpp : (Sess.sendAll v x.s.k).panic with
            | false => rfl
            | true => rw [wb_panic x.s v now hadm hpp] at hp; exact absurd rfl hp
          have hg := sendAll_good (c := c) v x.s.k h.good
          by_cases hc : wbFlush x.s v
          · rw [wb_flush x.s v now hadm hp1 hc] at hp ⊢
            simp only [] at hp ⊢
            have hpf : ((Sess.sendAll v x.s.k).k.flush true now).panic = false := by
              cases hq : ((Sess.sendAll v x.s.k).k.flush true now).panic with
              | false => rfl
              | true => exact absurd hq hp
            exact ⟨flush_good true now hg, wire_append h.wire (flush_wire_hdr true now hg hpf)⟩
          · rw [wb_noflush x.s v now hadm hp1 hc]
            simp only []
            exact ⟨hg, wire_append h.wire (fun d hd => by cases hd)⟩
    | read blen =>
      simp only []
      rcases read_k x.s blen with hk | ⟨n, hk⟩
      · exact ⟨by show Good c (x.s.read blen).s.k; rw [hk]; exact h.good, h.wire⟩
      · exact ⟨by show Good c (x.s.read blen).s.k; rw [hk]; exact recv_good n h.good, h.wire⟩
    | update now =>
      simp only []
      split
      · exact ⟨h.good, h.wire⟩
      · rename_i hp
        have hpf : (x.s.k.flush true now).panic = false := by
          cases hq : (x.s.k.flush true now).panic with
          | false => rfl
          | true => exact absurd hq hp
        exact ⟨flush_good true now h.good, wire_append h.wire (flush_wire_hdr true now h.good hpf)⟩
    | input d now =>
      simp only []
      split
      · exact ⟨h.good, h.wire⟩
      · rename_i hp
        rcases packetInput_cases x.s d now with hc | hc
        · rw [hc]
          exact ⟨h.good, wire_append h.wire (fun d hd => by cases hd)⟩
        · rw [hc] at hp ⊢
          simp only [] at hp ⊢
          have hpf : (input x.s.k d true x.s.ackNoDelay now).panic = false := by
            cases hq : (input x.s.k d true x.s.ackNoDelay now).panic with
            | false => rfl
            | true => exact absurd hq hp
          exact ⟨input_good d true x.s.ackNoDelay now h.good,
            wire_append h.wire (input_wire_hdr d true x.s.ackNoDelay now h.good hpf)⟩
    | setWriteDelay b => exact ⟨h.good, h.wire⟩
    | setAckNoDelay b => exact ⟨h.good, h.wire⟩
    | noDelay a b c' d => exact ⟨noDelay_good a b c' d h.good, h.wire⟩
    | wndSize a b => exact ⟨wndSize_good a b h.good, h.wire⟩
    | setMtu mtu => exact ⟨setMtu_good mtu h.good, h.wire⟩

theorem sessRun_inv {c : U32} (ops : List SessOp) : ∀ x : SessG, WInv c x → WInv c (sessRun x ops) := by
  induction ops with
  | nil => intro x h; exact h
  | cons op rest ih => intro x h; exact ih _ (sessStep_inv h op)

theorem fresh_inv (c : U32) : WInv c { s := Sess.new c } :=
  ⟨sessNew_good c, fun d hd => by cases hd⟩

/-- **C11, wire side**: every datagram a session of conversation `c` ever emits is read by the
listener's header switch as conversation `c` (or is below the minimum packet size) -/
theorem sessRun_wire_hdr (c : U32) (ops : List SessOp) :
    ∀ d ∈ (sessRun { s := Sess.new c } ops).wire, GenuineHdr c d :=
  (sessRun_inv ops _ (fresh_inv c)).wire

/-! ### non-vacuity

The first flush of a fresh session admits nothing (`cwnd = 0` until the end of that flush), so the
write is followed by one scheduled `update`: the session of conversation 7 then emits exactly one
datagram, 27 bytes long (≥ `minPacket`, so the switch does look at it), which the listener's switch
reads as conversation 7, `sn = 0`. -/

set_option maxRecDepth 1000000 in
example : (sessRun { s := Sess.new 7 } [.write [[1, 2, 3]] 0, .update 0]).wire.map SessIn.parseHdr
    = [some ⟨true, 7, 0⟩] := by decide

set_option maxRecDepth 1000000 in
example : (sessRun { s := Sess.new 7 } [.write [[1, 2, 3]] 0, .update 0]).wire.map
    (fun d => decide (d.length < SessIn.minPacket)) = [false] := by decide

/-- the right disjunct of `GenuineHdr` is the one that holds for that datagram -/
example : ∀ d ∈ (sessRun { s := Sess.new 7 } [.write [[1, 2, 3]] 0, .update 0]).wire,
    ¬ d.length < SessIn.minPacket ∧ ∃ sn, SessIn.parseHdr d = some ⟨true, 7, sn⟩ := by
  have e : (sessRun { s := Sess.new 7 } [.write [[1, 2, 3]] 0, .update 0]).wire =
      [[7, 0, 0, 0, 81, 0, 32, 0, 0, 0, 0, 0, 0, 0, 0, 0, 0, 0, 0, 0, 3, 0, 0, 0, 1, 2, 3]] := by decide
  rw [e]
  intro d hd
  rw [List.mem_singleton.mp hd]
  exact ⟨by decide, 0, by decide⟩

end KcpVerif.C11Iso
