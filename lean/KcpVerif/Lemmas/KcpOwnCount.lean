/-
C15 (ownership, protocol core): how every instrumented list function of `Model/KcpOwn` changes the
holding count, in frame style — `F id` counts the positions the function does not look at.
Core Lean only.
-/
import KcpVerif.Lemmas.KcpOwnPool

namespace KcpVerif.Own
open KcpVerif KcpVerif.Kcp KcpVerif.Pool

/-- number of positions of `l` that hold buffer `id` -/
def cnt (id : Nat) : List SegO → Nat
  | [] => 0
  | x :: l => oc x.buf id + cnt id l

theorem cnt_append (id : Nat) (a b : List SegO) : cnt id (a ++ b) = cnt id a + cnt id b := by
  induction a with
  | nil => simp [cnt]
  | cons x a ih => simp only [List.cons_append, cnt, ih]; omega

theorem cnt_take_drop (id : Nat) (l : List SegO) (n : Nat) : cnt id (l.take n) + cnt id (l.drop n) = cnt id l := by
  rw [← cnt_append, List.take_append_drop]

theorem cnt_reattach (id : Nat) (new : List Seg) (old : List SegO) (h : new.length = old.length) :
    cnt id (reattach new old) = cnt id old := by
  induction new generalizing old with
  | nil => cases old with
    | nil => rfl
    | cons x old => simp at h
  | cons s new ih => cases old with
    | nil => simp at h
    | cons x old =>
      simp only [List.length_cons, Nat.add_right_cancel_iff] at h
      show oc x.buf id + cnt id (reattach new old) = oc x.buf id + cnt id old
      rw [ih old h]

theorem cnt_mem_split {x : SegO} {l : List SegO} (h : x ∈ l) :
    ∃ a b, ∀ id, cnt id l = oc x.buf id + (cnt id a + cnt id b) := by
  obtain ⟨a, b, rfl⟩ := List.append_of_mem h
  exact ⟨a, b, fun id => by rw [cnt_append]; simp only [cnt]; omega⟩

/-- using the data of a segment that is in a queue -/
theorem W.use_mem {g : Ghost} {F : Nat → Nat} {l : List SegO} {x : SegO} (hx : x ∈ l)
    (h : W g (fun id => cnt id l + F id)) : W (g.use x.buf) (fun id => cnt id l + F id) := by
  obtain ⟨a, b, hs⟩ := cnt_mem_split hx
  have h1 : W g (fun id => oc x.buf id + (cnt id a + cnt id b + F id)) :=
    h.congr (fun id => by rw [hs id]; omega)
  exact h1.use.congr (fun id => by rw [hs id]; omega)

/-! ### Recv -/

theorem popMsgO_W (l : List SegO) (g : Ghost) (F : Nat → Nat) (h : W g (fun id => cnt id l + F id)) :
    W (popMsgO l g).g (fun id => cnt id (popMsgO l g).rest + F id) := by
  induction l generalizing g with
  | nil => exact h
  | cons x rest ih =>
    have h1 : W g (fun id => oc x.buf id + (cnt id rest + F id)) :=
      h.congr (fun id => by simp only [cnt]; omega)
    have h2 : W ((g.use x.buf).recycle x.buf) (fun id => cnt id rest + F id) := h1.use.recycle
    unfold popMsgO
    split
    · exact h2
    · exact ih _ h2

theorem moveLoopO_cnt (id : Nat) (wnd : Nat) (buf q : List SegO) (nxt : U32) :
    cnt id (moveLoopO wnd buf q nxt).buf + cnt id (moveLoopO wnd buf q nxt).q = cnt id buf + cnt id q := by
  induction buf generalizing q nxt with
  | nil => rfl
  | cons x rest ih =>
    unfold moveLoopO
    split
    · rw [ih, cnt_append]; simp only [cnt]; omega
    · rfl

/-! ### Send -/

theorem mkSegsO_W (mss : Nat) (stream : Bool) (n : Nat) (buf : Bytes) (g : Ghost) (F : Nat → Nat) (h : W g F) :
    W (mkSegsO mss stream n buf g).g (fun id => cnt id (mkSegsO mss stream n buf g).l + F id) := by
  induction n generalizing buf g F with
  | zero => exact h.congr (fun id => by simp [mkSegsO, cnt])
  | succ c ih =>
    have h1 := ih (buf.drop mss) g.get _ h.get
    unfold mkSegsO
    exact h1.congr (fun id => by simp only [cnt]; omega)

theorem mkSegsO_next (mss : Nat) (stream : Bool) (n : Nat) (buf : Bytes) (g : Ghost) :
    (mkSegsO mss stream n buf g).g.next = g.next + n := by
  induction n generalizing buf g with
  | zero => rfl
  | succ c ih =>
    unfold mkSegsO
    show (mkSegsO mss stream c (buf.drop mss) g.get).g.next = _
    rw [ih]; show g.next + 1 + c = _; omega

theorem cnt_appendLastO (id : Nat) (q : List SegO) (extra : Bytes) : cnt id (appendLastO q extra) = cnt id q := by
  unfold appendLastO
  split
  · rename_i x hx
    have hq : q.dropLast ++ [x] = q := by
      obtain ⟨ys, rfl⟩ := List.getLast?_eq_some_iff.1 hx
      simp
    conv => rhs; rw [← hq]
    rw [cnt_append, cnt_append]; rfl
  · rfl

theorem W.use_last {g : Ghost} {F : Nat → Nat} {q : List SegO}
    (h : W g (fun id => cnt id q + F id)) : W (g.use (lastBuf q)) (fun id => cnt id q + F id) := by
  unfold lastBuf
  split
  · rename_i x hx
    exact h.use_mem (List.mem_of_getLast? hx)
  · exact h

/-! ### Input -/

theorem unaO_W (una : U32) (l : List SegO) (g : Ghost) (F : Nat → Nat) (h : W g (fun id => cnt id l + F id)) :
    W (unaO una l g).g (fun id => cnt id (unaO una l g).l + F id) := by
  induction l generalizing g with
  | nil => exact h
  | cons x rest ih =>
    unfold unaO
    split
    · have h1 : W g (fun id => oc x.buf id + (cnt id rest + F id)) :=
        h.congr (fun id => by simp only [cnt]; omega)
      exact ih _ h1.recycle
    · exact h

theorem dropAckedO_W (l : List SegO) (g : Ghost) (F : Nat → Nat) (h : W g (fun id => cnt id l + F id)) :
    W (dropAckedO l g).g (fun id => cnt id (dropAckedO l g).l + F id) := by
  induction l generalizing g with
  | nil => exact h
  | cons x rest ih =>
    unfold dropAckedO
    split
    · have h1 : W g (fun id => oc x.buf id + (cnt id rest + F id)) :=
        h.congr (fun id => by simp only [cnt]; omega)
      exact ih _ h1.drop
    · exact h

theorem ackLoopO_W (sn : U32) (l : List SegO) (g : Ghost) (F : Nat → Nat) (h : W g (fun id => cnt id l + F id)) :
    W (ackLoopO sn l g).g (fun id => cnt id (ackLoopO sn l g).l + F id) := by
  induction l generalizing g F with
  | nil => exact h
  | cons x rest ih =>
    unfold ackLoopO
    split
    · have h1 : W g (fun id => oc x.buf id + (cnt id rest + F id)) :=
        h.congr (fun id => by simp only [cnt]; omega)
      exact h1.recycle.congr (fun id => by simp only [cnt, oc_none]; omega)
    · split
      · exact h
      · have h1 : W g (fun id => cnt id rest + (oc x.buf id + F id)) :=
          h.congr (fun id => by simp only [cnt]; omega)
        exact (ih g _ h1).congr (fun id => by simp only [cnt]; omega)

theorem cnt_heapInsertO (id : Nat) (x : SegO) (l : List SegO) : cnt id (heapInsertO x l) = oc x.buf id + cnt id l := by
  induction l with
  | nil => rfl
  | cons h t ih =>
    unfold heapInsertO
    split
    · rfl
    · simp only [cnt, ih]; omega

theorem parseDataO_W (k : Kcp) (s : Seg) (rb rq : List SegO) (g : Ghost) (F : Nat → Nat)
    (h : W g (fun id => cnt id rb + cnt id rq + F id)) :
    W (parseDataO k s rb rq g).g
      (fun id => cnt id (parseDataO k s rb rq g).rb + cnt id (parseDataO k s rb rq g).rq + F id) := by
  unfold parseDataO
  split
  · exact h
  · split
    · exact h.congr (fun id => by simp only [moveLoopO_cnt])
    · split
      · exact h.getLost
      · exact h.get.congr (fun id => by simp only [moveLoopO_cnt, cnt_heapInsertO]; omega)

/-! ### flush -/

theorem useSent_W (k : Kcp) (now : U32) (c : Nat) (l : List SegO) (g : Ghost) (F : Nat → Nat)
    (h : W g (fun id => cnt id l + F id)) : W (useSent k now c l g) (fun id => cnt id l + F id) := by
  induction l generalizing g F with
  | nil => exact h
  | cons x rest ih =>
    unfold useSent
    have h1 : W g (fun id => oc x.buf id + (cnt id rest + F id)) :=
      h.congr (fun id => by simp only [cnt]; omega)
    have h2 : W (if x.s.acked = false ∧ (xmitDec k now (resentOf k) c x.s).1 = true then g.use x.buf else g)
        (fun id => cnt id rest + (oc x.buf id + F id)) := by
      split
      · exact h1.use.congr (fun id => by omega)
      · exact h1.congr (fun id => by omega)
    exact (ih _ _ h2).congr (fun id => by simp only [cnt]; omega)

theorem reattach_length (new : List Seg) (old : List SegO) (h : new.length = old.length) :
    (reattach new old).length = old.length := by
  unfold reattach
  rw [List.length_zipWith, h, Nat.min_self]

end KcpVerif.Own
