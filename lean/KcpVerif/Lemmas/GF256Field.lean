/-
GF(2^8) of `Model/GF256` (bytes, `+ = xor`, `*` = shift-and-reduce product modulo 0x11D, `⁻¹ = a^254`)
is a FIELD: the Mathlib instance `Field GF` on the type synonym `GF := UInt8`.

No pair or triple of bytes is enumerated.  The only finite checks are the seven 256-entry tables of
`Lemmas/GF256Tables` (`decide +kernel` over `List.range 256`); everything else is algebra:

* `xtime` (multiplication by x: shift, conditionally xor 0x1D) is xor-linear — from the table
  "`a &&& 0x80` is 0 or 0x80" and the distributivity of `&&&`, `<<<` over `^^^`;
* `mulAux`/`mul` is xor-linear in each argument — induction over the 8 steps of the loop
  (`mulAux_xor_left`, `mulAux_xor_right`; table "`b &&& 1` is 0 or 1");
* `(2a)·b = 2(a·b)` — same induction (`xtime_mulAux`);
* `byte_induction`: every byte is generated from 0 and 1 by `xtime` and `^^^` (tables
  `horner : a = xtime (a >>> 1) ^^^ (a &&& 1)` and `shr_lt`), so a property closed under these holds
  for all bytes;
* `a·(2b) = 2(a·b)`, commutativity and associativity by `byte_induction` on one argument, using
  linearity in that argument (tables `mul 1 a = a`, `mul a 1 = a` for the base case);
* inverses: table `a ≠ 0 → a · a^254 = 1`.

Also: `GF.pow_def` (`galExp` is the field's power), `GF.node_injective` (the Vandermonde nodes
`0 … n−1` are distinct for `n ≤ 256`).
-/
import KcpVerif.Lemmas.GF256Tables
import Mathlib.Algebra.Field.Defs

namespace KcpVerif.Lemmas.GF256
open KcpVerif.GF256

/-! ## xor bookkeeping -/

theorem and_xor (a b c : UInt8) : (a ^^^ b) &&& c = (a &&& c) ^^^ (b &&& c) := by
  apply UInt8.toBitVec_inj.1
  ext i
  simp [Bool.and_xor_distrib_right]

theorem xor_left_comm (a b c : UInt8) : a ^^^ (b ^^^ c) = b ^^^ (a ^^^ c) := by
  rw [← UInt8.xor_assoc, UInt8.xor_comm a b, UInt8.xor_assoc]

theorem xor_cancel_left (a b : UInt8) : a ^^^ (a ^^^ b) = b := by
  rw [← UInt8.xor_assoc, UInt8.xor_self, UInt8.zero_xor]

/-- normalise a xor expression (AC + cancellation) -/
macro "xor_norm" : tactic =>
  `(tactic| simp only [UInt8.xor_assoc, UInt8.xor_comm, xor_left_comm, xor_cancel_left,
      UInt8.xor_self, UInt8.xor_zero, UInt8.zero_xor])

/-! ## `xtime` is xor-linear -/

theorem xtime_zero : xtime 0 = 0 := by decide

theorem xtime_xor (a b : UInt8) : xtime (a ^^^ b) = xtime a ^^^ xtime b := by
  unfold xtime
  rw [and_xor, UInt8.shiftLeft_xor]
  rcases hi_cases a with ha | ha <;> rcases hi_cases b with hb | hb <;>
    simp only [ha, hb] <;> simp (decide := true) only [↓reduceIte] <;> xor_norm

/-! ## the shift-and-reduce product is xor-linear in each argument -/

theorem mulAux_xor_left (k : Nat) (a a' b acc acc' : UInt8) :
    mulAux k (a ^^^ a') b (acc ^^^ acc') = mulAux k a b acc ^^^ mulAux k a' b acc' := by
  induction k generalizing a a' b acc acc' with
  | zero => rfl
  | succ k ih =>
    simp only [mulAux]
    rw [xtime_xor]
    by_cases hb : (b &&& 1 != 0) = true
    · simp only [hb, ↓reduceIte]
      rw [← ih]; congr 1; xor_norm
    · simp only [hb]
      rw [← ih]; rfl

theorem mulAux_xor_right (k : Nat) (a b b' acc acc' : UInt8) :
    mulAux k a (b ^^^ b') (acc ^^^ acc') = mulAux k a b acc ^^^ mulAux k a b' acc' := by
  induction k generalizing a b b' acc acc' with
  | zero => rfl
  | succ k ih =>
    simp only [mulAux]
    rw [UInt8.shiftRight_xor, and_xor]
    rcases lo_cases b with hb | hb <;> rcases lo_cases b' with hb' | hb' <;>
      simp only [hb, hb'] <;> simp (decide := true) only [↓reduceIte] <;> rw [← ih] <;>
      congr 1 <;> xor_norm

theorem xtime_mulAux (k : Nat) (a b acc : UInt8) :
    xtime (mulAux k a b acc) = mulAux k (xtime a) b (xtime acc) := by
  induction k generalizing a b acc with
  | zero => rfl
  | succ k ih =>
    simp only [mulAux]
    rw [ih]
    by_cases hb : (b &&& 1 != 0) = true
    · simp only [hb, ↓reduceIte, xtime_xor]
    · simp only [hb]; rfl

theorem mulAux_zero_right (k : Nat) (a acc : UInt8) : mulAux k a 0 acc = acc := by
  induction k generalizing a acc with
  | zero => rfl
  | succ k ih => simp only [mulAux]; exact ih _ _

theorem mulAux_zero_left (k : Nat) (b acc : UInt8) : mulAux k 0 b acc = acc := by
  induction k generalizing b acc with
  | zero => rfl
  | succ k ih =>
    simp only [mulAux, xtime_zero, UInt8.xor_zero, ite_self]; exact ih _ _

theorem mul_zero (a : UInt8) : mul a 0 = 0 := mulAux_zero_right 8 a 0
theorem zero_mul (b : UInt8) : mul 0 b = 0 := mulAux_zero_left 8 b 0

theorem mul_xor_left (a a' b : UInt8) : mul (a ^^^ a') b = mul a b ^^^ mul a' b := by
  have := mulAux_xor_left 8 a a' b 0 0
  rwa [UInt8.xor_zero] at this

theorem mul_xor_right (a b b' : UInt8) : mul a (b ^^^ b') = mul a b ^^^ mul a b' := by
  have := mulAux_xor_right 8 a b b' 0 0
  rwa [UInt8.xor_zero] at this

/-- doubling commutes with the product, left argument: `(2a)·b = 2(a·b)` -/
theorem mul_xtime_left (a b : UInt8) : mul (xtime a) b = xtime (mul a b) := by
  have := xtime_mulAux 8 a b 0
  rw [xtime_zero] at this
  exact this.symm

/-! ## induction over the bits of a byte -/

/-- every byte is generated from `0` and `1` by doubling (`xtime`) and adding (`^^^`) -/
theorem byte_induction {P : UInt8 → Prop} (h0 : P 0) (h1 : P 1) (hx : ∀ a, P a → P (xtime a))
    (hadd : ∀ a b, P a → P b → P (a ^^^ b)) (a : UInt8) : P a := by
  have key : ∀ n (a : UInt8), a.toNat = n → P a := by
    intro n
    induction n using Nat.strong_induction_on with
    | _ n ih =>
      intro a han
      rcases shr_lt a with rfl | hlt
      · exact h0
      · rw [horner a]
        apply hadd
        · exact hx _ (ih _ (han ▸ hlt) _ rfl)
        · rcases lo_cases a with h | h <;> rw [h]
          · exact h0
          · exact h1
  exact key _ a rfl

/-! ## commutativity, associativity -/

/-- doubling commutes with the product, right argument: `a·(2b) = 2(a·b)` -/
theorem mul_xtime_right (a b : UInt8) : mul a (xtime b) = xtime (mul a b) := by
  revert b
  refine byte_induction (P := fun a => ∀ b, mul a (xtime b) = xtime (mul a b)) ?_ ?_ ?_ ?_ a
  · intro b; rw [zero_mul, zero_mul, xtime_zero]
  · intro b; rw [one_mul_tab, one_mul_tab]
  · intro a ih b; rw [mul_xtime_left, ih, mul_xtime_left]
  · intro a a' ih ih' b; rw [mul_xor_left, mul_xor_left, ih, ih', xtime_xor]

theorem mul_comm (a b : UInt8) : mul a b = mul b a := by
  revert a
  refine byte_induction (P := fun b => ∀ a, mul a b = mul b a) ?_ ?_ ?_ ?_ b
  · intro a; rw [mul_zero, zero_mul]
  · intro a; rw [mul_one_tab, one_mul_tab]
  · intro b ih a; rw [mul_xtime_right, mul_xtime_left, ih]
  · intro b b' ih ih' a; rw [mul_xor_right, mul_xor_left, ih, ih']

theorem mul_assoc (a b c : UInt8) : mul (mul a b) c = mul a (mul b c) := by
  revert a b
  refine byte_induction (P := fun c => ∀ a b, mul (mul a b) c = mul a (mul b c)) ?_ ?_ ?_ ?_ c
  · intro a b; rw [mul_zero, mul_zero, mul_zero]
  · intro a b; rw [mul_one_tab, mul_one_tab]
  · intro c ih a b; rw [mul_xtime_right, ih, mul_xtime_right, mul_xtime_right]
  · intro c c' ih ih' a b; rw [mul_xor_right, mul_xor_right, mul_xor_right, ih, ih']

/-! ## the field -/

/-- GF(2^8): the bytes with `+ = xor` and `* = Model.GF256.mul` (reducing polynomial 0x11D).
    A type synonym of `UInt8` (not reducible, so the machine arithmetic of `UInt8` does not leak):
    `List GF` and `List UInt8` are the same type up to unfolding, which keeps the bridge to the
    list-based model `Model/RS` free of conversions. -/
def GF : Type := UInt8

namespace GF

/-- the byte as a field element / the field element as a byte (both are the identity) -/
@[reducible] def of (a : UInt8) : GF := a
@[reducible] def val (a : GF) : UInt8 := a

instance : DecidableEq GF := inferInstanceAs (DecidableEq UInt8)
instance : Inhabited GF := ⟨of 0⟩

instance : Zero GF := ⟨of 0⟩
instance : One GF := ⟨of 1⟩
instance : Add GF := ⟨fun a b => of (add (val a) (val b))⟩
instance : Neg GF := ⟨fun a => a⟩
instance : Mul GF := ⟨fun a b => of (mul (val a) (val b))⟩
instance : Inv GF := ⟨fun a => of (inv (val a))⟩

instance instAddCommGroup : AddCommGroup GF where
  add_assoc := UInt8.xor_assoc
  zero_add _ := UInt8.zero_xor
  add_zero _ := UInt8.xor_zero
  add_comm := UInt8.xor_comm
  neg_add_cancel _ := UInt8.xor_self
  nsmul := nsmulRec
  zsmul := zsmulRec

instance instCommRing : CommRing GF where
  mul_assoc := GF256.mul_assoc
  one_mul := one_mul_tab
  mul_one := mul_one_tab
  left_distrib := mul_xor_right
  right_distrib := mul_xor_left
  mul_comm := GF256.mul_comm
  zero_mul := GF256.zero_mul
  mul_zero := GF256.mul_zero

theorem inv_def (a : GF) : a⁻¹ = of (inv (val a)) := rfl
theorem inv_zero_aux : (of 0)⁻¹ = of 0 := by rw [inv_def]; exact inv_zero_tab

instance instField : Field GF where
  exists_pair_ne := ⟨of 0, of 1, by decide⟩
  mul_inv_cancel := fun a h => show mul a (inv a) = (1 : UInt8) from mul_inv_tab a h
  inv_zero := inv_zero_aux
  nnqsmul := _
  qsmul := _

theorem add_def (a b : GF) : a + b = of (val a ^^^ val b) := rfl
theorem mul_def (a b : GF) : a * b = of (mul (val a) (val b)) := rfl
theorem zero_def : (0 : GF) = of 0 := rfl
theorem one_def : (1 : GF) = of 1 := rfl
theorem neg_def (a : GF) : -a = a := rfl

/-- characteristic 2 -/
theorem add_self (a : GF) : a + a = 0 := UInt8.xor_self
theorem sub_def (a b : GF) : a - b = a + b := by rw [sub_eq_add_neg, neg_def]

/-- `galExp` is the power of the field -/
theorem pow_def (a : GF) (n : Nat) : a ^ n = of (pow (val a) n) := by
  induction n with
  | zero => rfl
  | succ n ih => rw [pow_succ, ih, _root_.mul_comm]; rfl

/-- the Vandermonde nodes `0, 1, …, n − 1` (as bytes) are distinct for `n ≤ 256` -/
theorem node_injective {n : Nat} (hn : n ≤ 256) :
    Function.Injective (fun i : Fin n => of (UInt8.ofNat i.val)) := by
  intro i j h
  exact Fin.ext (ofNat_inj_tab (by omega) (by omega) h)

end GF

end KcpVerif.Lemmas.GF256
