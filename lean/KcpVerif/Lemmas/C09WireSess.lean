/-
C09 `wire_reassembles`, part 5: without cipher and FEC a session's wire is its core's wire.
Every run of a ghost session (`C01.SessG`, `C01.sessStep` over `Model/Sess.lean`: `WriteBuffers`,
`Read`, `update`, `packetInput`, the setters) is matched by a run of core operations on its core with
the same log and the same list of emitted datagrams (`C01.sessStep_ref`); the writer `A` of the
two-session system of `C01_session_plain` is such a session.  Core Lean only.
-/
import KcpVerif.Lemmas.C09WireRun
import KcpVerif.Lemmas.C01SessRef
import KcpVerif.Lemmas.C01SessFrg

namespace KcpVerif.C09W
open KcpVerif KcpVerif.Gen KcpVerif.Kcp KcpVerif.Frame KcpVerif.Recv KcpVerif.Send KcpVerif.C01

/-- every run of a session is a run of its core: same core state, same log, same wire -/
theorem sessRun_ref (ops : List SessOp) : ∀ (x : SessG) (g : GSt), RefK x g →
    ∃ cops : List Op, RefK (sessRun x ops) (run g cops) := by
  induction ops with
  | nil => intro x g h; exact ⟨[], h⟩
  | cons op rest ih =>
    intro x g h
    obtain ⟨c1, _, h1, _⟩ := sessStep_ref h op
    obtain ⟨c2, h2⟩ := ih (sessStep x op) (run g c1) h1
    exact ⟨c1 ++ c2, by rw [run_append]; exact h2⟩

/-- the session operations of the writer in a run of the two-session system -/
def aOps : List SSOp → List SessOp
  | [] => []
  | .a op :: rest => op :: aOps rest
  | .b _ :: rest => aOps rest
  | .dlv _ _ :: rest => aOps rest

/-- nothing but its own operations touches the writer `A` -/
theorem ssrun_A (ops : List SSOp) : ∀ s : SessSys, (ssrun s ops).A = sessRun s.A (aOps ops) := by
  induction ops with
  | nil => intro s; rfl
  | cons op rest ih =>
    intro s
    show (ssrun (ssstep s op) rest).A = _
    rw [ih]
    cases op with
    | a op => rfl
    | b op =>
      show sessRun (ssstep s (.b op)).A (aOps rest) = sessRun s.A (aOps rest)
      by_cases hi : isSessInput op = true
      · have e : ssstep s (.b op) = s := by simp [ssstep, hi]
        rw [e]
      · have e : ssstep s (.b op) = { s with B := sessStep s.B op } := by simp [ssstep, hi]
        rw [e]
    | dlv i now =>
      show sessRun (ssstep s (.dlv i now)).A (aOps rest) = sessRun s.A (aOps rest)
      cases hd : s.A.wire[i]? with
      | none =>
        have e : ssstep s (.dlv i now) = s := by simp [ssstep, hd]
        rw [e]
      | some d =>
        have e : ssstep s (.dlv i now) = { s with B := sessStep s.B (.input d now) } := by simp [ssstep, hd]
        rw [e]

end KcpVerif.C09W
