/-
The progress step of C02 for EVERY head segment (repaired model, arbitrary consistent states): `P1G`
generalises `P1H` — the head has never been sent (`xmit = 0`: admitted by an ACK-only flush; the next
FULL flush transmits it whatever the time) or has been sent and its timer is at `R`.  Generated from the
proofs of Lemmas/SysDrainHead3.lean; the chain after phase A is the same.
-/
import KcpVerif.Lemmas.SysDrainOrder

namespace KcpVerif.SysC
open KcpVerif KcpVerif.Gen KcpVerif.Kcp KcpVerif.Live KcpVerif.Wire KcpVerif.SysW KcpVerif.Sys

structure P1G (p : Par) (U R T1 IA : Nat) (s : State) : Prop where
  hd : ∃ x rest, s.A.snd_buf = x :: rest ∧ o p.base x.sn = U ∧ (x.xmit = 0 ∨ (x.xmit ≠ 0 ∧ x.resendts = clk R))
  iv : s.A.interval.toNat = IA
  nf : s.nfA ≤ T1
  nw : s.now ≤ T1
  rb : U ≤ o p.base s.B.rcv_nxt

/-- a FULL flush of A in phase P1: nothing happens to the head (its timer is not due: the flush is
before `R`), or its PUSH is on its way -/
theorem p1G_flush {p : Par} {s : State} {gab gba : GLink} (h : Cons p s gab gba) (hl : LiveInv s.A) (hnw : NoWrap p.base s)
    (U R T1 IA T2 : Nat) (hT : R + IA ≤ T1 ∧ T1 < R + 2 ^ 31) (hT2 : T1 + s.D ≤ T2) (h1 : P1G p U R T1 IA s) (nf : Nat)
    (hnf : nf = s.nfA ∨ nf = s.now + (s.A.flush true (clk s.now)).interval.toNat) :
    P1G p U R T1 IA (afterFlushA s nf) ∨ PushHead p.base U T2 (afterFlushA s nf) := by
  obtain ⟨x, rest, hb, hxU, hdj⟩ := h1.hd
  have hhl : x.acked = false ∧ s.A.snd_una = x.sn := by
    have := hl.1
    unfold HeadLive at this
    rw [hb] at this
    exact this
  have hxm' : x ∈ s.A.snd_buf := by rw [hb]; exact List.mem_cons_self ..
  obtain ⟨pw, tp, st, ss, cw, inc, hk⟩ := flush_frame s.A true (clk s.now)
  by_cases hc : cause (clk s.now) (resentOf s.A) (flAd s.A (clk s.now)).count x = .none
  · -- not due: the head is untouched
    left
    obtain ⟨t, ht⟩ := flAd_prefix s.A (clk s.now)
    obtain ⟨pw4, tp4, hk4⟩ := flF4_frame s.A (clk s.now)
    have hdone := (flX_full s.A (clk s.now)).done
    have hres : resentOf (flF4 s.A (clk s.now)).k = resentOf s.A := by rw [hk4]; rfl
    have hrto : (flF4 s.A (clk s.now)).k.rx_rto = s.A.rx_rto := by rw [hk4]
    have hnd : (flF4 s.A (clk s.now)).k.nodelay = s.A.nodelay := by rw [hk4]
    have hbuf : (flF4 s.A (clk s.now)).k.snd_buf = (flAd s.A (clk s.now)).buf := by rw [hk4]
    simp only [hres, hrto, hnd, hbuf, List.nil_append] at hdone
    have f1 : (s.A.flush true (clk s.now)).k.snd_buf = x :: (rest ++ t).map
        (segAfter (clk s.now) (resentOf s.A) (wndUnused s.A) s.A.rcv_nxt (flAd s.A (clk s.now)).count s.A.rx_rto s.A.nodelay) := by
      rw [hk]
      show (flX s.A true (clk s.now)).done = _
      rw [hdone, ht, hb]
      simp only [List.cons_append, List.map_cons]
      rw [segAfter_none _ _ _ _ _ _ _ x (Or.inr hc)]
    have hlt : s.now < R := by
      have hxr : x.resendts = clk R := by
        rcases hdj with h0 | ⟨_, hr⟩
        · exact absurd h0 (cause_none _ _ _ x hc).1
        · exact hr
      have := (cause_none _ _ _ x hc).2
      rw [hxr] at this
      rcases Nat.lt_or_ge s.now R with hlt | hge
      · exact hlt
      · exfalso
        have := clk_due s.now R hge (by have := h1.nw; omega)
        omega
    have hle := flush_interval_le s.A (clk s.now)
    rw [BitVec.le_def, h1.iv] at hle
    exact
    { hd := ⟨x, _, f1, hxU, hdj⟩
      iv := by show (s.A.flush true (clk s.now)).k.interval.toNat = IA; rw [hk]; exact h1.iv
      nf := by
        show nf ≤ T1
        rcases hnf with e | e
        · rw [e]; exact h1.nf
        · rw [e]; omega
      nw := h1.nw
      rb := h1.rb }
  · -- the PUSH of the head is emitted
    right
    obtain ⟨g1, g2, g3, g4, g5, g6, g7⟩ := flush_gen p.base s.A (clk s.now) h.aK h.aack h.acon
      (by rw [h.aconv]; exact h.atag) h.aq hnw
    obtain ⟨hpan, _, _, _⟩ := Total.flush_total h.aK true (clk s.now)
    obtain ⟨gs, hgs, hfl⟩ := flush_frames s.A true (clk s.now) hpan
    obtain ⟨t, ht⟩ := flAd_prefix s.A (clk s.now)
    have hxb : x ∈ (flAd s.A (clk s.now)).buf := by rw [ht]; exact List.mem_append_left _ hxm'
    have hsent : sentB (clk s.now) (resentOf s.A) (flAd s.A (clk s.now)).count x = true := by
      unfold sentB
      simp [hhl.1, hc]
    have hfrm : frmOf (segAfter (clk s.now) (resentOf s.A) (wndUnused s.A) s.A.rcv_nxt (flAd s.A (clk s.now)).count
        s.A.rx_rto s.A.nodelay x) ∈ flushFrs s.A true (clk s.now) := by
      unfold flushFrs pushFrs
      simp only [↓reduceIte]
      apply List.mem_append_right
      exact List.mem_map.mpr ⟨x, List.mem_filter.mpr ⟨hxb, hsent⟩, rfl⟩
    have hfrm' := hfrm
    rw [← hfl] at hfrm'
    obtain ⟨g, hg, hfg⟩ := List.mem_flatten.mp hfrm'
    obtain ⟨i1, _, _, i4, _⟩ := segAfter_id (clk s.now) (resentOf s.A) (wndUnused s.A) s.A.rcv_nxt
      (flAd s.A (clk s.now)).count s.A.rx_rto s.A.nodelay x
    have hnw1 := h1.nw
    refine ⟨h1.rb, by show s.now ≤ T2; omega, ⟨s.now + s.D, encFrames g⟩, ?_, by show s.now + s.D ≤ T2; omega, g, rfl, ?_,
      _, hfg, ?_, ?_⟩
    · show _ ∈ s.ab ++ stamp (s.now + s.D) (s.A.flush true (clk s.now)).outs
      rw [hgs]
      apply List.mem_append_right
      unfold stamp
      exact List.mem_map.mpr ⟨encFrames g, List.mem_map.mpr ⟨g, hg, rfl⟩, rfl⟩
    · intro fr hfr
      have : fr ∈ flushFrs s.A true (clk s.now) := by rw [← hfl]; exact List.mem_flatten.mpr ⟨g, hg, hfr⟩
      exact (g7 fr this).2.1.2
    · show (segAfter _ _ _ _ _ _ _ x).cmd.toNat = _
      rw [i4, (h.atag x hxm').2]; decide
    · show o p.base (segAfter _ _ _ _ _ _ _ x).sn = U
      rw [i1, hxU]


/-- A's `Input` of a datagram from B in phase P1 (before the closing flush): `snd_una` has passed `U`, or
the head is the same segment with its timer untouched -/
theorem p1G_inA {p : Par} {s : State} {t0 : Nat} {frs : List Frm} {gab grest : GLink}
    (h : Cons p s gab ((t0, frs) :: grest)) (hl : LiveInv s.A) (hnw : NoWrap p.base s) (U R T1 IA : Nat)
    (h1 : P1G p U R T1 IA s) (hU : U ≤ o p.base s.A.snd_una) (k1 : Kcp)
    (hk1 : k1 = (inFrs true frs { k := s.A }).k ∨ ∃ rtt, k1 = updateAck (inFrs true frs { k := s.A }).k rtt) :
    LiveInv (cwndOnAck k1 s.A.snd_una) ∧
    (U < o p.base (cwndOnAck k1 s.A.snd_una).snd_una ∨
     P1G p U R T1 IA { s with A := cwndOnAck k1 s.A.snd_una, ba := encL grest }) := by
  have hd0 : ((t0, frs) : Nat × List Frm) ∈ (t0, frs) :: grest := List.mem_cons_self ..
  have hnw' := hnw
  unfold NoWrap at hnw'
  obtain ⟨x, rest, hb, hxU, hdj⟩ := h1.hd
  obtain ⟨_, _, _, _, hnx, hsq, hclean⟩ := cons_inA h hnw k1 hk1
  have hok : SndOk p.base p.conv (Has p.base s.B.rcv_nxt s.B.rcv_buf) s.A := ⟨h.acon, h.atag, h.ahas, h.arel⟩
  have hcmds : ∀ fr ∈ frs, fr.cmd.toNat = IKCP_CMD_ACK ∨ fr.cmd.toNat = IKCP_CMD_WASK ∨ fr.cmd.toNat = IKCP_CMD_WINS :=
    fun fr hfr => (h.fba (t0, frs) hd0 fr hfr).2.2.1
  obtain ⟨_, a2, a3, _, _⟩ := inFrs_snd_gen p.base p.conv (Has p.base s.B.rcv_nxt s.B.rcv_buf) frs { k := s.A } hok
    (by show o p.base s.A.snd_nxt < 2 ^ 31; omega) rfl (by
      intro fr hfr
      obtain ⟨_, _, e3, e4, e5⟩ := h.fba (t0, frs) hd0 fr hfr
      have := h.bub
      exact ⟨e3, by omega, fun sn hsn => Or.inl (by omega), e5⟩)
  have a3' : o p.base s.A.snd_una ≤ o p.base (inFrs true frs { k := s.A }).k.snd_una := a3
  have hkeep := inFrs_keeps frs { k := s.A } hcmds
  have hhl := inFrs_headLive frs { k := s.A } hl.1
  have hu := inA_una s.A (inFrs true frs { k := s.A }) k1 hk1 s.A.snd_una
  obtain ⟨hbf, hiv⟩ := inA_buf (inFrs true frs { k := s.A }) k1 hk1 s.A.snd_una
  have hiv2 : (inFrs true frs { k := s.A }).k.interval = s.A.interval := by
    obtain ⟨r, sb, su, pr, e⟩ := a2
    rw [e]
  have hnx2 : (inFrs true frs { k := s.A }).k.snd_nxt = s.A.snd_nxt := by
    obtain ⟨r, sb, su, pr, e⟩ := a2
    rw [e]
  -- HeadLive of the result
  have hHL : HeadLive (cwndOnAck k1 s.A.snd_una) := by
    unfold HeadLive at hhl ⊢
    rw [hbf, hu, hnx, ← hnx2]
    exact hhl
  have hLive : LiveInv (cwndOnAck k1 s.A.snd_una) := ⟨hHL, by rw [hsq]; exact hl.2⟩
  refine ⟨hLive, ?_⟩
  by_cases hG : U < o p.base (cwndOnAck k1 s.A.snd_una).snd_una
  · exact Or.inl hG
  · right
    have huU : o p.base (cwndOnAck k1 s.A.snd_una).snd_una = U := by rw [hu] at hG ⊢; omega
    have hcon := hclean.acon
    have hcon' : Contig p.base (cwndOnAck k1 s.A.snd_una) := hcon
    -- the buffer is not empty, its head has offset U
    have hxlt := (h.acon.mem (by rw [hb]; exact List.mem_cons_self .. : x ∈ s.A.snd_buf)).2
    cases hbuf : (cwndOnAck k1 s.A.snd_una).snd_buf with
    | nil =>
      exfalso
      have := hcon'.2
      rw [hbuf, hnx, huU] at this
      simp only [List.length_nil] at this
      omega
    | cons x' rest' =>
      unfold HeadLive at hHL
      rw [hbuf] at hHL
      have hx'U : o p.base x'.sn = U := by rw [← hHL.2]; exact huU
      have hx'm : x' ∈ (inFrs true frs { k := s.A }).k.snd_buf := by rw [← hbf, hbuf]; exact List.mem_cons_self ..
      obtain ⟨y, hy, e1, e2, e3⟩ := hkeep x' hx'm
      have hyx : y = x := h.acon.head_unique hb hy (o_inj p.base _ _ (by rw [← e1, hx'U, hxU]))
      rw [hyx] at e2 e3
      exact
      { hd := ⟨x', rest', hbuf, hx'U, by rw [e3, e2]; exact hdj⟩
        iv := by show (cwndOnAck k1 s.A.snd_una).interval.toNat = IA; rw [hiv, hiv2]; exact h1.iv
        nf := h1.nf
        nw := h1.nw
        rb := h1.rb }



def RetG3 (p : Par) (U R T1 IA T2 IB : Nat) (s : State) : Prop := RetH2 p U T2 IB s ∨ P1G p U R T1 IA s

theorem retG3_step {p : Par} {s : State} {gab gba : GLink} (h : Cons p s gab gba) (hl : LiveInv s.A) (hsm : Small p.base s) (hw0 : 0 < s.B.rcv_wnd.toNat)
    (U R T1 IA T2 IB : Nat) (hT : R + IA ≤ T1 ∧ T1 < R + 2 ^ 31) (hT2 : T1 + s.D ≤ T2) (ht : Tm IB s)
    (hUa : U ≤ o p.base s.A.snd_una)
    (hr : RetG3 p U R T1 IA T2 IB s) (ev : Ev) : RetG3 p U R T1 IA T2 IB (Sys.step s ev) := by
  have hnw := hsm.noWrap
  rcases hr with hr | h1
  · exact Or.inl (retH2_step h hsm hw0 U T2 IB hUa ht hr ev)
  · obtain ⟨x, rest, hb, hxU, _⟩ := h1.hd
    have hG : ∀ s' : State, U < o p.base s'.A.snd_una → RetG3 p U R T1 IA T2 IB s' :=
      fun s' hg => Or.inl (Or.inl (Or.inl hg))
    cases ev with
    | tick =>
      rw [show Sys.step s .tick = (if quiet s then { s with now := s.now + 1 } else s) from rfl]
      split
      · rename_i hq
        unfold quiet at hq
        simp only [Bool.and_eq_true, List.all_eq_true, decide_eq_true_eq] at hq
        exact Or.inr ⟨h1.hd, h1.iv, h1.nf, by show s.now + 1 ≤ T1; have := h1.nf; omega, h1.rb⟩
      · exact Or.inr h1
    | send b =>
      have hq := Frame.send_k s.A b
      exact Or.inr
        { hd := by show ∃ x rest, (s.A.send b).k.snd_buf = x :: rest ∧ _; rw [hq]; exact h1.hd
          iv := by show (s.A.send b).k.interval.toNat = IA; rw [hq]; exact h1.iv
          nf := h1.nf, nw := h1.nw, rb := h1.rb }
    | read =>
      rw [show Sys.step s .read = (if (s.B.recv s.B.peekSize.toNat).n < 0 then s
        else { s with B := (s.B.recv s.B.peekSize.toNat).k, got := s.got ++ (s.B.recv s.B.peekSize.toNat).data }) from rfl]
      split
      · exact Or.inr h1
      · have hnw' := hnw
        unfold NoWrap at hnw'
        have hs := recv_rcvStep p.base (o p.base s.A.snd_nxt) (by omega) s.B s.B.peekSize.toNat h.bsb h.bub h.bbuf
        exact Or.inr ⟨h1.hd, h1.iv, h1.nf, h1.nw, by
          show U ≤ o p.base (s.B.recv s.B.peekSize.toNat).k.rcv_nxt
          have := hs.lo; have := h1.rb; omega⟩
    | flushA =>
      rcases p1G_flush h hl hnw U R T1 IA T2 hT hT2 h1 (s.now + (s.A.flush true (clk s.now)).interval.toNat) (Or.inr rfl)
        with h2 | h2
      · exact Or.inr h2
      · exact Or.inl (Or.inr h2)
    | flushB =>
      obtain ⟨pw, tp, st, ss, cw, inc, hk⟩ := flush_frame s.B true (clk s.now)
      exact Or.inr ⟨h1.hd, h1.iv, h1.nf, h1.nw, by
        show U ≤ o p.base (s.B.flush true (clk s.now)).k.rcv_nxt
        rw [hk]; exact h1.rb⟩
    | dlvB =>
      cases gab with
      | nil =>
        have : Sys.step s .dlvB = s := by simp only [Sys.step, h.hab, encL, List.map_nil]
        rw [this]; exact Or.inr h1
      | cons d0 grest =>
        obtain ⟨t0, frs0⟩ := d0
        have hab : s.ab = ⟨t0, encFrames frs0⟩ :: encL grest := h.hab
        rw [step_dlvB_cons s _ _ hab]
        split
        · have hk1 := (dlvB_keeps h hnw).1
          exact Or.inr ⟨h1.hd, h1.iv, h1.nf, h1.nw, by
            show U ≤ o p.base (s.B.input (encFrames frs0) true s.ndB (clk s.now)).k.rcv_nxt
            have := h1.rb; omega⟩
        · exact Or.inr h1
    | dlvA =>
      cases gba with
      | nil =>
        have : Sys.step s .dlvA = s := by simp only [Sys.step, h.hba, encL, List.map_nil]
        rw [this]; exact Or.inr h1
      | cons d0 grest =>
        obtain ⟨t0, frs⟩ := d0
        have hba : s.ba = ⟨t0, encFrames frs⟩ :: encL grest := h.hba
        rw [step_dlvA_cons s _ _ hba]
        split
        · by_cases hne : frs = []
          · subst hne
            simp only [input_empty, stamp, List.map_nil, List.append_nil, Bool.or_false]
            exact Or.inr ⟨h1.hd, h1.iv, h1.nf, h1.nw, h1.rb⟩
          · obtain ⟨hv, hp, hr0, _, _, _, _⟩ := cons_inA h hnw (inFrs true frs { k := s.A }).k (Or.inl rfl)
            obtain ⟨k1, hk1, himp⟩ := inputA_cases s.A frs s.ndA (clk s.now) hv hp hr0
            obtain ⟨_, _, _, hal, hnx, hsq, hclean⟩ := cons_inA h hnw k1 hk1
            have hUle : U ≤ o p.base s.A.snd_una := by
              have := hl.1
              unfold HeadLive at this
              rw [hb] at this
              rw [this.2, hxU]; exact Nat.le_refl _
            obtain ⟨hlive, hcase⟩ := p1G_inA h hl hnw U R T1 IA h1 hUle k1 hk1
            rcases himp hal hclean.aK with hin | hin | ⟨hnil, _⟩
            · simp only [hin, stamp, List.map_nil, List.append_nil, Bool.or_false]
              rcases hcase with hg | h2
              · exact hG _ hg
              · exact Or.inr h2
            · simp only [hin]
              rcases hcase with hg | h2
              · apply hG
                show U < o p.base (flush (cwndOnAck k1 s.A.snd_una) true (clk s.now)).k.snd_una
                rw [flush_una]; exact hg
              · have hnw1 : NoWrap p.base { s with A := cwndOnAck k1 s.A.snd_una, ba := encL grest } := by
                  have hnw' := hnw
                  unfold NoWrap at hnw' ⊢
                  show o p.base (cwndOnAck k1 s.A.snd_una).snd_nxt + (cwndOnAck k1 s.A.snd_una).snd_queue.length < _
                  rw [hnx, hsq]; exact hnw'
                rcases p1G_flush hclean hlive hnw1 U R T1 IA T2 hT hT2 h2 s.nfA (Or.inl rfl) with h3 | h3
                · exact Or.inr h3
                · exact Or.inl (Or.inr h3)
            · exact absurd hnil hne
        · exact Or.inr h1


theorem retG3_run {p : Par} (U R T1 IA T2 IB : Nat) (hT : R + IA ≤ T1 ∧ T1 < R + 2 ^ 31) (evs : List Ev) :
    ∀ (s : State) (gab gba : GLink), Cons p s gab gba → LiveInv s.A → RunSmallH p.base s evs → T1 + s.D ≤ T2 → Tm IB s →
    U ≤ o p.base s.A.snd_una → RetG3 p U R T1 IA T2 IB s → RetG3 p U R T1 IA T2 IB (Sys.run s evs) := by
  induction evs with
  | nil => intro s _ _ _ _ _ _ _ _ hr; exact hr
  | cons ev rest ih =>
    intro s gab gba h hl hsm hT2 ht hUa hr
    obtain ⟨gab', gba', hc⟩ := cons_step h hsm.1.1.noWrap ev
    have hm := una_mono_step h hsm.1.1.noWrap ev
    exact ih _ gab' gba' hc (live_step s hl ev) hsm.2 (by rw [step_D]; exact hT2) (tm_step h hsm.1.1.noWrap IB ht ev)
      (by omega) (retG3_step h hl hsm.1.1 hsm.1.2 U R T1 IA T2 IB hT hT2 ht hUa hr ev)

/-- **the progress step for the head segment, all phases, with its bound** -/
theorem retG3_done {p : Par} {s : State} {gab gba : GLink} (h : Cons p s gab gba) (hl : LiveInv s.A)
    (U R T1 IA IB : Nat) (hT : R + IA ≤ T1 ∧ T1 < R + 2 ^ 31) (ht : Tm IB s) (h1 : P1G p U R T1 IA s)
    (evs : List Ev) (hsm : RunSmallH p.base s evs) (hnow : T1 + s.D + IB + s.D < (Sys.run s evs).now) :
    U < o p.base (Sys.run s evs).A.snd_una := by
  have hUa : U ≤ o p.base s.A.snd_una := by
    obtain ⟨x, rest, hb, hxU, _⟩ := h1.hd
    have := hl.1
    unfold HeadLive at this
    rw [hb] at this
    rw [this.2, hxU]; exact Nat.le_refl _
  have := retG3_run U R T1 IA (T1 + s.D) IB hT evs s gab gba h hl hsm (Nat.le_refl _) ht hUa (Or.inr h1)
  rcases this with hR2 | hP1
  · rcases hR2 with hR | ⟨_, hn, _⟩
    · unfold RetH at hR
      rw [run_D] at hR
      rcases hR with hG | ⟨_, _, _, hn⟩ | ⟨_, hn⟩
      · exact hG
      · omega
      · omega
    · omega
  · have := hP1.nw; omega

end KcpVerif.SysC
