/-
C07 (`dec_any_k`, `dec_sound`) and the decoder half of C16 (`stable`) for the model `Model/Fec`
of `fecDecoder.decode`.  Core Lean only; `C : CodecNew` is any codec constructor that satisfies
the list-level MDS law `Lawful` of `Lemmas/FecSpec`.

A. accessors of `decode` on genuine packets (`seqid_packet` … `shardId_packet`)
B. `trim_pad_body`: the size check of `kcpInput` undoes the zero padding, exact length
C. `recover_genuine`: from ANY `d` distinct packets of a genuine group the recovery block returns
   exactly the zero-padded bodies of the absent data packets, in index order
D. `decode_completes` / `decode_incomplete` / `decode_duplicate`: one `decode` call
E. the invariant `SetsGenuine`, kept by `decode` of any genuine packet (`decode_preserves`),
   under which every returned shard is an original body (`decode_sound`, `dec_sound_list`,
   `dec_sound_new`); genuine packets never start tuning (`decode_fields`, `stable_list`) nor panic
   (`decode_no_panic`);
   a fresh decoder recovers a group anywhere in the id space (`fresh_decoder_anywhere`, D13)
-/
import KcpVerif.Lemmas.FecSpec

namespace KcpVerif.Lemmas.FecDec
open KcpVerif.Fec KcpVerif.Gen KcpVerif.AutoTune KcpVerif.Lemmas.FecSpec

/-! ## little endian round trips -/

theorem rd32_le32 (v : BitVec 32) (rest : Bytes) : rd32 (le32 v ++ rest) = v := by
  apply BitVec.eq_of_toNat_eq
  simp only [rd32, le32, List.cons_append, List.nil_append, List.getD_cons_zero,
    List.getD_cons_succ, UInt8.toNat_ofNat', BitVec.toNat_ofNat]
  have := v.isLt
  omega

theorem rd16_le16 (k : Nat) (hk : k < 65536) (rest : Bytes) : rd16 (le16 k ++ rest) = k := by
  simp only [rd16, le16, List.cons_append, List.nil_append, List.getD_cons_zero,
    List.getD_cons_succ, UInt8.toNat_ofNat']
  omega

theorem length_le32 (v : BitVec 32) : (le32 v).length = 4 := rfl
theorem length_le16 (k : Nat) : (le16 k).length = 2 := rfl

theorem drop4_le32 (v : BitVec 32) (rest : Bytes) : (le32 v ++ rest).drop 4 = rest := by
  simp [le32]

theorem drop2_le16 (k : Nat) (rest : Bytes) : (le16 k ++ rest).drop 2 = rest := by
  simp [le16]

/-! ## pad -/

theorem length_pad (L : Nat) (s : Bytes) : (pad L s).length = max s.length L := by
  simp only [pad, List.length_append, List.length_replicate]; omega

theorem pad_of_length_eq (L : Nat) (s : Bytes) (h : s.length = L) : pad L s = s := by
  simp [pad, h]

/-! ## B: the size check undoes the zero padding -/

theorem trim_pad_body (pl : Bytes) (L : Nat) (h : pl.length + 2 ≤ L) (h16 : pl.length + 2 < 65536) :
    trim (pad L (bodyOf pl)) = some pl := by
  have hlen : (pad L (bodyOf pl)).length = L := by
    rw [length_pad]; simp only [bodyOf, List.length_append, length_le16]; omega
  have hrd : rd16 (pad L (bodyOf pl)) = pl.length + 2 := by
    simp only [pad, bodyOf, List.append_assoc]
    exact rd16_le16 _ h16 _
  unfold trim
  rw [hrd, hlen, if_pos ⟨by omega, by omega, h⟩]
  congr 1
  simp only [pad, bodyOf, List.append_assoc]
  have : (le16 (pl.length + 2) ++ (pl ++ List.replicate (L - (le16 (pl.length + 2) ++ pl).length) 0)).take (pl.length + 2)
      = le16 (pl.length + 2) ++ pl := by
    rw [← List.append_assoc]
    apply List.take_left'
    simp [length_le16]; omega
  rw [this, drop2_le16]
/-! ## facts about a well-formed group -/

theorem le_foldr_max (l : List Nat) (x : Nat) (h : x ∈ l) : x ≤ l.foldr max 0 := by
  induction l with
  | nil => cases h
  | cons a l ih =>
    simp only [List.foldr_cons]
    rcases List.mem_cons.1 h with rfl | h
    · exact Nat.le_max_left _ _
    · exact Nat.le_trans (ih h) (Nat.le_max_right _ _)

theorem foldr_max_le (l : List Nat) (B : Nat) (h : ∀ x ∈ l, x ≤ B) : l.foldr max 0 ≤ B := by
  induction l with
  | nil => exact Nat.zero_le _
  | cons a l ih =>
    simp only [List.foldr_cons]
    have h1 := h a (List.mem_cons_self ..)
    have h2 := ih (fun x hx => h x (List.mem_cons_of_mem _ hx))
    omega

section GroupFacts
variable {C : CodecNew} {G : Group}

theorem length_bodyOf (pl : Bytes) : (bodyOf pl).length = pl.length + 2 := by
  simp only [bodyOf, List.length_append, length_le16]; omega

theorem length_bodies (hG : G.WF) : G.bodies.length = G.d := by
  simp only [Group.bodies, List.length_map, hG.count]

theorem body_le_maxLen (b : Bytes) (hb : b ∈ G.bodies) : b.length ≤ G.maxLen :=
  le_foldr_max _ _ (List.mem_map.2 ⟨b, hb, rfl⟩)

theorem two_le_maxLen (hG : G.WF) : 2 ≤ G.maxLen := by
  have hd := hG.d_pos
  have hc := hG.count
  match hp : G.payloads with
  | [] => rw [hp] at hc; simp at hc; omega
  | pl :: rest =>
    have : bodyOf pl ∈ G.bodies := by simp [Group.bodies, hp]
    have := body_le_maxLen _ this
    rw [length_bodyOf] at this
    omega

/-- the longest body fits a pool buffer behind the FEC header -/
theorem maxLen_le (hG : G.WF) : G.maxLen + fecHeaderSize ≤ mtuLimit := by
  have : G.maxLen ≤ mtuLimit - fecHeaderSize := by
    apply foldr_max_le
    intro x hx
    obtain ⟨b, hb, rfl⟩ := List.mem_map.1 hx
    obtain ⟨pl, hpl, rfl⟩ := List.mem_map.1 hb
    have := hG.size pl hpl
    rw [length_bodyOf]
    omega
  have h2 : fecHeaderSize ≤ mtuLimit := by decide
  omega

theorem length_dataShards (hG : G.WF) : G.dataShards.length = G.d := by
  simp only [Group.dataShards, List.length_map, length_bodies hG]

theorem dataShards_size (s : Bytes) (hs : s ∈ G.dataShards) : s.length = G.maxLen := by
  simp only [Group.dataShards, List.mem_map] at hs
  obtain ⟨b, hb, rfl⟩ := hs
  rw [length_pad]
  have := body_le_maxLen b hb
  omega

theorem length_parityShards (hC : Lawful C) (hG : G.WF) : (G.parityShards C).length = G.p :=
  hC.enc_length _ _ _ (length_dataShards hG)

theorem parityShards_size (hC : Lawful C) (hG : G.WF) (s : Bytes) (hs : s ∈ G.parityShards C) :
    s.length = G.maxLen :=
  hC.enc_size _ _ _ _ (length_dataShards hG) dataShards_size s hs

theorem length_codeword (hC : Lawful C) (hG : G.WF) : (G.codeword C).length = G.n := by
  simp only [Group.codeword, List.length_append, length_dataShards hG, length_parityShards hC hG,
    Group.n]

theorem bodies_getD (hG : G.WF) (k : Nat) (hk : k < G.d) :
    G.bodies.getD k [] = bodyOf (G.payloads.getD k []) := by
  have : k < G.payloads.length := by rw [hG.count]; exact hk
  simp [Group.bodies, List.getD_eq_getElem?_getD, this]

theorem payload_size (hG : G.WF) (k : Nat) (hk : k < G.d) :
    (G.payloads.getD k []).length + 2 ≤ G.maxLen ∧ (G.payloads.getD k []).length + 2 < 65536 := by
  have hk' : k < G.payloads.length := by rw [hG.count]; exact hk
  have hmem : G.payloads.getD k [] ∈ G.payloads := by
    simp [List.getD_eq_getElem?_getD, hk']
  constructor
  · have : bodyOf (G.payloads.getD k []) ∈ G.bodies := List.mem_map.2 ⟨_, hmem, rfl⟩
    have := body_le_maxLen _ this
    rw [length_bodyOf] at this
    exact this
  · have := hG.size _ hmem
    simp only [mtuLimit, fecHeaderSize] at this
    omega

/-- the parity shard carried by packet `i ≥ d` has the common length -/
theorem parity_getD_size (hC : Lawful C) (hG : G.WF) (i : Nat) (hi : i < G.n) (hd : G.d ≤ i) :
    ((G.parityShards C).getD (i - G.d) []).length = G.maxLen := by
  have : i - G.d < (G.parityShards C).length := by
    rw [length_parityShards hC hG]; unfold Group.n at hi; omega
  apply parityShards_size hC hG
  simp [List.getD_eq_getElem?_getD, this]

/-! ## A: accessors on genuine packets -/

theorem seqid_packet (i : Nat) : seqid (G.packet C i) = G.base + BitVec.ofNat 32 i := by
  simp only [seqid, Group.packet, List.append_assoc, rd32_le32]

theorem flag_packet (i : Nat) :
    flag (G.packet C i) = if i < G.d then typeData else typeParity := by
  simp only [flag, Group.packet, List.append_assoc, drop4_le32]
  apply rd16_le16
  split <;> simp [typeData, typeParity]

theorem body_packet (i : Nat) : body (G.packet C i) = G.wireBody C i := by
  simp only [body, Group.packet]
  apply List.drop_left'
  simp [length_le32, length_le16, fecHeaderSize]

theorem length_packet_ge (i : Nat) : fecHeaderSize ≤ (G.packet C i).length := by
  simp only [Group.packet, List.length_append, length_le32, length_le16, fecHeaderSize]
  omega

theorem n_pos (hG : G.WF) : 0 < G.n := by have := hG.d_pos; unfold Group.n; omega
theorem n_le (hG : G.WF) : G.n ≤ 256 := hG.n_le

theorem seq_toNat (hG : G.WF) (i : Nat) (hi : i < G.n) :
    (G.base + BitVec.ofNat 32 i).toNat = G.base.toNat + i := by
  have h1 := hG.below
  have h2 := (pawsOf G.n).isLt
  simp only [BitVec.toNat_add, BitVec.toNat_ofNat]
  omega

theorem posOf_packet (hG : G.WF) (i : Nat) (hi : i < G.n) : posOf G.n (G.packet C i) = i := by
  simp only [posOf, seqid_packet, seq_toNat hG i hi]
  rw [Nat.add_mod, hG.aligned, Nat.zero_add, Nat.mod_mod, Nat.mod_eq_of_lt hi]

theorem u32_n_toNat (hG : G.WF) : (u32 G.n).toNat = G.n := by
  have := n_le hG
  simp only [u32, BitVec.toNat_ofNat]
  omega

theorem shardId_packet (hG : G.WF) (i : Nat) (hi : i < G.n) :
    seqid (G.packet C i) / u32 G.n = G.base / u32 G.n := by
  apply BitVec.eq_of_toNat_eq
  simp only [seqid_packet, BitVec.toNat_udiv, seq_toNat hG i hi, u32_n_toNat hG]
  obtain ⟨q, hq⟩ := Nat.dvd_of_mod_eq_zero hG.aligned
  rw [hq, Nat.mul_add_div (n_pos hG), Nat.div_eq_of_lt hi, Nat.mul_div_cancel_left _ (n_pos hG)]
  rfl

theorem seq_below_paws (hG : G.WF) (i : Nat) (hi : i < G.n) :
    (seqid (G.packet C i)).toNat < (pawsOf G.n).toNat := by
  rw [seqid_packet, seq_toNat hG i hi]
  have := hG.below
  omega

/-- ids of one group are distinct -/
theorem seqid_packet_inj (hG : G.WF) (i j : Nat) (hi : i < G.n) (hj : j < G.n) :
    seqid (G.packet C i) = seqid (G.packet C j) ↔ i = j := by
  constructor
  · intro h
    have := congrArg BitVec.toNat h
    rw [seqid_packet, seqid_packet, seq_toNat hG i hi, seq_toNat hG j hj] at this
    omega
  · rintro rfl; rfl

end GroupFacts
/-! ## C: the recovery block on genuine packets -/

theorem filterMap_congr' {α β : Type} (l : List α) (f g : α → Option β) (h : ∀ a ∈ l, f a = g a) :
    l.filterMap f = l.filterMap g := by
  induction l with
  | nil => rfl
  | cons a l ih =>
    simp only [List.filterMap_cons, h a (List.mem_cons_self ..)]
    rw [ih (fun b hb => h b (List.mem_cons_of_mem _ hb))]

theorem maxBody_le (L : Nat) (pkts : List Bytes) (h : ∀ q ∈ pkts, (body q).length ≤ L) :
    maxBody pkts ≤ L := by
  induction pkts with
  | nil => simp [maxBody]
  | cons q rest ih =>
    simp only [maxBody]
    have h1 := h q (List.mem_cons_self ..)
    have h2 := ih (fun r hr => h r (List.mem_cons_of_mem _ hr))
    omega

theorem le_maxBody (pkts : List Bytes) (q : Bytes) (h : q ∈ pkts) :
    (body q).length ≤ maxBody pkts := by
  induction pkts with
  | nil => cases h
  | cons a rest ih =>
    simp only [maxBody]
    rcases List.mem_cons.1 h with rfl | h
    · omega
    · have := ih h; omega

/-- nodup indices below `n`: exactly `idxs.length` positions of `0..n-1` are occupied -/
theorem count_present (n : Nat) : ∀ (idxs : List Nat), idxs.Nodup → (∀ i ∈ idxs, i < n) →
    ((List.range n).filter (fun k => decide (k ∈ idxs))).length = idxs.length := by
  induction n with
  | zero =>
    intro idxs _ hb
    match idxs with
    | [] => rfl
    | a :: _ => exact absurd (hb a (List.mem_cons_self ..)) (Nat.not_lt_zero _)
  | succ n ih =>
    intro idxs hnd hb
    have hcongr : (List.range n).filter (fun k => decide (k ∈ idxs))
        = (List.range n).filter (fun k => decide (k ∈ idxs.erase n)) := by
      apply List.filter_congr
      intro k hk
      have hk : k ≠ n := Nat.ne_of_lt (List.mem_range.1 hk)
      simp only [hnd.mem_erase_iff, hk, ne_eq, not_false_eq_true, true_and]
    have ih' := ih (idxs.erase n) (hnd.erase n) (by
      intro i hi
      have h1 := (hnd.mem_erase_iff.1 hi)
      have h2 := hb i h1.2
      omega)
    rw [List.range_succ, List.filter_append, List.length_append, hcongr, ih', List.length_erase]
    by_cases hm : n ∈ idxs
    · have : 0 < idxs.length := List.length_pos_of_mem hm
      simp [hm]; omega
    · simp [hm]

theorem find?_packet {C : CodecNew} {G : Group} (hG : G.WF) (k : Nat) :
    ∀ (idxs : List Nat), (∀ i ∈ idxs, i < G.n) →
    (idxs.map (G.packet C)).find? (fun q => posOf G.n q == k)
      = if k ∈ idxs then some (G.packet C k) else none := by
  intro idxs
  induction idxs with
  | nil => intro _; rfl
  | cons a l ih =>
    intro hb
    have ha := hb a (List.mem_cons_self ..)
    have ih' := ih (fun i hi => hb i (List.mem_cons_of_mem _ hi))
    simp only [List.map_cons, List.find?_cons, posOf_packet hG a ha]
    by_cases hak : a = k
    · subst hak; simp
    · have hka : ¬ k = a := fun h => hak h.symm
      have hbeq : (a == k) = false := by simp [hak]
      simp only [hbeq, List.mem_cons, hka, false_or]
      exact ih'

theorem pickMissing_map (F : Nat → Option Bytes) (g : Nat → Bytes) (l : List Nat) :
    pickMissing (l.map F) (l.map g)
      = l.filterMap (fun k => if (F k).isSome then none else some (g k)) := by
  induction l with
  | nil => rfl
  | cons a l ih =>
    simp only [List.map_cons, List.filterMap_cons]
    cases hF : F a with
    | none => simp [pickMissing, ih]
    | some b => simp [pickMissing, ih]

theorem mask_range (n : Nat) (b : Nat → Bool) (cw : List Bytes) (h : cw.length = n) :
    mask ((List.range n).map b) cw = (List.range n).map (fun k => if b k then cw[k]? else none) := by
  apply List.ext_getElem
  · simp [mask, h]
  · intro i h1 h2
    have hi : i < cw.length := by simp [mask] at h1; omega
    simp [mask, List.getElem?_eq_getElem hi]

section Recover
variable {C : CodecNew} {G : Group}

theorem wireBody_le (hC : Lawful C) (hG : G.WF) (i : Nat) (hi : i < G.n) :
    (G.wireBody C i).length ≤ G.maxLen := by
  unfold Group.wireBody
  split
  · rename_i h
    apply body_le_maxLen
    have : i < G.bodies.length := by rw [length_bodies hG]; exact h
    simp [List.getD_eq_getElem?_getD, this]
  · rename_i h
    exact Nat.le_of_eq (parity_getD_size hC hG i hi (by omega))

/-- a genuine packet fits a pool buffer -/
theorem length_packet_le (hC : Lawful C) (hG : G.WF) (i : Nat) (hi : i < G.n) :
    (G.packet C i).length ≤ mtuLimit := by
  have h1 := wireBody_le hC hG i hi
  have h2 := maxLen_le hG
  simp only [Group.packet, List.length_append, length_le32, length_le16]
  simp only [fecHeaderSize] at h2
  omega

/-- the re-slice of the recovery block cannot fail on genuine packets -/
theorem recoverPanics_genuine (hC : Lawful C) (hG : G.WF) (dec : Decoder) (idxs : List Nat)
    (hb : ∀ i ∈ idxs, i < G.n) : recoverPanics dec (idxs.map (G.packet C)) = false := by
  have h1 : maxBody (idxs.map (G.packet C)) ≤ G.maxLen := by
    apply maxBody_le
    intro q hq
    obtain ⟨a, ha, rfl⟩ := List.mem_map.1 hq
    rw [body_packet]
    exact wireBody_le hC hG a (hb a ha)
  have h2 := maxLen_le hG
  have h3 : decide (maxBody (idxs.map (G.packet C)) + fecHeaderSize > mtuLimit) = false := by
    rw [decide_eq_false_iff_not]; omega
  unfold recoverPanics
  rw [h3, Bool.and_false]

/-- shard `i` of the codeword is the zero-padded body of packet `i` -/
theorem codeword_getElem? (hC : Lawful C) (hG : G.WF) (i : Nat) (hi : i < G.n) :
    (G.codeword C)[i]? = some (pad G.maxLen (G.wireBody C i)) := by
  unfold Group.codeword Group.wireBody
  by_cases h : i < G.d
  · have h1 : i < G.dataShards.length := by rw [length_dataShards hG]; exact h
    have h2 : i < G.bodies.length := by rw [length_bodies hG]; exact h
    rw [List.getElem?_append_left h1, if_pos h]
    simp [Group.dataShards, List.getD_eq_getElem?_getD, h2]
  · have h1 : G.dataShards.length ≤ i := by rw [length_dataShards hG]; omega
    have h3 : i - G.d < (G.parityShards C).length := by
      rw [length_parityShards hC hG]; unfold Group.n at hi; omega
    rw [List.getElem?_append_right h1, if_neg h, length_dataShards hG,
      pad_of_length_eq _ _ (parity_getD_size hC hG i hi (by omega))]
    simp [List.getD_eq_getElem?_getD, h3]

theorem gather_genuine (hG : G.WF) (L : Nat) (idxs : List Nat) (hb : ∀ i ∈ idxs, i < G.n) :
    gather G.n L (idxs.map (G.packet C))
      = (List.range G.n).map (fun k => if k ∈ idxs then some (pad L (G.wireBody C k)) else none) := by
  unfold gather
  apply List.map_congr_left
  intro k _
  rw [find?_packet hG k idxs hb]
  split <;> simp [body_packet]

theorem gather_eq_mask (hC : Lawful C) (hG : G.WF) (idxs : List Nat) (hb : ∀ i ∈ idxs, i < G.n) :
    gather G.n G.maxLen (idxs.map (G.packet C))
      = mask ((List.range G.n).map (fun k => decide (k ∈ idxs))) (G.codeword C) := by
  rw [gather_genuine hG _ idxs hb, mask_range _ _ _ (length_codeword hC hG)]
  apply List.map_congr_left
  intro k hk
  rw [codeword_getElem? hC hG k (List.mem_range.1 hk)]
  simp

theorem numData_genuine (idxs : List Nat) :
    ((idxs.map (G.packet C)).filter fun q => flag q == typeData).length
      = (idxs.filter (fun i => decide (i < G.d))).length := by
  rw [List.filter_map, List.length_map]
  congr 1
  apply List.filter_congr
  intro i _
  simp only [Function.comp, flag_packet]
  split <;> simp [*, typeData, typeParity]

theorem maxBody_genuine (hC : Lawful C) (hG : G.WF) (idxs : List Nat) (hb : ∀ i ∈ idxs, i < G.n)
    (i : Nat) (hi : i ∈ idxs) (hd : G.d ≤ i) : maxBody (idxs.map (G.packet C)) = G.maxLen := by
  apply Nat.le_antisymm
  · apply maxBody_le
    intro q hq
    obtain ⟨a, ha, rfl⟩ := List.mem_map.1 hq
    rw [body_packet]
    exact wireBody_le hC hG a (hb a ha)
  · have := le_maxBody (idxs.map (G.packet C)) (G.packet C i) (List.mem_map.2 ⟨i, hi, rfl⟩)
    rw [body_packet] at this
    have h2 : (G.wireBody C i).length = G.maxLen := by
      unfold Group.wireBody
      rw [if_neg (by omega)]
      exact parity_getD_size hC hG i (hb i hi) hd
    omega

/-- every data index is among `d` distinct indices that are all data indices -/
theorem all_data_present (idxs : List Nat) (hnd : idxs.Pairwise (· ≠ ·)) (hlen : idxs.length = G.d)
    (hall : ∀ i ∈ idxs, i < G.d) : ∀ k, k < G.d → k ∈ idxs := by
  have h := count_present G.d idxs hnd hall
  rw [hlen] at h
  have h' : ((List.range G.d).filter (fun k => decide (k ∈ idxs))).length = (List.range G.d).length := by
    rw [h, List.length_range]
  rw [List.length_filter_eq_length_iff] at h'
  intro k hk
  simpa using h' k (List.mem_range.2 hk)

/-- **C07 `dec_any_k`, the recovery block.**  From any `d` distinct packets of a genuine group
    `recover` returns exactly the zero-padded bodies of the absent data packets, in index order. -/
theorem recover_genuine (hC : Lawful C) (hG : G.WF) (dec : Decoder)
    (hd : dec.d = G.d) (hn : dec.n = G.n) (hc : dec.codec = C G.d G.p)
    (idxs : List Nat) (hnd : idxs.Pairwise (· ≠ ·)) (hb : ∀ i ∈ idxs, i < G.n)
    (hlen : idxs.length = G.d) :
    recover dec (idxs.map (G.packet C))
      = (List.range G.d).filterMap
          (fun k => if k ∈ idxs then none else some (pad G.maxLen (G.bodies.getD k []))) := by
  unfold recover
  simp only [numData_genuine, hd, hn, hc]
  by_cases hall : ∀ i ∈ idxs, i < G.d
  · -- all `d` data packets are there: nothing to do
    have hf : (idxs.filter (fun i => decide (i < G.d))).length = G.d := by
      have : (idxs.filter (fun i => decide (i < G.d))).length = idxs.length := by
        rw [List.length_filter_eq_length_iff]
        intro i hi; simpa using hall i hi
      rw [this, hlen]
    rw [if_pos hf]
    symm
    rw [List.filterMap_eq_nil_iff]
    intro k hk
    rw [if_pos (all_data_present idxs hnd hlen hall k (List.mem_range.1 hk))]
  · -- a parity packet is among them
    have hex : ∃ i ∈ idxs, G.d ≤ i := by
      apply Classical.byContradiction
      intro h
      apply hall
      intro i hi
      apply Classical.byContradiction
      intro h2
      exact h ⟨i, hi, by omega⟩
    obtain ⟨i, hi, hdi⟩ := hex
    have hf : (idxs.filter (fun i => decide (i < G.d))).length ≠ G.d := by
      have : (idxs.filter (fun i => decide (i < G.d))).length < idxs.length := by
        rw [List.length_filter_lt_length_iff_exists]
        exact ⟨i, hi, by simp; omega⟩
      omega
    rw [if_neg hf, maxBody_genuine hC hG idxs hb i hi hdi]
    have hcount : G.d ≤ ((List.range G.n).map (fun k => decide (k ∈ idxs))).count true := by
      rw [List.count_eq_countP, List.countP_map, List.countP_eq_length_filter]
      have := count_present G.n idxs hnd hb
      have h2 : ((List.range G.n).filter ((fun x => x == true) ∘ fun k => decide (k ∈ idxs)))
          = (List.range G.n).filter (fun k => decide (k ∈ idxs)) := by
        apply List.filter_congr; intro k _; simp
      rw [h2, this, hlen]; exact Nat.le_refl _
    have hrec := hC.recon G.d G.p G.maxLen G.dataShards
      ((List.range G.n).map (fun k => decide (k ∈ idxs))) hG.d_pos
      (by have := two_le_maxLen hG; omega) (length_dataShards hG) dataShards_size
      (by simp [Group.n]) hcount
    have hg := gather_eq_mask hC hG idxs hb
    simp only [Group.codeword, Group.parityShards] at hg
    rw [hg, hrec]
    simp only
    rw [← hg, gather_genuine hG _ idxs hb, ← List.map_take, List.take_range,
      Nat.min_eq_left (by unfold Group.n; omega)]
    have hds : G.dataShards = (List.range G.d).map (fun k => pad G.maxLen (G.bodies.getD k [])) := by
      apply List.ext_getElem
      · simp [length_dataShards hG]
      · intro k h1 h2
        have : k < G.bodies.length := by rw [length_bodies hG, ← length_dataShards hG]; exact h1
        simp [Group.dataShards, List.getD_eq_getElem?_getD, this]
    rw [hds, pickMissing_map]
    apply filterMap_congr'
    intro k _
    by_cases hk : k ∈ idxs <;> simp [hk]

theorem map_trim_recovered (hG : G.WF) (idxs : List Nat) :
    ((List.range G.d).filterMap
        (fun k => if k ∈ idxs then none else some (pad G.maxLen (G.bodies.getD k [])))).map trim
      = (List.range G.d).filterMap
          (fun k => if k ∈ idxs then none else some (some (G.payloads.getD k []))) := by
  rw [List.map_filterMap]
  apply filterMap_congr'
  intro k hk
  have hk := List.mem_range.1 hk
  by_cases h : k ∈ idxs
  · simp [h]
  · have := payload_size hG k hk
    simp only [h, if_false, Option.map_some, bodies_getD hG k hk, trim_pad_body _ _ this.1 this.2]

/-- after `kcpInput`'s size check the recovered shards are the absent payloads, exact length -/
theorem recover_genuine_trim (hC : Lawful C) (hG : G.WF) (dec : Decoder)
    (hd : dec.d = G.d) (hn : dec.n = G.n) (hc : dec.codec = C G.d G.p)
    (idxs : List Nat) (hnd : idxs.Pairwise (· ≠ ·)) (hb : ∀ i ∈ idxs, i < G.n)
    (hlen : idxs.length = G.d) :
    (recover dec (idxs.map (G.packet C))).map trim
      = (List.range G.d).filterMap
          (fun k => if k ∈ idxs then none else some (some (G.payloads.getD k []))) := by
  rw [recover_genuine hC hG dec hd hn hc idxs hnd hb hlen, map_trim_recovered hG]

end Recover
/-! ## D: one `decode` step on a genuine packet -/

/-- the decoder runs with the ratio of group `G` and is not tuning -/
structure Matches (C : CodecNew) (G : Group) (dec : Decoder) : Prop where
  d : dec.d = G.d
  p : dec.p = G.p
  n : dec.n = G.n
  codec : dec.codec = C G.d G.p
  paws : dec.paws = pawsOf G.n
  tune : dec.shouldTune = false

/-- the part of `Decoder.decode` behind the three guards (short packet, id ≥ paws, retune) -/
def place (dec1 : Decoder) (inp : Bytes) : DecOut :=
  let seq := seqid inp
  let shardId := seq / u32 dec1.n
  let base := if dec1.sets.isEmpty then shardId else dec1.newest
  let set := (lookup shardId dec1.sets).getD { id := shardId, pkts := [] }
  if set.pkts.any (fun q => seqid q == seq) then { st := { dec1 with newest := base }, recovered := [] }
  else
    let pkts := set.pkts ++ [inp]
    let full := decide (pkts.length ≥ dec1.d)
    let recovered := if full then recover dec1 pkts else []
    let sets := store { id := shardId, pkts := if full then [] else pkts } dec1.sets
    let newest :=
      if itimediff (shardId * u32 dec1.n) (base * u32 dec1.n) > 0 then shardId else base
    { st := { dec1 with sets := discard dec1.n newest sets, newest := newest }, recovered := recovered,
      panic := decide (inp.length > mtuLimit) || (full && recoverPanics dec1 pkts) }

/-- `dec` after the `Sample` call of `decode` -/
def sampled (dec : Decoder) (inp : Bytes) : Decoder :=
  { dec with tune := dec.tune.sample (flag inp == typeData) (seqid inp) }

section Step
variable {C : CodecNew} {G : Group}

theorem mismatch_genuine (hG : G.WF) (dec1 : Decoder) (hd : dec1.d = G.d) (hn : dec1.n = G.n)
    (j : Nat) (hj : j < G.n) : mismatch dec1 (G.packet C j) = false := by
  unfold mismatch
  rw [hn, hd, posOf_packet hG j hj, flag_packet]
  split <;> simp

theorem Matches.sampled {dec : Decoder} (hM : Matches C G dec) (inp : Bytes) :
    Matches C G (sampled dec inp) :=
  ⟨hM.d, hM.p, hM.n, hM.codec, hM.paws, hM.tune⟩

/-- a genuine packet of the decoder's ratio passes the three guards -/
theorem decode_genuine_eq (hG : G.WF) (dec : Decoder) (hM : Matches C G dec) (j : Nat)
    (hj : j < G.n) :
    dec.decode C (G.packet C j) = place (sampled dec (G.packet C j)) (G.packet C j) := by
  have hM' := hM.sampled (G.packet C j)
  have h1 : ¬ (G.packet C j).length < fecHeaderSize := Nat.not_lt.2 (length_packet_ge j)
  have h2 : ¬ ((seqid (G.packet C j)).toNat ≥ (sampled dec (G.packet C j)).paws.toNat) := by
    rw [hM'.paws]; exact Nat.not_le.2 (seq_below_paws hG j hj)
  have h3 : (mismatch (sampled dec (G.packet C j)) (G.packet C j)
      || (sampled dec (G.packet C j)).shouldTune) = false := by
    rw [mismatch_genuine hG _ hM'.d hM'.n j hj, hM'.tune]; rfl
  unfold Decoder.decode
  rw [if_neg h1]
  show (if (seqid (G.packet C j)).toNat ≥ (sampled dec (G.packet C j)).paws.toNat then _
    else if (mismatch (sampled dec (G.packet C j)) (G.packet C j)
      || (sampled dec (G.packet C j)).shouldTune) = true then _
    else place (sampled dec (G.packet C j)) (G.packet C j)) = _
  rw [if_neg h2, h3]
  rfl

theorem any_seqid (hG : G.WF) (got : List Nat) (hb : ∀ i ∈ got, i < G.n) (j : Nat) (hj : j < G.n) :
    (got.map (G.packet C)).any (fun q => seqid q == seqid (G.packet C j)) = decide (j ∈ got) := by
  rw [Bool.eq_iff_iff]
  simp only [List.any_eq_true, List.mem_map, beq_iff_eq, decide_eq_true_eq]
  constructor
  · rintro ⟨q, ⟨i, hi, rfl⟩, h⟩
    rw [seqid_packet_inj hG i j (hb i hi) hj] at h
    exact h ▸ hi
  · intro h
    exact ⟨_, ⟨j, h, rfl⟩, rfl⟩

/-- what the decoder holds for the group of shard id `sid` -/
def held (sid : BitVec 32) (dec : Decoder) : List Bytes :=
  ((lookup sid dec.sets).getD { id := sid, pkts := [] }).pkts

/-- the discard horizon `decode` starts from: this packet's shard id when no shard set exists -/
def baseOf (sid : BitVec 32) (dec1 : Decoder) : BitVec 32 :=
  if dec1.sets.isEmpty then sid else dec1.newest

/-- `newestShardId` after `decode` has placed a packet of shard id `sid` (shard size `n`) -/
def newestOf (n : Nat) (sid : BitVec 32) (dec1 : Decoder) : BitVec 32 :=
  if itimediff (sid * u32 n) (baseOf sid dec1 * u32 n) > 0 then sid else baseOf sid dec1

theorem sets_nonempty_of_held (sid : BitVec 32) (dec : Decoder) (h : held sid dec ≠ []) :
    dec.sets.isEmpty = false := by
  cases hs : dec.sets with
  | nil => exfalso; apply h; simp [held, hs, lookup]
  | cons a l => rfl

theorem place_dup (hG : G.WF) (dec1 : Decoder) (hn : dec1.n = G.n) (got : List Nat)
    (hb : ∀ i ∈ got, i < G.n) (hset : held (G.base / u32 G.n) dec1 = got.map (G.packet C))
    (j : Nat) (hj : j < G.n) (hmem : j ∈ got) :
    place dec1 (G.packet C j) = { st := dec1, recovered := [] } := by
  have hne : dec1.sets.isEmpty = false := by
    apply sets_nonempty_of_held (G.base / u32 G.n)
    rw [hset]
    intro h
    rw [List.map_eq_nil_iff] at h
    rw [h] at hmem
    cases hmem
  unfold held at hset
  unfold place
  simp only [hn, shardId_packet hG j hj, hset, any_seqid hG got hb j hj, hmem, decide_true, if_true,
    hne, Bool.false_eq_true, if_false]
  rw [← hn]

/-- a new packet of the group: what is returned and the complete successor state -/
theorem place_new_st (hG : G.WF) (dec1 : Decoder) (hn : dec1.n = G.n) (got : List Nat)
    (hb : ∀ i ∈ got, i < G.n) (hset : held (G.base / u32 G.n) dec1 = got.map (G.packet C))
    (j : Nat) (hj : j < G.n) (hnot : j ∉ got) :
    (place dec1 (G.packet C j)).recovered
        = (if got.length + 1 ≥ dec1.d then recover dec1 ((got ++ [j]).map (G.packet C)) else []) ∧
    (place dec1 (G.packet C j)).st =
      { dec1 with
        sets := discard G.n (newestOf G.n (G.base / u32 G.n) dec1) (store
          ⟨G.base / u32 G.n, if got.length + 1 ≥ dec1.d then [] else (got ++ [j]).map (G.packet C)⟩
          dec1.sets),
        newest := newestOf G.n (G.base / u32 G.n) dec1 } := by
  unfold held at hset
  unfold place newestOf baseOf
  simp only [hn, shardId_packet hG j hj, hset, any_seqid hG got hb j hj, hnot, decide_false,
    Bool.false_eq_true, if_false, List.length_append, List.length_map, List.length_cons,
    List.length_nil, Nat.zero_add, decide_eq_true_eq, List.map_append, List.map_cons, List.map_nil]
  exact ⟨trivial, trivial⟩

/-- the two slice-bounds panics of `decode`, whatever the state -/
theorem place_panic_true (dec1 : Decoder) (inp : Bytes) (h : (place dec1 inp).panic = true) :
    inp.length > mtuLimit ∨
      recoverPanics dec1 (held (seqid inp / u32 dec1.n) dec1 ++ [inp]) = true := by
  unfold place at h
  unfold held
  simp only [] at h
  split at h
  · cases h
  · simp only [Bool.or_eq_true, Bool.and_eq_true, decide_eq_true_eq] at h
    rcases h with h | h
    · exact Or.inl h
    · exact Or.inr h.2

/-- no panic on a genuine packet when the set holds genuine packets -/
theorem place_panic (hC : Lawful C) (hG : G.WF) (dec1 : Decoder) (hn : dec1.n = G.n)
    (got : List Nat) (hb : ∀ i ∈ got, i < G.n)
    (hset : held (G.base / u32 G.n) dec1 = got.map (G.packet C)) (j : Nat) (hj : j < G.n) :
    (place dec1 (G.packet C j)).panic = false := by
  cases hp : (place dec1 (G.packet C j)).panic with
  | false => rfl
  | true =>
    exfalso
    rcases place_panic_true dec1 _ hp with h | h
    · have := length_packet_le hC hG j hj
      omega
    · rw [hn, shardId_packet hG j hj, hset] at h
      have h2 := recoverPanics_genuine hC hG dec1 (got ++ [j])
        (by
          intro i hi
          rcases List.mem_append.1 hi with h | h
          · exact hb i h
          · rw [List.mem_singleton] at h; exact h ▸ hj)
      rw [List.map_append, List.map_cons, List.map_nil, h] at h2
      cases h2

theorem place_new (hC : Lawful C) (hG : G.WF) (dec1 : Decoder) (hn : dec1.n = G.n) (got : List Nat)
    (hb : ∀ i ∈ got, i < G.n) (hset : held (G.base / u32 G.n) dec1 = got.map (G.packet C))
    (j : Nat) (hj : j < G.n) (hnot : j ∉ got) :
    (place dec1 (G.packet C j)).recovered
        = (if got.length + 1 ≥ dec1.d then recover dec1 ((got ++ [j]).map (G.packet C)) else []) ∧
    (place dec1 (G.packet C j)).panic = false ∧
    (place dec1 (G.packet C j)).st =
      { dec1 with
        sets := discard G.n (newestOf G.n (G.base / u32 G.n) dec1) (store
          ⟨G.base / u32 G.n, if got.length + 1 ≥ dec1.d then [] else (got ++ [j]).map (G.packet C)⟩
          dec1.sets),
        newest := newestOf G.n (G.base / u32 G.n) dec1 } := by
  obtain ⟨h1, h3⟩ := place_new_st hG dec1 hn got hb hset j hj hnot
  exact ⟨h1, place_panic hC hG dec1 hn got hb hset j hj, h3⟩

/-- `place_new` without the value of the new `newest` -/
theorem place_new_ex (hC : Lawful C) (hG : G.WF) (dec1 : Decoder) (hn : dec1.n = G.n)
    (got : List Nat)
    (hb : ∀ i ∈ got, i < G.n) (hset : held (G.base / u32 G.n) dec1 = got.map (G.packet C))
    (j : Nat) (hj : j < G.n) (hnot : j ∉ got) :
    (place dec1 (G.packet C j)).recovered
        = (if got.length + 1 ≥ dec1.d then recover dec1 ((got ++ [j]).map (G.packet C)) else []) ∧
    (place dec1 (G.packet C j)).panic = false ∧
    ∃ nw, (place dec1 (G.packet C j)).st =
      { dec1 with
        sets := discard G.n nw (store
          ⟨G.base / u32 G.n, if got.length + 1 ≥ dec1.d then [] else (got ++ [j]).map (G.packet C)⟩
          dec1.sets),
        newest := nw } := by
  obtain ⟨h1, h2, h3⟩ := place_new hC hG dec1 hn got hb hset j hj hnot
  exact ⟨h1, h2, _, h3⟩

theorem pairwise_snoc (got : List Nat) (hnd : got.Pairwise (· ≠ ·)) (j : Nat) (hnot : j ∉ got) :
    (got ++ [j]).Pairwise (· ≠ ·) := by
  rw [List.pairwise_append]
  refine ⟨hnd, List.pairwise_singleton _ _, ?_⟩
  intro a ha b hb
  rw [List.mem_singleton] at hb
  subst hb
  intro h; exact hnot (h ▸ ha)

theorem bounded_snoc (got : List Nat) (hb : ∀ i ∈ got, i < G.n) (j : Nat) (hj : j < G.n) :
    ∀ i ∈ got ++ [j], i < G.n := by
  intro i hi
  rcases List.mem_append.1 hi with h | h
  · exact hb i h
  · rw [List.mem_singleton] at h; exact h ▸ hj

/-- **C07 `dec_any_k`, one step.**  The packet that brings a set to `d` packets makes `decode`
    return exactly the zero-padded bodies of the data packets that were never received. -/
theorem decode_completes (hC : Lawful C) (hG : G.WF) (dec : Decoder) (hM : Matches C G dec)
    (got : List Nat) (hnd : got.Pairwise (· ≠ ·)) (hb : ∀ i ∈ got, i < G.n)
    (hset : held (G.base / u32 G.n) dec = got.map (G.packet C))
    (hlen : got.length + 1 = G.d) (j : Nat) (hj : j < G.n) (hnot : j ∉ got) :
    (dec.decode C (G.packet C j)).recovered
      = (List.range G.d).filterMap
          (fun k => if k ∈ got ++ [j] then none else some (pad G.maxLen (G.bodies.getD k []))) ∧
    (dec.decode C (G.packet C j)).panic = false := by
  rw [decode_genuine_eq hG dec hM j hj]
  have hM' := hM.sampled (G.packet C j)
  obtain ⟨h1, h2, _⟩ := place_new hC hG (sampled dec (G.packet C j)) hM'.n got hb hset j hj hnot
  refine ⟨?_, h2⟩
  rw [h1, if_pos (by rw [hM'.d]; omega)]
  exact recover_genuine hC hG _ hM'.d hM'.n hM'.codec _ (pairwise_snoc got hnd j hnot)
    (bounded_snoc got hb j hj) (by simp [hlen])

/-- the two ways the hypothesis `held … = got.map …` of `decode_completes` arises -/
theorem held_of_lookup_some (sid : BitVec 32) (dec : Decoder) (pkts : List Bytes)
    (h : lookup sid dec.sets = some { id := sid, pkts := pkts }) : held sid dec = pkts := by
  simp [held, h]

theorem held_of_lookup_none (sid : BitVec 32) (dec : Decoder) (h : lookup sid dec.sets = none) :
    held sid dec = ([] : List Nat).map (G.packet C) := by
  simp [held, h]

/-- `decode_completes` with the set given by `lookup` -/
theorem decode_completes_lookup (hC : Lawful C) (hG : G.WF) (dec : Decoder) (hM : Matches C G dec)
    (got : List Nat) (hnd : got.Pairwise (· ≠ ·)) (hb : ∀ i ∈ got, i < G.n)
    (hset : lookup (G.base / u32 G.n) dec.sets
      = some { id := G.base / u32 G.n, pkts := got.map (G.packet C) })
    (hlen : got.length + 1 = G.d) (j : Nat) (hj : j < G.n) (hnot : j ∉ got) :
    (dec.decode C (G.packet C j)).recovered
      = (List.range G.d).filterMap
          (fun k => if k ∈ got ++ [j] then none else some (pad G.maxLen (G.bodies.getD k []))) ∧
    (dec.decode C (G.packet C j)).panic = false :=
  decode_completes hC hG dec hM got hnd hb (held_of_lookup_some _ _ _ hset) hlen j hj hnot

/-- `decode_completes` for `d = 1`, first packet of its group -/
theorem decode_completes_first (hC : Lawful C) (hG : G.WF) (dec : Decoder) (hM : Matches C G dec)
    (hset : lookup (G.base / u32 G.n) dec.sets = none) (hd1 : G.d = 1) (j : Nat) (hj : j < G.n) :
    (dec.decode C (G.packet C j)).recovered
      = (List.range G.d).filterMap
          (fun k => if k ∈ [j] then none else some (pad G.maxLen (G.bodies.getD k []))) ∧
    (dec.decode C (G.packet C j)).panic = false :=
  decode_completes hC hG dec hM [] List.Pairwise.nil (fun i hi => by cases hi)
    (held_of_lookup_none _ _ hset) (by rw [hd1]; rfl) j hj (fun h => by cases h)

/-- fewer than `d` packets after this one: nothing is returned (any codec) -/
theorem decode_incomplete_recovered (hG : G.WF) (dec : Decoder) (hM : Matches C G dec)
    (got : List Nat) (hb : ∀ i ∈ got, i < G.n)
    (hset : held (G.base / u32 G.n) dec = got.map (G.packet C))
    (hlen : got.length + 1 < G.d) (j : Nat) (hj : j < G.n) (hnot : j ∉ got) :
    (dec.decode C (G.packet C j)).recovered = [] := by
  rw [decode_genuine_eq hG dec hM j hj]
  have hM' := hM.sampled (G.packet C j)
  obtain ⟨h1, _⟩ := place_new_st hG (sampled dec (G.packet C j)) hM'.n got hb hset j hj hnot
  rw [h1, if_neg (by rw [hM'.d]; omega)]

/-- fewer than `d` packets after this one: nothing is returned -/
theorem decode_incomplete (hC : Lawful C) (hG : G.WF) (dec : Decoder) (hM : Matches C G dec)
    (got : List Nat) (hb : ∀ i ∈ got, i < G.n)
    (hset : held (G.base / u32 G.n) dec = got.map (G.packet C))
    (hlen : got.length + 1 < G.d) (j : Nat) (hj : j < G.n) (hnot : j ∉ got) :
    (dec.decode C (G.packet C j)).recovered = [] ∧
    (dec.decode C (G.packet C j)).panic = false := by
  refine ⟨decode_incomplete_recovered hG dec hM got hb hset hlen j hj hnot, ?_⟩
  rw [decode_genuine_eq hG dec hM j hj]
  exact place_panic hC hG _ (hM.sampled (G.packet C j)).n got hb hset j hj

/-- a packet that is already in the set changes nothing but the auto-tune sample window -/
theorem decode_duplicate (hG : G.WF) (dec : Decoder) (hM : Matches C G dec)
    (got : List Nat) (hb : ∀ i ∈ got, i < G.n)
    (hset : held (G.base / u32 G.n) dec = got.map (G.packet C))
    (j : Nat) (hj : j < G.n) (hmem : j ∈ got) :
    (dec.decode C (G.packet C j)).recovered = [] ∧
    (dec.decode C (G.packet C j)).panic = false ∧
    (dec.decode C (G.packet C j)).st = sampled dec (G.packet C j) ∧
    (dec.decode C (G.packet C j)).st.sets = dec.sets := by
  rw [decode_genuine_eq hG dec hM j hj]
  have hM' := hM.sampled (G.packet C j)
  rw [place_dup hG (sampled dec (G.packet C j)) hM'.n got hb hset j hj hmem]
  exact ⟨rfl, rfl, rfl, rfl⟩

end Step
/-! ## E: soundness over arbitrary histories of genuine packets -/

/-- the genuine groups of a link, by shard id (`base / n`) -/
abbrev Family := BitVec 32 → Option Group

/-- the decoder is in the steady state of its own ratio -/
structure Steady (C : CodecNew) (dec : Decoder) : Prop where
  tune : dec.shouldTune = false
  n_eq : dec.n = dec.d + dec.p
  paws : dec.paws = pawsOf dec.n
  codec : dec.codec = C dec.d dec.p

/-- packet `j` of some well-formed `d/p` group -/
def RatioPkt (C : CodecNew) (d p : Nat) (q : Bytes) : Prop :=
  ∃ (G : Group) (j : Nat), G.WF ∧ G.d = d ∧ G.p = p ∧ j < G.n ∧ q = G.packet C j

/-- packet `j` of a well-formed `d/p` group that is the registered group of its shard id -/
def GenuinePkt (C : CodecNew) (grp : Family) (d p : Nat) (q : Bytes) : Prop :=
  ∃ (G : Group) (j : Nat), grp (G.base / u32 G.n) = some G ∧ G.WF ∧ G.d = d ∧ G.p = p ∧ j < G.n ∧ q = G.packet C j

theorem GenuinePkt.ratio {C : CodecNew} {grp : Family} {d p : Nat} {q : Bytes}
    (h : GenuinePkt C grp d p q) : RatioPkt C d p q := by
  obtain ⟨G, j, _, h2, h3, h4, h5, h6⟩ := h
  exact ⟨G, j, h2, h3, h4, h5, h6⟩

/-- a shard set holds fewer than `d` distinct packets of the registered group of its id -/
def SetGenuine (C : CodecNew) (grp : Family) (d p : Nat) (s : ShardSet) : Prop :=
  ∃ (G : Group) (idxs : List Nat), grp s.id = some G ∧ G.WF ∧ G.d = d ∧ G.p = p ∧ G.base / u32 G.n = s.id ∧
    idxs.Pairwise (· ≠ ·) ∧ (∀ i ∈ idxs, i < G.n) ∧ s.pkts = idxs.map (G.packet C) ∧
    idxs.length < G.d

/-- the invariant of `dec_sound` -/
structure SetsGenuine (C : CodecNew) (grp : Family) (dec : Decoder) : Prop where
  genuine : ∀ s ∈ dec.sets, SetGenuine C grp dec.d dec.p s
  distinct : dec.sets.Pairwise (fun a b => a.id ≠ b.id)

/-- `r` is the zero-padded body of a data packet of `G`, and the size check gives its payload -/
def Original (G : Group) (r : Bytes) : Prop :=
  ∃ k, k < G.d ∧ r = pad G.maxLen (G.bodies.getD k []) ∧ trim r = some (G.payloads.getD k [])

theorem lookup_some (id : BitVec 32) (s : ShardSet) :
    ∀ (l : List ShardSet), lookup id l = some s → s ∈ l ∧ s.id = id := by
  intro l
  induction l with
  | nil => intro h; cases h
  | cons t rest ih =>
    intro h
    simp only [lookup] at h
    split at h
    · rename_i ht
      cases h
      exact ⟨List.mem_cons_self .., by simpa using ht⟩
    · obtain ⟨h1, h2⟩ := ih h
      exact ⟨List.mem_cons_of_mem _ h1, h2⟩

theorem mem_store (s x : ShardSet) : ∀ (l : List ShardSet), x ∈ store s l → x = s ∨ x ∈ l := by
  intro l
  induction l with
  | nil => intro h; simp only [store, List.mem_singleton] at h; exact Or.inl h
  | cons t rest ih =>
    intro h
    simp only [store] at h
    split at h
    · rcases List.mem_cons.1 h with h | h
      · exact Or.inl h
      · exact Or.inr (List.mem_cons_of_mem _ h)
    · rcases List.mem_cons.1 h with h | h
      · exact Or.inr (h ▸ List.mem_cons_self ..)
      · rcases ih h with h | h
        · exact Or.inl h
        · exact Or.inr (List.mem_cons_of_mem _ h)

theorem store_distinct (s : ShardSet) : ∀ (l : List ShardSet),
    l.Pairwise (fun a b => a.id ≠ b.id) → (store s l).Pairwise (fun a b => a.id ≠ b.id) := by
  intro l
  induction l with
  | nil => intro _; simp [store]
  | cons t rest ih =>
    intro h
    rw [List.pairwise_cons] at h
    simp only [store]
    split
    · rename_i ht
      have ht : t.id = s.id := by simpa using ht
      rw [List.pairwise_cons]
      exact ⟨fun x hx => ht ▸ h.1 x hx, h.2⟩
    · rename_i ht
      have ht : t.id ≠ s.id := by simpa using ht
      rw [List.pairwise_cons]
      refine ⟨?_, ih h.2⟩
      intro x hx
      rcases mem_store s x rest hx with hx | hx
      · rw [hx]; exact ht
      · exact h.1 x hx

theorem mem_discard (n : Nat) (nw : BitVec 32) (l : List ShardSet) (x : ShardSet)
    (h : x ∈ discard n nw l) : x ∈ l := by
  unfold Fec.discard at h
  exact (List.mem_filter.1 h).1

theorem discard_distinct (n : Nat) (nw : BitVec 32) (l : List ShardSet)
    (h : l.Pairwise (fun a b => a.id ≠ b.id)) :
    (discard n nw l).Pairwise (fun a b => a.id ≠ b.id) := by
  unfold Fec.discard
  exact h.filter _

theorem place_fields (dec1 : Decoder) (inp : Bytes) :
    (place dec1 inp).st.d = dec1.d ∧ (place dec1 inp).st.p = dec1.p ∧
    (place dec1 inp).st.n = dec1.n ∧ (place dec1 inp).st.paws = dec1.paws ∧
    (place dec1 inp).st.codec = dec1.codec ∧ (place dec1 inp).st.shouldTune = dec1.shouldTune ∧
    (place dec1 inp).st.tune = dec1.tune := by
  unfold place
  simp only []
  split <;> exact ⟨rfl, rfl, rfl, rfl, rfl, rfl, rfl⟩

section Sound
variable {C : CodecNew} {G : Group}

theorem Steady.matches {dec : Decoder} (hS : Steady C dec) (hd : G.d = dec.d) (hp : G.p = dec.p) :
    Matches C G dec :=
  ⟨hd.symm, hp.symm, by rw [hS.n_eq, Group.n, hd, hp], by rw [hS.codec, hd, hp],
   by rw [hS.paws, hS.n_eq, Group.n, hd, hp], hS.tune⟩

/-- **C16 `stable`, one step.**  A genuine packet of the decoder's own ratio never triggers
    tuning: ratio, `paws`, codec and `shouldTune = false` are kept (any codec, any shard sets). -/
theorem decode_fields (hG : G.WF) (dec : Decoder) (hS : Steady C dec) (hd : G.d = dec.d)
    (hp : G.p = dec.p) (j : Nat) (hj : j < G.n) :
    (dec.decode C (G.packet C j)).st.d = dec.d ∧ (dec.decode C (G.packet C j)).st.p = dec.p ∧
    (dec.decode C (G.packet C j)).st.n = dec.n ∧ (dec.decode C (G.packet C j)).st.paws = dec.paws ∧
    (dec.decode C (G.packet C j)).st.codec = dec.codec ∧
    (dec.decode C (G.packet C j)).st.shouldTune = false := by
  rw [decode_genuine_eq hG dec (hS.matches hd hp) j hj]
  obtain ⟨h1, h2, h3, h4, h5, h6, _⟩ := place_fields (sampled dec (G.packet C j)) (G.packet C j)
  exact ⟨h1, h2, h3, h4, h5, h6.trans hS.tune⟩

theorem decode_steady (hG : G.WF) (dec : Decoder) (hS : Steady C dec) (hd : G.d = dec.d)
    (hp : G.p = dec.p) (j : Nat) (hj : j < G.n) : Steady C (dec.decode C (G.packet C j)).st := by
  obtain ⟨h1, h2, h3, h4, h5, h6⟩ := decode_fields hG dec hS hd hp j hj
  exact ⟨h6, by rw [h1, h2, h3]; exact hS.n_eq, by rw [h3, h4]; exact hS.paws,
    by rw [h1, h2, h5]; exact hS.codec⟩

/-- a fresh decoder satisfies everything -/
theorem new_steady (grp : Family) (d p : Nat) (dec : Decoder) (h : Decoder.new C d p = some dec) :
    Steady C dec ∧ SetsGenuine C grp dec ∧ dec.d = d ∧ dec.p = p := by
  unfold Decoder.new at h
  split at h
  · cases h
  · cases h
    exact ⟨⟨rfl, rfl, rfl, rfl⟩, ⟨fun s hs => (by cases hs), List.Pairwise.nil⟩, rfl, rfl⟩

/-- under the invariant, what the decoder holds for a registered group are packets of that group -/
theorem held_genuine (grp : Family) (dec : Decoder) (hI : SetsGenuine C grp dec) (hG : G.WF)
    (hgrp : grp (G.base / u32 G.n) = some G) :
    ∃ got : List Nat, got.Pairwise (· ≠ ·) ∧ (∀ i ∈ got, i < G.n) ∧ got.length < G.d ∧
      held (G.base / u32 G.n) dec = got.map (G.packet C) := by
  unfold held
  cases hl : lookup (G.base / u32 G.n) dec.sets with
  | none => exact ⟨[], List.Pairwise.nil, fun i hi => (by cases hi), hG.d_pos, rfl⟩
  | some s =>
    obtain ⟨hs, hid⟩ := lookup_some _ _ _ hl
    obtain ⟨G', idxs, h1, _, _, _, _, h6, h7, h8, h9⟩ := hI.genuine s hs
    rw [hid, hgrp] at h1
    cases h1
    exact ⟨idxs, h6, h7, h9, h8⟩

/-- under the invariant a genuine packet never hits one of the slice-bounds panics -/
theorem decode_no_panic (hC : Lawful C) (grp : Family) (dec : Decoder) (hS : Steady C dec)
    (hI : SetsGenuine C grp dec) (hG : G.WF) (hgrp : grp (G.base / u32 G.n) = some G)
    (hd : G.d = dec.d) (hp : G.p = dec.p) (j : Nat) (hj : j < G.n) :
    (dec.decode C (G.packet C j)).panic = false := by
  have hM := hS.matches (G := G) hd hp
  rw [decode_genuine_eq hG dec hM j hj]
  have hM' := hM.sampled (G.packet C j)
  have hI' : SetsGenuine C grp (sampled dec (G.packet C j)) := ⟨hI.genuine, hI.distinct⟩
  obtain ⟨got, _, hb, _, hset⟩ := held_genuine grp _ hI' hG hgrp
  exact place_panic hC hG _ hM'.n got hb hset j hj

/-- `decode_fields` and `decode_no_panic` together.  The panic part needs the invariant (and a
    lawful codec): a forged oversized packet left in the set could make the recovery block panic. -/
theorem decode_stable (hC : Lawful C) (grp : Family) (hG : G.WF) (dec : Decoder)
    (hS : Steady C dec) (hI : SetsGenuine C grp dec) (hgrp : grp (G.base / u32 G.n) = some G)
    (hd : G.d = dec.d) (hp : G.p = dec.p) (j : Nat) (hj : j < G.n) :
    (dec.decode C (G.packet C j)).st.d = dec.d ∧ (dec.decode C (G.packet C j)).st.p = dec.p ∧
    (dec.decode C (G.packet C j)).st.n = dec.n ∧ (dec.decode C (G.packet C j)).st.paws = dec.paws ∧
    (dec.decode C (G.packet C j)).st.codec = dec.codec ∧
    (dec.decode C (G.packet C j)).st.shouldTune = false ∧
    (dec.decode C (G.packet C j)).panic = false := by
  obtain ⟨h1, h2, h3, h4, h5, h6⟩ := decode_fields hG dec hS hd hp j hj
  exact ⟨h1, h2, h3, h4, h5, h6, decode_no_panic hC grp dec hS hI hG hgrp hd hp j hj⟩

/-- the invariant is kept by `decode` of any genuine packet: duplicates, late packets after a
    recovery, other groups, discards -/
theorem decode_preserves (grp : Family) (dec : Decoder) (hS : Steady C dec)
    (hI : SetsGenuine C grp dec) (hG : G.WF) (hgrp : grp (G.base / u32 G.n) = some G)
    (hd : G.d = dec.d) (hp : G.p = dec.p) (j : Nat) (hj : j < G.n) :
    SetsGenuine C grp (dec.decode C (G.packet C j)).st := by
  have hM := hS.matches (G := G) hd hp
  rw [decode_genuine_eq hG dec hM j hj]
  have hM' := hM.sampled (G.packet C j)
  have hI' : SetsGenuine C grp (sampled dec (G.packet C j)) := ⟨hI.genuine, hI.distinct⟩
  obtain ⟨got, hnd, hb, hlt, hset⟩ := held_genuine grp _ hI' hG hgrp
  by_cases hmem : j ∈ got
  · rw [place_dup hG _ hM'.n got hb hset j hj hmem]; exact hI'
  · obtain ⟨_, hst⟩ := place_new_st hG _ hM'.n got hb hset j hj hmem
    rw [hst]
    constructor
    · intro s hs
      rcases mem_store _ _ _ (mem_discard _ _ _ _ hs) with hs | hs
      · subst hs
        show SetGenuine C grp dec.d dec.p _
        by_cases hfull : got.length + 1 ≥ (sampled dec (G.packet C j)).d
        · exact ⟨G, [], hgrp, hG, hd, hp, rfl, List.Pairwise.nil, fun i hi => (by cases hi),
            (by simp [hfull]), hG.d_pos⟩
        · exact ⟨G, got ++ [j], hgrp, hG, hd, hp, rfl, pairwise_snoc got hnd j hmem,
            bounded_snoc got hb j hj, (by simp [hfull]),
            (by rw [hM'.d] at hfull; simp only [List.length_append, List.length_singleton]; omega)⟩
      · exact hI.genuine s hs
    · exact discard_distinct _ _ _ (store_distinct _ _ hI.distinct)

theorem mem_recovered (hG : G.WF) (idxs : List Nat) (r : Bytes)
    (h : r ∈ (List.range G.d).filterMap
      (fun k => if k ∈ idxs then none else some (pad G.maxLen (G.bodies.getD k [])))) :
    ∃ k, k < G.d ∧ k ∉ idxs ∧ r = pad G.maxLen (G.bodies.getD k []) ∧
      trim r = some (G.payloads.getD k []) := by
  rw [List.mem_filterMap] at h
  obtain ⟨k, hk, h⟩ := h
  have hk := List.mem_range.1 hk
  by_cases hm : k ∈ idxs
  · simp [hm] at h
  · rw [if_neg hm] at h
    cases h
    have := payload_size hG k hk
    exact ⟨k, hk, hm, rfl, by rw [bodies_getD hG k hk]; exact trim_pad_body _ _ this.1 this.2⟩

/-- **C07 `dec_sound`, one step.**  Whatever the history of genuine packets, every shard that
    `decode` returns is the zero-padded body of a data packet of the group of the packet just
    received — a data packet other than that one —, and the size check yields its exact payload. -/
theorem decode_sound (hC : Lawful C) (grp : Family) (dec : Decoder) (hS : Steady C dec)
    (hI : SetsGenuine C grp dec) (hG : G.WF) (hgrp : grp (G.base / u32 G.n) = some G)
    (hd : G.d = dec.d) (hp : G.p = dec.p) (j : Nat) (hj : j < G.n) :
    ∀ r ∈ (dec.decode C (G.packet C j)).recovered,
      ∃ k, k < G.d ∧ k ≠ j ∧ r = pad G.maxLen (G.bodies.getD k []) ∧
        trim r = some (G.payloads.getD k []) := by
  have hM := hS.matches (G := G) hd hp
  rw [decode_genuine_eq hG dec hM j hj]
  have hM' := hM.sampled (G.packet C j)
  have hI' : SetsGenuine C grp (sampled dec (G.packet C j)) := ⟨hI.genuine, hI.distinct⟩
  obtain ⟨got, hnd, hb, hlt, hset⟩ := held_genuine grp _ hI' hG hgrp
  intro r hr
  by_cases hmem : j ∈ got
  · rw [place_dup hG _ hM'.n got hb hset j hj hmem] at hr; cases hr
  · obtain ⟨hrec, _⟩ := place_new_st hG _ hM'.n got hb hset j hj hmem
    rw [hrec] at hr
    split at hr
    · rename_i hfull
      rw [hM'.d] at hfull
      rw [recover_genuine hC hG _ hM'.d hM'.n hM'.codec _ (pairwise_snoc got hnd j hmem)
        (bounded_snoc got hb j hj) (by simp only [List.length_append, List.length_singleton]; omega)]
        at hr
      obtain ⟨k, h1, h2, h3, h4⟩ := mem_recovered hG _ r hr
      refine ⟨k, h1, ?_, h3, h4⟩
      intro hkj; exact h2 (by simp [hkj])
    · cases hr

/-! ### lists of packets -/

/-- one `decode` call of a run: new state, everything returned so far -/
def feedStep (C : CodecNew) (acc : Decoder × List Bytes) (q : Bytes) : Decoder × List Bytes :=
  ((acc.1.decode C q).st, acc.2 ++ (acc.1.decode C q).recovered)

/-- feed the packets in order; the result is the final state and all returned shards -/
def feed (C : CodecNew) (dec : Decoder) (pkts : List Bytes) : Decoder × List Bytes :=
  pkts.foldl (feedStep C) (dec, [])

theorem feed_aux (hC : Lawful C) (grp : Family) (d p : Nat) (all : List Bytes) (P : Bytes → Prop)
    (hP : ∀ (G : Group) (j : Nat) (r : Bytes), grp (G.base / u32 G.n) = some G → G.WF → G.d = d →
      G.p = p → j < G.n → G.packet C j ∈ all → Original G r → P r) :
    ∀ (pkts : List Bytes) (acc : Decoder × List Bytes), (∀ q ∈ pkts, q ∈ all) →
      (∀ q ∈ pkts, GenuinePkt C grp d p q) → acc.1.d = d → acc.1.p = p →
      Steady C acc.1 → SetsGenuine C grp acc.1 → (∀ r ∈ acc.2, P r) →
      (pkts.foldl (feedStep C) acc).1.d = d ∧ (pkts.foldl (feedStep C) acc).1.p = p ∧
      Steady C (pkts.foldl (feedStep C) acc).1 ∧ SetsGenuine C grp (pkts.foldl (feedStep C) acc).1 ∧
      ∀ r ∈ (pkts.foldl (feedStep C) acc).2, P r := by
  intro pkts
  induction pkts with
  | nil => intro acc _ _ hd hp hS hI hacc; exact ⟨hd, hp, hS, hI, hacc⟩
  | cons q rest ih =>
    intro acc hsub hgen hd hp hS hI hacc
    rw [List.foldl_cons]
    have hin := hsub _ (List.mem_cons_self ..)
    obtain ⟨G, j, hgrp, hG, hGd, hGp, hj, rfl⟩ := hgen _ (List.mem_cons_self ..)
    have hd' : G.d = acc.1.d := hGd.trans hd.symm
    have hp' : G.p = acc.1.p := hGp.trans hp.symm
    have hst := decode_fields hG acc.1 hS hd' hp' j hj
    apply ih
    · exact fun q hq => hsub q (List.mem_cons_of_mem _ hq)
    · exact fun q hq => hgen q (List.mem_cons_of_mem _ hq)
    · exact hst.1.trans hd
    · exact hst.2.1.trans hp
    · exact decode_steady hG acc.1 hS hd' hp' j hj
    · exact decode_preserves grp acc.1 hS hI hG hgrp hd' hp' j hj
    · intro r hr
      rcases List.mem_append.1 hr with hr | hr
      · exact hacc r hr
      · obtain ⟨k, h1, _, h3, h4⟩ := decode_sound hC grp acc.1 hS hI hG hgrp hd' hp' j hj r hr
        exact hP G j r hgrp hG hGd hGp hj hin ⟨k, h1, h3, h4⟩

/-- **C07 `dec_sound`.**  Feed a decoder that satisfies the invariant any list of genuine `d/p`
    packets — any order, duplicates, any interleaving of groups.  The invariant holds at the end
    and every shard ever returned is the zero-padded body of a data packet of a registered
    genuine group of which a packet was fed, and the size check yields the exact payload. -/
theorem dec_sound_list (hC : Lawful C) (grp : Family) (dec : Decoder) (hS : Steady C dec)
    (hI : SetsGenuine C grp dec) (pkts : List Bytes)
    (hgen : ∀ q ∈ pkts, GenuinePkt C grp dec.d dec.p q) :
    Steady C (feed C dec pkts).1 ∧ SetsGenuine C grp (feed C dec pkts).1 ∧
    ∀ r ∈ (feed C dec pkts).2,
      ∃ G : Group, grp (G.base / u32 G.n) = some G ∧ G.WF ∧ G.d = dec.d ∧ G.p = dec.p ∧
        (∃ j, j < G.n ∧ G.packet C j ∈ pkts) ∧ Original G r := by
  have := feed_aux hC grp dec.d dec.p pkts
    (fun r => ∃ G : Group, grp (G.base / u32 G.n) = some G ∧ G.WF ∧ G.d = dec.d ∧ G.p = dec.p ∧
      (∃ j, j < G.n ∧ G.packet C j ∈ pkts) ∧ Original G r)
    (fun G j r h1 h2 h3 h4 h5 h6 h7 => ⟨G, h1, h2, h3, h4, ⟨j, h5, h6⟩, h7⟩)
    pkts (dec, []) (fun _ h => h) hgen rfl rfl hS hI (fun r hr => by cases hr)
  exact ⟨this.2.2.1, this.2.2.2.1, this.2.2.2.2⟩

/-- `dec_sound_list` from a fresh decoder -/
theorem dec_sound_new (hC : Lawful C) (grp : Family) (d p : Nat) (dec : Decoder)
    (hnew : Decoder.new C d p = some dec) (pkts : List Bytes)
    (hgen : ∀ q ∈ pkts, GenuinePkt C grp d p q) :
    Steady C (feed C dec pkts).1 ∧ SetsGenuine C grp (feed C dec pkts).1 ∧
    ∀ r ∈ (feed C dec pkts).2,
      ∃ G : Group, grp (G.base / u32 G.n) = some G ∧ G.WF ∧ G.d = d ∧ G.p = p ∧
        (∃ j, j < G.n ∧ G.packet C j ∈ pkts) ∧ Original G r := by
  obtain ⟨hS, hI, hd, hp⟩ := new_steady (C := C) grp d p dec hnew
  subst hd hp
  exact dec_sound_list hC grp dec hS hI pkts hgen

/-- **C16 `stable`.**  Genuine packets of the decoder's own ratio never make it tune. -/
theorem stable_list (dec : Decoder) (hS : Steady C dec) :
    ∀ (pkts : List Bytes), (∀ q ∈ pkts, RatioPkt C dec.d dec.p q) →
    Steady C (pkts.foldl (fun st q => (st.decode C q).st) dec) ∧
    (pkts.foldl (fun st q => (st.decode C q).st) dec).d = dec.d ∧
    (pkts.foldl (fun st q => (st.decode C q).st) dec).p = dec.p ∧
    (pkts.foldl (fun st q => (st.decode C q).st) dec).shouldTune = false := by
  intro pkts
  induction pkts generalizing dec with
  | nil => intro _; exact ⟨hS, rfl, rfl, hS.tune⟩
  | cons q rest ih =>
    intro hgen
    rw [List.foldl_cons]
    obtain ⟨G, j, hG, hGd, hGp, hj, rfl⟩ := hgen _ (List.mem_cons_self ..)
    have hst := decode_fields hG dec hS hGd hGp j hj
    have := ih (dec.decode C (G.packet C j)).st (decode_steady hG dec hS hGd hGp j hj)
      (by rw [hst.1, hst.2.1]; exact fun q hq => hgen q (List.mem_cons_of_mem _ hq))
    rw [hst.1, hst.2.1] at this
    exact this

/-- the state component of `feed` is the plain fold of `decode` -/
theorem feed_fst (dec : Decoder) (pkts : List Bytes) :
    (feed C dec pkts).1 = pkts.foldl (fun st q => (st.decode C q).st) dec := by
  unfold feed
  generalize ([] : List Bytes) = acc
  induction pkts generalizing dec acc with
  | nil => rfl
  | cons q rest ih => simp only [List.foldl_cons, feedStep]; exact ih _ _

/-! ### a fresh decoder recovers a group anywhere in the id space (regression for finding D13) -/

theorem lookup_store (id : BitVec 32) (pk : List Bytes) :
    ∀ (l : List ShardSet), lookup id (store ⟨id, pk⟩ l) = some ⟨id, pk⟩ := by
  intro l
  induction l with
  | nil => simp [store, lookup]
  | cons t rest ih =>
    simp only [store]
    cases ht : (t.id == id) with
    | true => simp only [if_true, lookup, beq_self_eq_true]
    | false => simp only [Bool.false_eq_true, if_false, lookup, ht]; exact ih

theorem lookup_filter (id : BitVec 32) (p : ShardSet → Bool) (hp : ∀ s, s.id = id → p s = true) :
    ∀ (l : List ShardSet), lookup id (l.filter p) = lookup id l := by
  intro l
  induction l with
  | nil => rfl
  | cons t rest ih =>
    cases ht : (t.id == id) with
    | true =>
      have hpt := hp t (by simpa using ht)
      simp only [List.filter_cons, hpt, if_true, lookup, ht]
    | false =>
      cases hpt : p t with
      | true => simp only [List.filter_cons, hpt, if_true, lookup, ht, Bool.false_eq_true, if_false]; exact ih
      | false => simp only [List.filter_cons, hpt, Bool.false_eq_true, if_false, lookup, ht]; exact ih

theorem itimediff_self (x : BitVec 32) : itimediff x x = 0 := by
  simp [itimediff]

/-- `discardShards` never drops the set of the newest shard id itself -/
theorem lookup_discard_self (n : Nat) (sid : BitVec 32) (l : List ShardSet) :
    lookup sid (discard n sid l) = lookup sid l := by
  unfold Fec.discard
  apply lookup_filter
  intro s hs
  rw [hs, itimediff_self]
  have h1 : decide ((0 : Int) > ((maxShardSets * n : Nat) : Int)) = false := by
    rw [decide_eq_false_iff_not]; omega
  have h2 : decide ((0 : Int) < 0) = false := by decide
  rw [h1, h2]
  rfl

/-- a further packet of the group the decoder is anchored at, the set staying incomplete: the
    set grows by that packet and the decoder stays anchored -/
theorem decode_anchored_step (hG : G.WF) (dec : Decoder) (hM : Matches C G dec)
    (got : List Nat) (hb : ∀ i ∈ got, i < G.n)
    (hset : held (G.base / u32 G.n) dec = got.map (G.packet C))
    (hbase : baseOf (G.base / u32 G.n) dec = G.base / u32 G.n)
    (hlen : got.length + 1 < G.d) (j : Nat) (hj : j < G.n) (hnot : j ∉ got) :
    Matches C G (dec.decode C (G.packet C j)).st ∧
    held (G.base / u32 G.n) (dec.decode C (G.packet C j)).st = (got ++ [j]).map (G.packet C) ∧
    (dec.decode C (G.packet C j)).st.newest = G.base / u32 G.n ∧
    baseOf (G.base / u32 G.n) (dec.decode C (G.packet C j)).st = G.base / u32 G.n ∧
    (dec.decode C (G.packet C j)).recovered = [] := by
  rw [decode_genuine_eq hG dec hM j hj]
  have hM' := hM.sampled (G.packet C j)
  obtain ⟨h1, h3⟩ := place_new_st hG (sampled dec (G.packet C j)) hM'.n got hb hset j hj hnot
  have hnw : newestOf G.n (G.base / u32 G.n) (sampled dec (G.packet C j)) = G.base / u32 G.n := by
    have hb' : baseOf (G.base / u32 G.n) (sampled dec (G.packet C j)) = G.base / u32 G.n := hbase
    unfold newestOf
    rw [hb']
    simp only [ite_self]
  have hnf : ¬ (got.length + 1 ≥ (sampled dec (G.packet C j)).d) := by rw [hM'.d]; omega
  rw [hnw, if_neg hnf] at h3
  rw [if_neg hnf] at h1
  rw [h3]
  refine ⟨⟨hM'.d, hM'.p, hM'.n, hM'.codec, hM'.paws, hM'.tune⟩, ?_, rfl, ?_, h1⟩
  · unfold held
    simp only []
    rw [lookup_discard_self, lookup_store]
    rfl
  · unfold baseOf
    simp only [ite_self]

theorem feed_group_aux (hC : Lawful C) (hG : G.WF) :
    ∀ (rest pre : List Nat) (st : Decoder) (acc : List Bytes), rest ≠ [] →
      (pre ++ rest).Pairwise (· ≠ ·) → (∀ i ∈ pre ++ rest, i < G.n) → (pre ++ rest).length = G.d →
      Matches C G st → held (G.base / u32 G.n) st = pre.map (G.packet C) →
      baseOf (G.base / u32 G.n) st = G.base / u32 G.n →
      ((rest.map (G.packet C)).foldl (feedStep C) (st, acc)).2
        = acc ++ (List.range G.d).filterMap
            (fun k => if k ∈ pre ++ rest then none else some (pad G.maxLen (G.bodies.getD k []))) := by
  intro rest
  induction rest with
  | nil => intro _ _ _ h; exact absurd rfl h
  | cons j tl ih =>
    intro pre st acc _ hnd hb hlen hM hset hbase
    have hpw := List.pairwise_append.1 hnd
    have hjn : j ∉ pre := fun h => hpw.2.2 j h j (List.mem_cons_self ..) rfl
    have hbpre : ∀ i ∈ pre, i < G.n := fun i hi => hb i (List.mem_append_left _ hi)
    have hj : j < G.n := hb j (List.mem_append_right _ (List.mem_cons_self ..))
    cases tl with
    | nil =>
      have hl : pre.length + 1 = G.d := by
        simpa only [List.length_append, List.length_singleton] using hlen
      simp only [List.map_cons, List.map_nil, List.foldl_cons, List.foldl_nil, feedStep]
      rw [(decode_completes hC hG st hM pre hpw.1 hbpre hset hl j hj hjn).1]
    | cons j' tl' =>
      have hl : pre.length + 1 < G.d := by
        simp only [List.length_append, List.length_cons] at hlen; omega
      obtain ⟨s1, s2, _, s4, s5⟩ := decode_anchored_step hG st hM pre hbpre hset hbase hl j hj hjn
      have e : (pre ++ [j]) ++ (j' :: tl') = pre ++ j :: j' :: tl' := by simp
      have := ih (pre ++ [j]) (st.decode C (G.packet C j)).st acc (List.cons_ne_nil _ _)
        (by rw [e]; exact hnd) (by rw [e]; exact hb) (by rw [e]; exact hlen) s1 s2 s4
      rw [e] at this
      rw [List.map_cons, List.foldl_cons]
      simp only [feedStep, s5, List.append_nil]
      exact this

/-- **Regression for finding D13.**  A fresh decoder fed ANY `d` distinct packets of a genuine
    group — wherever the group lies in the id space, ids ≥ 2^31 included — returns exactly the
    zero-padded bodies of the absent data packets. -/
theorem fresh_decoder_anywhere (hC : Lawful C) (hG : G.WF) (dec : Decoder)
    (hnew : Decoder.new C G.d G.p = some dec)
    (idxs : List Nat) (hnd : idxs.Pairwise (· ≠ ·)) (hb : ∀ i ∈ idxs, i < G.n)
    (hlen : idxs.length = G.d) :
    (feed C dec (idxs.map (G.packet C))).2
      = (List.range G.d).filterMap
          (fun k => if k ∈ idxs then none else some (pad G.maxLen (G.bodies.getD k []))) := by
  have hne : idxs ≠ [] := by
    intro h; rw [h] at hlen; have := hG.d_pos; simp at hlen; omega
  unfold Decoder.new at hnew
  split at hnew
  · cases hnew
  · cases hnew
    have := feed_group_aux hC hG idxs [] _ [] hne hnd hb hlen
      (⟨rfl, rfl, rfl, rfl, rfl, rfl⟩ : Matches C G
        { d := G.d, p := G.p, n := G.d + G.p, paws := pawsOf (G.d + G.p), newest := 0,
          shouldTune := false, tune := Tune.init, sets := [], codec := C G.d G.p }) rfl rfl
    unfold feed
    simpa only [List.nil_append] using this

theorem fresh_decoder_anywhere_trim (hC : Lawful C) (hG : G.WF) (dec : Decoder)
    (hnew : Decoder.new C G.d G.p = some dec)
    (idxs : List Nat) (hnd : idxs.Pairwise (· ≠ ·)) (hb : ∀ i ∈ idxs, i < G.n)
    (hlen : idxs.length = G.d) :
    ((feed C dec (idxs.map (G.packet C))).2).map trim
      = (List.range G.d).filterMap
          (fun k => if k ∈ idxs then none else some (some (G.payloads.getD k []))) := by
  rw [fresh_decoder_anywhere hC hG dec hnew idxs hnd hb hlen, map_trim_recovered hG]

end Sound

/-! ## the hypotheses are satisfiable: a concrete group -/

namespace Example

/-- 2 data + 1 parity, payloads `[1,2,3]` and `[4]`, ids 0, 1, 2 -/
def exG : Group := { d := 2, p := 1, base := 0, payloads := [[1, 2, 3], [4]] }

theorem exG_wf : exG.WF :=
  ⟨by decide, by decide, by decide, by decide, by decide, by decide, by decide⟩

/-- a 2/1 decoder holding `sets` -/
def exDec (C : CodecNew) (sets : List ShardSet) : Decoder :=
  { d := 2, p := 1, n := 3, paws := pawsOf 3, newest := 0, shouldTune := false,
    tune := Tune.init, sets := sets, codec := C 2 1 }

theorem exMatches (C : CodecNew) (sets : List ShardSet) : Matches C exG (exDec C sets) :=
  ⟨rfl, rfl, rfl, rfl, rfl, rfl⟩

example : exG.maxLen = 5 := by decide

-- A
example (C : CodecNew) : posOf 3 (exG.packet C 2) = 2 := posOf_packet exG_wf 2 (by decide)
example (C : CodecNew) : flag (exG.packet C 2) = typeParity := flag_packet 2

-- B
example : trim (pad 5 (bodyOf [4])) = some [4] := trim_pad_body [4] 5 (by decide) (by decide)

-- C: parity packet and data packet 0 give data packet 1
example (C : CodecNew) (hC : Lawful C) :
    recover (exDec C []) ([2, 0].map (exG.packet C)) = [[3, 0, 4, 0, 0]] := by
  rw [recover_genuine hC exG_wf (exDec C []) rfl rfl rfl [2, 0] (by decide) (by decide) rfl]
  decide

example (C : CodecNew) (hC : Lawful C) :
    (recover (exDec C []) ([2, 0].map (exG.packet C))).map trim = [some [4]] := by
  rw [recover_genuine_trim hC exG_wf (exDec C []) rfl rfl rfl [2, 0] (by decide) (by decide) rfl]
  decide

-- D: the set holds the parity packet; data packet 0 completes it, a second parity does nothing
example (C : CodecNew) (hC : Lawful C) :
    ((exDec C [⟨0, [exG.packet C 2]⟩]).decode C (exG.packet C 0)).recovered = [[3, 0, 4, 0, 0]] := by
  rw [(decode_completes hC exG_wf (exDec C [⟨0, [exG.packet C 2]⟩]) (exMatches C _) [2]
    (by decide) (by decide) rfl rfl 0 (by decide) (by decide)).1]
  decide

example (C : CodecNew) :
    ((exDec C [⟨0, [exG.packet C 2]⟩]).decode C (exG.packet C 2)).recovered = [] :=
  (decode_duplicate exG_wf (exDec C [⟨0, [exG.packet C 2]⟩]) (exMatches C _) [2]
    (by decide) rfl 2 (by decide) (by decide)).1

example (C : CodecNew) (hC : Lawful C) : ((exDec C []).decode C (exG.packet C 1)).recovered = [] :=
  (decode_incomplete hC exG_wf (exDec C []) (exMatches C _) [] (by decide) rfl (by decide) 1
    (by decide) (by decide)).1

-- E: a link whose only group is `exG`
def exGrp : Family := fun id => if id = 0 then some exG else none

theorem exGenuine (C : CodecNew) (j : Nat) (hj : j < 3) :
    GenuinePkt C exGrp 2 1 (exG.packet C j) := by
  refine ⟨exG, j, ?_, exG_wf, rfl, rfl, hj, rfl⟩
  show (if exG.base / u32 exG.n = 0 then some exG else none) = some exG
  rw [if_pos (by decide)]

example (C : CodecNew) (hC : Lawful C) (dec : Decoder) (h : Decoder.new C 2 1 = some dec) :
    ∀ r ∈ (feed C dec [exG.packet C 2, exG.packet C 2, exG.packet C 0, exG.packet C 1]).2,
      r = [5, 0, 1, 2, 3] ∨ r = [3, 0, 4, 0, 0] := by
  intro r hr
  obtain ⟨_, _, hsound⟩ := dec_sound_new hC exGrp 2 1 dec h
    [exG.packet C 2, exG.packet C 2, exG.packet C 0, exG.packet C 1] (by
      intro q hq
      simp only [List.mem_cons, List.mem_nil_iff, or_false] at hq
      rcases hq with rfl | rfl | rfl | rfl <;> exact exGenuine C _ (by decide))
  obtain ⟨G, hg, _, _, _, _, k, hk, hrk, _⟩ := hsound r hr
  have hGe : G = exG := by
    unfold exGrp at hg
    split at hg
    · cases hg; rfl
    · cases hg
  subst hGe
  have hk2 : k = 0 ∨ k = 1 := by
    have : exG.d = 2 := rfl
    omega
  rcases hk2 with rfl | rfl
  · left; rw [hrk]; decide
  · right; rw [hrk]; decide

example (C : CodecNew) (dec : Decoder) (h : Decoder.new C 2 1 = some dec) :
    ([exG.packet C 2, exG.packet C 0, exG.packet C 0].foldl (fun st q => (st.decode C q).st)
      dec).shouldTune = false := by
  obtain ⟨hS, _, hd, hp⟩ := new_steady (C := C) exGrp 2 1 dec h
  refine (stable_list dec hS _ ?_).2.2.2
  intro q hq
  rw [hd, hp]
  simp only [List.mem_cons, List.mem_nil_iff, or_false] at hq
  rcases hq with rfl | rfl | rfl <;> exact (exGenuine C _ (by decide)).ratio

-- regression D13: the same group at ids 3000000000 … 3000000002 (≥ 2^31), fresh decoder
def exHigh : Group := { d := 2, p := 1, base := 3000000000, payloads := [[1, 2, 3], [4]] }

theorem exHigh_wf : exHigh.WF :=
  ⟨by decide, by decide, by decide, by decide, by decide, by decide, by decide⟩

example (C : CodecNew) (hC : Lawful C) (dec : Decoder) (h : Decoder.new C 2 1 = some dec) :
    (feed C dec ([2, 1].map (exHigh.packet C))).2 = [[5, 0, 1, 2, 3]] := by
  rw [fresh_decoder_anywhere hC exHigh_wf dec h [2, 1] (by decide) (by decide) rfl]
  decide

example (C : CodecNew) (hC : Lawful C) (dec : Decoder) (h : Decoder.new C 2 1 = some dec) :
    ((feed C dec ([2, 1].map (exHigh.packet C))).2).map trim = [some [1, 2, 3]] := by
  rw [fresh_decoder_anywhere_trim hC exHigh_wf dec h [2, 1] (by decide) (by decide) rfl]
  decide

end Example

end KcpVerif.Lemmas.FecDec
