/-
Phase 5 of `flush` (`xmitOne`) as a decision (`cause`) followed by a re-timing of the segment and an
emission into the output buffer; the liveWire stream of a flush buffer.  Core Lean only.
Used by C02 (retx_armed, fastack_cleared), C18 (segment_rto_lower, resend_causes).
-/
import KcpVerif.Model.Kcp

namespace KcpVerif.Live
open KcpVerif KcpVerif.Gen KcpVerif.Kcp

/-- why phase 5 (re)transmits an un-acked segment; `none` = it does not -/
inductive Cause where
  | initial | fast | early | timeout | none
deriving DecidableEq, Repr

/-- the branch taken by `xmitOne` for an un-acked segment: a transcription of its `if` cascade -/
def cause (now resent : U32) (newSegs : Nat) (s : Seg) : Cause :=
  if s.xmit = 0 then .initial
  else if s.fastack ≥ resent ∧ s.fastack ≠ 0xFFFFFFFF#32 then .fast
  else if s.fastack > 0 ∧ s.fastack ≠ 0xFFFFFFFF#32 ∧ newSegs = 0 then .early
  else if itimediff now s.resendts ≥ 0 then .timeout
  else .none

/-- `rto`, `resendts`, `fastack` written by the branch -/
def retimed (now rx_rto nodelay : U32) (c : Cause) (s : Seg) : Seg :=
  match c with
  | .initial => { s with rto := rx_rto, resendts := now + rx_rto }
  | .fast => { s with fastack := 0xFFFFFFFF#32, rto := rx_rto, resendts := now + rx_rto }
  | .early => { s with fastack := 0xFFFFFFFF#32, rto := rx_rto, resendts := now + rx_rto }
  | .timeout =>
    { s with rto := (if nodelay = 0 then s.rto + rx_rto else s.rto + rx_rto / 2), fastack := 0,
             resendts := now + (if nodelay = 0 then s.rto + rx_rto else s.rto + rx_rto / 2) }
  | .none => s

/-- the `needsend` block: `xmit++`, `ts`, `wnd`, `una` -/
def stamped (now : U32) (wnd : BitVec 16) (una : U32) (s : Seg) : Seg :=
  { s with xmit := s.xmit + 1, ts := now, wnd := wnd, una := una }

/-- the segment as `xmitOne` leaves it in `snd_buf` -/
def segAfter (now resent : U32) (wnd : BitVec 16) (una : U32) (newSegs : Nat) (rx_rto nodelay : U32) (s : Seg) : Seg :=
  if s.acked then s
  else if cause now resent newSegs s = .none then s
  else stamped now wnd una (retimed now rx_rto nodelay (cause now resent newSegs s) s)

/-- writing one segment (header + data) into the flush buffer, and the dead-link flag -/
def emit (f : Fl) (s2 : Seg) : Fl :=
  let f1 := ((f.makeSpace (IKCP_OVERHEAD + s2.data.length)).putHdr
    (encodeHdr s2.conv s2.cmd s2.frg s2.wnd s2.ts s2.sn s2.una s2.data.length)).putData s2.data
  if s2.xmit ≥ f1.k.dead_link then { f1 with k := { f1.k with state := 0xFFFFFFFF#32 } } else f1

/-- the `nextUpdate` computation -/
def nextUpd (now : U32) (s2 : Seg) (next : U32) : U32 :=
  if itimediff s2.resendts now > 0 ∧ BitVec.ofInt 32 (itimediff s2.resendts now) < next
  then BitVec.ofInt 32 (itimediff s2.resendts now) else next

/-- `xmitOne` in decision form -/
theorem xmitOne_eq (now resent : U32) (wnd : BitVec 16) (una : U32) (newSegs : Nat) (st : XmitSt) (s : Seg) :
    xmitOne now resent wnd una newSegs st s =
      if s.acked then { st with done := st.done ++ [s] } else
      { st with
        change := st.change + (if cause now resent newSegs s = .fast ∨ cause now resent newSegs s = .early then 1 else 0)
        lost := st.lost + (if cause now resent newSegs s = .timeout then 1 else 0)
        f := if cause now resent newSegs s = .none then st.f
             else emit st.f (segAfter now resent wnd una newSegs st.f.k.rx_rto st.f.k.nodelay s)
        done := st.done ++ [segAfter now resent wnd una newSegs st.f.k.rx_rto st.f.k.nodelay s]
        next := nextUpd now (segAfter now resent wnd una newSegs st.f.k.rx_rto st.f.k.nodelay s) st.next } := by
  unfold xmitOne
  by_cases ha : s.acked = true
  · simp only [if_pos ha]
  · simp only [if_neg ha, segAfter]
    unfold cause
    by_cases h1 : s.xmit = 0
    · simp only [if_pos h1, reduceCtorEq, ↓reduceIte, or_self, Nat.add_zero]; rfl
    · simp only [if_neg h1]
      by_cases h2 : s.fastack ≥ resent ∧ s.fastack ≠ 0xFFFFFFFF#32
      · simp only [if_pos h2, reduceCtorEq, ↓reduceIte, or_false]; rfl
      · simp only [if_neg h2]
        by_cases h3 : s.fastack > 0 ∧ s.fastack ≠ 0xFFFFFFFF#32 ∧ newSegs = 0
        · simp only [if_pos h3, reduceCtorEq, ↓reduceIte, or_true]; rfl
        · simp only [if_neg h3]
          by_cases h4 : itimediff now s.resendts ≥ 0
          · simp only [if_pos h4, reduceCtorEq, ↓reduceIte, or_self, Nat.add_zero]; rfl
          · simp only [if_neg h4, reduceCtorEq, ↓reduceIte, or_self, Nat.add_zero]; rfl

/-! ### the liveWire stream of a flush buffer -/

/-- everything handed to `output` so far followed by what is still in `buffer` -/
def _root_.KcpVerif.Kcp.Fl.liveWire (f : Fl) : Bytes := f.outs.flatten ++ f.cur

/-- `g` continues `f`: same connection fields except possibly `state`, the liveWire stream only grew,
a panic stays -/
structure Fl.Ext (f g : Fl) : Prop where
  k     : g.k = { f.k with state := g.k.state }
  liveWire  : ∃ t, g.liveWire = f.liveWire ++ t
  panic : f.panic = true → g.panic = true

theorem Fl.Ext.refl (f : Fl) : Fl.Ext f f := ⟨rfl, ⟨[], by simp⟩, id⟩

theorem Fl.Ext.trans {f g h : Fl} (a : Fl.Ext f g) (b : Fl.Ext g h) : Fl.Ext f h := by
  refine ⟨?_, ?_, fun p => b.panic (a.panic p)⟩
  · rw [b.k, a.k]
  · obtain ⟨t, ht⟩ := a.liveWire
    obtain ⟨u, hu⟩ := b.liveWire
    exact ⟨t ++ u, by rw [hu, ht, List.append_assoc]⟩

theorem Fl.makeSpace_k (f : Fl) (n : Nat) : (f.makeSpace n).k = f.k := by
  unfold Fl.makeSpace; split <;> rfl

theorem Fl.makeSpace_panic (f : Fl) (n : Nat) : (f.makeSpace n).panic = f.panic := by
  unfold Fl.makeSpace; split <;> rfl

theorem Fl.makeSpace_wire (f : Fl) (n : Nat) : (f.makeSpace n).liveWire = f.liveWire := by
  unfold Fl.makeSpace Fl.liveWire; split <;> simp

theorem Fl.putHdr_k (f : Fl) (h : Bytes) : (f.putHdr h).k = f.k := by
  unfold Fl.putHdr; split <;> rfl

theorem Fl.putData_k (f : Fl) (h : Bytes) : (f.putData h).k = f.k := by
  unfold Fl.putData; split <;> rfl

/-- `putHdr` either appends the header to the liveWire stream or panics -/
theorem Fl.putHdr_wire (f : Fl) (h : Bytes) (hp : (f.putHdr h).panic = false) :
    (f.putHdr h).liveWire = f.liveWire ++ h ∧ f.panic = false := by
  unfold Fl.putHdr at hp ⊢
  split
  · rename_i hc; rw [if_pos hc] at hp; simp at hp
  · rename_i hc; rw [if_neg hc] at hp; exact ⟨by simp [Fl.liveWire], hp⟩

theorem Fl.putData_wire (f : Fl) (h : Bytes) (hp : (f.putData h).panic = false) :
    (f.putData h).liveWire = f.liveWire ++ h ∧ f.panic = false := by
  unfold Fl.putData at hp ⊢
  split
  · rename_i hc; rw [if_pos hc] at hp; simp at hp
  · rename_i hc; rw [if_neg hc] at hp; exact ⟨by simp [Fl.liveWire], hp⟩

theorem Fl.makeSpace_ext (f : Fl) (n : Nat) : Fl.Ext f (f.makeSpace n) :=
  ⟨by rw [Fl.makeSpace_k], ⟨[], by rw [Fl.makeSpace_wire]; simp⟩, by rw [Fl.makeSpace_panic]; exact id⟩

theorem Fl.putHdr_ext (f : Fl) (h : Bytes) : Fl.Ext f (f.putHdr h) := by
  unfold Fl.putHdr
  split
  · exact ⟨rfl, ⟨[], by simp [Fl.liveWire]⟩, fun _ => rfl⟩
  · exact ⟨rfl, ⟨h, by simp [Fl.liveWire]⟩, id⟩

theorem Fl.putData_ext (f : Fl) (h : Bytes) : Fl.Ext f (f.putData h) := by
  unfold Fl.putData
  split
  · exact ⟨rfl, ⟨[], by simp [Fl.liveWire]⟩, fun _ => rfl⟩
  · exact ⟨rfl, ⟨h, by simp [Fl.liveWire]⟩, id⟩

/-- the bytes of one segment on the liveWire -/
def segBytes (s : Seg) : Bytes :=
  encodeHdr s.conv s.cmd s.frg s.wnd s.ts s.sn s.una s.data.length ++ s.data

theorem emit_ext (f : Fl) (s : Seg) : Fl.Ext f (emit f s) := by
  have h1 := ((Fl.makeSpace_ext f (IKCP_OVERHEAD + s.data.length)).trans
    (Fl.putHdr_ext _ (encodeHdr s.conv s.cmd s.frg s.wnd s.ts s.sn s.una s.data.length))).trans
    (Fl.putData_ext _ s.data)
  unfold emit
  simp only []
  split
  · exact ⟨by rw [h1.k], h1.liveWire, h1.panic⟩
  · exact h1

/-- a segment emitted without panic is on the liveWire, header then data -/
theorem emit_wire (f : Fl) (s : Seg) (hp : (emit f s).panic = false) :
    (emit f s).liveWire = f.liveWire ++ segBytes s ∧ f.panic = false := by
  have hp' : (((f.makeSpace (IKCP_OVERHEAD + s.data.length)).putHdr
      (encodeHdr s.conv s.cmd s.frg s.wnd s.ts s.sn s.una s.data.length)).putData s.data).panic = false := by
    unfold emit at hp; simp only [] at hp; split at hp <;> exact hp
  have h3 := Fl.putData_wire _ _ hp'
  have h2 := Fl.putHdr_wire _ _ h3.2
  have hw : (emit f s).liveWire = (((f.makeSpace (IKCP_OVERHEAD + s.data.length)).putHdr
      (encodeHdr s.conv s.cmd s.frg s.wnd s.ts s.sn s.una s.data.length)).putData s.data).liveWire := by
    unfold emit; simp only []; split <;> rfl
  refine ⟨?_, by rw [← Fl.makeSpace_panic]; exact h2.2⟩
  rw [hw, h3.1, h2.1, Fl.makeSpace_wire, segBytes, List.append_assoc]

/-! ### one step and the whole loop of phase 5 -/

section
variable (now resent : U32) (wnd : BitVec 16) (una : U32) (newSegs : Nat)

theorem segAfter_acked (rx_rto nodelay : U32) (s : Seg) :
    (segAfter now resent wnd una newSegs rx_rto nodelay s).acked = s.acked := by
  unfold segAfter
  split
  · rfl
  · split
    · rfl
    · unfold stamped retimed; split <;> rfl

theorem xmitOne_done (st : XmitSt) (s : Seg) :
    (xmitOne now resent wnd una newSegs st s).done =
      st.done ++ [segAfter now resent wnd una newSegs st.f.k.rx_rto st.f.k.nodelay s] := by
  rw [xmitOne_eq]
  by_cases ha : s.acked = true
  · simp only [if_pos ha, segAfter]
  · simp only [if_neg ha]

theorem xmitOne_f (st : XmitSt) (s : Seg) :
    (xmitOne now resent wnd una newSegs st s).f =
      if s.acked = true ∨ cause now resent newSegs s = .none then st.f
      else emit st.f (segAfter now resent wnd una newSegs st.f.k.rx_rto st.f.k.nodelay s) := by
  rw [xmitOne_eq]
  by_cases ha : s.acked = true
  · rw [if_pos ha, if_pos (Or.inl ha)]
  · rw [if_neg ha]
    by_cases hc : cause now resent newSegs s = .none
    · rw [if_pos (Or.inr hc)]; simp only [if_pos hc]
    · rw [if_neg (fun h : s.acked = true ∨ cause now resent newSegs s = Cause.none => h.elim ha hc)]
      simp only [if_neg hc]

theorem xmitOne_ext (st : XmitSt) (s : Seg) : Fl.Ext st.f (xmitOne now resent wnd una newSegs st s).f := by
  rw [xmitOne_f]
  split
  · exact Fl.Ext.refl _
  · exact emit_ext _ _

theorem nextUpd_le (s2 : Seg) (next : U32) : nextUpd now s2 next ≤ next := by
  unfold nextUpd
  split
  · rename_i h; exact BitVec.le_of_lt h.2
  · exact BitVec.le_refl _

theorem nextUpd_near (s2 : Seg) (next : U32) (h : itimediff s2.resendts now > 0) :
    nextUpd now s2 next ≤ BitVec.ofInt 32 (itimediff s2.resendts now) := by
  unfold nextUpd
  by_cases h2 : BitVec.ofInt 32 (itimediff s2.resendts now) < next
  · rw [if_pos ⟨h, h2⟩]; exact BitVec.le_refl _
  · rw [if_neg (fun c => h2 c.2)]; exact BitVec.not_lt.mp h2

theorem xmitOne_next (st : XmitSt) (s : Seg) :
    (xmitOne now resent wnd una newSegs st s).next =
      if s.acked = true then st.next
      else nextUpd now (segAfter now resent wnd una newSegs st.f.k.rx_rto st.f.k.nodelay s) st.next := by
  rw [xmitOne_eq]
  by_cases ha : s.acked = true
  · simp only [if_pos ha]
  · simp only [if_neg ha]

theorem xmitOne_next_le (st : XmitSt) (s : Seg) :
    (xmitOne now resent wnd una newSegs st s).next ≤ st.next := by
  rw [xmitOne_next]; split
  · exact BitVec.le_refl _
  · exact nextUpd_le _ _ _

/-- facts about the whole phase-5 loop -/
structure FoldSpec (l : List Seg) (st r : XmitSt) : Prop where
  ext  : Fl.Ext st.f r.f
  done : r.done = st.done ++ l.map (segAfter now resent wnd una newSegs st.f.k.rx_rto st.f.k.nodelay)
  next_le : r.next ≤ st.next
  next_near : ∀ s ∈ l, s.acked = false →
    itimediff (segAfter now resent wnd una newSegs st.f.k.rx_rto st.f.k.nodelay s).resendts now > 0 →
    r.next ≤ BitVec.ofInt 32 (itimediff (segAfter now resent wnd una newSegs st.f.k.rx_rto st.f.k.nodelay s).resendts now)
  sent : ∀ s ∈ l, s.acked = false → cause now resent newSegs s ≠ .none → r.f.panic = false →
    ∃ pre post, r.f.liveWire = pre ++ segBytes (segAfter now resent wnd una newSegs st.f.k.rx_rto st.f.k.nodelay s) ++ post

theorem foldXmit_spec (l : List Seg) (st : XmitSt) :
    FoldSpec now resent wnd una newSegs l st (l.foldl (xmitOne now resent wnd una newSegs) st) := by
  induction l generalizing st with
  | nil =>
    exact ⟨Fl.Ext.refl _, by simp, BitVec.le_refl _, fun s hs => by simp at hs, fun s hs => by simp at hs⟩
  | cons a rest ih =>
    have h1 := ih (xmitOne now resent wnd una newSegs st a)
    have he := xmitOne_ext now resent wnd una newSegs st a
    have hr : (xmitOne now resent wnd una newSegs st a).f.k.rx_rto = st.f.k.rx_rto := by rw [he.k]
    have hn : (xmitOne now resent wnd una newSegs st a).f.k.nodelay = st.f.k.nodelay := by rw [he.k]
    have h1d := h1.done
    have h1n := h1.next_near
    have h1s := h1.sent
    rw [hr, hn] at h1d h1n h1s
    simp only [List.foldl_cons]
    refine ⟨he.trans h1.ext, ?_, ?_, ?_, ?_⟩
    · rw [h1d, xmitOne_done]; simp
    · exact BitVec.le_trans h1.next_le (xmitOne_next_le now resent wnd una newSegs st a)
    · intro s hs ha hd
      rcases List.mem_cons.mp hs with rfl | hs
      · refine BitVec.le_trans h1.next_le ?_
        rw [xmitOne_next, if_neg (by simp [ha])]
        exact nextUpd_near _ _ _ hd
      · exact h1n s hs ha hd
    · intro s hs ha hc hp
      rcases List.mem_cons.mp hs with rfl | hs
      · have hp1 : (xmitOne now resent wnd una newSegs st s).f.panic = false := by
          cases hq : (xmitOne now resent wnd una newSegs st s).f.panic with
          | false => rfl
          | true => rw [h1.ext.panic hq] at hp; exact absurd hp (by simp)
        rw [xmitOne_f, if_neg (by simp [ha, hc])] at hp1
        obtain ⟨t, ht⟩ := h1.ext.liveWire
        rw [xmitOne_f, if_neg (by simp [ha, hc]), (emit_wire _ _ hp1).1] at ht
        exact ⟨st.f.liveWire, t, ht⟩
      · exact h1s s hs ha hc hp
end

/-! ### consequences of the decision cascade -/

section
variable (now resent : U32) (newSegs : Nat) (s : Seg)

theorem cause_initial_iff : cause now resent newSegs s = .initial ↔ s.xmit = 0 := by
  unfold cause
  constructor
  · intro h; split at h
    · assumption
    · split at h
      · cases h
      · split at h
        · cases h
        · split at h <;> cases h
  · intro h; rw [if_pos h]

/-- a segment that has been sent before and whose timer is due is always retransmitted: the fast
and early branches can pre-empt the timeout branch only by sending -/
theorem cause_due (hx : s.xmit ≠ 0) (hd : itimediff now s.resendts ≥ 0) :
    cause now resent newSegs s = .fast ∨ cause now resent newSegs s = .early ∨ cause now resent newSegs s = .timeout := by
  unfold cause
  rw [if_neg hx]
  split
  · exact Or.inl rfl
  · split
    · exact Or.inr (Or.inl rfl)
    · exact Or.inr (Or.inr rfl)

/-- the sentinel `0xFFFFFFFF` disables the fast and early branches only -/
theorem cause_sentinel (hx : s.xmit ≠ 0) (hf : s.fastack = 0xFFFFFFFF#32) (hd : itimediff now s.resendts ≥ 0) :
    cause now resent newSegs s = .timeout := by
  unfold cause
  rw [if_neg hx, if_neg (fun h => h.2 hf), if_neg (fun h => h.2.1 hf), if_pos hd]

/-- the only reasons for a REtransmission -/
theorem cause_why (hx : s.xmit ≠ 0) (hc : cause now resent newSegs s ≠ .none) :
    (cause now resent newSegs s = .timeout ∧ itimediff now s.resendts ≥ 0) ∨
    (cause now resent newSegs s = .fast ∧ s.fastack ≥ resent ∧ s.fastack ≠ 0xFFFFFFFF#32) ∨
    (cause now resent newSegs s = .early ∧ s.fastack > 0 ∧ s.fastack ≠ 0xFFFFFFFF#32 ∧ newSegs = 0) := by
  unfold cause at hc ⊢
  rw [if_neg hx] at hc ⊢
  split
  · rename_i h; exact Or.inr (Or.inl ⟨rfl, h⟩)
  · rename_i h2
    rw [if_neg h2] at hc
    split
    · rename_i h; exact Or.inr (Or.inr ⟨rfl, h⟩)
    · rename_i h3
      rw [if_neg h3] at hc
      split
      · rename_i h; exact Or.inl ⟨rfl, h⟩
      · rename_i h4; rw [if_neg h4] at hc; exact absurd rfl hc

theorem cause_none (hc : cause now resent newSegs s = .none) : s.xmit ≠ 0 ∧ itimediff now s.resendts < 0 := by
  unfold cause at hc
  split at hc
  · cases hc
  · rename_i hx
    split at hc
    · cases hc
    · split at hc
      · cases hc
      · split at hc
        · cases hc
        · rename_i h; exact ⟨hx, Int.not_le.mp h⟩
end

section
variable (now resent : U32) (wnd : BitVec 16) (una : U32) (newSegs : Nat) (rx_rto nodelay : U32) (s : Seg)

theorem segAfter_none (h : s.acked = true ∨ cause now resent newSegs s = .none) :
    segAfter now resent wnd una newSegs rx_rto nodelay s = s := by
  unfold segAfter
  by_cases ha : s.acked = true
  · rw [if_pos ha]
  · rw [if_neg ha, if_pos (h.resolve_left ha)]

theorem segAfter_sent (ha : s.acked = false) (hc : cause now resent newSegs s ≠ .none) :
    segAfter now resent wnd una newSegs rx_rto nodelay s =
      stamped now wnd una (retimed now rx_rto nodelay (cause now resent newSegs s) s) := by
  unfold segAfter
  rw [if_neg (by simp [ha]), if_neg hc]

/-- identity fields are never touched -/
theorem segAfter_id :
    (segAfter now resent wnd una newSegs rx_rto nodelay s).sn = s.sn ∧
    (segAfter now resent wnd una newSegs rx_rto nodelay s).data = s.data ∧
    (segAfter now resent wnd una newSegs rx_rto nodelay s).frg = s.frg ∧
    (segAfter now resent wnd una newSegs rx_rto nodelay s).cmd = s.cmd ∧
    (segAfter now resent wnd una newSegs rx_rto nodelay s).conv = s.conv := by
  unfold segAfter
  split
  · exact ⟨rfl, rfl, rfl, rfl, rfl⟩
  · split
    · exact ⟨rfl, rfl, rfl, rfl, rfl⟩
    · unfold stamped retimed; split <;> exact ⟨rfl, rfl, rfl, rfl, rfl⟩

/-- every sending branch re-arms the timer at `now + rto'` -/
theorem retimed_resendts (c : Cause) (hc : c ≠ .none) :
    (retimed now rx_rto nodelay c s).resendts = now + (retimed now rx_rto nodelay c s).rto := by
  cases c <;> first | rfl | exact absurd rfl hc
end

/-- `itimediff (now + r) now = r` and `itimediff now (now + r) = -r` for `0 < r < 2^31` -/
theorem itimediff_add_self (now r : U32) (h1 : r.toNat < 2 ^ 31) :
    itimediff (now + r) now = r.toNat ∧ itimediff now (now + r) = -(r.toNat : Int) := by
  unfold itimediff
  have e1 : now + r - now = r := by bv_omega
  have e2 : now - (now + r) = -r := by bv_omega
  rw [e1, e2]
  constructor
  · rw [BitVec.toInt_eq_toNat_cond]; split <;> omega
  · rw [BitVec.toInt_eq_toNat_cond, BitVec.toNat_neg]
    split <;> omega

/-- `BitVec.ofInt 32` undoes `itimediff` -/
theorem ofInt_itimediff (a b : U32) : BitVec.ofInt 32 (itimediff a b) = a - b := by
  unfold itimediff; exact BitVec.ofInt_toInt

theorem itimediff_pos_toNat (a b : U32) (h : itimediff a b > 0) : ((a - b).toNat : Int) = itimediff a b := by
  unfold itimediff at h ⊢
  rw [BitVec.toInt_eq_toNat_cond] at h ⊢
  split at h <;> rename_i hc
  · rw [if_pos hc]
  · omega

theorem itimediff_pos_of_ne (a b : U32) (h1 : ¬ itimediff a b < 0) (h2 : a ≠ b) : itimediff a b > 0 := by
  unfold itimediff at h1 ⊢
  have : (a - b).toInt ≠ 0 := by
    intro h
    apply h2
    have : a - b = 0 := by
      apply BitVec.eq_of_toInt_eq; simpa using h
    bv_omega
  omega

theorem mem_zip_self {α : Type} (l : List α) (p : α × α) (h : p ∈ l.zip l) : p.1 = p.2 := by
  induction l with
  | nil => simp at h
  | cons a t ih =>
    simp only [List.zip_cons_cons, List.mem_cons] at h
    rcases h with rfl | h
    · rfl
    · exact ih h

end KcpVerif.Live
