/-
Operations of one KCP core with the ghost state of C01, and the lifting of the receive-side
invariant `InvR` to every reachable state.

Ghost components (none of them is read by the model; they only record history):
* `dl`   contents of the segments popped from `rcv_queue` by `recv` so far ("delivered")
* `got`  the byte strings returned by the successful `recv` calls so far, in order
* `log`  contents of the segments that have been given a sequence number by `admitSegs` so far (`L`)
* `accB` stream mode: the bytes taken by `send` so far;  `accM` message mode: the messages accepted
* `wire` every datagram handed to `output` so far
* `dead` a modelled slice-bounds panic has happened (what the Go code does afterwards is not
  modelled; a dead core takes no further steps)
-/
import KcpVerif.Lemmas.KcpRecv
import KcpVerif.Lemmas.KcpSend

namespace KcpVerif.C01
open KcpVerif KcpVerif.Gen KcpVerif.Kcp KcpVerif.Frame KcpVerif.Recv KcpVerif.Send KcpVerif.Wire

inductive Op where
  | send (buf : Bytes)
  | recv (buflen : Nat)
  | input (data : Bytes) (regular ackNoDelay : Bool) (now : U32)
  | flush (full : Bool) (now : U32)
  | update (now : U32)
  | setMtu (mtu : Int)
  | noDelay (nodelay interval resend nc : Int)
  | wndSize (snd rcv : Int)

structure GSt where
  k    : Kcp
  dl   : List Content := []
  got  : List Bytes := []
  log  : List Content := []
  accB : Bytes := []
  accM : List Bytes := []
  wire : List Bytes := []
  dead : Bool := false

/-- the bytes of `buffer` that `Send` puts into the queue: all of it on success, nothing when the
call is refused (−1 empty buffer, −2 more than 255 segments).  Before the repair of defect F2 a
stream-mode `Send` refused with −2 had already appended the head of the buffer to the last queued
segment; now a refusal leaves the state untouched (`C01_send_refusal_takes_nothing`). -/
def sendTaken (k : Kcp) (buffer : Bytes) : Bytes :=
  if (send k buffer).ret = 0 then buffer else []

def step (s : GSt) (op : Op) : GSt :=
  if s.dead then s else
  match op with
  | .send buf =>
    if (send s.k buf).panic then { s with dead := true } else
    { s with k := (send s.k buf).k, accB := s.accB ++ sendTaken s.k buf,
             accM := if (send s.k buf).ret = 0 then s.accM ++ [buf] else s.accM }
  | .recv buflen =>
    if (recv s.k buflen).n < 0 then s else
    { s with k := (recv s.k buflen).k,
             dl := s.dl ++ (s.k.rcv_queue.take (popCount s.k.rcv_queue)).map content,
             got := s.got ++ [(recv s.k buflen).data] }
  | .input data regular ackNoDelay now =>
    if (input s.k data regular ackNoDelay now).panic then { s with dead := true } else
    { s with k := (input s.k data regular ackNoDelay now).k,
             log := s.log ++ admitted s.k (input s.k data regular ackNoDelay now).k,
             wire := s.wire ++ (input s.k data regular ackNoDelay now).outs }
  | .flush full now =>
    if (flush s.k full now).panic then { s with dead := true } else
    { s with k := (flush s.k full now).k, log := s.log ++ admitted s.k (flush s.k full now).k,
             wire := s.wire ++ (flush s.k full now).outs }
  | .update now =>
    if (update s.k now).panic then { s with dead := true } else
    { s with k := (update s.k now).k, log := s.log ++ admitted s.k (update s.k now).k,
             wire := s.wire ++ (update s.k now).outs }
  | .setMtu mtu => { s with k := (setMtu s.k mtu).1 }
  | .noDelay a b c d => { s with k := noDelay s.k a b c d }
  | .wndSize a b => { s with k := wndSize s.k a b }

def run (s : GSt) (ops : List Op) : GSt := ops.foldl step s

theorem run_append (s : GSt) (a b : List Op) : run s (a ++ b) = run (run s a) b := by
  unfold run; rw [List.foldl_append]

theorem run_snoc (s : GSt) (a : List Op) (op : Op) : run s (a ++ [op]) = step (run s a) op := by
  rw [run_append]; rfl

/-- an endpoint before any traffic: all queues empty, nothing in flight; the initial sequence
numbers are arbitrary (C12: the core may start anywhere in the 32-bit space) -/
structure Fresh (k : Kcp) : Prop where
  rq : k.rcv_queue = []
  rb : k.rcv_buf = []
  sq : k.snd_queue = []
  sb : k.snd_buf = []
  su : k.snd_una = k.snd_nxt

theorem fresh_new (conv : U32) : Fresh (Kcp.new conv) := ⟨rfl, rfl, rfl, rfl, rfl⟩

/-! ### frame facts for the remaining operations -/

theorem send_rcvSame (k : Kcp) (buf : Bytes) : RcvSame k (send k buf).k := by
  rw [send_k]; exact ⟨rfl, rfl, rfl, rfl⟩

theorem setMtu_rcvSame (k : Kcp) (mtu : Int) : RcvSame k (setMtu k mtu).1 := by
  unfold setMtu
  split
  · exact RcvSame.refl _
  · split
    · exact RcvSame.refl _
    · split
      · exact RcvSame.refl _
      · split
        · exact RcvSame.refl _
        · exact ⟨rfl, rfl, rfl, rfl⟩

theorem noDelay_rcvSame (k : Kcp) (a b c d : Int) : RcvSame k (noDelay k a b c d) := by
  have h1 : ∀ k : Kcp, RcvSame k (if a ≥ 0 then
      { k with nodelay := BitVec.ofInt 32 a,
               rx_minrto := if a ≠ 0 then u32 IKCP_RTO_NDL else u32 IKCP_RTO_MIN } else k) := by
    intro k; split
    · exact ⟨rfl, rfl, rfl, rfl⟩
    · exact RcvSame.refl _
  have h2 : ∀ k : Kcp, RcvSame k (if b ≥ 0 then
      { k with interval := BitVec.ofInt 32 (if b > 5000 then 5000 else if b < 10 then 10 else b) } else k) := by
    intro k; split
    · exact ⟨rfl, rfl, rfl, rfl⟩
    · exact RcvSame.refl _
  have h3 : ∀ k : Kcp, RcvSame k (if c ≥ 0 then { k with fastresend := BitVec.ofInt 32 c } else k) := by
    intro k; split
    · exact ⟨rfl, rfl, rfl, rfl⟩
    · exact RcvSame.refl _
  have h4 : ∀ k : Kcp, RcvSame k (if d ≥ 0 then { k with nocwnd := BitVec.ofInt 32 d } else k) := by
    intro k; split
    · exact ⟨rfl, rfl, rfl, rfl⟩
    · exact RcvSame.refl _
  exact (((h1 k).trans (h2 _)).trans (h3 _)).trans (h4 _)

theorem wndSize_rcvSame (k : Kcp) (a b : Int) : RcvSame k (wndSize k a b) := by
  have h1 : ∀ k : Kcp, RcvSame k (if a > 0 then { k with snd_wnd := BitVec.ofInt 32 a } else k) := by
    intro k; split
    · exact ⟨rfl, rfl, rfl, rfl⟩
    · exact RcvSame.refl _
  have h2 : ∀ k : Kcp, RcvSame k (if b > 0 then { k with rcv_wnd := BitVec.ofInt 32 b } else k) := by
    intro k; split
    · exact ⟨rfl, rfl, rfl, rfl⟩
    · exact RcvSame.refl _
  exact (h1 k).trans (h2 _)

/-! ### the receive-side invariant on ghost states -/

/-- the network hands this endpoint only datagrams whose PUSH frames are genuine -/
def OpGenuine (G : U32 → Content) (conv : U32) : Op → Prop
  | .input data _ _ _ => GenuineIn G conv data
  | _ => True

instance (G : U32 → Content) (conv : U32) (op : Op) : Decidable (OpGenuine G conv op) := by
  cases op <;> unfold OpGenuine <;> infer_instance

/-- bytes of a list of contents -/
def bytesOf (l : List Content) : Bytes := (l.map (·.2)).flatten

theorem bytesOf_append (a b : List Content) : bytesOf (a ++ b) = bytesOf a ++ bytesOf b := by
  unfold bytesOf; simp

structure InvRG (G : U32 → Content) (sn0 conv : U32) (s : GSt) (n : Nat) : Prop where
  inv  : InvR G sn0 s.k s.dl n
  conv : s.k.conv = conv
  got  : s.got.flatten = bytesOf s.dl

theorem take_map_data (q : List Seg) (j : Nat) :
    ((q.take j).map (·.data)).flatten = bytesOf ((q.take j).map content) := by
  unfold bytesOf content; simp [List.map_map, Function.comp_def]

theorem step_invRG {G : U32 → Content} {sn0 conv : U32} {s : GSt} {n : Nat}
    (h : InvRG G sn0 conv s n) (op : Op) (hg : OpGenuine G conv op) :
    ∃ n', n ≤ n' ∧ InvRG G sn0 conv (step s op) n' := by
  unfold step
  by_cases hd : s.dead = true
  · rw [if_pos hd]; exact ⟨n, Nat.le_refl _, h⟩
  · rw [if_neg hd]
    cases op with
    | send buf =>
      simp only []
      split
      · exact ⟨n, Nat.le_refl _, ⟨h.inv, h.conv, h.got⟩⟩
      · exact ⟨n, Nat.le_refl _, ⟨h.inv.same (send_rcvSame _ _), (send_rcvSame _ _).conv.trans h.conv, h.got⟩⟩
    | recv buflen =>
      simp only []
      split
      · exact ⟨n, Nat.le_refl _, h⟩
      · rename_i hn
        rcases recv_inv h.inv buflen with ⟨hneg, _, _⟩ | ⟨_, _, hdata, _, _, n', hle, hi⟩
        · exact absurd hneg hn
        · refine ⟨n', hle, ⟨hi, ?_, ?_⟩⟩
          · show (recv s.k buflen).k.conv = conv
            rw [← h.conv]
            by_cases h1 : s.k.peekSize < 0
            · rw [recv_fail1 _ _ h1]
            · by_cases h2 : s.k.peekSize > (buflen : Int)
              · rw [recv_fail2 _ _ h1 h2]
              · rw [recv_ok _ _ h1 h2]; unfold recvK; simp only []; split <;> rfl
          · show (s.got ++ [(recv s.k buflen).data]).flatten = _
            rw [List.flatten_append, h.got, bytesOf_append, hdata, take_map_data]
            simp
    | input data regular ackNoDelay now =>
      simp only []
      split
      · exact ⟨n, Nat.le_refl _, ⟨h.inv, h.conv, h.got⟩⟩
      · have hg' : GenuineIn G s.k.conv data := by rw [h.conv]; exact hg
        obtain ⟨n', hle, hi⟩ := input_inv h.inv data regular ackNoDelay now hg'
        refine ⟨n', hle, ⟨hi, ?_, h.got⟩⟩
        show (input s.k data regular ackNoDelay now).k.conv = conv
        rw [← h.conv]
        exact input_conv _ _ _ _ _
    | flush full now =>
      simp only []
      split
      · exact ⟨n, Nat.le_refl _, ⟨h.inv, h.conv, h.got⟩⟩
      · exact ⟨n, Nat.le_refl _, ⟨h.inv.same (flush_keep _ _ _).rcvSame, (flush_keep _ _ _).conv.trans h.conv, h.got⟩⟩
    | update now =>
      simp only []
      split
      · exact ⟨n, Nat.le_refl _, ⟨h.inv, h.conv, h.got⟩⟩
      · exact ⟨n, Nat.le_refl _, ⟨h.inv.same (update_keep _ _).rcvSame, (update_keep _ _).conv.trans h.conv, h.got⟩⟩
    | setMtu mtu =>
      exact ⟨n, Nat.le_refl _, ⟨h.inv.same (setMtu_rcvSame _ _), (setMtu_rcvSame _ _).conv.trans h.conv, h.got⟩⟩
    | noDelay a b c d =>
      exact ⟨n, Nat.le_refl _, ⟨h.inv.same (noDelay_rcvSame _ _ _ _ _), (noDelay_rcvSame _ _ _ _ _).conv.trans h.conv, h.got⟩⟩
    | wndSize a b =>
      exact ⟨n, Nat.le_refl _, ⟨h.inv.same (wndSize_rcvSame _ _ _), (wndSize_rcvSame _ _ _).conv.trans h.conv, h.got⟩⟩

theorem run_invRG {G : U32 → Content} {sn0 conv : U32} (ops : List Op) :
    ∀ (s : GSt) (n : Nat), InvRG G sn0 conv s n → (∀ op ∈ ops, OpGenuine G conv op) →
      ∃ n', n ≤ n' ∧ InvRG G sn0 conv (run s ops) n' := by
  induction ops with
  | nil => intro s n h _; exact ⟨n, Nat.le_refl _, h⟩
  | cons op rest ih =>
    intro s n h hg
    obtain ⟨n1, hle1, h1⟩ := step_invRG h op (hg op (List.mem_cons_self ..))
    obtain ⟨n2, hle2, h2⟩ := ih (step s op) n1 h1 (fun o ho => hg o (List.mem_cons_of_mem _ ho))
    exact ⟨n2, by omega, h2⟩

theorem fresh_invRG (G : U32 → Content) (k : Kcp) (hf : Fresh k) : InvRG G k.rcv_nxt k.conv { k := k } 0 :=
  ⟨⟨by simp, by simp [hf.rq, gRange], by rw [hf.rb]; exact BufOk.nil _ _⟩, rfl, rfl⟩

/-! ### the send-side invariant on ghost states -/

theorem recv_sndSame (k : Kcp) (buflen : Nat) : SndSame k (recv k buflen).k := by
  by_cases h1 : k.peekSize < 0
  · rw [recv_fail1 _ _ h1]; exact SndSame.refl _
  · by_cases h2 : k.peekSize > (buflen : Int)
    · rw [recv_fail2 _ _ h1 h2]; exact SndSame.refl _
    · rw [recv_ok _ _ h1 h2]; unfold recvK; simp only []
      split <;> exact ⟨rfl, rfl, rfl, rfl, rfl, rfl, rfl⟩

/-- the four send-side fields -/
structure SndQ (k k' : Kcp) : Prop where
  snd_una   : k'.snd_una = k.snd_una
  snd_nxt   : k'.snd_nxt = k.snd_nxt
  snd_queue : k'.snd_queue = k.snd_queue
  snd_buf   : k'.snd_buf = k.snd_buf

theorem SndQ.trans {a b c : Kcp} (h1 : SndQ a b) (h2 : SndQ b c) : SndQ a c :=
  ⟨h2.snd_una.trans h1.snd_una, h2.snd_nxt.trans h1.snd_nxt, h2.snd_queue.trans h1.snd_queue,
   h2.snd_buf.trans h1.snd_buf⟩

theorem setMtu_sndQ (k : Kcp) (mtu : Int) : SndQ k (setMtu k mtu).1 := by
  unfold setMtu
  split
  · exact ⟨rfl, rfl, rfl, rfl⟩
  · split
    · exact ⟨rfl, rfl, rfl, rfl⟩
    · split
      · exact ⟨rfl, rfl, rfl, rfl⟩
      · split <;> exact ⟨rfl, rfl, rfl, rfl⟩

theorem noDelay_sndQ (k : Kcp) (a b c d : Int) : SndQ k (noDelay k a b c d) := by
  have h1 : ∀ k : Kcp, SndQ k (if a ≥ 0 then
      { k with nodelay := BitVec.ofInt 32 a,
               rx_minrto := if a ≠ 0 then u32 IKCP_RTO_NDL else u32 IKCP_RTO_MIN } else k) := by
    intro k; split <;> exact ⟨rfl, rfl, rfl, rfl⟩
  have h2 : ∀ k : Kcp, SndQ k (if b ≥ 0 then
      { k with interval := BitVec.ofInt 32 (if b > 5000 then 5000 else if b < 10 then 10 else b) } else k) := by
    intro k; split <;> exact ⟨rfl, rfl, rfl, rfl⟩
  have h3 : ∀ k : Kcp, SndQ k (if c ≥ 0 then { k with fastresend := BitVec.ofInt 32 c } else k) := by
    intro k; split <;> exact ⟨rfl, rfl, rfl, rfl⟩
  have h4 : ∀ k : Kcp, SndQ k (if d ≥ 0 then { k with nocwnd := BitVec.ofInt 32 d } else k) := by
    intro k; split <;> exact ⟨rfl, rfl, rfl, rfl⟩
  exact (((h1 k).trans (h2 _)).trans (h3 _)).trans (h4 _)

theorem wndSize_sndQ (k : Kcp) (a b : Int) : SndQ k (wndSize k a b) := by
  have h1 : ∀ k : Kcp, SndQ k (if a > 0 then { k with snd_wnd := BitVec.ofInt 32 a } else k) := by
    intro k; split <;> exact ⟨rfl, rfl, rfl, rfl⟩
  have h2 : ∀ k : Kcp, SndQ k (if b > 0 then { k with rcv_wnd := BitVec.ofInt 32 b } else k) := by
    intro k; split <;> exact ⟨rfl, rfl, rfl, rfl⟩
  exact (h1 k).trans (h2 _)

/-- the log is consistent with the core, and everything emitted so far is made of frames whose PUSH
members carry the logged content of their sequence number (for every content function `G` that
agrees with the log) -/
structure InvSG (sn0 : U32) (s : GSt) : Prop where
  inv  : InvS sn0 s.k s.log
  wire : ∀ G, Agree G sn0 s.log → ∀ o ∈ s.wire, Framed G o

theorem step_invSG {sn0 : U32} {s : GSt} (h : InvSG sn0 s) (op : Op) :
    InvSG sn0 (step s op) ∧ ∃ X, (step s op).log = s.log ++ X := by
  have flushLike : ∀ (k' : Kcp) (outs : List Bytes),
      (InvS sn0 k' (s.log ++ admitted s.k k') ∧
        ∀ G, Agree G sn0 (s.log ++ admitted s.k k') → ∀ o ∈ outs, Framed G o) →
      InvSG sn0 { s with k := k', log := s.log ++ admitted s.k k', wire := s.wire ++ outs } ∧
        ∃ X, s.log ++ admitted s.k k' = s.log ++ X := by
    intro k' outs hh
    refine ⟨⟨hh.1, fun G hG o ho => ?_⟩, _, rfl⟩
    rcases List.mem_append.mp ho with h1 | h1
    · exact h.wire G hG.prefix o h1
    · exact hh.2 G hG o h1
  have same : ∀ k' : Kcp, SndQ s.k k' → InvSG sn0 { s with k := k' } ∧ ∃ X, s.log = s.log ++ X := by
    intro k' hq
    exact ⟨⟨h.inv.congr hq.snd_nxt hq.snd_una hq.snd_buf hq.snd_queue, h.wire⟩, [], by simp⟩
  unfold step
  by_cases hd : s.dead = true
  · rw [if_pos hd]; exact ⟨h, [], by simp⟩
  · rw [if_neg hd]
    cases op with
    | send buf =>
      simp only []
      split
      · exact ⟨⟨h.inv, h.wire⟩, [], by simp⟩
      · rename_i hp
        exact ⟨⟨send_invS h.inv buf (by simpa using hp), h.wire⟩, [], by simp⟩
    | recv buflen =>
      simp only []
      split
      · exact ⟨h, [], by simp⟩
      · exact ⟨⟨h.inv.same (recv_sndSame _ _), h.wire⟩, [], by simp⟩
    | input data regular ackNoDelay now =>
      simp only []
      split
      · exact ⟨⟨h.inv, h.wire⟩, [], by simp⟩
      · rename_i hp
        have hi := input_invS h.inv data regular ackNoDelay now
        exact flushLike _ _ ⟨hi.1, fun G hG => hi.2 G hG (by simpa using hp)⟩
    | flush full now =>
      simp only []
      split
      · exact ⟨⟨h.inv, h.wire⟩, [], by simp⟩
      · rename_i hp
        have hi := flush_invS h.inv full now
        exact flushLike _ _ ⟨hi.1, fun G hG => hi.2 G hG (by simpa using hp)⟩
    | update now =>
      simp only []
      split
      · exact ⟨⟨h.inv, h.wire⟩, [], by simp⟩
      · rename_i hp
        have hi := update_invS h.inv now
        exact flushLike _ _ ⟨hi.1, fun G hG => hi.2 G hG (by simpa using hp)⟩
    | setMtu mtu => exact same _ (setMtu_sndQ _ _)
    | noDelay a b c d => exact same _ (noDelay_sndQ _ _ _ _ _)
    | wndSize a b => exact same _ (wndSize_sndQ _ _ _)

theorem run_invSG {sn0 : U32} (ops : List Op) :
    ∀ (s : GSt), InvSG sn0 s → InvSG sn0 (run s ops) ∧ ∃ X, (run s ops).log = s.log ++ X := by
  induction ops with
  | nil => intro s h; exact ⟨h, [], by simp [run]⟩
  | cons op rest ih =>
    intro s h
    obtain ⟨h1, X1, e1⟩ := step_invSG h op
    obtain ⟨h2, X2, e2⟩ := ih (step s op) h1
    refine ⟨h2, X1 ++ X2, ?_⟩
    show (run (step s op) rest).log = _
    rw [e2, e1, List.append_assoc]

theorem fresh_invSG (k : Kcp) (hf : Fresh k) : InvSG k.snd_nxt { k := k } :=
  ⟨InvS.fresh k hf.sq hf.sb hf.su, fun _ _ o ho => by cases ho⟩

end KcpVerif.C01
