/-
Specification vocabulary for the C07 theorems about `Model/Fec` (core Lean only).

* `Lawful C`: the list-level MDS law for a codec constructor `C : CodecNew`
  (Go: `reedsolomon.New`): the encoder returns `p` shards of the common length, and
  `ReconstructData` returns the `d` data shards from ANY sub-family of at least `d` shards of a
  codeword.  `Lemmas/RS.lean` proves (Mathlib) that the systematic Vandermonde construction over
  any field has this property in matrix form (`decode_encode`, `data_determined`).  The executable
  GF(2^8) instance `Fec.rsNew` is proved lawful in `Lemmas/RSBridge.rsNew_lawful`
  (`Props/C07Field.C07_rsNew_lawful`); it is tied to klauspost/reedsolomon by byte-exact
  correspondence on every run.
* `Group`: a genuine FEC group as the sender's encoder emits it — `d` data bodies
  (`size | payload`), placed at ids `base … base + n − 1`.
-/
import KcpVerif.Model.Fec

namespace KcpVerif.Lemmas.FecSpec
open KcpVerif.Fec KcpVerif.Gen

/-- erase the absent shards of a codeword -/
def mask (present : List Bool) (cw : List Bytes) : List (Option Bytes) :=
  List.zipWith (fun b s => if b then some s else none) present cw

/-- list-level MDS law of a codec constructor, for the ratios the FEC layer accepts
    (`1 ≤ d`, `1 ≤ p`, `d + p ≤ 256`: `newFECEncoder`/`newFECDecoder` return `nil` otherwise).
    The range restriction is essential: without it the law is unsatisfiable (no `[302, 2]` MDS code
    exists over a 256-letter alphabet), and every theorem assuming it would be vacuous.
    `Props/C07Field.C07_rsNew_lawful` proves it for the executable GF(2^8) instance. -/
structure Lawful (C : CodecNew) : Prop where
  enc_length : ∀ (d p : Nat) (data : List Bytes), 0 < d → 0 < p → d + p ≤ 256 →
    data.length = d → ((C d p).enc data).length = p
  enc_size : ∀ (d p L : Nat) (data : List Bytes), 0 < d → 0 < p → d + p ≤ 256 →
    data.length = d → (∀ s ∈ data, s.length = L) →
    ∀ s ∈ (C d p).enc data, s.length = L
  recon : ∀ (d p L : Nat) (data : List Bytes) (present : List Bool), 0 < d → 0 < p →
    d + p ≤ 256 → 0 < L →
    data.length = d → (∀ s ∈ data, s.length = L) → present.length = d + p →
    d ≤ present.count true →
    (C d p).recon (mask present (data ++ (C d p).enc data)) = some data

/-- a data body: 2-byte little-endian size field (= total body length) followed by the payload -/
def bodyOf (payload : Bytes) : Bytes := le16 (payload.length + 2) ++ payload

/-- a genuine FEC group of a `d/p` sender -/
structure Group where
  d : Nat
  p : Nat
  /-- id of the group's first packet -/
  base : BitVec 32
  /-- the payloads handed to the encoder (KCP datagrams) -/
  payloads : List Bytes

namespace Group

def n (G : Group) : Nat := G.d + G.p
def bodies (G : Group) : List Bytes := G.payloads.map bodyOf
/-- length of the longest body = `maxSize − payloadOffset` of the encoder -/
def maxLen (G : Group) : Nat := (G.bodies.map List.length).foldr max 0
/-- the `d` data shards: bodies zero-padded to the longest -/
def dataShards (G : Group) : List Bytes := G.bodies.map (pad G.maxLen)
/-- the `p` parity shards -/
def parityShards (C : CodecNew) (G : Group) : List Bytes := (C G.d G.p).enc G.dataShards
/-- the codeword: `n` shards of length `maxLen` -/
def codeword (C : CodecNew) (G : Group) : List Bytes := G.dataShards ++ G.parityShards C

/-- what travels in packet `i` after the FEC header: the unpadded body for data, the shard for parity -/
def wireBody (C : CodecNew) (G : Group) (i : Nat) : Bytes :=
  if i < G.d then G.bodies.getD i [] else (G.parityShards C).getD (i - G.d) []

/-- packet `i` of the group, from the FEC header on (what `decode` receives) -/
def packet (C : CodecNew) (G : Group) (i : Nat) : Bytes :=
  le32 (G.base + BitVec.ofNat 32 i) ++ le16 (if i < G.d then typeData else typeParity) ++ G.wireBody C i

/-- well-formed: ratio in range, `d` payloads of a size the session can produce, ids of one group
    (a multiple of `n`, all below `paws`) -/
structure WF (G : Group) : Prop where
  d_pos : 0 < G.d
  p_pos : 0 < G.p
  n_le : G.d + G.p ≤ 256
  count : G.payloads.length = G.d
  size : ∀ pl ∈ G.payloads, pl.length + 2 + fecHeaderSize ≤ mtuLimit
  aligned : G.base.toNat % G.n = 0
  below : G.base.toNat + G.n ≤ (pawsOf G.n).toNat

end Group

end KcpVerif.Lemmas.FecSpec
