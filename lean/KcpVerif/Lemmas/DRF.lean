import KcpVerif.Generated
/-!
Abstract data-race freedom (C14, DESIGN 7.14).

A run is a sequence of events, indexed by its global position (`Trace = Nat → Event`; finite runs
are padded with `nop`).  Happens-before is the least transitive relation containing program order,
release → later incompatible acquire of the same mutex (Mutex: Unlock→Lock; RWMutex additionally
Unlock→RLock and RUnlock→Lock, which are exactly the edges of the Go memory model), fork → every
event of the child, and an arbitrary further synchronises-with relation `sw` that respects the trace
order (atomics observed, channel send→receive, close→receive-of-closed, `sync.Once`).  The theorems
conclude `HB`, so a smaller `HB` makes them stronger; `sw` is there so that publication through a
channel or a `Once` can be used as a hypothesis.

`lockset_ordered` is the core: two accesses by different threads that hold the same mutex in
incompatible modes are ordered by happens-before in every run with mutual exclusion.

The second half is the table check `tableOk` that `Props/C14` decides on the extracted access table.
-/
namespace KcpVerif.DRF

abbrev Tid := Nat
abbrev Mutex := Nat
abbrev Loc := Nat

/-- lock modes: exclusive (`Lock`) and shared (`RLock`) -/
inductive Mode where
  | X | S
  deriving DecidableEq, Repr

def Mode.compat : Mode → Mode → Bool
  | .S, .S => true
  | _, _ => false

theorem Mode.compat_comm (a b : Mode) : Mode.compat a b = Mode.compat b a := by
  cases a <;> cases b <;> rfl

theorem Mode.compat_X_left (b : Mode) : Mode.compat .X b = false := by cases b <;> rfl
theorem Mode.compat_X_right (a : Mode) : Mode.compat a .X = false := by cases a <;> rfl

inductive Ev where
  | acq (m : Mutex) (μ : Mode)
  | rel (m : Mutex) (μ : Mode)
  | rd (x : Loc)
  | wr (x : Loc)
  | ard (x : Loc)
  | awr (x : Loc)
  | fork (child : Tid)
  | nop
  deriving DecidableEq, Repr

structure Event where
  tid : Tid
  ev : Ev
  deriving DecidableEq, Repr

abbrev Trace := Nat → Event

/-- the location an event accesses -/
def Ev.loc : Ev → Option Loc
  | .rd x | .wr x | .ard x | .awr x => some x
  | _ => none

def Ev.isWrite : Ev → Bool
  | .wr _ | .awr _ => true
  | _ => false

def Ev.isAtomic : Ev → Bool
  | .ard _ | .awr _ => true
  | _ => false

/-- thread `t` holds mutex `m` in mode `μ` just before position `k` -/
def Holds (τ : Trace) (t : Tid) (m : Mutex) (μ : Mode) (k : Nat) : Prop :=
  ∃ a, a < k ∧ τ a = ⟨t, .acq m μ⟩ ∧ ∀ b, a < b → b < k → τ b ≠ ⟨t, .rel m μ⟩

/-- mutual exclusion: an acquisition succeeds only if no other thread holds the mutex in an
incompatible mode -/
def MutexWF (τ : Trace) : Prop :=
  ∀ j u m μ, τ j = ⟨u, .acq m μ⟩ → ∀ t ν, t ≠ u → Mode.compat μ ν = false → ¬ Holds τ t m ν j

/-- every event of a forked thread comes after its fork -/
def ForkWF (τ : Trace) : Prop :=
  ∀ f t c, τ f = ⟨t, .fork c⟩ → ∀ j, (τ j).tid = c → f < j

inductive HB (τ : Trace) (sw : Nat → Nat → Prop) : Nat → Nat → Prop where
  | po {i j : Nat} : i < j → (τ i).tid = (τ j).tid → HB τ sw i j
  | lock {i j : Nat} {t u : Tid} {m : Mutex} {μ ν : Mode} :
      i < j → τ i = ⟨t, .rel m μ⟩ → τ j = ⟨u, .acq m ν⟩ → Mode.compat μ ν = false → HB τ sw i j
  | fork {i j : Nat} {t c : Tid} : i < j → τ i = ⟨t, .fork c⟩ → (τ j).tid = c → HB τ sw i j
  | sw {i j : Nat} : i < j → sw i j → HB τ sw i j
  | trans {i j k : Nat} : HB τ sw i j → HB τ sw j k → HB τ sw i k

/-- happens-before agrees with the order of the run -/
theorem HB.lt {τ : Trace} {sw : Nat → Nat → Prop} {i j : Nat} (h : HB τ sw i j) : i < j := by
  induction h with
  | po h _ => exact h
  | lock h _ _ _ => exact h
  | fork h _ _ => exact h
  | sw h _ => exact h
  | trans _ _ ih1 ih2 => exact Nat.lt_trans ih1 ih2

/-- Core lemma: critical sections of one mutex held in incompatible modes by different threads are
ordered.  `i` is not itself a release (it is an access). -/
theorem lockset_ordered {τ : Trace} {sw : Nat → Nat → Prop} (wf : MutexWF τ)
    {i j : Nat} {t u : Tid} {m : Mutex} {μ ν : Mode}
    (hij : i < j) (hti : (τ i).tid = t) (huj : (τ j).tid = u) (htu : t ≠ u)
    (hnr : ∀ m' μ', (τ i).ev ≠ .rel m' μ')
    (hi : Holds τ t m μ i) (hj : Holds τ u m ν j) (hinc : Mode.compat μ ν = false) :
    HB τ sw i j := by
  obtain ⟨a, hai, haq, hanr⟩ := hi
  obtain ⟨b, hbj, hbq, hbnr⟩ := hj
  rcases Nat.lt_trichotomy a b with hab | hab | hab
  · -- t's section starts first: t must have released before u acquired at b
    have hnh : ¬ Holds τ t m μ b := wf b u m ν hbq t μ htu (by rw [Mode.compat_comm]; exact hinc)
    have hex : ∃ r, a < r ∧ r < b ∧ τ r = ⟨t, .rel m μ⟩ := by
      apply Classical.byContradiction
      intro hne
      apply hnh
      refine ⟨a, hab, haq, ?_⟩
      intro r har hrb hr
      exact hne ⟨r, har, hrb, hr⟩
    obtain ⟨r, har, hrb, hr⟩ := hex
    have hir : i < r := by
      rcases Nat.lt_trichotomy r i with h | h | h
      · exact absurd hr (hanr r har h)
      · subst h
        have : (τ r).ev = .rel m μ := by rw [hr]
        exact absurd this (hnr m μ)
      · exact h
    have h1 : HB τ sw i r := HB.po hir (by rw [hti, hr])
    have h2 : HB τ sw r b := HB.lock hrb hr hbq hinc
    have h3 : HB τ sw b j := HB.po hbj (by rw [hbq, huj])
    exact HB.trans h1 (HB.trans h2 h3)
  · -- the same acquisition event cannot belong to two threads
    subst hab
    rw [haq] at hbq
    have : t = u := by injection hbq
    exact absurd this htu
  · -- u's section starts first and is still open at j > i > a: t could not have acquired at a
    have hnh : ¬ Holds τ u m ν a := wf a t m μ haq u ν (Ne.symm htu) hinc
    exact absurd ⟨b, hab, hbq, fun r hbr hra => hbnr r hbr (Nat.lt_trans hra (Nat.lt_trans hai hij))⟩ hnh

/-! ### Disciplines for one location after its publication point -/

/-- what the lock discipline demands of an access at `k`: a write holds `m` exclusively, a read holds
it exclusively or shared -/
def HoldsFor (τ : Trace) (m : Mutex) (k : Nat) : Prop :=
  if (τ k).ev.isWrite then Holds τ (τ k).tid m .X k else ∃ μ, Holds τ (τ k).tid m μ k

/-- every access to `x` from position `pub` on holds `m` in the mode its kind requires -/
def Locked (τ : Trace) (x : Loc) (m : Mutex) (pub : Nat) : Prop :=
  ∀ k, pub ≤ k → (τ k).ev.loc = some x → HoldsFor τ m k

def Immutable (τ : Trace) (x : Loc) (pub : Nat) : Prop :=
  ∀ k, pub ≤ k → (τ k).ev.loc = some x → (τ k).ev.isWrite = false

def AllAtomic (τ : Trace) (x : Loc) (pub : Nat) : Prop :=
  ∀ k, pub ≤ k → (τ k).ev.loc = some x → (τ k).ev.isAtomic = true

def Confined (τ : Trace) (x : Loc) (t : Tid) (pub : Nat) : Prop :=
  ∀ k, pub ≤ k → (τ k).ev.loc = some x → (τ k).tid = t

/-- two accesses to the same location conflict: different threads, one writes, not both atomic -/
def Conflict (τ : Trace) (x : Loc) (i j : Nat) : Prop :=
  (τ i).ev.loc = some x ∧ (τ j).ev.loc = some x ∧ (τ i).tid ≠ (τ j).tid ∧
  ((τ i).ev.isWrite = true ∨ (τ j).ev.isWrite = true) ∧
  ¬ ((τ i).ev.isAtomic = true ∧ (τ j).ev.isAtomic = true)

/-- a data race: a conflicting pair not ordered by happens-before -/
def Race (τ : Trace) (sw : Nat → Nat → Prop) (x : Loc) (i j : Nat) : Prop :=
  i < j ∧ Conflict τ x i j ∧ ¬ HB τ sw i j

theorem not_rel_of_loc {e : Ev} {x : Loc} (h : e.loc = some x) : ∀ m μ, e ≠ .rel m μ := by
  intro m μ he
  subst he
  simp [Ev.loc] at h

/-- the lockset theorem for one location -/
theorem locked_ordered {τ : Trace} {sw : Nat → Nat → Prop} (wf : MutexWF τ) {x : Loc} {m : Mutex} {pub : Nat}
    (disc : Locked τ x m pub) {i j : Nat} (hpi : pub ≤ i) (hij : i < j)
    (hxi : (τ i).ev.loc = some x) (hxj : (τ j).ev.loc = some x) (htid : (τ i).tid ≠ (τ j).tid)
    (hw : (τ i).ev.isWrite = true ∨ (τ j).ev.isWrite = true) : HB τ sw i j := by
  have di := disc i hpi hxi
  have dj := disc j (Nat.le_trans hpi (Nat.le_of_lt hij)) hxj
  unfold HoldsFor at di dj
  have hnr := not_rel_of_loc hxi
  rcases hw with hw | hw
  · rw [if_pos hw] at di
    by_cases hwj : (τ j).ev.isWrite = true
    · rw [if_pos hwj] at dj
      exact lockset_ordered wf hij rfl rfl htid hnr di dj rfl
    · rw [if_neg hwj] at dj
      obtain ⟨ν, dj⟩ := dj
      exact lockset_ordered wf hij rfl rfl htid hnr di dj (Mode.compat_X_left ν)
  · rw [if_pos hw] at dj
    by_cases hwi : (τ i).ev.isWrite = true
    · rw [if_pos hwi] at di
      exact lockset_ordered wf hij rfl rfl htid hnr di dj rfl
    · rw [if_neg hwi] at di
      obtain ⟨μ, di⟩ := di
      exact lockset_ordered wf hij rfl rfl htid hnr di dj (Mode.compat_X_right μ)

/-! ### The table check (decided on `Gen.accessTable` in `Props/C14`) -/

open KcpVerif.Gen

/-- rows the obligation is about: after publication, reachable from the supported API, not deprecated -/
def considered (r : AccessRow) : Bool := !r.prepub && r.inScope && !r.deprecated

def holdsRow (m : Nat) (r : AccessRow) : Bool :=
  if r.write then r.locks.contains m else (r.locks.contains m || r.rlocks.contains m)

def immutableOk (rows : List AccessRow) : Bool := rows.all (fun r => !r.write)
def atomicOk (rows : List AccessRow) : Bool := rows.all (fun r => r.atomic)
def lockedOk (rows : List AccessRow) : Bool :=
  match rows with
  | [] => true
  | r :: _ => (r.locks ++ r.rlocks).any (fun m => rows.all (holdsRow m))
def confinedOk (rows : List AccessRow) : Bool :=
  match rows with
  | [] => true
  | r :: _ => r.thread != 0 && rows.all (fun q => q.thread == r.thread)

/-- one class: its considered rows satisfy one of the four disciplines -/
def classOk (rows : List AccessRow) : Bool :=
  let rs := rows.filter considered
  immutableOk rs || atomicOk rs || lockedOk rs || confinedOk rs

/-- the rows of entry `k` really belong to class `k` -/
def groupedOk : Nat → List (List AccessRow) → Bool
  | _, [] => true
  | k, g :: gs => g.all (fun r => r.cls == k) && groupedOk (k + 1) gs

def tableOk (byClass : List (List AccessRow)) : Bool :=
  groupedOk 0 byClass && byClass.all classOk

/-- classes that fail, for reporting -/
def failingClasses (byClass : List (List AccessRow)) : List Nat :=
  (List.range byClass.length).filter (fun k => !(classOk (byClass.getD k [])))

/-! ### From the table check to a discipline of the run

`Respects` states, for one location `x` of a class with table rows `rows`, what it means that a run
is an instance of the table: every post-publication access to `x` is justified by a considered row
of the same kind whose lexical locks are really held — on the mutex instance `inst m` that the run
associates with mutex class `m` for this location — and whose goroutine root, if unique, is the
thread `thr k`.  This is exactly the part that is trusted (extractor + type-based ownership) and
that the race-detector runs confront with reality. -/

/-- the four disciplines the table check recognises -/
inductive Discipline (τ : Trace) (x : Loc) (pub : Nat) : Prop where
  | locked (m : Mutex) : Locked τ x m pub → Discipline τ x pub
  | immutable : Immutable τ x pub → Discipline τ x pub
  | atomic : AllAtomic τ x pub → Discipline τ x pub
  | confined (t : Tid) : Confined τ x t pub → Discipline τ x pub

def Respects (τ : Trace) (rows : List AccessRow) (x : Loc) (pub : Nat)
    (inst : Nat → Mutex) (thr : Nat → Tid) : Prop :=
  ∀ k, pub ≤ k → (τ k).ev.loc = some x →
    ∃ r, r ∈ rows ∧ considered r = true ∧ r.write = (τ k).ev.isWrite ∧ r.atomic = (τ k).ev.isAtomic ∧
      (∀ m, m ∈ r.locks → Holds τ (τ k).tid (inst m) .X k) ∧
      (∀ m, m ∈ r.rlocks → ∃ μ, Holds τ (τ k).tid (inst m) μ k) ∧
      (r.thread ≠ 0 → (τ k).tid = thr r.thread)

theorem discipline_of_classOk {τ : Trace} {rows : List AccessRow} {x : Loc} {pub : Nat}
    {inst : Nat → Mutex} {thr : Nat → Tid}
    (hok : classOk rows = true) (hr : Respects τ rows x pub inst thr) : Discipline τ x pub := by
  unfold classOk at hok
  simp only [Bool.or_eq_true] at hok
  -- every justified access comes with a row of the filtered list
  have hrow : ∀ k, pub ≤ k → (τ k).ev.loc = some x →
      ∃ r, r ∈ rows.filter considered ∧ r.write = (τ k).ev.isWrite ∧ r.atomic = (τ k).ev.isAtomic ∧
        (∀ m, m ∈ r.locks → Holds τ (τ k).tid (inst m) .X k) ∧
        (∀ m, m ∈ r.rlocks → ∃ μ, Holds τ (τ k).tid (inst m) μ k) ∧
        (r.thread ≠ 0 → (τ k).tid = thr r.thread) := by
    intro k hk hx
    obtain ⟨r, hmem, hc, h1, h2, h3, h4, h5⟩ := hr k hk hx
    exact ⟨r, List.mem_filter.mpr ⟨hmem, hc⟩, h1, h2, h3, h4, h5⟩
  rcases hok with ((himm | hat) | hlk) | hcf
  · -- immutable
    refine Discipline.immutable ?_
    intro k hk hx
    obtain ⟨r, hmem, hw, _⟩ := hrow k hk hx
    have := List.all_eq_true.mp himm r hmem
    rw [← hw]
    simpa using this
  · -- all atomic
    refine Discipline.atomic ?_
    intro k hk hx
    obtain ⟨r, hmem, _, ha, _⟩ := hrow k hk hx
    have := List.all_eq_true.mp hat r hmem
    rw [← ha]
    exact this
  · -- common mutex
    unfold lockedOk at hlk
    split at hlk
    · rename_i hnil
      refine Discipline.immutable ?_
      intro k hk hx
      obtain ⟨r, hmem, _⟩ := hrow k hk hx
      rw [hnil] at hmem
      cases hmem
    · rename_i r0 rest hcons
      obtain ⟨m, _, hall⟩ := List.any_eq_true.mp hlk
      refine Discipline.locked (inst m) ?_
      intro k hk hx
      obtain ⟨r, hmem, hw, _, hX, hS, _⟩ := hrow k hk hx
      have hh : holdsRow m r = true := List.all_eq_true.mp hall r hmem
      unfold holdsRow at hh
      unfold HoldsFor
      by_cases hwr : r.write = true
      · rw [if_pos hwr] at hh
        rw [if_pos (by rw [← hw]; exact hwr)]
        exact hX m (List.contains_iff_mem.mp hh)
      · rw [if_neg hwr] at hh
        rw [if_neg (by rw [← hw]; exact hwr)]
        rcases Bool.or_eq_true _ _ ▸ hh with h | h
        · exact ⟨.X, hX m (List.contains_iff_mem.mp h)⟩
        · exact hS m (List.contains_iff_mem.mp h)
  · -- confined to one goroutine
    unfold confinedOk at hcf
    split at hcf
    · rename_i hnil
      refine Discipline.immutable ?_
      intro k hk hx
      obtain ⟨r, hmem, _⟩ := hrow k hk hx
      rw [hnil] at hmem
      cases hmem
    · rename_i r0 rest hcons
      simp only [Bool.and_eq_true] at hcf
      obtain ⟨hne, hall⟩ := hcf
      refine Discipline.confined (thr r0.thread) ?_
      intro k hk hx
      obtain ⟨r, hmem, _, _, _, _, ht⟩ := hrow k hk hx
      have hq := List.all_eq_true.mp hall r hmem
      have heq : r.thread = r0.thread := by simpa using hq
      have hn0 : r.thread ≠ 0 := by
        rw [heq]
        simpa using hne
      rw [ht hn0, heq]

theorem classOk_of_tableOk {byClass : List (List AccessRow)} (h : tableOk byClass = true) :
    ∀ rows, rows ∈ byClass → classOk rows = true := by
  unfold tableOk at h
  simp only [Bool.and_eq_true] at h
  exact fun rows hm => List.all_eq_true.mp h.2 rows hm

end KcpVerif.DRF
