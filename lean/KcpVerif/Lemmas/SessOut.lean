import KcpVerif.Model.SessOut
import KcpVerif.Lemmas.Wire
/-! helper lemmas about the FEC encoder model and `postProcess` (core Lean only) -/
namespace KcpVerif.SessOut
open KcpVerif.Gen KcpVerif.Wire

/-! ### arithmetic of `paws` -/

theorem paws_dvd (e : Enc) : e.shardSize ∣ e.paws := ⟨4294967295 / e.shardSize, by simp [Enc.paws, Nat.mul_comm]⟩

theorem paws_lt (e : Enc) : e.paws < 4294967296 := by
  have := Nat.div_mul_le_self 4294967295 e.shardSize
  simp only [Enc.paws]; omega

theorem paws_pos (e : Enc) (h1 : 0 < e.shardSize) (h2 : e.shardSize ≤ 256) : 0 < e.paws := by
  have h : 4294967295 / e.shardSize * e.shardSize + 4294967295 % e.shardSize = 4294967295 := by
    rw [Nat.mul_comm]; exact Nat.div_add_mod _ _
  have := Nat.mod_lt 4294967295 h1
  simp only [Enc.paws]; omega

/-- the state the encoder is in between packets -/
structure Enc.Inv (e : Enc) : Prop where
  dpos  : 0 < e.d
  ppos  : 0 < e.p
  nle   : e.d + e.p ≤ 256
  cnt   : e.cache.length < e.d
  ghost : e.next = e.vnext % e.paws
  pos   : e.vnext % e.shardSize = e.cache.length

theorem Enc.Inv.paws_pos {e : Enc} (h : e.Inv) : 0 < e.paws :=
  SessOut.paws_pos e (by have := h.dpos; simp only [Enc.shardSize]; omega) (by simp only [Enc.shardSize]; exact h.nle)

theorem Enc.Inv.next_lt {e : Enc} (h : e.Inv) : e.next < e.paws := by
  rw [h.ghost]; exact Nat.mod_lt _ h.paws_pos

/-- the position of `next` in the data/parity cycle is the number of shards collected -/
theorem Enc.Inv.next_pos {e : Enc} (h : e.Inv) : e.next % e.shardSize = e.cache.length := by
  rw [h.ghost, Nat.mod_mod_of_dvd _ (paws_dvd e)]; exact h.pos

@[simp] theorem bump_d (e : Enc) : e.bump.d = e.d := rfl
@[simp] theorem bump_p (e : Enc) : e.bump.p = e.p := rfl
@[simp] theorem bump_cache (e : Enc) : e.bump.cache = e.cache := rfl
@[simp] theorem bump_maxSize (e : Enc) : e.bump.maxSize = e.maxSize := rfl
@[simp] theorem bump_ts (e : Enc) : e.bump.tsLatest = e.tsLatest := rfl
@[simp] theorem bump_vnext (e : Enc) : e.bump.vnext = e.vnext + 1 := rfl
@[simp] theorem bump_paws (e : Enc) : e.bump.paws = e.paws := rfl
@[simp] theorem bump_shardSize (e : Enc) : e.bump.shardSize = e.shardSize := rfl

/-- one `sealData`/`sealParity` keeps `next = vnext % paws` (no uint32 overflow: `next + 1 ≤ paws < 2^32`) -/
theorem bump_ghost (e : Enc) (hp : 0 < e.paws) (hg : e.next = e.vnext % e.paws) :
    e.bump.next = e.bump.vnext % e.bump.paws := by
  have h1 : e.next < e.paws := by rw [hg]; exact Nat.mod_lt _ hp
  have h2 := paws_lt e
  have h3 : u32w (e.next + 1) = e.next + 1 := by simp only [u32w]; omega
  show u32w (e.next + 1) % e.paws = (e.vnext + 1) % e.paws
  rw [h3, hg, Nat.add_mod (e.vnext) 1 e.paws, Nat.add_mod (e.vnext % e.paws) 1 e.paws, Nat.mod_mod]

theorem bumpN_fields (e : Enc) (k : Nat) :
    (bumpN e k).d = e.d ∧ (bumpN e k).p = e.p ∧ (bumpN e k).cache = e.cache ∧ (bumpN e k).maxSize = e.maxSize ∧
    (bumpN e k).tsLatest = e.tsLatest ∧ (bumpN e k).vnext = e.vnext + k := by
  induction k generalizing e with
  | zero => simp [bumpN]
  | succ k ih =>
    have := ih e.bump
    simp only [bump_d, bump_p, bump_cache, bump_maxSize, bump_ts, bump_vnext] at this
    obtain ⟨h1, h2, h3, h4, h5, h6⟩ := this
    refine ⟨h1, h2, h3, h4, h5, ?_⟩
    simp only [bumpN, h6]; omega

theorem bumpN_paws (e : Enc) (k : Nat) : (bumpN e k).paws = e.paws := by
  have := bumpN_fields e k
  simp only [Enc.paws, Enc.shardSize, this.1, this.2.1]

theorem bumpN_ghost (e : Enc) (k : Nat) (hp : 0 < e.paws) (hg : e.next = e.vnext % e.paws) :
    (bumpN e k).next = (bumpN e k).vnext % (bumpN e k).paws := by
  induction k generalizing e with
  | zero => exact hg
  | succ k ih => exact ih e.bump (by simpa using hp) (bump_ghost e hp hg)

/-- `skipParity` from the position right behind the last data shard: `next + p ≤ paws`, so the
uint32 addition does not wrap and the skip is `p` single steps. -/
theorem skip_ghost (e : Enc) (hp : 0 < e.paws) (hg : e.next = e.vnext % e.paws)
    (hpos : e.vnext % e.shardSize = e.d) (hpp : 0 < e.p) :
    e.skip.next = e.skip.vnext % e.paws := by
  have hn : 0 < e.shardSize := by simp only [Enc.shardSize]; omega
  have h1 : e.next < e.paws := by rw [hg]; exact Nat.mod_lt _ hp
  have hpos' : e.next % e.shardSize = e.d := by rw [hg, Nat.mod_mod_of_dvd _ (paws_dvd e)]; exact hpos
  -- next = n*a + d with a < q, paws = q*n
  have hq : e.paws = 4294967295 / e.shardSize * e.shardSize := rfl
  have hdm := Nat.div_add_mod e.next e.shardSize
  have ha : e.next / e.shardSize < 4294967295 / e.shardSize := by
    rw [Nat.div_lt_iff_lt_mul hn]; rw [← hq]; exact h1
  have hmul : e.shardSize * (e.next / e.shardSize + 1) ≤ e.shardSize * (4294967295 / e.shardSize) :=
    Nat.mul_le_mul_left _ ha
  rw [Nat.mul_add, Nat.mul_one, Nat.mul_comm e.shardSize (4294967295 / e.shardSize), ← hq] at hmul
  have hsz : e.shardSize = e.d + e.p := rfl
  have hle : e.next + e.p ≤ e.paws := by omega
  have h2 := paws_lt e
  have h3 : u32w (e.next + e.p) = e.next + e.p := by simp only [u32w]; omega
  show u32w (e.next + e.p) % e.paws = (e.vnext + e.p) % e.paws
  rw [h3, hg, Nat.add_mod (e.vnext) e.p e.paws, Nat.add_mod (e.vnext % e.paws) e.p e.paws, Nat.mod_mod]

/-! ### `encode` case by case -/

theorem encode_pkt (par : List Bytes → Nat → Bytes) (ho : Nat) (e : Enc) (body : Bytes) (now rto : Int) :
    (encode par ho e body now rto).pkt =
      { kind := .data, seqid := e.next, vid := e.vnext,
        rest := fecHeader (BitVec.ofNat 32 e.next) typeData ++ sizeField body.length ++ body } := by
  simp only [encode]
  split
  · split <;> rfl
  · rfl

/-- the length `maxSize` takes when a packet of `ho + 8 + |body|` bytes joins the group -/
def newMax (ho : Nat) (e : Enc) (body : Bytes) : Nat :=
  if e.maxSize < ho + fecHeaderSizePlus2 + body.length then ho + fecHeaderSizePlus2 + body.length else e.maxSize

theorem encode_mid (par : List Bytes → Nat → Bytes) (ho : Nat) (e : Enc) (body : Bytes) (now rto : Int)
    (h : e.cache.length + 1 ≠ e.d) :
    (encode par ho e body now rto).enc =
        { e.bump with maxSize := newMax ho e body, cache := e.cache ++ [sizeField body.length ++ body], tsLatest := now } ∧
      (encode par ho e body now rto).parity = [] := by
  simp only [encode, bump_cache, bump_d, List.length_append, List.length_cons, List.length_nil, h, if_false, newMax,
    bump_maxSize, Nat.zero_add]
  exact ⟨rfl, trivial⟩

theorem encode_full_ok (par : List Bytes → Nat → Bytes) (ho : Nat) (e : Enc) (body : Bytes) (now rto : Int)
    (h : e.cache.length + 1 = e.d) (hg : now - e.tsLatest < rto) :
    (encode par ho e body now rto).enc = { bumpN e.bump e.p with maxSize := 0, cache := [], tsLatest := now } ∧
      (encode par ho e body now rto).parity =
        sealParities e.bump ((List.range e.p).map fun k =>
          fit (newMax ho e body - (ho + fecHeaderSize))
            (par ((e.cache ++ [sizeField body.length ++ body]).map (fit (newMax ho e body - (ho + fecHeaderSize)))) k)) := by
  simp only [encode, bump_cache, bump_d, List.length_append, List.length_cons, List.length_nil, h, if_true, newMax,
    bump_maxSize, bump_ts, bump_p, hg, Nat.zero_add]
  exact ⟨trivial, rfl⟩

theorem encode_full_skip (par : List Bytes → Nat → Bytes) (ho : Nat) (e : Enc) (body : Bytes) (now rto : Int)
    (h : e.cache.length + 1 = e.d) (hg : ¬ now - e.tsLatest < rto) :
    (encode par ho e body now rto).enc = { e.bump.skip with maxSize := 0, cache := [], tsLatest := now } ∧
      (encode par ho e body now rto).parity = [] := by
  simp only [encode, bump_cache, bump_d, List.length_append, List.length_cons, List.length_nil, h, if_true,
    bump_ts, hg, if_false, Nat.zero_add]
  exact ⟨trivial, trivial⟩

/-! ### the invariant is inductive -/

theorem newEnc_inv (c : Cfg) (e : Enc) (h : newEnc c = some e) : e.Inv := by
  unfold newEnc at h
  split at h
  · rename_i hf
    simp only [Cfg.fecOn, Bool.and_eq_true, decide_eq_true_eq] at hf
    cases h
    exact ⟨hf.1.1, hf.1.2, hf.2, hf.1.1, by simp, by simp⟩
  · cases h

theorem mod_succ_of_lt (v n l : Nat) (h : v % n = l) (hl : l + 1 < n) : (v + 1) % n = l + 1 := by
  rw [Nat.add_mod, h, Nat.mod_eq_of_lt (show 1 < n by omega), Nat.mod_eq_of_lt hl]

theorem mod_close_group (v d p : Nat) (h : v % (d + p) = d) : (v + p) % (d + p) = 0 := by
  have := Nat.div_add_mod v (d + p)
  have e : v + p = (d + p) * (v / (d + p) + 1) := by rw [Nat.mul_add, Nat.mul_one]; omega
  rw [e, Nat.mul_mod_right]

theorem encode_inv (par : List Bytes → Nat → Bytes) (ho : Nat) (e : Enc) (body : Bytes) (now rto : Int)
    (h : e.Inv) : (encode par ho e body now rto).enc.Inv := by
  have hp := h.paws_pos
  have hn : e.shardSize = e.d + e.p := rfl
  have hd := h.dpos; have hpp := h.ppos; have hc := h.cnt
  by_cases hfull : e.cache.length + 1 = e.d
  · -- the group closes: next advances over the parity ids, one by one or by `skipParity`
    have hpos1 : e.bump.vnext % e.bump.shardSize = e.d := by
      simp only [bump_vnext, bump_shardSize]
      by_cases h1 : e.d = 1
      · have : e.cache.length = 0 := by omega
        rw [Nat.add_mod, h.pos, this, Nat.zero_add, Nat.mod_mod, Nat.mod_eq_of_lt (by omega : 1 < e.shardSize)]
        exact h1.symm
      · rw [mod_succ_of_lt _ _ _ h.pos (by omega)]; exact hfull
    have hzero : (e.vnext + 1 + e.p) % (e.d + e.p) = 0 := mod_close_group _ _ _ (by simpa [hn] using hpos1)
    by_cases hg : now - e.tsLatest < rto
    · rw [(encode_full_ok par ho e body now rto hfull hg).1]
      have hf := bumpN_fields e.bump e.p
      have hgh := bumpN_ghost e.bump e.p (by simpa using hp) (bump_ghost e hp h.ghost)
      simp only [bump_d, bump_p, bump_vnext] at hf
      refine ⟨by simpa [hf.1] using hd, by simpa [hf.2.1] using hpp, by simpa [hf.1, hf.2.1] using h.nle,
        by simpa [hf.1] using hd, ?_, ?_⟩
      · simpa [Enc.paws, Enc.shardSize, hf.1, hf.2.1] using hgh
      · simp only [Enc.shardSize, hf.1, hf.2.1, hf.2.2.2.2.2, List.length_nil]; exact hzero
    · rw [(encode_full_skip par ho e body now rto hfull hg).1]
      have hs := skip_ghost e.bump (by simpa using hp) (bump_ghost e hp h.ghost) hpos1 hpp
      refine ⟨hd, hpp, h.nle, hd, ?_, ?_⟩
      · simpa [Enc.paws, Enc.shardSize, Enc.skip] using hs
      · simp only [Enc.shardSize, Enc.skip, bump_vnext, bump_p, bump_d, List.length_nil]; exact hzero
  · rw [(encode_mid par ho e body now rto hfull).1]
    refine ⟨hd, hpp, h.nle, by simp only [List.length_append, List.length_cons, List.length_nil, bump_d]; omega, ?_, ?_⟩
    · simpa [Enc.paws, Enc.shardSize] using bump_ghost e hp h.ghost
    · simp only [bump_vnext, List.length_append, List.length_cons, List.length_nil, Nat.zero_add]
      exact mod_succ_of_lt _ _ _ h.pos (by simp only [Enc.shardSize, bump_d, bump_p]; omega)

/-! ### parity packets -/

theorem mod_add_of_lt (v n l k : Nat) (h : v % n = l) (hl : l + k < n) : (v + k) % n = l + k := by
  rw [Nat.add_mod, h, Nat.mod_eq_of_lt (show k < n by omega), Nat.mod_eq_of_lt hl]

/-- every packet `sealParities` produces: the k-th one carries the id counter after k steps -/
theorem mem_sealParities (bs : List Bytes) : ∀ (e : Enc) (q : Pkt), q ∈ sealParities e bs →
    ∃ k b, k < bs.length ∧ q.kind = .parity ∧ q.vid = e.vnext + k ∧ q.seqid = (bumpN e k).next ∧
      q.rest = fecHeader (BitVec.ofNat 32 q.seqid) typeParity ++ b ∧ bs[k]? = some b := by
  induction bs with
  | nil => intro e q h; simp [sealParities] at h
  | cons b bs ih =>
    intro e q h
    simp only [sealParities, List.mem_cons] at h
    rcases h with h | h
    · exact ⟨0, b, by simp, by rw [h], by rw [h]; rfl, by rw [h]; rfl, by rw [h], by simp⟩
    · obtain ⟨k, b', hk, h1, h2, h3, h4, h5⟩ := ih e.bump q h
      refine ⟨k + 1, b', by simp only [List.length_cons]; omega, h1, ?_, ?_, h4, by simpa using h5⟩
      · rw [h2, bump_vnext]; omega
      · rw [h3]; rfl

theorem sealParities_length (bs : List Bytes) : ∀ e : Enc, (sealParities e bs).length = bs.length := by
  induction bs with
  | nil => intro e; rfl
  | cons b bs ih => intro e; simp only [sealParities, List.length_cons, ih]

theorem fit_length (n : Nat) (b : Bytes) : (fit n b).length = n := by
  simp only [fit, List.length_take, List.length_append, List.length_replicate]; omega

/-! ### the crypt stage keeps the packets and draws once per packet -/

theorem cryptAll_pkts {γ : Type} (P : Prims γ) (c : Cfg) : ∀ (pkts : List Pkt) (g : γ),
    (cryptAll P c g pkts).emits.map (·.pkt) = pkts := by
  intro pkts
  induction pkts with
  | nil => intro g; rfl
  | cons x xs ih =>
    intro g
    simp only [cryptAll, List.map_cons, ih]
    congr 1
    simp only [crypt]; split <;> rfl

theorem cryptAll_length {γ : Type} (P : Prims γ) (c : Cfg) (pkts : List Pkt) (g : γ) :
    (cryptAll P c g pkts).emits.length = pkts.length := by
  have := congrArg List.length (cryptAll_pkts P c pkts g)
  simpa using this

/-- the FEC stage alone over a request list (no cipher, no entropy) -/
def fecAll {γ : Type} (P : Prims γ) (c : Cfg) : Option Enc → List Req → List Pkt
  | _, [] => []
  | enc, r :: rs => (fecStage P c enc r).2 ++ fecAll P c (fecStage P c enc r).1 rs

def fecEnd {γ : Type} (P : Prims γ) (c : Cfg) : Option Enc → List Req → Option Enc
  | enc, [] => enc
  | enc, r :: rs => fecEnd P c (fecStage P c enc r).1 rs

theorem postProcess_pkts {γ : Type} (P : Prims γ) (c : Cfg) : ∀ (reqs : List Req) (st : PP γ),
    (postProcess P c st reqs).emits.map (·.pkt) = fecAll P c st.enc reqs ∧
      (postProcess P c st reqs).st.enc = fecEnd P c st.enc reqs := by
  intro reqs
  induction reqs with
  | nil => intro st; exact ⟨rfl, rfl⟩
  | cons r rs ih =>
    intro st
    have := ih (ppStep P c st r).st
    simp only [postProcess, List.map_append, fecAll, fecEnd]
    refine ⟨?_, ?_⟩
    · rw [this.1]; simp only [ppStep, cryptAll_pkts]
    · rw [this.2]; simp only [ppStep]

/-- the first `n` outputs of the entropy source and its state afterwards -/
def drawsFrom {γ : Type} (P : Prims γ) : γ → Nat → List Bytes
  | _, 0 => []
  | g, n + 1 => (P.draw g).out :: drawsFrom P (P.draw g).g n

def genAfter {γ : Type} (P : Prims γ) : γ → Nat → γ
  | g, 0 => g
  | g, n + 1 => genAfter P (P.draw g).g n

theorem drawsFrom_add {γ : Type} (P : Prims γ) : ∀ (a b : Nat) (g : γ),
    drawsFrom P g (a + b) = drawsFrom P g a ++ drawsFrom P (genAfter P g a) b := by
  intro a
  induction a with
  | zero => intro b g; simp [drawsFrom, genAfter]
  | succ a ih => intro b g; rw [Nat.succ_add]; simp only [drawsFrom, genAfter, ih, List.cons_append]

theorem genAfter_add {γ : Type} (P : Prims γ) : ∀ (a b : Nat) (g : γ),
    genAfter P g (a + b) = genAfter P (genAfter P g a) b := by
  intro a
  induction a with
  | zero => intro b g; simp [genAfter]
  | succ a ih => intro b g; rw [Nat.succ_add]; simp only [genAfter, ih]

theorem cryptAll_draws {γ : Type} (P : Prims γ) (c : Cfg) (hc : c.cipher ≠ .none) : ∀ (pkts : List Pkt) (g : γ),
    (cryptAll P c g pkts).emits.map (·.nonce) = (drawsFrom P g pkts.length).map (·.take c.nonceLen) ∧
      (cryptAll P c g pkts).g = genAfter P g pkts.length := by
  intro pkts
  induction pkts with
  | nil => intro g; exact ⟨rfl, rfl⟩
  | cons x xs ih =>
    intro g
    cases hci : c.cipher with
    | none => exact absurd hci hc
    | aead n o =>
      have := ih (P.draw g).g
      simp only [cryptAll, crypt, hci, List.map_cons, List.length_cons, drawsFrom, genAfter, this.1, this.2,
        Cfg.nonceLen, and_self]
    | block =>
      have := ih (P.draw g).g
      simp only [cryptAll, crypt, hci, List.map_cons, List.length_cons, drawsFrom, genAfter, this.1, this.2,
        Cfg.nonceLen, and_self]

theorem postProcess_draws {γ : Type} (P : Prims γ) (c : Cfg) (hc : c.cipher ≠ .none) : ∀ (reqs : List Req) (st : PP γ),
    (postProcess P c st reqs).emits.map (·.nonce) =
        (drawsFrom P st.gen (postProcess P c st reqs).emits.length).map (·.take c.nonceLen) ∧
      (postProcess P c st reqs).st.gen = genAfter P st.gen (postProcess P c st reqs).emits.length := by
  intro reqs
  induction reqs with
  | nil => intro st; exact ⟨rfl, rfl⟩
  | cons r rs ih =>
    intro st
    have h2 := ih (ppStep P c st r).st
    have h1 := cryptAll_draws P c hc (fecStage P c st.enc r).2 st.gen
    have hl := cryptAll_length P c (fecStage P c st.enc r).2 st.gen
    simp only [postProcess, List.map_append, List.length_append]
    have e1 : (ppStep P c st r).emits = (cryptAll P c st.gen (fecStage P c st.enc r).2).emits := rfl
    have e2 : (ppStep P c st r).st.gen = (cryptAll P c st.gen (fecStage P c st.enc r).2).g := rfl
    rw [drawsFrom_add, genAfter_add, List.map_append, e1, hl, h1.1]
    rw [e2, h1.2] at h2
    exact ⟨by rw [h2.1], h2.2⟩

/-! ### lengths -/

/-- what the theorems about sizes need to know about the external primitives -/
structure LenLaws {γ : Type} (P : Prims γ) (c : Cfg) : Prop where
  encB  : ∀ x, (P.encB x).length = x.length                      -- block ciphers encrypt in place
  aseal : ∀ n x, (P.aseal n x).length = x.length + c.overhead     -- Seal appends exactly Overhead() bytes
  draw  : ∀ g, 16 ≤ (P.draw g).out.length                        -- one Read yields a 16-byte block
  nonce : c.nonceLen ≤ 16

theorem fecHeader_length (id : BitVec 32) (t : Nat) : (fecHeader id t).length = fecHeaderSize := rfl
theorem sizeField_length (n : Nat) : (sizeField n).length = 2 := rfl

theorem crypt_wire_length {γ : Type} (P : Prims γ) (c : Cfg) (L : LenLaws P c) (g : γ) (pkt : Pkt) :
    (crypt P c g pkt).emit.wire.length = c.cryptBase + pkt.rest.length + c.overhead := by
  have hd := L.draw g
  have hn := L.nonce
  cases hc : c.cipher with
  | none => simp only [crypt, hc, Cfg.cryptBase, Cfg.overhead]; omega
  | aead n o =>
    simp only [Cfg.nonceLen, hc] at hn
    have ha := L.aseal ((P.draw g).out.take n) pkt.rest
    simp only [Cfg.overhead, hc] at ha
    simp only [crypt, hc, Cfg.cryptBase, Cfg.overhead, List.length_append, List.length_take, ha]; omega
  | block =>
    simp only [crypt, hc, Cfg.cryptBase, Cfg.overhead, L.encB, cryptFrame, List.length_append, List.length_take,
      le32_length, cryptHeaderSize, nonceSize]; omega

theorem newMax_ge (ho : Nat) (e : Enc) (body : Bytes) :
    ho + fecHeaderSizePlus2 + body.length ≤ newMax ho e body ∧ e.maxSize ≤ newMax ho e body := by
  simp only [newMax]; split <;> omega

theorem newMax_le (ho : Nat) (e : Enc) (body : Bytes) (B : Nat) (h1 : e.maxSize ≤ B)
    (h2 : ho + fecHeaderSizePlus2 + body.length ≤ B) : newMax ho e body ≤ B := by
  simp only [newMax]; split <;> omega

/-- data packet: FEC header + size field + body; parity packets: FEC header + a shard of
`maxSize - payloadOffset` bytes, i.e. as long as the longest data packet of the group -/
theorem encode_lengths (par : List Bytes → Nat → Bytes) (ho : Nat) (e : Enc) (body : Bytes) (now rto : Int) :
    (encode par ho e body now rto).pkt.rest.length = fecHeaderSizePlus2 + body.length ∧
    ∀ q ∈ (encode par ho e body now rto).parity, ho + q.rest.length = newMax ho e body := by
  refine ⟨?_, ?_⟩
  · rw [encode_pkt]; simp only [List.length_append, fecHeader_length, sizeField_length, fecHeaderSize, fecHeaderSizePlus2]
  · intro q hq
    by_cases hfull : e.cache.length + 1 = e.d
    · by_cases hg : now - e.tsLatest < rto
      · rw [(encode_full_ok par ho e body now rto hfull hg).2] at hq
        obtain ⟨k, b, hk, _, _, _, h4, h5⟩ := mem_sealParities _ _ _ hq
        have hb : b.length = newMax ho e body - (ho + fecHeaderSize) := by
          rw [List.getElem?_map] at h5
          cases hr : (List.range e.p)[k]? with
          | none => rw [hr] at h5; cases h5
          | some x => rw [hr] at h5; simp only [Option.map_some, Option.some.injEq] at h5; rw [← h5, fit_length]
        have := (newMax_ge ho e body).1
        rw [h4]; simp only [List.length_append, fecHeader_length, hb, fecHeaderSize, fecHeaderSizePlus2] at this ⊢
        omega
      · rw [(encode_full_skip par ho e body now rto hfull hg).2] at hq; cases hq
    · rw [(encode_mid par ho e body now rto hfull).2] at hq; cases hq

theorem encode_maxSize (par : List Bytes → Nat → Bytes) (ho : Nat) (e : Enc) (body : Bytes) (now rto : Int) :
    (encode par ho e body now rto).enc.maxSize = 0 ∨ (encode par ho e body now rto).enc.maxSize = newMax ho e body := by
  by_cases hfull : e.cache.length + 1 = e.d
  · by_cases hg : now - e.tsLatest < rto
    · rw [(encode_full_ok par ho e body now rto hfull hg).1]; exact Or.inl rfl
    · rw [(encode_full_skip par ho e body now rto hfull hg).1]; exact Or.inl rfl
  · rw [(encode_mid par ho e body now rto hfull).1]; exact Or.inr rfl

theorem mem_cryptAll {γ : Type} (P : Prims γ) (c : Cfg) : ∀ (pkts : List Pkt) (g : γ),
    ∀ em ∈ (cryptAll P c g pkts).emits, ∃ g' pkt, pkt ∈ pkts ∧ em = (crypt P c g' pkt).emit := by
  intro pkts
  induction pkts with
  | nil => intro g em hem; cases hem
  | cons x xs ih =>
    intro g em hem
    simp only [cryptAll, List.mem_cons] at hem
    rcases hem with hem | hem
    · exact ⟨g, x, by simp, hem⟩
    · obtain ⟨g', pkt, h1, h2⟩ := ih _ em hem
      exact ⟨g', pkt, by simp [h1], h2⟩

theorem crypt_pkt {γ : Type} (P : Prims γ) (c : Cfg) (g : γ) (pkt : Pkt) : (crypt P c g pkt).emit.pkt = pkt := by
  simp only [crypt]; split <;> rfl

end KcpVerif.SessOut
