import KcpVerif.Model.SessOut
import KcpVerif.Lemmas.Wire
/-! helper lemmas about the FEC encoder model and `postProcess` (core Lean only) -/
namespace KcpVerif.SessOut
open KcpVerif.Gen KcpVerif.Wire

/-! ### arithmetic of `paws` -/

theorem paws_dvd (e : Enc) : e.shardSize ∣ e.paws := ⟨4294967295 / e.shardSize, by simp [Enc.paws, Nat.mul_comm]⟩

theorem paws_lt (e : Enc) : e.paws < 4294967296 := by
  have := Nat.div_mul_le_self 4294967295 e.shardSize
  simp only [Enc.paws]; omega

theorem paws_pos (e : Enc) (h1 : 0 < e.shardSize) (h2 : e.shardSize ≤ 256) : 0 < e.paws := by
  have h : 4294967295 / e.shardSize * e.shardSize + 4294967295 % e.shardSize = 4294967295 := by
    rw [Nat.mul_comm]; exact Nat.div_add_mod _ _
  have := Nat.mod_lt 4294967295 h1
  simp only [Enc.paws]; omega

/-- the state the encoder is in between packets -/
structure Enc.Inv (e : Enc) : Prop where
  dpos  : 0 < e.d
  ppos  : 0 < e.p
  nle   : e.d + e.p ≤ 256
  cnt   : e.cache.length < e.d
  ghost : e.next = e.vnext % e.paws
  pos   : e.vnext % e.shardSize = e.cache.length

theorem Enc.Inv.paws_pos {e : Enc} (h : e.Inv) : 0 < e.paws :=
  SessOut.paws_pos e (by have := h.dpos; simp only [Enc.shardSize]; omega) (by simp only [Enc.shardSize]; exact h.nle)

theorem Enc.Inv.next_lt {e : Enc} (h : e.Inv) : e.next < e.paws := by
  rw [h.ghost]; exact Nat.mod_lt _ h.paws_pos

/-- the position of `next` in the data/parity cycle is the number of shards collected -/
theorem Enc.Inv.next_pos {e : Enc} (h : e.Inv) : e.next % e.shardSize = e.cache.length := by
  rw [h.ghost, Nat.mod_mod_of_dvd _ (paws_dvd e)]; exact h.pos

@[simp] theorem bump_d (e : Enc) : e.bump.d = e.d := rfl
@[simp] theorem bump_p (e : Enc) : e.bump.p = e.p := rfl
@[simp] theorem bump_cache (e : Enc) : e.bump.cache = e.cache := rfl
@[simp] theorem bump_maxSize (e : Enc) : e.bump.maxSize = e.maxSize := rfl
@[simp] theorem bump_ts (e : Enc) : e.bump.tsLatest = e.tsLatest := rfl
@[simp] theorem bump_vnext (e : Enc) : e.bump.vnext = e.vnext + 1 := rfl
@[simp] theorem bump_paws (e : Enc) : e.bump.paws = e.paws := rfl
@[simp] theorem bump_shardSize (e : Enc) : e.bump.shardSize = e.shardSize := rfl

/-- one `sealData`/`sealParity` keeps `next = vnext % paws` (no uint32 overflow: `next + 1 ≤ paws < 2^32`) -/
theorem bump_ghost (e : Enc) (hp : 0 < e.paws) (hg : e.next = e.vnext % e.paws) :
    e.bump.next = e.bump.vnext % e.bump.paws := by
  have h1 : e.next < e.paws := by rw [hg]; exact Nat.mod_lt _ hp
  have h2 := paws_lt e
  have h3 : u32w (e.next + 1) = e.next + 1 := by simp only [u32w]; omega
  show u32w (e.next + 1) % e.paws = (e.vnext + 1) % e.paws
  rw [h3, hg, Nat.add_mod (e.vnext) 1 e.paws, Nat.add_mod (e.vnext % e.paws) 1 e.paws, Nat.mod_mod]

theorem bumpN_fields (e : Enc) (k : Nat) :
    (bumpN e k).d = e.d ∧ (bumpN e k).p = e.p ∧ (bumpN e k).cache = e.cache ∧ (bumpN e k).maxSize = e.maxSize ∧
    (bumpN e k).tsLatest = e.tsLatest ∧ (bumpN e k).vnext = e.vnext + k := by
  induction k generalizing e with
  | zero => simp [bumpN]
  | succ k ih =>
    have := ih e.bump
    simp only [bump_d, bump_p, bump_cache, bump_maxSize, bump_ts, bump_vnext] at this
    obtain ⟨h1, h2, h3, h4, h5, h6⟩ := this
    refine ⟨h1, h2, h3, h4, h5, ?_⟩
    simp only [bumpN, h6]; omega

theorem bumpN_paws (e : Enc) (k : Nat) : (bumpN e k).paws = e.paws := by
  have := bumpN_fields e k
  simp only [Enc.paws, Enc.shardSize, this.1, this.2.1]

theorem bumpN_ghost (e : Enc) (k : Nat) (hp : 0 < e.paws) (hg : e.next = e.vnext % e.paws) :
    (bumpN e k).next = (bumpN e k).vnext % (bumpN e k).paws := by
  induction k generalizing e with
  | zero => exact hg
  | succ k ih => exact ih e.bump (by simpa using hp) (bump_ghost e hp hg)

/-- `skipParity` from the position right behind the last data shard: `next + p ≤ paws`, so the
uint32 addition does not wrap and the skip is `p` single steps. -/
theorem skip_ghost (e : Enc) (hp : 0 < e.paws) (hg : e.next = e.vnext % e.paws)
    (hpos : e.vnext % e.shardSize = e.d) (hpp : 0 < e.p) :
    e.skip.next = e.skip.vnext % e.paws := by
  have hn : 0 < e.shardSize := by simp only [Enc.shardSize]; omega
  have h1 : e.next < e.paws := by rw [hg]; exact Nat.mod_lt _ hp
  have hpos' : e.next % e.shardSize = e.d := by rw [hg, Nat.mod_mod_of_dvd _ (paws_dvd e)]; exact hpos
  -- next = n*a + d with a < q, paws = q*n
  have hq : e.paws = 4294967295 / e.shardSize * e.shardSize := rfl
  have hdm := Nat.div_add_mod e.next e.shardSize
  have ha : e.next / e.shardSize < 4294967295 / e.shardSize := by
    rw [Nat.div_lt_iff_lt_mul hn]; rw [← hq]; exact h1
  have hmul : e.shardSize * (e.next / e.shardSize + 1) ≤ e.shardSize * (4294967295 / e.shardSize) :=
    Nat.mul_le_mul_left _ ha
  rw [Nat.mul_add, Nat.mul_one, Nat.mul_comm e.shardSize (4294967295 / e.shardSize), ← hq] at hmul
  have hsz : e.shardSize = e.d + e.p := rfl
  have hle : e.next + e.p ≤ e.paws := by omega
  have h2 := paws_lt e
  have h3 : u32w (e.next + e.p) = e.next + e.p := by simp only [u32w]; omega
  show u32w (e.next + e.p) % e.paws = (e.vnext + e.p) % e.paws
  rw [h3, hg, Nat.add_mod (e.vnext) e.p e.paws, Nat.add_mod (e.vnext % e.paws) e.p e.paws, Nat.mod_mod]

/-! ### `encode` case by case -/

theorem encode_pkt (par : List Bytes → Nat → Bytes) (ho : Nat) (e : Enc) (body : Bytes) (now rto : Int) :
    (encode par ho e body now rto).pkt =
      { kind := .data, seqid := e.next, vid := e.vnext,
        rest := fecHeader (BitVec.ofNat 32 e.next) typeData ++ sizeField body.length ++ body } := by
  simp only [encode]
  split
  · split <;> rfl
  · rfl

/-- the length `maxSize` takes when a packet of `ho + 8 + |body|` bytes joins the group -/
def newMax (ho : Nat) (e : Enc) (body : Bytes) : Nat :=
  if e.maxSize < ho + fecHeaderSizePlus2 + body.length then ho + fecHeaderSizePlus2 + body.length else e.maxSize

theorem encode_mid (par : List Bytes → Nat → Bytes) (ho : Nat) (e : Enc) (body : Bytes) (now rto : Int)
    (h : e.cache.length + 1 ≠ e.d) :
    (encode par ho e body now rto).enc =
        { e.bump with maxSize := newMax ho e body, cache := e.cache ++ [sizeField body.length ++ body], tsLatest := now } ∧
      (encode par ho e body now rto).parity = [] := by
  simp only [encode, bump_cache, bump_d, List.length_append, List.length_cons, List.length_nil, h, if_false, newMax,
    bump_maxSize, Nat.zero_add]
  exact ⟨rfl, trivial⟩

theorem encode_full_ok (par : List Bytes → Nat → Bytes) (ho : Nat) (e : Enc) (body : Bytes) (now rto : Int)
    (h : e.cache.length + 1 = e.d) (hg : now - e.tsLatest < rto) :
    (encode par ho e body now rto).enc = { bumpN e.bump e.p with maxSize := 0, cache := [], tsLatest := now } ∧
      (encode par ho e body now rto).parity =
        sealParities e.bump ((List.range e.p).map fun k =>
          fit (newMax ho e body - (ho + fecHeaderSize))
            (par ((e.cache ++ [sizeField body.length ++ body]).map (fit (newMax ho e body - (ho + fecHeaderSize)))) k)) := by
  simp only [encode, bump_cache, bump_d, List.length_append, List.length_cons, List.length_nil, h, if_true, newMax,
    bump_maxSize, bump_ts, bump_p, hg, Nat.zero_add]
  exact ⟨trivial, rfl⟩

theorem encode_full_skip (par : List Bytes → Nat → Bytes) (ho : Nat) (e : Enc) (body : Bytes) (now rto : Int)
    (h : e.cache.length + 1 = e.d) (hg : ¬ now - e.tsLatest < rto) :
    (encode par ho e body now rto).enc = { e.bump.skip with maxSize := 0, cache := [], tsLatest := now } ∧
      (encode par ho e body now rto).parity = [] := by
  simp only [encode, bump_cache, bump_d, List.length_append, List.length_cons, List.length_nil, h, if_true,
    bump_ts, hg, if_false, Nat.zero_add]
  exact ⟨trivial, trivial⟩

/-! ### the invariant is inductive -/

theorem newEnc_inv (c : Cfg) (e : Enc) (h : newEnc c = some e) : e.Inv := by
  unfold newEnc at h
  split at h
  · rename_i hf
    simp only [Cfg.fecOn, Bool.and_eq_true, decide_eq_true_eq] at hf
    cases h
    exact ⟨hf.1.1, hf.1.2, hf.2, hf.1.1, by simp, by simp⟩
  · cases h

theorem mod_succ_of_lt (v n l : Nat) (h : v % n = l) (hl : l + 1 < n) : (v + 1) % n = l + 1 := by
  rw [Nat.add_mod, h, Nat.mod_eq_of_lt (show 1 < n by omega), Nat.mod_eq_of_lt hl]

theorem mod_close_group (v d p : Nat) (h : v % (d + p) = d) : (v + p) % (d + p) = 0 := by
  have := Nat.div_add_mod v (d + p)
  have e : v + p = (d + p) * (v / (d + p) + 1) := by rw [Nat.mul_add, Nat.mul_one]; omega
  rw [e, Nat.mul_mod_right]

theorem encode_inv (par : List Bytes → Nat → Bytes) (ho : Nat) (e : Enc) (body : Bytes) (now rto : Int)
    (h : e.Inv) : (encode par ho e body now rto).enc.Inv := by
  have hp := h.paws_pos
  have hn : e.shardSize = e.d + e.p := rfl
  have hd := h.dpos; have hpp := h.ppos; have hc := h.cnt
  by_cases hfull : e.cache.length + 1 = e.d
  · -- the group closes: next advances over the parity ids, one by one or by `skipParity`
    have hpos1 : e.bump.vnext % e.bump.shardSize = e.d := by
      simp only [bump_vnext, bump_shardSize]
      by_cases h1 : e.d = 1
      · have : e.cache.length = 0 := by omega
        rw [Nat.add_mod, h.pos, this, Nat.zero_add, Nat.mod_mod, Nat.mod_eq_of_lt (by omega : 1 < e.shardSize)]
        exact h1.symm
      · rw [mod_succ_of_lt _ _ _ h.pos (by omega)]; exact hfull
    have hzero : (e.vnext + 1 + e.p) % (e.d + e.p) = 0 := mod_close_group _ _ _ (by simpa [hn] using hpos1)
    by_cases hg : now - e.tsLatest < rto
    · rw [(encode_full_ok par ho e body now rto hfull hg).1]
      have hf := bumpN_fields e.bump e.p
      have hgh := bumpN_ghost e.bump e.p (by simpa using hp) (bump_ghost e hp h.ghost)
      simp only [bump_d, bump_p, bump_vnext] at hf
      refine ⟨by simpa [hf.1] using hd, by simpa [hf.2.1] using hpp, by simpa [hf.1, hf.2.1] using h.nle,
        by simpa [hf.1] using hd, ?_, ?_⟩
      · simpa [Enc.paws, Enc.shardSize, hf.1, hf.2.1] using hgh
      · simp only [Enc.shardSize, hf.1, hf.2.1, hf.2.2.2.2.2, List.length_nil]; exact hzero
    · rw [(encode_full_skip par ho e body now rto hfull hg).1]
      have hs := skip_ghost e.bump (by simpa using hp) (bump_ghost e hp h.ghost) hpos1 hpp
      refine ⟨hd, hpp, h.nle, hd, ?_, ?_⟩
      · simpa [Enc.paws, Enc.shardSize, Enc.skip] using hs
      · simp only [Enc.shardSize, Enc.skip, bump_vnext, bump_p, bump_d, List.length_nil]; exact hzero
  · rw [(encode_mid par ho e body now rto hfull).1]
    refine ⟨hd, hpp, h.nle, by simp only [List.length_append, List.length_cons, List.length_nil, bump_d]; omega, ?_, ?_⟩
    · simpa [Enc.paws, Enc.shardSize] using bump_ghost e hp h.ghost
    · simp only [bump_vnext, List.length_append, List.length_cons, List.length_nil, Nat.zero_add]
      exact mod_succ_of_lt _ _ _ h.pos (by simp only [Enc.shardSize, bump_d, bump_p]; omega)

end KcpVerif.SessOut
