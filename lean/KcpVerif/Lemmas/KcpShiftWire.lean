/-
C12 — `shiftIn` on one whole wire segment, and the consistency of the two shift conventions:
what endpoint A adds to an OUTGOING header (`OutRel σ`) is what its peer B's `shiftIn σ.swap`
adds to the same header when it comes in (`σ.swap = (b, a, u, t)`: B's send space is A's receive
space, B's clock is A's peer clock).
-/
import KcpVerif.Lemmas.KcpShiftOps
namespace KcpVerif.Shift
open KcpVerif KcpVerif.Gen KcpVerif.Kcp

/-- the peer's view of the same shift: its send space is our receive space, its clock our peer clock -/
def Sigma.swap (σ : Sigma) : Sigma := ⟨σ.b, σ.a, σ.u, σ.t⟩

theorem inDeltas_swap (σ : Sigma) :
    inDeltas σ.swap IKCP_CMD_PUSH = (σ.t, σ.a, σ.b) ∧ inDeltas σ.swap IKCP_CMD_ACK = (σ.u, σ.b, σ.b) ∧
    inDeltas σ.swap IKCP_CMD_WASK = (0, 0, σ.b) ∧ inDeltas σ.swap IKCP_CMD_WINS = (0, 0, σ.b) := by
  refine ⟨?_, ?_, ?_, ?_⟩ <;> simp [inDeltas, Sigma.swap, IKCP_CMD_PUSH, IKCP_CMD_ACK, IKCP_CMD_WASK, IKCP_CMD_WINS]

theorem encodeHdr_fields (conv : U32) (cmd frg : BitVec 8) (wnd : BitVec 16) (ts sn una : U32) (len : Nat) (rest : Bytes) :
    byteAt (encodeHdr conv cmd frg wnd ts sn una len ++ rest) 4 = cmd.toNat ∧
    rd32 (encodeHdr conv cmd frg wnd ts sn una len ++ rest) 8 = ts ∧
    rd32 (encodeHdr conv cmd frg wnd ts sn una len ++ rest) 12 = sn ∧
    rd32 (encodeHdr conv cmd frg wnd ts sn una len ++ rest) 16 = una ∧
    rd32 (encodeHdr conv cmd frg wnd ts sn una len ++ rest) 20 = u32 len := by
  have e : encodeHdr conv cmd frg wnd ts sn una len ++ rest =
      (le32 conv ++ [UInt8.ofNat cmd.toNat, UInt8.ofNat frg.toNat] ++ le16 wnd) ++ (le32 ts ++ (le32 sn ++ (le32 una ++ (le32 (u32 len) ++ rest)))) := by
    simp [encodeHdr]
  have l8 : (le32 conv ++ [UInt8.ofNat cmd.toNat, UInt8.ofNat frg.toNat] ++ le16 wnd).length = 8 := rfl
  refine ⟨?_, ?_, ?_, ?_, ?_⟩
  · have := cmd.isLt
    simp [encodeHdr, byteAt, le32]
  · rw [e, rd32_append_right (by rw [l8]; omega), l8]; exact rd32_le32 _ _
  · rw [e, rd32_append_right (by rw [l8]; omega), l8, rd32_append_right (by rw [le32_length]; omega), le32_length]
    exact rd32_le32 _ _
  · rw [e, rd32_append_right (by rw [l8]; omega), l8, rd32_append_right (by rw [le32_length]; omega), le32_length,
      rd32_append_right (by rw [le32_length]; omega), le32_length]
    exact rd32_le32 _ _
  · rw [e, rd32_append_right (by rw [l8]; omega), l8, rd32_append_right (by rw [le32_length]; omega), le32_length,
      rd32_append_right (by rw [le32_length]; omega), le32_length,
      rd32_append_right (by rw [le32_length]; omega), le32_length]
    exact rd32_le32 _ _

theorem shiftInF_nil (σ : Sigma) (n : Nat) : shiftInF σ n [] = [] := by
  cases n with
  | zero => rfl
  | succ n => rfl

/-- one whole segment on the wire: `shiftIn` adds the per-command constants to `ts`, `sn`, `una`
and leaves everything else (conv, cmd, frg, wnd, len, payload) alone -/
theorem shiftIn_single (σ : Sigma) (conv : U32) (cmd frg : BitVec 8) (wnd : BitVec 16) (ts sn una : U32)
    (data : Bytes) (hlen : data.length < 2 ^ 32) :
    shiftIn σ (encodeHdr conv cmd frg wnd ts sn una data.length ++ data) =
      encodeHdr conv cmd frg wnd (ts + (inDeltas σ cmd.toNat).1) (sn + (inDeltas σ cmd.toNat).2.1)
        (una + (inDeltas σ cmd.toNat).2.2) data.length ++ data := by
  obtain ⟨f4, f8, f12, f16, f20⟩ := encodeHdr_fields conv cmd frg wnd ts sn una data.length data
  generalize hD : encodeHdr conv cmd frg wnd ts sn una data.length ++ data = D at f4 f8 f12 f16 f20 ⊢
  have hDl : D.length = 24 + data.length := by rw [← hD, List.length_append, encodeHdr_length]
  have hdrop : D.drop IKCP_OVERHEAD = data := by
    rw [← hD, List.drop_append_of_le_length (by rw [encodeHdr_length]; simp [IKCP_OVERHEAD]),
      List.drop_of_length_le (by rw [encodeHdr_length]; simp [IKCP_OVERHEAD]), List.nil_append]
  have hl : (rd32 D 20).toNat = data.length := by
    rw [f20]; simp only [u32, BitVec.toNat_ofNat]; exact Nat.mod_eq_of_lt hlen
  have hcmd : (BitVec.ofNat 8 (byteAt D 4)).toNat = cmd.toNat := by
    rw [f4]; simp
  unfold shiftIn
  rw [shiftInF_succ]
  have c0 : ¬ D.length < IKCP_OVERHEAD := by simp only [IKCP_OVERHEAD]; omega
  simp only [if_neg c0, hdrop, hl, Nat.lt_irrefl, if_false, List.take_length, List.drop_length, shiftInF_nil,
    List.append_nil]
  congr 1
  unfold shiftHd hdrShift
  rw [hcmd, f8, f12, f16]
  have e8 : D.take 8 = le32 conv ++ [UInt8.ofNat cmd.toNat, UInt8.ofNat frg.toNat] ++ le16 wnd := by
    rw [← hD]; simp [encodeHdr, le32, le16]
  have e20 : D.drop 20 = le32 (u32 data.length) ++ data := by
    rw [← hD]; simp [encodeHdr, le32, le16]
  rw [e8, e20]
  simp [encodeHdr, le32, le16, IKCP_OVERHEAD]

end KcpVerif.Shift
