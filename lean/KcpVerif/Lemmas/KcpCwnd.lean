/-
C04 (congestion window): collapse to one segment after a retransmission timeout, floor of one
segment after every flush, cap at the remote window after the ack-driven growth.
Core Lean only.
-/
import KcpVerif.Lemmas.KcpOps

namespace KcpVerif.Kcp
open KcpVerif KcpVerif.Gen

/-- segment `s` of `snd_buf` is retransmitted BY TIMEOUT in phase 5 (not acknowledged, sent before,
not taken by either fast-retransmit rule, `resendts` reached) -/
def RtoDue (now resent : U32) (newSegs : Nat) (s : Seg) : Prop :=
  s.acked = false ∧ s.xmit ≠ 0 ∧ ¬ (s.fastack ≥ resent ∧ s.fastack ≠ 0xFFFFFFFF#32) ∧
  ¬ (s.fastack > 0 ∧ s.fastack ≠ 0xFFFFFFFF#32 ∧ newSegs = 0) ∧ itimediff now s.resendts ≥ 0

instance (now resent : U32) (n : Nat) (s : Seg) : Decidable (RtoDue now resent n s) := by
  unfold RtoDue; exact inferInstance

theorem xmitDec_lost (k : Kcp) (now resent : U32) (n : Nat) (s : Seg) (ha : s.acked = false) :
    (xmitDec k now resent n s).2.2.2 = if RtoDue now resent n s then 1 else 0 := by
  unfold xmitDec
  by_cases h1 : s.xmit = 0
  · rw [if_pos h1, if_neg (fun h => by unfold RtoDue at h; exact h.2.1 h1)]
  · rw [if_neg h1]
    by_cases h2 : s.fastack ≥ resent ∧ s.fastack ≠ 0xFFFFFFFF#32
    · rw [if_pos h2, if_neg (fun h => by unfold RtoDue at h; exact h.2.2.1 h2)]
    · rw [if_neg h2]
      by_cases h3 : s.fastack > 0 ∧ s.fastack ≠ 0xFFFFFFFF#32 ∧ n = 0
      · rw [if_pos h3, if_neg (fun h => by unfold RtoDue at h; exact h.2.2.2.1 h3)]
      · rw [if_neg h3]
        by_cases h4 : itimediff now s.resendts ≥ 0
        · rw [if_pos h4, if_pos (show RtoDue now resent n s from ⟨ha, h1, h2, h3, h4⟩)]
        · rw [if_neg h4, if_neg (fun h => by unfold RtoDue at h; exact h4 h.2.2.2.2)]

theorem xmitOne_lost (now resent : U32) (wnd : BitVec 16) (una : U32) (n : Nat) (st : XmitSt) (s : Seg) :
    (xmitOne now resent wnd una n st s).lost = st.lost + if RtoDue now resent n s then 1 else 0 := by
  rw [xmitOne_eq]
  split
  · rename_i ha
    have : ¬ RtoDue now resent n s := fun h => by rw [h.1] at ha; cases ha
    rw [if_neg this]; rfl
  · rename_i ha
    show st.lost + (xmitDec st.f.k now resent n s).2.2.2 = _
    rw [xmitDec_lost _ _ _ _ _ (by simpa using ha)]

theorem xmitFold_lost (now resent : U32) (wnd : BitVec 16) (una : U32) (n : Nat) (l : List Seg) (st : XmitSt) :
    (l.foldl (xmitOne now resent wnd una n) st).lost = st.lost + l.countP (fun s => decide (RtoDue now resent n s)) := by
  induction l generalizing st with
  | nil => rfl
  | cons s r ih =>
    rw [List.foldl_cons, ih, xmitOne_lost, List.countP_cons]
    by_cases h : RtoDue now resent n s
    · rw [if_pos h, if_pos (decide_eq_true h)]; omega
    · rw [if_neg h, if_neg (by rw [decide_eq_true_eq]; exact h)]; omega

/-- the number of timeout retransmissions of a full flush of `k` at time `now` -/
def flushLost (k : Kcp) (now : U32) : Nat :=
  (flushAd k now).buf.countP (fun s => decide (RtoDue now (resentOf k) (flushAd k now).count s))

/-! ### phase 6 -/

theorem p6floor_ge (k : Kcp) : 1 ≤ (p6floor k).cwnd := by
  unfold p6floor; split
  · exact BitVec.le_refl _
  · rename_i h; bv_omega

theorem p6floor_one (k : Kcp) (h : k.cwnd = 1) : (p6floor k).cwnd = 1 := by
  unfold p6floor; split
  · rfl
  · exact h

theorem p6lost_one (k : Kcp) (cwnd : U32) (lost : Nat) (h : lost > 0) : (p6lost k cwnd lost).cwnd = 1 := by
  unfold p6lost; rw [if_pos h]

/-- with congestion control on, the window after phase 6 is at least one segment -/
theorem phase6_ge (k5 : Kcp) (cwnd resent : U32) (change lost : Nat) (hn : k5.nocwnd = 0) :
    1 ≤ (phase6 k5 cwnd resent change lost).cwnd := by
  unfold phase6; rw [if_pos hn]; exact p6floor_ge _

/-- … and exactly one segment after a timeout retransmission -/
theorem phase6_collapse (k5 : Kcp) (cwnd resent : U32) (change lost : Nat) (hn : k5.nocwnd = 0) (hl : lost > 0) :
    (phase6 k5 cwnd resent change lost).cwnd = 1 := by
  unfold phase6; rw [if_pos hn]; exact p6floor_one _ (p6lost_one _ _ _ hl)

/-- without timeout and without fast retransmit a window of at least one segment is left alone -/
theorem phase6_keep (k5 : Kcp) (cwnd resent : U32) (h1 : 1 ≤ k5.cwnd) : phase6 k5 cwnd resent 0 0 = k5 := by
  unfold phase6 p6floor p6lost p6change
  split
  · simp only [Nat.lt_irrefl, ↓reduceIte]
    rw [if_neg]; bv_omega
  · rfl

/-- the state handed to phase 6 by `flush`, and the loss count of phase 5 -/
theorem flush_phase6 (k : Kcp) (full : Bool) (now : U32) :
    ∃ (k5 : Kcp) (change lost : Nat),
      (flush k full now).k = phase6 k5 (effCwnd k) (resentOf k) change lost ∧
      k5.nocwnd = k.nocwnd ∧ k5.cwnd = k.cwnd ∧
      (full = true → lost = flushLost k now) ∧ (full = false → lost = 0 ∧ change = 0) := by
  rw [flush_eq]
  simp only []
  obtain ⟨pw, tp, h3⟩ := flushP3_k k now
  generalize flushP3 k now = f3 at h3
  have e4 : (flushP4 f3 now).k =
      { f3.k with snd_queue := (flushAd f3.k now).queue, snd_buf := (flushAd f3.k now).buf, snd_nxt := (flushAd f3.k now).nxt } := rfl
  have ead : flushAd f3.k now = flushAd k now := by rw [h3]; rfl
  have eeff : effCwnd f3.k = effCwnd k := by rw [h3]; rfl
  have eres : resentOf (flushP4 f3 now).k = resentOf k := by rw [e4, h3]; rfl
  obtain ⟨st, hx⟩ := flushX_k (flushP4 f3 now) full now k.wndUnused k.rcv_nxt (flushAd f3.k now).count
  generalize hxdef : flushX (flushP4 f3 now) full now k.wndUnused k.rcv_nxt (flushAd f3.k now).count = x at hx ⊢
  refine ⟨{ x.f.k with snd_buf := x.done }, x.change, x.lost, ?_, ?_, ?_, ?_, ?_⟩
  · rw [eeff, eres]
  · show x.f.k.nocwnd = _
    rw [hx, e4, h3]
  · show x.f.k.cwnd = _
    rw [hx, e4, h3]
  · intro hf
    subst hf
    rw [← hxdef]
    unfold flushX
    rw [if_pos rfl, xmitFold_lost, eres, e4]
    show 0 + (flushAd f3.k now).buf.countP _ = _
    rw [ead]; unfold flushLost; omega
  · intro hf
    subst hf
    rw [← hxdef]
    unfold flushX
    exact ⟨rfl, rfl⟩

/-- `flush_phase6` with the send-side fields of the state handed to phase 6 -/
theorem flush_phase6x (k : Kcp) (full : Bool) (now : U32) :
    ∃ (k5 : Kcp) (change lost : Nat),
      (flush k full now).k = phase6 k5 (effCwnd k) (resentOf k) change lost ∧
      k5.nocwnd = k.nocwnd ∧ k5.cwnd = k.cwnd ∧ k5.snd_nxt = (flushAd k now).nxt ∧ k5.snd_una = k.snd_una ∧
      (full = true → lost = flushLost k now) ∧ (full = false → lost = 0 ∧ change = 0) := by
  rw [flush_eq]
  simp only []
  obtain ⟨pw, tp, h3⟩ := flushP3_k k now
  generalize flushP3 k now = f3 at h3
  have e4 : (flushP4 f3 now).k =
      { f3.k with snd_queue := (flushAd f3.k now).queue, snd_buf := (flushAd f3.k now).buf, snd_nxt := (flushAd f3.k now).nxt } := rfl
  have ead : flushAd f3.k now = flushAd k now := by rw [h3]; rfl
  have eeff : effCwnd f3.k = effCwnd k := by rw [h3]; rfl
  have eres : resentOf (flushP4 f3 now).k = resentOf k := by rw [e4, h3]; rfl
  obtain ⟨st, hx⟩ := flushX_k (flushP4 f3 now) full now k.wndUnused k.rcv_nxt (flushAd f3.k now).count
  generalize hxdef : flushX (flushP4 f3 now) full now k.wndUnused k.rcv_nxt (flushAd f3.k now).count = x at hx ⊢
  refine ⟨{ x.f.k with snd_buf := x.done }, x.change, x.lost, ?_, ?_, ?_, ?_, ?_, ?_, ?_⟩
  · rw [eeff, eres]
  · show x.f.k.nocwnd = _
    rw [hx, e4, h3]
  · show x.f.k.cwnd = _
    rw [hx, e4, h3]
  · show x.f.k.snd_nxt = _
    rw [hx, e4, ← ead]
  · show x.f.k.snd_una = _
    rw [hx, e4, h3]
  · intro hf
    subst hf
    rw [← hxdef]
    unfold flushX
    rw [if_pos rfl, xmitFold_lost, eres, e4]
    show 0 + (flushAd f3.k now).buf.countP _ = _
    rw [ead]; unfold flushLost; omega
  · intro hf
    subst hf
    rw [← hxdef]
    unfold flushX
    exact ⟨rfl, rfl⟩

/-- `rto_collapse`: a full flush that retransmits at least one segment by timeout leaves `cwnd = 1`
(with congestion control on) -/
theorem flush_rto_collapse (k : Kcp) (now : U32) (hn : k.nocwnd = 0) (hl : flushLost k now > 0) :
    (flush k true now).k.cwnd = 1 := by
  obtain ⟨k5, change, lost, e, h1, _, h3, _⟩ := flush_phase6 k true now
  rw [e]
  exact phase6_collapse _ _ _ _ _ (h1.trans hn) (by rw [h3 rfl]; exact hl)

/-- `cwnd_sane`: after ANY flush with congestion control on, `1 ≤ cwnd` -/
theorem flush_cwnd_ge (k : Kcp) (full : Bool) (now : U32) (hn : k.nocwnd = 0) :
    1 ≤ (flush k full now).k.cwnd := by
  obtain ⟨k5, change, lost, e, h1, _, _, _⟩ := flush_phase6 k full now
  rw [e]
  exact phase6_ge _ _ _ _ _ (h1.trans hn)

/-- an ACK-only flush never lowers a sane congestion window -/
theorem flush_ackonly_cwnd (k : Kcp) (now : U32) (h1 : 1 ≤ k.cwnd) : (flush k false now).k.cwnd = k.cwnd := by
  obtain ⟨k5, change, lost, e, _, h2, _, h4⟩ := flush_phase6 k false now
  obtain ⟨hl, hc⟩ := h4 rfl
  rw [e, hl, hc, phase6_keep _ _ _ (by rw [h2]; exact h1), h2]

/-! ### which segments make `flushLost` positive -/

theorem admitSegs_prefix (conv una cwnd now : U32) (q buf : List Seg) (nxt : U32) (c : Nat) :
    ∃ new, (admitSegs conv una cwnd now q buf nxt c).buf = buf ++ new := by
  induction q generalizing buf nxt c with
  | nil => exact ⟨[], by simp [admitSegs]⟩
  | cons s r ih =>
    unfold admitSegs
    split
    · exact ⟨[], by simp⟩
    · obtain ⟨new, e⟩ := ih (buf ++ [{ s with conv := conv, cmd := BitVec.ofNat 8 IKCP_CMD_PUSH, sn := nxt, ts := now, resendts := now }]) (nxt + 1) (c + 1)
      exact ⟨{ s with conv := conv, cmd := BitVec.ofNat 8 IKCP_CMD_PUSH, sn := nxt, ts := now, resendts := now } :: new, by rw [e]; simp⟩

theorem resentOf_ne_zero (k : Kcp) : resentOf k ≠ 0 := by
  unfold resentOf
  split
  · decide
  · rename_i h
    intro h0
    rw [h0] at h
    exact h (by decide)

/-- a sufficient condition that does not mention phase 4: some segment of `snd_buf` that is not
acknowledged, has been sent, has no pending fast-ack count, and whose `resendts` has been reached -/
theorem flushLost_pos (k : Kcp) (now : U32) (s : Seg) (hs : s ∈ k.snd_buf) (ha : s.acked = false)
    (hx : s.xmit ≠ 0) (hf : s.fastack = 0 ∨ s.fastack = 0xFFFFFFFF#32) (hd : itimediff now s.resendts ≥ 0) :
    flushLost k now > 0 := by
  unfold flushLost
  rw [gt_iff_lt, List.countP_pos_iff]
  obtain ⟨new, e⟩ := admitSegs_prefix k.conv k.snd_una (effCwnd k) now k.snd_queue k.snd_buf k.snd_nxt 0
  refine ⟨s, ?_, ?_⟩
  · unfold flushAd; rw [e]; exact List.mem_append_left _ hs
  · have hr := resentOf_ne_zero k
    rw [decide_eq_true_eq]
    refine ⟨ha, hx, ?_, ?_, hd⟩
    · rintro ⟨h1, h2⟩
      rcases hf with h | h
      · rw [h] at h1; apply hr; bv_omega
      · exact h2 h
    · rintro ⟨h1, h2, _⟩
      rcases hf with h | h
      · rw [h] at h1; exact absurd h1 (by decide)
      · exact h2 h

/-! ### the ack-driven growth -/

theorem cwCap_le (k1 : Kcp) (mss : U32) : (cwCap k1 mss).cwnd ≤ (cwCap k1 mss).rmt_wnd := by
  unfold cwCap; split
  · exact BitVec.le_refl _
  · rename_i h; bv_omega

/-- `cwnd ≤ rmt_wnd` after the update of `Input`, whenever the update fired … -/
theorem cwndOnAck_le (k : Kcp) (oldUna : U32)
    (hc : k.nocwnd = 0 ∧ itimediff k.snd_una oldUna > 0 ∧ k.cwnd < k.rmt_wnd) :
    (cwndOnAck k oldUna).cwnd ≤ (cwndOnAck k oldUna).rmt_wnd := by
  rw [cwndOnAck_eq, if_pos hc]; exact cwCap_le _ _

/-- … and it fired whenever `cwnd` changed -/
theorem cwndOnAck_changed (k : Kcp) (oldUna : U32) (hch : (cwndOnAck k oldUna).cwnd ≠ k.cwnd) :
    (cwndOnAck k oldUna).cwnd ≤ (cwndOnAck k oldUna).rmt_wnd := by
  by_cases hc : k.nocwnd = 0 ∧ itimediff k.snd_una oldUna > 0 ∧ k.cwnd < k.rmt_wnd
  · exact cwndOnAck_le k oldUna hc
  · exfalso; apply hch; rw [cwndOnAck_eq, if_neg hc]

/-- the remote window is not touched by the update, so the bound is against the peer's advertisement -/
theorem cwndOnAck_rmt (k : Kcp) (oldUna : U32) : (cwndOnAck k oldUna).rmt_wnd = k.rmt_wnd := by
  obtain ⟨a, b, e⟩ := cwndOnAck_shape k oldUna
  rw [e]

end KcpVerif.Kcp
