/-
`MoveFix` (the move loop has run to its fixpoint) as an invariant over all operations.
Core Lean only.
-/
import KcpVerif.Lemmas.KcpLiveOps
import KcpVerif.Lemmas.KcpLive

namespace KcpVerif.Live
open KcpVerif KcpVerif.Gen KcpVerif.Kcp

/-- the receive side is untouched -/
def RcvSame (a b : Kcp) : Prop :=
  a.rcv_buf = b.rcv_buf ∧ a.rcv_queue = b.rcv_queue ∧ a.rcv_nxt = b.rcv_nxt ∧ a.rcv_wnd = b.rcv_wnd

theorem MoveFix.of_same {a b : Kcp} (h : RcvSame a b) (hb : MoveFix b) : MoveFix a := by
  unfold MoveFix; rw [h.1, h.2.1, h.2.2.1, h.2.2.2]; exact hb

theorem send_rcv (k : Kcp) (b : Bytes) : RcvSame (send k b).k k := by
  unfold send
  simp only []
  refine ite_pred (fun r : SendRes => RcvSame r.k k) _ ⟨rfl, rfl, rfl, rfl⟩ ?_
  refine ite_pred (fun r : SendRes => RcvSame r.k k) _ ⟨rfl, rfl, rfl, rfl⟩ ?_
  refine ite_pred (fun r : SendRes => RcvSame r.k k) _ ⟨rfl, rfl, rfl, rfl⟩ ?_
  refine ite_pred (fun r : SendRes => RcvSame r.k k) _ ⟨rfl, rfl, rfl, rfl⟩ ?_
  refine ite_pred (fun r : SendRes => RcvSame r.k k) _ ⟨rfl, rfl, rfl, rfl⟩ ?_
  exact ⟨rfl, rfl, rfl, rfl⟩

theorem flush_rcv (k : Kcp) (full : Bool) (now : U32) : RcvSame (flush k full now).k k := by
  obtain ⟨_, _, _, _, _, _, h⟩ := flush_frame k full now
  rw [h]; exact ⟨rfl, rfl, rfl, rfl⟩

theorem RcvSame.trans {a b c : Kcp} (h1 : RcvSame a b) (h2 : RcvSame b c) : RcvSame a c :=
  ⟨h1.1.trans h2.1, h1.2.1.trans h2.2.1, h1.2.2.1.trans h2.2.2.1, h1.2.2.2.trans h2.2.2.2⟩

theorem update_rcv (k : Kcp) (now : U32) : RcvSame (update k now).k k := by
  unfold update
  simp only []
  refine ite_pred (fun r : FlushRes => RcvSame r.k k) _ ((flush_rcv _ true now).trans ?_) ?_
  · repeat' split
    all_goals exact ⟨rfl, rfl, rfl, rfl⟩
  · repeat' split
    all_goals exact ⟨rfl, rfl, rfl, rfl⟩

theorem setMtu_rcv (k : Kcp) (m : Int) : RcvSame (setMtu k m).1 k := by
  unfold setMtu
  simp only []
  repeat' split
  all_goals exact ⟨rfl, rfl, rfl, rfl⟩

theorem noDelay_rcv (k : Kcp) (nd iv rs nc : Int) : RcvSame (noDelay k nd iv rs nc) k := by
  unfold noDelay
  simp only []
  repeat' split
  all_goals exact ⟨rfl, rfl, rfl, rfl⟩

theorem cwndOnAck_rcv (k : Kcp) (old : U32) : RcvSame (cwndOnAck k old) k := by
  unfold cwndOnAck
  simp only []
  repeat' split
  all_goals exact ⟨rfl, rfl, rfl, rfl⟩

theorem updateAck_rcv (k : Kcp) (rtt : U32) : RcvSame (updateAck k rtt) k := by
  unfold updateAck smoothRtt
  simp only []
  repeat' split
  all_goals exact ⟨rfl, rfl, rfl, rfl⟩

theorem inPre_rcvSame (regular : Bool) (wnd : BitVec 16) (una : U32) (k : Kcp) : RcvSame (inPre regular wnd una k) k := by
  obtain ⟨sb, su, h⟩ := inPre_frame regular wnd una k
  rw [h]; exact ⟨rfl, rfl, rfl, rfl⟩

theorem inStep_fix (regular : Bool) (conv : U32) (cmd frg : BitVec 8) (wnd : BitVec 16) (ts sn una : U32)
    (payload : Bytes) (st : InLoop) (h : MoveFix st.k) :
    MoveFix (inStep regular conv cmd frg wnd ts sn una payload st).k := by
  have hpre : MoveFix (inPre regular wnd una st.k) := MoveFix.of_same (inPre_rcvSame regular wnd una st.k) h
  rw [inStep_k]
  split
  · obtain ⟨b, u, e2⟩ := ackPath_frame (inPre regular wnd una st.k) sn ts
    rw [e2]; exact hpre
  · split
    · split
      · split
        · exact parseData_fix _ _ hpre
        · exact hpre
      · exact hpre
    · split
      · exact hpre
      · exact hpre

theorem input_fix (k : Kcp) (data : Bytes) (regular ackNoDelay : Bool) (now : U32) (h : MoveFix k) :
    MoveFix (input k data regular ackNoDelay now).k := by
  have hst : MoveFix (inSt k data regular).k := by
    unfold inSt
    apply inputLoop_induct regular (fun x => MoveFix x.k)
    · intro st r h'; exact h'
    · intro conv cmd frg wnd ts sn una payload st _ _ _ h'
      exact inStep_fix regular conv cmd frg wnd ts sn una payload st h'
    · exact h
  have h2 : MoveFix (inK2 k data regular now) := by
    unfold inK2
    refine MoveFix.of_same (cwndOnAck_rcv _ _) ?_
    split
    · exact MoveFix.of_same (updateAck_rcv _ _) hst
    · exact hst
  rw [input_eq]
  split
  · exact h
  · split
    · exact hst
    · split
      · exact hst
      · split
        · exact MoveFix.of_same (flush_rcv _ _ _) h2
        · split
          · exact MoveFix.of_same (flush_rcv _ _ _) h2
          · split
            · exact MoveFix.of_same (flush_rcv _ _ _) h2
            · exact h2

/-- the only restriction: `WndSize` must not ENLARGE the receive window while segments are buffered
(settings before traffic); shrinking or leaving it is fine -/
def wndOk (k : Kcp) : Op → Prop
  | .wndSize _ r => r ≤ 0 ∨ k.rcv_buf = [] ∨ (BitVec.ofInt 32 r).toNat ≤ k.rcv_wnd.toNat
  | _ => True

instance (k : Kcp) (op : Op) : Decidable (wndOk k op) := by
  cases op <;> unfold wndOk <;> infer_instance

theorem step_fix (k : Kcp) (op : Op) (h : MoveFix k) (hok : wndOk k op) : MoveFix (step k op) := by
  cases op with
  | send b => exact MoveFix.of_same (send_rcv k b) h
  | recv n => exact recv_fix k n h
  | input d r a now => exact input_fix k d r a now h
  | flush full now => exact MoveFix.of_same (flush_rcv k full now) h
  | update now => exact MoveFix.of_same (update_rcv k now) h
  | setMtu m => exact MoveFix.of_same (setMtu_rcv k m) h
  | noDelay nd iv rs nc => exact MoveFix.of_same (noDelay_rcv k nd iv rs nc) h
  | wndSize s r =>
    show MoveFix (wndSize k s r)
    unfold wndOk at hok
    have hs : ∀ a : Kcp, MoveFix a → MoveFix (if s > 0 then { a with snd_wnd := BitVec.ofInt 32 s } else a) := by
      intro a ha; split
      · exact ha
      · exact ha
    unfold wndSize
    simp only []
    by_cases hr : r > 0
    · rw [if_pos hr]
      rcases hok with h1 | h1 | h1
      · omega
      · intro x rest hb; 
        have : (if s > 0 then { k with snd_wnd := BitVec.ofInt 32 s } else k).rcv_buf = [] := by
          split <;> exact h1
        simp only [] at hb
        rw [this] at hb; cases hb
      · intro x rest hb hx
        have hk := hs k h x rest
        have e1 : (if s > 0 then { k with snd_wnd := BitVec.ofInt 32 s } else k).rcv_buf = k.rcv_buf := by split <;> rfl
        have e2 : (if s > 0 then { k with snd_wnd := BitVec.ofInt 32 s } else k).rcv_nxt = k.rcv_nxt := by split <;> rfl
        have e3 : (if s > 0 then { k with snd_wnd := BitVec.ofInt 32 s } else k).rcv_queue = k.rcv_queue := by split <;> rfl
        simp only [] at hb hx ⊢
        rw [e1] at hb; rw [e2] at hx; rw [e3]
        have := h x rest hb hx
        omega
    · rw [if_neg hr]; exact hs k h

/-- every operation of the list satisfies `wndOk` in the state it is applied to -/
def runWndOk (k : Kcp) : List Op → Prop
  | [] => True
  | op :: rest => wndOk k op ∧ runWndOk (step k op) rest

theorem run_fix (k : Kcp) (ops : List Op) (h : MoveFix k) (hok : runWndOk k ops) : MoveFix (run k ops) := by
  induction ops generalizing k with
  | nil => exact h
  | cons op rest ih => rw [run_cons]; exact ih _ (step_fix k op h hok.1) hok.2

theorem new_fix (conv : U32) : MoveFix (Kcp.new conv) := by
  intro s rest h; simp [Kcp.new] at h

end KcpVerif.Live
