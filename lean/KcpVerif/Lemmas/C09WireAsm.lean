/-
C09 `wire_reassembles`, part 3: what the specification's reassembler `Wire.Spec.reassemble` computes
on any collection of genuine segments.

`L` is a list of contents `(frg, payload)`; a decoded segment `x` is *genuine* for `L` (`SegGen`) when,
if it is a PUSH, its `(frg, payload)` is entry `sn` of `L`.  For ANY list `all` of genuine segments —
any order, duplicates (retransmissions), ACK/probe segments in between, segments missing — the walk
of the reassembler over `sn = 0, 1, 2, …` consumes exactly the first `n` entries of `L` for some
`n ≤ |L|` all of which are present, and returns the messages `grp (L.take n)` (`C01.grp`: cut at
every `frg = 0`, an unfinished tail is not delivered).  Pure list reasoning, core Lean only.
-/
import KcpVerif.Lemmas.C09WireEnc
import KcpVerif.Lemmas.C01Grp

namespace KcpVerif.C09W
open KcpVerif KcpVerif.Gen KcpVerif.Recv KcpVerif.C01

abbrev DSeg := Wire.SegHdr × Bytes

/-- a PUSH segment carries entry `sn` of `L` -/
def SegGen (L : List Content) (x : DSeg) : Prop :=
  x.1.cmd.toNat = 81 → L[x.1.sn.toNat]? = some (BitVec.ofNat 8 x.1.frg.toNat, x.2)

/-- a PUSH segment with sequence number `i` is among `all` -/
def Avail (all : List DSeg) (i : Nat) : Prop := ∃ x ∈ all, x.1.cmd.toNat = 81 ∧ x.1.sn.toNat = i

theorem findSn_some {all : List DSeg} {n : Nat} {x : DSeg} (h : Wire.Spec.findSn n all = some x) :
    x ∈ all ∧ x.1.cmd.toNat = 81 ∧ x.1.sn.toNat = n := by
  induction all with
  | nil => cases h
  | cons y ys ih =>
    unfold Wire.Spec.findSn at h
    split at h
    · rename_i hy
      cases h
      exact ⟨List.mem_cons_self .., hy.1, hy.2⟩
    · obtain ⟨h1, h2⟩ := ih h
      exact ⟨List.mem_cons_of_mem _ h1, h2⟩

theorem findSn_none {all : List DSeg} {n : Nat} (h : Wire.Spec.findSn n all = none) : ¬ Avail all n := by
  induction all with
  | nil => rintro ⟨x, hx, _⟩; cases hx
  | cons y ys ih =>
    unfold Wire.Spec.findSn at h
    split at h
    · cases h
    · rename_i hy
      rintro ⟨x, hx, h1, h2⟩
      rcases List.mem_cons.mp hx with h3 | h3
      · rw [h3] at h1 h2; exact hy ⟨h1, h2⟩
      · exact ih h ⟨x, h3, h1, h2⟩

/-- the message-level mirror of `Wire.Spec.reassembleFrom`: whole messages, in order -/
def asmFrom (all : List DSeg) : Nat → Nat → List Bytes → Bytes → List Bytes
  | 0, _, done, _ => done
  | fuel + 1, sn, done, pending =>
    match Wire.Spec.findSn sn all with
    | none => done
    | some x =>
      if x.1.frg.toNat = 0 then asmFrom all fuel (sn + 1) (done ++ [pending ++ x.2]) []
      else asmFrom all fuel (sn + 1) done (pending ++ x.2)

/-- the messages one direction of a connection carries, from all segments seen on the wire -/
def reassembleMsgs (all : List DSeg) : List Bytes := asmFrom all all.length 0 [] []

theorem reassembleFrom_flatten (all : List DSeg) : ∀ (fuel sn : Nat) (done : List Bytes) (pending : Bytes),
    Wire.Spec.reassembleFrom all fuel sn done.flatten pending = (asmFrom all fuel sn done pending).flatten := by
  intro fuel
  induction fuel with
  | zero => intro sn done pending; rfl
  | succ fuel ih =>
    intro sn done pending
    unfold Wire.Spec.reassembleFrom asmFrom
    cases Wire.Spec.findSn sn all with
    | none => rfl
    | some x =>
      simp only []
      split
      · rw [← ih]; simp [List.append_assoc]
      · rw [← ih]

/-- the byte stream of the specification is the concatenation of the messages -/
theorem reassemble_eq_flatten (all : List DSeg) : Wire.Spec.reassemble all = (reassembleMsgs all).flatten :=
  reassembleFrom_flatten all all.length 0 [] []

theorem bv8_zero_iff (m : Nat) (hm : m < 256) : BitVec.ofNat 8 m = 0 ↔ m = 0 := by
  constructor
  · intro h
    have := congrArg BitVec.toNat h
    simp at this
    omega
  · intro h; rw [h]; rfl

/-- **the walk of the reassembler**: started at `sn ≤ |L|` it consumes entries `sn … n-1` of `L`, all
of them present, appends their grouping, and stops at `n` because the fuel is used up, or `n = |L|`,
or segment `n` is not there -/
theorem asmFrom_spec (L : List Content) (all : List DSeg) (hg : ∀ x ∈ all, SegGen L x) :
    ∀ (fuel sn : Nat) (done : List Bytes) (pending : Bytes), sn ≤ L.length →
      ∃ n, sn ≤ n ∧ n ≤ L.length ∧ n ≤ sn + fuel ∧
        asmFrom all fuel sn done pending = done ++ grpAux pending ((L.take n).drop sn) ∧
        (∀ i, sn ≤ i → i < n → Avail all i) ∧ (n < sn + fuel → ¬ Avail all n) := by
  intro fuel
  induction fuel with
  | zero =>
    intro sn done pending hsn
    exact ⟨sn, Nat.le_refl _, hsn, Nat.le_refl _, by simp [asmFrom, grpAux], fun i h1 h2 => by omega, fun h => by omega⟩
  | succ fuel ih =>
    intro sn done pending hsn
    unfold asmFrom
    cases hf : Wire.Spec.findSn sn all with
    | none =>
      exact ⟨sn, Nat.le_refl _, hsn, by omega, by simp [grpAux], fun i h1 h2 => by omega, fun _ => findSn_none hf⟩
    | some x =>
      obtain ⟨hx, hcmd, hxsn⟩ := findSn_some hf
      have hgen := hg x hx hcmd
      rw [hxsn] at hgen
      have hlt : sn < L.length := by
        rcases Nat.lt_or_ge sn L.length with h2 | h2
        · exact h2
        · rw [List.getElem?_eq_none h2] at hgen; cases hgen
      have hLsn : L[sn] = (BitVec.ofNat 8 x.1.frg.toNat, x.2) := by
        rw [List.getElem?_eq_getElem hlt] at hgen; exact Option.some.inj hgen
      have hav : Avail all sn := ⟨x, hx, hcmd, hxsn⟩
      have hcons : ∀ n, sn + 1 ≤ n → n ≤ L.length →
          (L.take n).drop sn = (BitVec.ofNat 8 x.1.frg.toNat, x.2) :: (L.take n).drop (sn + 1) := by
        intro n h1 h2
        have hl : sn < (L.take n).length := by rw [List.length_take]; omega
        rw [List.drop_eq_getElem_cons hl, List.getElem_take, hLsn]
      simp only []
      split
      · rename_i hz
        obtain ⟨n, h1, h2, h3, h4, h5, h6⟩ := ih (sn + 1) (done ++ [pending ++ x.2]) [] hlt
        refine ⟨n, by omega, h2, by omega, ?_, ?_, fun h => h6 (by omega)⟩
        · rw [h4, hcons n h1 h2, grpAux_zero _ _ _ (by
            show BitVec.ofNat 8 x.1.frg.toNat = 0
            rw [hz]; rfl)]
          simp
        · intro i hi1 hi2
          rcases Nat.eq_or_lt_of_le hi1 with h7 | h7
          · rw [← h7]; exact hav
          · exact h5 i h7 hi2
      · rename_i hz
        obtain ⟨n, h1, h2, h3, h4, h5, h6⟩ := ih (sn + 1) done (pending ++ x.2) hlt
        refine ⟨n, by omega, h2, by omega, ?_, ?_, fun h => h6 (by omega)⟩
        · rw [h4, hcons n h1 h2, grpAux_ne _ _ _ (by
            show BitVec.ofNat 8 x.1.frg.toNat ≠ 0
            intro h0
            exact hz ((bv8_zero_iff _ x.1.frg.toNat_lt).mp h0))]
        · intro i hi1 hi2
          rcases Nat.eq_or_lt_of_le hi1 with h7 | h7
          · rw [← h7]; exact hav
          · exact h5 i h7 hi2

/-- pigeonhole: `n` different sequence numbers need `n` segments -/
theorem avail_length (all : List DSeg) : ∀ n, (∀ i, i < n → Avail all i) → n ≤ all.length := by
  intro n
  induction n generalizing all with
  | zero => intro _; exact Nat.zero_le _
  | succ n ih =>
    intro h
    obtain ⟨x, hx, _, hxn⟩ := h n (Nat.lt_succ_self n)
    have h2 : ∀ i, i < n → Avail (all.erase x) i := by
      intro i hi
      obtain ⟨y, hy, hc, hyn⟩ := h i (by omega)
      have hne : y ≠ x := by intro e; rw [e] at hyn; omega
      exact ⟨y, (List.mem_erase_of_ne hne).mpr hy, hc, hyn⟩
    have := ih (all.erase x) h2
    rw [List.length_erase_of_mem hx] at this
    have hpos : 0 < all.length := List.length_pos_of_mem hx
    omega

/-- **what the specification's reassembler returns**, message level -/
theorem reassembleMsgs_spec (L : List Content) (all : List DSeg) (hg : ∀ x ∈ all, SegGen L x) :
    ∃ n, n ≤ L.length ∧ reassembleMsgs all = grp (L.take n) ∧ (∀ i, i < n → Avail all i) ∧
      (n < L.length → ¬ Avail all n) := by
  obtain ⟨n, _, h2, h3, h4, h5, h6⟩ := asmFrom_spec L all hg all.length 0 [] [] (Nat.zero_le _)
  refine ⟨n, h2, by simpa [reassembleMsgs, grp] using h4, fun i hi => h5 i (Nat.zero_le _) hi, fun hlt hav => ?_⟩
  by_cases hfuel : n < 0 + all.length
  · exact h6 hfuel hav
  · -- the fuel ran out: `n = |all|`, but `n + 1` different sequence numbers are present
    have : n + 1 ≤ all.length := avail_length all (n + 1) (fun i hi => by
      rcases Nat.eq_or_lt_of_le (Nat.le_of_lt_succ hi) with h7 | h7
      · rw [h7]; exact hav
      · exact h5 i (Nat.zero_le _) h7)
    omega

/-! ### grouping of a prefix -/

theorem grpAux_take_prefix : ∀ (X : List Content) (acc : Bytes) (n : Nat), grpAux acc (X.take n) <+: grpAux acc X := by
  intro X
  induction X with
  | nil => intro acc n; simp
  | cons c X' ih =>
    intro acc n
    cases n with
    | zero => simp [grpAux]
    | succ n =>
      rw [List.take_succ_cons]
      by_cases h0 : c.1 = 0
      · rw [grpAux_zero _ _ _ h0, grpAux_zero _ _ _ h0]
        exact List.prefix_cons_inj _ |>.mpr (ih [] n)
      · rw [grpAux_ne _ _ _ h0, grpAux_ne _ _ _ h0]
        exact ih _ n

theorem grp_take_prefix (X : List Content) (n : Nat) : grp (X.take n) <+: grp X := grpAux_take_prefix X [] n

theorem grp_prefix_append (X Y : List Content) : grp X <+: grp (X ++ Y) := by
  have := grp_take_prefix (X ++ Y) X.length
  rwa [List.take_left] at this

/-- the whole messages are a prefix of the bytes -/
theorem grpAux_flatten_prefix : ∀ (X : List Content) (acc : Bytes), (grpAux acc X).flatten <+: acc ++ bytesOf X := by
  intro X
  induction X with
  | nil => intro acc; simp [grpAux]
  | cons c X' ih =>
    intro acc
    have e : acc ++ bytesOf (c :: X') = (acc ++ c.2) ++ bytesOf X' := by simp [bytesOf]
    by_cases h0 : c.1 = 0
    · rw [grpAux_zero _ _ _ h0, List.flatten_cons, e]
      have := ih []
      simp only [List.nil_append] at this
      exact (List.prefix_append_right_inj _).mpr this
    · rw [grpAux_ne _ _ _ h0, e]
      exact ih _

theorem grp_flatten_prefix (X : List Content) : (grp X).flatten <+: bytesOf X := by
  have := grpAux_flatten_prefix X []
  unfold grp
  simpa using this

/-- on a list that ends on a message boundary nothing is held back -/
theorem grpAux_flatten_closed : ∀ (X : List Content) (acc : Bytes), Closed X → (X = [] → acc = []) →
    (grpAux acc X).flatten = acc ++ bytesOf X := by
  intro X
  induction X with
  | nil => intro acc _ h; rw [h rfl]; rfl
  | cons c X' ih =>
    intro acc hc _
    have e : acc ++ bytesOf (c :: X') = (acc ++ c.2) ++ bytesOf X' := by simp [bytesOf]
    by_cases h0 : c.1 = 0
    · rw [grpAux_zero _ _ _ h0, List.flatten_cons, e, ih [] hc.tail (fun _ => rfl)]; simp
    · rw [grpAux_ne _ _ _ h0, e]
      apply ih _ hc.tail
      intro hX
      subst hX
      exact absurd (hc c rfl) h0

theorem grp_flatten_closed (X : List Content) (h : Closed X) : (grp X).flatten = bytesOf X := by
  have := grpAux_flatten_closed X [] h (fun _ => rfl)
  unfold grp
  simpa using this

theorem bytesOf_take_prefix' (X : List Content) (n : Nat) : bytesOf (X.take n) <+: bytesOf X := by
  conv => rhs; rw [← List.take_append_drop n X, bytesOf_append]
  exact List.prefix_append _ _

/-! ### from frames to decoded segments -/

/-- the specification decoder's view of a good frame of a core whose numbering starts at 0 -/
theorem specOf_segGen {L : List Content} {fr : Wire.Frm} (hL : L.length ≤ 2 ^ 32)
    (hpush : fr.cmd.toNat = IKCP_CMD_PUSH → ∃ i, fr.sn = 0 + BitVec.ofNat 32 i ∧ L[i]? = some (fr.frg, fr.data)) :
    SegGen L (specOf fr) := by
  intro hcmd
  have hcmd' : fr.cmd.toNat = IKCP_CMD_PUSH := by
    have : (UInt8.ofNat fr.cmd.toNat).toNat = 81 := hcmd
    rw [u8_toNat_of_bv8] at this
    exact this
  obtain ⟨i, h1, h2⟩ := hpush hcmd'
  have hlt : i < L.length := by
    rcases Nat.lt_or_ge i L.length with h3 | h3
    · exact h3
    · rw [List.getElem?_eq_none h3] at h2; cases h2
  have hsn : fr.sn.toNat = i := by
    rw [h1, BitVec.toNat_add, BitVec.toNat_ofNat]
    simp
    omega
  show L[fr.sn.toNat]? = some (BitVec.ofNat 8 (UInt8.ofNat fr.frg.toNat).toNat, fr.data)
  rw [hsn, h2, u8_toNat_of_bv8]
  simp

end KcpVerif.C09W
