/-
C12 — shift simulation, acknowledgement path: unaCount / parseUna / shrinkBuf / ackLoop / parseAck /
fastLoop / parseFastack / updateAck / cwndOnAck.
-/
import KcpVerif.Lemmas.KcpShiftBasic

namespace KcpVerif.Shift
open KcpVerif KcpVerif.Gen KcpVerif.Kcp

theorem unaCount_shift {σ : Sigma} {l l' : List Seg} (h : All₂ (SndRel σ) l l') (una : U32) :
    unaCount (una + σ.a) l' = unaCount una l := by
  induction h with
  | nil => rfl
  | cons hr _ ih => simp only [unaCount, hr.sn, itd_shift, ih]

theorem parseUna_sim {σ : Sigma} {k k' : Kcp} (h : Sim σ k k') (una : U32) :
    Sim σ (parseUna k una).1 (parseUna k' (una + σ.a)).1 ∧
      (parseUna k' (una + σ.a)).2 = (parseUna k una).2 := by
  have e := unaCount_shift h.snd_buf una
  refine ⟨?_, e⟩
  have hd : All₂ (SndRel σ) (k.snd_buf.drop (unaCount una k.snd_buf))
      (k'.snd_buf.drop (unaCount (una + σ.a) k'.snd_buf)) := by
    rw [e]; exact forall₂_drop h.snd_buf _
  exact { h with snd_buf := hd }

def headSn (l : List Seg) (d : U32) : U32 :=
  match l with
  | s :: _ => s.sn
  | [] => d

theorem shrinkBuf_eq (k : Kcp) :
    shrinkBuf k = { k with snd_buf := dropAcked k.snd_buf,
                           snd_una := headSn (dropAcked k.snd_buf) k.snd_nxt } := by
  cases hk : dropAcked k.snd_buf <;> simp only [shrinkBuf, headSn, hk]

theorem headSn_shift {σ : Sigma} {l l' : List Seg} (h : All₂ (SndRel σ) l l') (d : U32) :
    headSn l' (d + σ.a) = headSn l d + σ.a := by
  cases h with
  | nil => rfl
  | cons hr _ => exact hr.sn

/-- the shift does not touch the `acked` flags, so popping the acknowledged head segments
commutes with it -/
theorem dropAcked_shift {σ : Sigma} {l l' : List Seg} (h : All₂ (SndRel σ) l l') :
    All₂ (SndRel σ) (dropAcked l) (dropAcked l') := by
  induction h with
  | nil => exact All₂.nil
  | @cons s s' t t' hr ht ih =>
    simp only [dropAcked, hr.acked]
    by_cases c : s.acked = true
    · simp only [if_pos c]; exact ih
    · simp only [if_neg c]; exact All₂.cons hr ht

/-- `shrink_buf` (pop the acknowledged heads, then `snd_una := head.sn` or `snd_nxt`) commutes with the shift -/
theorem shrinkBuf_sim {σ : Sigma} {k k' : Kcp} (h : Sim σ k k') : Sim σ (shrinkBuf k) (shrinkBuf k') := by
  rw [shrinkBuf_eq, shrinkBuf_eq]
  have hd := dropAcked_shift h.snd_buf
  have e : headSn (dropAcked k'.snd_buf) k'.snd_nxt = headSn (dropAcked k.snd_buf) k.snd_nxt + σ.a := by
    rw [h.snd_nxt, headSn_shift hd]
  exact { h with snd_buf := hd, snd_una := e }

theorem shrinkBuf_shift {σ : Sigma} {k k' : Kcp} (h : Sim σ k k') : Sim σ (shrinkBuf k) (shrinkBuf k') :=
  shrinkBuf_sim h

theorem ackLoop_shift {σ : Sigma} {l l' : List Seg} (h : All₂ (SndRel σ) l l') (sn : U32) :
    All₂ (SndRel σ) (ackLoop sn l) (ackLoop (sn + σ.a) l') := by
  induction h with
  | nil => exact All₂.nil
  | @cons s s' t t' hr ht ih =>
    have e1 : (sn + σ.a = s'.sn) ↔ (sn = s.sn) := by rw [hr.sn, eq_shift]
    have e2 : itimediff (sn + σ.a) s'.sn = itimediff sn s.sn := by rw [hr.sn, itd_shift]
    simp only [ackLoop, e1, e2]
    by_cases c1 : sn = s.sn
    · simp only [c1, ↓reduceIte]
      exact All₂.cons { hr with acked := rfl, data := rfl } ht
    by_cases c2 : itimediff sn s.sn < 0
    · simp only [c1, c2, ↓reduceIte]
      exact All₂.cons hr ht
    · simp only [c1, c2, ↓reduceIte]
      exact All₂.cons hr ih

theorem inRange_shift {σ : Sigma} {k k' : Kcp} (h : Sim σ k k') (sn : U32) :
    (itimediff (sn + σ.a) k'.snd_una < 0 ∨ itimediff (sn + σ.a) k'.snd_nxt ≥ 0) ↔
      (itimediff sn k.snd_una < 0 ∨ itimediff sn k.snd_nxt ≥ 0) := by
  rw [h.snd_una, h.snd_nxt, itd_shift, itd_shift]

theorem parseAck_sim {σ : Sigma} {k k' : Kcp} (h : Sim σ k k') (sn : U32) :
    Sim σ (parseAck k sn) (parseAck k' (sn + σ.a)) := by
  unfold parseAck
  simp only [inRange_shift h]
  by_cases c : itimediff sn k.snd_una < 0 ∨ itimediff sn k.snd_nxt ≥ 0
  · simp only [c, ↓reduceIte]; exact h
  · simp only [c, ↓reduceIte]
    exact { h with snd_buf := ackLoop_shift h.snd_buf sn }

theorem fastLoop_shift {σ : Sigma} {l l' : List Seg} (h : All₂ (SndRel σ) l l') (sn ts fr fr' : U32)
    (hfr : fr' = fr) :
    All₂ (SndRel σ) (fastLoop sn ts fr l).buf (fastLoop (sn + σ.a) (ts + σ.t) fr' l').buf ∧
      (fastLoop (sn + σ.a) (ts + σ.t) fr' l').fire = (fastLoop sn ts fr l).fire := by
  subst hfr
  induction h with
  | nil => exact ⟨All₂.nil, rfl⟩
  | @cons s s' t t' hr ht ih =>
    have e1 : itimediff (sn + σ.a) s'.sn = itimediff sn s.sn := by rw [hr.sn, itd_shift]
    by_cases c1 : itimediff sn s.sn < 0
    · simp only [fastLoop, e1, c1, ↓reduceIte]
      exact ⟨All₂.cons hr ht, trivial⟩
    have e2 : (sn + σ.a ≠ s'.sn ∧ itimediff s'.ts (ts + σ.t) ≤ 0 ∧ s'.fastack ≠ 0xFFFFFFFF#32) ↔
        (sn ≠ s.sn ∧ itimediff s.ts ts ≤ 0 ∧ s.fastack ≠ 0xFFFFFFFF#32) := by
      have ea : (sn + σ.a = s'.sn) ↔ (sn = s.sn) := by rw [hr.sn, eq_shift]
      rw [hr.ts, itd_shift, hr.fastack, Ne, Ne, ea]
    simp only [fastLoop, e1, c1, ↓reduceIte, e2]
    by_cases c2 : sn ≠ s.sn ∧ itimediff s.ts ts ≤ 0 ∧ s.fastack ≠ 0xFFFFFFFF#32
    · simp only [if_pos c2]
      refine ⟨All₂.cons { hr with fastack := congrArg (· + 1) hr.fastack } ih.1, ?_⟩
      simp only [hr.fastack, ih.2]
    · simp only [if_neg c2]
      exact ⟨All₂.cons hr ih.1, ih.2⟩

theorem parseFastack_sim {σ : Sigma} {k k' : Kcp} (h : Sim σ k k') (sn ts : U32) :
    Sim σ (parseFastack k sn ts).1 (parseFastack k' (sn + σ.a) (ts + σ.t)).1 ∧
      (parseFastack k' (sn + σ.a) (ts + σ.t)).2 = (parseFastack k sn ts).2 := by
  unfold parseFastack
  simp only [inRange_shift h]
  by_cases c : itimediff sn k.snd_una < 0 ∨ itimediff sn k.snd_nxt ≥ 0
  · simp only [c, ↓reduceIte]; exact ⟨h, trivial⟩
  · simp only [c, ↓reduceIte]
    have hf := fastLoop_shift h.snd_buf sn ts k.fastresend k'.fastresend h.fastresend
    exact ⟨{ h with snd_buf := hf.1 }, hf.2⟩

/-! ### update_ack: no sequence number, no timestamp (it is given a difference) -/

theorem updateAck_frame (k : Kcp) (rtt : U32) :
    ∃ a b c, updateAck k rtt = { k with rx_srtt := a, rx_rttvar := b, rx_rto := c } := by
  unfold updateAck smoothRtt
  simp only []
  split <;> exact ⟨_, _, _, rfl⟩

theorem updateAck_congr (k k' : Kcp) (h1 : k'.rx_srtt = k.rx_srtt) (h2 : k'.rx_rttvar = k.rx_rttvar)
    (h3 : k'.interval = k.interval) (h4 : k'.rx_minrto = k.rx_minrto) (rtt : U32) :
    (updateAck k' rtt).rx_srtt = (updateAck k rtt).rx_srtt ∧
      (updateAck k' rtt).rx_rttvar = (updateAck k rtt).rx_rttvar ∧
      (updateAck k' rtt).rx_rto = (updateAck k rtt).rx_rto := by
  unfold updateAck smoothRtt
  simp only [h1, h2, h3, h4, apply_ite Kcp.rx_srtt, apply_ite Kcp.rx_rttvar, apply_ite Kcp.interval,
    apply_ite Kcp.rx_minrto]
  exact ⟨trivial, trivial, trivial⟩

theorem updateAck_sim {σ : Sigma} {k k' : Kcp} (h : Sim σ k k') (rtt : U32) :
    Sim σ (updateAck k rtt) (updateAck k' rtt) := by
  obtain ⟨e1, e2, e3⟩ := updateAck_congr k k' h.rx_srtt h.rx_rttvar h.interval h.rx_minrto rtt
  obtain ⟨a, b, c, e⟩ := updateAck_frame k rtt
  obtain ⟨a', b', c', e'⟩ := updateAck_frame k' rtt
  rw [e, e'] at e1 e2 e3
  rw [e, e']
  exact { h with rx_srtt := e1, rx_rttvar := e2, rx_rto := e3 }

/-! ### the cwnd update of Input: compares `snd_una` with its old value by a difference -/

theorem cwndOnAck_frame (k : Kcp) (o : U32) : ∃ c i, cwndOnAck k o = { k with cwnd := c, incr := i } := by
  unfold cwndOnAck
  simp only []
  repeat' split
  all_goals exact ⟨_, _, rfl⟩

theorem cwndOnAck_congr (k k' : Kcp) (o o' : U32) (h0 : k'.nocwnd = k.nocwnd)
    (h1 : itimediff k'.snd_una o' = itimediff k.snd_una o) (h2 : k'.cwnd = k.cwnd)
    (h3 : k'.rmt_wnd = k.rmt_wnd) (h4 : k'.mss = k.mss) (h5 : k'.ssthresh = k.ssthresh)
    (h6 : k'.incr = k.incr) :
    (cwndOnAck k' o').cwnd = (cwndOnAck k o).cwnd ∧ (cwndOnAck k' o').incr = (cwndOnAck k o).incr := by
  unfold cwndOnAck
  simp only [h0, h1, h2, h3, h4, h5, h6, apply_ite Kcp.cwnd, apply_ite Kcp.incr, apply_ite Kcp.rmt_wnd]
  exact ⟨trivial, trivial⟩

theorem cwndOnAck_sim {σ : Sigma} {k k' : Kcp} (h : Sim σ k k') (o : U32) :
    Sim σ (cwndOnAck k o) (cwndOnAck k' (o + σ.a)) := by
  have h1 : itimediff k'.snd_una (o + σ.a) = itimediff k.snd_una o := by rw [h.snd_una, itd_shift]
  obtain ⟨e1, e2⟩ := cwndOnAck_congr k k' o (o + σ.a) h.nocwnd h1 h.cwnd h.rmt_wnd h.mss h.ssthresh h.incr
  obtain ⟨c, i, e⟩ := cwndOnAck_frame k o
  obtain ⟨c', i', e'⟩ := cwndOnAck_frame k' (o + σ.a)
  rw [e, e'] at e1 e2
  rw [e, e']
  exact { h with cwnd := e1, incr := e2 }

end KcpVerif.Shift
