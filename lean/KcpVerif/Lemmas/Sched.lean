import KcpVerif.Model.Sched
/-!
Helper lemmas for C17: the per-worker invariant `WInv` and its preservation by every worker
step, for both timer-channel modes.
-/
namespace KcpVerif.Sched

/-- the timer is completely idle: not armed, nothing buffered -/
def Timer.idle (t : Timer) : Prop := t.armed = none ∧ t.chan = none

/-- "exactly one of armed / buffered", the state of a timer that has been Reset and whose value
    has not been received yet -/
def Timer.live (t : Timer) : Prop :=
  (t.armed.isSome ∧ t.chan = none) ∨ (t.armed = none ∧ t.chan.isSome)

/-- the `when` the code asked for: `armedAt + max 0 (tasks[0].ts - usedNow)` -/
def Worker.whenOk (now : Time) (w : Worker) : Prop :=
  w.heap ≠ [] → ∀ wh, w.timer.armed = some wh →
    wh = w.armedAt + (minTs w.heap - w.usedNow) ∧ w.usedNow ≤ w.armedAt ∧ w.armedAt ≤ now

/-- the state of timer and flag while the worker is outside the Stop/drain/Reset section -/
def Worker.quiet (now : Time) (w : Worker) : Prop :=
  (w.drained = true → w.timer.idle ∧ w.heap = []) ∧
  (w.drained = false → w.timer.live) ∧ w.whenOk now

/-- per-worker invariant, by program counter -/
def WInv (m : Mode) (now : Time) (w : Worker) : Prop :=
  (∀ v, w.timer.chan = some v → v ≤ now) ∧
  match w.pc with
  | .select => w.quiet now
  | .gotTask _ => w.quiet now
  | .pushed n => n ≤ now ∧ (w.drained = true → w.timer.idle) ∧ (w.drained = false → w.timer.live)
  | .stopped n st =>
      n ≤ now ∧ w.timer.armed = none ∧ (m = .sync → w.timer.chan = none) ∧
      ((st = false ∧ w.drained = false) → w.timer.chan.isSome) ∧
      (¬ (st = false ∧ w.drained = false) → w.timer.chan = none)
  | .reset n => n ≤ now ∧ w.timer.idle
  | .loop v => v ≤ now ∧ w.timer.idle ∧ w.drained = true

theorem WInv.mono {m : Mode} {now now' : Time} {w : Worker} (h : WInv m now w) (hle : now ≤ now') :
    WInv m now' w := by
  obtain ⟨hc, hpc⟩ := h
  refine ⟨fun v hv => Nat.le_trans (hc v hv) hle, ?_⟩
  have hq : ∀ {w : Worker}, w.quiet now → w.quiet now' := by
    intro w ⟨h1, h2, h3⟩
    refine ⟨h1, h2, ?_⟩
    intro hne wh hwh
    obtain ⟨a, b, c⟩ := h3 hne wh hwh
    exact ⟨a, b, Nat.le_trans c hle⟩
  cases hp : w.pc <;> simp only [hp] at hpc ⊢
  · exact hq hpc
  · exact hq hpc
  · exact ⟨Nat.le_trans hpc.1 hle, hpc.2⟩
  · exact ⟨Nat.le_trans hpc.1 hle, hpc.2⟩
  · exact ⟨Nat.le_trans hpc.1 hle, hpc.2⟩
  · exact ⟨Nat.le_trans hpc.1 hle, hpc.2⟩

theorem WInv.init (m : Mode) (t0 : Time) : WInv m t0 (newWorker t0) := by
  refine ⟨by simp [newWorker], ?_⟩
  simp [newWorker, Worker.quiet, Timer.live, Worker.whenOk]

theorem WInv.recvTask {m : Mode} {now : Time} {w w' : Worker} {t : Task}
    (h : WInv m now w) (hr : w.recvTask t = some w') : WInv m now w' := by
  unfold Worker.recvTask at hr
  cases hp : w.pc <;> simp only [hp] at hr <;> try contradiction
  cases hr
  obtain ⟨hc, hpc⟩ := h
  simp only [hp] at hpc
  exact ⟨hc, hpc⟩


theorem quiet_fire {now v wh : Time} {w : Worker} (hq : w.quiet now) (ha : w.timer.armed = some wh) :
    ({ w with timer := w.timer.fire v } : Worker).quiet now := by
  obtain ⟨h1, h2, h3⟩ := hq
  cases hd : w.drained
  · have hl := h2 hd
    refine ⟨?_, ?_, ?_⟩
    · intro h; simp at h
    · intro _
      rcases hl with ⟨_, hc⟩ | ⟨hn, _⟩
      · right; simp [Timer.fire, hc]
      · simp [hn] at ha
    · intro _ wh' hwh'; simp [Timer.fire] at hwh'
  · have := (h1 hd).1.1; simp [this] at ha

theorem WInv.pres {m : Mode} {now : Time} {w : Worker} {l : WLabel} {out : WOut}
    (h : WInv m now w) (hs : wstep m now w l = some out) : WInv m now out.w := by
  obtain ⟨hc, hpc⟩ := h
  cases l with
  | readNow =>
    unfold wstep at hs; dsimp only at hs
    split at hs <;> try contradiction
    rename_i t hp
    simp only [hp] at hpc
    split at hs <;> cases hs
    · exact ⟨hc, hpc⟩
    · exact ⟨hc, Nat.le_refl _, fun hd => (hpc.1 hd).1, hpc.2.1⟩
  | stop =>
    unfold wstep at hs; dsimp only at hs
    split at hs <;> try contradiction
    rename_i n hp
    simp only [hp] at hpc
    cases hs
    obtain ⟨hn, hdt, hdf⟩ := hpc
    cases m
    · refine ⟨by simp [Timer.stop], ?_⟩
      refine ⟨hn, rfl, fun _ => rfl, ?_, fun _ => rfl⟩
      intro ⟨hst, hd⟩
      rcases hdf hd with ⟨ha, _⟩ | ⟨_, hch⟩
      · simp [Timer.stop, ha] at hst
      · simp [Timer.stop, hch] at hst
    · refine ⟨by simpa [Timer.stop] using hc, ?_⟩
      refine ⟨hn, rfl, fun h => Mode.noConfusion h, ?_, ?_⟩
      · intro ⟨hst, hd⟩
        rcases hdf hd with ⟨ha, _⟩ | ⟨_, hch⟩
        · simp [Timer.stop, ha] at hst
        · exact hch
      · intro hne
        cases hd : w.drained
        · rcases hdf hd with ⟨_, hch⟩ | ⟨ha, _⟩
          · exact hch
          · exact absurd ⟨by simp [Timer.stop, ha], hd⟩ hne
        · exact (hdt hd).2
  | drain =>
    unfold wstep at hs; dsimp only at hs
    split at hs <;> try contradiction
    rename_i n st hp
    simp only [hp] at hpc
    obtain ⟨hn, ha, _, _, hne⟩ := hpc
    split at hs
    · split at hs <;> cases hs
      exact ⟨by simp [Timer.recv], hn, ha, rfl⟩
    · cases hs
      rename_i hcond
      exact ⟨hc, hn, ha, hne hcond⟩
  | reset =>
    unfold wstep at hs; dsimp only at hs
    split at hs <;> try contradiction
    rename_i n hp
    simp only [hp] at hpc
    cases hs
    obtain ⟨hn, ha, hch⟩ := hpc
    have hchan : (w.timer.reset m (now + (minTs w.heap - n))).chan = none := by
      cases m <;> simp [Timer.reset, hch]
    have harm : (w.timer.reset m (now + (minTs w.heap - n))).armed = some (now + (minTs w.heap - n)) := by
      cases m <;> simp [Timer.reset]
    refine ⟨by simp [hchan], ?_⟩
    refine ⟨by simp, fun _ => Or.inl ⟨by simp [harm], hchan⟩, ?_⟩
    intro _ wh hwh
    simp only [harm, Option.some.injEq] at hwh
    exact ⟨hwh.symm, hn, Nat.le_refl _⟩
  | recvTimer =>
    unfold wstep at hs; dsimp only at hs
    split at hs <;> try contradiction
    rename_i hp
    simp only [hp] at hpc
    split at hs <;> try contradiction
    rename_i v hv
    cases hs
    refine ⟨by simp [Timer.recv], hc v hv, ⟨?_, rfl⟩, rfl⟩
    obtain ⟨h1, h2, _⟩ := hpc
    cases hd : w.drained
    · rcases h2 hd with ⟨_, hch⟩ | ⟨ha, _⟩
      · simp [hch] at hv
      · exact ha
    · exact (h1 hd).1.1
  | pop t =>
    unfold wstep at hs; dsimp only at hs
    split at hs <;> try contradiction
    rename_i v hp
    simp only [hp] at hpc
    split at hs <;> cases hs
    exact ⟨hc, by simpa [hp] using hpc⟩
  | loopEnd =>
    unfold wstep at hs; dsimp only at hs
    split at hs <;> try contradiction
    rename_i v hp
    simp only [hp] at hpc
    obtain ⟨hv, ⟨ha, hch⟩, hd⟩ := hpc
    split at hs
    · cases hs
      rename_i hnil
      refine ⟨hc, fun _ => ⟨⟨ha, hch⟩, hnil⟩, fun h => by simp [hd] at h, fun hne => absurd hnil hne⟩
    · split at hs <;> cases hs
      have hchan : (w.timer.reset m (now + (minTs w.heap - v))).chan = none := by
        cases m <;> simp [Timer.reset, hch]
      have harm : (w.timer.reset m (now + (minTs w.heap - v))).armed = some (now + (minTs w.heap - v)) := by
        cases m <;> simp [Timer.reset]
      refine ⟨by simp [hchan], ?_⟩
      refine ⟨by simp, fun _ => Or.inl ⟨by simp [harm], hchan⟩, ?_⟩
      intro _ wh hwh
      simp only [harm, Option.some.injEq] at hwh
      exact ⟨hwh.symm, hv, Nat.le_refl _⟩
  | fire v =>
    unfold wstep at hs; dsimp only at hs
    split at hs <;> try contradiction
    rename_i wh hwh
    split at hs <;> cases hs
    rename_i hcond
    refine ⟨?_, ?_⟩
    · intro x hx
      simp only [Timer.fire] at hx
      split at hx
      · cases hx; exact hcond.2.2
      · rename_i y hy; cases hx; exact hc _ hy
    · cases hp : w.pc <;> simp only [hp] at hpc ⊢
      · exact quiet_fire hpc hwh
      · exact quiet_fire hpc hwh
      · obtain ⟨hn, hdt, hdf⟩ := hpc
        refine ⟨hn, ?_, ?_⟩
        · intro hd; have := (hdt hd).1; simp [this] at hwh
        · intro hd
          rcases hdf hd with ⟨_, hch⟩ | ⟨hn', _⟩
          · right; simp [Timer.fire, hch]
          · simp [hn'] at hwh
      · simp [hpc.2.1] at hwh
      · simp [hpc.2.1] at hwh
      · simp [hpc.2.1.1] at hwh


/-- every execution is guarded by a clock reading that is not newer than the real time -/
theorem wstep_exec_late {m : Mode} {now : Time} {w : Worker} {l : WLabel} {out : WOut} {t : Task}
    (h : WInv m now w) (hs : wstep m now w l = some out) (he : out.exec = some t) : t.ts < now := by
  obtain ⟨_, hpc⟩ := h
  cases l <;> (unfold wstep at hs; dsimp only at hs) <;> split at hs <;> try contradiction
  · split at hs <;> cases hs <;> cases he
    assumption
  · cases hs; cases he
  · split at hs
    · split at hs <;> cases hs; cases he
    · cases hs; cases he
  · cases hs; cases he
  · split at hs <;> cases hs; cases he
  · rename_i v hp
    simp only [hp] at hpc
    split at hs <;> cases hs
    cases he
    rename_i hcond
    exact Nat.lt_of_lt_of_le hcond.2.2 hpc.1
  · split at hs
    · cases hs; cases he
    · split at hs <;> cases hs; cases he
  · split at hs <;> cases hs; cases he

theorem minTs_mem : ∀ {h : List Task}, h ≠ [] → ∃ t, t ∈ h ∧ t.ts = minTs h
  | [], hne => absurd rfl hne
  | [t], _ => ⟨t, by simp, rfl⟩
  | t :: u :: rest, _ => by
    obtain ⟨x, hx, hxe⟩ := minTs_mem (h := u :: rest) (by simp)
    simp only [minTs]
    by_cases hle : t.ts ≤ minTs (u :: rest)
    · exact ⟨t, by simp, by rw [Nat.min_def]; simp [hle]⟩
    · exact ⟨x, List.mem_cons_of_mem _ hx, by rw [Nat.min_def]; simp [hle, hxe]⟩

theorem minTs_le : ∀ {h : List Task} {t : Task}, t ∈ h → minTs h ≤ t.ts
  | [], _, ht => by cases ht
  | [u], t, ht => by simp at ht; subst ht; exact Nat.le_refl _
  | u :: v :: rest, t, ht => by
    simp only [minTs]
    rcases List.mem_cons.mp ht with rfl | ht'
    · exact Nat.min_le_left _ _
    · exact Nat.le_trans (Nat.min_le_right _ _) (minTs_le ht')

/-- a worker step neither loses nor duplicates a task: it keeps it or executes it -/
theorem wstep_held {m : Mode} {now : Time} {w : Worker} {l : WLabel} {out : WOut}
    (hs : wstep m now w l = some out) (a : Task) :
    (held w).count a = (held out.w).count a + out.exec.toList.count a := by
  cases l with
  | pop t =>
    unfold wstep at hs; dsimp only at hs
    split at hs <;> try contradiction
    rename_i v hp
    split at hs <;> cases hs
    rename_i hcond
    simp only [held, hp, Option.toList_some]
    by_cases hat : a = t
    · subst hat
      have := List.count_erase_self (a := a) (l := w.heap)
      have hpos : 0 < w.heap.count a := List.count_pos_iff.mpr hcond.1
      simp; omega
    · have hta : ¬ t = a := fun h => hat h.symm
      simp [List.count_erase_of_ne hat, hta]
  | readNow =>
    unfold wstep at hs; dsimp only at hs
    split at hs <;> try contradiction
    rename_i t hp
    split at hs <;> cases hs <;> simp [held, hp, List.count_cons]
  | stop =>
    unfold wstep at hs; dsimp only at hs
    split at hs <;> try contradiction
    rename_i n hp; cases hs; simp [held, hp]
  | drain =>
    unfold wstep at hs; dsimp only at hs
    split at hs <;> try contradiction
    rename_i n st hp
    split at hs
    · split at hs <;> cases hs; simp [held, hp]
    · cases hs; simp [held, hp]
  | reset =>
    unfold wstep at hs; dsimp only at hs
    split at hs <;> try contradiction
    rename_i n hp; cases hs; simp [held, hp]
  | recvTimer =>
    unfold wstep at hs; dsimp only at hs
    split at hs <;> try contradiction
    rename_i hp; split at hs <;> cases hs; simp [held, hp]
  | loopEnd =>
    unfold wstep at hs; dsimp only at hs
    split at hs <;> try contradiction
    rename_i v hp
    split at hs
    · cases hs; simp [held, hp]
    · split at hs <;> cases hs; simp [held, hp]
  | fire v =>
    unfold wstep at hs; dsimp only at hs
    split at hs <;> try contradiction
    split at hs <;> cases hs
    simp only [held]
    cases w.pc <;> simp

/-- a worker that is not at its `select` can always take its next step: in particular the
    conditional `<-timer.C` never blocks -/
theorem wstep_enabled {m : Mode} {now : Time} {w : Worker} (h : WInv m now w) (hp : w.pc ≠ .select) :
    ∃ l, (∀ v, l ≠ .fire v) ∧ (wstep m now w l).isSome := by
  obtain ⟨_, hpc⟩ := h
  cases hpc' : w.pc with
  | select => exact absurd hpc' hp
  | gotTask t =>
    by_cases hlt : t.ts < now
    · exact ⟨.readNow, by simp, by simp [wstep, hpc', hlt]⟩
    · exact ⟨.readNow, by simp, by simp [wstep, hpc', hlt]⟩
  | pushed n => exact ⟨.stop, by simp, by simp [wstep, hpc']⟩
  | stopped n st =>
    simp only [hpc'] at hpc
    by_cases hcond : st = false ∧ w.drained = false
    · have := hpc.2.2.2.1 hcond
      obtain ⟨v, hv⟩ := Option.isSome_iff_exists.mp this
      exact ⟨.drain, by simp, by simp [wstep, hpc', hcond, hv]⟩
    · exact ⟨.drain, by simp, by simp only [wstep, hpc', hcond, if_false, Option.isSome_some]⟩
  | reset n => exact ⟨.reset, by simp, by simp [wstep, hpc']⟩
  | loop v =>
    by_cases hnil : w.heap = []
    · exact ⟨.loopEnd, by simp, by simp [wstep, hpc', hnil]⟩
    · by_cases hlt : minTs w.heap < v
      · obtain ⟨t, ht, hte⟩ := minTs_mem hnil
        exact ⟨.pop t, by simp, by simp [wstep, hpc', ht, hte, hlt]⟩
      · exact ⟨.loopEnd, by simp, by simp [wstep, hpc', hnil, hlt]⟩


/-! ### the global transition system -/

inductive Reachable (m : Mode) (k : Nat) (t0 : Time) : State → Prop
  | init : Reachable m k t0 (init k t0)
  | step {s s' : State} {l : Label} : Reachable m k t0 s → step m s l = some s' → Reachable m k t0 s'

theorem step_w {m : Mode} {s s' : State} {i : Nat} {l : WLabel} (h : step m s (.w i l) = some s') :
    ∃ w out, s.ws[i]? = some w ∧ wstep m s.now w l = some out ∧
      s' = logExec s.now out.exec { s with ws := s.ws.set i out.w } := by
  unfold step at h; dsimp only at h
  split at h <;> try contradiction
  rename_i w hw
  split at h <;> try contradiction
  rename_i out ho
  cases h
  exact ⟨w, out, hw, ho, rfl⟩

theorem step_handoff {m : Mode} {s s' : State} {i : Nat} (h : step m s (.handoff i) = some s') :
    ∃ t rest w w', s.ppc = .idle ∧ s.batch = t :: rest ∧ s.ws[i]? = some w ∧ w.recvTask t = some w' ∧
      s' = { s with batch := rest, ws := s.ws.set i w' } := by
  unfold step at h; dsimp only at h
  split at h <;> try contradiction
  rename_i hidle
  split at h <;> try contradiction
  rename_i t rest hb
  split at h <;> try contradiction
  rename_i w hw
  split at h <;> try contradiction
  rename_i w' hw'
  cases h
  exact ⟨t, rest, w, w', hidle, hb, hw, hw', rfl⟩

@[simp] theorem logExec_ws (now : Time) (e : Option Task) (s : State) : (logExec now e s).ws = s.ws := by
  cases e <;> rfl
@[simp] theorem logExec_now (now : Time) (e : Option Task) (s : State) : (logExec now e s).now = s.now := by
  cases e <;> rfl
@[simp] theorem logExec_sub (now : Time) (e : Option Task) (s : State) : (logExec now e s).sub = s.sub := by
  cases e <;> rfl
@[simp] theorem logExec_pre (now : Time) (e : Option Task) (s : State) : (logExec now e s).pre = s.pre := by
  cases e <;> rfl
@[simp] theorem logExec_batch (now : Time) (e : Option Task) (s : State) : (logExec now e s).batch = s.batch := by
  cases e <;> rfl
@[simp] theorem logExec_pend (now : Time) (e : Option Task) (s : State) : (logExec now e s).pend = s.pend := by
  cases e <;> rfl
@[simp] theorem logExec_ntok (now : Time) (e : Option Task) (s : State) : (logExec now e s).ntok = s.ntok := by
  cases e <;> rfl
@[simp] theorem logExec_ppc (now : Time) (e : Option Task) (s : State) : (logExec now e s).ppc = s.ppc := by
  cases e <;> rfl

/-- A: every worker satisfies its local invariant -/
def InvW (m : Mode) (s : State) : Prop := ∀ w, w ∈ s.ws → WInv m s.now w

theorem forall_mem_set {α : Type} {P : α → Prop} {l : List α} {i : Nat} {b : α}
    (h : ∀ a, a ∈ l → P a) (hb : P b) : ∀ a, a ∈ l.set i b → P a := by
  intro a ha
  rcases List.mem_or_eq_of_mem_set ha with h' | h'
  · exact h a h'
  · exact h' ▸ hb

theorem InvW.init (m : Mode) (k : Nat) (t0 : Time) : InvW m (init k t0) := by
  intro w hw
  simp only [Sched.init, List.mem_replicate] at hw
  rw [hw.2]
  exact WInv.init m t0

theorem InvW.step {m : Mode} {s s' : State} {l : Label} (h : InvW m s) (hs : step m s l = some s') :
    InvW m s' := by
  cases l with
  | tick d =>
    simp only [Sched.step, Option.some.injEq] at hs; subst hs
    intro w hw
    exact (h w hw).mono (Nat.le_add_right _ _)
  | put id ts =>
    simp only [Sched.step] at hs
    split at hs <;> cases hs
    exact h
  | notify =>
    simp only [Sched.step] at hs
    split at hs <;> cases hs
    exact h
  | takeToken =>
    simp only [Sched.step] at hs
    split at hs <;> cases hs
    exact h
  | swap =>
    simp only [Sched.step] at hs
    split at hs <;> cases hs
    exact h
  | handoff i =>
    obtain ⟨t, rest, w, w', _, _, hw, hw', rfl⟩ := step_handoff hs
    exact forall_mem_set h ((h w (List.mem_of_getElem? hw)).recvTask hw')
  | w i l =>
    obtain ⟨w, out, hw, ho, rfl⟩ := step_w hs
    intro x hx
    simp only [logExec_ws, logExec_now] at hx ⊢
    exact forall_mem_set h ((h w (List.mem_of_getElem? hw)).pres ho) x hx

theorem Reachable.invW {m : Mode} {k : Nat} {t0 : Time} {s : State} (h : Reachable m k t0 s) : InvW m s := by
  induction h with
  | init => exact InvW.init m k t0
  | step _ hs ih => exact ih.step hs


@[simp] theorem logExec_done_none (now : Time) (s : State) : (logExec now none s).done = s.done := rfl
@[simp] theorem logExec_done_some (now : Time) (t : Task) (s : State) :
    (logExec now (some t) s).done = { task := t, time := now } :: s.done := rfl

theorem heldAll_count_set {a : Task} : ∀ {ws : List Worker} {i : Nat} {w w' : Worker},
    ws[i]? = some w →
    (heldAll (ws.set i w')).count a + (held w).count a = (heldAll ws).count a + (held w').count a
  | [], i, w, w', h => by simp at h
  | x :: ws, 0, w, w', h => by
    simp only [List.getElem?_cons_zero, Option.some.injEq] at h
    subst h
    simp only [heldAll, List.set_cons_zero, List.map_cons, List.flatten_cons, List.count_append]
    omega
  | x :: ws, i + 1, w, w', h => by
    simp only [List.getElem?_cons_succ] at h
    have ih := heldAll_count_set (a := a) (w' := w') h
    simp only [heldAll, List.set_cons_succ, List.map_cons, List.flatten_cons, List.count_append] at ih ⊢
    omega

/-- B: conservation of tasks (counting form) and the prepend goroutine swaps only with an empty batch -/
def InvC (s : State) : Prop :=
  (∀ a, s.sub.count a =
    s.pre.count a + s.batch.count a + (heldAll s.ws).count a + (s.done.map (·.task)).count a) ∧
  (s.ppc = .gotToken → s.batch = [])

theorem heldAll_replicate_new (k : Nat) (t0 : Time) : heldAll (List.replicate k (newWorker t0)) = [] := by
  induction k with
  | zero => rfl
  | succ n ih => simp [heldAll, List.replicate_succ, held, newWorker]

theorem InvC.init (k : Nat) (t0 : Time) : InvC (init k t0) := by
  refine ⟨fun a => ?_, fun h => rfl⟩
  simp [Sched.init, heldAll_replicate_new]

theorem InvC.step {m : Mode} {s s' : State} {l : Label} (h : InvC s) (hs : step m s l = some s') :
    InvC s' := by
  obtain ⟨hc, hb⟩ := h
  cases l with
  | tick d =>
    simp only [Sched.step, Option.some.injEq] at hs; subst hs
    exact ⟨hc, hb⟩
  | put id ts =>
    simp only [Sched.step] at hs
    split at hs <;> cases hs
    refine ⟨fun a => ?_, hb⟩
    have := hc a
    simp only [List.count_cons, List.count_append, List.count_nil]
    omega
  | notify =>
    simp only [Sched.step] at hs
    split at hs <;> cases hs
    exact ⟨hc, hb⟩
  | takeToken =>
    simp only [Sched.step] at hs
    split at hs <;> cases hs
    rename_i hcond
    exact ⟨hc, fun _ => hcond.2.1⟩
  | swap =>
    simp only [Sched.step] at hs
    split at hs <;> cases hs
    rename_i hg
    refine ⟨fun a => ?_, fun h => by cases h⟩
    have := hc a
    simp only [hb hg, List.count_nil] at this ⊢
    omega
  | handoff i =>
    obtain ⟨t, rest, w, w', hidle, hbt, hw, hw', rfl⟩ := step_handoff hs
    refine ⟨fun a => ?_, fun h => by simp [hidle] at h⟩
    have := hc a
    have hset := heldAll_count_set (a := a) (w' := w') hw
    have hheld : (held w').count a = (held w).count a + [t].count a := by
      unfold Worker.recvTask at hw'
      split at hw' <;> cases hw'
      rename_i hp
      simp [held, hp, List.count_cons]
    simp only [hbt, List.count_cons, List.count_nil] at this hheld ⊢
    omega
  | w i l =>
    obtain ⟨w, out, hw, ho, rfl⟩ := step_w hs
    refine ⟨fun a => ?_, by simpa using hb⟩
    have := hc a
    have hset := heldAll_count_set (a := a) (w' := out.w) hw
    have hheld := wstep_held ho a
    cases he : out.exec with
    | none =>
      simp only [he, Option.toList_none, List.count_nil] at hheld
      simp only [logExec_sub, logExec_pre, logExec_batch, logExec_ws, logExec_done_none]
      omega
    | some t =>
      simp only [he, Option.toList_some] at hheld
      simp only [logExec_sub, logExec_pre, logExec_batch, logExec_ws, logExec_done_some, List.map_cons,
        List.count_cons, List.count_nil] at hheld ⊢
      omega


theorem Reachable.invC {m : Mode} {k : Nat} {t0 : Time} {s : State} (h : Reachable m k t0 s) : InvC s := by
  induction h with
  | init => exact InvC.init k t0
  | step _ hs ih => exact ih.step hs

/-- C: submitted ids are pairwise different (Put's freshness side condition) -/
def InvI (s : State) : Prop := (s.sub.map (·.id)).Nodup

theorem InvI.step {m : Mode} {s s' : State} {l : Label} (h : InvI s) (hs : step m s l = some s') :
    InvI s' := by
  cases l with
  | tick d => simp only [Sched.step, Option.some.injEq] at hs; subst hs; exact h
  | put id ts =>
    simp only [Sched.step] at hs
    split at hs <;> cases hs
    rename_i hnew
    exact List.nodup_cons.mpr ⟨hnew, h⟩
  | notify => simp only [Sched.step] at hs; split at hs <;> cases hs; exact h
  | takeToken => simp only [Sched.step] at hs; split at hs <;> cases hs; exact h
  | swap => simp only [Sched.step] at hs; split at hs <;> cases hs; exact h
  | handoff i =>
    obtain ⟨t, rest, w, w', _, _, _, _, rfl⟩ := step_handoff hs
    exact h
  | w i l =>
    obtain ⟨w, out, _, _, rfl⟩ := step_w hs
    simpa [InvI] using h

theorem Reachable.invI {m : Mode} {k : Nat} {t0 : Time} {s : State} (h : Reachable m k t0 s) : InvI s := by
  induction h with
  | init => simp [InvI, Sched.init]
  | step _ hs ih => exact ih.step hs

/-- D: every recorded execution happened strictly after the task's deadline, at a past time -/
def InvD (s : State) : Prop := ∀ e, e ∈ s.done → e.task.ts < e.time ∧ e.time ≤ s.now

theorem InvD.step {m : Mode} {s s' : State} {l : Label} (hw : InvW m s) (h : InvD s)
    (hs : step m s l = some s') : InvD s' := by
  cases l with
  | tick d =>
    simp only [Sched.step, Option.some.injEq] at hs; subst hs
    intro e he; exact ⟨(h e he).1, Nat.le_trans (h e he).2 (Nat.le_add_right _ _)⟩
  | put id ts => simp only [Sched.step] at hs; split at hs <;> cases hs; exact h
  | notify => simp only [Sched.step] at hs; split at hs <;> cases hs; exact h
  | takeToken => simp only [Sched.step] at hs; split at hs <;> cases hs; exact h
  | swap => simp only [Sched.step] at hs; split at hs <;> cases hs; exact h
  | handoff i =>
    obtain ⟨t, rest, w, w', _, _, _, _, rfl⟩ := step_handoff hs
    exact h
  | w i l =>
    obtain ⟨w, out, hwi, ho, rfl⟩ := step_w hs
    cases he : out.exec with
    | none => intro e hin; simpa using h e (by simpa [he] using hin)
    | some t =>
      have hlate := wstep_exec_late (hw w (List.mem_of_getElem? hwi)) ho he
      intro e hin
      simp only [logExec_done_some, List.mem_cons, logExec_now] at hin ⊢
      rcases hin with rfl | hin
      · exact ⟨hlate, Nat.le_refl _⟩
      · exact h e hin

theorem Reachable.invD {m : Mode} {k : Nat} {t0 : Time} {s : State} (h : Reachable m k t0 s) : InvD s := by
  induction h with
  | init => intro e he; simp [Sched.init] at he
  | step hr hs ih => exact ih.step hr.invW hs

/-- E: no lost wake-up between `Put` and the prepend goroutine -/
def InvH (s : State) : Prop := s.pre ≠ [] → s.ntok = true ∨ s.ppc = .gotToken ∨ 0 < s.pend

theorem InvH.step {m : Mode} {s s' : State} {l : Label} (h : InvH s) (hs : step m s l = some s') :
    InvH s' := by
  cases l with
  | tick d => simp only [Sched.step, Option.some.injEq] at hs; subst hs; exact h
  | put id ts =>
    simp only [Sched.step] at hs; split at hs <;> cases hs
    intro _; exact Or.inr (Or.inr (Nat.succ_pos _))
  | notify =>
    simp only [Sched.step] at hs; split at hs <;> cases hs
    intro _; exact Or.inl rfl
  | takeToken =>
    simp only [Sched.step] at hs; split at hs <;> cases hs
    intro _; exact Or.inr (Or.inl rfl)
  | swap =>
    simp only [Sched.step] at hs; split at hs <;> cases hs
    intro hne; exact absurd rfl hne
  | handoff i =>
    obtain ⟨t, rest, w, w', _, _, _, _, rfl⟩ := step_handoff hs
    exact h
  | w i l =>
    obtain ⟨w, out, _, _, rfl⟩ := step_w hs
    simpa [InvH] using h

theorem Reachable.invH {m : Mode} {k : Nat} {t0 : Time} {s : State} (h : Reachable m k t0 s) : InvH s := by
  induction h with
  | init => intro hne; simp [Sched.init] at hne
  | step _ hs ih => exact ih.step hs


theorem obsRun_cons (o : ObsState) (e : Obs) (es : List Obs) :
    obsRun o (e :: es) = match obsStep o e with
      | Except.error why => Except.error why
      | Except.ok o' => obsRun o' es := rfl

theorem obsRun_snoc {o o1 o2 : ObsState} {e : Obs} : ∀ {es : List Obs},
    obsRun o es = .ok o1 → obsStep o1 e = .ok o2 → obsRun o (es ++ [e]) = .ok o2
  | [], h1, h2 => by
    cases h1
    rw [List.nil_append, obsRun_cons, h2]; rfl
  | x :: es, h1, h2 => by
    rw [obsRun_cons] at h1
    rw [List.cons_append, obsRun_cons]
    split at h1 <;> try contradiction
    exact obsRun_snoc h1 h2

theorem find_by_id : ∀ {l : List Task} {t : Task}, (l.map (·.id)).Nodup → t ∈ l →
    l.find? (fun u => u.id == t.id) = some t
  | [], _, _, h => by cases h
  | x :: l, t, hn, h => by
    simp only [List.map_cons, List.nodup_cons] at hn
    rcases List.mem_cons.mp h with rfl | h'
    · simp
    · have hne : ¬ x.id = t.id := by
        intro he; exact hn.1 (he ▸ List.mem_map_of_mem (f := (·.id)) h')
      have hb : (x.id == t.id) = false := by simpa using hne
      simp only [List.find?_cons, hb]
      exact find_by_id hn.2 h'

theorem eq_of_id_eq {l : List Task} {t u : Task} (hn : (l.map (·.id)).Nodup) (ht : t ∈ l) (hu : u ∈ l)
    (h : t.id = u.id) : t = u := by
  have h1 := find_by_id hn ht
  have h2 := find_by_id hn hu
  rw [h] at h1
  exact Option.some.inj (h1.symm.trans h2)

theorem held_le_heldAll {a : Task} : ∀ {ws : List Worker} {i : Nat} {w : Worker},
    ws[i]? = some w → (held w).count a ≤ (heldAll ws).count a
  | [], i, w, h => by simp at h
  | x :: ws, 0, w, h => by
    simp only [List.getElem?_cons_zero, Option.some.injEq] at h
    subst h
    simp only [heldAll, List.map_cons, List.flatten_cons, List.count_append]
    omega
  | x :: ws, i + 1, w, h => by
    simp only [List.getElem?_cons_succ] at h
    have ih := held_le_heldAll (a := a) h
    simp only [heldAll, List.map_cons, List.flatten_cons, List.count_append] at ih ⊢
    omega

/-- F: the log of observable events is accepted by the observable-trace acceptor -/
def InvL (s : State) : Prop :=
  ∃ o, obsRun ObsState.init s.log.reverse = .ok o ∧ o.clock ≤ s.now ∧ o.sub = s.sub ∧
    o.execd = s.done.map (·.task.id)

theorem InvL.step {m : Mode} {s s' : State} {l : Label} (hw : InvW m s) (hc : InvC s) (hi : InvI s)
    (h : InvL s) (hs : step m s l = some s') : InvL s' := by
  obtain ⟨o, hrun, hclk, hsub, hex⟩ := h
  cases l with
  | tick d =>
    simp only [Sched.step, Option.some.injEq] at hs; subst hs
    exact ⟨o, hrun, Nat.le_trans hclk (Nat.le_add_right _ _), hsub, hex⟩
  | put id ts =>
    simp only [Sched.step] at hs; split at hs <;> cases hs
    rename_i hnew
    refine ⟨{ o with clock := s.now, sub := { id := id, ts := ts } :: o.sub }, ?_, Nat.le_refl _, by simp [hsub], hex⟩
    simp only [List.reverse_cons]
    refine obsRun_snoc hrun ?_
    simp only [obsStep, Nat.not_lt.mpr hclk, if_false, hsub, hnew]
  | notify => simp only [Sched.step] at hs; split at hs <;> cases hs; exact ⟨o, hrun, hclk, hsub, hex⟩
  | takeToken => simp only [Sched.step] at hs; split at hs <;> cases hs; exact ⟨o, hrun, hclk, hsub, hex⟩
  | swap => simp only [Sched.step] at hs; split at hs <;> cases hs; exact ⟨o, hrun, hclk, hsub, hex⟩
  | handoff i =>
    obtain ⟨t, rest, w, w', _, _, _, _, rfl⟩ := step_handoff hs
    exact ⟨o, hrun, hclk, hsub, hex⟩
  | w i l =>
    obtain ⟨w, out, hwi, ho, rfl⟩ := step_w hs
    cases he : out.exec with
    | none => exact ⟨o, by simpa [logExec] using hrun, by simpa using hclk, by simpa using hsub, by simpa [logExec] using hex⟩
    | some t =>
      have hlate := wstep_exec_late (hw w (List.mem_of_getElem? hwi)) ho he
      have hheld := wstep_held ho t
      simp only [he, Option.toList_some, List.count_cons_self] at hheld
      have hall := held_le_heldAll (a := t) hwi
      have hcons := hc.1 t
      have hnd : s.sub.Nodup := List.Pairwise.of_map (·.id) (fun a b h hab => h (hab ▸ rfl)) hi
      have hle1 : s.sub.count t ≤ 1 := List.nodup_iff_count.mp hnd t
      have htsub : t ∈ s.sub := List.count_pos_iff.mp (by omega)
      refine ⟨{ o with clock := s.now, execd := t.id :: o.execd }, ?_, by simp, by simpa using hsub, by simp [logExec, hex]⟩
      simp only [logExec, List.reverse_cons]
      refine obsRun_snoc hrun ?_
      have hfind := find_by_id hi htsub
      have hnot : t.id ∉ o.execd := by
        rw [hex]
        intro hin
        obtain ⟨e, hein, heid⟩ := List.mem_map.mp hin
        have hetask : e.task ∈ s.done.map (·.task) := List.mem_map_of_mem (f := (·.task)) hein
        have hpos : 0 < (s.done.map (·.task)).count e.task := List.count_pos_iff.mpr hetask
        have hcons' := hc.1 e.task
        have hesub : e.task ∈ s.sub := List.count_pos_iff.mp (by omega)
        have heq : e.task = t := eq_of_id_eq hi hesub htsub heid
        rw [heq] at hpos
        omega
      simp only [obsStep, Nat.not_lt.mpr hclk, if_false, hsub, hfind, hnot, hlate, if_true]

theorem Reachable.invL {m : Mode} {k : Nat} {t0 : Time} {s : State} (h : Reachable m k t0 s) : InvL s := by
  induction h with
  | init => exact ⟨ObsState.init, rfl, Nat.zero_le _, rfl, rfl⟩
  | step hr hs ih => exact ih.step hr.invW hr.invC hr.invI hs


theorem Reachable.ws_length {m : Mode} {k : Nat} {t0 : Time} {s : State} (h : Reachable m k t0 s) :
    s.ws.length = k := by
  induction h with
  | init => simp [Sched.init]
  | step _ hs ih =>
    rename_i s s' l _
    cases l with
    | tick d => simp only [Sched.step, Option.some.injEq] at hs; subst hs; exact ih
    | put id ts => simp only [Sched.step] at hs; split at hs <;> cases hs; exact ih
    | notify => simp only [Sched.step] at hs; split at hs <;> cases hs; exact ih
    | takeToken => simp only [Sched.step] at hs; split at hs <;> cases hs; exact ih
    | swap => simp only [Sched.step] at hs; split at hs <;> cases hs; exact ih
    | handoff i =>
      obtain ⟨t, rest, w, w', _, _, _, _, rfl⟩ := step_handoff hs
      simpa using ih
    | w i l =>
      obtain ⟨w, out, _, _, rfl⟩ := step_w hs
      simpa using ih

theorem step_w_isSome {m : Mode} {s : State} {i : Nat} {w : Worker} {l : WLabel}
    (hw : s.ws[i]? = some w) (h : (wstep m s.now w l).isSome) : (step m s (.w i l)).isSome := by
  obtain ⟨out, ho⟩ := Option.isSome_iff_exists.mp h
  simp [Sched.step, hw, ho]

theorem run_cons (m : Mode) (s : State) (l : Label) (ls : List Label) :
    run m s (l :: ls) = match step m s l with
      | none => none
      | some s' => run m s' ls := rfl

theorem run_tick_then {m : Mode} {s : State} {d : Nat} {l : Label}
    (h : (step m { s with now := s.now + d } l).isSome) : (run m s [.tick d, l]).isSome := by
  obtain ⟨s', hs'⟩ := Option.isSome_iff_exists.mp h
  have h1 : step m s (.tick d) = some { s with now := s.now + d } := rfl
  have h2 : run m s [.tick d, l] = some s' := by
    rw [run_cons, h1]; dsimp only; rw [run_cons, hs']; rfl
  rw [h2]; rfl

theorem run_tick0_then {m : Mode} {s : State} {l : Label}
    (h : (step m s l).isSome) : (run m s [.tick 0, l]).isSome := by
  apply run_tick_then
  simpa using h

theorem exists_held_of_heldAll_ne_nil : ∀ {ws : List Worker}, heldAll ws ≠ [] →
    ∃ (i : Nat) (w : Worker), ws[i]? = some w ∧ held w ≠ []
  | [], h => by simp [heldAll] at h
  | x :: ws, h => by
    by_cases hx : held x = []
    · have : heldAll ws ≠ [] := by
        intro hnil; apply h
        simp only [heldAll, List.map_cons, List.flatten_cons, hx, List.nil_append] at hnil ⊢
        exact hnil
      obtain ⟨i, w, hw, hne⟩ := exists_held_of_heldAll_ne_nil this
      exact ⟨i + 1, w, by simpa using hw, hne⟩
    · exact ⟨0, x, by simp, hx⟩

/-- while a task is pending the system is never stuck: after letting time pass (only needed when
    every remaining task waits for its timer) some step other than a new `Put` is enabled -/
theorem no_deadlock {m : Mode} {k : Nat} {t0 : Time} {s : State} (h : Reachable m k t0 s) (hk : 0 < k)
    (hp : pendingTasks s ≠ []) :
    ∃ d l, (∀ id ts, l ≠ .put id ts) ∧ (∀ d', l ≠ .tick d') ∧ (run m s [.tick d, l]).isSome := by
  by_cases hall : ∀ w, w ∈ s.ws → w.pc = .select
  · -- every worker stands at its select
    by_cases hpend : 0 < s.pend
    · exact ⟨0, .notify, by simp, by simp, run_tick0_then (by simp [Sched.step]; omega)⟩
    cases hppc : s.ppc with
    | gotToken => exact ⟨0, .swap, by simp, by simp, run_tick0_then (by simp [Sched.step, hppc])⟩
    | idle =>
      cases hb : s.batch with
      | cons t rest =>
        have hlen := h.ws_length
        have h0 : 0 < s.ws.length := by omega
        have hw0 : s.ws[0]? = some s.ws[0] := List.getElem?_eq_getElem h0
        have hsel := hall _ (List.getElem_mem h0)
        exact ⟨0, .handoff 0, by simp, by simp,
          run_tick0_then (by simp [Sched.step, hppc, hb, hw0, Worker.recvTask, hsel])⟩
      | nil =>
        by_cases htok : s.ntok = true
        · exact ⟨0, .takeToken, by simp, by simp, run_tick0_then (by simp [Sched.step, hppc, hb, htok])⟩
        · -- nothing in flight in stage 1, so `pre` is empty and a worker holds a task
          have hpre : s.pre = [] := by
            by_cases hne : s.pre = []
            · exact hne
            · rcases h.invH hne with h1 | h1 | h1
              · exact absurd h1 htok
              · simp [hppc] at h1
              · exact absurd h1 hpend
          have hheld : heldAll s.ws ≠ [] := by
            simpa [pendingTasks, hpre, hb] using hp
          obtain ⟨i, w, hwi, hne⟩ := exists_held_of_heldAll_ne_nil hheld
          have hmem := List.mem_of_getElem? hwi
          have hsel := hall w hmem
          have hheap : w.heap ≠ [] := by simpa [held, hsel] using hne
          have hq : w.quiet s.now := by
            have := (h.invW w hmem).2
            simpa only [hsel] using this
          obtain ⟨h1, h2, h3⟩ := hq
          cases hd : w.drained with
          | true => exact absurd (h1 hd).2 hheap
          | false =>
            rcases h2 hd with ⟨ha, _⟩ | ⟨_, hc⟩
            · obtain ⟨wh, hwh⟩ := Option.isSome_iff_exists.mp ha
              refine ⟨wh - s.now, .w i (.fire wh), by simp, by simp, run_tick_then ?_⟩
              apply step_w_isSome (w := w) (by simpa using hwi)
              have hle : wh ≤ s.now + (wh - s.now) := by unfold Time at *; omega
              simp [wstep, hwh, hle]
            · obtain ⟨v, hv⟩ := Option.isSome_iff_exists.mp hc
              exact ⟨0, .w i .recvTimer, by simp, by simp,
                run_tick0_then (step_w_isSome hwi (by simp [wstep, hsel, hv]))⟩
  · -- some worker is inside its critical section: it can always move on
    have : ∃ w, w ∈ s.ws ∧ w.pc ≠ .select := by
      apply Classical.byContradiction
      intro hno
      apply hall
      intro w hw
      apply Classical.byContradiction
      intro hne
      exact hno ⟨w, hw, hne⟩
    obtain ⟨w, hw, hne⟩ := this
    obtain ⟨i, hi⟩ := List.getElem?_of_mem hw
    obtain ⟨l, hnf, hen⟩ := wstep_enabled (h.invW w hw) hne
    exact ⟨0, .w i l, by simp, by simp, run_tick0_then (step_w_isSome hi hen)⟩


theorem Reachable.run {m : Mode} {k : Nat} {t0 : Time} : ∀ {ls : List Label} {s s' : State},
    Reachable m k t0 s → Sched.run m s ls = some s' → Reachable m k t0 s'
  | [], s, s', h, hr => by cases hr; exact h
  | l :: ls, s, s', h, hr => by
    rw [run_cons] at hr
    split at hr <;> try contradiction
    rename_i s1 hs1
    exact Reachable.run (h.step hs1) hr

end KcpVerif.Sched
