/-
General sender-side flush lemma for the consistency invariant (C02/C03 Tier 2): whatever the timers
and counters say, a FULL flush keeps the sequence numbers, the `acked` flags, `cmd` and `conv` of the
segments in the send buffer, appends the admitted segments with consecutive numbers, and every PUSH
frame it writes is the frame of a segment of the (new) send buffer.
-/
import KcpVerif.Lemmas.SysDrainGen

namespace KcpVerif.SysC
open KcpVerif KcpVerif.Gen KcpVerif.Kcp KcpVerif.Live KcpVerif.Wire KcpVerif.SysW KcpVerif.Sys

theorem stampSegs_facts (base conv now : U32) : ∀ (l : List Seg) (nxt : U32), o base nxt + l.length < 2 ^ 31 →
    (stampSegs conv now nxt l).map (fun y => o base y.sn) = List.range' (o base nxt) l.length ∧
    (∀ y ∈ stampSegs conv now nxt l, y.conv = conv ∧ y.cmd = BitVec.ofNat 8 IKCP_CMD_PUSH ∧
      ∃ q ∈ l, y.data = q.data ∧ y.acked = q.acked) := by
  intro l
  induction l with
  | nil => intro nxt _; simp [stampSegs]
  | cons s r ih =>
    intro nxt hn
    simp only [List.length_cons] at hn
    have hs := o_succ base nxt (by omega)
    obtain ⟨i1, i2⟩ := ih (nxt + 1) (by rw [hs]; omega)
    unfold stampSegs
    refine ⟨by simp only [List.map_cons, List.length_cons, List.range'_succ]; rw [i1, hs], ?_⟩
    intro y hy
    rcases List.mem_cons.mp hy with rfl | hy
    · exact ⟨rfl, rfl, s, List.mem_cons_self .., rfl, rfl⟩
    · obtain ⟨a1, a2, q, hq, a3⟩ := i2 y hy
      exact ⟨a1, a2, q, List.mem_cons_of_mem _ hq, a3⟩

/-- the segments of the send buffer carry the connection id and the PUSH command -/
def BufTagged (conv : U32) (l : List Seg) : Prop := ∀ x ∈ l, x.conv = conv ∧ x.cmd = BitVec.ofNat 8 IKCP_CMD_PUSH

/-- **a FULL flush, whatever it retransmits** -/
theorem flush_gen (base : U32) (k : Kcp) (now : U32) (hK : Total.InvK k) (hack : k.acklist = [])
    (hc : Contig base k) (ht : BufTagged k.conv k.snd_buf) (hq : ∀ x ∈ k.snd_queue, x.acked = false)
    (hnw : o base k.snd_nxt + k.snd_queue.length < 2 ^ 31) :
    Contig base (flush k true now).k ∧ BufTagged k.conv (flush k true now).k.snd_buf ∧
    o base k.snd_nxt ≤ o base (flush k true now).k.snd_nxt ∧
    (flush k true now).k.snd_una = k.snd_una ∧
    (∀ x' ∈ (flush k true now).k.snd_buf, x'.acked = true → ∃ x ∈ k.snd_buf, x.sn = x'.sn ∧ x.acked = true) ∧
    (∀ x ∈ (flush k true now).k.snd_queue, x ∈ k.snd_queue) ∧
    (∀ fr ∈ flushFrs k true now, fr.conv = k.conv ∧ DataLike fr ∧
      (fr.cmd.toNat = IKCP_CMD_PUSH → o base fr.sn < o base (flush k true now).k.snd_nxt)) := by
  obtain ⟨pw3, tp3, h3⟩ := flF3_frame k now
  obtain ⟨m, hm, a1, a2, a3, a4⟩ := admitSegs_spec (flF3 k now).k.conv (flF3 k now).k.snd_una (effWnd (flF3 k now).k) now
    (flF3 k now).k.snd_queue (flF3 k now).k.snd_buf (flF3 k now).k.snd_nxt 0
  have e1 : (flF3 k now).k.conv = k.conv := by rw [h3]
  have e2 : (flF3 k now).k.snd_queue = k.snd_queue := by rw [h3]
  have e3 : (flF3 k now).k.snd_buf = k.snd_buf := by rw [h3]
  have e4 : (flF3 k now).k.snd_nxt = k.snd_nxt := by rw [h3]
  rw [e1, e2, e3, e4] at a1 a2 a3
  rw [e2] at hm
  have b1 : (flAd k now).queue = k.snd_queue.drop m := by unfold flAd; rw [e1, e2, e3, e4]; exact a1
  have b2 : (flAd k now).buf = k.snd_buf ++ stampSegs k.conv now k.snd_nxt (k.snd_queue.take m) := by
    unfold flAd; rw [e1, e2, e3, e4]; exact a2
  have b3 : (flAd k now).nxt = k.snd_nxt + u32 m := by unfold flAd; rw [e1, e2, e3, e4]; exact a3
  have hlen : (k.snd_queue.take m).length = m := by rw [List.length_take]; omega
  obtain ⟨s1, s2⟩ := stampSegs_facts base k.conv now (k.snd_queue.take m) k.snd_nxt (by rw [hlen]; omega)
  rw [hlen] at s1
  have hnxt : o base (k.snd_nxt + u32 m) = o base k.snd_nxt + m := o_add _ _ _ (by omega)
  obtain ⟨pw, tp, st, ss, cw, inc, hk⟩ := flush_frame k true now
  obtain ⟨pw4, tp4, hk4⟩ := flF4_frame k now
  have hdone := (flX_full k now).done
  have hres : resentOf (flF4 k now).k = resentOf k := by rw [hk4]; rfl
  have hrto : (flF4 k now).k.rx_rto = k.rx_rto := by rw [hk4]
  have hnd : (flF4 k now).k.nodelay = k.nodelay := by rw [hk4]
  have hbuf : (flF4 k now).k.snd_buf = (flAd k now).buf := by rw [hk4]
  simp only [hres, hrto, hnd, hbuf, List.nil_append] at hdone
  have f1 : (flush k true now).k.snd_buf = (flAd k now).buf.map
      (segAfter now (resentOf k) (wndUnused k) k.rcv_nxt (flAd k now).count k.rx_rto k.nodelay) := by
    rw [hk]; exact hdone
  have f2 : (flush k true now).k.snd_queue = k.snd_queue.drop m := by rw [hk]; exact b1
  have f3 : (flush k true now).k.snd_nxt = k.snd_nxt + u32 m := by rw [hk]; exact b3
  have f4 : (flush k true now).k.snd_una = k.snd_una := by rw [hk]
  -- the sequence numbers after the flush
  have hsn : (flush k true now).k.snd_buf.map (fun x => o base x.sn) =
      List.range' (o base k.snd_una) (k.snd_buf.length + m) := by
    rw [f1, List.map_map]
    have : ((fun x => o base x.sn) ∘ segAfter now (resentOf k) (wndUnused k) k.rcv_nxt (flAd k now).count k.rx_rto k.nodelay) =
        fun x => o base x.sn := by
      funext x
      show o base (segAfter _ _ _ _ _ _ _ x).sn = _
      rw [(segAfter_id _ _ _ _ _ _ _ x).1]
    rw [this, b2, List.map_append, hc.1, s1, ← hc.2, List.range'_append_1]
  have hlen2 : (flush k true now).k.snd_buf.length = k.snd_buf.length + m := by
    have := congrArg List.length hsn
    simpa using this
  -- every element of the new buffer comes from an element of the admitted buffer
  have hfrom : ∀ x' ∈ (flush k true now).k.snd_buf, ∃ x ∈ (flAd k now).buf, x'.sn = x.sn ∧ x'.acked = x.acked ∧
      x'.conv = x.conv ∧ x'.cmd = x.cmd := by
    intro x' hx'
    rw [f1] at hx'
    obtain ⟨x, hx, rfl⟩ := List.mem_map.mp hx'
    obtain ⟨i1, _, _, i4, i5⟩ := segAfter_id now (resentOf k) (wndUnused k) k.rcv_nxt (flAd k now).count k.rx_rto k.nodelay x
    exact ⟨x, hx, i1, segAfter_acked _ _ _ _ _ _ _ x, i5, i4⟩
  have htag : ∀ x ∈ (flAd k now).buf, x.conv = k.conv ∧ x.cmd = BitVec.ofNat 8 IKCP_CMD_PUSH := by
    intro x hx
    rw [b2] at hx
    rcases List.mem_append.mp hx with hx | hx
    · exact ht x hx
    · exact ⟨(s2 x hx).1, (s2 x hx).2.1⟩
  refine ⟨⟨by rw [f4, hlen2]; exact hsn, by rw [f4, hlen2, f3, hnxt]; have := hc.2; omega⟩, ?_, by rw [f3, hnxt]; omega,
    f4, ?_, by rw [f2]; exact fun x hx => List.mem_of_mem_drop hx, ?_⟩
  · intro x' hx'
    obtain ⟨x, hx, _, _, j3, j4⟩ := hfrom x' hx'
    rw [j3, j4]; exact htag x hx
  · intro x' hx' hacked
    obtain ⟨x, hx, j1, j2, _, _⟩ := hfrom x' hx'
    rw [b2] at hx
    rcases List.mem_append.mp hx with hx | hx
    · exact ⟨x, hx, j1.symm, by rw [← j2]; exact hacked⟩
    · obtain ⟨_, _, q, hq', _, hqa⟩ := s2 x hx
      rw [j2, hqa, hq q (List.mem_of_mem_take hq')] at hacked
      cases hacked
  · intro fr hfr
    unfold flushFrs ackFrsOf at hfr
    rw [hack] at hfr
    simp only [ackFrs, List.nil_append] at hfr
    rcases List.mem_append.mp hfr with hfr | hfr
    · obtain ⟨g1, g2, _, g4⟩ := probeFrs_mem k now fr hfr
      refine ⟨g1, ⟨Or.inr g2, by rw [g4]; simp⟩, fun hp => ?_⟩
      unfold IKCP_CMD_PUSH at hp; unfold IKCP_CMD_WASK IKCP_CMD_WINS at g2; omega
    · unfold pushFrs at hfr
      simp only [↓reduceIte] at hfr
      obtain ⟨x, hx, rfl⟩ := List.mem_map.mp hfr
      have hx2 : x ∈ (flAd k now).buf := (List.mem_filter.mp hx).1
      obtain ⟨i1, i2, _, i4, i5⟩ := segAfter_id now (resentOf k) (wndUnused k) k.rcv_nxt (flAd k now).count k.rx_rto k.nodelay x
      have hx3 : segAfter now (resentOf k) (wndUnused k) k.rcv_nxt (flAd k now).count k.rx_rto k.nodelay x ∈
          (flush k true now).k.snd_buf := by rw [f1]; exact List.mem_map.mpr ⟨x, hx2, rfl⟩
      refine ⟨by show (segAfter _ _ _ _ _ _ _ x).conv = _; rw [i5]; exact (htag x hx2).1,
        ⟨Or.inl (by show (segAfter _ _ _ _ _ _ _ x).cmd.toNat = _; rw [i4, (htag x hx2).2]; decide), ?_⟩, fun _ => ?_⟩
      · show (segAfter _ _ _ _ _ _ _ x).data.length ≤ mtuLimit
        rw [i2]
        rw [b2] at hx2
        rcases List.mem_append.mp hx2 with h | h
        · exact Nat.le_trans (hK.sndb x h) hK.mss_le
        · obtain ⟨_, _, q, hq', hqd, _⟩ := s2 x h
          rw [hqd]; exact Nat.le_trans (hK.sndq q (List.mem_of_mem_take hq')) hK.mss_le
      · show o base (segAfter _ _ _ _ _ _ _ x).sn < _
        have hm' : o base (segAfter now (resentOf k) (wndUnused k) k.rcv_nxt (flAd k now).count k.rx_rto k.nodelay x).sn ∈
            (flush k true now).k.snd_buf.map (fun x => o base x.sn) := List.mem_map.mpr ⟨_, hx3, rfl⟩
        rw [hsn] at hm'
        have := List.mem_range'_1.mp hm'
        rw [f3, hnxt]
        have := hc.2
        omega

end KcpVerif.SysC
