/-
C16, the phase before the flush (1/3): the period detector on a window of GENUINE samples.

A sender with ratio d/p emits, over its whole life, exactly the pairs `(label d p id, id)` with
`id < paws` (`enc.next` wraps at `paws = 0xffffffff / (d+p) * (d+p) ≤ 2^32 − 1`, so `id + 1` never
overflows).  Whatever the network does to these packets (loss, duplication, reordering, any delay),
every sample that reaches the receiver's ring is such a pair: the type bit is a FUNCTION OF THE ID.

`Genuine d p x`     : `x.bit = label d p x.seq` and `x.seq + 1 < 2^32` (decidable, pointwise).
`GenuineRing d p t` : the ring is well formed and every sample of its window is genuine.

Results (core Lean only):
* `scan_genuine`, `period_genuine`: on ANY list of genuine samples — sorted or not, with gaps,
  duplicates, ids on both sides of the wrap — `periodOfSorted want` is `−1` or the true pulse
  width: the scan only walks over entries with consecutive ids (`last.seq + 1 == p.seq`, anything
  else aborts), and on consecutive ids genuine labels are the periodic d/p pattern, so a pulse that
  is delimited by two edges is a complete one.  No hypothesis on the order of the list is needed,
  hence none on what `sort.Slice` does with ids more than 2^31 apart.
* `findPeriod_genuine`: `FindPeriod(true) ∈ {−1, d}`, `FindPeriod(false) ∈ {−1, p}` on every ring
  whose window is genuine.
* `genuineRing_init`, `genuineRing_sample`, `genuineRing_feed`: the class is inductive over
  `Sample` of genuine samples in any order; `genuine_run`: the samples of an in-order run are
  genuine; `genuine_of_sender`: ids below the sender's `paws` qualify.
-/
import KcpVerif.Lemmas.AutoTune

namespace KcpVerif.Lemmas.C16Pre
open KcpVerif.AutoTune KcpVerif.Gen KcpVerif.Lemmas.AutoTune

/-- a sample a d/p sender can have caused: the bit is the type of the id under d/p, and the id is
    not `2^32 − 1` (sender ids are below `paws ≤ 2^32 − 1`) -/
def Genuine (d p : Nat) (x : Pulse) : Prop :=
  x.bit = label d p x.seq.toNat ∧ x.seq.toNat + 1 < 2 ^ 32

instance (d p : Nat) (x : Pulse) : Decidable (Genuine d p x) := by
  unfold Genuine; infer_instance

/-- every id below the sender's wrap point `0xffffffff / n * n` qualifies -/
theorem genuine_of_sender (d p : Nat) (x : Pulse) (hb : x.bit = label d p x.seq.toNat)
    (hlt : x.seq.toNat < 0xffffffff / (d + p) * (d + p)) : Genuine d p x := by
  refine ⟨hb, ?_⟩
  have : 0xffffffff / (d + p) * (d + p) ≤ 0xffffffff := Nat.div_mul_le_self _ _
  omega

theorem genuine_pulseAt (d p k : Nat) (hk : k + 1 < 2 ^ 32) : Genuine d p (pulseAt d p k) := by
  have e : (BitVec.ofNat 32 k).toNat = k := by
    rw [BitVec.toNat_ofNat, Nat.mod_eq_of_lt (by omega)]
  refine ⟨?_, ?_⟩
  · simp only [pulseAt, e]
  · simp only [pulseAt, e]; exact hk

/-- the samples of an in-order run below `2^32 − 1` are genuine -/
theorem genuine_run {d p s len : Nat} (h : s + len < 2 ^ 32) :
    ∀ x ∈ run d p s len, Genuine d p x := by
  intro x hx
  obtain ⟨j, hj, rfl⟩ := mem_run hx
  exact genuine_pulseAt d p (s + j) (by omega)

/-! ## the scan on genuine samples -/

/-- between two genuine samples with consecutive ids the scan's edge test is `isEdge` of the id -/
theorem edge_test {d p : Nat} {last q : Pulse} (want : Bool) (hl : Genuine d p last)
    (hq : Genuine d p q) (hs : last.seq + 1 = q.seq) :
    q.seq.toNat = last.seq.toNat + 1 ∧
    ((last.bit != want) && (q.bit == want)) = isEdge d p want last.seq.toNat := by
  have h1 : q.seq.toNat = last.seq.toNat + 1 := by
    have := hl.2
    rw [← hs]
    bv_omega
  refine ⟨h1, ?_⟩
  rw [isEdge, hl.1, hq.1, h1]

/-- a successful `scanEdge` over genuine samples: it walked `t` ids upward from `last` without
    seeing an edge and found one between ids `last + t` and `last + t + 1`; the entry it stops at
    carries id `last + t + 1` -/
theorem scan_genuine {d p : Nat} (want : Bool) :
    ∀ (l : List Pulse) (last : Pulse) (idx i : Nat) (pl : Pulse) (rest : List Pulse),
      Genuine d p last → (∀ x ∈ l, Genuine d p x) →
      scanEdge want last idx l = some (i, pl, rest) →
      ∃ t, i = idx + t ∧ pl.seq.toNat = last.seq.toNat + t + 1 ∧ Genuine d p pl ∧
        (∀ x ∈ rest, Genuine d p x) ∧
        (∀ j, j < t → isEdge d p want (last.seq.toNat + j) = false) ∧
        isEdge d p want (last.seq.toNat + t) = true := by
  intro l
  induction l with
  | nil => intro last idx i pl rest _ _ h; simp only [scanEdge] at h; cases h
  | cons q l ih =>
    intro last idx i pl rest hlast hl h
    have hq : Genuine d p q := hl q (List.mem_cons_self ..)
    have hl' : ∀ x ∈ l, Genuine d p x := fun x hx => hl x (List.mem_cons_of_mem _ hx)
    simp only [scanEdge] at h
    by_cases hs : last.seq + 1 = q.seq
    · obtain ⟨hn, he⟩ := edge_test want hlast hq hs
      rw [if_pos (by simp only [hs, beq_self_eq_true])] at h
      rw [he] at h
      cases hedge : isEdge d p want last.seq.toNat with
      | true =>
        rw [hedge, if_pos rfl] at h
        simp only [Option.some.injEq, Prod.mk.injEq] at h
        obtain ⟨h1, h2, h3⟩ := h
        subst h1 h2 h3
        exact ⟨0, rfl, by omega, hq, hl', fun j hj => absurd hj (Nat.not_lt_zero j), hedge⟩
      | false =>
        rw [hedge, if_neg (by decide)] at h
        obtain ⟨t, h1, h2, h3, h4, h5, h6⟩ := ih q (idx + 1) i pl rest hq hl' h
        refine ⟨t + 1, by omega, by omega, h3, h4, ?_, ?_⟩
        · intro j hj
          rcases j with _ | j
          · exact hedge
          · have := h5 j (by omega)
            rw [hn] at this
            rw [show last.seq.toNat + (j + 1) = last.seq.toNat + 1 + j by omega]
            exact this
        · rw [hn] at h6
          rw [show last.seq.toNat + (t + 1) = last.seq.toNat + 1 + t by omega]
          exact h6
    · rw [if_neg (by simp only [beq_iff_eq]; exact hs)] at h
      cases h

/-- a pulse of `want` that starts right after id `k` and ends at the first edge to `!want` is a
    complete one: its length is `width d p want` (the arithmetic of `period_run_cases`) -/
theorem width_of_edges {d p : Nat} (hd : 0 < d) (hp : 0 < p) (want : Bool) (k t2 : Nat)
    (he1 : isEdge d p want k = true)
    (hne2 : ∀ i, i < t2 → isEdge d p (!want) (k + 1 + i) = false)
    (he2 : isEdge d p (!want) (k + 1 + t2) = true) : t2 + 1 = width d p want := by
  rw [isEdge_iff hd hp] at he1 he2
  have hne2' : ∀ i, i < t2 → (k + 1 + i + 1) % (d + p) ≠ phase d (!want) :=
    fun i hi => (isEdge_false_iff hd hp _ _).1 (hne2 i hi)
  have hw := width_pos hd hp want
  have H := hit hd hp want he1
  rcases Nat.lt_or_ge (width d p want) (t2 + 1) with hlt | hge
  · exfalso
    have := hne2' (width d p want - 1) (by omega)
    rw [show k + 1 + (width d p want - 1) + 1 = k + 1 + width d p want by omega] at this
    exact this ((H _ hw (Nat.le_refl _)).2 rfl)
  · exact (H (t2 + 1) (by omega) hge).1 he2

/-- `FindPeriod`'s scan on ANY list of genuine samples of a d/p sender returns `−1` or the true
    width.  (No sortedness, no bound on the span of the ids.) -/
theorem period_genuine {d p : Nat} (hd : 0 < d) (hp : 0 < p) (want : Bool) (w : List Pulse)
    (h : ∀ x ∈ w, Genuine d p x) :
    periodOfSorted want w = -1 ∨ periodOfSorted want w = (width d p want : Int) := by
  cases w with
  | nil => exact Or.inl rfl
  | cons p0 rest =>
    have h0 : Genuine d p p0 := h p0 (List.mem_cons_self ..)
    have hr : ∀ x ∈ rest, Genuine d p x := fun x hx => h x (List.mem_cons_of_mem _ hx)
    simp only [periodOfSorted]
    cases h1 : scanEdge want p0 1 rest with
    | none => exact Or.inl rfl
    | some v1 =>
      obtain ⟨l, pl, rest1⟩ := v1
      obtain ⟨t1, e1, s1, g1, gr1, _, he1⟩ := scan_genuine want rest p0 1 l pl rest1 h0 hr h1
      simp only
      cases h2 : scanEdge (!want) pl (l + 1) rest1 with
      | none => exact Or.inl rfl
      | some v2 =>
        obtain ⟨r, pr, rest2⟩ := v2
        obtain ⟨t2, e2, _, _, _, hne2, he2⟩ :=
          scan_genuine (!want) rest1 pl (l + 1) r pr rest2 g1 gr1 h2
        right
        simp only
        rw [s1] at hne2 he2
        have := width_of_edges hd hp want (p0.seq.toNat + t1) t2 he1 hne2 he2
        omega

theorem findPeriod_genuine {d p : Nat} {t : Tune} (hd : 0 < d) (hp : 0 < p)
    (h : ∀ x ∈ t.window, Genuine d p x) (bit : Bool) :
    t.findPeriod bit = -1 ∨ t.findPeriod bit = (width d p bit : Int) := by
  unfold Tune.findPeriod
  split
  · exact Or.inl rfl
  · exact period_genuine hd hp bit _ (fun x hx => h x (List.mem_mergeSort.mp hx))

/-! ## the class of rings reachable by feeding genuine samples -/

def GenuineRing (d p : Nat) (t : Tune) : Prop := t.WF ∧ ∀ x ∈ t.window, Genuine d p x

theorem window_init : Tune.init.window = [] := rfl

theorem genuineRing_init (d p : Nat) : GenuineRing d p Tune.init :=
  ⟨wf_init, fun x hx => by rw [window_init] at hx; exact absurd hx List.not_mem_nil⟩

/-- one `Sample` of a genuine sample (any id: older, newer, duplicate) keeps the ring genuine -/
theorem genuineRing_sample {d p : Nat} {t : Tune} (h : GenuineRing d p t) (b : Bool) (q : BitVec 32)
    (hx : Genuine d p { bit := b, seq := q }) : GenuineRing d p (t.sample b q) := by
  refine ⟨wf_sample b q h.1, ?_⟩
  intro x hm
  rw [window_sample b q h.1] at hm
  have hm' := List.mem_of_mem_drop hm
  rcases List.mem_append.mp hm' with h1 | h1
  · exact h.2 x h1
  · rw [List.mem_singleton] at h1
    rw [h1]; exact hx

theorem genuineRing_feed {d p : Nat} (l : List Pulse) {t : Tune} (h : GenuineRing d p t)
    (hl : ∀ x ∈ l, Genuine d p x) : GenuineRing d p (feed t l) := by
  induction l generalizing t with
  | nil => exact h
  | cons x l ih =>
    exact ih (genuineRing_sample h x.bit x.seq (hl x (List.mem_cons_self ..)))
      (fun y hy => hl y (List.mem_cons_of_mem _ hy))

/-- both calls of the tuning branch on a genuine ring -/
theorem findPeriod_genuineRing {d p : Nat} {t : Tune} (hd : 0 < d) (hp : 0 < p)
    (h : GenuineRing d p t) :
    (t.findPeriod true = -1 ∨ t.findPeriod true = (d : Int)) ∧
    (t.findPeriod false = -1 ∨ t.findPeriod false = (p : Int)) :=
  ⟨findPeriod_genuine hd hp h.2 true, findPeriod_genuine hd hp h.2 false⟩

/-! ## non-vacuity -/

/-- a lossy, reordered, duplicated pre-history of a 10/3 sender followed by the start of an
    in-order run: all genuine -/
def exHistory : List Pulse :=
  [pulseAt 10 3 40, pulseAt 10 3 38, pulseAt 10 3 38, pulseAt 10 3 51, pulseAt 10 3 4294967000,
   pulseAt 10 3 45] ++ run 10 3 60 30

example : ∀ x ∈ exHistory, Genuine 10 3 x := by decide +kernel

example : GenuineRing 10 3 (feed Tune.init exHistory) :=
  genuineRing_feed _ (genuineRing_init 10 3) (by decide +kernel)

example : ((feed Tune.init exHistory).findPeriod true = -1 ∨
            (feed Tune.init exHistory).findPeriod true = 10) ∧
          ((feed Tune.init exHistory).findPeriod false = -1 ∨
            (feed Tune.init exHistory).findPeriod false = 3) :=
  findPeriod_genuineRing (by decide) (by decide)
    (genuineRing_feed _ (genuineRing_init 10 3) (by decide +kernel))

/-- a sample with a wrong label is not genuine -/
example : ¬ Genuine 10 3 { bit := false, seq := 5#32 } := by decide +kernel

end KcpVerif.Lemmas.C16Pre
